(* C12_gend: Interpolation.derivative on a stored table of ANY length n >= 2 (real-number instance):
   the three nested generated loops compute  t_1 + sum_{k=n-1..2} (sum_{j<k} prod_{i<k, i<>j} (x - x_i)) * t_k,
   which for the divided-difference table is the derivative of the Newton form NF (Coquelicot is_derive). *)
From Coq Require Import Reals ZArith List Bool Lra Lia Arith String.
Set Warnings "-ambiguous-paths".
From Coquelicot Require Import Coquelicot.
From PyLib Require Import PyVal PyBuiltins Ideal Whnf PyEval.
From Spec Require Import Newton.
From Gen Require Import M_base M_Angle M_Interpolation.
From Proofs.C12 Require Import C12_gen.
Import ListNotations.
Open Scope R_scope.
Section Deriv.
Variables xf yf : nat -> R.

(* product of (x - x_i), i < m, leaving out i = j: computed as Interpolation.derivative does (s = 1.0; s *= ...) *)
Fixpoint prodEx (m j : nat) (x : R) : R :=
  match m with
  | O => 1
  | S m' => if Nat.eqb m' j then prodEx m' j x else prodEx m' j x * (x - xf m')
  end.
(* sum over j < m of prodEx k j, accumulated from 0 *)
Fixpoint sumEx (m k : nat) (x : R) : R :=
  match m with O => 0 | S m' => sumEx m' k x + prodEx k m' x end.

Lemma prodEx_ge m : forall j x, (m <= j)%nat -> prodEx m j x = W xf 0 m x.
Proof.
  induction m as [|m IH]; intros j x H; simpl; [reflexivity|].
  destruct (Nat.eqb_spec m j); [lia|]. rewrite IH by lia. reflexivity.
Qed.
Lemma sumEx_step m : forall k x, (m <= k)%nat -> sumEx m (S k) x = sumEx m k x * (x - xf k).
Proof.
  induction m as [|m IH]; intros k x H; simpl; [ring|].
  rewrite IH by lia. destruct (Nat.eqb_spec k m); [lia|]. ring.
Qed.
(* dW k := sumEx k k is the derivative of W 0 k *)
Lemma dW_S k x : sumEx (S k) (S k) x = sumEx k k x * (x - xf k) + W xf 0 k x.
Proof.
  change (sumEx (S k) (S k) x) with (sumEx k (S k) x + prodEx (S k) k x).
  rewrite sumEx_step by lia. simpl prodEx. rewrite Nat.eqb_refl. rewrite prodEx_ge by lia. reflexivity.
Qed.
Lemma W_derive k x : is_derive (W xf 0 k) x (sumEx k k x).
Proof.
  induction k as [|k IH].
  - simpl. apply (is_derive_const 1 x).
  - rewrite dW_S.
    assert (Hg : is_derive (fun t : R => t - xf k) x 1).
    { replace 1 with (1 - 0) by ring.
      apply (is_derive_minus (fun t : R => t) (fun _ : R => xf k) x 1 0);
        [apply (is_derive_id x) | apply (is_derive_const (xf k) x)]. }
    pose proof (is_derive_mult (W xf 0 k) (fun t : R => t - xf k) x (sumEx k k x) 1 IH Hg Rmult_comm) as Hm.
    apply (is_derive_ext _ (W xf 0 (S k))) in Hm; [| intro t; reflexivity].
    replace (sumEx k k x * (x - xf k) + W xf 0 k x) with (plus (mult (sumEx k k x) (x - xf k)) (mult (W xf 0 k x) 1)).
    + exact Hm.
    + unfold plus, mult. simpl. ring.
Qed.

(* derivative of the Newton form NF 0 k, summed upwards *)
Fixpoint asc (c : nat -> R) (k : nat) (x : R) : R :=
  match k with O => 0 | S k' => asc c k' x + sumEx (S k') (S k') x * c (S k') end.
(* the same terms summed downwards from N, m of them: what the generated loop accumulates *)
Fixpoint ts (c : nat -> R) (N m : nat) (x : R) : R :=
  match m with O => 0 | S m' => ts c N m' x + sumEx (N - m') (N - m') x * c (N - m')%nat end.

Lemma asc_ts c N x : forall m, (m <= N)%nat -> asc c N x = asc c (N - m) x + ts c N m x.
Proof.
  induction m as [|m IH]; intro H.
  - rewrite Nat.sub_0_r. simpl. ring.
  - rewrite IH by lia. simpl ts.
    assert (E : asc c (N - m) x = asc c (N - S m) x + sumEx (N - m) (N - m) x * c (N - m)%nat).
    { replace (N - m)%nat with (S (N - S m)) by lia. reflexivity. }
    rewrite E. ring.
Qed.

Lemma NF_derive k x : is_derive (NF xf yf 0 k) x (asc (fun m => dd xf yf m 0) k x).
Proof.
  induction k as [|k IH].
  - simpl. apply (is_derive_const (yf 0) x).
  - set (c := fun m => dd xf yf m 0).
    change (asc c (S k) x) with (asc c k x + sumEx (S k) (S k) x * dd xf yf (S k) 0).
    apply (is_derive_ext (fun t => NF xf yf 0 k t + dd xf yf (S k) 0 * W xf 0 (S k) t)); [intro t; reflexivity|].
    apply (is_derive_plus (NF xf yf 0 k) (fun t => dd xf yf (S k) 0 * W xf 0 (S k) t) x); [exact IH|].
    replace (sumEx (S k) (S k) x * dd xf yf (S k) 0) with (dd xf yf (S k) 0 * sumEx (S k) (S k) x) by ring.
    apply (is_derive_scal (W xf 0 (S k)) x (dd xf yf (S k) 0)). apply W_derive.
Qed.
End Deriv.

(* ---- loop shape of the innermost loop:  for i in l: if cond(i): s = step(i, s) ---- *)
Definition cmul_fix (K : val R -> val R -> val R) (cond : val R -> val R) (step : val R -> val R -> val R) :=
  fix loop (l : list (val R)) (i s : val R) {struct l} : val R :=
    match l with
    | [] => K i s
    | x :: l' => ifv Rops (cond x) (fun _ => bind (step x s) (fun s2 => loop l' x s2)) (fun _ => loop l' x s)
    end.

Theorem cmul_spec xf j x K cond step :
  forall r m i,
  (forall a, (m <= a < m + r)%nat -> cond (VInt (Z.of_nat a)) = VBool (negb (Nat.eqb a j))) ->
  (forall a v, (m <= a < m + r)%nat -> step (VInt (Z.of_nat a)) (VFloat v) = VFloat (v * (x - xf a))) ->
  exists i', cmul_fix K cond step (zrange_nat (Z.of_nat m) r) i (VFloat (prodEx xf m j x))
             = K i' (VFloat (prodEx xf (m + r) j x)).
Proof.
  induction r as [|r IH]; intros m i Hc Hs.
  - exists i. rewrite Nat.add_0_r. reflexivity.
  - rewrite zrange_nat_S. simpl cmul_fix. rewrite Hc by lia.
    destruct (IH (S m) (VInt (Z.of_nat m))) as [i' E];
      [intros; apply Hc; lia | intros; apply Hs; lia |].
    exists i'. fold (cmul_fix K cond step).
    replace (Z.of_nat m + 1)%Z with (Z.of_nat (S m)) by lia.
    replace (m + S r)%nat with (S m + r)%nat by lia. rewrite <- E.
    simpl prodEx. destruct (Nat.eqb m j); simpl negb.
    + reflexivity.
    + change (ifv Rops (VBool true) ?a ?b) with (a tt). cbv beta. rewrite Hs by lia. reflexivity.
Qed.

(* ---- the middle loop:  for j in l: s = inits; for i in rng: (cmul); v = upv(v, s) ---- *)
Definition mid_fix (K : val R -> val R -> val R -> val R -> val R) (inits rng : val R)
    (cond : val R -> val R -> val R) (step upv : val R -> val R -> val R) :=
  fix loop7 (l : list (val R)) (i j s v : val R) {struct l} : val R :=
    match l with
    | [] => K i j s v
    | x8 :: l' =>
        bind inits (fun s1 => bind rng (fun l130 =>
          cmul_fix (fun i1 s2 => bind (upv v s2) (fun v2 => loop7 l' i1 x8 s2 v2))
                   (fun y => cond y x8) step (seq_of l130) i s1))
    end.

Lemma mid_fix_cons K inits rng cond step upv x8 l' i j s v :
  mid_fix K inits rng cond step upv (x8 :: l') i j s v
  = bind inits (fun s1 => bind rng (fun l130 =>
      cmul_fix (fun i1 s2 => bind (upv v s2) (fun v2 => mid_fix K inits rng cond step upv l' i1 x8 s2 v2))
               (fun y => cond y x8) step (seq_of l130) i s1)).
Proof. reflexivity. Qed.

Theorem mid_spec xf kk x K rng cond step upv :
  rng = VList (zrange_nat 0 kk) ->
  (forall a b, cond (VInt (Z.of_nat a)) (VInt (Z.of_nat b)) = VBool (negb (Nat.eqb a b))) ->
  (forall a v, (a < kk)%nat -> step (VInt (Z.of_nat a)) (VFloat v) = VFloat (v * (x - xf a))) ->
  (forall v s, upv (VFloat v) (VFloat s) = VFloat (v + s)) ->
  forall r m i j s,
  exists i' j' s',
    mid_fix K (VFloat 1) rng cond step upv (zrange_nat (Z.of_nat m) r) i j s (VFloat (sumEx xf m kk x))
    = K i' j' s' (VFloat (sumEx xf (m + r) kk x)).
Proof.
  intros Hr Hc Hs Hu. subst rng. set (rng := VList (zrange_nat 0 kk)).
  induction r as [|r IH]; intros m i j s.
  - exists i, j, s. rewrite Nat.add_0_r. reflexivity.
  - rewrite zrange_nat_S, mid_fix_cons.
    change (bind (VFloat 1) ?f) with (f (VFloat 1)). cbv beta.
    unfold rng at 1. rewrite bind_VList. cbv beta.
    change (seq_of (VList (zrange_nat 0 kk))) with (@zrange_nat R 0 kk).
    destruct (cmul_spec xf m x
                (fun i1 s2 => bind (upv (VFloat (sumEx xf m kk x)) s2)
                                (fun v2 => mid_fix K (VFloat 1) rng cond step upv
                                             (zrange_nat (Z.of_nat m + 1) r) i1 (VInt (Z.of_nat m)) s2 v2))
                (fun y => cond y (VInt (Z.of_nat m))) step kk 0%nat i) as [i1 E].
    + intros a _. apply Hc.
    + intros a v Ha. apply Hs. lia.
    + change (Z.of_nat 0) with 0%Z in E. change (prodEx xf 0 m x) with 1 in E. rewrite E. cbv beta.
      rewrite Hu. change (bind (VFloat ?a) ?f) with (f (VFloat a)). cbv beta.
      replace (Z.of_nat m + 1)%Z with (Z.of_nat (S m)) by lia.
      change (sumEx xf m kk x + prodEx xf (0 + kk) m x) with (sumEx xf (S m) kk x).
      destruct (IH (S m) i1 (VInt (Z.of_nat m)) (VFloat (prodEx xf (0 + kk) m x))) as (i' & j' & s' & E').
      exists i', j', s'. rewrite E'. replace (S m + r)%nat with (m + S r)%nat by lia. reflexivity.
Qed.

(* ---- the outer loop:  for k in l: v = initv; for j in range(k): (mid); res = upr(res, v, k) ---- *)
Definition out_fix (K : val R -> val R -> val R -> val R -> val R -> val R -> val R) (initv inits : val R)
    (rng : val R -> val R) (cond : val R -> val R -> val R) (step upv : val R -> val R -> val R)
    (upr : val R -> val R -> val R -> val R) :=
  fix loop3 (l : list (val R)) (i j k res s v : val R) {struct l} : val R :=
    match l with
    | [] => K i j k res s v
    | x4 :: l' =>
        bind initv (fun v0 => bind (rng x4) (fun l90 =>
          mid_fix (fun i0 j0 s0 v1 => bind (upr res v1 x4) (fun res1 => loop3 l' i0 j0 x4 res1 s0 v1))
                  inits (rng x4) cond step upv (seq_of l90) i j s v0))
    end.

(* what the outer loop adds to res, in its own (descending) order: k = r+1, r, ..., 2 *)
Fixpoint racc (f : nat -> R) (r : nat) (acc : R) : R :=
  match r with O => acc | S r' => racc f r' (acc + f (S (S r'))) end.

Lemma out_fix_cons K initv inits rng cond step upv upr x4 l' i j k res s v :
  out_fix K initv inits rng cond step upv upr (x4 :: l') i j k res s v
  = bind initv (fun v0 => bind (rng x4) (fun l90 =>
      mid_fix (fun i0 j0 s0 v1 => bind (upr res v1 x4)
                 (fun res1 => out_fix K initv inits rng cond step upv upr l' i0 j0 x4 res1 s0 v1))
              inits (rng x4) cond step upv (seq_of l90) i j s v0)).
Proof. reflexivity. Qed.

Theorem out_spec xf (c : nat -> R) n x K rng cond step upv upr :
  (forall k, rng (VInt (Z.of_nat k)) = VList (zrange_nat 0 k)) ->
  (forall a b, cond (VInt (Z.of_nat a)) (VInt (Z.of_nat b)) = VBool (negb (Nat.eqb a b))) ->
  (forall a v, (a < n)%nat -> step (VInt (Z.of_nat a)) (VFloat v) = VFloat (v * (x - xf a))) ->
  (forall v s, upv (VFloat v) (VFloat s) = VFloat (v + s)) ->
  (forall res v k, (k < n)%nat -> upr (VFloat res) (VFloat v) (VInt (Z.of_nat k)) = VFloat (res + v * c k)) ->
  forall r i j k acc s v, (S r < n)%nat ->
  exists i' j' k' s' v',
    out_fix K (VFloat 0) (VFloat 1) rng cond step upv upr
            (zrange_step (Z.of_nat (S r)) (-1) r) i j k (VFloat acc) s v
    = K i' j' k' (VFloat (racc (fun kk => sumEx xf kk kk x * c kk) r acc)) s' v'.
Proof.
  intros Hr Hc Hs Hu Hp. induction r as [|r IH]; intros i j k acc s v Hn.
  - exists i, j, k, s, v. reflexivity.
  - rewrite zrange_step_S, out_fix_cons.
    change (bind (VFloat 0) ?f) with (f (VFloat 0)). cbv beta.
    rewrite (Hr (S (S r))). rewrite bind_VList. cbv beta.
    change (seq_of (VList (zrange_nat 0 (S (S r))))) with (@zrange_nat R 0 (S (S r))).
    destruct (mid_spec xf (S (S r)) x
                (fun i0 j0 s0 v1 => bind (upr (VFloat acc) v1 (VInt (Z.of_nat (S (S r)))))
                   (fun res1 => out_fix K (VFloat 0) (VFloat 1) rng cond step upv upr
                                  (zrange_step (Z.of_nat (S (S r)) + -1) (-1) r) i0 j0 (VInt (Z.of_nat (S (S r)))) res1 s0 v1))
                (VList (zrange_nat 0 (S (S r)))) cond step upv eq_refl Hc
                ltac:(intros a v0 Ha; apply Hs; lia) Hu (S (S r)) 0%nat i j s) as (i1 & j1 & s1 & E).
    change (Z.of_nat 0) with 0%Z in E. change (sumEx xf 0 (S (S r)) x) with 0 in E.
    rewrite E. cbv beta. rewrite Hp by lia.
    change (bind (VFloat ?a) ?f) with (f (VFloat a)). cbv beta.
    replace (Z.of_nat (S (S r)) + -1)%Z with (Z.of_nat (S r)) by lia.
    destruct (IH i1 j1 (VInt (Z.of_nat (S (S r)))) (acc + sumEx xf (0 + S (S r)) (S (S r)) x * c (S (S r))) s1
                 (VFloat (sumEx xf (0 + S (S r)) (S (S r)) x)) ltac:(lia)) as (i' & j' & k' & s' & v' & E').
    exists i', j', k', s', v'. rewrite E'. reflexivity.
Qed.

Lemma racc_S f r acc : racc f (S r) acc = racc f r (acc + f (S (S r))).
Proof. reflexivity. Qed.
Lemma ts_S xf c N m x : ts xf c N (S m) x = ts xf c N m x + sumEx xf (N - m) (N - m) x * c (N - m)%nat.
Proof. reflexivity. Qed.
Lemma racc_ts xf c N x : forall r t1, (r <= N - 1)%nat ->
  racc (fun kk => sumEx xf kk kk x * c kk) r (t1 + ts xf c N (N - 1 - r) x) = t1 + ts xf c N (N - 1) x.
Proof.
  induction r as [|r IH]; intros t1 H.
  - simpl racc. rewrite Nat.sub_0_r. reflexivity.
  - rewrite racc_S. rewrite <- (IH t1) by lia. f_equal.
    replace (N - 1 - r)%nat with (S (N - 1 - S r)) by lia. rewrite ts_S.
    replace (N - (N - 1 - S r))%nat with (S (S r)) by lia. ring.
Qed.

Lemma range3_down1 r :
  py_iter (py_range3 (@VInt R (Z.of_nat (S r))) (VInt 1) (VInt (-1))) = VList (zrange_step (Z.of_nat (S r)) (-1) r).
Proof.
  unfold py_range3. cbn [norm].
  change ((-1 =? 0)%Z) with false. change ((0 <? -1)%Z) with false. cbv iota.
  change (- (-1))%Z with 1%Z. rewrite Z.div_1_r.
  replace (Z.of_nat (S r) - 1 - -1 - 1)%Z with (Z.of_nat r) by lia. rewrite Nat2Z.id. reflexivity.
Qed.
Lemma lit0 : Rlit 0 (-1) = 0. Proof. unfold Rlit. simpl. lra. Qed.
Lemma lit1 : Rlit 10 (-1) = 1. Proof. unfold Rlit. simpl. lra. Qed.

Section DerivModel.
Variables xs ys tbl : list R.
Hypothesis Htl : List.length tbl = List.length xs.
Hypothesis Hn : (3 <= List.length xs)%nat.
Notation xf := (nthR xs).
Notation T := (tobj xs ys (flist tbl)).

Lemma derivative_gen x : xf 0 <= x -> x <= xf (List.length xs - 1) ->
  Interpolation_derivative Rops T (VFloat x)
  = VFloat (nthR tbl 1 + ts xf (nthR tbl) (List.length xs - 1) (List.length xs - 2) x).
Proof.
  intros Hlo Hhi. unfold Interpolation_derivative, tobj, flist.
  getf0.
  match goal with |- context [?f Rops (py_len (VList (map VFloat xs))) (VInt 2)] =>
    assert (E2 : f Rops (py_len (VList (map VFloat xs))) (VInt 2) = VBool false) end.
  { cbv -[Z.of_nat List.length List.map Z.eqb]. rewrite map_length.
    destruct (Z.eqb_spec (Z.of_nat (List.length xs)) 2); [lia | reflexivity]. }
  rewrite E2. clear E2.
  grun.
  set (n := List.length xs) in *.
  match goal with |- context [py_range3 ?a _ _] =>
    assert (Ea : a = VInt (Z.of_nat (S (n - 2)))) end.
  { simpl py_len. rewrite map_length, Htl. fold n. grun. f_equal. lia. }
  rewrite Ea, range3_down1, bind_VList. cbv beta. clear Ea.
  match goal with |- context [seq_of (VList ?l)] => change (seq_of (VList l)) with l end.
  match goal with |- context [f_lit Rops 0 (-1) ?h] => change (f_lit Rops 0 (-1) h) with (Rlit 0 (-1)) end.
  match goal with |- context [f_lit Rops 10 (-1) ?h] => change (f_lit Rops 10 (-1) h) with (Rlit 10 (-1)) end.
  rewrite lit0, lit1.
  match goal with |- ?f _ _ _ _ _ _ _ = _ =>
     let g := open_constr:(out_fix _ _ _ _ _ _ _ _) in unify f g; change f with g end.
  match goal with |- out_fix ?KK _ _ ?rrng ?ccond ?sstep ?uupv ?uupr _ ?ii ?jj ?kk (VFloat ?aacc) ?ss ?vv = _ =>
    destruct (out_spec xf (nthR tbl) n x KK rrng ccond sstep uupv uupr) with (r := (n - 2)%nat)
      (i := ii) (j := jj) (k := kk) (acc := aacc) (s := ss) (v := vv) as (i' & j' & k' & s' & v' & E)
  end.
  - intro k. cbv beta. unfold py_range. cbn [norm py_iter]. rewrite Z.sub_0_r, Nat2Z.id. reflexivity.
  - intros a b. cbv -[Z.of_nat Z.eqb Nat.eqb negb].
    destruct (Z.eqb_spec (Z.of_nat a) (Z.of_nat b)), (Nat.eqb_spec a b); try reflexivity; lia.
  - intros a v Ha. cbv beta. fold n in Ha. grun. reflexivity.
  - intros v s. grun. reflexivity.
  - intros res v k Hk. cbv beta. assert (k < List.length tbl)%nat by lia. grun. reflexivity.
  - lia.
  - rewrite E. cbv beta. f_equal.
    replace (n - 2)%nat with (n - 1 - 1)%nat by lia.
    rewrite <- (racc_ts xf (nthR tbl) (n - 1) x (n - 1 - 1) (nthR tbl 1)) by lia.
    rewrite Nat.sub_diag. simpl ts. f_equal. ring.
Qed.
(* outside the table: ValueError, for a table of any length >= 1 *)
Lemma derivative_outside x : x < xf 0 \/ xf (List.length xs - 1) < x ->
  Interpolation_derivative Rops T (VFloat x) = VErr ValueError.
Proof.
  intros Hout. unfold Interpolation_derivative, tobj, flist. getf0.
  destruct Hout as [Hlo | Hhi].
  - grun. reflexivity.
  - destruct (Rlt_dec x (xf 0)) as [Hlo | Hlo].
    + grun. reflexivity.
    + assert (Hge : xf 0 <= x) by lra. grun. reflexivity.
Qed.
Definition Dcall (x : R) : R :=
  nthR tbl 1 + ts xf (nthR tbl) (List.length xs - 1) (List.length xs - 2) x.
Lemma deriv_total x :
  Interpolation_derivative Rops T (VFloat x) = VFloat (Dcall x)
  \/ Interpolation_derivative Rops T (VFloat x) = VErr ValueError.
Proof.
  destruct (Rlt_dec x (xf 0)) as [Lo | Lo]; [right; apply derivative_outside; auto |].
  destruct (Rlt_dec (xf (List.length xs - 1)) x) as [Hi | Hi]; [right; apply derivative_outside; auto |].
  left. apply derivative_gen; lra.
Qed.
End DerivModel.

(* two points: the slope of the chord *)
Lemma derivative_two a b c d tb x : a <= x <= b -> b - a <> 0 ->
  Interpolation_derivative Rops (tobj [a; b] [c; d] tb) (VFloat x) = VFloat ((d - c) / (b - a)).
Proof.
  intros Hx Hab. unfold Interpolation_derivative, tobj, flist.
  assert (H0 : nthR [a; b] 0 <= x) by (unfold nthR; simpl; lra).
  assert (H1 : x <= nthR [a; b] (List.length [a; b] - 1)) by (unfold nthR; simpl; lra).
  assert (HN : nthR [a; b] 1 - nthR [a; b] 0 <> 0) by (unfold nthR; simpl; exact Hab).
  getf0.
  match goal with |- context [?f Rops (py_len (VList (map VFloat [a; b]))) (VInt 2)] =>
    assert (E2 : f Rops (py_len (VList (map VFloat [a; b]))) (VInt 2) = VBool true) by reflexivity end.
  rewrite E2. clear E2.
  grun. reflexivity.
Qed.

Lemma ts_ext xf c c' N x : forall m, (forall k, (k <= N)%nat -> c k = c' k) -> ts xf c N m x = ts xf c' N m x.
Proof.
  induction m as [|m IH]; intro H; [reflexivity|].
  rewrite !ts_S. rewrite IH by exact H. rewrite (H (N - m)%nat) by lia. reflexivity.
Qed.

(* end to end: on the object _compute_table leaves behind, derivative(x) IS the derivative of the Newton form
   through all n >= 3 points (for n = 2 see derivative_two: the slope of the chord = dd 1 0) *)
Theorem derivative_any xs ys x : List.length ys = List.length xs -> separated xs -> (3 <= List.length xs)%nat ->
  nthR xs 0 <= x -> x <= nthR xs (List.length xs - 1) ->
  exists d, Interpolation_derivative Rops (built xs ys) (VFloat x) = VFloat d
            /\ is_derive (NF (nthR xs) (nthR ys) 0 (List.length xs - 1)) x d.
Proof.
  intros L S Hn Hlo Hhi. unfold built.
  set (n := List.length xs) in *. set (c := fun m => dd (nthR xs) (nthR ys) m 0).
  exists (asc (nthR xs) c (n - 1) x). split.
  - rewrite (derivative_gen xs ys (ddtab xs ys n)); [| unfold ddtab; rewrite map_length, seq_length; reflexivity | exact Hn | exact Hlo | exact Hhi].
    fold n. f_equal.
    rewrite (asc_ts (nthR xs) c (n - 1) x (n - 2)) by lia.
    replace (n - 1 - (n - 2))%nat with 1%nat by lia.
    rewrite (ts_ext (nthR xs) (nthR (ddtab xs ys n)) c (n - 1) x (n - 2))
      by (intros k Hk; apply nthR_ddtab; lia).
    rewrite (nthR_ddtab xs ys n 1) by lia. simpl asc. unfold c. ring.
  - apply NF_derive.
Qed.
