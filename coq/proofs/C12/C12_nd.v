(* C12_nd: Interpolation._newton_diff on symbolic 3- and 4-point tables is the divided difference.
   The doubly recursive generated function is unfolded ONE level at a time (cbn on that constant only),
   arguments evaluated first (crun), sub-results supplied as hypotheses; levels are then chained.
   The coefficient table field may hold 0..4 entries (it grows during _compute_table). *)
From Coq Require Import Reals ZArith List Bool Lra Lia String.
From PyLib Require Import PyVal PyBuiltins Ideal Whnf PyEval.
From Gen Require Import M_base M_Angle M_Interpolation.
From Proofs.C12 Require Import C12_tac.
Import ListNotations.
Open Scope R_scope.
Notation nd := (Interpolation__newton_diff_rec Rops).

Ltac tb_cases tb H :=
  destruct tb as [|? [|? [|? [|? [|? ?]]]]]; try (exfalso; simpl in H; lia); clear H.

Section T3.
Variables x1 x2 x3 y1 y2 y3 : R.
Hypothesis H12 : x1 + tol0 <= x2.
Hypothesis H23 : x2 + tol0 <= x3.
Notation T tb := (obj [x1; x2; x3] [y1; y2; y3] tb).
Ltac nd_run := unfold obj, flist in *; cbn [map Interpolation__newton_diff_rec] in *; crun; reflexivity.
Lemma b3_0 f tb : (List.length tb <= 4)%nat -> nd (S f) (T tb) (VInt 0) (VInt 0) = VFloat y1.
Proof. intros L. tb_cases tb L. 1: nd_run. 1: nd_run. 1: nd_run. 1: nd_run. 1: nd_run. Qed.
Lemma b3_1 f tb : (List.length tb <= 4)%nat -> nd (S f) (T tb) (VInt 1) (VInt 1) = VFloat y2.
Proof. intros L. tb_cases tb L. 1: nd_run. 1: nd_run. 1: nd_run. 1: nd_run. 1: nd_run. Qed.
Lemma b3_2 f tb : (List.length tb <= 4)%nat -> nd (S f) (T tb) (VInt 2) (VInt 2) = VFloat y3.
Proof. intros L. tb_cases tb L. 1: nd_run. 1: nd_run. 1: nd_run. 1: nd_run. 1: nd_run. Qed.
Lemma s3_0_1 f tb a b : (List.length tb <= 4)%nat -> nd f (T tb) (VInt 0) (VInt 0) = VFloat a -> nd f (T tb) (VInt 1) (VInt 1) = VFloat b ->
  nd (S f) (T tb) (VInt 0) (VInt 1) = VFloat ((a - b) / (x1 - x2)).
Proof. intros L Ha Hb. tb_cases tb L. 1: nd_run. 1: nd_run. 1: nd_run. 1: nd_run. 1: nd_run. Qed.
Lemma s3_1_2 f tb a b : (List.length tb <= 4)%nat -> nd f (T tb) (VInt 1) (VInt 1) = VFloat a -> nd f (T tb) (VInt 2) (VInt 2) = VFloat b ->
  nd (S f) (T tb) (VInt 1) (VInt 2) = VFloat ((a - b) / (x2 - x3)).
Proof. intros L Ha Hb. tb_cases tb L. 1: nd_run. 1: nd_run. 1: nd_run. 1: nd_run. 1: nd_run. Qed.
Lemma s3_0_2 f tb a b : (List.length tb <= 4)%nat -> nd f (T tb) (VInt 0) (VInt 1) = VFloat a -> nd f (T tb) (VInt 1) (VInt 2) = VFloat b ->
  nd (S f) (T tb) (VInt 0) (VInt 2) = VFloat ((a - b) / (x1 - x3)).
Proof. intros L Ha Hb. tb_cases tb L. 1: nd_run. 1: nd_run. 1: nd_run. 1: nd_run. 1: nd_run. Qed.
Lemma c3_0_1 f tb : (List.length tb <= 4)%nat -> nd (S (S f)) (T tb) (VInt 0) (VInt 1) = VFloat (dd2 x1 x2 y1 y2).
Proof. intros L. rewrite (s3_0_1 _ tb _ _ L (b3_0 _ tb L) (b3_1 _ tb L)). reflexivity. Qed.
Lemma c3_1_2 f tb : (List.length tb <= 4)%nat -> nd (S (S f)) (T tb) (VInt 1) (VInt 2) = VFloat (dd2 x2 x3 y2 y3).
Proof. intros L. rewrite (s3_1_2 _ tb _ _ L (b3_1 _ tb L) (b3_2 _ tb L)). reflexivity. Qed.
Lemma c3_0_2 f tb : (List.length tb <= 4)%nat -> nd (S (S (S f))) (T tb) (VInt 0) (VInt 2) = VFloat (dd3 x1 x2 x3 y1 y2 y3).
Proof. intros L. rewrite (s3_0_2 _ tb _ _ L (c3_0_1 _ tb L) (c3_1_2 _ tb L)). reflexivity. Qed.
Lemma top3_0 tb : (List.length tb <= 4)%nat -> Interpolation__newton_diff Rops (T tb) (VInt 0) (VInt 0) = VFloat y1.
Proof. intros L. unfold Interpolation__newton_diff. change rec_fuel with ((S 63%nat)). apply b3_0; exact L. Qed.
Lemma top3_1 tb : (List.length tb <= 4)%nat -> Interpolation__newton_diff Rops (T tb) (VInt 0) (VInt 1) = VFloat (dd2 x1 x2 y1 y2).
Proof. intros L. unfold Interpolation__newton_diff. change rec_fuel with ((S (S 62%nat))). apply c3_0_1; exact L. Qed.
Lemma top3_2 tb : (List.length tb <= 4)%nat -> Interpolation__newton_diff Rops (T tb) (VInt 0) (VInt 2) = VFloat (dd3 x1 x2 x3 y1 y2 y3).
Proof. intros L. unfold Interpolation__newton_diff. change rec_fuel with ((S (S (S 61%nat)))). apply c3_0_2; exact L. Qed.
End T3.

Section T4.
Variables x1 x2 x3 x4 y1 y2 y3 y4 : R.
Hypothesis H12 : x1 + tol0 <= x2.
Hypothesis H23 : x2 + tol0 <= x3.
Hypothesis H34 : x3 + tol0 <= x4.
Notation T tb := (obj [x1; x2; x3; x4] [y1; y2; y3; y4] tb).
Ltac nd_run := unfold obj, flist in *; cbn [map Interpolation__newton_diff_rec] in *; crun; reflexivity.
Lemma b4_0 f tb : (List.length tb <= 4)%nat -> nd (S f) (T tb) (VInt 0) (VInt 0) = VFloat y1.
Proof. intros L. tb_cases tb L. 1: nd_run. 1: nd_run. 1: nd_run. 1: nd_run. 1: nd_run. Qed.
Lemma b4_1 f tb : (List.length tb <= 4)%nat -> nd (S f) (T tb) (VInt 1) (VInt 1) = VFloat y2.
Proof. intros L. tb_cases tb L. 1: nd_run. 1: nd_run. 1: nd_run. 1: nd_run. 1: nd_run. Qed.
Lemma b4_2 f tb : (List.length tb <= 4)%nat -> nd (S f) (T tb) (VInt 2) (VInt 2) = VFloat y3.
Proof. intros L. tb_cases tb L. 1: nd_run. 1: nd_run. 1: nd_run. 1: nd_run. 1: nd_run. Qed.
Lemma b4_3 f tb : (List.length tb <= 4)%nat -> nd (S f) (T tb) (VInt 3) (VInt 3) = VFloat y4.
Proof. intros L. tb_cases tb L. 1: nd_run. 1: nd_run. 1: nd_run. 1: nd_run. 1: nd_run. Qed.
Lemma s4_0_1 f tb a b : (List.length tb <= 4)%nat -> nd f (T tb) (VInt 0) (VInt 0) = VFloat a -> nd f (T tb) (VInt 1) (VInt 1) = VFloat b ->
  nd (S f) (T tb) (VInt 0) (VInt 1) = VFloat ((a - b) / (x1 - x2)).
Proof. intros L Ha Hb. tb_cases tb L. 1: nd_run. 1: nd_run. 1: nd_run. 1: nd_run. 1: nd_run. Qed.
Lemma s4_1_2 f tb a b : (List.length tb <= 4)%nat -> nd f (T tb) (VInt 1) (VInt 1) = VFloat a -> nd f (T tb) (VInt 2) (VInt 2) = VFloat b ->
  nd (S f) (T tb) (VInt 1) (VInt 2) = VFloat ((a - b) / (x2 - x3)).
Proof. intros L Ha Hb. tb_cases tb L. 1: nd_run. 1: nd_run. 1: nd_run. 1: nd_run. 1: nd_run. Qed.
Lemma s4_2_3 f tb a b : (List.length tb <= 4)%nat -> nd f (T tb) (VInt 2) (VInt 2) = VFloat a -> nd f (T tb) (VInt 3) (VInt 3) = VFloat b ->
  nd (S f) (T tb) (VInt 2) (VInt 3) = VFloat ((a - b) / (x3 - x4)).
Proof. intros L Ha Hb. tb_cases tb L. 1: nd_run. 1: nd_run. 1: nd_run. 1: nd_run. 1: nd_run. Qed.
Lemma s4_0_2 f tb a b : (List.length tb <= 4)%nat -> nd f (T tb) (VInt 0) (VInt 1) = VFloat a -> nd f (T tb) (VInt 1) (VInt 2) = VFloat b ->
  nd (S f) (T tb) (VInt 0) (VInt 2) = VFloat ((a - b) / (x1 - x3)).
Proof. intros L Ha Hb. tb_cases tb L. 1: nd_run. 1: nd_run. 1: nd_run. 1: nd_run. 1: nd_run. Qed.
Lemma s4_1_3 f tb a b : (List.length tb <= 4)%nat -> nd f (T tb) (VInt 1) (VInt 2) = VFloat a -> nd f (T tb) (VInt 2) (VInt 3) = VFloat b ->
  nd (S f) (T tb) (VInt 1) (VInt 3) = VFloat ((a - b) / (x2 - x4)).
Proof. intros L Ha Hb. tb_cases tb L. 1: nd_run. 1: nd_run. 1: nd_run. 1: nd_run. 1: nd_run. Qed.
Lemma s4_0_3 f tb a b : (List.length tb <= 4)%nat -> nd f (T tb) (VInt 0) (VInt 2) = VFloat a -> nd f (T tb) (VInt 1) (VInt 3) = VFloat b ->
  nd (S f) (T tb) (VInt 0) (VInt 3) = VFloat ((a - b) / (x1 - x4)).
Proof. intros L Ha Hb. tb_cases tb L. 1: nd_run. 1: nd_run. 1: nd_run. 1: nd_run. 1: nd_run. Qed.
Lemma c4_0_1 f tb : (List.length tb <= 4)%nat -> nd (S (S f)) (T tb) (VInt 0) (VInt 1) = VFloat (dd2 x1 x2 y1 y2).
Proof. intros L. rewrite (s4_0_1 _ tb _ _ L (b4_0 _ tb L) (b4_1 _ tb L)). reflexivity. Qed.
Lemma c4_1_2 f tb : (List.length tb <= 4)%nat -> nd (S (S f)) (T tb) (VInt 1) (VInt 2) = VFloat (dd2 x2 x3 y2 y3).
Proof. intros L. rewrite (s4_1_2 _ tb _ _ L (b4_1 _ tb L) (b4_2 _ tb L)). reflexivity. Qed.
Lemma c4_2_3 f tb : (List.length tb <= 4)%nat -> nd (S (S f)) (T tb) (VInt 2) (VInt 3) = VFloat (dd2 x3 x4 y3 y4).
Proof. intros L. rewrite (s4_2_3 _ tb _ _ L (b4_2 _ tb L) (b4_3 _ tb L)). reflexivity. Qed.
Lemma c4_0_2 f tb : (List.length tb <= 4)%nat -> nd (S (S (S f))) (T tb) (VInt 0) (VInt 2) = VFloat (dd3 x1 x2 x3 y1 y2 y3).
Proof. intros L. rewrite (s4_0_2 _ tb _ _ L (c4_0_1 _ tb L) (c4_1_2 _ tb L)). reflexivity. Qed.
Lemma c4_1_3 f tb : (List.length tb <= 4)%nat -> nd (S (S (S f))) (T tb) (VInt 1) (VInt 3) = VFloat (dd3 x2 x3 x4 y2 y3 y4).
Proof. intros L. rewrite (s4_1_3 _ tb _ _ L (c4_1_2 _ tb L) (c4_2_3 _ tb L)). reflexivity. Qed.
Lemma c4_0_3 f tb : (List.length tb <= 4)%nat -> nd (S (S (S (S f)))) (T tb) (VInt 0) (VInt 3) = VFloat (dd4 x1 x2 x3 x4 y1 y2 y3 y4).
Proof. intros L. rewrite (s4_0_3 _ tb _ _ L (c4_0_2 _ tb L) (c4_1_3 _ tb L)). reflexivity. Qed.
Lemma top4_0 tb : (List.length tb <= 4)%nat -> Interpolation__newton_diff Rops (T tb) (VInt 0) (VInt 0) = VFloat y1.
Proof. intros L. unfold Interpolation__newton_diff. change rec_fuel with ((S 63%nat)). apply b4_0; exact L. Qed.
Lemma top4_1 tb : (List.length tb <= 4)%nat -> Interpolation__newton_diff Rops (T tb) (VInt 0) (VInt 1) = VFloat (dd2 x1 x2 y1 y2).
Proof. intros L. unfold Interpolation__newton_diff. change rec_fuel with ((S (S 62%nat))). apply c4_0_1; exact L. Qed.
Lemma top4_2 tb : (List.length tb <= 4)%nat -> Interpolation__newton_diff Rops (T tb) (VInt 0) (VInt 2) = VFloat (dd3 x1 x2 x3 y1 y2 y3).
Proof. intros L. unfold Interpolation__newton_diff. change rec_fuel with ((S (S (S 61%nat)))). apply c4_0_2; exact L. Qed.
Lemma top4_3 tb : (List.length tb <= 4)%nat -> Interpolation__newton_diff Rops (T tb) (VInt 0) (VInt 3) = VFloat (dd4 x1 x2 x3 x4 y1 y2 y3 y4).
Proof. intros L. unfold Interpolation__newton_diff. change rec_fuel with ((S (S (S (S 60%nat))))). apply c4_0_3; exact L. Qed.
End T4.
