(* C12_gen: Interpolation on a stored table of ANY length (symbolic lists of reals), real-number instance. *)
From Coq Require Import Reals ZArith List Bool Lra Lia String.
From PyLib Require Import PyVal PyBuiltins Ideal Whnf PyEval.
From Spec Require Import Newton.
From Gen Require Import M_base M_Angle M_Interpolation.
Import ListNotations.
Open Scope R_scope.

Definition tol0 : R := Rlit 1 (-10).
Definition flist (l : list R) : val R := VList (map VFloat l).
Definition tobj (xs ys : list R) (tb : val R) : val R := VObj cInterpolation [flist xs; flist ys; tb; VFloat tol0].
Definition nthR (l : list R) (i : nat) : R := nth i l 0.

Lemma bind_VList (l : list (val R)) (k : val R -> val R) : bind (VList l) k = k (VList l).
Proof. reflexivity. Qed.
Lemma bind_VObj c (l : list (val R)) (k : val R -> val R) : bind (VObj c l) k = k (VObj c l).
Proof. reflexivity. Qed.
Lemma append_VFloat (l : list (val R)) (a : R) : py_append (VList l) (VFloat a) = VList (l ++ [VFloat a]).
Proof. reflexivity. Qed.

Lemma tol0_pos : 0 < tol0 < 1. Proof. unfold tol0. Rlit_norm. lra. Qed.

Lemma nth_val_nth (l : list (val R)) i x :
  nth_error l i = Some x -> nth_val l (Z.of_nat i) = x.
Proof.
  intro H.
  assert (i < List.length l)%nat as Hi by (apply nth_error_Some; congruence).
  assert ((Z.of_nat i <? 0)%Z = false) as E1 by (apply Z.ltb_ge; lia).
  assert ((Z.of_nat (List.length l) <=? Z.of_nat i)%Z = false) as E2 by (apply Z.leb_gt; lia).
  unfold nth_val. cbv zeta. rewrite E1. cbv iota. rewrite E1. rewrite E2. simpl orb. cbv iota.
  rewrite Nat2Z.id. apply nth_error_nth. assumption.
Qed.
Lemma getitem_flist (l : list R) i : (i < List.length l)%nat ->
  py_getitem Rops (VList (map VFloat l)) (VInt (Z.of_nat i)) = VFloat (nthR l i).
Proof.
  intro H. simpl. apply nth_val_nth. rewrite nth_error_map.
  unfold nthR. rewrite (nth_error_nth' l 0 H). reflexivity.
Qed.

Lemma getitem_first (l : list R) : (0 < List.length l)%nat ->
  py_getitem Rops (VList (map VFloat l)) (VInt 0) = VFloat (nthR l 0).
Proof. intro H. exact (getitem_flist l 0 H). Qed.
Lemma getitem_last (l : list R) : (0 < List.length l)%nat ->
  py_getitem Rops (VList (map VFloat l)) (VInt (-1)) = VFloat (nthR l (List.length l - 1)).
Proof.
  intro H. rewrite <- (getitem_flist l (List.length l - 1)) by lia.
  simpl py_getitem. unfold nth_val. cbv zeta. rewrite map_length.
  assert (E1 : (-1 <? 0)%Z = true) by reflexivity. rewrite E1. cbv iota.
  assert (E2 : (Z.of_nat (List.length l - 1) <? 0)%Z = false) by (apply Z.ltb_ge; lia). rewrite E2. cbv iota.
  replace (-1 + Z.of_nat (List.length l))%Z with (Z.of_nat (List.length l - 1)) by lia. reflexivity.
Qed.
Lemma range3_down m :
  py_iter (py_range3 (@VInt R (Z.of_nat m)) (VInt 0) (VInt (-1))) = VList (zrange_step (Z.of_nat m) (-1) m).
Proof.
  unfold py_range3. cbn [norm].
  change ((-1 =? 0)%Z) with false. change ((0 <? -1)%Z) with false. cbv iota.
  change (- (-1))%Z with 1%Z. rewrite Z.div_1_r.
  replace (Z.of_nat m - 0 - -1 - 1)%Z with (Z.of_nat m) by lia. rewrite Nat2Z.id. reflexivity.
Qed.

Ltac2 Set Whnf.is_blocked as old := fun c =>
  Ltac2.Bool.or (old c) (Ltac2.List.exist (Ltac2.Constr.equal c)
    ['@Interpolation__newton_diff_rec; '@Interpolation__newton_diff; 'rec_fuel; '@py_getitem;
     '@List.length; '@List.map; '@Z.of_nat; '@nthR]).

Ltac neq_tac := match goal with H : ?a <> ?b |- ?c <> ?d => intro; apply H; lra end.
Ltac gtac := cbn [zf f_of_Z Rops RopsC]; first [assumption | neq_tac | (unfold tol0 in *; pylra)].
Ltac pyrunv_hook s tac ::=
  lazymatch s with
  | py_getitem _ (VList (map VFloat ?l)) (VInt (Z.of_nat ?i)) => rewrite (getitem_flist l i) by lia
  | py_getitem _ (VList (map VFloat ?l)) (VInt (Z.of_nat ?i - 1)) =>
      replace (Z.of_nat i - 1)%Z with (Z.of_nat (i - 1)) by lia; rewrite (getitem_flist l (i - 1)%nat) by lia
  | py_getitem _ (VList (map VFloat ?l)) (VInt 1) =>
      change (py_getitem Rops (VList (map VFloat l)) (VInt 1)) with (py_getitem Rops (VList (map VFloat l)) (VInt (Z.of_nat 1)));
      rewrite (getitem_flist l 1%nat) by (first [lia | simpl; lia])
  | py_getitem _ (VList (map VFloat ?l)) (VInt 0) => rewrite (getitem_first l) by (first [lia | simpl; lia])
  | py_getitem _ (VList (map VFloat ?l)) (VInt (-1)) => rewrite (getitem_last l) by (first [lia | simpl; lia])
  | context [get_field ?c ?i (VObj ?c' ?l)] =>
      let v := eval cbv [get_field cInterpolation Pos.eqb nth] in (get_field c i (VObj c' l)) in
      change (get_field c i (VObj c' l)) with v
  end.
Ltac grun := pyrunv_using gtac.

(* a bind whose argument evaluates to a list/object that is not a literal (symbolic table) *)
Ltac bstep :=
  lazymatch goal with
  | |- bind ?e ?k = _ =>
      let H := fresh "Hb" in
      eassert (H : e = _) by (whnf_lhs; reflexivity); rewrite H; clear H;
      first [rewrite bind_VList | rewrite bind_VObj]; cbv beta
  end.

Notation nd := (Interpolation__newton_diff_rec Rops).

(* ---- generic loop shapes of the translator (nothing here mentions the generated model) ---- *)
Lemma zrange_nat_S a n : zrange_nat a (S n) = VInt a :: @zrange_nat R (a + 1) n.
Proof. reflexivity. Qed.
Lemma range_len (l : list (val R)) :
  py_iter (py_range (@VInt R 0) (py_len (VList l))) = VList (zrange_nat 0 (List.length l)).
Proof. simpl. unfold py_range. cbn [norm]. rewrite Z.sub_0_r, Nat2Z.id. reflexivity. Qed.

(* for x in l: s = body(x, s)   (statement followed by a no-value statement) *)
Definition acc2_fix (K : val R -> val R -> val R) (body : val R -> val R -> val R) :=
  fix loop (l : list (val R)) (k s : val R) {struct l} : val R :=
    match l with
    | [] => K k s
    | x :: l' => bind (body x s) (fun s2 => bind VNone (fun _ => loop l' x s2))
    end.

Theorem acc2_spec K body (St : nat -> val R) :
  (forall j, exists c l, St j = VObj c l) ->
  forall r m k,
  (forall j, (m <= j < m + r)%nat -> body (VInt (Z.of_nat j)) (St j) = St (S j)) ->
  exists k', acc2_fix K body (zrange_nat (Z.of_nat m) r) k (St m) = K k' (St (m + r)%nat).
Proof.
  intros Hobj. induction r as [|r IH]; intros m k Hb.
  - exists k. rewrite Nat.add_0_r. reflexivity.
  - rewrite zrange_nat_S. simpl acc2_fix. rewrite Hb by lia.
    destruct (Hobj (S m)) as (c & l & E). rewrite E. rewrite bind_VObj. rewrite <- E.
    change (bind VNone ?f) with (f VNone). cbv beta.
    destruct (IH (S m) (VInt (Z.of_nat m))) as [k' E'].
    + intros j Hj. apply Hb. lia.
    + exists k'. fold (acc2_fix K body).
      replace (Z.of_nat m + 1)%Z with (Z.of_nat (S m)) by lia. rewrite E'. f_equal. f_equal. lia.
Qed.

(* for x in l: if cond(x): return ret(x)     (early return out of a for loop) *)
Definition scan_fix (K : val R -> val R) (cond ret : val R -> val R) :=
  fix loop (l : list (val R)) (i : val R) {struct l} : val R :=
    match l with
    | [] => K i
    | x :: l' => ifv Rops (cond x) (fun _ => ret x) (fun _ => loop l' x)
    end.

Theorem scan_none K cond ret : forall r m i,
  (forall j, (m <= j < m + r)%nat -> cond (VInt (Z.of_nat j)) = VBool false) ->
  exists i', scan_fix K cond ret (zrange_nat (Z.of_nat m) r) i = K i'.
Proof.
  induction r as [|r IH]; intros m i Hc.
  - exists i. reflexivity.
  - rewrite zrange_nat_S. simpl scan_fix. rewrite Hc by lia. cbv beta iota.
    change (ifv Rops (VBool false) ?a ?b) with (b tt). cbv beta.
    destruct (IH (S m) (VInt (Z.of_nat m))) as [i' E].
    + intros j Hj. apply Hc. lia.
    + exists i'. fold (scan_fix K cond ret). replace (Z.of_nat m + 1)%Z with (Z.of_nat (S m)) by lia. exact E.
Qed.

Theorem scan_hit K cond ret : forall r m i j,
  (m <= j < m + r)%nat ->
  (forall j', (m <= j' < j)%nat -> cond (VInt (Z.of_nat j')) = VBool false) ->
  cond (VInt (Z.of_nat j)) = VBool true ->
  scan_fix K cond ret (zrange_nat (Z.of_nat m) r) i = ret (VInt (Z.of_nat j)).
Proof.
  induction r as [|r IH]; intros m i j Hj Hf Ht; [lia|].
  rewrite zrange_nat_S. simpl scan_fix.
  destruct (Nat.eq_dec j m) as [-> | Hne].
  - rewrite Ht. reflexivity.
  - rewrite Hf by lia. change (ifv Rops (VBool false) ?a ?b) with (b tt). cbv beta.
    fold (scan_fix K cond ret). replace (Z.of_nat m + 1)%Z with (Z.of_nat (S m)) by lia.
    apply IH; [lia | intros; apply Hf; lia | exact Ht].
Qed.

(* for x in l: s = body(x, s) *)
Definition acc_fix (K : val R -> val R -> val R) (body : val R -> val R -> val R) :=
  fix loop (l : list (val R)) (k s : val R) {struct l} : val R :=
    match l with
    | [] => K k s
    | x :: l' => bind (body x s) (fun s2 => loop l' x s2)
    end.
Lemma acc_fix_cons K body x l k s :
  acc_fix K body (x :: l) k s = bind (body x s) (fun s2 => acc_fix K body l x s2).
Proof. reflexivity. Qed.
Lemma zrange_step_S a st n : zrange_step a st (S n) = VInt a :: @zrange_step R (a + st) st n.
Proof. reflexivity. Qed.

(* the descending loop for i in range(m, 0, -1) with a real accumulator that runs through Hh m, ..., Hh 0 *)
Theorem horner_down K body (Hh : nat -> R) : forall m k,
  (forall i, (1 <= i <= m)%nat -> body (VInt (Z.of_nat i)) (VFloat (Hh i)) = VFloat (Hh (i - 1)%nat)) ->
  exists k', acc_fix K body (zrange_step (Z.of_nat m) (-1) m) k (VFloat (Hh m)) = K k' (VFloat (Hh 0%nat)).
Proof.
  induction m as [|m IH]; intros k Hb.
  - exists k. reflexivity.
  - rewrite zrange_step_S, acc_fix_cons. rewrite Hb by lia.
    change (bind (VFloat ?a) ?f) with (f (VFloat a)). cbv beta.
    replace (S m - 1)%nat with m by lia.
    destruct (IH (VInt (Z.of_nat (S m)))) as [k' E].
    + intros i Hi. apply Hb. lia.
    + exists k'. replace (Z.of_nat (S m) + -1)%Z with (Z.of_nat m) by lia. exact E.
Qed.

Ltac getf0 :=
  repeat match goal with
  | |- context [get_field ?c ?i (VObj ?c' ?l)] =>
      let v := eval cbv [get_field cInterpolation Pos.eqb nth] in (get_field c i (VObj c' l)) in
      change (get_field c i (VObj c' l)) with v
  end.
(* goal: Let l := py_iter (py_range 0 (py_len <list field>)) in LOOP (seq_of l) ... *)
Ltac enter_range :=
  getf0; rewrite range_len, bind_VList; cbv beta;
  match goal with |- context [seq_of (VList ?l)] => change (seq_of (VList l)) with l end;
  rewrite map_length.
Ltac getf :=
  repeat match goal with
  | |- context [get_field ?c ?i (VObj ?c' ?l)] =>
      let v := eval cbv [get_field cInterpolation Pos.eqb nth] in (get_field c i (VObj c' l)) in
      change (get_field c i (VObj c' l)) with v
  end.

Section Table.
Variables xs ys : list R.
Hypothesis Hlen : List.length ys = List.length xs.
Hypothesis Hdist : forall i j, (i < List.length xs)%nat -> (j < List.length xs)%nat -> i <> j -> nthR xs i <> nthR xs j.
Notation xf := (nthR xs).
Notation yf := (nthR ys).

Lemma nd_gen : forall fuel k s tb, (k < fuel)%nat -> (s + k < List.length xs)%nat ->
  nd fuel (tobj xs ys tb) (VInt (Z.of_nat s)) (VInt (Z.of_nat (s + k))) = VFloat (dd xf yf k s).
Proof.
  induction fuel as [|fuel IH]; intros k s tb Hk Hs; [lia|].
  destruct k as [|k].
  - rewrite Nat.add_0_r.
    assert (HA : IZR (Z.abs (Z.of_nat s - Z.of_nat s)) = 0) by (rewrite Z.sub_diag; reflexivity).
    pose proof tol0_pos.
    unfold tobj, flist. cbn [Interpolation__newton_diff_rec].
    grun. reflexivity.
  - assert (HA : 1 <= IZR (Z.abs (Z.of_nat (s + S k) - Z.of_nat s))).
    { apply IZR_le. lia. }
    pose proof tol0_pos.
    assert (HN : xf s - xf (s + S k) <> 0).
    { apply neq_sub. apply Hdist; lia. }
    assert (IHa : nd fuel (tobj xs ys tb) (VInt (Z.of_nat s)) (VInt (Z.of_nat (s + S k) - 1)) = VFloat (dd xf yf k s)).
    { replace (Z.of_nat (s + S k) - 1)%Z with (Z.of_nat (s + k)) by lia. apply IH; lia. }
    assert (IHb : nd fuel (tobj xs ys tb) (VInt (Z.of_nat s + 1)) (VInt (Z.of_nat (s + S k))) = VFloat (dd xf yf k (S s))).
    { replace (Z.of_nat s + 1)%Z with (Z.of_nat (S s)) by lia.
      replace (s + S k)%nat with (S s + k)%nat by lia. apply IH; lia. }
    unfold tobj, flist in *. cbn [Interpolation__newton_diff_rec].
    grun. bstep. grun. reflexivity.
Qed.

(* the method as called by _compute_table (recursion fuel 64 in the model: tables up to 64 points) *)
Lemma newton_diff_gen k tb : (k < 64)%nat -> (k < List.length xs)%nat ->
  Interpolation__newton_diff Rops (tobj xs ys tb) (VInt 0) (VInt (Z.of_nat k)) = VFloat (dd xf yf k 0).
Proof.
  intros H64 Hk. unfold Interpolation__newton_diff.
  change (@VInt R 0) with (@VInt R (Z.of_nat 0)). change k with (0 + k)%nat at 1.
  apply nd_gen; [exact H64 | exact Hk].
Qed.

Definition ddtab (m : nat) : list R := map (fun k => dd xf yf k 0) (seq 0 m).
Lemma ddtab_S m : ddtab (S m) = ddtab m ++ [dd xf yf m 0].
Proof. unfold ddtab. rewrite seq_S, map_app. reflexivity. Qed.

Lemma compute_gen : (List.length xs <= 64)%nat ->
  Interpolation__compute_table Rops (tobj xs ys (flist []))
  = VTuple [tobj xs ys (flist (ddtab (List.length xs))); VNone].
Proof.
  intros H64. unfold Interpolation__compute_table, tobj, flist.
  grun. getf. rewrite range_len, bind_VList. cbv beta.
  match goal with |- context [seq_of (VList ?l)] => change (seq_of (VList l)) with l end.
  rewrite map_length.
  match goal with |- ?f _ _ _ = _ =>
     let g := open_constr:(acc2_fix _ _) in unify f g; change f with g end.
  match goal with |- acc2_fix ?KK ?bbody _ ?kk _ = _ =>
    destruct (acc2_spec KK bbody
                (fun j => VObj cInterpolation [VList (map VFloat xs); VList (map VFloat ys);
                                               VList (map VFloat (ddtab j)); VFloat tol0])
                ltac:(intro; eexists _, _; reflexivity) (List.length xs) 0%nat kk) as [k' E]
  end.
  - intros j Hj. cbv beta.
    pose proof (newton_diff_gen j (VList (map VFloat (ddtab j))) ltac:(lia) ltac:(lia)) as En.
    unfold tobj, flist in En. rewrite En.
    getf. rewrite append_VFloat.
    rewrite ddtab_S, map_app. reflexivity.
  - change (Z.of_nat 0) with 0%Z in E. change (ddtab 0) with (@nil R) in E. rewrite E. cbv beta.
    rewrite Nat.add_0_l. reflexivity.
Qed.
(* ---------------------------------------------------------------- __call__ *)
Variable tbl : list R.
Hypothesis Htl : List.length tbl = List.length xs.
Hypothesis Hsep : forall i j, (i < List.length xs)%nat -> (j < List.length xs)%nat -> i <> j ->
                  tol0 <= Rabs (xf i - xf j).
Notation T := (tobj xs ys (flist tbl)).

Lemma call_node j : (j < List.length xs)%nat ->
  Interpolation___call__ Rops T (VFloat (xf j)) = VFloat (yf j).
Proof.
  intros Hj. unfold Interpolation___call__, tobj, flist.
  grun. enter_range.
  match goal with |- ?f _ _ = _ =>
     let g := open_constr:(scan_fix _ _ _) in unify f g; change f with g end.
  rewrite (scan_hit _ _ _ (List.length xs) 0%nat _ j); [| lia | |].
  - cbv beta. getf. rewrite (getitem_flist ys j) by lia. reflexivity.
  - intros j' Hj'. cbv beta. getf.
    assert (HS : tol0 <= Rabs (xf j - xf j')) by (apply Hsep; lia).
    grun. rewrite (proj2 (Rltb_false _ _)) by exact HS. reflexivity.
  - cbv beta. getf. grun. rewrite (proj2 (Rltb_true _ _)); [reflexivity|].
    replace (xf j - xf j) with 0 by ring. rewrite Rabs_R0. apply tol0_pos.
Qed.
(* between the nodes: the Horner evaluation of the Newton form over the stored coefficient table *)
Lemma call_horner x : (0 < List.length xs)%nat ->
  xf 0 <= x -> x <= xf (List.length xs - 1) ->
  (forall i, (i < List.length xs)%nat -> tol0 <= Rabs (x - xf i)) ->
  Interpolation___call__ Rops T (VFloat x)
  = VFloat (hornerN xf (nthR tbl) 0 0 (List.length xs - 1) x).
Proof.
  intros Hn Hlo Hhi Haway. unfold Interpolation___call__, tobj, flist.
  grun. enter_range.
  match goal with |- ?f _ _ = _ =>
     let g := open_constr:(scan_fix _ _ _) in unify f g; change f with g end.
  match goal with |- scan_fix ?KK ?cc ?rr _ ?ii = _ =>
    destruct (scan_none KK cc rr (List.length xs) 0%nat ii) as [i' E] end.
  { intros j Hj. cbv beta. getf.
    assert (HS : tol0 <= Rabs (x - xf j)) by (apply Haway; lia).
    grun. rewrite (proj2 (Rltb_false _ _)) by exact HS. reflexivity. }
  change (Z.of_nat 0) with 0%Z in E. rewrite E. clear E. cbv beta.
  set (n1 := (List.length xs - 1)%nat).
  assert (Elen : py_len (VList (map VFloat tbl)) = VInt (Z.pos (Pos.of_succ_nat n1))).
  { simpl py_len. rewrite map_length, Htl. f_equal. rewrite Zpos_P_of_succ_nat. subst n1. lia. }
  rewrite !Elen.
  assert (Hhi' : x <= xf (List.length xs - 1)) by exact Hhi.
  grun.
  match goal with |- context [py_range3 ?a _ _] =>
    assert (Es : a = VInt (Z.of_nat n1)) by (grun; f_equal; rewrite Zpos_P_of_succ_nat; lia) end.
  rewrite Es, range3_down, bind_VList. cbv beta.
  match goal with |- context [seq_of (VList ?l)] => change (seq_of (VList l)) with l end.
  match goal with |- ?f _ _ _ = _ =>
     let g := open_constr:(acc_fix _ _) in unify f g; change f with g end.
  replace (List.length tbl - 1)%nat with n1 by (subst n1; lia).
  replace (VFloat (nthR tbl n1)) with (VFloat (hornerN xf (nthR tbl) n1 n1 (n1 - n1) x))
    by (rewrite Nat.sub_diag; reflexivity).
  match goal with |- acc_fix ?KK ?bbody _ ?kk _ = _ =>
    destruct (horner_down KK bbody (fun i => hornerN xf (nthR tbl) i i (n1 - i) x) n1 kk) as [k' E] end.
  - intros i Hi. cbv beta.
    assert (Li : (i - 1 < List.length xs)%nat) by (subst n1; lia).
    assert (Lt : (i - 1 < List.length tbl)%nat) by lia.
    grun.
    replace (n1 - (i - 1))%nat with (S (n1 - i)) by lia. simpl hornerN.
    replace (S (i - 1)) with i by lia. reflexivity.
  - cbv beta in E. rewrite E. cbv beta. rewrite Nat.sub_0_r. reflexivity.
Qed.
(* ---- totality of __call__ on floats: a float or ValueError, for every real x ---- *)
Lemma find_seq_spec (P : nat -> bool) : forall r m,
  match find P (seq m r) with
  | Some j => (m <= j < m + r)%nat /\ P j = true /\ (forall j', (m <= j' < j)%nat -> P j' = false)
  | None => forall j, (m <= j < m + r)%nat -> P j = false
  end.
Proof.
  induction r as [|r IH]; intro m; simpl.
  - intros j Hj. lia.
  - destruct (P m) eqn:E.
    + split; [lia | split; [exact E | intros; lia]].
    + specialize (IH (S m)). destruct (find P (seq (S m) r)) as [j|].
      * destruct IH as (A & B & C). split; [lia | split; [exact B |]].
        intros j' Hj'. destruct (Nat.eq_dec j' m) as [-> | N]; [exact E | apply C; lia].
      * intros j Hj. destruct (Nat.eq_dec j m) as [-> | N]; [exact E | apply IH; lia].
Qed.

Definition near (x : R) (j : nat) : bool := if Rlt_dec (Rabs (x - xf j)) tol0 then true else false.
Definition first_hit (x : R) : option nat := find (near x) (seq 0 (List.length xs)).
(* the value __call__ returns when it returns one: the ordinate of the first node closer than tol, else Horner *)
Definition Icall (x : R) : R :=
  match first_hit x with
  | Some j => yf j
  | None => hornerN xf (nthR tbl) 0 0 (List.length xs - 1) x
  end.

Lemma call_hit x j : first_hit x = Some j -> Interpolation___call__ Rops T (VFloat x) = VFloat (yf j).
Proof.
  intros Hf. pose proof (find_seq_spec (near x) (List.length xs) 0) as Sp. fold (first_hit x) in Sp.
  rewrite Hf in Sp. destruct Sp as (Hj & Ht & Hb).
  unfold Interpolation___call__, tobj, flist.
  grun. enter_range.
  match goal with |- ?f _ _ = _ =>
     let g := open_constr:(scan_fix _ _ _) in unify f g; change f with g end.
  rewrite (scan_hit _ _ _ (List.length xs) 0%nat _ j); [| lia | |].
  - cbv beta. getf. rewrite (getitem_flist ys j) by lia. reflexivity.
  - intros j' Hj'. cbv beta. getf.
    assert (HS : tol0 <= Rabs (x - xf j')).
    { specialize (Hb j' ltac:(lia)). unfold near in Hb. destruct (Rlt_dec (Rabs (x - xf j')) tol0); [discriminate | lra]. }
    grun. rewrite (proj2 (Rltb_false _ _)) by exact HS. reflexivity.
  - cbv beta. getf. grun. rewrite (proj2 (Rltb_true _ _)); [reflexivity|].
    unfold near in Ht. destruct (Rlt_dec (Rabs (x - xf j)) tol0); [assumption | discriminate].
Qed.

(* outside the table (and not within tol of a node): ValueError *)
Lemma call_outside x : (0 < List.length xs)%nat ->
  x < xf 0 \/ xf (List.length xs - 1) < x ->
  (forall i, (i < List.length xs)%nat -> tol0 <= Rabs (x - xf i)) ->
  Interpolation___call__ Rops T (VFloat x) = VErr ValueError.
Proof.
  intros Hn Hout Haway. unfold Interpolation___call__, tobj, flist.
  grun. enter_range.
  match goal with |- ?f _ _ = _ =>
     let g := open_constr:(scan_fix _ _ _) in unify f g; change f with g end.
  match goal with |- scan_fix ?KK ?cc ?rr _ ?ii = _ =>
    destruct (scan_none KK cc rr (List.length xs) 0%nat ii) as [i' E] end.
  { intros j Hj. cbv beta. getf.
    assert (HS : tol0 <= Rabs (x - xf j)) by (apply Haway; lia).
    grun. rewrite (proj2 (Rltb_false _ _)) by exact HS. reflexivity. }
  change (Z.of_nat 0) with 0%Z in E. rewrite E. clear E. cbv beta.
  set (n1 := (List.length xs - 1)%nat).
  assert (Elen : py_len (VList (map VFloat tbl)) = VInt (Z.pos (Pos.of_succ_nat n1))).
  { simpl py_len. rewrite map_length, Htl. f_equal. rewrite Zpos_P_of_succ_nat. subst n1. lia. }
  rewrite !Elen.
  destruct Hout as [Hlo | Hhi].
  - grun. reflexivity.
  - destruct (Rlt_dec x (xf 0)) as [Hlo | Hlo].
    + grun. reflexivity.
    + assert (Hge : xf 0 <= x) by lra. assert (Hhi' : xf (List.length xs - 1) < x) by exact Hhi.
      grun. reflexivity.
Qed.
Lemma call_total x : (0 < List.length xs)%nat ->
  Interpolation___call__ Rops T (VFloat x) = VFloat (Icall x)
  \/ Interpolation___call__ Rops T (VFloat x) = VErr ValueError.
Proof.
  intro Hn. unfold Icall. destruct (first_hit x) as [j|] eqn:Hf.
  - left. apply call_hit. exact Hf.
  - pose proof (find_seq_spec (near x) (List.length xs) 0) as Sp. fold (first_hit x) in Sp. rewrite Hf in Sp.
    assert (Haway : forall i, (i < List.length xs)%nat -> tol0 <= Rabs (x - xf i)).
    { intros i Hi. specialize (Sp i ltac:(lia)). unfold near in Sp.
      destruct (Rlt_dec (Rabs (x - xf i)) tol0); [discriminate | lra]. }
    destruct (Rlt_dec x (xf 0)) as [Lo | Lo]; [right; apply call_outside; auto |].
    destruct (Rlt_dec (xf (List.length xs - 1)) x) as [Hi | Hi]; [right; apply call_outside; auto |].
    left. apply call_horner; auto; lra.
Qed.

Lemma first_x : (0 < List.length xs)%nat ->
  py_getitem Rops (get_field cInterpolation 0 T) (VInt 0) = VFloat (xf 0).
Proof. intro H. unfold tobj, flist. getf. apply getitem_first. exact H. Qed.
Lemma last_x : (0 < List.length xs)%nat ->
  py_getitem Rops (get_field cInterpolation 0 T) (VInt (-1)) = VFloat (xf (List.length xs - 1)).
Proof. intro H. unfold tobj, flist. getf. apply getitem_last. exact H. Qed.
End Table.

(* ------------------------------------------------------------------ end-to-end statements *)
Lemma nthR_ddtab xs ys n m : (m < n)%nat -> nthR (ddtab xs ys n) m = dd (nthR xs) (nthR ys) m 0.
Proof.
  intro H. unfold nthR at 1, ddtab. apply nth_error_nth. rewrite nth_error_map.
  rewrite (nth_error_nth' (seq 0 n) 0%nat) by (rewrite seq_length; exact H).
  rewrite seq_nth by exact H. reflexivity.
Qed.

Definition separated (xs : list R) : Prop :=
  forall i j, (i < List.length xs)%nat -> (j < List.length xs)%nat -> i <> j -> tol0 <= Rabs (nthR xs i - nthR xs j).

Lemma separated_distinct xs : separated xs ->
  forall i j, (i < List.length xs)%nat -> (j < List.length xs)%nat -> i <> j -> nthR xs i <> nthR xs j.
Proof.
  intros S i j Hi Hj N E. pose proof (S i j Hi Hj N) as H. rewrite E in H.
  replace (nthR xs j - nthR xs j) with 0 in H by ring. rewrite Rabs_R0 in H. pose proof tol0_pos. lra.
Qed.
Lemma separated_distinct_on xs : separated xs -> distinct_on (nthR xs) 0 (List.length xs - 1).
Proof. intros S i j Hi Hj N. apply separated_distinct; [exact S | lia | lia | exact N]. Qed.

(* the object _compute_table leaves behind for the stored lists xs, ys *)
Definition built (xs ys : list R) : val R := tobj xs ys (flist (ddtab xs ys (List.length xs))).

Theorem built_by_compute_table xs ys : List.length ys = List.length xs -> separated xs -> (List.length xs <= 64)%nat ->
  Interpolation__compute_table Rops (tobj xs ys (flist [])) = VTuple [built xs ys; VNone].
Proof. intros L S H. apply compute_gen; [exact L | apply separated_distinct; exact S | exact H]. Qed.

Theorem call_at_node xs ys j : List.length ys = List.length xs -> separated xs -> (j < List.length xs)%nat ->
  Interpolation___call__ Rops (built xs ys) (VFloat (nthR xs j)) = VFloat (nthR ys j).
Proof.
  intros L S Hj. unfold built.
  apply (call_node xs ys L (ddtab xs ys (List.length xs))); [| exact S | exact Hj].
  unfold ddtab. rewrite map_length, seq_length. reflexivity.
Qed.

Theorem call_between xs ys x : List.length ys = List.length xs -> separated xs -> (0 < List.length xs)%nat ->
  nthR xs 0 <= x -> x <= nthR xs (List.length xs - 1) ->
  (forall i, (i < List.length xs)%nat -> tol0 <= Rabs (x - nthR xs i)) ->
  Interpolation___call__ Rops (built xs ys) (VFloat x)
  = VFloat (NF (nthR xs) (nthR ys) 0 (List.length xs - 1) x).
Proof.
  intros L S Hn Hlo Hhi Ha. unfold built.
  rewrite (call_horner xs ys L (ddtab xs ys (List.length xs))); try assumption.
  - f_equal. rewrite <- horner_is_NF. apply hornerN_ext. intros m Hm. apply nthR_ddtab. lia.
  - unfold ddtab. rewrite map_length, seq_length. reflexivity.
Qed.
