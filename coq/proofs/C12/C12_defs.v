(* C12: definitions for the binary64 grid evaluation of Interpolation.root / minmax.
   The GENERATED model (B0 instance: no libm is involved) is run on explicit tables and limits;
   the result is judged against an independent Lagrange evaluation written here (lagr, lagr'). *)
From Coq Require Import ZArith List Bool String PrimFloat.
From PyLib Require Import PyVal PyBuiltins B64 B64Facts.
From Gen Require Import M_base M_Angle M_Interpolation.
Import ListNotations.
Open Scope float_scope.

Definition fval := val float.
Definition table := list (float * float).          (* (x, y) pairs in the order they are supplied *)

Definition blank64 : fval := VObj cInterpolation [VNone; VNone; VNone; VNone].
Definition mkI (t : table) : fval :=
  Interpolation___init__ B0 blank64
    (VTuple [VList (map (fun p => VFloat (fst p)) t); VList (map (fun p => VFloat (snd p)) t)]).
Definition root64 (t : table) (xl xh : float) : fval := Interpolation_root B0 (mkI t) (VFloat xl) (VFloat xh) (VInt 1000).
Definition minmax64 (t : table) (xl xh : float) : fval := Interpolation_minmax B0 (mkI t) (VFloat xl) (VFloat xh) (VInt 1000).

(* independent reference: Lagrange form and its derivative, in binary64 *)
Fixpoint prod_except (t : table) (i k : nat) (xi x : float) (j : nat) (l : table) (w : float) : float :=
  match l with
  | [] => w
  | (xj, _) :: l' =>
      prod_except t i k xi x (S j) l'
        (if Nat.eqb j i || Nat.eqb j k then w else w * ((x - xj) / (xi - xj)))
  end.
Fixpoint lagr_sum (t : table) (x : float) (i : nat) (l : table) (s : float) : float :=
  match l with
  | [] => s
  | (xi, yi) :: l' => lagr_sum t x (S i) l' (s + prod_except t i i xi x 0 t yi)
  end.
Definition lagr (t : table) (x : float) : float := lagr_sum t x 0 t 0.

Fixpoint dsum_inner (t : table) (i : nat) (xi x : float) (k : nat) (l : table) (acc : float) : float :=
  match l with
  | [] => acc
  | (xk, _) :: l' =>
      dsum_inner t i xi x (S k) l'
        (if Nat.eqb k i then acc else acc + prod_except t i k xi x 0 t (1 / (xi - xk)))
  end.
Fixpoint dlagr_sum (t : table) (x : float) (i : nat) (l : table) (s : float) : float :=
  match l with
  | [] => s
  | (xi, yi) :: l' => dlagr_sum t x (S i) l' (s + yi * dsum_inner t i xi x 0 t 0)
  end.
Definition lagr' (t : table) (x : float) : float := dlagr_sum t x 0 t 0.

Definition fmin (a b : float) : float := if a <? b then a else b.
Definition fmax (a b : float) : float := if a <? b then b else a.
Definition xmin (t : table) : float := fold_left (fun m p => fmin m (fst p)) t infinity.
Definition xmax (t : table) : float := fold_left (fun m p => fmax m (fst p)) t neg_infinity.

(* the interval actually searched: limits put in order and clamped to the table *)
Definition lo_of (t : table) (xl xh : float) : float := fmax (fmin xl xh) (xmin t).
Definition hi_of (t : table) (xl xh : float) : float := fmin (fmax xl xh) (xmax t).

Definition clear_sign_change (P : float -> float) (lo hi : float) : bool :=
  (P lo * P hi <? 0) && (0x1.0c6f7a0b5ed8dp-20 <? abs (P lo)) && (0x1.0c6f7a0b5ed8dp-20 <? abs (P hi)).   (* 1e-6 *)

(* judgement of a result r of root/minmax for the reference function P (lagr resp. lagr'):
   a float must lie in the clamped interval and be a zero of P to 1e-9; a ValueError is only
   acceptable when P has no clear sign change between the clamped limits; nothing else may come out *)
Definition judge (t : table) (P : float -> float) (xl xh : float) (r : fval) : bool :=
  let lo := lo_of t xl xh in let hi := hi_of t xl xh in
  match r with
  | VFloat x => (lo <=? x) && (x <=? hi) && (abs (P x) <=? 0x1.12e0be826d695p-30)       (* 1e-9 *)
  | VErr ValueError => negb (clear_sign_change P lo hi)
  | _ => false
  end.

(* limits tried for a table: 1 below, every node, every midpoint, 1.5 above *)
Fixpoint mids (xs : list float) : list float :=
  match xs with
  | a :: ((b :: _) as r) => a :: (a + b) / 2 :: mids r
  | _ => xs
  end.
Fixpoint insert (x : float) (l : list float) : list float :=
  match l with [] => [x] | y :: r => if x <? y then x :: l else y :: insert x r end.
Definition sorted_xs (t : table) : list float := fold_right (fun p l => insert (fst p) l) [] t.
Definition limits (t : table) : list float :=
  (xmin t - 1) :: mids (sorted_xs t) ++ [xmax t + 0x1.8p+0].

Definition chk_pair (t : table) (xl xh : float) : bool :=
  if xl =? xh then true else
  judge t (lagr t) xl xh (root64 t xl xh) &&
  (if Nat.leb 3 (List.length t) then judge t (lagr' t) xl xh (minmax64 t xl xh) else true).
Definition chk_table (t : table) : bool :=
  forallb (fun xl => forallb (fun xh => chk_pair t xl xh) (limits t)) (limits t).

(* how many (xl, xh) pairs give a float (non-vacuity, reported by the statement file) *)
Definition is_float (v : fval) : bool := match v with VFloat _ => true | _ => false end.
Definition count_found (t : table) : nat :=
  List.length (filter (fun p => is_float (root64 t (fst p) (snd p)))
            (flat_map (fun xl => map (fun xh => (xl, xh)) (limits t)) (limits t))).

Definition tab_00 : table := [((0x1.8000000000000p+0)%float, (0x1.1bafd976ff3aep-2)%float); ((-0x1.0000000000000p-1)%float, (-0x1.1717d6b65a9a8p+1)%float)].
(* [(1.5, 0.277038), (-0.5, -2.180415)] *)
Definition tab_01 : table := [((-0x1.c000000000000p+0)%float, (0x1.a000000000000p-3)%float); ((-0x1.0000000000000p+1)%float, (0x1.0000000000000p-2)%float); ((-0x1.8000000000000p+0)%float, (0x1.8000000000000p-3)%float)].
(* [(-1.75, 0.203125), (-2.0, 0.25), (-1.5, 0.1875)] *)
Definition tab_02 : table := [((-0x1.0000000000000p-1)%float, (0x1.edcc20d5629d8p+0)%float); ((0x1.8000000000000p-1)%float, (0x1.9d0e12e83a10ap-3)%float); ((-0x1.0000000000000p-2)%float, (0x1.c0e0eb67c2870p+0)%float); ((-0x1.0000000000000p+1)%float, (0x1.6123810e88590p-1)%float)].
(* [(-0.5, 1.928896), (0.75, 0.201687), (-0.25, 1.753432), (-2.0, 0.689724)] *)
Definition tab_03 : table := [((0x1.c000000000000p+0)%float, (-0x1.0000000000000p-1)%float); ((0x1.e000000000000p+1)%float, (0x1.2000000000000p+1)%float); ((0x1.0000000000000p+0)%float, (-0x1.4000000000000p+1)%float); ((0x1.b000000000000p+2)%float, (-0x1.0000000000000p+2)%float); ((0x1.3000000000000p+2)%float, (0x1.9000000000000p+2)%float)].
(* [(1.75, -0.5), (3.75, 2.25), (1.0, -2.5), (6.75, -4.0), (4.75, 6.25)] *)
Definition tab_04 : table := [((0x1.0000000000000p-1)%float, (0x1.4000000000000p+0)%float); ((0x1.0000000000000p+2)%float, (-0x1.c000000000000p+1)%float); ((-0x1.0000000000000p+1)%float, (0x1.8000000000000p+0)%float); ((-0x1.4000000000000p+0)%float, (-0x1.4000000000000p+1)%float); ((-0x1.0000000000000p-2)%float, (-0x1.8000000000000p+0)%float); ((0x1.0000000000000p+1)%float, (0x1.0000000000000p+0)%float)].
(* [(0.5, 1.25), (4.0, -3.5), (-2.0, 1.5), (-1.25, -2.5), (-0.25, -1.5), (2.0, 1.0)] *)
Definition tab_05 : table := [((-0x1.0000000000000p+1)%float, (-0x1.0000000000000p+0)%float); ((-0x1.4000000000000p+0)%float, (0x1.0000000000000p+2)%float)].
(* [(-2.0, -1.0), (-1.25, 4.0)] *)
Definition tab_06 : table := [((0x1.f000000000000p+4)%float, (0x1.0000000000000p+0)%float); ((0x1.d000000000000p+4)%float, (0x1.c000000000000p+1)%float); ((0x1.b000000000000p+4)%float, (-0x1.4000000000000p+1)%float)].
(* [(31.0, 1.0), (29.0, 3.5), (27.0, -2.5)] *)
Definition tab_07 : table := [((0x1.4000000000000p+1)%float, (-0x1.e000000000000p+1)%float); ((0x1.8000000000000p+0)%float, (0x1.0000000000000p-1)%float); ((0x1.0000000000000p+0)%float, (-0x1.6000000000000p+1)%float); ((0x1.c000000000000p+0)%float, (-0x1.6000000000000p+1)%float)].
(* [(2.5, -3.75), (1.5, 0.5), (1.0, -2.75), (1.75, -2.75)] *)
Definition tab_08 : table := [((0x1.b800000000000p+4)%float, (-0x1.5000000000000p-2)%float); ((0x1.b000000000000p+4)%float, (-0x1.0000000000000p-1)%float); ((0x1.c000000000000p+4)%float, (0x1.0000000000000p+0)%float); ((0x1.d000000000000p+4)%float, (0x1.0800000000000p+4)%float); ((0x1.c800000000000p+4)%float, (0x1.6300000000000p+2)%float)].
(* [(27.5, -0.328125), (27.0, -0.5), (28.0, 1.0), (29.0, 16.5), (28.5, 5.546875)] *)
Definition tab_09 : table := [((0x1.a000000000000p+1)%float, (0x1.d63ed0f627393p-1)%float); ((0x1.1000000000000p+2)%float, (0x1.aab92c061847fp-2)%float); ((-0x1.0000000000000p-1)%float, (-0x1.b573c925785f9p-1)%float); ((0x1.4000000000000p+1)%float, (0x1.85a964e8b7e4ep-1)%float); ((0x1.2000000000000p+1)%float, (0x1.38cc9a77e5eabp-1)%float); ((0x1.0000000000000p-2)%float, (-0x1.bf59ab6d00b46p-1)%float)].
(* [(3.25, 0.918448), (4.25, 0.416722), (-0.5, -0.854399), (2.5, 0.761058), (2.25, 0.610936), (0.25, -0.873731)] *)
Definition tab_10 : table := [((0x1.8000000000000p+1)%float, (-0x1.0000000000000p+0)%float); ((0x1.0000000000000p+0)%float, (0x1.9000000000000p+2)%float)].
(* [(3.0, -1.0), (1.0, 6.25)] *)
Definition tab_11 : table := [((0x1.0000000000000p+1)%float, (-0x1.0000000000000p-2)%float); ((0x1.0000000000000p+0)%float, (-0x1.8000000000000p-1)%float); ((0x0.0p+0)%float, (-0x1.8000000000000p-1)%float)].
(* [(2.0, -0.25), (1.0, -0.75), (0.0, -0.75)] *)
Definition tab_12 : table := [((0x1.0000000000000p+0)%float, (0x1.7c2656abde3fcp-2)%float); ((0x1.1000000000000p+2)%float, (0x1.129802c0a4a06p-2)%float); ((0x1.2000000000000p+1)%float, (-0x1.01b25f633ce64p-1)%float); ((0x1.c000000000000p+0)%float, (-0x1.8b484d76ab580p-3)%float)].
(* [(1.0, 0.37124), (4.25, 0.268158), (2.25, -0.503314), (1.75, -0.193009)] *)
Definition tab_13 : table := [((0x0.0p+0)%float, (-0x1.6746cb966be7bp-5)%float); ((0x1.c000000000000p+1)%float, (0x1.79cfdd2285660p-2)%float); ((0x1.c000000000000p+0)%float, (-0x1.d433a4723ab00p+0)%float); ((0x1.a000000000000p+1)%float, (-0x1.0a05dd8f92afap-4)%float); ((0x1.8000000000000p+0)%float, (-0x1.d3901083dbc23p+0)%float)].
(* [(0.0, -0.043857), (3.5, 0.368957), (1.75, -1.828913), (3.25, -0.064947), (1.5, -1.826417)] *)
Definition tab_14 : table := [((0x1.e000000000000p+4)%float, (0x1.1000000000000p+2)%float); ((0x1.d800000000000p+4)%float, (-0x1.8000000000000p+2)%float); ((0x1.d400000000000p+4)%float, (-0x1.8000000000000p+2)%float); ((0x1.c800000000000p+4)%float, (0x1.8000000000000p+2)%float); ((0x1.b000000000000p+4)%float, (0x0.0p+0)%float); ((0x1.ec00000000000p+4)%float, (0x1.a000000000000p+1)%float)].
(* [(30.0, 4.25), (29.5, -6.0), (29.25, -6.0), (28.5, 6.0), (27.0, 0.0), (30.75, 3.25)] *)
Definition tab_15 : table := [((0x1.0000000000000p+0)%float, (0x1.0000000000000p-2)%float); ((0x1.c000000000000p+0)%float, (-0x1.0000000000000p-3)%float)].
(* [(1.0, 0.25), (1.75, -0.125)] *)
Definition tab_16 : table := [((0x1.b000000000000p+4)%float, (0x1.8000000000000p-1)%float); ((0x1.b800000000000p+4)%float, (0x1.e000000000000p-1)%float); ((0x1.b400000000000p+4)%float, (0x1.9800000000000p-1)%float)].
(* [(27.0, 0.75), (27.5, 0.9375), (27.25, 0.796875)] *)
Definition tab_17 : table := [((0x1.b000000000000p+4)%float, (-0x1.ed61f5be5d9e4p-2)%float); ((0x1.f000000000000p+4)%float, (0x1.7a437824d4cbap-2)%float); ((0x1.d000000000000p+4)%float, (0x1.01b024f6598e1p-1)%float); ((0x1.b800000000000p+4)%float, (-0x1.05375c8d9f905p-2)%float)].
(* [(27.0, -0.481819), (31.0, 0.369398), (29.0, 0.503297), (27.5, -0.255094)] *)
Definition tab_18 : table := [((0x1.0000000000000p+0)%float, (-0x1.db51159c49774p-1)%float); ((0x1.4000000000000p+1)%float, (-0x1.4f1a1986b9c30p-4)%float); ((0x1.0000000000000p+1)%float, (-0x1.1221a719b4dcfp-1)%float); ((0x1.2000000000000p+1)%float, (-0x1.472fba01eeed9p-2)%float); ((0x1.2000000000000p+2)%float, (0x1.b046e8f29d40fp-1)%float)].
(* [(1.0, -0.928353), (2.5, -0.081812), (2.0, -0.535413), (2.25, -0.319518), (4.5, 0.844291)] *)
Definition tab_19 : table := [((0x1.0000000000000p-1)%float, (-0x1.c000000000000p+1)%float); ((-0x1.0000000000000p-2)%float, (-0x1.4000000000000p+1)%float); ((0x0.0p+0)%float, (0x1.c000000000000p+1)%float); ((-0x1.0000000000000p-1)%float, (0x1.c000000000000p+1)%float); ((0x1.0000000000000p-2)%float, (0x1.c000000000000p+1)%float); ((0x1.8000000000000p-1)%float, (-0x1.0000000000000p-1)%float)].
(* [(0.5, -3.5), (-0.25, -2.5), (0.0, 3.5), (-0.5, 3.5), (0.25, 3.5), (0.75, -0.5)] *)
Definition tab_20 : table := [((0x0.0p+0)%float, (-0x1.c76f6d7625205p+0)%float); ((0x1.0000000000000p+0)%float, (0x1.b2ba5a038194cp-1)%float)].
(* [(0.0, -1.779044), (1.0, 0.849078)] *)
Definition tab_21 : table := [((0x1.b000000000000p+4)%float, (0x1.2000000000000p+1)%float); ((0x1.bc00000000000p+4)%float, (0x1.4000000000000p+0)%float); ((0x1.dc00000000000p+4)%float, (0x1.1000000000000p+2)%float)].
(* [(27.0, 2.25), (27.75, 1.25), (29.75, 4.25)] *)
Definition tab_22 : table := [((-0x1.0000000000000p-1)%float, (0x1.0800000000000p+1)%float); ((-0x1.0000000000000p+1)%float, (0x1.8000000000000p-1)%float); ((-0x1.8000000000000p+0)%float, (0x1.6000000000000p-1)%float); ((-0x1.0000000000000p+0)%float, (0x1.0000000000000p+0)%float)].
(* [(-0.5, 2.0625), (-2.0, 0.75), (-1.5, 0.6875), (-1.0, 1.0)] *)
Definition tab_23 : table := [((0x1.2000000000000p+1)%float, (0x1.2ca03c4b09e99p-1)%float); ((0x1.8000000000000p+1)%float, (0x1.c97dd00f776c5p-2)%float); ((-0x1.0000000000000p-1)%float, (0x1.0a5daf07bfe7ep-2)%float); ((0x1.0000000000000p+0)%float, (0x1.3207b352a8438p-1)%float); ((0x1.c000000000000p+0)%float, (0x1.40e4fb97bb731p-1)%float)].
(* [(2.25, 0.58716), (3.0, 0.446769), (-0.5, 0.260123), (1.0, 0.597715), (1.75, 0.626747)] *)

Definition grid_0 : list table := [tab_00; tab_01; tab_02].
Definition grid_1 : list table := [tab_03; tab_04; tab_05].
Definition grid_2 : list table := [tab_06; tab_07; tab_08].
Definition grid_3 : list table := [tab_09; tab_10; tab_11].
Definition grid_4 : list table := [tab_12; tab_13; tab_14].
Definition grid_5 : list table := [tab_15; tab_16; tab_17].
Definition grid_6 : list table := [tab_18; tab_19; tab_20].
Definition grid_7 : list table := [tab_21; tab_22; tab_23].
Definition grid : list table := grid_0 ++ grid_1 ++ grid_2 ++ grid_3 ++ grid_4 ++ grid_5 ++ grid_6 ++ grid_7.
