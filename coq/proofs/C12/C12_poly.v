(* C12_poly: the headline clause for ANY n in 2..64 (3..64 for the derivative), from the constructor arguments on:
   data taken from a polynomial of degree < n, points supplied in any order -> the object returns the polynomial
   (and derivative() its derivative) between the nodes.  Real-number instance. *)
From Coq Require Import Reals ZArith List Bool Lra Lia Arith String Permutation Sorted.
Set Warnings "-ambiguous-paths".
From Coquelicot Require Import Coquelicot.
From PyLib Require Import PyVal PyBuiltins Ideal PyEval.
From Spec Require Import Newton.
From Gen Require Import M_base M_Angle M_Interpolation.
From Proofs.C12 Require Import C12_gen C12_gend C12_order C12_set.
Import ListNotations.
Open Scope R_scope.

Lemma combine_rel (f : R -> R) : forall (a b : list R), List.length b = List.length a ->
  (forall j, (j < List.length a)%nat -> nthR b j = f (nthR a j)) ->
  forall u v, In (u, v) (combine a b) -> v = f u.
Proof.
  induction a as [|x a IH]; intros [|y b] L H u v Hin; simpl in *; try contradiction; try discriminate.
  destruct Hin as [E | Hin].
  - inversion E; subst. apply (H 0%nat). lia.
  - apply (IH b); [lia | | exact Hin]. intros j Hj. apply (H (S j)). lia.
Qed.
Lemma nth_combine_in : forall (a b : list R) j, List.length b = List.length a -> (j < List.length a)%nat ->
  In (nthR a j, nthR b j) (combine a b).
Proof.
  induction a as [|x a IH]; intros [|y b] j L Hj; simpl in L, Hj; try lia; try discriminate.
  destruct j as [|j]; [left; reflexivity | right; apply (IH b j); lia].
Qed.

Section Poly.
Variables (px py p : list R).
Hypothesis Hlen : List.length py = List.length px.
Hypothesis Hn : (2 <= List.length px <= 64)%nat.
Hypothesis Hsep : separated px.
Hypothesis Hdeg : (List.length p <= List.length px)%nat.
Hypothesis Hdata : forall j, (j < List.length px)%nat -> nthR py j = peval p (nthR px j).
Notation n := (List.length px).
Notation xs' := (sx px).
Notation ys' := (sy px py).
Notation obj := (Interpolation___init__ Rops (VObj cInterpolation [VNone; VNone; VNone; VNone]) (VTuple [flist px; flist py])).

Lemma Hne : px <> []. Proof. intro E. rewrite E in Hn. simpl in Hn. lia. Qed.

Lemma facts : obj = built xs' ys' /\ List.length xs' = n /\ List.length ys' = n /\ separated xs' /\
  (forall j, (j < n)%nat -> nthR ys' j = peval p (nthR xs' j)).
Proof.
  destruct (order_any px py VNone Hlen Hne (separated_NoDup px Hsep)) as (_ & _ & Pm & Lx & Ly).
  cbv zeta in Pm, Lx, Ly.
  split; [apply init_lists; assumption|]. split; [exact Lx|]. split; [exact Ly|].
  split; [apply separated_sx; [exact Hne | exact Hsep]|].
  intros j Hj. apply (combine_rel (peval p) px py Hlen Hdata).
  apply (Permutation_in _ Pm). apply nth_combine_in; lia.
Qed.

Theorem poly_value x :
  nthR xs' 0 <= x -> x <= nthR xs' (n - 1) -> (forall i, (i < n)%nat -> tol0 <= Rabs (x - nthR xs' i)) ->
  Interpolation___call__ Rops obj (VFloat x) = VFloat (peval p x).
Proof.
  intros Hlo Hhi Ha. destruct facts as (Eo & Lx & Ly & S' & Hd). rewrite Eo.
  rewrite (call_between xs' ys' x); [| lia | exact S' | lia | exact Hlo | rewrite Lx; exact Hhi | intros i Hi; apply Ha; lia].
  f_equal. rewrite Lx. apply (NF_reproduces (nthR xs') (nthR ys') (n - 1) p).
  - rewrite <- Lx. apply separated_distinct_on. exact S'.
  - lia.
  - intros j Hj. apply Hd. lia.
Qed.

Theorem poly_derivative x : (3 <= n)%nat -> nthR xs' 0 <= x -> x <= nthR xs' (n - 1) ->
  exists d, Interpolation_derivative Rops obj (VFloat x) = VFloat d /\ is_derive (peval p) x d.
Proof.
  intros H3 Hlo Hhi. destruct facts as (Eo & Lx & Ly & S' & Hd). rewrite Eo.
  destruct (derivative_any xs' ys' x) as (d & Ed & Hder); [lia | exact S' | lia | exact Hlo | rewrite Lx; exact Hhi |].
  exists d. split; [exact Ed|].
  apply (is_derive_ext (NF (nthR xs') (nthR ys') 0 (List.length xs' - 1))); [| exact Hder].
  intro t. rewrite Lx. apply (NF_reproduces (nthR xs') (nthR ys') (n - 1) p).
  - rewrite <- Lx. apply separated_distinct_on. exact S'.
  - lia.
  - intros j Hj. apply Hd. lia.
Qed.
End Poly.
