(* C12_rootany: the root theorems of C12_root.v WITHOUT assumptions about callees, for every stored table of
   n = 3..64 points (symbolic lists, any ordinates, any coefficient table of length n): __call__ and derivative
   are total there (float or ValueError: C12_gen.call_total, C12_gend.deriv_total). *)
From Coq Require Import Reals ZArith List String Lra Lia.
Set Warnings "-ambiguous-paths".
From PyLib Require Import PyVal PyBuiltins Ideal PyEval.
From Gen Require Import M_base M_Angle M_Interpolation.
From Proofs.C12 Require Import C12_gen C12_gend C12_root.
Import ListNotations.
Open Scope R_scope.

Section Any.
Variables xs ys tbl : list R.
Hypothesis Hlen : List.length ys = List.length xs.
Hypothesis Htl : List.length tbl = List.length xs.
Hypothesis Hn : (3 <= List.length xs)%nat.
Notation T := (tobj xs ys (flist tbl)).
Notation I := (Icall xs ys tbl).
Notation D := (Dcall xs tbl).
Notation xmin := (nthR xs 0).
Notation xmax := (nthR xs (List.length xs - 1)).

Lemma tol0_pos' : 0 < C12_gen.tol0. Proof. apply C12_gen.tol0_pos. Qed.
Lemma Hc x : Interpolation___call__ Rops T (VFloat x) = VFloat (I x)
          \/ Interpolation___call__ Rops T (VFloat x) = VErr ValueError.
Proof. apply call_total; [exact Hlen | exact Htl | lia]. Qed.
Lemma Hd x : Interpolation_derivative Rops T (VFloat x) = VFloat (D x)
          \/ Interpolation_derivative Rops T (VFloat x) = VErr ValueError.
Proof. apply deriv_total; [exact Htl | exact Hn]. Qed.
Lemma H0 : py_getitem Rops (get_field cInterpolation 0 T) (VInt 0) = VFloat xmin.
Proof. apply first_x. lia. Qed.
Lemma H1 : py_getitem Rops (get_field cInterpolation 0 T) (VInt (-1)) = VFloat xmax.
Proof. apply last_x. lia. Qed.

Theorem root_any xl xh mi : (0 <= mi < 5000)%Z ->
  (xl <> 0 -> xl + C12_gen.tol0 <= xh -> xmin <= xl -> xh <= xmax ->
     good C12_gen.tol0 I xl xh (Interpolation_root Rops T (VFloat xl) (VFloat xh) (VInt mi))) /\
  (xl <> 0 -> xh + C12_gen.tol0 <= xl -> xmin <= xh -> xl <= xmax ->
     good C12_gen.tol0 I xh xl (Interpolation_root Rops T (VFloat xl) (VFloat xh) (VInt mi))) /\
  (xl <> 0 -> xh < xmin -> xmax < xl -> xmin + C12_gen.tol0 <= xmax ->
     good C12_gen.tol0 I xmin xmax (Interpolation_root Rops T (VFloat xl) (VFloat xh) (VInt mi))) /\
  (xl <> 0 -> xl < xmin -> xmin + C12_gen.tol0 <= xh -> xh <= xmax ->
     good C12_gen.tol0 I xmin xh (Interpolation_root Rops T (VFloat xl) (VFloat xh) (VInt mi))) /\
  (xmin + C12_gen.tol0 <= xmax ->
     good C12_gen.tol0 I xmin xmax (Interpolation_root Rops T (VFloat 0) (VFloat 0) (VInt mi))).
Proof.
  intro Hmi. pose proof tol0_pos' as Hp. assert (Ht : 0 <= C12_gen.tol0) by lra.
  unfold tobj. repeat split; intros.
  - apply (root_in_table _ _ _ _ I D Ht Hc Hd xmin xmax H0 H1); assumption.
  - apply (root_reversed _ _ _ _ I D Ht Hc Hd xmin xmax H0 H1); assumption.
  - apply (root_reversed_outside _ _ _ _ I D Ht Hc Hd xmin xmax H0 H1); assumption.
  - apply (root_clamped_low _ _ _ _ I D Ht Hc Hd xmin xmax H0 H1); assumption.
  - apply (root_default _ _ _ _ I D Ht Hc Hd xmin xmax H0 H1); assumption.
Qed.
End Any.
