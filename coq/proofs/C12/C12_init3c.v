(* C12: Interpolation.set evaluated once on 3 abstract points, input form(s): scalars (see C12_ctor3.v) *)
From Coq Require Import Reals ZArith List Bool Lra Lia String.
From PyLib Require Import PyVal PyBuiltins Ideal Whnf PyEval.
From Gen Require Import M_base M_Angle M_Interpolation.
From Proofs.C12 Require Import C12_tac C12_nd.
Import ListNotations.
Open Scope R_scope.
Section Generic3.
Variables p1 p2 p3 q1 q2 q3 u1 u2 u3 v1 v2 v3 t0 t1 t2 : R.
Hypothesis D12 : tol0 <= Rabs (p1 - p2).
Hypothesis D13 : tol0 <= Rabs (p1 - p3).
Hypothesis D23 : tol0 <= Rabs (p2 - p3).
Hypothesis EO : Interpolation__order_points Rops (obj [p1; p2; p3] [q1; q2; q3] []) = VTuple [obj [u1; u2; u3] [v1; v2; v3] []; VNone].
Hypothesis EC : Interpolation__compute_table Rops (obj [u1; u2; u3] [v1; v2; v3] []) = VTuple [obj [u1; u2; u3] [v1; v2; v3] [t0; t1; t2]; VNone].
Ltac prep := unfold blank, obj, flist, tol0 in *; cbn [map] in *.
Lemma init3_scalars : Interpolation___init__ Rops blank (VTuple [VFloat p1; VFloat q1; VFloat p2; VFloat q2; VFloat p3; VFloat q3]) = obj [u1; u2; u3] [v1; v2; v3] [t0; t1; t2].
Proof. prep. crun. reflexivity. Qed.
End Generic3.
