(* Property C12 — Interpolation reproduces polynomials; roots and extrema lie where asked.
   Statements only; proofs in C12_ideal.v (symbolic three-point table, real-number instance),
   C12_root.v (bracket invariant of the generated root loop for an arbitrary table, real-number
   instance) and C12_defs/C12_grid_*/C12_main.v (binary64 kernel evaluation on an explicit grid).
   The model is regenerated from /repo on every run. *)
From Coq Require Import Reals ZArith List String PrimFloat Lia.
Set Warnings "-ambiguous-paths".
From Coquelicot Require Import Coquelicot.
From PyLib Require Import PyVal PyBuiltins Ideal.
From Gen Require Import M_base M_Angle M_Interpolation.
From Proofs.C12 Require C12_defs C12_main C12_gen C12_gend C12_rootany C12_order C12_set C12_poly.
From Coq Require Import Permutation Sorted.
From Spec Require Newton.
From Proofs.C12 Require Import C12_tac C12_ideal C12_root C12_witness.
Import ListNotations.
Open Scope R_scope.

(* [ideal, n = 3 ONLY; the property speaks of 2..9 points] a three-point table (abscissae at least tol apart,
   in ascending order; any ordinates and any coefficient table): at each tabulated abscissa __call__ returns
   the tabulated ordinate.  This is the |x - xi| < tol shortcut of __call__, not a fact about the polynomial;
   that the POLYNOMIAL passes through the points is C12_newton_form + C12_polynomial (Lagrange form at xi). *)
Theorem C12_through_points : forall x1 x2 x3 y1 y2 y3 t0 t1 t2, x1 + tol0 <= x2 -> x2 + tol0 <= x3 ->
  let T := obj [x1; x2; x3] [y1; y2; y3] [t0; t1; t2] in
  Interpolation___call__ Rops T (VFloat x1) = VFloat y1 /\
  Interpolation___call__ Rops T (VFloat x2) = VFloat y2 /\
  Interpolation___call__ Rops T (VFloat x3) = VFloat y3.
Proof. intros. repeat split; [apply call_node1 | apply call_node2 | apply call_node3]; assumption. Qed.

(* [ideal, n = 3 only] between the nodes __call__ is the Horner evaluation of the Newton form over the stored table ... *)
Theorem C12_newton_form : forall x1 x2 x3 y1 y2 y3 t0 t1 t2 x, x1 + tol0 <= x2 -> x2 + tol0 <= x3 ->
  x1 <= x <= x3 -> tol0 <= Rabs (x - x1) -> tol0 <= Rabs (x - x2) -> tol0 <= Rabs (x - x3) ->
  Interpolation___call__ Rops (obj [x1; x2; x3] [y1; y2; y3] [t0; t1; t2]) (VFloat x)
  = VFloat (t0 + (x - x1) * (t1 + (x - x2) * t2)).
Proof. intros. apply call_inside; assumption. Qed.

(* ... which, for the divided differences as table, is the parabola through the three points (Lagrange form) *)
Theorem C12_polynomial : forall x1 x2 x3 y1 y2 y3 x, x1 <> x2 -> x2 <> x3 -> x1 <> x3 ->
  y1 + (x - x1) * (dd2 x1 x2 y1 y2 + (x - x2) * dd3 x1 x2 x3 y1 y2 y3) = lagrange3 x1 x2 x3 y1 y2 y3 x.
Proof. exact newton3_is_lagrange. Qed.

(* [ideal, n = 3 only] derivative() returns t1 + ((x-x2)+(x-x1)) t2, which for the divided differences is the
   derivative of that parabola *)
Theorem C12_derivative : forall x1 x2 x3 y1 y2 y3 x, x1 + tol0 <= x2 -> x2 + tol0 <= x3 -> x1 <= x <= x3 ->
  Interpolation_derivative Rops
    (obj [x1; x2; x3] [y1; y2; y3] [y1; dd2 x1 x2 y1 y2; dd3 x1 x2 x3 y1 y2 y3]) (VFloat x)
  = VFloat (dd2 x1 x2 y1 y2 + ((x - x2) + (x - x1)) * dd3 x1 x2 x3 y1 y2 y3)
  /\ (x1 <> x2 -> x2 <> x3 -> x1 <> x3 ->
      is_derive (lagrange3 x1 x2 x3 y1 y2 y3) x
                (dd2 x1 x2 y1 y2 + ((x - x2) + (x - x1)) * dd3 x1 x2 x3 y1 y2 y3)).
Proof. intros. split; [apply deriv_inside; assumption | apply newton3_derivative]. Qed.

(* [ideal, n = 3 only] abscissae outside the table are refused with ValueError (by __call__ beyond the tolerance,
   by derivative immediately) *)
Theorem C12_refused : forall x1 x2 x3 y1 y2 y3 t0 t1 t2 x, x1 + tol0 <= x2 -> x2 + tol0 <= x3 ->
  let T := obj [x1; x2; x3] [y1; y2; y3] [t0; t1; t2] in
  (x <= x1 - tol0 \/ x3 + tol0 <= x -> Interpolation___call__ Rops T (VFloat x) = VErr ValueError) /\
  (x < x1 \/ x3 < x -> Interpolation_derivative Rops T (VFloat x) = VErr ValueError).
Proof.
  intros. split; intros [A | A];
  [apply call_below | apply call_above | apply deriv_below | apply deriv_above]; assumption.
Qed.

(* ===== tables of ANY length n (1 <= n <= 64: the model's recursion fuel for _newton_diff is 64) =====
   [ideal] The stored lists are symbolic Coq lists xs, ys of equal length whose abscissae are pairwise at
   least tol apart (C12_gen.separated: what set()'s duplicate check guarantees); sortedness is only used
   for the in-range test of __call__.  Proofs by induction over the generated loops (C12_gen.v), the
   mathematics in Spec/Newton.v.  The constructor itself (all float input forms, any order) follows below
   (C12_constructor_any ff.). *)

(* _newton_diff(0, k) is the divided difference f[x_0..x_k] (Spec.Newton.dd), whatever the table field holds *)
Theorem C12_newton_diff_any : forall (xs ys : list R) k tb,
  List.length ys = List.length xs -> C12_gen.separated xs -> (k < 64)%nat -> (k < List.length xs)%nat ->
  Interpolation__newton_diff Rops (C12_gen.tobj xs ys tb) (VInt 0) (VInt (Z.of_nat k))
  = VFloat (Newton.dd (C12_gen.nthR xs) (C12_gen.nthR ys) k 0).
Proof.
  intros xs ys k tb L S H64 Hk.
  apply C12_gen.newton_diff_gen; [exact L | apply C12_gen.separated_distinct; exact S | exact H64 | exact Hk].
Qed.

(* _compute_table fills the coefficient table with dd 0 0, dd 1 0, ..., dd (n-1) 0 *)
Theorem C12_compute_table_any : forall xs ys : list R,
  List.length ys = List.length xs -> C12_gen.separated xs -> (List.length xs <= 64)%nat ->
  Interpolation__compute_table Rops (C12_gen.tobj xs ys (C12_gen.flist []))
  = VTuple [C12_gen.tobj xs ys (C12_gen.flist (map (fun k => Newton.dd (C12_gen.nthR xs) (C12_gen.nthR ys) k 0)
                                                     (seq 0 (List.length xs)))); VNone].
Proof. exact C12_gen.built_by_compute_table. Qed.

(* on that object __call__ returns the tabulated ordinate at EVERY tabulated abscissa, and between the
   nodes (inside the table, at least tol away from every node) the Newton form NF through all n points,
   evaluated by Horner's scheme *)
Theorem C12_call_any : forall xs ys : list R,
  List.length ys = List.length xs -> C12_gen.separated xs ->
  (forall j, (j < List.length xs)%nat ->
     Interpolation___call__ Rops (C12_gen.built xs ys) (VFloat (C12_gen.nthR xs j)) = VFloat (C12_gen.nthR ys j)) /\
  (forall x, (0 < List.length xs)%nat ->
     C12_gen.nthR xs 0 <= x -> x <= C12_gen.nthR xs (List.length xs - 1) ->
     (forall i, (i < List.length xs)%nat -> C12_gen.tol0 <= Rabs (x - C12_gen.nthR xs i)) ->
     Interpolation___call__ Rops (C12_gen.built xs ys) (VFloat x)
     = VFloat (Newton.NF (C12_gen.nthR xs) (C12_gen.nthR ys) 0 (List.length xs - 1) x)).
Proof.
  intros xs ys L S. split.
  - intros j Hj. apply C12_gen.call_at_node; assumption.
  - intros x Hn Hlo Hhi Ha. apply C12_gen.call_between; assumption.
Qed.

(* [spec, bridged by C12_call_any] that Newton form passes through every point (so the polynomial, not only
   the |x - xi| < tol shortcut, interpolates), and it reproduces EVERY polynomial of degree < n (coefficient
   list p of length <= n) from its values at the nodes, at every x: uniqueness of the interpolant *)
Theorem C12_interpolates_any : forall xs ys : list R, C12_gen.separated xs -> (0 < List.length xs)%nat ->
  let xf := C12_gen.nthR xs in let yf := C12_gen.nthR ys in let n := List.length xs in
  (forall j, (j < n)%nat -> Newton.NF xf yf 0 (n - 1) (xf j) = yf j) /\
  (forall p : list R, (List.length p <= n)%nat -> (forall j, (j < n)%nat -> yf j = Newton.peval p (xf j)) ->
     forall x, Newton.NF xf yf 0 (n - 1) x = Newton.peval p x).
Proof.
  intros xs ys S Hn xf yf n. pose proof (C12_gen.separated_distinct_on xs S) as D. split.
  - intros j Hj. apply Newton.NF_interpolates; [exact D | subst n; lia].
  - intros p Lp Hy x. apply Newton.NF_reproduces; [exact D | subst n; lia | intros j Hj; apply Hy; subst n; lia].
Qed.

(* derivative() on that object, ANY n >= 3 (three nested generated loops, C12_gend.v): the value returned inside the
   table IS the derivative of the Newton form NF through all n points (Coquelicot is_derive); n = 2: the slope of
   the chord; outside the table ValueError *)
Theorem C12_derivative_any : forall xs ys : list R,
  List.length ys = List.length xs -> C12_gen.separated xs ->
  (forall x, (3 <= List.length xs)%nat ->
     C12_gen.nthR xs 0 <= x -> x <= C12_gen.nthR xs (List.length xs - 1) ->
     exists d, Interpolation_derivative Rops (C12_gen.built xs ys) (VFloat x) = VFloat d
               /\ is_derive (Newton.NF (C12_gen.nthR xs) (C12_gen.nthR ys) 0 (List.length xs - 1)) x d) /\
  (forall x tb, List.length tb = List.length xs -> (3 <= List.length xs)%nat -> x < C12_gen.nthR xs 0 \/ C12_gen.nthR xs (List.length xs - 1) < x ->
     Interpolation_derivative Rops (C12_gen.tobj xs ys (C12_gen.flist tb)) (VFloat x) = VErr ValueError).
Proof.
  intros xs ys L S. split.
  - intros x Hn Hlo Hhi. apply C12_gend.derivative_any; assumption.
  - intros x tb Ht Hn Hout. apply C12_gend.derivative_outside; assumption.
Qed.
Theorem C12_derivative_two : forall a b c d tb x, a <= x <= b -> b - a <> 0 ->
  Interpolation_derivative Rops (C12_gen.tobj [a; b] [c; d] tb) (VFloat x) = VFloat ((d - c) / (b - a)).
Proof. exact C12_gend.derivative_two. Qed.

(* __call__ outside the table (beyond the tolerance of every node): ValueError, ANY n >= 1, any coefficient table *)
Theorem C12_refused_any : forall (xs ys tbl : list R) x,
  List.length ys = List.length xs -> List.length tbl = List.length xs -> (0 < List.length xs)%nat ->
  x < C12_gen.nthR xs 0 \/ C12_gen.nthR xs (List.length xs - 1) < x ->
  (forall i, (i < List.length xs)%nat -> C12_gen.tol0 <= Rabs (x - C12_gen.nthR xs i)) ->
  Interpolation___call__ Rops (C12_gen.tobj xs ys (C12_gen.flist tbl)) (VFloat x) = VErr ValueError.
Proof. intros xs ys tbl x Hy Ht Hn Ho Ha. apply C12_gen.call_outside; assumption. Qed.

(* [ideal] _order_points on raw stored lists of ANY length n >= 1 with pairwise different abscissae (the generated
   selection loop: n times the first index of the minimum of the working copy, overwritten by max(x) + 1; then
   the index list is turned into ordinates): the stored abscissae are STRICTLY INCREASING and the stored
   (x, y) pairs are a permutation of the given ones.  C12_order.sx/sy are the lists the loop produces
   (defined by the pure selection function C12_order.sel).  Hence the second half of set() - _order_points,
   _compute_table, __call__ at the nodes - is proved for every n in 1..64 (C12_order.stored_pipeline);
   the first half (reading the arguments into the raw lists, duplicate test): C12_constructor_any below. *)
Theorem C12_order_points_any : forall (px py : list R) (tb : val R),
  List.length py = List.length px -> px <> [] -> NoDup px ->
  let xs' := C12_order.sx px in let ys' := C12_order.sy px py in
  Interpolation__order_points Rops (C12_gen.tobj px py tb) = VTuple [C12_gen.tobj xs' ys' tb; VNone] /\
  StronglySorted Rlt xs' /\ Permutation (combine xs' ys') (combine px py) /\
  List.length xs' = List.length px /\ List.length ys' = List.length px.
Proof. exact C12_order.order_any. Qed.

(* [ideal] ORDER INDEPENDENCE for any n: two raw tables with the same (x, y) pairs in different orders (pairwise different
   abscissae) are turned by _order_points into the IDENTICAL object (strictly sorted lists that are permutations of
   each other are equal) *)
Theorem C12_order_independent_any : forall (px py px' py' : list R) (tb : val R),
  List.length py = List.length px -> List.length py' = List.length px' -> px <> [] -> px' <> [] ->
  NoDup px -> NoDup px' -> Permutation (combine px py) (combine px' py') ->
  Interpolation__order_points Rops (C12_gen.tobj px py tb) = Interpolation__order_points Rops (C12_gen.tobj px' py' tb).
Proof. exact C12_order.order_independent. Qed.

Theorem C12_stored_pipeline_any : forall px py : list R,
  List.length py = List.length px -> px <> [] -> C12_gen.separated px -> (List.length px <= 64)%nat ->
  let xs' := C12_order.sx px in let ys' := C12_order.sy px py in
  Interpolation__order_points Rops (C12_gen.tobj px py (C12_gen.flist [])) = VTuple [C12_gen.tobj xs' ys' (C12_gen.flist []); VNone] /\
  Interpolation__compute_table Rops (C12_gen.tobj xs' ys' (C12_gen.flist [])) = VTuple [C12_gen.built xs' ys'; VNone] /\
  (forall j, (j < List.length px)%nat ->
     Interpolation___call__ Rops (C12_gen.built xs' ys') (VFloat (C12_gen.nthR xs' j)) = VFloat (C12_gen.nthR ys' j)) /\
  StronglySorted Rlt xs' /\ Permutation (combine xs' ys') (combine px py).
Proof. exact C12_order.stored_pipeline. Qed.

(* [ideal] THE CONSTRUCTOR, two-list form, ANY n in 2..64 (symbolic lists px, py of equal length, abscissae pairwise
   at least tol apart, in any order): Interpolation(px, py) is the object with strictly increasing abscissae, the
   ordinates carried along and the divided differences as coefficient table (every generated loop of set(): argument
   dispatch, slices, zip loop, duplicate test, _order_points, _compute_table); it does not depend on the order of
   the points; any pair of abscissae closer than tol gives ValueError.  Two tuples, interleaved scalars and the copy
   constructor: any n as well (C12_constructor_forms_any, C12_copy_any); not proved: the ordinates-only form. *)
Theorem C12_constructor_any : forall px py : list R,
  List.length py = List.length px -> (2 <= List.length px <= 64)%nat -> C12_gen.separated px ->
  let xs' := C12_order.sx px in let ys' := C12_order.sy px py in
  Interpolation___init__ Rops (VObj cInterpolation [VNone; VNone; VNone; VNone])
                         (VTuple [C12_gen.flist px; C12_gen.flist py]) = C12_gen.built xs' ys' /\
  StronglySorted Rlt xs' /\ Permutation (combine xs' ys') (combine px py) /\
  (forall j, (j < List.length px)%nat ->
     Interpolation___call__ Rops (C12_gen.built xs' ys') (VFloat (C12_gen.nthR xs' j)) = VFloat (C12_gen.nthR ys' j)).
Proof.
  intros px py L Hn S xs' ys'.
  assert (Hne : px <> []) by (intro E; rewrite E in Hn; simpl in Hn; lia).
  destruct (C12_order.stored_pipeline px py L Hne S ltac:(lia)) as (_ & _ & Hc & Hs & Hp).
  split; [apply C12_set.init_lists; assumption|]. split; [exact Hs|]. split; [exact Hp | exact Hc].
Qed.

Theorem C12_constructor_order_independent_any : forall px py px' py' : list R,
  List.length py = List.length px -> List.length py' = List.length px' ->
  (2 <= List.length px <= 64)%nat -> C12_gen.separated px -> C12_gen.separated px' ->
  Permutation (combine px py) (combine px' py') ->
  Interpolation___init__ Rops (VObj cInterpolation [VNone; VNone; VNone; VNone]) (VTuple [C12_gen.flist px; C12_gen.flist py])
  = Interpolation___init__ Rops (VObj cInterpolation [VNone; VNone; VNone; VNone]) (VTuple [C12_gen.flist px'; C12_gen.flist py']).
Proof. exact C12_set.init_order_independent. Qed.

(* [ideal] other input forms, ANY n in 2..64: two tuples and interleaved scalars Interpolation(x1, y1, x2, y2, ...)
   (C12_set.inter px py = [x1; y1; x2; y2; ...]) give the same object as two lists; the copy constructor
   Interpolation(obj) returns an object with the fields of obj (any table, any n) *)
Theorem C12_constructor_forms_any : forall px py : list R,
  List.length py = List.length px -> (2 <= List.length px <= 64)%nat -> C12_gen.separated px ->
  let two_lists := Interpolation___init__ Rops (VObj cInterpolation [VNone; VNone; VNone; VNone])
                     (VTuple [C12_gen.flist px; C12_gen.flist py]) in
  Interpolation___init__ Rops (VObj cInterpolation [VNone; VNone; VNone; VNone])
    (VTuple [VTuple (map VFloat px); VTuple (map VFloat py)]) = two_lists /\
  Interpolation___init__ Rops (VObj cInterpolation [VNone; VNone; VNone; VNone])
    (VTuple (C12_set.inter px py)) = two_lists.
Proof.
  intros px py L Hn S two_lists. subst two_lists.
  rewrite (C12_set.init_tuples px py L Hn S), (C12_set.init_scalars px py L Hn S), (C12_set.init_lists px py L Hn S).
  split; reflexivity.
Qed.
Theorem C12_copy_any : forall (a b c : list R) (t : R),
  Interpolation___init__ Rops (VObj cInterpolation [VNone; VNone; VNone; VNone])
    (VTuple [VObj cInterpolation [C12_gen.flist a; C12_gen.flist b; C12_gen.flist c; VFloat t]])
  = VObj cInterpolation [C12_gen.flist a; C12_gen.flist b; C12_gen.flist c; VFloat t].
Proof. exact C12_set.init_copy. Qed.

Theorem C12_duplicates_any : forall px py : list R,
  List.length py = List.length px -> (2 <= List.length px)%nat ->
  (exists a b, (a < b < List.length px)%nat /\ Rabs (C12_gen.nthR px a - C12_gen.nthR px b) < Rlit 1 (-10)) ->
  Interpolation___init__ Rops (VObj cInterpolation [VNone; VNone; VNone; VNone]) (VTuple [C12_gen.flist px; C12_gen.flist py])
  = VErr ValueError.
Proof. exact C12_set.init_dups. Qed.

(* [ideal] THE HEADLINE CLAUSE, ANY n in 2..64, from the constructor arguments on: ordinates taken from a polynomial p of
   degree < n (coefficient list of length <= n, Newton.peval), abscissae pairwise at least tol apart and supplied in
   ANY order: between the nodes (inside the table, at least tol from every node) Interpolation(px, py)(x) = p(x)
   EXACTLY, and (n >= 3) derivative(x) is the derivative of p.  Exact real arithmetic: nothing is said about the
   relative 1e-9 of the binary64 code, which is covered by correspondence and search. *)
Theorem C12_polynomial_any : forall px py p : list R,
  List.length py = List.length px -> (2 <= List.length px <= 64)%nat -> C12_gen.separated px ->
  (List.length p <= List.length px)%nat ->
  (forall j, (j < List.length px)%nat -> C12_gen.nthR py j = Newton.peval p (C12_gen.nthR px j)) ->
  let obj := Interpolation___init__ Rops (VObj cInterpolation [VNone; VNone; VNone; VNone])
               (VTuple [C12_gen.flist px; C12_gen.flist py]) in
  let xs' := C12_order.sx px in let n := List.length px in
  forall x, C12_gen.nthR xs' 0 <= x -> x <= C12_gen.nthR xs' (n - 1) ->
  ((forall i, (i < n)%nat -> C12_gen.tol0 <= Rabs (x - C12_gen.nthR xs' i)) ->
     Interpolation___call__ Rops obj (VFloat x) = VFloat (Newton.peval p x)) /\
  ((3 <= n)%nat ->
     exists d, Interpolation_derivative Rops obj (VFloat x) = VFloat d /\ is_derive (Newton.peval p) x d).
Proof.
  intros px py p L Hn S Hd Hdata obj xs' n x Hlo Hhi. split.
  - intro Ha. apply (C12_poly.poly_value px py p L Hn S Hd Hdata x Hlo Hhi Ha).
  - intro H3. apply (C12_poly.poly_derivative px py p L Hn S Hd Hdata x H3 Hlo Hhi).
Qed.

(* [ideal] root(): the generated while loop (extracted from the generated text as root_loop) keeps the
   bracket invariant; by induction on its fuel, for ANY object whose __call__/derivative return a float
   (I x, D x) or raise ValueError (assumption on the callees; satisfiable: C12_root_witness below).
   [good tol I a b v] says: v is a float r with a <= r <= b and |I r| <= tol, OR v is VErr ValueError;
   every other outcome (OutOfFuel, TypeError, Unsupported, non-float values) is excluded.
   PARTIAL CORRECTNESS as far as finding a root is concerned: ValueError ("too many iterations" /
   "no sign change") satisfies it; that a float is returned for every sign change is NOT proved.
   The model artefact OutOfFuel is impossible as long as max_iter - num_iter < fuel (every pass
   increments num_iter and the loop raises ValueError at max_iter). *)
Theorem C12_root_step : forall (fx fy ft : val R) (tol : R) (I D : R -> R),
  let self := VObj cInterpolation [fx; fy; ft; VFloat tol] in
  0 <= tol ->
  (forall x, Interpolation___call__ Rops self (VFloat x) = VFloat (I x)
             \/ Interpolation___call__ Rops self (VFloat x) = VErr ValueError) ->
  (forall x, Interpolation_derivative Rops self (VFloat x) = VFloat (D x)
             \/ Interpolation_derivative Rops self (VFloat x) = VErr ValueError) ->
  forall a b mi fuel ni x xh xl y yh yl yp,
  (Z.max 0 (mi - ni) < Z.of_nat fuel)%Z ->
  a <= xl -> xl <= xh -> xh <= b -> xl <= x <= xh -> y = I x -> (tol < Rabs y -> yl * yh < 0) ->
  good tol I a b (root_loop self (VInt mi) fuel (VInt ni) (VFloat x) (VFloat xh) (VFloat xl)
                            (VFloat y) (VFloat yh) (VFloat yl) yp).
Proof. intros. apply loop_good with (D := D); assumption. Qed.

(* [ideal] PROGRESS of the repaired fallback (commit edeb4b4): when the derivative is too small the next abscissa xn
   is the secant point if that lies in the inner 80 % of the bracket and the midpoint otherwise, and whichever end it
   replaces, the new bracket [xl', xh'] lies in the old one and is at most 90 % as wide - regula falsi can no longer
   stall next to a double root.  (One iteration; this is not yet a termination proof: accepted Newton steps may
   shrink the bracket arbitrarily little.) *)
Theorem C12_root_progress : forall (fx fy ft : val R) (tol : R) (I D : R -> R),
  let self := VObj cInterpolation [fx; fy; ft; VFloat tol] in
  forall mi fuel ni x xh xl y yh yl yp,
  xl <= xh -> tol < Rabs y -> yl * yh < 0 -> Z.geb ni mi = false ->
  Interpolation_derivative Rops self (VFloat x) = VFloat (D x) -> Rabs (D x) < Rlit 1 (-3) ->
  exists xn, (xl + Rlit 1 (-1) * (xh - xl) <= xn <= xh - Rlit 1 (-1) * (xh - xl)) /\
    (Interpolation___call__ Rops self (VFloat xn) = VErr ValueError ->
       root_loop self (VInt mi) (S fuel) (VInt ni) (VFloat x) (VFloat xh) (VFloat xl) (VFloat y) (VFloat yh) (VFloat yl) yp
       = VErr ValueError) /\
    (Interpolation___call__ Rops self (VFloat xn) = VFloat (I xn) ->
       exists xl' xh' yl' yh',
         root_loop self (VInt mi) (S fuel) (VInt ni) (VFloat x) (VFloat xh) (VFloat xl) (VFloat y) (VFloat yh) (VFloat yl) yp
         = root_loop self (VInt mi) fuel (VInt (ni + 1)) (VFloat xn) (VFloat xh') (VFloat xl')
                     (VFloat (I xn)) (VFloat yh') (VFloat yl') (VFloat (D x))
         /\ xl <= xl' /\ xh' <= xh /\ xl' <= xh' /\ xh' - xl' <= (1 - Rlit 1 (-1)) * (xh - xl)).
Proof. intros fx fy ft tol I D self. exact (fallback_progress fx fy ft tol I D). Qed.

(* [ideal] the whole method, for max_iter in 0..4999 (the model's loop fuel is 5000; the default max_iter is
   1000): root(xl, xh) returns a float inside the interval asked for (limits put in order and clamped to the
   table) at which the interpolant is <= tol, or raises ValueError - nothing else.  Entry paths proved:
   limits in the table (xl <> 0, and xl = 0 with xh <> 0), reversed, reversed and both outside, lower limit
   below the table, and the default (0, 0).  Not separate theorems: "only the upper limit above the table"
   and the remaining combinations with a zero limit.  Same partial-correctness caveat as above. *)
Theorem C12_root_sound : forall (fx fy ft : val R) (tol : R) (I D : R -> R) (xmin xmax : R),
  let self := VObj cInterpolation [fx; fy; ft; VFloat tol] in
  0 < tol ->
  (forall x, Interpolation___call__ Rops self (VFloat x) = VFloat (I x)
             \/ Interpolation___call__ Rops self (VFloat x) = VErr ValueError) ->
  (forall x, Interpolation_derivative Rops self (VFloat x) = VFloat (D x)
             \/ Interpolation_derivative Rops self (VFloat x) = VErr ValueError) ->
  py_getitem Rops (get_field cInterpolation 0 self) (VInt 0) = VFloat xmin ->
  py_getitem Rops (get_field cInterpolation 0 self) (VInt (-1)) = VFloat xmax ->
  forall xl xh mi, (0 <= mi < 5000)%Z ->
  (xl <> 0 -> xl + tol <= xh -> xmin <= xl -> xh <= xmax ->
     good tol I xl xh (Interpolation_root Rops self (VFloat xl) (VFloat xh) (VInt mi))) /\
  (xh <> 0 -> 0 + tol <= xh -> xmin <= 0 -> xh <= xmax ->
     good tol I 0 xh (Interpolation_root Rops self (VFloat 0) (VFloat xh) (VInt mi))) /\
  (xl <> 0 -> xh + tol <= xl -> xmin <= xh -> xl <= xmax ->
     good tol I xh xl (Interpolation_root Rops self (VFloat xl) (VFloat xh) (VInt mi))) /\
  (xl <> 0 -> xh < xmin -> xmax < xl -> xmin + tol <= xmax ->
     good tol I xmin xmax (Interpolation_root Rops self (VFloat xl) (VFloat xh) (VInt mi))) /\
  (xl <> 0 -> xl < xmin -> xmin + tol <= xh -> xh <= xmax ->
     good tol I xmin xh (Interpolation_root Rops self (VFloat xl) (VFloat xh) (VInt mi))) /\
  (xmin + tol <= xmax ->
     good tol I xmin xmax (Interpolation_root Rops self (VFloat 0) (VFloat 0) (VInt mi))).
Proof.
  intros fx fy ft tol I D xmin xmax self Htp Hc Hd H0 H1 xl xh mi Hmi.
  assert (Ht : 0 <= tol) by (apply Rlt_le; exact Htp).
  repeat split; intros.
  - apply root_in_table with (D := D) (xmin := xmin) (xmax := xmax); assumption.
  - apply root_in_table_zero with (D := D) (xmin := xmin) (xmax := xmax); assumption.
  - apply root_reversed with (D := D) (xmin := xmin) (xmax := xmax); assumption.
  - apply root_reversed_outside with (D := D); assumption.
  - apply root_clamped_low with (D := D) (xmax := xmax); assumption.
  - apply root_default with (D := D); assumption.
Qed.

(* [ideal] non-vacuity of the callee assumptions: for the symbolic three-point table (abscissae at least
   tol apart, ANY ordinates and coefficient table) __call__ and derivative ARE total in that sense
   (C12_ideal.call_total / deriv_total: I3 is the node ordinate within tol of a node, else the Newton form),
   so the root statements hold for it with no assumption about callees *)
Theorem C12_root_witness : forall x1 x2 x3 y1 y2 y3 t0 t1 t2, x1 + tol0 <= x2 -> x2 + tol0 <= x3 ->
  let T := obj [x1; x2; x3] [y1; y2; y3] [t0; t1; t2] in
  let I := I3 x1 x2 x3 y1 y2 y3 t0 t1 t2 in
  forall mi, (0 <= mi < 5000)%Z ->
  good tol0 I x1 x3 (Interpolation_root Rops T (VFloat 0) (VFloat 0) (VInt mi)) /\
  (forall xl xh, xl <> 0 -> xl + tol0 <= xh -> x1 <= xl -> xh <= x3 ->
     good tol0 I xl xh (Interpolation_root Rops T (VFloat xl) (VFloat xh) (VInt mi))).
Proof.
  intros x1 x2 x3 y1 y2 y3 t0 t1 t2 H12 H23 T I mi Hmi. split.
  - exact (root3_default x1 x2 x3 y1 y2 y3 t0 t1 t2 H12 H23 mi Hmi).
  - intros xl xh. exact (root3_in_table x1 x2 x3 y1 y2 y3 t0 t1 t2 H12 H23 xl xh mi Hmi).
Qed.

(* [ideal] root() on EVERY stored table of n = 3..64 points (symbolic lists, any ordinates, any coefficient table of
   length n), with NO assumption about callees: __call__ and derivative are total there (float or ValueError,
   C12_gen.call_total / C12_gend.deriv_total), so for max_iter in 0..4999 the outcome of root(xl, xh) is a float inside
   the ordered, clamped interval at which __call__ (Icall: node ordinate within tol of a node, else the Horner value)
   is <= tol in absolute value, or ValueError - nothing else.  Same partial-correctness caveat and entry paths
   as C12_root_sound. *)
Theorem C12_root_any : forall (xs ys tbl : list R),
  List.length ys = List.length xs -> List.length tbl = List.length xs -> (3 <= List.length xs)%nat ->
  let T := C12_gen.tobj xs ys (C12_gen.flist tbl) in
  let I := C12_gen.Icall xs ys tbl in
  let xmin := C12_gen.nthR xs 0 in let xmax := C12_gen.nthR xs (List.length xs - 1) in
  forall xl xh mi, (0 <= mi < 5000)%Z ->
  (xl <> 0 -> xl + C12_gen.tol0 <= xh -> xmin <= xl -> xh <= xmax ->
     good C12_gen.tol0 I xl xh (Interpolation_root Rops T (VFloat xl) (VFloat xh) (VInt mi))) /\
  (xl <> 0 -> xh + C12_gen.tol0 <= xl -> xmin <= xh -> xl <= xmax ->
     good C12_gen.tol0 I xh xl (Interpolation_root Rops T (VFloat xl) (VFloat xh) (VInt mi))) /\
  (xl <> 0 -> xh < xmin -> xmax < xl -> xmin + C12_gen.tol0 <= xmax ->
     good C12_gen.tol0 I xmin xmax (Interpolation_root Rops T (VFloat xl) (VFloat xh) (VInt mi))) /\
  (xl <> 0 -> xl < xmin -> xmin + C12_gen.tol0 <= xh -> xh <= xmax ->
     good C12_gen.tol0 I xmin xh (Interpolation_root Rops T (VFloat xl) (VFloat xh) (VInt mi))) /\
  (xmin + C12_gen.tol0 <= xmax ->
     good C12_gen.tol0 I xmin xmax (Interpolation_root Rops T (VFloat 0) (VFloat 0) (VInt mi))).
Proof. intros xs ys tbl L Lt Hn T I xmin xmax xl xh mi Hmi. exact (C12_rootany.root_any xs ys tbl L Lt Hn xl xh mi Hmi). Qed.

(* [binary64] kernel evaluation of the generated root()/minmax() on the explicit grid C12_defs.grid
   (24 tables of 2-6 points given shuffled; every ordered pair of limits from: one below the table,
   every node, every midpoint, 1.5 above the table): a returned float lies in the clamped interval and
   the independent Lagrange polynomial (resp. its derivative, for minmax) is <= 1e-9 there; a
   ValueError occurs only without a clear sign change; nothing else is returned (chk_pair). *)
Theorem C12_grid_b64 : forall t xl xh, In t C12_defs.grid -> In xl (C12_defs.limits t) -> In xh (C12_defs.limits t) ->
  C12_defs.chk_pair t xl xh = true.
Proof. exact C12_main.grid_b64. Qed.

(* chk_pair is trivially true for xl = xh (equal limits are not part of the claim); non-vacuity: on 756 of
   the ordered limit pairs of the grid root() returns a float (which chk_pair then judges) *)
Theorem C12_grid_found : fold_right Nat.add 0%nat (map C12_defs.count_found C12_defs.grid) = 756%nat.
Proof. exact C12_main.grid_found. Qed.

Redirect "C12_through_points.assumptions" Print Assumptions C12_through_points.
Redirect "C12_newton_form.assumptions" Print Assumptions C12_newton_form.
Redirect "C12_polynomial.assumptions" Print Assumptions C12_polynomial.
Redirect "C12_derivative.assumptions" Print Assumptions C12_derivative.
Redirect "C12_refused.assumptions" Print Assumptions C12_refused.
Redirect "C12_newton_diff_any.assumptions" Print Assumptions C12_newton_diff_any.
Redirect "C12_compute_table_any.assumptions" Print Assumptions C12_compute_table_any.
Redirect "C12_call_any.assumptions" Print Assumptions C12_call_any.
Redirect "C12_interpolates_any.assumptions" Print Assumptions C12_interpolates_any.
Redirect "C12_derivative_any.assumptions" Print Assumptions C12_derivative_any.
Redirect "C12_derivative_two.assumptions" Print Assumptions C12_derivative_two.
Redirect "C12_refused_any.assumptions" Print Assumptions C12_refused_any.
Redirect "C12_order_points_any.assumptions" Print Assumptions C12_order_points_any.
Redirect "C12_order_independent_any.assumptions" Print Assumptions C12_order_independent_any.
Redirect "C12_stored_pipeline_any.assumptions" Print Assumptions C12_stored_pipeline_any.
Redirect "C12_constructor_any.assumptions" Print Assumptions C12_constructor_any.
Redirect "C12_constructor_order_independent_any.assumptions" Print Assumptions C12_constructor_order_independent_any.
Redirect "C12_constructor_forms_any.assumptions" Print Assumptions C12_constructor_forms_any.
Redirect "C12_copy_any.assumptions" Print Assumptions C12_copy_any.
Redirect "C12_duplicates_any.assumptions" Print Assumptions C12_duplicates_any.
Redirect "C12_polynomial_any.assumptions" Print Assumptions C12_polynomial_any.
Redirect "C12_root_step.assumptions" Print Assumptions C12_root_step.
Redirect "C12_root_progress.assumptions" Print Assumptions C12_root_progress.
Redirect "C12_root_sound.assumptions" Print Assumptions C12_root_sound.
Redirect "C12_root_witness.assumptions" Print Assumptions C12_root_witness.
Redirect "C12_root_any.assumptions" Print Assumptions C12_root_any.
Redirect "C12_grid_b64.assumptions" Print Assumptions C12_grid_b64.
Redirect "C12_grid_found.assumptions" Print Assumptions C12_grid_found.
