(* C12: the generated Interpolation.__call__ / derivative evaluated symbolically (real-number instance)
   on a three-point table with symbolic abscissae, ordinates and Newton coefficients. *)
From Coq Require Import Reals ZArith List String Lra.
Set Warnings "-ambiguous-paths".
From Coquelicot Require Import Coquelicot.
From PyLib Require Import PyVal PyBuiltins Ideal PyEval.
From Gen Require Import M_base M_Angle M_Interpolation.
From Proofs.C12 Require Import C12_tac.
Import ListNotations.
Open Scope R_scope.

Ltac c12run := pyrun_using c12lra.

(* the parabola through the three points, Lagrange form (independent of the Newton form) *)
Definition lagrange3 (x1 x2 x3 y1 y2 y3 x : R) : R :=
  y1 * ((x - x2) * (x - x3)) / ((x1 - x2) * (x1 - x3)) +
  y2 * ((x - x1) * (x - x3)) / ((x2 - x1) * (x2 - x3)) +
  y3 * ((x - x1) * (x - x2)) / ((x3 - x1) * (x3 - x2)).

Section Three.
Variables x1 x2 x3 y1 y2 y3 t0 t1 t2 : R.
Hypothesis H12 : x1 + tol0 <= x2.
Hypothesis H23 : x2 + tol0 <= x3.
Notation T := (obj [x1; x2; x3] [y1; y2; y3] [t0; t1; t2]).

(* at a tabulated abscissa the tabulated ordinate is returned *)
Lemma call_node1 : Interpolation___call__ Rops T (VFloat x1) = VFloat y1.
Proof. unfold obj, flist, map. c12run. reflexivity. Qed.
Lemma call_node2 : Interpolation___call__ Rops T (VFloat x2) = VFloat y2.
Proof. unfold obj, flist, map. c12run. reflexivity. Qed.
Lemma call_node3 : Interpolation___call__ Rops T (VFloat x3) = VFloat y3.
Proof. unfold obj, flist, map. c12run. reflexivity. Qed.

(* elsewhere inside the table: Horner evaluation of the Newton form *)
Lemma call_inside x : x1 <= x <= x3 -> tol0 <= Rabs (x - x1) -> tol0 <= Rabs (x - x2) -> tol0 <= Rabs (x - x3) ->
  Interpolation___call__ Rops T (VFloat x) = VFloat (t0 + (x - x1) * (t1 + (x - x2) * t2)).
Proof. intros Hx A1 A2 A3. unfold obj, flist, map. c12run. reflexivity. Qed.

(* outside the table (by at least the tolerance): ValueError *)
Lemma call_below x : x <= x1 - tol0 -> Interpolation___call__ Rops T (VFloat x) = VErr ValueError.
Proof. intros Hx. unfold obj, flist, map. c12run. reflexivity. Qed.
Lemma call_above x : x3 + tol0 <= x -> Interpolation___call__ Rops T (VFloat x) = VErr ValueError.
Proof. intros Hx. unfold obj, flist, map. c12run. reflexivity. Qed.

Lemma deriv_inside x : x1 <= x <= x3 ->
  Interpolation_derivative Rops T (VFloat x) = VFloat (t1 + ((x - x2) + (x - x1)) * t2).
Proof.
  intros Hx. unfold obj, flist, map. c12run.
  match goal with |- VFloat ?a = VFloat ?b => assert (a = b) as -> by (Rlit_norm; lra) end. reflexivity.
Qed.
Lemma deriv_below x : x < x1 -> Interpolation_derivative Rops T (VFloat x) = VErr ValueError.
Proof. intros Hx. unfold obj, flist, map. c12run. reflexivity. Qed.
Lemma deriv_above x : x3 < x -> Interpolation_derivative Rops T (VFloat x) = VErr ValueError.
Proof. intros Hx. unfold obj, flist, map. c12run. reflexivity. Qed.
(* within the tolerance of a node (not only exactly at it) the node's ordinate is returned: the first
   node in table order that is closer than tol wins *)
Lemma call_near1 x : Rabs (x - x1) < tol0 -> Interpolation___call__ Rops T (VFloat x) = VFloat y1.
Proof. intros A1. unfold obj, flist, map. c12run. reflexivity. Qed.
Lemma call_near2 x : tol0 <= Rabs (x - x1) -> Rabs (x - x2) < tol0 -> Interpolation___call__ Rops T (VFloat x) = VFloat y2.
Proof. intros A1 A2. unfold obj, flist, map. c12run. reflexivity. Qed.
Lemma call_near3 x : tol0 <= Rabs (x - x1) -> tol0 <= Rabs (x - x2) -> Rabs (x - x3) < tol0 ->
  Interpolation___call__ Rops T (VFloat x) = VFloat y3.
Proof. intros A1 A2 A3. unfold obj, flist, map. c12run. reflexivity. Qed.

(* hence __call__ and derivative are TOTAL on floats for this table: a float or ValueError, nothing else *)
Definition I3 (x : R) : R :=
  if Rlt_dec (Rabs (x - x1)) tol0 then y1 else
  if Rlt_dec (Rabs (x - x2)) tol0 then y2 else
  if Rlt_dec (Rabs (x - x3)) tol0 then y3 else t0 + (x - x1) * (t1 + (x - x2) * t2).
Definition D3 (x : R) : R := t1 + ((x - x2) + (x - x1)) * t2.

Lemma call_total x : Interpolation___call__ Rops T (VFloat x) = VFloat (I3 x)
                  \/ Interpolation___call__ Rops T (VFloat x) = VErr ValueError.
Proof.
  unfold I3.
  destruct (Rlt_dec (Rabs (x - x1)) tol0) as [A1 | A1]; [left; apply call_near1; exact A1 |].
  destruct (Rlt_dec (Rabs (x - x2)) tol0) as [A2 | A2]; [left; apply call_near2; lra |].
  destruct (Rlt_dec (Rabs (x - x3)) tol0) as [A3 | A3]; [left; apply call_near3; lra |].
  assert (B1 : tol0 <= Rabs (x - x1)) by lra. assert (B2 : tol0 <= Rabs (x - x2)) by lra.
  assert (B3 : tol0 <= Rabs (x - x3)) by lra.
  destruct (Rlt_dec x x1) as [L | L].
  { right. apply call_below. unfold Rabs in B1. destruct (Rcase_abs (x - x1)); lra. }
  destruct (Rlt_dec x3 x) as [U | U].
  { right. apply call_above. unfold Rabs in B3. destruct (Rcase_abs (x - x3)); lra. }
  left. apply call_inside; try assumption. lra.
Qed.
Lemma deriv_total x : Interpolation_derivative Rops T (VFloat x) = VFloat (D3 x)
                   \/ Interpolation_derivative Rops T (VFloat x) = VErr ValueError.
Proof.
  destruct (Rlt_dec x x1) as [L | L]; [right; apply deriv_below; exact L |].
  destruct (Rlt_dec x3 x) as [U | U]; [right; apply deriv_above; exact U |].
  left. apply deriv_inside. lra.
Qed.
End Three.

(* with the divided differences as coefficients the Newton form IS the parabola through the points,
   and the value returned by derivative() is its derivative *)
Lemma newton3_is_lagrange x1 x2 x3 y1 y2 y3 x : x1 <> x2 -> x2 <> x3 -> x1 <> x3 ->
  y1 + (x - x1) * (dd2 x1 x2 y1 y2 + (x - x2) * dd3 x1 x2 x3 y1 y2 y3) = lagrange3 x1 x2 x3 y1 y2 y3 x.
Proof. intros. unfold dd3, dd2, lagrange3. field. repeat split; lra. Qed.

Lemma newton3_derivative x1 x2 x3 y1 y2 y3 x : x1 <> x2 -> x2 <> x3 -> x1 <> x3 ->
  is_derive (lagrange3 x1 x2 x3 y1 y2 y3) x
            (dd2 x1 x2 y1 y2 + ((x - x2) + (x - x1)) * dd3 x1 x2 x3 y1 y2 y3).
Proof.
  intros A B C. unfold lagrange3. auto_derive; [exact Logic.I |]. unfold dd3, dd2. field. repeat split; lra.
Qed.
