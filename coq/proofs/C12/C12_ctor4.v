(* C12_ctor4: the generated constructor on symbolic 4-point tables (real-number instance).
   init_* : for ANY 4 abscissae p (pairwise at least tol apart) and ordinates q, in each input form,
   Interpolation(...) is what _order_points and _compute_table make of the raw lists (one symbolic
   evaluation of Interpolation.set per form); order4_* : _order_points sorts every permutation of
   x1 < ... < x4 (ordinates follow); compute4 : _compute_table stores the divided differences. *)
From Coq Require Import Reals ZArith List Bool Lra Lia String.
From PyLib Require Import PyVal PyBuiltins Ideal Whnf PyEval.
From Gen Require Import M_base M_Angle M_Interpolation.
From Proofs.C12 Require Import C12_tac C12_nd C12_init4a C12_init4b C12_init4c.
Import ListNotations.
Open Scope R_scope.
Section Sorted4.
Variables x1 x2 x3 x4 y1 y2 y3 y4 : R.
Hypothesis H12 : x1 + tol0 <= x2.
Hypothesis H23 : x2 + tol0 <= x3.
Hypothesis H34 : x3 + tol0 <= x4.
Definition tab4 : list R := [y1; dd2 x1 x2 y1 y2; dd3 x1 x2 x3 y1 y2 y3; dd4 x1 x2 x3 x4 y1 y2 y3 y4].
Lemma compute4 : Interpolation__compute_table Rops (obj [x1; x2; x3; x4] [y1; y2; y3; y4] []) = VTuple [obj [x1; x2; x3; x4] [y1; y2; y3; y4] tab4; VNone].
Proof.
  assert (E0 : Interpolation__newton_diff Rops (obj [x1; x2; x3; x4] [y1; y2; y3; y4] []) (VInt 0) (VInt 0) = VFloat (y1))
    by (apply top4_0; try assumption; simpl; lia).
  assert (E1 : Interpolation__newton_diff Rops (obj [x1; x2; x3; x4] [y1; y2; y3; y4] [y1]) (VInt 0) (VInt 1) = VFloat (dd2 x1 x2 y1 y2))
    by (apply top4_1; try assumption; simpl; lia).
  assert (E2 : Interpolation__newton_diff Rops (obj [x1; x2; x3; x4] [y1; y2; y3; y4] [y1; dd2 x1 x2 y1 y2]) (VInt 0) (VInt 2) = VFloat (dd3 x1 x2 x3 y1 y2 y3))
    by (apply top4_2; try assumption; simpl; lia).
  assert (E3 : Interpolation__newton_diff Rops (obj [x1; x2; x3; x4] [y1; y2; y3; y4] [y1; dd2 x1 x2 y1 y2; dd3 x1 x2 x3 y1 y2 y3]) (VInt 0) (VInt 3) = VFloat (dd4 x1 x2 x3 x4 y1 y2 y3 y4))
    by (apply top4_3; try assumption; simpl; lia).
  unfold Interpolation__compute_table, tab4, obj, flist in *. cbn [map] in *. crun. reflexivity.
Qed.
Lemma order4_1234 : Interpolation__order_points Rops (obj [x1; x2; x3; x4] [y1; y2; y3; y4] []) = VTuple [obj [x1; x2; x3; x4] [y1; y2; y3; y4] []; VNone].
Proof. unfold Interpolation__order_points, obj, flist. cbn [map]. crun. reflexivity. Qed.
Lemma order4_1243 : Interpolation__order_points Rops (obj [x1; x2; x4; x3] [y1; y2; y4; y3] []) = VTuple [obj [x1; x2; x3; x4] [y1; y2; y3; y4] []; VNone].
Proof. unfold Interpolation__order_points, obj, flist. cbn [map]. crun. reflexivity. Qed.
Lemma order4_1324 : Interpolation__order_points Rops (obj [x1; x3; x2; x4] [y1; y3; y2; y4] []) = VTuple [obj [x1; x2; x3; x4] [y1; y2; y3; y4] []; VNone].
Proof. unfold Interpolation__order_points, obj, flist. cbn [map]. crun. reflexivity. Qed.
Lemma order4_1342 : Interpolation__order_points Rops (obj [x1; x3; x4; x2] [y1; y3; y4; y2] []) = VTuple [obj [x1; x2; x3; x4] [y1; y2; y3; y4] []; VNone].
Proof. unfold Interpolation__order_points, obj, flist. cbn [map]. crun. reflexivity. Qed.
Lemma order4_1423 : Interpolation__order_points Rops (obj [x1; x4; x2; x3] [y1; y4; y2; y3] []) = VTuple [obj [x1; x2; x3; x4] [y1; y2; y3; y4] []; VNone].
Proof. unfold Interpolation__order_points, obj, flist. cbn [map]. crun. reflexivity. Qed.
Lemma order4_1432 : Interpolation__order_points Rops (obj [x1; x4; x3; x2] [y1; y4; y3; y2] []) = VTuple [obj [x1; x2; x3; x4] [y1; y2; y3; y4] []; VNone].
Proof. unfold Interpolation__order_points, obj, flist. cbn [map]. crun. reflexivity. Qed.
Lemma order4_2134 : Interpolation__order_points Rops (obj [x2; x1; x3; x4] [y2; y1; y3; y4] []) = VTuple [obj [x1; x2; x3; x4] [y1; y2; y3; y4] []; VNone].
Proof. unfold Interpolation__order_points, obj, flist. cbn [map]. crun. reflexivity. Qed.
Lemma order4_2143 : Interpolation__order_points Rops (obj [x2; x1; x4; x3] [y2; y1; y4; y3] []) = VTuple [obj [x1; x2; x3; x4] [y1; y2; y3; y4] []; VNone].
Proof. unfold Interpolation__order_points, obj, flist. cbn [map]. crun. reflexivity. Qed.
Lemma order4_2314 : Interpolation__order_points Rops (obj [x2; x3; x1; x4] [y2; y3; y1; y4] []) = VTuple [obj [x1; x2; x3; x4] [y1; y2; y3; y4] []; VNone].
Proof. unfold Interpolation__order_points, obj, flist. cbn [map]. crun. reflexivity. Qed.
Lemma order4_2341 : Interpolation__order_points Rops (obj [x2; x3; x4; x1] [y2; y3; y4; y1] []) = VTuple [obj [x1; x2; x3; x4] [y1; y2; y3; y4] []; VNone].
Proof. unfold Interpolation__order_points, obj, flist. cbn [map]. crun. reflexivity. Qed.
Lemma order4_2413 : Interpolation__order_points Rops (obj [x2; x4; x1; x3] [y2; y4; y1; y3] []) = VTuple [obj [x1; x2; x3; x4] [y1; y2; y3; y4] []; VNone].
Proof. unfold Interpolation__order_points, obj, flist. cbn [map]. crun. reflexivity. Qed.
Lemma order4_2431 : Interpolation__order_points Rops (obj [x2; x4; x3; x1] [y2; y4; y3; y1] []) = VTuple [obj [x1; x2; x3; x4] [y1; y2; y3; y4] []; VNone].
Proof. unfold Interpolation__order_points, obj, flist. cbn [map]. crun. reflexivity. Qed.
Lemma order4_3124 : Interpolation__order_points Rops (obj [x3; x1; x2; x4] [y3; y1; y2; y4] []) = VTuple [obj [x1; x2; x3; x4] [y1; y2; y3; y4] []; VNone].
Proof. unfold Interpolation__order_points, obj, flist. cbn [map]. crun. reflexivity. Qed.
Lemma order4_3142 : Interpolation__order_points Rops (obj [x3; x1; x4; x2] [y3; y1; y4; y2] []) = VTuple [obj [x1; x2; x3; x4] [y1; y2; y3; y4] []; VNone].
Proof. unfold Interpolation__order_points, obj, flist. cbn [map]. crun. reflexivity. Qed.
Lemma order4_3214 : Interpolation__order_points Rops (obj [x3; x2; x1; x4] [y3; y2; y1; y4] []) = VTuple [obj [x1; x2; x3; x4] [y1; y2; y3; y4] []; VNone].
Proof. unfold Interpolation__order_points, obj, flist. cbn [map]. crun. reflexivity. Qed.
Lemma order4_3241 : Interpolation__order_points Rops (obj [x3; x2; x4; x1] [y3; y2; y4; y1] []) = VTuple [obj [x1; x2; x3; x4] [y1; y2; y3; y4] []; VNone].
Proof. unfold Interpolation__order_points, obj, flist. cbn [map]. crun. reflexivity. Qed.
Lemma order4_3412 : Interpolation__order_points Rops (obj [x3; x4; x1; x2] [y3; y4; y1; y2] []) = VTuple [obj [x1; x2; x3; x4] [y1; y2; y3; y4] []; VNone].
Proof. unfold Interpolation__order_points, obj, flist. cbn [map]. crun. reflexivity. Qed.
Lemma order4_3421 : Interpolation__order_points Rops (obj [x3; x4; x2; x1] [y3; y4; y2; y1] []) = VTuple [obj [x1; x2; x3; x4] [y1; y2; y3; y4] []; VNone].
Proof. unfold Interpolation__order_points, obj, flist. cbn [map]. crun. reflexivity. Qed.
Lemma order4_4123 : Interpolation__order_points Rops (obj [x4; x1; x2; x3] [y4; y1; y2; y3] []) = VTuple [obj [x1; x2; x3; x4] [y1; y2; y3; y4] []; VNone].
Proof. unfold Interpolation__order_points, obj, flist. cbn [map]. crun. reflexivity. Qed.
Lemma order4_4132 : Interpolation__order_points Rops (obj [x4; x1; x3; x2] [y4; y1; y3; y2] []) = VTuple [obj [x1; x2; x3; x4] [y1; y2; y3; y4] []; VNone].
Proof. unfold Interpolation__order_points, obj, flist. cbn [map]. crun. reflexivity. Qed.
Lemma order4_4213 : Interpolation__order_points Rops (obj [x4; x2; x1; x3] [y4; y2; y1; y3] []) = VTuple [obj [x1; x2; x3; x4] [y1; y2; y3; y4] []; VNone].
Proof. unfold Interpolation__order_points, obj, flist. cbn [map]. crun. reflexivity. Qed.
Lemma order4_4231 : Interpolation__order_points Rops (obj [x4; x2; x3; x1] [y4; y2; y3; y1] []) = VTuple [obj [x1; x2; x3; x4] [y1; y2; y3; y4] []; VNone].
Proof. unfold Interpolation__order_points, obj, flist. cbn [map]. crun. reflexivity. Qed.
Lemma order4_4312 : Interpolation__order_points Rops (obj [x4; x3; x1; x2] [y4; y3; y1; y2] []) = VTuple [obj [x1; x2; x3; x4] [y1; y2; y3; y4] []; VNone].
Proof. unfold Interpolation__order_points, obj, flist. cbn [map]. crun. reflexivity. Qed.
Lemma order4_4321 : Interpolation__order_points Rops (obj [x4; x3; x2; x1] [y4; y3; y2; y1] []) = VTuple [obj [x1; x2; x3; x4] [y1; y2; y3; y4] []; VNone].
Proof. unfold Interpolation__order_points, obj, flist. cbn [map]. crun. reflexivity. Qed.
Ltac dist := unfold tol0 in *; Rlit_norm_all; unfold Rabs; destruct (Rcase_abs _); lra.
Lemma ctor4_1234 :
  Interpolation___init__ Rops blank (VTuple [flist [x1; x2; x3; x4]; flist [y1; y2; y3; y4]]) = obj [x1; x2; x3; x4] [y1; y2; y3; y4] tab4 /\
  Interpolation___init__ Rops blank (VTuple [VTuple (map VFloat [x1; x2; x3; x4]); VTuple (map VFloat [y1; y2; y3; y4])]) = obj [x1; x2; x3; x4] [y1; y2; y3; y4] tab4 /\
  Interpolation___init__ Rops blank (VTuple [VFloat x1; VFloat y1; VFloat x2; VFloat y2; VFloat x3; VFloat y3; VFloat x4; VFloat y4]) = obj [x1; x2; x3; x4] [y1; y2; y3; y4] tab4.
Proof.
  repeat split; [apply init4_lists | apply init4_tuples | apply init4_scalars]; try apply order4_1234; try apply compute4; try assumption; dist.
Qed.
Lemma ctor4_1243 :
  Interpolation___init__ Rops blank (VTuple [flist [x1; x2; x4; x3]; flist [y1; y2; y4; y3]]) = obj [x1; x2; x3; x4] [y1; y2; y3; y4] tab4 /\
  Interpolation___init__ Rops blank (VTuple [VTuple (map VFloat [x1; x2; x4; x3]); VTuple (map VFloat [y1; y2; y4; y3])]) = obj [x1; x2; x3; x4] [y1; y2; y3; y4] tab4 /\
  Interpolation___init__ Rops blank (VTuple [VFloat x1; VFloat y1; VFloat x2; VFloat y2; VFloat x4; VFloat y4; VFloat x3; VFloat y3]) = obj [x1; x2; x3; x4] [y1; y2; y3; y4] tab4.
Proof.
  repeat split; [apply init4_lists | apply init4_tuples | apply init4_scalars]; try apply order4_1243; try apply compute4; try assumption; dist.
Qed.
Lemma ctor4_1324 :
  Interpolation___init__ Rops blank (VTuple [flist [x1; x3; x2; x4]; flist [y1; y3; y2; y4]]) = obj [x1; x2; x3; x4] [y1; y2; y3; y4] tab4 /\
  Interpolation___init__ Rops blank (VTuple [VTuple (map VFloat [x1; x3; x2; x4]); VTuple (map VFloat [y1; y3; y2; y4])]) = obj [x1; x2; x3; x4] [y1; y2; y3; y4] tab4 /\
  Interpolation___init__ Rops blank (VTuple [VFloat x1; VFloat y1; VFloat x3; VFloat y3; VFloat x2; VFloat y2; VFloat x4; VFloat y4]) = obj [x1; x2; x3; x4] [y1; y2; y3; y4] tab4.
Proof.
  repeat split; [apply init4_lists | apply init4_tuples | apply init4_scalars]; try apply order4_1324; try apply compute4; try assumption; dist.
Qed.
Lemma ctor4_1342 :
  Interpolation___init__ Rops blank (VTuple [flist [x1; x3; x4; x2]; flist [y1; y3; y4; y2]]) = obj [x1; x2; x3; x4] [y1; y2; y3; y4] tab4 /\
  Interpolation___init__ Rops blank (VTuple [VTuple (map VFloat [x1; x3; x4; x2]); VTuple (map VFloat [y1; y3; y4; y2])]) = obj [x1; x2; x3; x4] [y1; y2; y3; y4] tab4 /\
  Interpolation___init__ Rops blank (VTuple [VFloat x1; VFloat y1; VFloat x3; VFloat y3; VFloat x4; VFloat y4; VFloat x2; VFloat y2]) = obj [x1; x2; x3; x4] [y1; y2; y3; y4] tab4.
Proof.
  repeat split; [apply init4_lists | apply init4_tuples | apply init4_scalars]; try apply order4_1342; try apply compute4; try assumption; dist.
Qed.
Lemma ctor4_1423 :
  Interpolation___init__ Rops blank (VTuple [flist [x1; x4; x2; x3]; flist [y1; y4; y2; y3]]) = obj [x1; x2; x3; x4] [y1; y2; y3; y4] tab4 /\
  Interpolation___init__ Rops blank (VTuple [VTuple (map VFloat [x1; x4; x2; x3]); VTuple (map VFloat [y1; y4; y2; y3])]) = obj [x1; x2; x3; x4] [y1; y2; y3; y4] tab4 /\
  Interpolation___init__ Rops blank (VTuple [VFloat x1; VFloat y1; VFloat x4; VFloat y4; VFloat x2; VFloat y2; VFloat x3; VFloat y3]) = obj [x1; x2; x3; x4] [y1; y2; y3; y4] tab4.
Proof.
  repeat split; [apply init4_lists | apply init4_tuples | apply init4_scalars]; try apply order4_1423; try apply compute4; try assumption; dist.
Qed.
Lemma ctor4_1432 :
  Interpolation___init__ Rops blank (VTuple [flist [x1; x4; x3; x2]; flist [y1; y4; y3; y2]]) = obj [x1; x2; x3; x4] [y1; y2; y3; y4] tab4 /\
  Interpolation___init__ Rops blank (VTuple [VTuple (map VFloat [x1; x4; x3; x2]); VTuple (map VFloat [y1; y4; y3; y2])]) = obj [x1; x2; x3; x4] [y1; y2; y3; y4] tab4 /\
  Interpolation___init__ Rops blank (VTuple [VFloat x1; VFloat y1; VFloat x4; VFloat y4; VFloat x3; VFloat y3; VFloat x2; VFloat y2]) = obj [x1; x2; x3; x4] [y1; y2; y3; y4] tab4.
Proof.
  repeat split; [apply init4_lists | apply init4_tuples | apply init4_scalars]; try apply order4_1432; try apply compute4; try assumption; dist.
Qed.
Lemma ctor4_2134 :
  Interpolation___init__ Rops blank (VTuple [flist [x2; x1; x3; x4]; flist [y2; y1; y3; y4]]) = obj [x1; x2; x3; x4] [y1; y2; y3; y4] tab4 /\
  Interpolation___init__ Rops blank (VTuple [VTuple (map VFloat [x2; x1; x3; x4]); VTuple (map VFloat [y2; y1; y3; y4])]) = obj [x1; x2; x3; x4] [y1; y2; y3; y4] tab4 /\
  Interpolation___init__ Rops blank (VTuple [VFloat x2; VFloat y2; VFloat x1; VFloat y1; VFloat x3; VFloat y3; VFloat x4; VFloat y4]) = obj [x1; x2; x3; x4] [y1; y2; y3; y4] tab4.
Proof.
  repeat split; [apply init4_lists | apply init4_tuples | apply init4_scalars]; try apply order4_2134; try apply compute4; try assumption; dist.
Qed.
Lemma ctor4_2143 :
  Interpolation___init__ Rops blank (VTuple [flist [x2; x1; x4; x3]; flist [y2; y1; y4; y3]]) = obj [x1; x2; x3; x4] [y1; y2; y3; y4] tab4 /\
  Interpolation___init__ Rops blank (VTuple [VTuple (map VFloat [x2; x1; x4; x3]); VTuple (map VFloat [y2; y1; y4; y3])]) = obj [x1; x2; x3; x4] [y1; y2; y3; y4] tab4 /\
  Interpolation___init__ Rops blank (VTuple [VFloat x2; VFloat y2; VFloat x1; VFloat y1; VFloat x4; VFloat y4; VFloat x3; VFloat y3]) = obj [x1; x2; x3; x4] [y1; y2; y3; y4] tab4.
Proof.
  repeat split; [apply init4_lists | apply init4_tuples | apply init4_scalars]; try apply order4_2143; try apply compute4; try assumption; dist.
Qed.
Lemma ctor4_2314 :
  Interpolation___init__ Rops blank (VTuple [flist [x2; x3; x1; x4]; flist [y2; y3; y1; y4]]) = obj [x1; x2; x3; x4] [y1; y2; y3; y4] tab4 /\
  Interpolation___init__ Rops blank (VTuple [VTuple (map VFloat [x2; x3; x1; x4]); VTuple (map VFloat [y2; y3; y1; y4])]) = obj [x1; x2; x3; x4] [y1; y2; y3; y4] tab4 /\
  Interpolation___init__ Rops blank (VTuple [VFloat x2; VFloat y2; VFloat x3; VFloat y3; VFloat x1; VFloat y1; VFloat x4; VFloat y4]) = obj [x1; x2; x3; x4] [y1; y2; y3; y4] tab4.
Proof.
  repeat split; [apply init4_lists | apply init4_tuples | apply init4_scalars]; try apply order4_2314; try apply compute4; try assumption; dist.
Qed.
Lemma ctor4_2341 :
  Interpolation___init__ Rops blank (VTuple [flist [x2; x3; x4; x1]; flist [y2; y3; y4; y1]]) = obj [x1; x2; x3; x4] [y1; y2; y3; y4] tab4 /\
  Interpolation___init__ Rops blank (VTuple [VTuple (map VFloat [x2; x3; x4; x1]); VTuple (map VFloat [y2; y3; y4; y1])]) = obj [x1; x2; x3; x4] [y1; y2; y3; y4] tab4 /\
  Interpolation___init__ Rops blank (VTuple [VFloat x2; VFloat y2; VFloat x3; VFloat y3; VFloat x4; VFloat y4; VFloat x1; VFloat y1]) = obj [x1; x2; x3; x4] [y1; y2; y3; y4] tab4.
Proof.
  repeat split; [apply init4_lists | apply init4_tuples | apply init4_scalars]; try apply order4_2341; try apply compute4; try assumption; dist.
Qed.
Lemma ctor4_2413 :
  Interpolation___init__ Rops blank (VTuple [flist [x2; x4; x1; x3]; flist [y2; y4; y1; y3]]) = obj [x1; x2; x3; x4] [y1; y2; y3; y4] tab4 /\
  Interpolation___init__ Rops blank (VTuple [VTuple (map VFloat [x2; x4; x1; x3]); VTuple (map VFloat [y2; y4; y1; y3])]) = obj [x1; x2; x3; x4] [y1; y2; y3; y4] tab4 /\
  Interpolation___init__ Rops blank (VTuple [VFloat x2; VFloat y2; VFloat x4; VFloat y4; VFloat x1; VFloat y1; VFloat x3; VFloat y3]) = obj [x1; x2; x3; x4] [y1; y2; y3; y4] tab4.
Proof.
  repeat split; [apply init4_lists | apply init4_tuples | apply init4_scalars]; try apply order4_2413; try apply compute4; try assumption; dist.
Qed.
Lemma ctor4_2431 :
  Interpolation___init__ Rops blank (VTuple [flist [x2; x4; x3; x1]; flist [y2; y4; y3; y1]]) = obj [x1; x2; x3; x4] [y1; y2; y3; y4] tab4 /\
  Interpolation___init__ Rops blank (VTuple [VTuple (map VFloat [x2; x4; x3; x1]); VTuple (map VFloat [y2; y4; y3; y1])]) = obj [x1; x2; x3; x4] [y1; y2; y3; y4] tab4 /\
  Interpolation___init__ Rops blank (VTuple [VFloat x2; VFloat y2; VFloat x4; VFloat y4; VFloat x3; VFloat y3; VFloat x1; VFloat y1]) = obj [x1; x2; x3; x4] [y1; y2; y3; y4] tab4.
Proof.
  repeat split; [apply init4_lists | apply init4_tuples | apply init4_scalars]; try apply order4_2431; try apply compute4; try assumption; dist.
Qed.
Lemma ctor4_3124 :
  Interpolation___init__ Rops blank (VTuple [flist [x3; x1; x2; x4]; flist [y3; y1; y2; y4]]) = obj [x1; x2; x3; x4] [y1; y2; y3; y4] tab4 /\
  Interpolation___init__ Rops blank (VTuple [VTuple (map VFloat [x3; x1; x2; x4]); VTuple (map VFloat [y3; y1; y2; y4])]) = obj [x1; x2; x3; x4] [y1; y2; y3; y4] tab4 /\
  Interpolation___init__ Rops blank (VTuple [VFloat x3; VFloat y3; VFloat x1; VFloat y1; VFloat x2; VFloat y2; VFloat x4; VFloat y4]) = obj [x1; x2; x3; x4] [y1; y2; y3; y4] tab4.
Proof.
  repeat split; [apply init4_lists | apply init4_tuples | apply init4_scalars]; try apply order4_3124; try apply compute4; try assumption; dist.
Qed.
Lemma ctor4_3142 :
  Interpolation___init__ Rops blank (VTuple [flist [x3; x1; x4; x2]; flist [y3; y1; y4; y2]]) = obj [x1; x2; x3; x4] [y1; y2; y3; y4] tab4 /\
  Interpolation___init__ Rops blank (VTuple [VTuple (map VFloat [x3; x1; x4; x2]); VTuple (map VFloat [y3; y1; y4; y2])]) = obj [x1; x2; x3; x4] [y1; y2; y3; y4] tab4 /\
  Interpolation___init__ Rops blank (VTuple [VFloat x3; VFloat y3; VFloat x1; VFloat y1; VFloat x4; VFloat y4; VFloat x2; VFloat y2]) = obj [x1; x2; x3; x4] [y1; y2; y3; y4] tab4.
Proof.
  repeat split; [apply init4_lists | apply init4_tuples | apply init4_scalars]; try apply order4_3142; try apply compute4; try assumption; dist.
Qed.
Lemma ctor4_3214 :
  Interpolation___init__ Rops blank (VTuple [flist [x3; x2; x1; x4]; flist [y3; y2; y1; y4]]) = obj [x1; x2; x3; x4] [y1; y2; y3; y4] tab4 /\
  Interpolation___init__ Rops blank (VTuple [VTuple (map VFloat [x3; x2; x1; x4]); VTuple (map VFloat [y3; y2; y1; y4])]) = obj [x1; x2; x3; x4] [y1; y2; y3; y4] tab4 /\
  Interpolation___init__ Rops blank (VTuple [VFloat x3; VFloat y3; VFloat x2; VFloat y2; VFloat x1; VFloat y1; VFloat x4; VFloat y4]) = obj [x1; x2; x3; x4] [y1; y2; y3; y4] tab4.
Proof.
  repeat split; [apply init4_lists | apply init4_tuples | apply init4_scalars]; try apply order4_3214; try apply compute4; try assumption; dist.
Qed.
Lemma ctor4_3241 :
  Interpolation___init__ Rops blank (VTuple [flist [x3; x2; x4; x1]; flist [y3; y2; y4; y1]]) = obj [x1; x2; x3; x4] [y1; y2; y3; y4] tab4 /\
  Interpolation___init__ Rops blank (VTuple [VTuple (map VFloat [x3; x2; x4; x1]); VTuple (map VFloat [y3; y2; y4; y1])]) = obj [x1; x2; x3; x4] [y1; y2; y3; y4] tab4 /\
  Interpolation___init__ Rops blank (VTuple [VFloat x3; VFloat y3; VFloat x2; VFloat y2; VFloat x4; VFloat y4; VFloat x1; VFloat y1]) = obj [x1; x2; x3; x4] [y1; y2; y3; y4] tab4.
Proof.
  repeat split; [apply init4_lists | apply init4_tuples | apply init4_scalars]; try apply order4_3241; try apply compute4; try assumption; dist.
Qed.
Lemma ctor4_3412 :
  Interpolation___init__ Rops blank (VTuple [flist [x3; x4; x1; x2]; flist [y3; y4; y1; y2]]) = obj [x1; x2; x3; x4] [y1; y2; y3; y4] tab4 /\
  Interpolation___init__ Rops blank (VTuple [VTuple (map VFloat [x3; x4; x1; x2]); VTuple (map VFloat [y3; y4; y1; y2])]) = obj [x1; x2; x3; x4] [y1; y2; y3; y4] tab4 /\
  Interpolation___init__ Rops blank (VTuple [VFloat x3; VFloat y3; VFloat x4; VFloat y4; VFloat x1; VFloat y1; VFloat x2; VFloat y2]) = obj [x1; x2; x3; x4] [y1; y2; y3; y4] tab4.
Proof.
  repeat split; [apply init4_lists | apply init4_tuples | apply init4_scalars]; try apply order4_3412; try apply compute4; try assumption; dist.
Qed.
Lemma ctor4_3421 :
  Interpolation___init__ Rops blank (VTuple [flist [x3; x4; x2; x1]; flist [y3; y4; y2; y1]]) = obj [x1; x2; x3; x4] [y1; y2; y3; y4] tab4 /\
  Interpolation___init__ Rops blank (VTuple [VTuple (map VFloat [x3; x4; x2; x1]); VTuple (map VFloat [y3; y4; y2; y1])]) = obj [x1; x2; x3; x4] [y1; y2; y3; y4] tab4 /\
  Interpolation___init__ Rops blank (VTuple [VFloat x3; VFloat y3; VFloat x4; VFloat y4; VFloat x2; VFloat y2; VFloat x1; VFloat y1]) = obj [x1; x2; x3; x4] [y1; y2; y3; y4] tab4.
Proof.
  repeat split; [apply init4_lists | apply init4_tuples | apply init4_scalars]; try apply order4_3421; try apply compute4; try assumption; dist.
Qed.
Lemma ctor4_4123 :
  Interpolation___init__ Rops blank (VTuple [flist [x4; x1; x2; x3]; flist [y4; y1; y2; y3]]) = obj [x1; x2; x3; x4] [y1; y2; y3; y4] tab4 /\
  Interpolation___init__ Rops blank (VTuple [VTuple (map VFloat [x4; x1; x2; x3]); VTuple (map VFloat [y4; y1; y2; y3])]) = obj [x1; x2; x3; x4] [y1; y2; y3; y4] tab4 /\
  Interpolation___init__ Rops blank (VTuple [VFloat x4; VFloat y4; VFloat x1; VFloat y1; VFloat x2; VFloat y2; VFloat x3; VFloat y3]) = obj [x1; x2; x3; x4] [y1; y2; y3; y4] tab4.
Proof.
  repeat split; [apply init4_lists | apply init4_tuples | apply init4_scalars]; try apply order4_4123; try apply compute4; try assumption; dist.
Qed.
Lemma ctor4_4132 :
  Interpolation___init__ Rops blank (VTuple [flist [x4; x1; x3; x2]; flist [y4; y1; y3; y2]]) = obj [x1; x2; x3; x4] [y1; y2; y3; y4] tab4 /\
  Interpolation___init__ Rops blank (VTuple [VTuple (map VFloat [x4; x1; x3; x2]); VTuple (map VFloat [y4; y1; y3; y2])]) = obj [x1; x2; x3; x4] [y1; y2; y3; y4] tab4 /\
  Interpolation___init__ Rops blank (VTuple [VFloat x4; VFloat y4; VFloat x1; VFloat y1; VFloat x3; VFloat y3; VFloat x2; VFloat y2]) = obj [x1; x2; x3; x4] [y1; y2; y3; y4] tab4.
Proof.
  repeat split; [apply init4_lists | apply init4_tuples | apply init4_scalars]; try apply order4_4132; try apply compute4; try assumption; dist.
Qed.
Lemma ctor4_4213 :
  Interpolation___init__ Rops blank (VTuple [flist [x4; x2; x1; x3]; flist [y4; y2; y1; y3]]) = obj [x1; x2; x3; x4] [y1; y2; y3; y4] tab4 /\
  Interpolation___init__ Rops blank (VTuple [VTuple (map VFloat [x4; x2; x1; x3]); VTuple (map VFloat [y4; y2; y1; y3])]) = obj [x1; x2; x3; x4] [y1; y2; y3; y4] tab4 /\
  Interpolation___init__ Rops blank (VTuple [VFloat x4; VFloat y4; VFloat x2; VFloat y2; VFloat x1; VFloat y1; VFloat x3; VFloat y3]) = obj [x1; x2; x3; x4] [y1; y2; y3; y4] tab4.
Proof.
  repeat split; [apply init4_lists | apply init4_tuples | apply init4_scalars]; try apply order4_4213; try apply compute4; try assumption; dist.
Qed.
Lemma ctor4_4231 :
  Interpolation___init__ Rops blank (VTuple [flist [x4; x2; x3; x1]; flist [y4; y2; y3; y1]]) = obj [x1; x2; x3; x4] [y1; y2; y3; y4] tab4 /\
  Interpolation___init__ Rops blank (VTuple [VTuple (map VFloat [x4; x2; x3; x1]); VTuple (map VFloat [y4; y2; y3; y1])]) = obj [x1; x2; x3; x4] [y1; y2; y3; y4] tab4 /\
  Interpolation___init__ Rops blank (VTuple [VFloat x4; VFloat y4; VFloat x2; VFloat y2; VFloat x3; VFloat y3; VFloat x1; VFloat y1]) = obj [x1; x2; x3; x4] [y1; y2; y3; y4] tab4.
Proof.
  repeat split; [apply init4_lists | apply init4_tuples | apply init4_scalars]; try apply order4_4231; try apply compute4; try assumption; dist.
Qed.
Lemma ctor4_4312 :
  Interpolation___init__ Rops blank (VTuple [flist [x4; x3; x1; x2]; flist [y4; y3; y1; y2]]) = obj [x1; x2; x3; x4] [y1; y2; y3; y4] tab4 /\
  Interpolation___init__ Rops blank (VTuple [VTuple (map VFloat [x4; x3; x1; x2]); VTuple (map VFloat [y4; y3; y1; y2])]) = obj [x1; x2; x3; x4] [y1; y2; y3; y4] tab4 /\
  Interpolation___init__ Rops blank (VTuple [VFloat x4; VFloat y4; VFloat x3; VFloat y3; VFloat x1; VFloat y1; VFloat x2; VFloat y2]) = obj [x1; x2; x3; x4] [y1; y2; y3; y4] tab4.
Proof.
  repeat split; [apply init4_lists | apply init4_tuples | apply init4_scalars]; try apply order4_4312; try apply compute4; try assumption; dist.
Qed.
Lemma ctor4_4321 :
  Interpolation___init__ Rops blank (VTuple [flist [x4; x3; x2; x1]; flist [y4; y3; y2; y1]]) = obj [x1; x2; x3; x4] [y1; y2; y3; y4] tab4 /\
  Interpolation___init__ Rops blank (VTuple [VTuple (map VFloat [x4; x3; x2; x1]); VTuple (map VFloat [y4; y3; y2; y1])]) = obj [x1; x2; x3; x4] [y1; y2; y3; y4] tab4 /\
  Interpolation___init__ Rops blank (VTuple [VFloat x4; VFloat y4; VFloat x3; VFloat y3; VFloat x2; VFloat y2; VFloat x1; VFloat y1]) = obj [x1; x2; x3; x4] [y1; y2; y3; y4] tab4.
Proof.
  repeat split; [apply init4_lists | apply init4_tuples | apply init4_scalars]; try apply order4_4321; try apply compute4; try assumption; dist.
Qed.
Lemma ctor4_copy : Interpolation___init__ Rops blank (VTuple [obj [x1; x2; x3; x4] [y1; y2; y3; y4] tab4]) = obj [x1; x2; x3; x4] [y1; y2; y3; y4] tab4.
Proof. apply init4_copy. Qed.
End Sorted4.
