(* C12_tac: call-by-value symbolic evaluator (the pyrun2 of C13_tac.v, copied because proof
   directories are compiled separately) plus the C12 decision tactic and blocked constants. *)
From Coq Require Import Reals ZArith List Bool Lra Lia String.
From PyLib Require Import PyVal PyBuiltins Ideal Whnf PyEval.
From Gen Require Import M_base M_Angle M_Interpolation.
Import ListNotations.
Open Scope R_scope.

(* closed integer arithmetic inside VInt is computed (so that rewriting with lemmas matches) *)
Ltac zint :=
  repeat match goal with
  | |- context [@VInt R ?z] =>
      lazymatch z with
      | Z0 => fail | Zpos _ => fail | Zneg _ => fail
      | context [Rtrunc _] => fail | context [Rfloor _] => fail | context [Rround _] => fail
      | _ => let z' := eval cbv in z in progress change (@VInt R z) with (@VInt R z')
      end
  end.

(* int(len(args) / 2.0) for an even number of arguments *)
Lemma Rtrunc_half k : (0 <= k)%Z -> Rtrunc (IZR (2 * k) / Rlit 20 (-1)) = k.
Proof.
  intro Hk. replace (IZR (2 * k) / Rlit 20 (-1)) with (IZR k) by (rewrite mult_IZR; Rlit_norm; field).
  unfold Rtrunc. destruct (Rlt_dec (IZR k) 0) as [H | H]; [apply (IZR_le 0 k) in Hk; lra | apply Rfloor_IZR].
Qed.
Ltac rtrunc_fix :=
  lazymatch goal with |- context [Rtrunc _] => idtac end;
  expose_R;
  match goal with
  | |- context [Rtrunc (IZR ?z / Rlit 20 (-1))] =>
      let z' := eval cbv in z in
      let k := eval cbv in (Z.div z' 2) in
      change (Rtrunc (IZR z / Rlit 20 (-1))) with (Rtrunc (IZR (2 * k) / Rlit 20 (-1)));
      rewrite (Rtrunc_half k) by (cbv; discriminate)
  end.

Ltac has_noncanon_arg t :=
  lazymatch t with
  | ?g ?a =>
      first [ lazymatch type of a with
              | val R => tryif is_canon a then fail else idtac
              | _ => fail
              end
            | has_noncanon_arg g ]
  | _ => fail
  end.

Ltac pyrun2_using tac :=
  try (progress rtrunc_fix);
  lazymatch goal with
  | |- ?l = _ =>
      lazymatch l with
      | bind _ _ => idtac
      | _ => cbv_args l tac
      end
  end;
  try (progress rtrunc_fix);
  whnf_lhs;
  lazymatch goal with
  | |- ?l = _ =>
    tryif is_canon l then expose_R else
    first [
      lazymatch l with
      | bind ?e ?k =>
          tryif is_canon e then
            lazymatch e with
            | VErr _ => refine (eq_trans (bind_err _ k) _)
            | _ => refine (eq_trans (bind_ok e k eq_refl) _); cbv beta
            end
          else
            let H := fresh "Hev" in
            eassert (H : e = _) by (pyrun2_using tac; py_canon_refl);
            refine (eq_trans (f_equal (fun z => bind z k) H) _); clear H
      | VTuple ?xs => first_noncanon xs ltac:(fun x =>
            let H := fresh "Hev" in
            eassert (H : x = _) by (pyrun2_using tac; py_canon_refl); rewrite H; clear H)
      | VList ?xs => first_noncanon xs ltac:(fun x =>
            let H := fresh "Hev" in
            eassert (H : x = _) by (pyrun2_using tac; py_canon_refl); rewrite H; clear H)
      | VObj _ ?xs => first_noncanon xs ltac:(fun x =>
            let H := fresh "Hev" in
            eassert (H : x = _) by (pyrun2_using tac; py_canon_refl); rewrite H; clear H)
      | _ =>
          pose_stuck;
          lazymatch goal with
          | py_stuck := ?s |- _ =>
              clear py_stuck; py_trace s;
              lazymatch s with
              | bind ?e ?k =>
                  let H := fresh "Hev" in
                  eassert (H : bind e k = _) by (pyrun2_using tac; py_canon_refl);
                  rewrite H; clear H
              | Rltb _ _ => py_decide_at s tac
              | Rleb _ _ => py_decide_at s tac
              | Reqb _ _ => py_decide_at s tac
              | _ =>
                  first [ progress rtrunc_fix
                        | progress zint
                        | match goal with H : s = _ |- _ => rewrite H end
                        | match goal with H : forall _, _ = _ |- _ => rewrite H end
                        | (* reached lazily (inside a tuple display): evaluate its arguments first *)
                          has_noncanon_arg s;
                          let H := fresh "Hev" in
                          eassert (H : s = _) by (pyrun2_using tac; py_canon_refl);
                          rewrite H; clear H
                        | idtac "pyrun2: stuck on" s; fail 1 ]
              end
          end
      end;
      pyrun2_using tac
    | idtac ]
  end
with cbv_args t tac :=
  (* goal [t = r]; evaluates the val-typed arguments of the application t, left to right *)
  cbv_fun t tac ltac:(fun p => refine (eq_trans p _))
with cbv_fun g tac k :=
  (* calls k with a proof of [g = g'] where g' is g with its val arguments evaluated *)
  lazymatch g with
  | ?g1 ?a =>
      lazymatch type of a with
      | val R =>
          cbv_fun g1 tac ltac:(fun p1 =>
            tryif is_canon a then k constr:(f_equal (fun f => f a) p1) else
              (let H := fresh "Hev" in
               eassert (H : a = _) by (pyrun2_using tac; py_canon_refl);
               k constr:(f_equal2 (fun f x => f x) p1 H); clear H))
      | nat => cbv_fun g1 tac ltac:(fun p1 => k constr:(f_equal (fun f => f a) p1))
      | libm_fn => cbv_fun g1 tac ltac:(fun p1 => k constr:(f_equal (fun f => f a) p1))
      | _ => k constr:(eq_refl g)
      end
  | _ => k constr:(eq_refl g)
  end.


Definition tol0 : R := Rlit 1 (-10).
Definition flist (l : list R) : val R := VList (map VFloat l).
Definition obj (xs ys tbl : list R) : val R := VObj cInterpolation [flist xs; flist ys; flist tbl; VFloat tol0].
Definition blank : val R := VObj cInterpolation [VNone; VNone; VNone; VNone].

(* divided differences, written out *)
Definition dd2 (xa xb ya yb : R) : R := (ya - yb) / (xa - xb).
Definition dd3 (x1 x2 x3 y1 y2 y3 : R) : R := (dd2 x1 x2 y1 y2 - dd2 x2 x3 y2 y3) / (x1 - x3).
Definition dd4 (x1 x2 x3 x4 y1 y2 y3 y4 : R) : R := (dd3 x1 x2 x3 y1 y2 y3 - dd3 x2 x3 x4 y2 y3 y4) / (x1 - x4).

Ltac zconst :=
  repeat match goal with
  | |- context [IZR ?z] =>
      lazymatch z with
      | Z0 => fail | Zpos _ => fail | Zneg _ => fail
      | _ => let z' := eval cbv in z in progress change (IZR z) with (IZR z')
      end
  end.
Ltac c12lra := unfold tol0 in *; cbn [zf f_of_Z Rops RopsC]; zconst; first [assumption | pylra].
Ltac crun := pyrun2_using c12lra.

(* never unfolded by the evaluator: the recursion of _newton_diff (one level at a time, by hand),
   and the three helpers of set(), which are characterised by lemmas and rewritten *)
From Ltac2 Require Ltac2.
Ltac2 Set Whnf.is_blocked as old := fun c =>
  Ltac2.Bool.or (old c)
    (Ltac2.List.exist (Ltac2.Constr.equal c)
       ['@Interpolation__newton_diff_rec; '@Interpolation__newton_diff; 'rec_fuel;
        '@Interpolation__order_points; '@Interpolation__compute_table]).
