(* C12_order: Interpolation._order_points on stored lists of ANY length (real-number instance):
   the generated selection loop picks, n times, the first index of the minimum of the working copy and
   overwrites it with max(x) + 1; the result is the strictly increasing rearrangement of the abscissae
   with the ordinates carried along. *)
From Coq Require Import Reals ZArith List Bool Lra Lia Arith String Permutation Sorted.
From PyLib Require Import PyVal PyBuiltins Ideal Whnf PyEval.
From Gen Require Import M_base M_Angle M_Interpolation.
From Proofs.C12 Require Import C12_gen.
Import ListNotations.
Open Scope R_scope.

(* ---------------- the builtins on lists of floats ---------------- *)
Fixpoint lminf (m : R) (l : list R) : R :=
  match l with [] => m | y :: r => lminf (if Rlt_dec y m then y else m) r end.
Fixpoint lmaxf (m : R) (l : list R) : R :=
  match l with [] => m | y :: r => lmaxf (if Rlt_dec m y then y else m) r end.
Definition lmin (l : list R) : R := match l with [] => 0 | x :: r => lminf x r end.
Definition lmax (l : list R) : R := match l with [] => 0 | x :: r => lmaxf x r end.
Fixpoint idx (v : R) (l : list R) (k : nat) : nat :=
  match l with [] => k | y :: r => if Req_EM_T y v then k else idx v r (S k) end.
Fixpoint lsetR (l : list R) (i : nat) (v : R) : list R :=
  match l with [] => [] | y :: r => match i with O => v :: r | S i' => y :: lsetR r i' v end end.

Lemma forallb_num (l : list R) : forallb (@is_num R) (map VFloat l) = true.
Proof. induction l; simpl; auto. Qed.

Lemma ltb_float (a b : R) : num_ltb Rops (VFloat a) (VFloat b) = if Rlt_dec a b then true else false.
Proof. unfold num_ltb. simpl. unfold Rltb. destruct (Rlt_dec a b); reflexivity. Qed.

Lemma min_fold (r : list R) : forall m,
  fold_left (fun m y => if num_ltb Rops y m then y else m) (map VFloat r) (VFloat m) = VFloat (lminf m r).
Proof.
  induction r as [|y r IH]; intro m; simpl; [reflexivity|].
  rewrite ltb_float. destruct (Rlt_dec y m); apply IH.
Qed.
Lemma max_fold (r : list R) : forall m,
  fold_left (fun m y => if num_ltb Rops m y then y else m) (map VFloat r) (VFloat m) = VFloat (lmaxf m r).
Proof.
  induction r as [|y r IH]; intro m; simpl; [reflexivity|].
  rewrite ltb_float. destruct (Rlt_dec m y); apply IH.
Qed.
Lemma min_flist (l : list R) : l <> [] -> py_min_seq Rops (VList (map VFloat l)) = VFloat (lmin l).
Proof.
  destruct l as [|x r]; [congruence|]. intros _. unfold py_min_seq, py_iter. cbn [map].
  change (bind (VList ?a) ?f) with (f (VList a)). cbv beta. unfold seq_of. cbv iota.
  assert (E : forallb (@is_num R) (VFloat x :: map VFloat r) = true) by (apply (forallb_num (x :: r))).
  rewrite E. apply min_fold.
Qed.
Lemma max_flist (l : list R) : l <> [] -> py_max_seq Rops (VList (map VFloat l)) = VFloat (lmax l).
Proof.
  destruct l as [|x r]; [congruence|]. intros _. unfold py_max_seq, py_iter. cbn [map].
  change (bind (VList ?a) ?f) with (f (VList a)). cbv beta. unfold seq_of. cbv iota.
  assert (E : forallb (@is_num R) (VFloat x :: map VFloat r) = true) by (apply (forallb_num (x :: r))).
  rewrite E. apply max_fold.
Qed.

Lemma index_flist (v : R) : forall (l : list R) k, In v l ->
  index_of Rops (map VFloat l) (VFloat v) (Z.of_nat k) = VInt (Z.of_nat (idx v l k)).
Proof.
  induction l as [|y r IH]; intros k Hin; [destruct Hin|].
  simpl. unfold Reqb. destruct (Req_EM_T y v) as [E | N].
  - reflexivity.
  - destruct Hin as [E | Hin]; [contradiction|].
    replace (Z.of_nat k + 1)%Z with (Z.of_nat (S k)) by lia. apply IH. exact Hin.
Qed.
Lemma set_flist (l : list R) (i : nat) (v : R) : (i < List.length l)%nat ->
  py_setitem Rops (VList (map VFloat l)) (VInt (Z.of_nat i)) (VFloat v) = VList (map VFloat (lsetR l i v)).
Proof.
  intro H. simpl. rewrite map_length.
  assert (E1 : (Z.of_nat i <? 0)%Z = false) by (apply Z.ltb_ge; lia). rewrite E1. rewrite E1.
  assert (E2 : (Z.of_nat (List.length l) <=? Z.of_nat i)%Z = false) by (apply Z.leb_gt; lia). rewrite E2.
  simpl orb. cbv iota. rewrite Nat2Z.id. f_equal. clear E1 E2.
  revert i H. induction l as [|y r IH]; intros i H; [simpl in H; lia|].
  destruct i; simpl; [reflexivity|]. f_equal. apply IH. simpl in H. lia.
Qed.

(* ---------------- the selection, on lists of reals ---------------- *)
Fixpoint sel (t : nat) (w : list R) (xmax : R) (xn : list R) (p : list nat) : list R * list R * list nat :=
  match t with
  | O => (w, xn, p)
  | S t' => let i := idx (lmin w) w 0 in
            sel t' (lsetR w i xmax) xmax (xn ++ [nth i w 0]) (p ++ [i])
  end.

Lemma lminf_spec l : forall m, (lminf m l = m \/ In (lminf m l) l) /\ lminf m l <= m /\ (forall y, In y l -> lminf m l <= y).
Proof.
  induction l as [|y r IH]; intro m; simpl.
  - split; [left; reflexivity | split; [lra | intros ? []]].
  - destruct (IH (if Rlt_dec y m then y else m)) as (A & B & C).
    destruct (Rlt_dec y m) as [L | L].
    + split; [destruct A as [A | A]; [right; left; symmetry; exact A | right; right; exact A] |].
      split; [lra |]. intros z [<- | Hz]; [exact B | apply C; exact Hz].
    + split; [destruct A as [A | A]; [left; exact A | right; right; exact A] |].
      split; [exact B |]. intros z [<- | Hz]; [lra | apply C; exact Hz].
Qed.
Lemma lmin_spec l : l <> [] -> In (lmin l) l /\ (forall y, In y l -> lmin l <= y).
Proof.
  destruct l as [|x r]; [congruence|]. intros _. simpl lmin.
  destruct (lminf_spec r x) as (A & B & C). split.
  - destruct A as [A | A]; [left; symmetry; exact A | right; exact A].
  - intros y [<- | Hy]; [exact B | apply C; exact Hy].
Qed.
Lemma lmaxf_spec l : forall m, m <= lmaxf m l /\ (forall y, In y l -> y <= lmaxf m l).
Proof.
  induction l as [|y r IH]; intro m; simpl.
  - split; [lra | intros ? []].
  - destruct (IH (if Rlt_dec m y then y else m)) as (B & C).
    destruct (Rlt_dec m y) as [L | L].
    + split; [lra |]. intros z [<- | Hz]; [exact B | apply C; exact Hz].
    + split; [exact B |]. intros z [<- | Hz]; [lra | apply C; exact Hz].
Qed.
Lemma lmax_spec l y : In y l -> y <= lmax l.
Proof.
  destruct l as [|x r]; [intros []|]. simpl lmax. destruct (lmaxf_spec r x) as (B & C).
  intros [<- | Hy]; [exact B | apply C; exact Hy].
Qed.

Lemma idx_spec v : forall l k, In v l -> (k <= idx v l k < k + List.length l)%nat /\ nth (idx v l k - k) l 0 = v.
Proof.
  induction l as [|y r IH]; intros k Hin; [destruct Hin|].
  simpl. destruct (Req_EM_T y v) as [E | N].
  - split; [lia |]. rewrite Nat.sub_diag. exact E.
  - destruct Hin as [E | Hin]; [contradiction|]. destruct (IH (S k) Hin) as (A & B). split; [lia|].
    replace (idx v r (S k) - k)%nat with (S (idx v r (S k) - S k)) by lia. exact B.
Qed.

Lemma lsetR_length l : forall i v, List.length (lsetR l i v) = List.length l.
Proof. induction l as [|y r IH]; intros [|i] v; simpl; auto. Qed.
Lemma lsetR_nth l : forall i v j, (i < List.length l)%nat ->
  nth j (lsetR l i v) 0 = if Nat.eqb j i then v else nth j l 0.
Proof.
  induction l as [|y r IH]; intros i v j H; [simpl in H; lia|].
  destruct i, j; simpl; try reflexivity.
  apply IH. simpl in H. lia.
Qed.

(* state invariant after the picks p out of the original list xs (all entries < xmax, pairwise distinct) *)
Section Sel.
Variables (xs : list R) (xmax : R).
Hypothesis Hnd : NoDup xs.
Hypothesis Hmax : forall y, In y xs -> y < xmax.
Notation n := (List.length xs).

Definition inv (w xn : list R) (p : list nat) : Prop :=
  List.length w = n /\ NoDup p /\ (forall i, In i p -> (i < n)%nat) /\
  (forall i, (i < n)%nat -> nth i w 0 = if in_dec Nat.eq_dec i p then xmax else nth i xs 0) /\
  xn = map (fun i => nth i xs 0) p /\
  StronglySorted Rlt xn /\
  (forall a j, In a xn -> (j < n)%nat -> ~ In j p -> a < nth j xs 0).

Lemma nth_in_xs i : (i < n)%nat -> In (nth i xs 0) xs.
Proof. intro H. apply nth_In. exact H. Qed.

Lemma sorted_snoc (l : list R) (m : R) : StronglySorted Rlt l -> Forall (fun a => a < m) l -> StronglySorted Rlt (l ++ [m]).
Proof.
  induction l as [|a l IH]; intros S F; simpl.
  - constructor; constructor.
  - inversion S; subst. inversion F; subst. constructor; [apply IH; assumption|].
    apply Forall_app. split; [assumption | constructor; [assumption | constructor]].
Qed.

Lemma free_index p : NoDup p -> (forall i, In i p -> (i < n)%nat) -> (List.length p < n)%nat ->
  exists j, (j < n)%nat /\ ~ In j p.
Proof.
  intros ND Hb Hl.
  destruct (Exists_dec (fun j => ~ In j p) (seq 0 n)) as [E | NE].
  - intro j. destruct (in_dec Nat.eq_dec j p); [right; tauto | left; assumption].
  - apply Exists_exists in E. destruct E as (j & Hj & Hn). apply in_seq in Hj. exists j. split; [lia | exact Hn].
  - exfalso. assert (incl (seq 0 n) p).
    { intros j Hj. destruct (in_dec Nat.eq_dec j p) as [I | I]; [exact I|].
      exfalso. apply NE. apply Exists_exists. exists j. split; assumption. }
    pose proof (NoDup_incl_length (seq_NoDup n 0) H) as L. rewrite seq_length in L. lia.
Qed.

Lemma inv_step w xn p : inv w xn p -> (List.length p < n)%nat ->
  let i := idx (lmin w) w 0 in
  (i < n)%nat /\ ~ In i p /\ nth i w 0 = nth i xs 0 /\
  inv (lsetR w i xmax) (xn ++ [nth i w 0]) (p ++ [i]).
Proof.
  intros (Lw & ND & Hb & Hw & Hxn & Hs & Hlt) Hl i.
  destruct (free_index p ND Hb Hl) as (j0 & Hj0 & Hj0p).
  assert (Wne : w <> []) by (intro E; rewrite E in Lw; simpl in Lw; lia).
  destruct (lmin_spec w Wne) as (Min & Mle).
  destruct (idx_spec (lmin w) w 0 Min) as (Ib & Iv). rewrite Nat.sub_0_r in Iv. fold i in Ib, Iv.
  assert (Hi : (i < n)%nat) by lia.
  (* the minimum is below xmax: some position still holds an original value *)
  assert (Hm : lmin w < xmax).
  { apply Rle_lt_trans with (nth j0 xs 0); [| apply Hmax; apply nth_in_xs; exact Hj0].
    assert (E : nth j0 w 0 = nth j0 xs 0).
    { rewrite (Hw j0 Hj0). destruct (in_dec Nat.eq_dec j0 p); [contradiction | reflexivity]. }
    rewrite <- E. apply Mle. apply nth_In. lia. }
  assert (Hip : ~ In i p).
  { intro Hin. pose proof (Hw i Hi) as E. destruct (in_dec Nat.eq_dec i p); [| contradiction]. rewrite Iv in E. lra. }
  assert (Hiv : nth i w 0 = nth i xs 0).
  { rewrite (Hw i Hi). destruct (in_dec Nat.eq_dec i p); [contradiction | reflexivity]. }
  split; [exact Hi|]. split; [exact Hip|]. split; [exact Hiv|].
  (* minimum among the free positions, strictly below the other free ones *)
  assert (Hfree : forall j, (j < n)%nat -> ~ In j p -> j <> i -> nth i xs 0 < nth j xs 0).
  { intros j Hj Hjp Hji.
    assert (E : nth j w 0 = nth j xs 0).
    { rewrite (Hw j Hj). destruct (in_dec Nat.eq_dec j p); [contradiction | reflexivity]. }
    assert (L : nth i xs 0 <= nth j xs 0).
    { rewrite <- Hiv, Iv, <- E. apply Mle. apply nth_In. lia. }
    assert (N : nth i xs 0 <> nth j xs 0).
    { intro Q. apply Hji. symmetry. apply (proj1 (NoDup_nth xs 0) Hnd i j Hi Hj Q). }
    lra. }
  unfold inv. rewrite lsetR_length. split; [exact Lw|].
  split. { apply (Permutation_NoDup (Permutation_cons_append p i)). constructor; assumption. }
  split. { intros k Hk. apply in_app_or in Hk. destruct Hk as [Hk | [<- | []]]; [apply Hb; exact Hk | exact Hi]. }
  split.
  { intros k Hk. rewrite lsetR_nth by lia.
    destruct (Nat.eqb_spec k i) as [-> | Nk].
    - destruct (in_dec Nat.eq_dec i (p ++ [i])) as [_ | C]; [reflexivity | exfalso; apply C; apply in_or_app; right; left; reflexivity].
    - rewrite (Hw k Hk).
      destruct (in_dec Nat.eq_dec k p) as [I1 | I1], (in_dec Nat.eq_dec k (p ++ [i])) as [I2 | I2]; try reflexivity.
      + exfalso. apply I2. apply in_or_app. left. exact I1.
      + exfalso. apply in_app_or in I2. destruct I2 as [I2 | [E | []]]; [contradiction | congruence]. }
  split. { rewrite map_app, Hxn, Hiv. reflexivity. }
  split.
  { apply sorted_snoc; [exact Hs|]. apply Forall_forall. intros a Ha. rewrite Hiv. apply (Hlt a i Ha Hi Hip). }
  intros a j Ha Hj Hjp. apply in_app_or in Ha.
  assert (Hjp' : ~ In j p) by (intro Q; apply Hjp; apply in_or_app; left; exact Q).
  assert (Hji : j <> i) by (intro Q; apply Hjp; apply in_or_app; right; left; congruence).
  destruct Ha as [Ha | [<- | []]]; [apply Hlt; assumption | rewrite Hiv; apply Hfree; assumption].
Qed.
Lemma sel_inv : forall t w xn p, inv w xn p -> (List.length p + t <= n)%nat ->
  inv (fst (fst (sel t w xmax xn p))) (snd (fst (sel t w xmax xn p))) (snd (sel t w xmax xn p))
  /\ List.length (snd (sel t w xmax xn p)) = (List.length p + t)%nat.
Proof.
  induction t as [|t IH]; intros w xn p Hi Hl; simpl sel.
  - split; [exact Hi | simpl; lia].
  - destruct (inv_step w xn p Hi ltac:(lia)) as (_ & _ & _ & Hi').
    destruct (IH _ _ _ Hi') as (A & B); [rewrite app_length; simpl; lia|].
    split; [exact A|]. rewrite B, app_length. simpl. lia.
Qed.

Lemma inv_init : inv xs [] [].
Proof.
  unfold inv. split; [reflexivity|]. split; [constructor|]. split; [intros ? []|].
  split; [intros i Hi; destruct (in_dec Nat.eq_dec i []) as [[]|]; reflexivity|].
  split; [reflexivity|]. split; [constructor|]. intros ? ? [].
Qed.

(* the complete run: n picks *)
Definition sorted_x : list R := snd (fst (sel n xs xmax [] [])).
Definition picks : list nat := snd (sel n xs xmax [] []).

Theorem sel_result :
  Permutation picks (seq 0 n) /\ sorted_x = map (fun i => nth i xs 0) picks /\ StronglySorted Rlt sorted_x.
Proof.
  destruct (sel_inv n xs [] [] inv_init ltac:(simpl; lia)) as ((Lw & ND & Hb & _ & Hxn & Hs & _) & Hl).
  fold picks in ND, Hb, Hxn, Hl. fold sorted_x in Hxn, Hs. simpl in Hl.
  split; [| split; assumption].
  apply NoDup_Permutation_bis; [exact ND | rewrite seq_length; lia |].
  intros i Hi. apply in_seq. specialize (Hb i Hi). lia.
Qed.
End Sel.

(* ---------------- the generated _order_points ---------------- *)
Ltac2 Set Whnf.is_blocked as old := fun c =>
  Ltac2.Bool.or (old c) (Ltac2.List.exist (Ltac2.Constr.equal c)
    ['@py_min_seq; '@py_max_seq; '@list_index; '@py_setitem; '@py_append]).

Ltac pyrunv_hook s tac ::=
  lazymatch s with
  | py_max_seq _ (VList (map VFloat ?l)) => rewrite (max_flist l) by assumption
  | py_getitem _ (VList (map VFloat ?l)) (VInt (Z.of_nat ?i)) => rewrite (getitem_flist l i) by lia
  | context [get_field ?c ?i (VObj ?c' ?l)] =>
      let v := eval cbv [get_field cInterpolation Pos.eqb nth] in (get_field c i (VObj c' l)) in
      change (get_field c i (VObj c' l)) with v
  end.

Definition ilist (p : list nat) : val R := VList (map (fun i => VInt (Z.of_nat i)) p).

(* the first loop of _order_points, as generated (the shape is matched against the generated text by unification) *)
Definition sel_fix (K : val R -> val R -> val R -> val R -> val R -> val R) (xmaxv : val R) :=
  fix loop (l : list (val R)) (u imin x xnew ynew : val R) {struct l} : val R :=
    match l with
    | [] => K u imin x xnew ynew
    | x7 :: l' =>
        bind (list_index Rops x (py_min_seq Rops x)) (fun imin0 =>
        bind (py_append xnew (py_getitem Rops x imin0)) (fun xnew1 =>
        bind VNone (fun _ =>
        bind (py_append ynew imin0) (fun ynew1 =>
        bind VNone (fun _ =>
        bind (py_setitem Rops x imin0 xmaxv) (fun x1 => loop l' x7 imin0 x1 xnew1 ynew1))))))
    end.
Lemma sel_fix_cons K xmaxv x7 l' u imin x xnew ynew :
  sel_fix K xmaxv (x7 :: l') u imin x xnew ynew =
  bind (list_index Rops x (py_min_seq Rops x)) (fun imin0 =>
  bind (py_append xnew (py_getitem Rops x imin0)) (fun xnew1 =>
  bind VNone (fun _ =>
  bind (py_append ynew imin0) (fun ynew1 =>
  bind VNone (fun _ =>
  bind (py_setitem Rops x imin0 xmaxv) (fun x1 => sel_fix K xmaxv l' x7 imin0 x1 xnew1 ynew1)))))).
Proof. reflexivity. Qed.

Lemma bind_VInt (z : Z) (k : val R -> val R) : bind (VInt z) k = k (VInt z).
Proof. reflexivity. Qed.
Lemma bind_VNone (k : val R -> val R) : bind VNone k = k VNone.
Proof. reflexivity. Qed.
Lemma list_index_flist (l : list R) (v : R) : In v l ->
  list_index Rops (VList (map VFloat l)) (VFloat v) = VInt (Z.of_nat (idx v l 0)).
Proof. intro H. exact (index_flist v l 0 H). Qed.
Lemma append_float (l : list R) (a : R) : py_append (VList (map VFloat l)) (VFloat a) = VList (map VFloat (l ++ [a])).
Proof. rewrite map_app. reflexivity. Qed.
Lemma append_int (p : list nat) (i : nat) : py_append (ilist p) (VInt (Z.of_nat i)) = ilist (p ++ [i]).
Proof. unfold ilist. rewrite map_app. reflexivity. Qed.

Theorem sel_fix_spec K xmax : forall t m w xn p u imin, w <> [] ->
  exists u' imin',
    sel_fix K (VFloat xmax) (zrange_nat m t) u imin (VList (map VFloat w)) (VList (map VFloat xn)) (ilist p)
    = K u' imin' (VList (map VFloat (fst (fst (sel t w xmax xn p)))))
                 (VList (map VFloat (snd (fst (sel t w xmax xn p))))) (ilist (snd (sel t w xmax xn p))).
Proof.
  induction t as [|t IH]; intros m w xn p u imin Hw.
  - exists u, imin. reflexivity.
  - rewrite zrange_nat_S, sel_fix_cons.
    destruct (lmin_spec w Hw) as (Min & _).
    destruct (idx_spec (lmin w) w 0 Min) as (Ib & Iv). rewrite Nat.sub_0_r in Iv.
    rewrite (min_flist w Hw). rewrite (list_index_flist w (lmin w) Min). rewrite bind_VInt.
    rewrite (getitem_flist w (idx (lmin w) w 0)) by lia.
    rewrite append_float, bind_VList, bind_VNone, append_int.
    unfold ilist at 1. rewrite bind_VList, bind_VNone. fold (ilist (p ++ [idx (lmin w) w 0])).
    rewrite (set_flist w (idx (lmin w) w 0) xmax) by lia. rewrite bind_VList.
    assert (Hw' : lsetR w (idx (lmin w) w 0) xmax <> []).
    { intro E. apply (f_equal (@List.length R)) in E. rewrite lsetR_length in E. destruct w; [congruence | discriminate]. }
    destruct (IH (m + 1)%Z _ (xn ++ [nthR w (idx (lmin w) w 0)]) (p ++ [idx (lmin w) w 0]) (VInt m)
                 (VInt (Z.of_nat (idx (lmin w) w 0))) Hw') as (u' & imin' & E).
    exists u', imin'. rewrite E. reflexivity.
Qed.

(* the second loop: ynew[i] = y[ynew[i]] turns the list of picked indices into the list of ordinates *)
Notation VI := (fun i : nat => @VInt R (Z.of_nat i)).
Lemma nth_error_mid {A} (done : list A) x rest : nth_error (done ++ x :: rest) (List.length done) = Some x.
Proof. induction done; simpl; auto. Qed.
Lemma getitem_mid (l1 : list (val R)) x l2 :
  py_getitem Rops (VList (l1 ++ x :: l2)) (VInt (Z.of_nat (List.length l1))) = x.
Proof. simpl. apply nth_val_nth. apply nth_error_mid. Qed.
Lemma list_set_mid (l1 : list (val R)) x l2 v : list_set (l1 ++ x :: l2) (List.length l1) v = l1 ++ v :: l2.
Proof. induction l1 as [|a l1 IH]; simpl; [reflexivity | rewrite IH; reflexivity]. Qed.
Lemma setitem_mid (l1 : list (val R)) x l2 (a : R) :
  py_setitem Rops (VList (l1 ++ x :: l2)) (VInt (Z.of_nat (List.length l1))) (VFloat a) = VList (l1 ++ VFloat a :: l2).
Proof.
  simpl. rewrite app_length. simpl List.length.
  assert (E1 : (Z.of_nat (List.length l1) <? 0)%Z = false) by (apply Z.ltb_ge; lia). rewrite E1. rewrite E1.
  assert (E2 : (Z.of_nat (List.length l1 + S (List.length l2)) <=? Z.of_nat (List.length l1))%Z = false) by (apply Z.leb_gt; lia).
  rewrite E2. simpl orb. cbv iota. rewrite Nat2Z.id, list_set_mid. reflexivity.
Qed.

Lemma remap_body (py done : list R) (i : nat) (rest : list nat) : (i < List.length py)%nat ->
  (fun x4 ynew => py_setitem Rops ynew x4 (py_getitem Rops (VList (map VFloat py)) (py_getitem Rops ynew x4)))
    (VInt (Z.of_nat (List.length done))) (VList (map VFloat done ++ VI i :: map VI rest))
  = VList (map VFloat (done ++ [nthR py i]) ++ map VI rest).
Proof.
  intro Hi. cbv beta. set (D := map (@VFloat R) done).
  assert (EL : Z.of_nat (List.length done) = Z.of_nat (List.length D)) by (unfold D; rewrite map_length; reflexivity).
  rewrite EL. rewrite getitem_mid. rewrite (getitem_flist py i Hi). rewrite setitem_mid.
  unfold D. rewrite map_app, <- app_assoc. reflexivity.
Qed.

Theorem remap_spec K (py : list R) : forall rest done k,
  (forall i, In i rest -> (i < List.length py)%nat) ->
  exists k',
    acc_fix K (fun x4 ynew => py_setitem Rops ynew x4
                                (py_getitem Rops (VList (map VFloat py)) (py_getitem Rops ynew x4)))
            (zrange_nat (Z.of_nat (List.length done)) (List.length rest)) k
            (VList (map VFloat done ++ map VI rest))
    = K k' (VList (map VFloat (done ++ map (nthR py) rest))).
Proof.
  induction rest as [|i rest IH]; intros done k Hb.
  - exists k. simpl. rewrite !app_nil_r. reflexivity.
  - simpl List.length. rewrite zrange_nat_S, acc_fix_cons.
    change (map VI (i :: rest)) with (VI i :: map VI rest). cbv beta.
    rewrite (remap_body py done i rest) by (apply Hb; left; reflexivity). rewrite bind_VList.
    destruct (IH (done ++ [nthR py i]) (VInt (Z.of_nat (List.length done)))) as [k' E].
    + intros j Hj. apply Hb. right. exact Hj.
    + exists k'. rewrite app_length in E. simpl List.length in E.
      replace (Z.of_nat (List.length done + 1)) with (Z.of_nat (List.length done) + 1)%Z in E by lia.
      rewrite E. rewrite <- app_assoc. reflexivity.
Qed.

Section Model.
Variables px py : list R.
Variable tb : val R.
Hypothesis Hlen : List.length py = List.length px.
Hypothesis Hne : px <> [].
Notation n := (List.length px).
Notation xmax := (lmax px + Rlit 10 (-1)).

Hypothesis Hnd : NoDup px.

Lemma xmax_above y : In y px -> y < xmax.
Proof. intro H. pose proof (lmax_spec px y H). assert (Rlit 10 (-1) = 1) as -> by (unfold Rlit; simpl; lra). lra. Qed.

Lemma sel_length : forall t w xm xn p, List.length (fst (fst (sel t w xm xn p))) = List.length w.
Proof. induction t as [|t IH]; intros; simpl; [reflexivity | rewrite IH, lsetR_length; reflexivity]. Qed.

(* what _order_points stores: abscissae in increasing order, ordinates carried along *)
Definition sx : list R := sorted_x px xmax.
Definition sy : list R := map (nthR py) (picks px xmax).

Theorem order_gen :
  Interpolation__order_points Rops (tobj px py tb) = VTuple [tobj sx sy tb; VNone].
Proof.
  destruct (sel_result px xmax Hnd xmax_above) as (Hperm & Hsx & Hsorted).
  destruct (sel_inv px xmax Hnd xmax_above (List.length px) px [] [] (inv_init px xmax) ltac:(simpl; lia)) as (_ & Hlp).
  fold (picks px xmax) in Hlp. simpl in Hlp.
  unfold Interpolation__order_points, tobj, flist.
  grun. bstep. bstep. grun.
  enter_range.
  match goal with |- ?f _ _ _ _ _ _ = _ =>
     let g := open_constr:(sel_fix _ _) in unify f g; change f with g end.
  change (VList []) with (VList (map (@VFloat R) [])) at 1.
  change (VList []) with (ilist []).
  match goal with |- sel_fix ?KK (VFloat ?xm) _ ?uu ?ii _ _ _ = _ =>
    destruct (sel_fix_spec KK xm n 0%Z px [] [] uu ii Hne) as (u' & imin' & E) end.
  rewrite E. clear E. cbv beta.
  fold (picks px xmax). fold sx.
  rewrite range_len, bind_VList. cbv beta.
  match goal with |- context [seq_of (VList ?l)] => change (seq_of (VList l)) with l end.
  rewrite map_length, sel_length.
  match goal with |- ?f _ _ _ = _ =>
     let g := open_constr:(acc_fix _ _) in unify f g; change f with g end.
  match goal with |- acc_fix ?KK _ _ ?kk _ = _ =>
    destruct (remap_spec KK py (picks px xmax) [] kk) as [k' E] end.
  { intros i Hi. rewrite Hlen. apply (Permutation_in _ Hperm) in Hi. apply in_seq in Hi. lia. }
  simpl List.length in E. change (Z.of_nat 0) with 0%Z in E. rewrite Hlp in E.
  simpl map in E at 1. simpl app in E. unfold ilist. rewrite E. clear E. cbv beta.
  fold sy. reflexivity.
Qed.

End Model.

(* ---------------- properties of the stored result ---------------- *)
Lemma combine_nth_seq : forall (a b : list R), List.length b = List.length a ->
  map (fun i => (nth i a 0, nth i b 0)) (seq 0 (List.length a)) = combine a b.
Proof.
  induction a as [|x a IH]; intros b H; [reflexivity|].
  destruct b as [|y b]; [discriminate|]. simpl List.length. simpl seq. simpl map. simpl combine. f_equal.
  rewrite <- seq_shift, map_map. simpl. apply IH. simpl in H. lia.
Qed.

Theorem order_any (px py : list R) (tb : val R) :
  List.length py = List.length px -> px <> [] -> NoDup px ->
  let xs' := sx px in let ys' := sy px py in
  Interpolation__order_points Rops (tobj px py tb) = VTuple [tobj xs' ys' tb; VNone] /\
  StronglySorted Rlt xs' /\ Permutation (combine xs' ys') (combine px py) /\
  List.length xs' = List.length px /\ List.length ys' = List.length px.
Proof.
  intros L Hne Hnd xs' ys'.
  pose proof (sel_result px (lmax px + Rlit 10 (-1)) Hnd (xmax_above px)) as (Hperm & Hsx & Hsorted).
  split; [apply order_gen; assumption|]. split; [exact Hsorted|].
  assert (Lp : List.length (picks px (lmax px + Rlit 10 (-1))) = List.length px).
  { rewrite (Permutation_length Hperm). apply seq_length. }
  split.
  - unfold xs', ys', sx, sy. rewrite Hsx.
    rewrite <- (combine_nth_seq px py L).
    rewrite <- (Permutation_map (fun i => (nth i px 0, nth i py 0)) Hperm).
    apply Permutation_refl'. unfold nthR.
    generalize (picks px (lmax px + Rlit 10 (-1))). intro l. induction l as [|i l IH]; simpl; [reflexivity | rewrite IH; reflexivity].
  - unfold xs', ys', sx, sy. rewrite Hsx, !map_length. split; exact Lp.
Qed.

Lemma separated_NoDup (px : list R) : separated px -> NoDup px.
Proof.
  intro S. apply (proj2 (NoDup_nth px 0)). intros i j Hi Hj E.
  destruct (Nat.eq_dec i j) as [|N]; [assumption|]. exfalso.
  apply (separated_distinct px S i j Hi Hj N). exact E.
Qed.

Lemma separated_sx (px : list R) : px <> [] -> separated px -> separated (sx px).
Proof.
  intros Hne S. pose proof (separated_NoDup px S) as Hnd.
  pose proof (sel_result px (lmax px + Rlit 10 (-1)) Hnd (xmax_above px)) as (Hperm & Hsx & _).
  set (p := picks px (lmax px + Rlit 10 (-1))) in *.
  assert (Lp : List.length p = List.length px) by (rewrite (Permutation_length Hperm); apply seq_length).
  assert (NDp : NoDup p) by (apply (Permutation_NoDup (Permutation_sym Hperm)); apply seq_NoDup).
  assert (Hb : forall i, (i < List.length p)%nat -> (nth i p 0%nat < List.length px)%nat).
  { intros i Hi. assert (In (nth i p 0%nat) (seq 0 (List.length px))) by (apply (Permutation_in _ Hperm); apply nth_In; exact Hi).
    apply in_seq in H. lia. }
  assert (Hn : forall i, (i < List.length p)%nat -> nthR (sx px) i = nthR px (nth i p 0%nat)).
  { intros i Hi. unfold nthR, sx. fold p. rewrite Hsx.
    rewrite (nth_indep _ 0 ((fun k => nth k px 0) 0%nat)) by (rewrite map_length; exact Hi).
    rewrite (map_nth (fun k => nth k px 0) p 0%nat i). reflexivity. }
  assert (Ls : List.length (sx px) = List.length p) by (unfold sx; fold p; rewrite Hsx, map_length; reflexivity).
  intros i j Hi Hj N. rewrite Ls in Hi, Hj. rewrite (Hn i Hi), (Hn j Hj).
  apply S; [apply Hb; exact Hi | apply Hb; exact Hj |].
  intro E. apply N. apply (proj1 (NoDup_nth p 0%nat) NDp i j Hi Hj E).
Qed.

(* the whole second half of set(), for raw stored lists of ANY length 1..64: _order_points, then _compute_table,
   then __call__ at every node *)
Theorem stored_pipeline (px py : list R) :
  List.length py = List.length px -> px <> [] -> separated px -> (List.length px <= 64)%nat ->
  let xs' := sx px in let ys' := sy px py in
  Interpolation__order_points Rops (tobj px py (flist [])) = VTuple [tobj xs' ys' (flist []); VNone] /\
  Interpolation__compute_table Rops (tobj xs' ys' (flist [])) = VTuple [built xs' ys'; VNone] /\
  (forall j, (j < List.length px)%nat ->
     Interpolation___call__ Rops (built xs' ys') (VFloat (nthR xs' j)) = VFloat (nthR ys' j)) /\
  StronglySorted Rlt xs' /\ Permutation (combine xs' ys') (combine px py).
Proof.
  intros L Hne S H64 xs' ys'.
  destruct (order_any px py (flist []) L Hne (separated_NoDup px S)) as (Ho & Hs & Hp & Lx & Ly).
  fold xs' in Ho, Hs, Hp, Lx, Ly. fold ys' in Ho, Hp, Ly.
  pose proof (separated_sx px Hne S) as S'. fold xs' in S'.
  split; [exact Ho|]. split.
  - apply built_by_compute_table; [lia | exact S' | lia].
  - split; [| split; assumption].
    intros j Hj. apply call_at_node; [lia | exact S' | lia].
Qed.

(* ---------------- order independence: the stored object does not depend on the order of the points ---------------- *)
Definition fsorted (l : list (R * R)) : Prop := StronglySorted (fun u v => fst u < fst v) l.

Lemma fsorted_perm_eq : forall l l', fsorted l -> fsorted l' -> Permutation l l' -> l = l'.
Proof.
  induction l as [|u t IH]; intros l' S S' P.
  - apply Permutation_nil in P. subst. reflexivity.
  - destruct l' as [|u' t']; [apply Permutation_sym, Permutation_nil in P; discriminate|].
    inversion S as [|? ? St Ft]; subst. inversion S' as [|? ? St' Ft']; subst.
    assert (E : u = u').
    { assert (I1 : In u (u' :: t')) by (apply (Permutation_in _ P); left; reflexivity).
      assert (I2 : In u' (u :: t)) by (apply (Permutation_in _ (Permutation_sym P)); left; reflexivity).
      destruct I1 as [E | I1]; [symmetry; exact E|]. destruct I2 as [E | I2]; [exact E|].
      rewrite Forall_forall in Ft, Ft'. pose proof (Ft' u I1). pose proof (Ft u' I2). lra. }
    subst u'. f_equal. apply IH; [exact St | exact St' | apply (Permutation_cons_inv P)].
Qed.

Lemma fsorted_combine : forall a b, StronglySorted Rlt a -> fsorted (combine a b).
Proof.
  induction a as [|x a IH]; intros b S; [constructor|].
  destruct b as [|y b]; [constructor|]. inversion S as [|? ? Sa Fa]; subst. simpl. constructor; [apply IH; exact Sa|].
  apply Forall_forall. intros [x' y'] Hin. simpl. apply in_combine_l in Hin. rewrite Forall_forall in Fa. apply Fa. exact Hin.
Qed.

Lemma combine_inj : forall (a b a' b' : list R), List.length b = List.length a -> List.length b' = List.length a' ->
  combine a b = combine a' b' -> a = a' /\ b = b'.
Proof.
  induction a as [|x a IH]; intros b a' b' L L' E.
  - destruct b; [|discriminate]. destruct a' as [|x' a']; [destruct b'; [split; reflexivity | discriminate]|].
    destruct b'; [discriminate | simpl in E; discriminate].
  - destruct b as [|y b]; [discriminate|]. destruct a' as [|x' a']; [simpl in E; discriminate|].
    destruct b' as [|y' b']; [discriminate|]. simpl in E. inversion E; subst.
    destruct (IH b a' b') as (A & B); [simpl in L; lia | simpl in L'; lia | assumption|]. subst. split; reflexivity.
Qed.

Lemma order_same_lists (px py px' py' : list R) :
  List.length py = List.length px -> List.length py' = List.length px' -> px <> [] -> px' <> [] ->
  NoDup px -> NoDup px' -> Permutation (combine px py) (combine px' py') ->
  sx px = sx px' /\ sy px py = sy px' py'.
Proof.
  intros L L' Hne Hne' Hnd Hnd' P.
  destruct (order_any px py VNone L Hne Hnd) as (_ & S & Pm & Lx & Ly).
  destruct (order_any px' py' VNone L' Hne' Hnd') as (_ & S' & Pm' & Lx' & Ly').
  assert (Q : combine (sx px) (sy px py) = combine (sx px') (sy px' py')).
  { apply fsorted_perm_eq; [apply fsorted_combine; exact S | apply fsorted_combine; exact S' |].
    eapply Permutation_trans; [exact Pm|]. eapply Permutation_trans; [exact P|]. apply Permutation_sym. exact Pm'. }
  cbv zeta in Lx, Ly, Lx', Ly'.
  assert (La : List.length (sy px py) = List.length (sx px)) by (rewrite Ly, Lx; reflexivity).
  assert (Lb : List.length (sy px' py') = List.length (sx px')) by (rewrite Ly', Lx'; reflexivity).
  exact (combine_inj _ _ _ _ La Lb Q).
Qed.

Theorem order_independent (px py px' py' : list R) (tb : val R) :
  List.length py = List.length px -> List.length py' = List.length px' -> px <> [] -> px' <> [] ->
  NoDup px -> NoDup px' -> Permutation (combine px py) (combine px' py') ->
  Interpolation__order_points Rops (tobj px py tb) = Interpolation__order_points Rops (tobj px' py' tb).
Proof.
  intros L L' Hne Hne' Hnd Hnd' P.
  destruct (order_any px py tb L Hne Hnd) as (E & S & Pm & Lx & Ly).
  destruct (order_any px' py' tb L' Hne' Hnd') as (E' & S' & Pm' & Lx' & Ly').
  rewrite E, E'.
  assert (Q : combine (sx px) (sy px py) = combine (sx px') (sy px' py')).
  { apply fsorted_perm_eq; [apply fsorted_combine; exact S | apply fsorted_combine; exact S' |].
    eapply Permutation_trans; [exact Pm|]. eapply Permutation_trans; [exact P|]. apply Permutation_sym. exact Pm'. }
  cbv zeta in Lx, Ly, Lx', Ly'.
  assert (La : List.length (sy px py) = List.length (sx px)) by (rewrite Ly, Lx; reflexivity).
  assert (Lb : List.length (sy px' py') = List.length (sx px')) by (rewrite Ly', Lx'; reflexivity).
  destruct (combine_inj _ _ _ _ La Lb Q) as (A & B). rewrite A, B. reflexivity.
Qed.
