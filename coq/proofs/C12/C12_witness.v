(* C12_witness: the hypotheses of the root theorems (C12_root.v) are satisfied by a table the model really
   builds: for the symbolic three-point table of C12_ideal.v, __call__ and derivative are total (float or
   ValueError), so the root theorems hold for it WITHOUT any assumption about callees. *)
From Coq Require Import Reals ZArith List String Lra.
Set Warnings "-ambiguous-paths".
From PyLib Require Import PyVal PyBuiltins Ideal PyEval.
From Gen Require Import M_base M_Angle M_Interpolation.
From Proofs.C12 Require Import C12_tac C12_ideal C12_root.
Import ListNotations.
Open Scope R_scope.

Section W3.
Variables x1 x2 x3 y1 y2 y3 t0 t1 t2 : R.
Hypothesis H12 : x1 + tol0 <= x2.
Hypothesis H23 : x2 + tol0 <= x3.
Notation T := (obj [x1; x2; x3] [y1; y2; y3] [t0; t1; t2]).
Notation I := (I3 x1 x2 x3 y1 y2 y3 t0 t1 t2).
Notation D := (D3 x1 x2 t1 t2).

Lemma tol0_pos : 0 < tol0. Proof. unfold tol0. Rlit_norm. lra. Qed.
Lemma first_x : py_getitem Rops (get_field cInterpolation 0 T) (VInt 0) = VFloat x1. Proof. reflexivity. Qed.
Lemma last_x : py_getitem Rops (get_field cInterpolation 0 T) (VInt (-1)) = VFloat x3. Proof. reflexivity. Qed.

Theorem root3_default mi : (0 <= mi < 5000)%Z ->
  good tol0 I x1 x3 (Interpolation_root Rops T (VFloat 0) (VFloat 0) (VInt mi)).
Proof.
  intro Hmi. pose proof tol0_pos as Hp.
  apply (root_default (flist [x1; x2; x3]) (flist [y1; y2; y3]) (flist [t0; t1; t2]) tol0 I D).
  - lra.
  - intro x. apply call_total; assumption.
  - intro x. apply deriv_total; assumption.
  - exact first_x.
  - exact last_x.
  - exact Hmi.
  - lra.
  - exact Hp.
Qed.

Theorem root3_in_table xl xh mi : (0 <= mi < 5000)%Z -> xl <> 0 -> xl + tol0 <= xh -> x1 <= xl -> xh <= x3 ->
  good tol0 I xl xh (Interpolation_root Rops T (VFloat xl) (VFloat xh) (VInt mi)).
Proof.
  intros Hmi N0 Hd Hl Hh. pose proof tol0_pos as Hp.
  apply (root_in_table (flist [x1; x2; x3]) (flist [y1; y2; y3]) (flist [t0; t1; t2]) tol0 I D) with (xmin := x1) (xmax := x3);
    try assumption; try lra.
  - intro x. apply call_total; assumption.
  - intro x. apply deriv_total; assumption.
  - exact first_x.
  - exact last_x.
Qed.
End W3.
