(* C12: lifting of the kernel-evaluated grid shards to a forall statement *)
From Coq Require Import List Bool PrimFloat.
From Proofs.C12 Require Import C12_defs C12_grid_0 C12_grid_1 C12_grid_2 C12_grid_3 C12_grid_4 C12_grid_5 C12_grid_6 C12_grid_7.
Import ListNotations.

Lemma grid_all : forallb chk_table grid = true.
Proof.
  unfold grid. repeat rewrite forallb_app.
  rewrite grid_0_ok, grid_1_ok, grid_2_ok, grid_3_ok, grid_4_ok, grid_5_ok, grid_6_ok, grid_7_ok. reflexivity.
Qed.

Theorem grid_b64 : forall t xl xh, In t grid -> In xl (limits t) -> In xh (limits t) -> chk_pair t xl xh = true.
Proof.
  intros t xl xh Ht Hl Hh.
  pose proof (proj1 (forallb_forall _ _) grid_all t Ht) as H1. unfold chk_table in H1.
  pose proof (proj1 (forallb_forall _ _) H1 xl Hl) as H2.
  exact (proj1 (forallb_forall _ _) H2 xh Hh).
Qed.

(* non-vacuity: on the grid 756 of the (xl, xh) pairs make root() return a float *)
Lemma grid_found : fold_right Nat.add 0%nat (map count_found grid) = 756%nat.
Proof. vm_cast_no_check (@eq_refl nat 756%nat). Qed.
