(* C12: Interpolation.root — bracket invariant of the generated while loop, by induction on its fuel,
   for an ARBITRARY table object.  __call__ and derivative are treated as black boxes that return a
   float (called I x resp. D x) or raise; nothing else about them is used.  Real-number instance. *)
From Coq Require Import Reals ZArith List String Lra Lia Psatz.
From PyLib Require Import PyVal PyBuiltins Ideal PyEval.
From Gen Require Import M_base M_Angle M_Interpolation.
Import ListNotations.
Open Scope R_scope.

(* the loop of the generated Interpolation.root, extracted from the generated text itself *)
Definition root_loop (self mi : val R)
  : nat -> val R -> val R -> val R -> val R -> val R -> val R -> val R -> val R -> val R :=
  ltac:(let t := eval cbv beta zeta delta [Interpolation_root] in
                 (Interpolation_root Rops self (VFloat 1) (VFloat 2) mi) in
        match t with context [ ?L loop_fuel ] => exact L end).

From Ltac2 Require Ltac2.
Ltac2 Set Whnf.is_blocked as old := fun c =>
  Ltac2.Bool.or (old c)
    (Ltac2.List.exist (Ltac2.Constr.equal c)
       ['@Interpolation___call__; '@Interpolation_derivative; 'Z.geb; 'loop_fuel; '@py_getitem; '@root_loop]).

Ltac zconst :=
  repeat match goal with
  | |- context [IZR ?z] =>
      lazymatch z with
      | Z0 => fail | Zpos _ => fail | Zneg _ => fail
      | _ => let z' := eval cbv in z in progress change (IZR z) with (IZR z')
      end
  end.
Ltac c12lra := cbn [zf f_of_Z Rops RopsC]; zconst; first [assumption | pylra].
Ltac c12run := pyrun_using c12lra.
Ltac norm_args :=
  repeat match goal with
  | |- context [Interpolation___call__ Rops ?s ?a] =>
      lazymatch a with
      | VFloat _ => fail
      | _ => let a' := eval cbv [item nth] in a in progress change (Interpolation___call__ Rops s a) with (Interpolation___call__ Rops s a')
      end
  end.
Ltac known :=
  norm_args;
  repeat match goal with
  | H : Interpolation___call__ Rops _ _ = _ |- _ => rewrite H
  | H : Interpolation_derivative Rops _ _ = _ |- _ => rewrite H
  | H : Z.geb _ _ = _ |- _ => rewrite H
  | H : py_getitem Rops _ _ = _ |- _ => rewrite H
  end.
Ltac drive := cbn [root_loop]; repeat (progress (c12run; known)).

Section Root.
Variables (fx fy ft : val R) (tol : R).
Notation self := (VObj cInterpolation [fx; fy; ft; VFloat tol]).
Variables (I D : R -> R).
Hypothesis Htol : 0 <= tol.
Hypothesis Hcall : forall x, Interpolation___call__ Rops self (VFloat x) = VFloat (I x)
                          \/ Interpolation___call__ Rops self (VFloat x) = VErr ValueError.
Hypothesis Hder : forall x, Interpolation_derivative Rops self (VFloat x) = VFloat (D x)
                          \/ Interpolation_derivative Rops self (VFloat x) = VErr ValueError.

Definition good (a b : R) (v : val R) : Prop :=
  match v with
  | VFloat r => a <= r <= b /\ Rabs (I r) <= tol
  | VErr e => e = ValueError
  | _ => False
  end.

Lemma secant_inside xl xh yl yh : xl <= xh -> yl * yh < 0 ->
  xl <= (xl * yh - xh * yl) / (yh - yl) <= xh.
Proof.
  intros Hx Hs.
  assert (Hd : yh - yl <> 0) by (intro E; assert (yh = yl) by lra; subst; nra).
  assert (E1 : (xl * yh - xh * yl) / (yh - yl) = xl + (xh - xl) * (- yl / (yh - yl))) by (field; exact Hd).
  assert (Ht : 0 <= - yl / (yh - yl) <= 1).
  { destruct (Rlt_dec yl 0) as [Hl | Hl].
    - assert (0 < yh) by nra. split.
      + apply Rmult_le_pos; [lra | left; apply Rinv_0_lt_compat; lra].
      + apply (Rmult_le_reg_r (yh - yl)); [lra |]. unfold Rdiv. rewrite Rmult_assoc, Rinv_l by exact Hd. lra.
    - assert (0 < yl) by nra. assert (yh < 0) by nra. split.
      + replace (- yl / (yh - yl)) with (yl / (yl - yh)) by (field; lra).
        apply Rmult_le_pos; [lra | left; apply Rinv_0_lt_compat; lra].
      + replace (- yl / (yh - yl)) with (yl / (yl - yh)) by (field; lra).
        apply (Rmult_le_reg_r (yl - yh)); [lra |]. unfold Rdiv. rewrite Rmult_assoc, Rinv_l by lra. lra. }
  rewrite E1. nra.
Qed.

(* PROGRESS of the repaired fallback (derivative too small): the next abscissa is the secant point if it lies in the
   inner 80 % of the bracket and the midpoint otherwise, so whichever end is replaced, the new bracket is at most
   90 % as wide as the old one (50 % for the midpoint) - regula falsi can no longer stall *)
Theorem fallback_progress mi fuel ni x xh xl y yh yl yp :
  xl <= xh -> tol < Rabs y -> yl * yh < 0 -> Z.geb ni mi = false ->
  Interpolation_derivative Rops self (VFloat x) = VFloat (D x) -> Rabs (D x) < Rlit 1 (-3) ->
  exists xn, (xl + Rlit 1 (-1) * (xh - xl) <= xn <= xh - Rlit 1 (-1) * (xh - xl)) /\
    (Interpolation___call__ Rops self (VFloat xn) = VErr ValueError ->
       root_loop self (VInt mi) (S fuel) (VInt ni) (VFloat x) (VFloat xh) (VFloat xl)
                      (VFloat y) (VFloat yh) (VFloat yl) yp = VErr ValueError) /\
    (Interpolation___call__ Rops self (VFloat xn) = VFloat (I xn) ->
       exists xl' xh' yl' yh',
         root_loop self (VInt mi) (S fuel) (VInt ni) (VFloat x) (VFloat xh) (VFloat xl)
                      (VFloat y) (VFloat yh) (VFloat yl) yp
         = root_loop self (VInt mi) fuel (VInt (ni + 1)) (VFloat xn) (VFloat xh') (VFloat xl')
                     (VFloat (I xn)) (VFloat yh') (VFloat yl') (VFloat (D x))
         /\ xl <= xl' /\ xh' <= xh /\ xl' <= xh' /\ xh' - xl' <= (1 - Rlit 1 (-1)) * (xh - xl)).
Proof.
  intros Hlh Hgt Hs Hge Hd Hflat.
  assert (Hsg : (yl < 0 /\ 0 < yh) \/ (0 < yl /\ yh < 0)).
  { destruct (Req_dec yl 0) as [E0 | N0]; [rewrite E0 in Hs; lra |].
    destruct (Rlt_dec yl 0); [left | right]; split; try lra; nra. }
  pose proof (secant_inside xl xh yl yh Hlh Hs) as Hsec.
  set (xs := (xl * yh - xh * yl) / (yh - yl)) in *.
  set (xm := (xl + xh) / Rlit 20 (-1)) in *.
  assert (Hin_xm : xl + Rlit 1 (-1) * (xh - xl) <= xm <= xh - Rlit 1 (-1) * (xh - xl)) by (unfold xm; Rlit_norm; lra).
  destruct (Rlt_dec xs (xl + Rlit 1 (-1) * (xh - xl))) as [Hlo1 | Hlo1].
  { exists xm. split; [exact Hin_xm|]. split.
      - intro Hc. destruct Hsg as [[? ?] | [? ?]]; unfold xs, xm in *; drive; reflexivity.
      - intro Hc. destruct (Rle_dec 0 (I xm * yl)) as [Hp | Hn].
        + exists xm, xh, (I xm), yh. split; [destruct Hsg as [[? ?] | [? ?]]; unfold xs, xm in *; drive; reflexivity |].
          repeat split; try lra; destruct (Hin_xm) as [A B]; Rlit_norm_all; lra.
        + assert (Hn' : I xm * yl < 0) by lra.
          exists xl, xm, yl, (I xm). split; [destruct Hsg as [[? ?] | [? ?]]; unfold xs, xm in *; drive; reflexivity |].
          repeat split; try lra; destruct (Hin_xm) as [A B]; Rlit_norm_all; lra. }
  destruct (Rlt_dec (xh - Rlit 1 (-1) * (xh - xl)) xs) as [Hhi1 | Hhi1].
  { exists xm. split; [exact Hin_xm|]. split.
      - intro Hc. destruct Hsg as [[? ?] | [? ?]]; unfold xs, xm in *; drive; reflexivity.
      - intro Hc. destruct (Rle_dec 0 (I xm * yl)) as [Hp | Hn].
        + exists xm, xh, (I xm), yh. split; [destruct Hsg as [[? ?] | [? ?]]; unfold xs, xm in *; drive; reflexivity |].
          repeat split; try lra; destruct (Hin_xm) as [A B]; Rlit_norm_all; lra.
        + assert (Hn' : I xm * yl < 0) by lra.
          exists xl, xm, yl, (I xm). split; [destruct Hsg as [[? ?] | [? ?]]; unfold xs, xm in *; drive; reflexivity |].
          repeat split; try lra; destruct (Hin_xm) as [A B]; Rlit_norm_all; lra. }
  assert (Hin_xs : xl + Rlit 1 (-1) * (xh - xl) <= xs <= xh - Rlit 1 (-1) * (xh - xl)) by lra.
  exists xs. split; [exact Hin_xs|]. split.
      - intro Hc. destruct Hsg as [[? ?] | [? ?]]; unfold xs, xm in *; drive; reflexivity.
      - intro Hc. destruct (Rle_dec 0 (I xs * yl)) as [Hp | Hn].
        + exists xs, xh, (I xs), yh. split; [destruct Hsg as [[? ?] | [? ?]]; unfold xs, xm in *; drive; reflexivity |].
          repeat split; try lra; destruct (Hin_xs) as [A B]; Rlit_norm_all; lra.
        + assert (Hn' : I xs * yl < 0) by lra.
          exists xl, xs, yl, (I xs). split; [destruct Hsg as [[? ?] | [? ?]]; unfold xs, xm in *; drive; reflexivity |].
          repeat split; try lra; destruct (Hin_xs) as [A B]; Rlit_norm_all; lra.
Qed.

Lemma loop_good a b mi : forall fuel ni x xh xl y yh yl yp,
  (Z.max 0 (mi - ni) < Z.of_nat fuel)%Z ->
  a <= xl -> xl <= xh -> xh <= b -> xl <= x <= xh -> y = I x -> (tol < Rabs y -> yl * yh < 0) ->
  good a b (root_loop self (VInt mi) fuel (VInt ni) (VFloat x) (VFloat xh) (VFloat xl)
                      (VFloat y) (VFloat yh) (VFloat yl) yp).
Proof.
  induction fuel as [| fuel IH]; intros ni x xh xl y yh yl yp Hfu Ha Hlh Hb Hx Hy Hs.
  - exfalso. simpl in Hfu. lia.
  - destruct (Rle_dec (Rabs y) tol) as [Hex | Hgo].
    + (* loop exit: the current x is returned *)
      assert (E : root_loop self (VInt mi) (S fuel) (VInt ni) (VFloat x) (VFloat xh) (VFloat xl)
                    (VFloat y) (VFloat yh) (VFloat yl) yp = VFloat x) by (drive; reflexivity).
      rewrite E. simpl. subst y. split; [lra | exact Hex].
    + assert (Hgt : tol < Rabs y) by lra. specialize (Hs Hgt).
      assert (Hsg : (yl < 0 /\ 0 < yh) \/ (0 < yl /\ yh < 0)).
      { destruct (Req_dec yl 0) as [E0 | N0]; [rewrite E0 in Hs; lra |].
        destruct (Rlt_dec yl 0); [left | right]; split; try lra; nra. }
      destruct (Z.geb ni mi) eqn:Hge.
      { assert (E : root_loop self (VInt mi) (S fuel) (VInt ni) (VFloat x) (VFloat xh) (VFloat xl)
                      (VFloat y) (VFloat yh) (VFloat yl) yp = VErr ValueError) by (drive; reflexivity).
        rewrite E. reflexivity. }
      assert (Hfu' : (Z.max 0 (mi - (ni + 1)) < Z.of_nat fuel)%Z).
      { rewrite Z.geb_leb in Hge. apply Z.leb_gt in Hge. rewrite Nat2Z.inj_succ in Hfu. lia. }
      destruct (Hder x) as [Hd | Hd].
      2:{ assert (E : root_loop self (VInt mi) (S fuel) (VInt ni) (VFloat x) (VFloat xh) (VFloat xl)
                      (VFloat y) (VFloat yh) (VFloat yl) yp = VErr ValueError) by (drive; reflexivity).
          rewrite E. reflexivity. }
      pose proof (secant_inside xl xh yl yh Hlh Hs) as Hsec.
      set (xs := (xl * yh - xh * yl) / (yh - yl)) in *.
      (* what happens once the next abscissa xn (inside the bracket) has been chosen *)
      assert (Hnext : forall xn, xl <= xn <= xh ->
                (Interpolation___call__ Rops self (VFloat xn) = VErr ValueError ->
                   good a b (VErr ValueError)) /\
                (Interpolation___call__ Rops self (VFloat xn) = VFloat (I xn) ->
                   (0 <= I xn * yl ->
                      good a b (root_loop self (VInt mi) fuel (VInt (ni + 1)) (VFloat xn) (VFloat xh) (VFloat xn)
                                  (VFloat (I xn)) (VFloat yh) (VFloat (I xn)) (VFloat (D x)))) /\
                   (I xn * yl < 0 ->
                      good a b (root_loop self (VInt mi) fuel (VInt (ni + 1)) (VFloat xn) (VFloat xn) (VFloat xl)
                                  (VFloat (I xn)) (VFloat (I xn)) (VFloat yl) (VFloat (D x)))))).
      { intros xn Hxn. split; [intros; reflexivity | intros _; split; intro Hsign].
        - apply IH; try exact Hfu'; try lra. intros Hbig.
          assert (I xn <> 0) by (intro E0; rewrite E0, Rabs_R0 in Hbig; lra).
          destruct Hsg as [[? ?] | [? ?]]; nra.
        - apply IH; try exact Hfu'; lra. }
      set (xm := (xl + xh) / Rlit 20 (-1)) in *.
      assert (Hxm : xl <= xm <= xh) by (unfold xm; Rlit_norm; lra).
      destruct (Rlt_dec (Rabs (D x)) (Rlit 1 (-3))) as [Hflat | Hsteep].
      { (* derivative too small: secant point, or the midpoint when that lies in an outer tenth of the bracket *)
      destruct (Rlt_dec xs (xl + Rlit 1 (-1) * (xh - xl))) as [Hlo1 | Hlo1].
      { destruct (Hnext xm Hxm) as [Herr Hok].
        destruct (Hcall xm) as [Hc | Hc].
        2:{ assert (E : root_loop self (VInt mi) (S fuel) (VInt ni) (VFloat x) (VFloat xh) (VFloat xl)
                      (VFloat y) (VFloat yh) (VFloat yl) yp = VErr ValueError)
              by (destruct Hsg as [[? ?] | [? ?]]; unfold xs, xm in *; try unfold xn in *; drive; reflexivity).
            rewrite E. reflexivity. }
        destruct (Hok Hc) as [Hpos Hneg].
        destruct (Rle_dec 0 (I xm * yl)) as [Hp | Hn].
        - assert (E : root_loop self (VInt mi) (S fuel) (VInt ni) (VFloat x) (VFloat xh) (VFloat xl)
                      (VFloat y) (VFloat yh) (VFloat yl) yp
                    = root_loop self (VInt mi) fuel (VInt (ni + 1)) (VFloat xm) (VFloat xh) (VFloat xm)
                                  (VFloat (I xm)) (VFloat yh) (VFloat (I xm)) (VFloat (D x)))
              by (destruct Hsg as [[? ?] | [? ?]]; unfold xs, xm in *; try unfold xn in *; drive; reflexivity).
          rewrite E. exact (Hpos Hp).
        - assert (Hn' : I xm * yl < 0) by lra.
          assert (E : root_loop self (VInt mi) (S fuel) (VInt ni) (VFloat x) (VFloat xh) (VFloat xl)
                      (VFloat y) (VFloat yh) (VFloat yl) yp
                    = root_loop self (VInt mi) fuel (VInt (ni + 1)) (VFloat xm) (VFloat xm) (VFloat xl)
                                  (VFloat (I xm)) (VFloat (I xm)) (VFloat yl) (VFloat (D x)))
              by (destruct Hsg as [[? ?] | [? ?]]; unfold xs, xm in *; try unfold xn in *; drive; reflexivity).
          rewrite E. exact (Hneg Hn'). }
      destruct (Rlt_dec (xh - Rlit 1 (-1) * (xh - xl)) xs) as [Hhi1 | Hhi1].
      { destruct (Hnext xm Hxm) as [Herr Hok].
        destruct (Hcall xm) as [Hc | Hc].
        2:{ assert (E : root_loop self (VInt mi) (S fuel) (VInt ni) (VFloat x) (VFloat xh) (VFloat xl)
                      (VFloat y) (VFloat yh) (VFloat yl) yp = VErr ValueError)
              by (destruct Hsg as [[? ?] | [? ?]]; unfold xs, xm in *; try unfold xn in *; drive; reflexivity).
            rewrite E. reflexivity. }
        destruct (Hok Hc) as [Hpos Hneg].
        destruct (Rle_dec 0 (I xm * yl)) as [Hp | Hn].
        - assert (E : root_loop self (VInt mi) (S fuel) (VInt ni) (VFloat x) (VFloat xh) (VFloat xl)
                      (VFloat y) (VFloat yh) (VFloat yl) yp
                    = root_loop self (VInt mi) fuel (VInt (ni + 1)) (VFloat xm) (VFloat xh) (VFloat xm)
                                  (VFloat (I xm)) (VFloat yh) (VFloat (I xm)) (VFloat (D x)))
              by (destruct Hsg as [[? ?] | [? ?]]; unfold xs, xm in *; try unfold xn in *; drive; reflexivity).
          rewrite E. exact (Hpos Hp).
        - assert (Hn' : I xm * yl < 0) by lra.
          assert (E : root_loop self (VInt mi) (S fuel) (VInt ni) (VFloat x) (VFloat xh) (VFloat xl)
                      (VFloat y) (VFloat yh) (VFloat yl) yp
                    = root_loop self (VInt mi) fuel (VInt (ni + 1)) (VFloat xm) (VFloat xm) (VFloat xl)
                                  (VFloat (I xm)) (VFloat (I xm)) (VFloat yl) (VFloat (D x)))
              by (destruct Hsg as [[? ?] | [? ?]]; unfold xs, xm in *; try unfold xn in *; drive; reflexivity).
          rewrite E. exact (Hneg Hn'). }
      { destruct (Hnext xs Hsec) as [Herr Hok].
        destruct (Hcall xs) as [Hc | Hc].
        2:{ assert (E : root_loop self (VInt mi) (S fuel) (VInt ni) (VFloat x) (VFloat xh) (VFloat xl)
                      (VFloat y) (VFloat yh) (VFloat yl) yp = VErr ValueError)
              by (destruct Hsg as [[? ?] | [? ?]]; unfold xs, xm in *; try unfold xn in *; drive; reflexivity).
            rewrite E. reflexivity. }
        destruct (Hok Hc) as [Hpos Hneg].
        destruct (Rle_dec 0 (I xs * yl)) as [Hp | Hn].
        - assert (E : root_loop self (VInt mi) (S fuel) (VInt ni) (VFloat x) (VFloat xh) (VFloat xl)
                      (VFloat y) (VFloat yh) (VFloat yl) yp
                    = root_loop self (VInt mi) fuel (VInt (ni + 1)) (VFloat xs) (VFloat xh) (VFloat xs)
                                  (VFloat (I xs)) (VFloat yh) (VFloat (I xs)) (VFloat (D x)))
              by (destruct Hsg as [[? ?] | [? ?]]; unfold xs, xm in *; try unfold xn in *; drive; reflexivity).
          rewrite E. exact (Hpos Hp).
        - assert (Hn' : I xs * yl < 0) by lra.
          assert (E : root_loop self (VInt mi) (S fuel) (VInt ni) (VFloat x) (VFloat xh) (VFloat xl)
                      (VFloat y) (VFloat yh) (VFloat yl) yp
                    = root_loop self (VInt mi) fuel (VInt (ni + 1)) (VFloat xs) (VFloat xs) (VFloat xl)
                                  (VFloat (I xs)) (VFloat (I xs)) (VFloat yl) (VFloat (D x)))
              by (destruct Hsg as [[? ?] | [? ?]]; unfold xs, xm in *; try unfold xn in *; drive; reflexivity).
          rewrite E. exact (Hneg Hn'). } }
      (* Newton step *)
      assert (Hnz : D x <> 0).
      { intro E0. apply Hsteep. rewrite E0, Rabs_R0. Rlit_norm. lra. }
      set (xn := x - y / D x) in *.
      destruct (Rlt_dec xn xl) as [Hout1 | Hin1].
      { destruct (Rlt_dec xs (xl + Rlit 1 (-1) * (xh - xl))) as [Hlo1 | Hlo1].
      { destruct (Hnext xm Hxm) as [Herr Hok].
        destruct (Hcall xm) as [Hc | Hc].
        2:{ assert (E : root_loop self (VInt mi) (S fuel) (VInt ni) (VFloat x) (VFloat xh) (VFloat xl)
                      (VFloat y) (VFloat yh) (VFloat yl) yp = VErr ValueError)
              by (destruct Hsg as [[? ?] | [? ?]]; unfold xs, xm in *; try unfold xn in *; drive; reflexivity).
            rewrite E. reflexivity. }
        destruct (Hok Hc) as [Hpos Hneg].
        destruct (Rle_dec 0 (I xm * yl)) as [Hp | Hn].
        - assert (E : root_loop self (VInt mi) (S fuel) (VInt ni) (VFloat x) (VFloat xh) (VFloat xl)
                      (VFloat y) (VFloat yh) (VFloat yl) yp
                    = root_loop self (VInt mi) fuel (VInt (ni + 1)) (VFloat xm) (VFloat xh) (VFloat xm)
                                  (VFloat (I xm)) (VFloat yh) (VFloat (I xm)) (VFloat (D x)))
              by (destruct Hsg as [[? ?] | [? ?]]; unfold xs, xm in *; try unfold xn in *; drive; reflexivity).
          rewrite E. exact (Hpos Hp).
        - assert (Hn' : I xm * yl < 0) by lra.
          assert (E : root_loop self (VInt mi) (S fuel) (VInt ni) (VFloat x) (VFloat xh) (VFloat xl)
                      (VFloat y) (VFloat yh) (VFloat yl) yp
                    = root_loop self (VInt mi) fuel (VInt (ni + 1)) (VFloat xm) (VFloat xm) (VFloat xl)
                                  (VFloat (I xm)) (VFloat (I xm)) (VFloat yl) (VFloat (D x)))
              by (destruct Hsg as [[? ?] | [? ?]]; unfold xs, xm in *; try unfold xn in *; drive; reflexivity).
          rewrite E. exact (Hneg Hn'). }
      destruct (Rlt_dec (xh - Rlit 1 (-1) * (xh - xl)) xs) as [Hhi1 | Hhi1].
      { destruct (Hnext xm Hxm) as [Herr Hok].
        destruct (Hcall xm) as [Hc | Hc].
        2:{ assert (E : root_loop self (VInt mi) (S fuel) (VInt ni) (VFloat x) (VFloat xh) (VFloat xl)
                      (VFloat y) (VFloat yh) (VFloat yl) yp = VErr ValueError)
              by (destruct Hsg as [[? ?] | [? ?]]; unfold xs, xm in *; try unfold xn in *; drive; reflexivity).
            rewrite E. reflexivity. }
        destruct (Hok Hc) as [Hpos Hneg].
        destruct (Rle_dec 0 (I xm * yl)) as [Hp | Hn].
        - assert (E : root_loop self (VInt mi) (S fuel) (VInt ni) (VFloat x) (VFloat xh) (VFloat xl)
                      (VFloat y) (VFloat yh) (VFloat yl) yp
                    = root_loop self (VInt mi) fuel (VInt (ni + 1)) (VFloat xm) (VFloat xh) (VFloat xm)
                                  (VFloat (I xm)) (VFloat yh) (VFloat (I xm)) (VFloat (D x)))
              by (destruct Hsg as [[? ?] | [? ?]]; unfold xs, xm in *; try unfold xn in *; drive; reflexivity).
          rewrite E. exact (Hpos Hp).
        - assert (Hn' : I xm * yl < 0) by lra.
          assert (E : root_loop self (VInt mi) (S fuel) (VInt ni) (VFloat x) (VFloat xh) (VFloat xl)
                      (VFloat y) (VFloat yh) (VFloat yl) yp
                    = root_loop self (VInt mi) fuel (VInt (ni + 1)) (VFloat xm) (VFloat xm) (VFloat xl)
                                  (VFloat (I xm)) (VFloat (I xm)) (VFloat yl) (VFloat (D x)))
              by (destruct Hsg as [[? ?] | [? ?]]; unfold xs, xm in *; try unfold xn in *; drive; reflexivity).
          rewrite E. exact (Hneg Hn'). }
      { destruct (Hnext xs Hsec) as [Herr Hok].
        destruct (Hcall xs) as [Hc | Hc].
        2:{ assert (E : root_loop self (VInt mi) (S fuel) (VInt ni) (VFloat x) (VFloat xh) (VFloat xl)
                      (VFloat y) (VFloat yh) (VFloat yl) yp = VErr ValueError)
              by (destruct Hsg as [[? ?] | [? ?]]; unfold xs, xm in *; try unfold xn in *; drive; reflexivity).
            rewrite E. reflexivity. }
        destruct (Hok Hc) as [Hpos Hneg].
        destruct (Rle_dec 0 (I xs * yl)) as [Hp | Hn].
        - assert (E : root_loop self (VInt mi) (S fuel) (VInt ni) (VFloat x) (VFloat xh) (VFloat xl)
                      (VFloat y) (VFloat yh) (VFloat yl) yp
                    = root_loop self (VInt mi) fuel (VInt (ni + 1)) (VFloat xs) (VFloat xh) (VFloat xs)
                                  (VFloat (I xs)) (VFloat yh) (VFloat (I xs)) (VFloat (D x)))
              by (destruct Hsg as [[? ?] | [? ?]]; unfold xs, xm in *; try unfold xn in *; drive; reflexivity).
          rewrite E. exact (Hpos Hp).
        - assert (Hn' : I xs * yl < 0) by lra.
          assert (E : root_loop self (VInt mi) (S fuel) (VInt ni) (VFloat x) (VFloat xh) (VFloat xl)
                      (VFloat y) (VFloat yh) (VFloat yl) yp
                    = root_loop self (VInt mi) fuel (VInt (ni + 1)) (VFloat xs) (VFloat xs) (VFloat xl)
                                  (VFloat (I xs)) (VFloat (I xs)) (VFloat yl) (VFloat (D x)))
              by (destruct Hsg as [[? ?] | [? ?]]; unfold xs, xm in *; try unfold xn in *; drive; reflexivity).
          rewrite E. exact (Hneg Hn'). } }
      destruct (Rlt_dec xh xn) as [Hout2 | Hin2].
      { destruct (Rlt_dec xs (xl + Rlit 1 (-1) * (xh - xl))) as [Hlo1 | Hlo1].
      { destruct (Hnext xm Hxm) as [Herr Hok].
        destruct (Hcall xm) as [Hc | Hc].
        2:{ assert (E : root_loop self (VInt mi) (S fuel) (VInt ni) (VFloat x) (VFloat xh) (VFloat xl)
                      (VFloat y) (VFloat yh) (VFloat yl) yp = VErr ValueError)
              by (destruct Hsg as [[? ?] | [? ?]]; unfold xs, xm in *; try unfold xn in *; drive; reflexivity).
            rewrite E. reflexivity. }
        destruct (Hok Hc) as [Hpos Hneg].
        destruct (Rle_dec 0 (I xm * yl)) as [Hp | Hn].
        - assert (E : root_loop self (VInt mi) (S fuel) (VInt ni) (VFloat x) (VFloat xh) (VFloat xl)
                      (VFloat y) (VFloat yh) (VFloat yl) yp
                    = root_loop self (VInt mi) fuel (VInt (ni + 1)) (VFloat xm) (VFloat xh) (VFloat xm)
                                  (VFloat (I xm)) (VFloat yh) (VFloat (I xm)) (VFloat (D x)))
              by (destruct Hsg as [[? ?] | [? ?]]; unfold xs, xm in *; try unfold xn in *; drive; reflexivity).
          rewrite E. exact (Hpos Hp).
        - assert (Hn' : I xm * yl < 0) by lra.
          assert (E : root_loop self (VInt mi) (S fuel) (VInt ni) (VFloat x) (VFloat xh) (VFloat xl)
                      (VFloat y) (VFloat yh) (VFloat yl) yp
                    = root_loop self (VInt mi) fuel (VInt (ni + 1)) (VFloat xm) (VFloat xm) (VFloat xl)
                                  (VFloat (I xm)) (VFloat (I xm)) (VFloat yl) (VFloat (D x)))
              by (destruct Hsg as [[? ?] | [? ?]]; unfold xs, xm in *; try unfold xn in *; drive; reflexivity).
          rewrite E. exact (Hneg Hn'). }
      destruct (Rlt_dec (xh - Rlit 1 (-1) * (xh - xl)) xs) as [Hhi1 | Hhi1].
      { destruct (Hnext xm Hxm) as [Herr Hok].
        destruct (Hcall xm) as [Hc | Hc].
        2:{ assert (E : root_loop self (VInt mi) (S fuel) (VInt ni) (VFloat x) (VFloat xh) (VFloat xl)
                      (VFloat y) (VFloat yh) (VFloat yl) yp = VErr ValueError)
              by (destruct Hsg as [[? ?] | [? ?]]; unfold xs, xm in *; try unfold xn in *; drive; reflexivity).
            rewrite E. reflexivity. }
        destruct (Hok Hc) as [Hpos Hneg].
        destruct (Rle_dec 0 (I xm * yl)) as [Hp | Hn].
        - assert (E : root_loop self (VInt mi) (S fuel) (VInt ni) (VFloat x) (VFloat xh) (VFloat xl)
                      (VFloat y) (VFloat yh) (VFloat yl) yp
                    = root_loop self (VInt mi) fuel (VInt (ni + 1)) (VFloat xm) (VFloat xh) (VFloat xm)
                                  (VFloat (I xm)) (VFloat yh) (VFloat (I xm)) (VFloat (D x)))
              by (destruct Hsg as [[? ?] | [? ?]]; unfold xs, xm in *; try unfold xn in *; drive; reflexivity).
          rewrite E. exact (Hpos Hp).
        - assert (Hn' : I xm * yl < 0) by lra.
          assert (E : root_loop self (VInt mi) (S fuel) (VInt ni) (VFloat x) (VFloat xh) (VFloat xl)
                      (VFloat y) (VFloat yh) (VFloat yl) yp
                    = root_loop self (VInt mi) fuel (VInt (ni + 1)) (VFloat xm) (VFloat xm) (VFloat xl)
                                  (VFloat (I xm)) (VFloat (I xm)) (VFloat yl) (VFloat (D x)))
              by (destruct Hsg as [[? ?] | [? ?]]; unfold xs, xm in *; try unfold xn in *; drive; reflexivity).
          rewrite E. exact (Hneg Hn'). }
      { destruct (Hnext xs Hsec) as [Herr Hok].
        destruct (Hcall xs) as [Hc | Hc].
        2:{ assert (E : root_loop self (VInt mi) (S fuel) (VInt ni) (VFloat x) (VFloat xh) (VFloat xl)
                      (VFloat y) (VFloat yh) (VFloat yl) yp = VErr ValueError)
              by (destruct Hsg as [[? ?] | [? ?]]; unfold xs, xm in *; try unfold xn in *; drive; reflexivity).
            rewrite E. reflexivity. }
        destruct (Hok Hc) as [Hpos Hneg].
        destruct (Rle_dec 0 (I xs * yl)) as [Hp | Hn].
        - assert (E : root_loop self (VInt mi) (S fuel) (VInt ni) (VFloat x) (VFloat xh) (VFloat xl)
                      (VFloat y) (VFloat yh) (VFloat yl) yp
                    = root_loop self (VInt mi) fuel (VInt (ni + 1)) (VFloat xs) (VFloat xh) (VFloat xs)
                                  (VFloat (I xs)) (VFloat yh) (VFloat (I xs)) (VFloat (D x)))
              by (destruct Hsg as [[? ?] | [? ?]]; unfold xs, xm in *; try unfold xn in *; drive; reflexivity).
          rewrite E. exact (Hpos Hp).
        - assert (Hn' : I xs * yl < 0) by lra.
          assert (E : root_loop self (VInt mi) (S fuel) (VInt ni) (VFloat x) (VFloat xh) (VFloat xl)
                      (VFloat y) (VFloat yh) (VFloat yl) yp
                    = root_loop self (VInt mi) fuel (VInt (ni + 1)) (VFloat xs) (VFloat xs) (VFloat xl)
                                  (VFloat (I xs)) (VFloat (I xs)) (VFloat yl) (VFloat (D x)))
              by (destruct Hsg as [[? ?] | [? ?]]; unfold xs, xm in *; try unfold xn in *; drive; reflexivity).
          rewrite E. exact (Hneg Hn'). } }
      assert (Hxn : xl <= xn <= xh) by lra.
      { destruct (Hnext xn Hxn) as [Herr Hok].
        destruct (Hcall xn) as [Hc | Hc].
        2:{ assert (E : root_loop self (VInt mi) (S fuel) (VInt ni) (VFloat x) (VFloat xh) (VFloat xl)
                      (VFloat y) (VFloat yh) (VFloat yl) yp = VErr ValueError)
              by (destruct Hsg as [[? ?] | [? ?]]; unfold xs, xm in *; try unfold xn in *; drive; reflexivity).
            rewrite E. reflexivity. }
        destruct (Hok Hc) as [Hpos Hneg].
        destruct (Rle_dec 0 (I xn * yl)) as [Hp | Hn].
        - assert (E : root_loop self (VInt mi) (S fuel) (VInt ni) (VFloat x) (VFloat xh) (VFloat xl)
                      (VFloat y) (VFloat yh) (VFloat yl) yp
                    = root_loop self (VInt mi) fuel (VInt (ni + 1)) (VFloat xn) (VFloat xh) (VFloat xn)
                                  (VFloat (I xn)) (VFloat yh) (VFloat (I xn)) (VFloat (D x)))
              by (destruct Hsg as [[? ?] | [? ?]]; unfold xs, xm in *; try unfold xn in *; drive; reflexivity).
          rewrite E. exact (Hpos Hp).
        - assert (Hn' : I xn * yl < 0) by lra.
          assert (E : root_loop self (VInt mi) (S fuel) (VInt ni) (VFloat x) (VFloat xh) (VFloat xl)
                      (VFloat y) (VFloat yh) (VFloat yl) yp
                    = root_loop self (VInt mi) fuel (VInt (ni + 1)) (VFloat xn) (VFloat xn) (VFloat xl)
                                  (VFloat (I xn)) (VFloat (I xn)) (VFloat yl) (VFloat (D x)))
              by (destruct Hsg as [[? ?] | [? ?]]; unfold xs, xm in *; try unfold xn in *; drive; reflexivity).
          rewrite E. exact (Hneg Hn'). }
Qed.

(* ---- the whole method: limits in any order, in or out of the table ---- *)
Variables (xmin xmax : R).
Hypothesis Hx0 : py_getitem Rops (get_field cInterpolation 0 self) (VInt 0) = VFloat xmin.
Hypothesis Hx1 : py_getitem Rops (get_field cInterpolation 0 self) (VInt (-1)) = VFloat xmax.

Ltac step :=
  match goal with
  | |- good _ _ ?t => let E := fresh "E" in eassert (E : t = _) by (drive; reflexivity); rewrite E; clear E
  | |- _ -> good _ _ ?t => let E := fresh "E" in eassert (E : t = _) by (drive; reflexivity); rewrite E; clear E
  end.

Ltac fold_loop mi :=
  match goal with |- context [?L loop_fuel] =>
    let E := fresh "E" in
    assert (E : L = root_loop self (VInt mi)) by reflexivity; rewrite E; clear E
  end.

(* the model's loop fuel (5000) is never exhausted when max_iter < 5000: every pass increments num_iter *)
Lemma fuel_enough mi : (0 <= mi < 5000)%Z -> (Z.max 0 (mi - 0) < Z.of_nat loop_fuel)%Z.
Proof. intro H. replace (Z.of_nat loop_fuel) with 5000%Z by (vm_compute; reflexivity). lia. Qed.
Ltac fuel_ok := apply fuel_enough; assumption.

Lemma big_nonzero v : 0 <= tol -> ~ Rabs v < tol -> 0 < tol -> v <> 0.
Proof. intros _ H Hp E. apply H. rewrite E, Rabs_R0. exact Hp. Qed.
Lemma opposite_signs u v : u <> 0 -> v <> 0 -> ~ 0 < u * v -> u * v < 0.
Proof. intros Hu Hv H. assert (u * v <> 0) by (apply Rmult_integral_contrapositive; tauto). lra. Qed.

(* from the first __call__ on: goal [good lo hi (Let yl_ := __call__ self lo in ...)], context lo <= hi, 0 < tol *)
Ltac tail_tac lo hi :=
  norm_args;
  destruct (Hcall lo) as [? | ?]; known; [| rewrite bind_err; reflexivity];
  destruct (Hcall hi) as [? | ?];
  [| step; reflexivity];
  destruct (Rlt_dec (Rabs (I lo)) tol);
  [ step; simpl; split; lra |];
  destruct (Rlt_dec (Rabs (I hi)) tol);
  [ step; simpl; split; lra |];
  destruct (Rlt_dec 0 (I lo * I hi));
  [ step; reflexivity |];
  destruct (Hcall ((lo + hi) / Rlit 20 (-1))) as [? | ?];
  [| step; reflexivity];
  step;
  apply loop_good; try (Rlit_norm; lra); try fuel_ok;
  intros _; apply opposite_signs; try assumption; apply big_nonzero; assumption.

(* limits inside the table, in order *)
Theorem root_in_table xl xh mi : (0 <= mi < 5000)%Z -> xl <> 0 -> xl + tol <= xh -> xmin <= xl -> xh <= xmax -> 0 < tol ->
  good xl xh (Interpolation_root Rops self (VFloat xl) (VFloat xh) (VInt mi)).
Proof.
  intros Hmi N0 Hd Hlo Hhi Htp.
  step. fold_loop mi.
  tail_tac xl xh.
Qed.

(* lower limit exactly 0 (only then is (0, 0) not the default): limits in the table *)
Theorem root_in_table_zero xh mi : (0 <= mi < 5000)%Z -> xh <> 0 -> 0 + tol <= xh -> xmin <= 0 -> xh <= xmax -> 0 < tol ->
  good 0 xh (Interpolation_root Rops self (VFloat 0) (VFloat xh) (VInt mi)).
Proof.
  intros Hmi N0 Hd Hlo Hhi Htp.
  step. fold_loop mi.
  tail_tac 0 xh.
Qed.

(* limits reversed and both outside the table: the whole table is searched *)
Theorem root_reversed_outside xl xh mi : (0 <= mi < 5000)%Z -> xh < xmin -> xmax < xl -> xl <> 0 -> xmin + tol <= xmax -> 0 < tol ->
  good xmin xmax (Interpolation_root Rops self (VFloat xl) (VFloat xh) (VInt mi)).
Proof.
  intros Hmi H1 H2 N0 Hd Htp.
  step. fold_loop mi.
  tail_tac xmin xmax.
Qed.

(* reversed limits inside the table *)
Theorem root_reversed xl xh mi : (0 <= mi < 5000)%Z -> xh + tol <= xl -> xmin <= xh -> xl <= xmax -> xl <> 0 -> 0 < tol ->
  good xh xl (Interpolation_root Rops self (VFloat xl) (VFloat xh) (VInt mi)).
Proof.
  intros Hmi Hd H1 H2 N0 Htp.
  step. fold_loop mi.
  tail_tac xh xl.
Qed.

(* upper limit inside, lower limit below the table *)
Theorem root_clamped_low xl xh mi : (0 <= mi < 5000)%Z -> xl < xmin -> xmin + tol <= xh -> xh <= xmax -> xl <> 0 -> 0 < tol ->
  good xmin xh (Interpolation_root Rops self (VFloat xl) (VFloat xh) (VInt mi)).
Proof.
  intros Hmi H1 Hd H2 N0 Htp.
  step. fold_loop mi.
  tail_tac xmin xh.
Qed.

(* default limits (0, 0): the whole table *)
Theorem root_default mi : (0 <= mi < 5000)%Z -> xmin + tol <= xmax -> 0 < tol ->
  good xmin xmax (Interpolation_root Rops self (VFloat 0) (VFloat 0) (VInt mi)).
Proof.
  intros Hmi Hd Htp.
  step. fold_loop mi.
  tail_tac xmin xmax.
Qed.

End Root.

(* one iteration, as a corollary usable on its own: the returned abscissa of ANY run lies in [a, b] *)
Check loop_good.
Check root_in_table.
