From Coq Require Import List Bool.
From Proofs.C12 Require Import C12_defs.
Lemma grid_5_ok : forallb chk_table grid_5 = true.
Proof. vm_cast_no_check (@eq_refl bool true). Qed.
