(* C12_set: Interpolation.set / __init__ with two lists of ANY length n (2..64), real-number instance. *)
From Coq Require Import Reals ZArith List Bool Lra Lia Arith String Permutation Sorted.
From PyLib Require Import PyVal PyBuiltins Ideal Whnf PyEval.
From Gen Require Import M_base M_Angle M_Interpolation.
From Proofs.C12 Require Import C12_gen C12_order.
Import ListNotations.
Open Scope R_scope.

Ltac2 Set Whnf.is_blocked as old := fun c =>
  Ltac2.Bool.or (old c) (Ltac2.List.exist (Ltac2.Constr.equal c)
    ['@py_slice; '@py_zip; '@Interpolation__order_points; '@Interpolation__compute_table]).

Lemma min_two_int (a b : Z) : py_min_seq Rops (VList [@VInt R a; VInt b]) = VInt (if (b <? a)%Z then b else a).
Proof.
  unfold py_min_seq, py_iter. change (bind (VList ?l) ?f) with (f (VList l)). cbv beta.
  unfold seq_of. cbv iota. simpl forallb. cbv iota. simpl fold_left. unfold num_ltb.
  change (num_lt Rops (VInt b) (VInt a)) with (@VBool R (b <? a)%Z).
  destruct (b <? a)%Z; reflexivity.
Qed.

Lemma slice_all (l : list (val R)) : py_slice (VList l) VNone (VInt (Z.of_nat (List.length l))) = VList l.
Proof.
  unfold py_slice. cbn [norm]. unfold clampi.
  assert (E1 : (Z.of_nat (List.length l) <? 0)%Z = false) by (apply Z.ltb_ge; lia).
  rewrite E1. cbv zeta.
  assert (E2 : (Z.of_nat (List.length l) <? Z.of_nat (List.length l))%Z = false) by (apply Z.ltb_irrefl).
  repeat rewrite ?E1, ?E2. cbn [Z.to_nat skipn]. rewrite Z.sub_0_r, Nat2Z.id, firstn_all. reflexivity.
Qed.

Ltac pyrunv_hook s tac ::=
  lazymatch s with
  | Z.of_nat (List.length (cons ?a (cons ?b nil))) => change (Z.of_nat (List.length (cons a (cons b nil)))) with 2%Z
  | py_getitem _ (VTuple [?a; ?b]) (VInt 0) => change (py_getitem Rops (VTuple [a; b]) (VInt 0)) with a
  | py_getitem _ (VTuple [?a; ?b]) (VInt 1) => change (py_getitem Rops (VTuple [a; b]) (VInt 1)) with b
  | py_min_seq _ (VList [VInt ?a; VInt ?b]) => rewrite (min_two_int a b)
  | py_max_seq _ (VList (map VFloat ?l)) => rewrite (max_flist l) by assumption
  | py_getitem _ (VList (map VFloat ?l)) (VInt (Z.of_nat ?i)) => rewrite (getitem_flist l i) by lia
  | context [get_field ?c ?i (VObj ?c' ?l)] =>
      let v := eval cbv [get_field cInterpolation Pos.eqb nth] in (get_field c i (VObj c' l)) in
      change (get_field c i (VObj c' l)) with v
  end.

(* ---- zip(x, y) of two float lists ---- *)
Definition pairv (p : R * R) : val R := VTuple [VFloat (fst p); VFloat (snd p)].
Lemma zip2_flist : forall a b : list R, zip2 (map (@VFloat R) a) (map VFloat b) = map pairv (combine a b).
Proof.
  induction a as [|x a IH]; intros b; [reflexivity|]. destruct b as [|y b]; [reflexivity|].
  simpl. rewrite IH. reflexivity.
Qed.
Lemma zip_flist (a b : list R) :
  py_iter (py_zip (VList (map VFloat a)) (VList (map VFloat b))) = VList (map pairv (combine a b)).
Proof.
  unfold py_zip, py_iter. change (bind (VList ?l) ?f) with (f (VList l)). cbv beta.
  change (bind (VList ?l) ?f) with (f (VList l)). cbv beta. unfold seq_of. rewrite zip2_flist. reflexivity.
Qed.

(* ---- the loop  for xval, yval in zip(x, y): self._x.append(xval); self._y.append(yval) ---- *)
Definition zipapp_fix (K : val R -> val R -> val R -> val R) :=
  fix loop (l : list (val R)) (self xv yv : val R) {struct l} : val R :=
    match l with
    | [] => K self xv yv
    | x29 :: l' =>
        bind (unpack 2 x29) (fun u =>
        bind (set_field cInterpolation 0 self (py_append (get_field cInterpolation 0 self) (item u 0))) (fun s0 =>
        bind VNone (fun _ =>
        bind (set_field cInterpolation 1 s0 (py_append (get_field cInterpolation 1 s0) (item u 1))) (fun s1 =>
        bind VNone (fun _ => loop l' s1 (item u 0) (item u 1))))))
    end.

Theorem zipapp_spec K (t tl : val R) : forall (ps : list (R * R)) (da db : list R) xv yv,
  exists xv' yv',
    zipapp_fix K (map pairv ps) (VObj cInterpolation [VList (map VFloat da); VList (map VFloat db); t; tl]) xv yv
    = K (VObj cInterpolation [VList (map VFloat (da ++ map fst ps)); VList (map VFloat (db ++ map snd ps)); t; tl]) xv' yv'.
Proof.
  induction ps as [|[a b] ps IH]; intros da db xv yv.
  - exists xv, yv. simpl. rewrite !app_nil_r. reflexivity.
  - destruct (IH (da ++ [a]) (db ++ [b]) (VFloat a) (VFloat b)) as (xv' & yv' & E).
    exists xv', yv'. simpl map. rewrite <- !app_assoc in E. simpl app in E. rewrite <- E.
    simpl zipapp_fix. rewrite !map_app. reflexivity.
Qed.

Lemma find_seq_spec' (P : nat -> bool) : forall r m,
  match find P (seq m r) with
  | Some j => (m <= j < m + r)%nat /\ P j = true /\ (forall j', (m <= j' < j)%nat -> P j' = false)
  | None => forall j, (m <= j < m + r)%nat -> P j = false
  end.
Proof.
  induction r as [|r IH]; intro m; simpl.
  - intros j Hj. lia.
  - destruct (P m) eqn:E.
    + split; [lia | split; [exact E | intros; lia]].
    + specialize (IH (S m)). destruct (find P (seq (S m) r)) as [j|].
      * destruct IH as (A & B & C). split; [lia | split; [exact B |]].
        intros j' Hj'. destruct (Nat.eq_dec j' m) as [-> | N]; [exact E | apply C; lia].
      * intros j Hj. destruct (Nat.eq_dec j m) as [-> | N]; [exact E | apply IH; lia].
Qed.

(* ---- the duplicate test:  for i in range(n-1): for k in range(i+1, n): if cond(i, k): raise ValueError ---- *)
Definition dup_fix (K : val R -> val R -> val R) (rng : val R -> val R) (cond : val R -> val R -> val R) :=
  fix loop6 (l8 : list (val R)) (i k : val R) {struct l8} : val R :=
    match l8 with
    | [] => K i k
    | x7 :: l8' =>
        bind (rng x7) (fun l120 =>
          scan_fix (fun k0 => loop6 l8' x7 k0) (cond x7) (fun _ => VErr ValueError) (seq_of l120) k)
    end.
Lemma dup_fix_cons K rng cond x7 l8' i k :
  dup_fix K rng cond (x7 :: l8') i k =
  bind (rng x7) (fun l120 =>
    scan_fix (fun k0 => dup_fix K rng cond l8' x7 k0) (cond x7) (fun _ => VErr ValueError) (seq_of l120) k).
Proof. reflexivity. Qed.

(* no pair is flagged: the loops fall through *)
Theorem dup_none K rng cond n :
  (forall i, (i < n)%nat -> rng (VInt (Z.of_nat i)) = VList (zrange_nat (Z.of_nat (S i)) (n - S i))) ->
  (forall i k, (i < k < n)%nat -> cond (VInt (Z.of_nat i)) (VInt (Z.of_nat k)) = VBool false) ->
  forall r m i k, (m + r <= n)%nat ->
  exists i' k', dup_fix K rng cond (zrange_nat (Z.of_nat m) r) i k = K i' k'.
Proof.
  intros Hr Hc. induction r as [|r IH]; intros m i k Hm.
  - exists i, k. reflexivity.
  - rewrite zrange_nat_S, dup_fix_cons. rewrite Hr by lia. rewrite bind_VList. cbv beta.
    change (seq_of (VList ?l)) with l.
    destruct (scan_none (fun k0 => dup_fix K rng cond (zrange_nat (Z.of_nat m + 1) r) (VInt (Z.of_nat m)) k0)
                (cond (VInt (Z.of_nat m))) (fun _ => VErr ValueError) (n - S m) (S m) k) as [k1 E].
    + intros j Hj. apply Hc. lia.
    + rewrite E. replace (Z.of_nat m + 1)%Z with (Z.of_nat (S m)) by lia. apply IH. lia.
Qed.

(* some pair is flagged: ValueError *)
Theorem dup_hit K rng cond n :
  (forall i, (i < n)%nat -> rng (VInt (Z.of_nat i)) = VList (zrange_nat (Z.of_nat (S i)) (n - S i))) ->
  (forall i k, (i < k < n)%nat -> exists b, cond (VInt (Z.of_nat i)) (VInt (Z.of_nat k)) = VBool b) ->
  forall r m i k, (m + r <= n)%nat ->
  (exists a b, (m <= a < m + r)%nat /\ (a < b < n)%nat /\ cond (VInt (Z.of_nat a)) (VInt (Z.of_nat b)) = VBool true) ->
  dup_fix K rng cond (zrange_nat (Z.of_nat m) r) i k = VErr ValueError.
Proof.
  intros Hr Hc. induction r as [|r IH]; intros m i k Hm (a & b & Ha & Hb & Hab); [lia|].
  rewrite zrange_nat_S, dup_fix_cons. rewrite Hr by lia. rewrite bind_VList. cbv beta.
  change (seq_of (VList ?l)) with l.
  (* does row m contain a flagged pair? *)
  set (P := fun j => match cond (VInt (Z.of_nat m)) (VInt (Z.of_nat j)) with VBool true => true | _ => false end).
  pose proof (find_seq_spec' P (n - S m) (S m)) as Sp.
  destruct (find P (seq (S m) (n - S m))) as [j|].
  - destruct Sp as (Hj & Pj & Hbefore).
    rewrite (scan_hit _ _ _ (n - S m) (S m) k j); [reflexivity | lia | |].
    + intros j' Hj'. specialize (Hbefore j' Hj'). unfold P in Hbefore.
      destruct (Hc m j' ltac:(lia)) as [bb Eb]. rewrite Eb in Hbefore. rewrite Eb. destruct bb; [discriminate | reflexivity].
    + unfold P in Pj. destruct (Hc m j ltac:(lia)) as [bb Eb]. rewrite Eb in Pj. rewrite Eb. destruct bb; [reflexivity | discriminate].
  - destruct (scan_none (fun k0 => dup_fix K rng cond (zrange_nat (Z.of_nat m + 1) r) (VInt (Z.of_nat m)) k0)
                (cond (VInt (Z.of_nat m))) (fun _ => VErr ValueError) (n - S m) (S m) k) as [k1 E].
    + intros j Hj. specialize (Sp j Hj). unfold P in Sp.
      destruct (Hc m j ltac:(lia)) as [bb Eb]. rewrite Eb in Sp. rewrite Eb. destruct bb; [discriminate | reflexivity].
    + rewrite E. replace (Z.of_nat m + 1)%Z with (Z.of_nat (S m)) by lia. apply IH; [lia|].
      exists a, b. split; [| split; assumption].
      destruct (Nat.eq_dec a m) as [-> | N]; [| lia].
      exfalso. specialize (Sp b ltac:(lia)). unfold P in Sp. rewrite Hab in Sp. discriminate.
Qed.

Lemma slice_all_t (l : list (val R)) : py_slice (VTuple l) VNone (VInt (Z.of_nat (List.length l))) = VTuple l.
Proof.
  unfold py_slice. cbn [norm]. unfold clampi.
  assert (E1 : (Z.of_nat (List.length l) <? 0)%Z = false) by (apply Z.ltb_ge; lia).
  rewrite E1. cbv zeta.
  assert (E2 : (Z.of_nat (List.length l) <? Z.of_nat (List.length l))%Z = false) by (apply Z.ltb_irrefl).
  repeat rewrite ?E1, ?E2. cbn [Z.to_nat skipn]. rewrite Z.sub_0_r, Nat2Z.id, firstn_all. reflexivity.
Qed.
Lemma zip_ftuple (a b : list R) :
  py_iter (py_zip (VTuple (map VFloat a)) (VTuple (map VFloat b))) = VList (map pairv (combine a b)).
Proof.
  unfold py_zip, py_iter. change (bind (VTuple ?l) ?f) with (f (VTuple l)). cbv beta.
  change (bind (VTuple ?l) ?f) with (f (VTuple l)). cbv beta. unfold seq_of. rewrite zip2_flist. reflexivity.
Qed.
Lemma bind_VTuple (l : list (val R)) (k : val R -> val R) : bind (VTuple l) k = k (VTuple l).
Proof. reflexivity. Qed.

Lemma map_fst_combine : forall a b : list R, List.length b = List.length a -> map fst (combine a b) = a.
Proof. induction a as [|x a IH]; intros [|y b] H; simpl in *; try reflexivity; try discriminate. f_equal. apply IH. lia. Qed.
Lemma map_snd_combine : forall a b : list R, List.length b = List.length a -> map snd (combine a b) = b.
Proof. induction a as [|x a IH]; intros [|y b] H; simpl in *; try reflexivity; try discriminate. f_equal. apply IH. lia. Qed.

Section SetAny.
Variables px py : list R.
Hypothesis Hlen : List.length py = List.length px.
Hypothesis Hn2 : (2 <= List.length px)%nat.
Definition blank : val R := VObj cInterpolation [VNone; VNone; VNone; VNone].
Notation S0 := (VObj cInterpolation [VList []; VList []; VList []; VFloat (Rlit 1 (-10))]).
Notation n := (List.length px).
Hypothesis Hsep : separated px.
Hypothesis H64 : (List.length px <= 64)%nat.

Lemma px_ne : px <> []. Proof. intro E. rewrite E in Hn2. simpl in Hn2. lia. Qed.

(* the part of set() in front of the duplicate test: dispatch on the two lists, slices, length test, zip loop,
   outer range; leaves  dup_fix K rng cond (zrange_nat 0 (n-1)) .. = ..  *)
Ltac set_prefix :=
  unfold Interpolation_set, flist;
  grun;
  rewrite bind_VList; cbv beta; rewrite bind_VList; cbv beta;
  match goal with |- bind ?e _ = _ =>
    let Em := fresh "Em" in
    assert (Em : e = VInt (Z.of_nat (List.length px)));
    [ simpl py_len; rewrite !map_length, Hlen; unfold mk_list; simpl;
      rewrite min_two_int, Z.ltb_irrefl; reflexivity
    | rewrite Em, bind_VInt; clear Em ] end;
  rewrite <- (map_length (@VFloat R) px) at 1; rewrite slice_all, bind_VList; cbv beta;
  rewrite <- Hlen; rewrite <- (map_length (@VFloat R) py) at 1; rewrite slice_all, bind_VList; cbv beta;
  match goal with |- ifv Rops ?c _ _ = _ =>
    let Ec2 := fresh "Ec2" in
    assert (Ec2 : c = VBool false);
    [ cbv -[Z.of_nat List.length List.map Z.ltb]; rewrite !map_length, Hlen;
      destruct (Z.ltb_spec (Z.of_nat (List.length px)) 2); [lia | reflexivity]
    | rewrite Ec2; clear Ec2 ] end;
  change (ifv Rops (VBool false) ?a ?b) with (b tt); cbv beta;
  rewrite zip_flist, bind_VList; cbv beta;
  match goal with |- context [seq_of (VList ?l)] => change (seq_of (VList l)) with l end;
  change S0 with (VObj cInterpolation [VList (map (@VFloat R) []); VList (map (@VFloat R) []); VList []; VFloat (Rlit 1 (-10))]);
  match goal with |- ?f _ _ _ _ = _ =>
     let g := open_constr:(zipapp_fix _) in unify f g; change f with g end;
  match goal with |- zipapp_fix ?KK _ _ ?xv ?yv = _ =>
    let E := fresh "E" in
    destruct (zipapp_spec KK (VList []) (VFloat (Rlit 1 (-10))) (combine px py) [] [] xv yv) as (? & ? & E);
    rewrite E; clear E end;
  cbv beta; simpl app;
  rewrite (map_fst_combine px py Hlen), (map_snd_combine px py Hlen);
  change ([] ++ px) with px; change ([] ++ py) with py;
  getf0;
  match goal with |- bind ?e _ = _ =>
    let Er := fresh "Er" in
    assert (Er : e = VList (zrange_nat 0 (List.length px - 1)));
    [ cbv -[Z.of_nat List.length List.map Z.sub Z.to_nat zrange_nat]; rewrite map_length;
      replace (Z.to_nat (Z.of_nat (List.length px) - 1 - 0)) with (List.length px - 1)%nat by lia; reflexivity
    | rewrite Er, bind_VList; clear Er ] end;
  cbv beta;
  match goal with |- context [seq_of (VList ?l)] => change (seq_of (VList l)) with l end;
  match goal with |- ?f _ _ _ = _ =>
     let g := open_constr:(dup_fix _ _ _) in unify f g; change f with g end.

Ltac set_prefix_t :=
  unfold Interpolation_set;
  grun;
  rewrite bind_VTuple; cbv beta; rewrite bind_VTuple; cbv beta;
  match goal with |- bind ?e _ = _ =>
    let Em := fresh "Em" in
    assert (Em : e = VInt (Z.of_nat (List.length px)));
    [ simpl py_len; rewrite !map_length, Hlen; unfold mk_list; simpl;
      rewrite min_two_int, Z.ltb_irrefl; reflexivity
    | rewrite Em, bind_VInt; clear Em ] end;
  rewrite <- (map_length (@VFloat R) px) at 1; rewrite slice_all_t, bind_VTuple; cbv beta;
  rewrite <- Hlen; rewrite <- (map_length (@VFloat R) py) at 1; rewrite slice_all_t, bind_VTuple; cbv beta;
  match goal with |- ifv Rops ?c _ _ = _ =>
    let Ec2 := fresh "Ec2" in
    assert (Ec2 : c = VBool false);
    [ cbv -[Z.of_nat List.length List.map Z.ltb]; rewrite !map_length, Hlen;
      destruct (Z.ltb_spec (Z.of_nat (List.length px)) 2); [lia | reflexivity]
    | rewrite Ec2; clear Ec2 ] end;
  change (ifv Rops (VBool false) ?a ?b) with (b tt); cbv beta;
  rewrite zip_ftuple, bind_VList; cbv beta;
  match goal with |- context [seq_of (VList ?l)] => change (seq_of (VList l)) with l end;
  change S0 with (VObj cInterpolation [VList (map (@VFloat R) []); VList (map (@VFloat R) []); VList []; VFloat (Rlit 1 (-10))]);
  match goal with |- ?f _ _ _ _ = _ =>
     let g := open_constr:(zipapp_fix _) in unify f g; change f with g end;
  match goal with |- zipapp_fix ?KK _ _ ?xv ?yv = _ =>
    let E := fresh "E" in
    destruct (zipapp_spec KK (VList []) (VFloat (Rlit 1 (-10))) (combine px py) [] [] xv yv) as (? & ? & E);
    rewrite E; clear E end;
  cbv beta; simpl app;
  rewrite (map_fst_combine px py Hlen), (map_snd_combine px py Hlen);
  change ([] ++ px) with px; change ([] ++ py) with py;
  getf0;
  match goal with |- bind ?e _ = _ =>
    let Er := fresh "Er" in
    assert (Er : e = VList (zrange_nat 0 (List.length px - 1)));
    [ cbv -[Z.of_nat List.length List.map Z.sub Z.to_nat zrange_nat]; rewrite map_length;
      replace (Z.to_nat (Z.of_nat (List.length px) - 1 - 0)) with (List.length px - 1)%nat by lia; reflexivity
    | rewrite Er, bind_VList; clear Er ] end;
  cbv beta;
  match goal with |- context [seq_of (VList ?l)] => change (seq_of (VList l)) with l end;
  match goal with |- ?f _ _ _ = _ =>
     let g := open_constr:(dup_fix _ _ _) in unify f g; change f with g end.

Theorem set_lists :
  Interpolation_set Rops S0 (VTuple [flist px; flist py]) = VTuple [built (sx px) (sy px py); VNone].
Proof.
  pose proof px_ne as Hne.
  destruct (stored_pipeline px py Hlen Hne Hsep H64) as (Eo & Ec & _).
  unfold built, tobj, flist, tol0 in Eo, Ec. unfold built, tobj.
  set_prefix.
  match goal with |- dup_fix ?KK ?rrng ?ccond _ ?ii ?kk = _ =>
    destruct (dup_none KK rrng ccond n) with (r := (n - 1)%nat) (m := 0%nat) (i := ii) (k := kk) as (i' & k' & E) end.
  - intros i Hi. cbv beta. cbv -[Z.of_nat List.length List.map Z.sub Z.add Z.to_nat zrange_nat]. rewrite map_length.
    replace (Z.of_nat i + 1)%Z with (Z.of_nat (S i)) by lia.
    replace (Z.to_nat (Z.of_nat n - Z.of_nat (S i))) with (n - S i)%nat by lia. reflexivity.
  - intros i k Hik. cbv beta.
    assert (HS : Rlit 1 (-10) <= Rabs (nthR px i - nthR px k)) by (apply (Hsep i k); lia).
    grun. rewrite (proj2 (Rltb_false _ _)) by exact HS. reflexivity.
  - lia.
  - change (Z.of_nat 0) with 0%Z in E. rewrite E. clear E. cbv beta.
    change (VFloat tol0) with (VFloat (Rlit 1 (-10))).
    change (map VFloat []) with (@nil (val R)) in Eo, Ec.
    rewrite Eo.
    change (bind (VTuple ?l) ?f) with (f (VTuple l)). cbv beta.
    repeat match goal with |- context [item (VTuple [?a; ?b]) 0] => change (item (VTuple [a; b]) 0) with a end.
    repeat match goal with |- context [item (VTuple [?a; ?b]) 1] => change (item (VTuple [a; b]) 1) with b end.
    rewrite bind_VNone. getf0.
    assert (Lsx : List.length (sx px) = n).
    { destruct (order_any px py (VList []) Hlen Hne (separated_NoDup px Hsep)) as (_ & _ & _ & L1 & _). exact L1. }
    match goal with |- ifv Rops ?c _ _ = _ => assert (Eg : c = VBool true) end.
    { cbv -[Z.of_nat List.length List.map Z.gtb sx]. rewrite map_length, Lsx.
      destruct (Z.gtb_spec (Z.of_nat n) 0); [reflexivity | lia]. }
    rewrite Eg. clear Eg. change (ifv Rops (VBool true) ?a ?b) with (a tt). cbv beta.
    rewrite Ec.
    change (bind (VTuple ?l) ?f) with (f (VTuple l)). cbv beta.
    repeat match goal with |- context [item (VTuple [?a; ?b]) 0] => change (item (VTuple [a; b]) 0) with a end.
    repeat match goal with |- context [item (VTuple [?a; ?b]) 1] => change (item (VTuple [a; b]) 1) with b end.
    rewrite bind_VNone. reflexivity.
Qed.
Theorem set_tuples :
  Interpolation_set Rops S0 (VTuple [VTuple (map VFloat px); VTuple (map VFloat py)]) = VTuple [built (sx px) (sy px py); VNone].
Proof.
  pose proof px_ne as Hne.
  destruct (stored_pipeline px py Hlen Hne Hsep H64) as (Eo & Ec & _).
  unfold built, tobj, flist, tol0 in Eo, Ec. unfold built, tobj.
  set_prefix_t.
  match goal with |- dup_fix ?KK ?rrng ?ccond _ ?ii ?kk = _ =>
    destruct (dup_none KK rrng ccond n) with (r := (n - 1)%nat) (m := 0%nat) (i := ii) (k := kk) as (i' & k' & E) end.
  - intros i Hi. cbv beta. cbv -[Z.of_nat List.length List.map Z.sub Z.add Z.to_nat zrange_nat]. rewrite map_length.
    replace (Z.of_nat i + 1)%Z with (Z.of_nat (S i)) by lia.
    replace (Z.to_nat (Z.of_nat n - Z.of_nat (S i))) with (n - S i)%nat by lia. reflexivity.
  - intros i k Hik. cbv beta.
    assert (HS : Rlit 1 (-10) <= Rabs (nthR px i - nthR px k)) by (apply (Hsep i k); lia).
    grun. rewrite (proj2 (Rltb_false _ _)) by exact HS. reflexivity.
  - lia.
  - change (Z.of_nat 0) with 0%Z in E. rewrite E. clear E. cbv beta.
    change (VFloat tol0) with (VFloat (Rlit 1 (-10))).
    change (map VFloat []) with (@nil (val R)) in Eo, Ec.
    rewrite Eo.
    change (bind (VTuple ?l) ?f) with (f (VTuple l)). cbv beta.
    repeat match goal with |- context [item (VTuple [?a; ?b]) 0] => change (item (VTuple [a; b]) 0) with a end.
    repeat match goal with |- context [item (VTuple [?a; ?b]) 1] => change (item (VTuple [a; b]) 1) with b end.
    rewrite bind_VNone. getf0.
    assert (Lsx : List.length (sx px) = n).
    { destruct (order_any px py (VList []) Hlen Hne (separated_NoDup px Hsep)) as (_ & _ & _ & L1 & _). exact L1. }
    match goal with |- ifv Rops ?c _ _ = _ => assert (Eg : c = VBool true) end.
    { cbv -[Z.of_nat List.length List.map Z.gtb sx]. rewrite map_length, Lsx.
      destruct (Z.gtb_spec (Z.of_nat n) 0); [reflexivity | lia]. }
    rewrite Eg. clear Eg. change (ifv Rops (VBool true) ?a ?b) with (a tt). cbv beta.
    rewrite Ec.
    change (bind (VTuple ?l) ?f) with (f (VTuple l)). cbv beta.
    repeat match goal with |- context [item (VTuple [?a; ?b]) 0] => change (item (VTuple [a; b]) 0) with a end.
    repeat match goal with |- context [item (VTuple [?a; ?b]) 1] => change (item (VTuple [a; b]) 1) with b end.
    rewrite bind_VNone. reflexivity.
Qed.
(* duplicated abscissae (some pair closer than tol), ANY n >= 2: ValueError *)
Theorem set_dups :
  (exists a b, (a < b < List.length px)%nat /\ Rabs (nthR px a - nthR px b) < Rlit 1 (-10)) ->
  Interpolation_set Rops S0 (VTuple [flist px; flist py]) = VErr ValueError.
Proof.
  intros (a & b & Hab & Hclose). clear Hsep H64.
  set_prefix.
  match goal with |- dup_fix ?KK ?rrng ?ccond _ ?ii ?kk = _ =>
    apply (dup_hit KK rrng ccond (List.length px)) with (r := (List.length px - 1)%nat) (m := 0%nat) end.
  - intros i Hi. cbv beta. cbv -[Z.of_nat List.length List.map Z.sub Z.add Z.to_nat zrange_nat]. rewrite map_length.
    replace (Z.of_nat i + 1)%Z with (Z.of_nat (S i)) by lia.
    replace (Z.to_nat (Z.of_nat (List.length px) - Z.of_nat (S i))) with (List.length px - S i)%nat by lia. reflexivity.
  - intros i k Hik. cbv beta. eexists.
    assert (Li : (i < List.length px)%nat) by lia. assert (Lk : (k < List.length px)%nat) by lia.
    grun. reflexivity.
  - lia.
  - exists a, b. split; [lia | split; [lia |]]. cbv beta.
    assert (La : (a < List.length px)%nat) by lia. assert (Lb : (b < List.length px)%nat) by lia.
    grun. rewrite (proj2 (Rltb_true _ _)) by exact Hclose. reflexivity.
Qed.
End SetAny.

(* ---- __init__ ---- *)
Lemma init_of_set (args r : val R) :
  Interpolation_set Rops (VObj cInterpolation [VList []; VList []; VList []; VFloat (Rlit 1 (-10))]) args = r ->
  (exists o, r = VTuple [o; VNone]) \/ (exists e, r = VErr e) ->
  forall l, args = VTuple l ->
  Interpolation___init__ Rops (VObj cInterpolation [VNone; VNone; VNone; VNone]) args
  = match r with VTuple [o; _] => o | _ => r end.
Proof.
  intros Hs Hr l ->. unfold Interpolation___init__.
  grun. change (py_tuple (VTuple l)) with (VTuple l). rewrite Hs.
  destruct Hr as [(o & ->) | (e & ->)].
  - change (bind (VTuple ?a) ?f) with (f (VTuple a)). cbv beta.
    change (item (VTuple [o; VNone]) 1) with (@VNone R). change (item (VTuple [o; VNone]) 0) with o.
    reflexivity.
  - reflexivity.
Qed.

Theorem init_lists (px py : list R) :
  List.length py = List.length px -> (2 <= List.length px <= 64)%nat -> separated px ->
  Interpolation___init__ Rops (VObj cInterpolation [VNone; VNone; VNone; VNone]) (VTuple [flist px; flist py])
  = built (sx px) (sy px py).
Proof.
  intros L Hn S.
  rewrite (init_of_set _ _ (set_lists px py L ltac:(lia) S ltac:(lia)) ltac:(left; eexists; reflexivity) _ eq_refl).
  reflexivity.
Qed.

Theorem init_dups (px py : list R) :
  List.length py = List.length px -> (2 <= List.length px)%nat ->
  (exists a b, (a < b < List.length px)%nat /\ Rabs (nthR px a - nthR px b) < Rlit 1 (-10)) ->
  Interpolation___init__ Rops (VObj cInterpolation [VNone; VNone; VNone; VNone]) (VTuple [flist px; flist py])
  = VErr ValueError.
Proof.
  intros L Hn Hd.
  rewrite (init_of_set _ _ (set_dups px py L Hn Hd) ltac:(right; eexists; reflexivity) _ eq_refl).
  reflexivity.
Qed.


(* the constructor does not depend on the order in which the points are supplied (two-list form, any n) *)
Theorem init_order_independent (px py px' py' : list R) :
  List.length py = List.length px -> List.length py' = List.length px' ->
  (2 <= List.length px <= 64)%nat -> separated px -> separated px' ->
  Permutation (combine px py) (combine px' py') ->
  Interpolation___init__ Rops (VObj cInterpolation [VNone; VNone; VNone; VNone]) (VTuple [flist px; flist py])
  = Interpolation___init__ Rops (VObj cInterpolation [VNone; VNone; VNone; VNone]) (VTuple [flist px'; flist py']).
Proof.
  intros L L' Hn S S' P.
  assert (Ln : List.length px' = List.length px).
  { apply Permutation_length in P. rewrite !combine_length, L, L' in P. rewrite !Nat.min_id in P. lia. }
  rewrite (init_lists px py L Hn S), (init_lists px' py' L' ltac:(lia) S').
  destruct (order_same_lists px py px' py' L L') as (A & B); try assumption.
  - intro E. rewrite E in Hn. simpl in Hn. lia.
  - intro E. rewrite E in Ln. simpl in Ln. lia.
  - apply separated_NoDup; exact S.
  - apply separated_NoDup; exact S'.
  - rewrite A, B. reflexivity.
Qed.

Ltac pyrunv_hook s tac ::=
  lazymatch s with
  | Z.of_nat (List.length (cons ?a nil)) => change (Z.of_nat (List.length (cons a nil))) with 1%Z
  | Z.of_nat (List.length (cons ?a (cons ?b nil))) => change (Z.of_nat (List.length (cons a (cons b nil)))) with 2%Z
  | py_getitem _ (VTuple [?a]) (VInt 0) => change (py_getitem Rops (VTuple [a]) (VInt 0)) with a
  | context [get_field ?c ?i (VObj ?c' ?l)] =>
      let v := eval cbv [get_field cInterpolation Pos.eqb nth] in (get_field c i (VObj c' l)) in
      change (get_field c i (VObj c' l)) with v
  end.

(* the copy constructor, ANY table: Interpolation(obj) has the fields of obj *)
Lemma set_copy (a b c : list R) (t : R) :
  Interpolation_set Rops (VObj cInterpolation [VList []; VList []; VList []; VFloat (Rlit 1 (-10))])
    (VTuple [VObj cInterpolation [flist a; flist b; flist c; VFloat t]])
  = VTuple [VObj cInterpolation [flist a; flist b; flist c; VFloat t]; VNone].
Proof.
  unfold Interpolation_set, flist.
  grun. bstep. bstep. bstep. bstep. reflexivity.
Qed.

Theorem init_copy (a b c : list R) (t : R) :
  Interpolation___init__ Rops (VObj cInterpolation [VNone; VNone; VNone; VNone])
    (VTuple [VObj cInterpolation [flist a; flist b; flist c; VFloat t]])
  = VObj cInterpolation [flist a; flist b; flist c; VFloat t].
Proof.
  rewrite (init_of_set _ _ (set_copy a b c t) ltac:(left; eexists; reflexivity) _ eq_refl). reflexivity.
Qed.

Theorem init_tuples (px py : list R) :
  List.length py = List.length px -> (2 <= List.length px <= 64)%nat -> separated px ->
  Interpolation___init__ Rops (VObj cInterpolation [VNone; VNone; VNone; VNone])
    (VTuple [VTuple (map VFloat px); VTuple (map VFloat py)])
  = built (sx px) (sy px py).
Proof.
  intros L Hn S.
  rewrite (init_of_set _ _ (set_tuples px py L ltac:(lia) S ltac:(lia)) ltac:(left; eexists; reflexivity) _ eq_refl).
  reflexivity.
Qed.

Fixpoint inter (a b : list R) : list (val R) :=
  match a, b with x :: a', y :: b' => VFloat x :: VFloat y :: inter a' b' | _, _ => [] end.
Lemma inter_nth_even : forall (a b : list R) i, List.length b = List.length a -> (i < List.length a)%nat ->
  nth_error (inter a b) (2 * i) = Some (VFloat (nthR a i)).
Proof.
  unfold nthR. induction a as [|x a IH]; intros b i H Hi; [simpl in Hi; lia|].
  destruct b as [|y b]; [discriminate|]. destruct i as [|i]; [reflexivity|].
  replace (2 * S i)%nat with (S (S (2 * i))) by lia. cbn [inter nth_error nth].
  apply IH; [simpl in H; lia | simpl in Hi; lia].
Qed.
Lemma inter_nth_odd : forall (a b : list R) i, List.length b = List.length a -> (i < List.length a)%nat ->
  nth_error (inter a b) (2 * i + 1) = Some (VFloat (nthR b i)).
Proof.
  unfold nthR. induction a as [|x a IH]; intros b i H Hi; [simpl in Hi; lia|].
  destruct b as [|y b]; [discriminate|]. destruct i as [|i]; [reflexivity|].
  replace (2 * S i + 1)%nat with (S (S (2 * i + 1))) by lia. cbn [inter nth_error nth].
  apply IH; [simpl in H; lia | simpl in Hi; lia].
Qed.
Lemma getitem_inter_even (a b : list R) i : List.length b = List.length a -> (i < List.length a)%nat ->
  py_getitem Rops (VTuple (inter a b)) (VInt (2 * Z.of_nat i)) = VFloat (nthR a i).
Proof.
  intros H Hi. replace (2 * Z.of_nat i)%Z with (Z.of_nat (2 * i)) by lia. simpl py_getitem.
  apply nth_val_nth. apply inter_nth_even; assumption.
Qed.
Lemma getitem_inter_odd (a b : list R) i : List.length b = List.length a -> (i < List.length a)%nat ->
  py_getitem Rops (VTuple (inter a b)) (VInt (2 * Z.of_nat i + 1)) = VFloat (nthR b i).
Proof.
  intros H Hi. replace (2 * Z.of_nat i + 1)%Z with (Z.of_nat (2 * i + 1)) by lia. simpl py_getitem.
  apply nth_val_nth. apply inter_nth_odd; assumption.
Qed.
Lemma inter_floats : forall a b : list R, Forall (fun v => exists r, v = @VFloat R r) (inter a b).
Proof.
  induction a as [|x a IH]; intros [|y b]; simpl; try constructor.
  - eexists; reflexivity.
  - constructor; [eexists; reflexivity | apply IH].
Qed.

Lemma Rtrunc_half' k : (0 <= k)%Z -> Rtrunc (IZR (2 * k) / Rlit 20 (-1)) = k.
Proof.
  intro Hk. replace (IZR (2 * k) / Rlit 20 (-1)) with (IZR k) by (rewrite mult_IZR; Rlit_norm; field).
  unfold Rtrunc. destruct (Rlt_dec (IZR k) 0) as [H | H]; [apply (IZR_le 0 k) in Hk; lra | apply Rfloor_IZR].
Qed.

(* all_numbers = all_numbers and isinstance(arg, (int, float, Angle)) over a list of floats *)
Definition alln_fix (K : val R -> val R -> val R) (tys : list tytag) :=
  fix loop (l : list (val R)) (alln arg : val R) {struct l} : val R :=
    match l with
    | [] => K alln arg
    | x :: l' => bind (py_and Rops alln (fun _ => isinstance x tys)) (fun a => loop l' a x)
    end.
Theorem alln_spec K : forall l arg, Forall (fun v => exists r, v = @VFloat R r) l ->
  exists arg', alln_fix K [TInt; TFloat; TCls cAngle] l (VBool true) arg = K (VBool true) arg'.
Proof.
  induction l as [|x l IH]; intros arg F.
  - exists arg. reflexivity.
  - inversion F as [|? ? (r & ->) F']; subst. destruct (IH (VFloat r) F') as [arg' E].
    exists arg'. rewrite <- E. reflexivity.
Qed.

(* for i in range(n): self._x.append(ga(i)); self._y.append(gb(i)) *)
Definition idxapp_fix (K : val R -> val R -> val R) (ga gb : val R -> val R) :=
  fix loop (l : list (val R)) (i self : val R) {struct l} : val R :=
    match l with
    | [] => K i self
    | x38 :: l' =>
        bind (set_field cInterpolation 0 self (py_append (get_field cInterpolation 0 self) (ga x38))) (fun s0 =>
        bind VNone (fun _ =>
        bind (set_field cInterpolation 1 s0 (py_append (get_field cInterpolation 1 s0) (gb x38))) (fun s1 =>
        bind VNone (fun _ => loop l' x38 s1))))
    end.
Lemma firstn_S_nth (l : list R) m : (m < List.length l)%nat -> firstn (S m) l = firstn m l ++ [nthR l m].
Proof.
  revert m. induction l as [|x l IH]; intros m H; [simpl in H; lia|].
  destruct m; [reflexivity|].
  change (firstn (S (S m)) (x :: l)) with (x :: firstn (S m) l).
  change (firstn (S m) (x :: l)) with (x :: firstn m l).
  change (nthR (x :: l) (S m)) with (nthR l m).
  rewrite IH by (simpl in H; lia). reflexivity.
Qed.
Theorem idxapp_spec K ga gb (a b : list R) (t tl : val R) :
  List.length b = List.length a ->
  (forall i, (i < List.length a)%nat -> ga (VInt (Z.of_nat i)) = VFloat (nthR a i)) ->
  (forall i, (i < List.length a)%nat -> gb (VInt (Z.of_nat i)) = VFloat (nthR b i)) ->
  forall r m i, (m + r <= List.length a)%nat ->
  exists i',
    idxapp_fix K ga gb (zrange_nat (Z.of_nat m) r) i
      (VObj cInterpolation [VList (map VFloat (firstn m a)); VList (map VFloat (firstn m b)); t; tl])
    = K i' (VObj cInterpolation [VList (map VFloat (firstn (m + r) a)); VList (map VFloat (firstn (m + r) b)); t; tl]).
Proof.
  intros L Ha Hb. induction r as [|r IH]; intros m i Hm.
  - exists i. rewrite Nat.add_0_r. reflexivity.
  - destruct (IH (S m) (VInt (Z.of_nat m)) ltac:(lia)) as [i' E]. exists i'.
    rewrite (firstn_S_nth a m) in E by lia. rewrite (firstn_S_nth b m) in E by lia. rewrite !map_app in E.
    rewrite zrange_nat_S. replace (m + S r)%nat with (S m + r)%nat by lia. rewrite <- E.
    replace (Z.of_nat m + 1)%Z with (Z.of_nat (S m)) by lia.
    simpl idxapp_fix. rewrite (Ha m) by lia. rewrite (Hb m) by lia. reflexivity.
Qed.

Ltac pyrunv_hook s tac ::=
  lazymatch s with
  | py_getitem _ (VTuple (inter ?a ?b)) (VInt (2 * Z.of_nat ?i)) => rewrite (getitem_inter_even a b i) by (first [assumption | lia])
  | py_getitem _ (VTuple (inter ?a ?b)) (VInt (2 * Z.of_nat ?i + 1)) => rewrite (getitem_inter_odd a b i) by (first [assumption | lia])
  | py_getitem _ (VList (map VFloat ?l)) (VInt (Z.of_nat ?i)) => rewrite (getitem_flist l i) by lia
  | context [get_field ?c ?i (VObj ?c' ?l)] =>
      let v := eval cbv [get_field cInterpolation Pos.eqb nth] in (get_field c i (VObj c' l)) in
      change (get_field c i (VObj c' l)) with v
  end.

Ltac set_tail px :=
  getf0;
  match goal with |- bind ?e _ = _ =>
    let Er := fresh "Er" in
    assert (Er : e = VList (zrange_nat 0 (List.length px - 1)));
    [ cbv -[Z.of_nat List.length List.map Z.sub Z.to_nat zrange_nat]; rewrite map_length;
      replace (Z.to_nat (Z.of_nat (List.length px) - 1 - 0)) with (List.length px - 1)%nat by lia; reflexivity
    | rewrite Er, bind_VList; clear Er ] end;
  cbv beta;
  match goal with |- context [seq_of (VList ?l)] => change (seq_of (VList l)) with l end;
  match goal with |- ?f _ _ _ = _ =>
     let g := open_constr:(dup_fix _ _ _) in unify f g; change f with g end.

Section Scal.
Variables px py : list R.
Hypothesis Hlen : List.length py = List.length px.
Hypothesis Hn2 : (2 <= List.length px)%nat.
Lemma inter_length : forall a b : list R, List.length b = List.length a -> List.length (inter a b) = (2 * List.length a)%nat.
Proof. induction a as [|x a IH]; intros [|y b] H; simpl in *; try reflexivity; try discriminate. rewrite IH by lia. lia. Qed.

Notation S0 := (VObj cInterpolation [VList []; VList []; VList []; VFloat (Rlit 1 (-10))]).
Ltac len_ne k :=
  match goal with |- context [?f Rops (py_len (VTuple (inter px py))) (VInt k)] =>
    let E := fresh "E" in
    assert (E : f Rops (py_len (VTuple (inter px py))) (VInt k) = VBool false);
    [ cbv -[Z.of_nat List.length inter Z.eqb]; rewrite (inter_length px py Hlen);
      destruct (Z.eqb_spec (Z.of_nat (2 * List.length px)) k); [lia | reflexivity]
    | rewrite E; clear E ] end.

Hypothesis Hsep : separated px.
Hypothesis H64 : (List.length px <= 64)%nat.
Notation n := (List.length px).

Theorem set_scalars :
  Interpolation_set Rops S0 (VTuple (inter px py)) = VTuple [built (sx px) (sy px py); VNone].
Proof.
  assert (Hne : px <> []) by (intro E; rewrite E in Hn2; simpl in Hn2; lia).
  destruct (stored_pipeline px py Hlen Hne Hsep H64) as (Eo & Ec & _).
  unfold built, tobj, flist, tol0 in Eo, Ec. unfold built, tobj.
  unfold Interpolation_set.
  len_ne 0%Z. len_ne 1%Z. len_ne 2%Z. len_ne 3%Z.
  grun.
  match goal with |- context [bind (base_eq Rops ?m (VInt 0)) ?k] =>
    assert (Emod : m = VInt 0) end.
  { cbv -[Z.of_nat List.length inter Z.modulo]. rewrite (inter_length px py Hlen), Nat2Z.inj_mul.
    rewrite Z.mul_comm, Z_mod_mult. reflexivity. }
  rewrite Emod. clear Emod.
  grun.
  change (py_iter (VTuple (inter px py))) with (VTuple (inter px py)). rewrite bind_VTuple. cbv beta.
  change (seq_of (VTuple (inter px py))) with (inter px py).
  match goal with |- ?f _ _ _ = _ =>
     let g := open_constr:(alln_fix _ _) in unify f g; change f with g end.
  match goal with |- alln_fix ?KK _ _ _ ?aa = _ =>
    destruct (alln_spec KK (inter px py) aa (inter_floats px py)) as [arg' E]; rewrite E; clear E end.
  cbv beta.
  grun.
  match goal with |- context [py_range (VInt 0) ?a] =>
    assert (Ei : a = VInt (Z.of_nat (List.length px))) end.
  { simpl py_len. rewrite (inter_length px py Hlen), Nat2Z.inj_mul. change (Z.of_nat 2) with 2%Z.
    grun. rewrite Rtrunc_half' by lia. reflexivity. }
  rewrite Ei. clear Ei.
  match goal with |- bind ?e _ = _ => assert (Er : e = VList (zrange_nat 0 (List.length px))) end.
  { unfold py_range. cbn [norm py_iter]. rewrite Z.sub_0_r, Nat2Z.id. reflexivity. }
  rewrite Er, bind_VList. clear Er. cbv beta.
  match goal with |- context [seq_of (VList ?l)] => change (seq_of (VList l)) with l end.
  match goal with |- ?f _ _ _ = _ =>
     let g := open_constr:(idxapp_fix _ _ _) in unify f g; change f with g end.
  change S0 with (VObj cInterpolation [VList (map (@VFloat R) (firstn 0 px)); VList (map (@VFloat R) (firstn 0 py)); VList []; VFloat (Rlit 1 (-10))]).
  match goal with |- idxapp_fix ?KK ?gga ?ggb _ ?ii _ = _ =>
    destruct (idxapp_spec KK gga ggb px py (VList []) (VFloat (Rlit 1 (-10))) Hlen) with (r := List.length px) (m := 0%nat) (i := ii) as [i1 E] end.
  { intros i Hi. cbv beta. grun. reflexivity. }
  { intros i Hi. cbv beta. grun. reflexivity. }
  { lia. }
  change (Z.of_nat 0) with 0%Z in E. rewrite E. clear E. cbv beta.
  rewrite Nat.add_0_l, firstn_all, (firstn_all2 py) by lia.
  set_tail px.
  match goal with |- dup_fix ?KK ?rrng ?ccond _ ?ii ?kk = _ =>
    destruct (dup_none KK rrng ccond n) with (r := (n - 1)%nat) (m := 0%nat) (i := ii) (k := kk) as (i' & k' & E) end.
  - intros i Hi. cbv beta. cbv -[Z.of_nat List.length List.map Z.sub Z.add Z.to_nat zrange_nat]. rewrite map_length.
    replace (Z.of_nat i + 1)%Z with (Z.of_nat (S i)) by lia.
    replace (Z.to_nat (Z.of_nat n - Z.of_nat (S i))) with (n - S i)%nat by lia. reflexivity.
  - intros i k Hik. cbv beta.
    assert (HS : Rlit 1 (-10) <= Rabs (nthR px i - nthR px k)) by (apply (Hsep i k); lia).
    grun. rewrite (proj2 (Rltb_false _ _)) by exact HS. reflexivity.
  - lia.
  - change (Z.of_nat 0) with 0%Z in E. rewrite E. clear E. cbv beta.
    change (VFloat tol0) with (VFloat (Rlit 1 (-10))).
    change (map VFloat []) with (@nil (val R)) in Eo, Ec.
    rewrite Eo.
    change (bind (VTuple ?l) ?f) with (f (VTuple l)). cbv beta.
    repeat match goal with |- context [item (VTuple [?a; ?b]) 0] => change (item (VTuple [a; b]) 0) with a end.
    repeat match goal with |- context [item (VTuple [?a; ?b]) 1] => change (item (VTuple [a; b]) 1) with b end.
    rewrite bind_VNone. getf0.
    assert (Lsx : List.length (sx px) = n).
    { destruct (order_any px py (VList []) Hlen Hne (separated_NoDup px Hsep)) as (_ & _ & _ & L1 & _). exact L1. }
    match goal with |- ifv Rops ?c _ _ = _ => assert (Eg : c = VBool true) end.
    { cbv -[Z.of_nat List.length List.map Z.gtb sx]. rewrite map_length, Lsx.
      destruct (Z.gtb_spec (Z.of_nat n) 0); [reflexivity | lia]. }
    rewrite Eg. clear Eg. change (ifv Rops (VBool true) ?a ?b) with (a tt). cbv beta.
    rewrite Ec.
    change (bind (VTuple ?l) ?f) with (f (VTuple l)). cbv beta.
    repeat match goal with |- context [item (VTuple [?a; ?b]) 0] => change (item (VTuple [a; b]) 0) with a end.
    repeat match goal with |- context [item (VTuple [?a; ?b]) 1] => change (item (VTuple [a; b]) 1) with b end.
    rewrite bind_VNone. reflexivity.
Qed.
End Scal.

Theorem init_scalars (px py : list R) :
  List.length py = List.length px -> (2 <= List.length px <= 64)%nat -> separated px ->
  Interpolation___init__ Rops (VObj cInterpolation [VNone; VNone; VNone; VNone]) (VTuple (inter px py))
  = built (sx px) (sy px py).
Proof.
  intros L Hn S.
  rewrite (init_of_set _ _ (set_scalars px py L ltac:(lia) S ltac:(lia)) ltac:(left; eexists; reflexivity) _ eq_refl).
  reflexivity.
Qed.
