(* C12_ctor3: the generated constructor on symbolic 3-point tables (real-number instance).
   init_* : for ANY 3 abscissae p (pairwise at least tol apart) and ordinates q, in each input form,
   Interpolation(...) is what _order_points and _compute_table make of the raw lists (one symbolic
   evaluation of Interpolation.set per form); order3_* : _order_points sorts every permutation of
   x1 < ... < x3 (ordinates follow); compute3 : _compute_table stores the divided differences. *)
From Coq Require Import Reals ZArith List Bool Lra Lia String.
From PyLib Require Import PyVal PyBuiltins Ideal Whnf PyEval.
From Gen Require Import M_base M_Angle M_Interpolation.
From Proofs.C12 Require Import C12_tac C12_nd C12_init3a C12_init3b C12_init3c C12_dup3.
Import ListNotations.
Open Scope R_scope.
Section Sorted3.
Variables x1 x2 x3 y1 y2 y3 : R.
Hypothesis H12 : x1 + tol0 <= x2.
Hypothesis H23 : x2 + tol0 <= x3.
Definition tab3 : list R := [y1; dd2 x1 x2 y1 y2; dd3 x1 x2 x3 y1 y2 y3].
Lemma compute3 : Interpolation__compute_table Rops (obj [x1; x2; x3] [y1; y2; y3] []) = VTuple [obj [x1; x2; x3] [y1; y2; y3] tab3; VNone].
Proof.
  assert (E0 : Interpolation__newton_diff Rops (obj [x1; x2; x3] [y1; y2; y3] []) (VInt 0) (VInt 0) = VFloat (y1))
    by (apply top3_0; try assumption; simpl; lia).
  assert (E1 : Interpolation__newton_diff Rops (obj [x1; x2; x3] [y1; y2; y3] [y1]) (VInt 0) (VInt 1) = VFloat (dd2 x1 x2 y1 y2))
    by (apply top3_1; try assumption; simpl; lia).
  assert (E2 : Interpolation__newton_diff Rops (obj [x1; x2; x3] [y1; y2; y3] [y1; dd2 x1 x2 y1 y2]) (VInt 0) (VInt 2) = VFloat (dd3 x1 x2 x3 y1 y2 y3))
    by (apply top3_2; try assumption; simpl; lia).
  unfold Interpolation__compute_table, tab3, obj, flist in *. cbn [map] in *. crun. reflexivity.
Qed.
Lemma order3_123 : Interpolation__order_points Rops (obj [x1; x2; x3] [y1; y2; y3] []) = VTuple [obj [x1; x2; x3] [y1; y2; y3] []; VNone].
Proof. unfold Interpolation__order_points, obj, flist. cbn [map]. crun. reflexivity. Qed.
Lemma order3_132 : Interpolation__order_points Rops (obj [x1; x3; x2] [y1; y3; y2] []) = VTuple [obj [x1; x2; x3] [y1; y2; y3] []; VNone].
Proof. unfold Interpolation__order_points, obj, flist. cbn [map]. crun. reflexivity. Qed.
Lemma order3_213 : Interpolation__order_points Rops (obj [x2; x1; x3] [y2; y1; y3] []) = VTuple [obj [x1; x2; x3] [y1; y2; y3] []; VNone].
Proof. unfold Interpolation__order_points, obj, flist. cbn [map]. crun. reflexivity. Qed.
Lemma order3_231 : Interpolation__order_points Rops (obj [x2; x3; x1] [y2; y3; y1] []) = VTuple [obj [x1; x2; x3] [y1; y2; y3] []; VNone].
Proof. unfold Interpolation__order_points, obj, flist. cbn [map]. crun. reflexivity. Qed.
Lemma order3_312 : Interpolation__order_points Rops (obj [x3; x1; x2] [y3; y1; y2] []) = VTuple [obj [x1; x2; x3] [y1; y2; y3] []; VNone].
Proof. unfold Interpolation__order_points, obj, flist. cbn [map]. crun. reflexivity. Qed.
Lemma order3_321 : Interpolation__order_points Rops (obj [x3; x2; x1] [y3; y2; y1] []) = VTuple [obj [x1; x2; x3] [y1; y2; y3] []; VNone].
Proof. unfold Interpolation__order_points, obj, flist. cbn [map]. crun. reflexivity. Qed.
Ltac dist := unfold tol0 in *; Rlit_norm_all; unfold Rabs; destruct (Rcase_abs _); lra.
Lemma ctor3_123 :
  Interpolation___init__ Rops blank (VTuple [flist [x1; x2; x3]; flist [y1; y2; y3]]) = obj [x1; x2; x3] [y1; y2; y3] tab3 /\
  Interpolation___init__ Rops blank (VTuple [VTuple (map VFloat [x1; x2; x3]); VTuple (map VFloat [y1; y2; y3])]) = obj [x1; x2; x3] [y1; y2; y3] tab3 /\
  Interpolation___init__ Rops blank (VTuple [VFloat x1; VFloat y1; VFloat x2; VFloat y2; VFloat x3; VFloat y3]) = obj [x1; x2; x3] [y1; y2; y3] tab3.
Proof.
  repeat split; [apply init3_lists | apply init3_tuples | apply init3_scalars]; try apply order3_123; try apply compute3; try assumption; dist.
Qed.
Lemma ctor3_132 :
  Interpolation___init__ Rops blank (VTuple [flist [x1; x3; x2]; flist [y1; y3; y2]]) = obj [x1; x2; x3] [y1; y2; y3] tab3 /\
  Interpolation___init__ Rops blank (VTuple [VTuple (map VFloat [x1; x3; x2]); VTuple (map VFloat [y1; y3; y2])]) = obj [x1; x2; x3] [y1; y2; y3] tab3 /\
  Interpolation___init__ Rops blank (VTuple [VFloat x1; VFloat y1; VFloat x3; VFloat y3; VFloat x2; VFloat y2]) = obj [x1; x2; x3] [y1; y2; y3] tab3.
Proof.
  repeat split; [apply init3_lists | apply init3_tuples | apply init3_scalars]; try apply order3_132; try apply compute3; try assumption; dist.
Qed.
Lemma ctor3_213 :
  Interpolation___init__ Rops blank (VTuple [flist [x2; x1; x3]; flist [y2; y1; y3]]) = obj [x1; x2; x3] [y1; y2; y3] tab3 /\
  Interpolation___init__ Rops blank (VTuple [VTuple (map VFloat [x2; x1; x3]); VTuple (map VFloat [y2; y1; y3])]) = obj [x1; x2; x3] [y1; y2; y3] tab3 /\
  Interpolation___init__ Rops blank (VTuple [VFloat x2; VFloat y2; VFloat x1; VFloat y1; VFloat x3; VFloat y3]) = obj [x1; x2; x3] [y1; y2; y3] tab3.
Proof.
  repeat split; [apply init3_lists | apply init3_tuples | apply init3_scalars]; try apply order3_213; try apply compute3; try assumption; dist.
Qed.
Lemma ctor3_231 :
  Interpolation___init__ Rops blank (VTuple [flist [x2; x3; x1]; flist [y2; y3; y1]]) = obj [x1; x2; x3] [y1; y2; y3] tab3 /\
  Interpolation___init__ Rops blank (VTuple [VTuple (map VFloat [x2; x3; x1]); VTuple (map VFloat [y2; y3; y1])]) = obj [x1; x2; x3] [y1; y2; y3] tab3 /\
  Interpolation___init__ Rops blank (VTuple [VFloat x2; VFloat y2; VFloat x3; VFloat y3; VFloat x1; VFloat y1]) = obj [x1; x2; x3] [y1; y2; y3] tab3.
Proof.
  repeat split; [apply init3_lists | apply init3_tuples | apply init3_scalars]; try apply order3_231; try apply compute3; try assumption; dist.
Qed.
Lemma ctor3_312 :
  Interpolation___init__ Rops blank (VTuple [flist [x3; x1; x2]; flist [y3; y1; y2]]) = obj [x1; x2; x3] [y1; y2; y3] tab3 /\
  Interpolation___init__ Rops blank (VTuple [VTuple (map VFloat [x3; x1; x2]); VTuple (map VFloat [y3; y1; y2])]) = obj [x1; x2; x3] [y1; y2; y3] tab3 /\
  Interpolation___init__ Rops blank (VTuple [VFloat x3; VFloat y3; VFloat x1; VFloat y1; VFloat x2; VFloat y2]) = obj [x1; x2; x3] [y1; y2; y3] tab3.
Proof.
  repeat split; [apply init3_lists | apply init3_tuples | apply init3_scalars]; try apply order3_312; try apply compute3; try assumption; dist.
Qed.
Lemma ctor3_321 :
  Interpolation___init__ Rops blank (VTuple [flist [x3; x2; x1]; flist [y3; y2; y1]]) = obj [x1; x2; x3] [y1; y2; y3] tab3 /\
  Interpolation___init__ Rops blank (VTuple [VTuple (map VFloat [x3; x2; x1]); VTuple (map VFloat [y3; y2; y1])]) = obj [x1; x2; x3] [y1; y2; y3] tab3 /\
  Interpolation___init__ Rops blank (VTuple [VFloat x3; VFloat y3; VFloat x2; VFloat y2; VFloat x1; VFloat y1]) = obj [x1; x2; x3] [y1; y2; y3] tab3.
Proof.
  repeat split; [apply init3_lists | apply init3_tuples | apply init3_scalars]; try apply order3_321; try apply compute3; try assumption; dist.
Qed.
Lemma ctor3_copy : Interpolation___init__ Rops blank (VTuple [obj [x1; x2; x3] [y1; y2; y3] tab3]) = obj [x1; x2; x3] [y1; y2; y3] tab3.
Proof. apply init3_copy. Qed.
End Sorted3.
