(* C12: duplicated abscissae are refused (three points) *)
From Coq Require Import Reals ZArith List Bool Lra Lia String.
From PyLib Require Import PyVal PyBuiltins Ideal Whnf PyEval.
From Gen Require Import M_base M_Angle M_Interpolation.
From Proofs.C12 Require Import C12_tac C12_nd.
Import ListNotations.
Open Scope R_scope.
Section Dups3.
Variables p1 p2 p3 q1 q2 q3 : R.
Ltac prep := unfold blank, obj, flist, tol0 in *; cbn [map] in *.
Lemma dup3_12 : Rabs (p1 - p2) < tol0 ->
  Interpolation___init__ Rops blank (VTuple [flist [p1; p2; p3]; flist [q1; q2; q3]]) = VErr ValueError.
Proof. intros. prep. crun. reflexivity. Qed.
Lemma dup3_13 : tol0 <= Rabs (p1 - p2) -> Rabs (p1 - p3) < tol0 ->
  Interpolation___init__ Rops blank (VTuple [flist [p1; p2; p3]; flist [q1; q2; q3]]) = VErr ValueError.
Proof. intros. prep. crun. reflexivity. Qed.
Lemma dup3_23 : tol0 <= Rabs (p1 - p2) -> tol0 <= Rabs (p1 - p3) -> Rabs (p2 - p3) < tol0 ->
  Interpolation___init__ Rops blank (VTuple [flist [p1; p2; p3]; flist [q1; q2; q3]]) = VErr ValueError.
Proof. intros. prep. crun. reflexivity. Qed.
Lemma dup3 : Rabs (p1 - p2) < tol0 \/ Rabs (p1 - p3) < tol0 \/ Rabs (p2 - p3) < tol0 ->
  Interpolation___init__ Rops blank (VTuple [flist [p1; p2; p3]; flist [q1; q2; q3]]) = VErr ValueError.
Proof.
  intros H.
  destruct (Rlt_dec (Rabs (p1 - p2)) tol0) as [C0 | C0]; [apply dup3_12; try assumption; lra |].
  destruct (Rlt_dec (Rabs (p1 - p3)) tol0) as [C1 | C1]; [apply dup3_13; try assumption; lra |].
  destruct (Rlt_dec (Rabs (p2 - p3)) tol0) as [C2 | C2]; [apply dup3_23; try assumption; lra |].
  exfalso. intuition lra.
Qed.
End Dups3.
