(* C02 shard: input forms grid, sampled years k = 0 .. 76 - by kernel computation (vm_compute checked at Qed) *)
From Coq Require Import ZArith NArith List Bool.
From PyLib Require Import Range.
From Proofs.C02 Require Import C02_defs.
Open Scope Z_scope.
Lemma shard : all_range 0 77%N (fun k => chk_forms_year (year_k k)) = true.
Proof. vm_cast_no_check (@eq_refl bool true). Qed.
