(* C02: symbolic lemmas about the generated operators and the argument dispatch of
   Epoch.set, valid in EVERY FloatOps instance (hence in the binary64 instance for all
   floats and in the ideal instance for all reals) and for ALL argument values.
   Proofs are by conversion only: the generated text reduces to the right-hand side. *)
From Coq Require Import ZArith NArith List Bool String Reals Lra PrimFloat.
From PyLib Require Import PyVal PyBuiltins B64 Ideal.
From Gen Require Import M_base M_Angle M_Epoch.
From Proofs.C02 Require Import C02_defs.
Import ListNotations.
Open Scope Z_scope.

Section Generic.
Context {F : Type} (fo : FloatOps F).
Notation val := (PyVal.val F).
(* base.TOL = 1e-10 *)
Definition tolv : F := f_lit fo 1 (-10) 0x1.b7cdfd9d7bdbbp-34%float.
Definition absdiff (a b : F) : F := f_abs fo (f_sub fo a b).

(* conversions under a tactic timeout: a changed operator makes the proof fail within seconds *)
Ltac rfl := timeout 30 reflexivity.
Ltac notb c := transitivity (py_not fo (VBool c)); [rfl | destruct c; rfl].

(* ---- comparisons: Epoch against Epoch / float / int / anything else ---- *)
Lemma lt_ee a b : Epoch___lt__ fo (epg a) (epg b) = VBool (f_ltb fo a b).
Proof. rfl. Qed.
Lemma gt_ee a b : Epoch___gt__ fo (epg a) (epg b) = VBool (f_ltb fo b a).
Proof. rfl. Qed.
Lemma ge_ee a b : Epoch___ge__ fo (epg a) (epg b) = VBool (negb (f_ltb fo a b)).
Proof. notb (f_ltb fo a b). Qed.
Lemma le_ee a b : Epoch___le__ fo (epg a) (epg b) = VBool (negb (f_ltb fo b a)).
Proof. notb (f_ltb fo b a). Qed.
Lemma eq_ee a b : Epoch___eq__ fo (epg a) (epg b) = VBool (f_ltb fo (absdiff a b) tolv).
Proof. rfl. Qed.
Lemma ne_ee a b : Epoch___ne__ fo (epg a) (epg b) = VBool (negb (f_ltb fo (absdiff a b) tolv)).
Proof. notb (f_ltb fo (absdiff a b) tolv). Qed.

Lemma lt_ef a b : Epoch___lt__ fo (epg a) (VFloat b) = VBool (f_ltb fo a b).
Proof. rfl. Qed.
Lemma gt_ef a b : Epoch___gt__ fo (epg a) (VFloat b) = VBool (f_ltb fo b a).
Proof. rfl. Qed.
Lemma ge_ef a b : Epoch___ge__ fo (epg a) (VFloat b) = VBool (negb (f_ltb fo a b)).
Proof. notb (f_ltb fo a b). Qed.
Lemma le_ef a b : Epoch___le__ fo (epg a) (VFloat b) = VBool (negb (f_ltb fo b a)).
Proof. notb (f_ltb fo b a). Qed.
Lemma eq_ef a b : Epoch___eq__ fo (epg a) (VFloat b) = VBool (f_ltb fo (absdiff a b) tolv).
Proof. rfl. Qed.
Lemma ne_ef a b : Epoch___ne__ fo (epg a) (VFloat b) = VBool (negb (f_ltb fo (absdiff a b) tolv)).
Proof. notb (f_ltb fo (absdiff a b) tolv). Qed.

Lemma lt_ei a n : Epoch___lt__ fo (epg a) (VInt n) = VBool (f_ltb fo a (f_of_Z fo n)).
Proof. rfl. Qed.
Lemma gt_ei a n : Epoch___gt__ fo (epg a) (VInt n) = VBool (f_ltb fo (f_of_Z fo n) a).
Proof. rfl. Qed.
Lemma eq_ei a n : Epoch___eq__ fo (epg a) (VInt n) = VBool (f_ltb fo (absdiff a (f_of_Z fo n)) tolv).
Proof. rfl. Qed.

(* a string / None / tuple / list operand raises TypeError in all six *)
Definition not_comparable (v : val) : Prop :=
  match v with VStr _ | VNone | VTuple _ | VList _ | VDict _ => True | _ => False end.
Lemma cmp_type_error a v : not_comparable v ->
  Epoch___lt__ fo (epg a) v = VErr TypeError /\ Epoch___gt__ fo (epg a) v = VErr TypeError /\
  Epoch___le__ fo (epg a) v = VErr TypeError /\ Epoch___ge__ fo (epg a) v = VErr TypeError /\
  Epoch___eq__ fo (epg a) v = VErr TypeError /\ Epoch___ne__ fo (epg a) v = VErr TypeError.
Proof. destruct v; cbn [not_comparable]; intro H; try contradiction; repeat split; rfl. Qed.

(* ---- arithmetic ---- *)
(* Epoch - Epoch is the difference of the JDEs *)
Lemma sub_ee a b : Epoch___sub__ fo (epg a) (epg b) = VFloat (f_sub fo a b).
Proof. rfl. Qed.
(* Epoch + number is the Epoch constructed from (JDE + number); likewise - *)
Lemma add_ef j x : Epoch___add__ fo (epg j) (VFloat x) = mkEg fo [VFloat (f_add fo j x)].
Proof. unfold mkEg, epg, blankg. rfl. Qed.
Lemma add_ei j n : Epoch___add__ fo (epg j) (VInt n) = mkEg fo [VFloat (f_add fo j (f_of_Z fo n))].
Proof. unfold mkEg, epg, blankg. rfl. Qed.
Lemma sub_ef j x : Epoch___sub__ fo (epg j) (VFloat x) = mkEg fo [VFloat (f_sub fo j x)].
Proof. unfold mkEg, epg, blankg. rfl. Qed.
Lemma sub_ei j n : Epoch___sub__ fo (epg j) (VInt n) = mkEg fo [VFloat (f_sub fo j (f_of_Z fo n))].
Proof. unfold mkEg, epg, blankg. rfl. Qed.
(* the reflected form is the same call *)
Lemma radd_ef j x : Epoch___radd__ fo (epg j) (VFloat x) = Epoch___add__ fo (epg j) (VFloat x).
Proof. rfl. Qed.
Lemma radd_ei j n : Epoch___radd__ fo (epg j) (VInt n) = Epoch___add__ fo (epg j) (VInt n).
Proof. rfl. Qed.
(* the in-place forms return what the plain forms return (no state besides the result) *)
Lemma bind_id (e : val) : bind e (fun s => s) = e.
Proof. destruct e; reflexivity. Qed.
Lemma iadd_ef j x : Epoch___iadd__ fo (epg j) (VFloat x) = Epoch___add__ fo (epg j) (VFloat x).
Proof. transitivity (bind (Epoch___add__ fo (epg j) (VFloat x)) (fun s => s)); [rfl | apply bind_id]. Qed.
Lemma iadd_ei j n : Epoch___iadd__ fo (epg j) (VInt n) = Epoch___add__ fo (epg j) (VInt n).
Proof. transitivity (bind (Epoch___add__ fo (epg j) (VInt n)) (fun s => s)); [rfl | apply bind_id]. Qed.
Lemma isub_ef j x : Epoch___isub__ fo (epg j) (VFloat x) = Epoch___sub__ fo (epg j) (VFloat x).
Proof. transitivity (bind (Epoch___sub__ fo (epg j) (VFloat x)) (fun s => s)); [rfl | apply bind_id]. Qed.
Lemma isub_ei j n : Epoch___isub__ fo (epg j) (VInt n) = Epoch___sub__ fo (epg j) (VInt n).
Proof. transitivity (bind (Epoch___sub__ fo (epg j) (VInt n)) (fun s => s)); [rfl | apply bind_id]. Qed.
Lemma add_type_error j v : not_comparable v ->
  Epoch___add__ fo (epg j) v = VErr TypeError /\ Epoch___radd__ fo (epg j) v = VErr TypeError /\
  Epoch___sub__ fo (epg j) v = VErr TypeError /\ Epoch___iadd__ fo (epg j) v = VErr TypeError /\
  Epoch___isub__ fo (epg j) v = VErr TypeError.
Proof. destruct v; cbn [not_comparable]; intro H; try contradiction; repeat split; rfl. Qed.

End Generic.

(* ---- the ideal instance: all reals ---- *)
Open Scope R_scope.
Lemma vbool_inj {F} (a b : bool) : @VBool F a = VBool b -> a = b.
Proof. intro H; inversion H; reflexivity. Qed.

(* <, <=, >, >= order Epochs as their JDE values; == is |difference| < 1e-10; != its negation *)
Theorem ideal_order (a b : R) :
  (Epoch___lt__ Rops (epg a) (epg b) = VBool true <-> a < b) /\
  (Epoch___le__ Rops (epg a) (epg b) = VBool true <-> a <= b) /\
  (Epoch___gt__ Rops (epg a) (epg b) = VBool true <-> a > b) /\
  (Epoch___ge__ Rops (epg a) (epg b) = VBool true <-> a >= b) /\
  (Epoch___eq__ Rops (epg a) (epg b) = VBool true <-> Rabs (a - b) < 1 / 10000000000) /\
  (Epoch___ne__ Rops (epg a) (epg b) = VBool true <-> ~ Rabs (a - b) < 1 / 10000000000).
Proof.
  rewrite lt_ee, le_ee, gt_ee, ge_ee, eq_ee, ne_ee. unfold absdiff, tolv.
  change (f_ltb Rops) with Rltb. change (f_abs Rops) with Rabs. change (f_sub Rops) with Rminus.
  change (f_lit Rops 1 (-10) 0x1.b7cdfd9d7bdbbp-34%float) with (Rlit 1 (-10)).
  replace (Rlit 1 (-10)) with (1 / 10000000000) by (unfold Rlit; simpl; lra).
  repeat split; intro H.
  - apply vbool_inj in H. apply Rltb_true, H.
  - f_equal. apply Rltb_true, H.
  - apply vbool_inj in H. apply negb_true_iff in H. apply Rltb_false in H. exact H.
  - f_equal. apply negb_true_iff. apply Rltb_false. exact H.
  - apply vbool_inj in H. apply Rltb_true in H. lra.
  - f_equal. apply Rltb_true. lra.
  - apply vbool_inj in H. apply negb_true_iff in H. apply Rltb_false in H. lra.
  - f_equal. apply negb_true_iff. apply Rltb_false. lra.
  - apply vbool_inj in H. apply Rltb_true, H.
  - f_equal. apply Rltb_true, H.
  - apply vbool_inj in H. apply negb_true_iff in H. apply Rltb_false in H. lra.
  - f_equal. apply negb_true_iff. apply Rltb_false. lra.
Qed.

(* Epoch - Epoch is the real difference; Epoch +/- x is the Epoch constructed from jde +/- x;
   x + Epoch is Epoch + x *)
Theorem ideal_arith (j j' x : R) :
  Epoch___sub__ Rops (epg j) (epg j') = VFloat (j - j') /\
  Epoch___add__ Rops (epg j) (VFloat x) = mkEg Rops [VFloat (j + x)] /\
  Epoch___sub__ Rops (epg j) (VFloat x) = mkEg Rops [VFloat (j - x)] /\
  Epoch___radd__ Rops (epg j) (VFloat x) = Epoch___add__ Rops (epg j) (VFloat x).
Proof.
  repeat apply conj.
  - apply sub_ee.
  - apply add_ef.
  - apply sub_ef.
  - apply radd_ef.
Qed.
