(* C02 shard: special years and the 1582 reform - by kernel computation (vm_compute checked at Qed) *)
From Coq Require Import ZArith NArith List Bool.
From PyLib Require Import Range.
From Proofs.C02 Require Import C02_defs.
Open Scope Z_scope.
Lemma full_special : forallb chk_full_year special_years = true.
Proof. vm_cast_no_check (@eq_refl bool true). Qed.
Lemma full_reform : all_range 2299150 22%N (fun z => forallb (chk_full_z z) fracs) = true.
Proof. vm_cast_no_check (@eq_refl bool true). Qed.
Lemma forms_special : forallb chk_forms_year special_years = true.
Proof. vm_cast_no_check (@eq_refl bool true). Qed.
Lemma forms_reform : chk_forms_reform = true.
Proof. vm_cast_no_check (@eq_refl bool true). Qed.
Lemma arith_special : forallb chk_arith_year special_years = true.
Proof. vm_cast_no_check (@eq_refl bool true). Qed.
