(* C02 shard: get_date on every day number 4050000 .. 4387499 - by kernel computation (vm_compute checked at Qed) *)
From Coq Require Import ZArith NArith List Bool.
From PyLib Require Import Range.
From Proofs.C02 Require Import C02_defs.
Open Scope Z_scope.
Lemma shard : walk 4050000 337500%N chk_day = true.
Proof. vm_cast_no_check (@eq_refl bool true). Qed.
