(* C02_arith: (e + x) - e = x and e - (e - x) = x to 1e-8 day for EVERY finite float JDE and offset
   (binary64, Flocq error bounds), given how accurately the constructor call Epoch(jde +/- x)
   stores its argument.  NOTE: Epoch(j) does NOT store j exactly in binary64: Epoch.set re-derives
   the JDE from the broken-down date (three roundings at magnitude 2^21..2^23), e.g.
   Epoch(4193243.6725671566).jde() = 4193243.672567157.  The accuracy of the constructor is a
   premise here (attained: witness below; on the grids of C02_full_date_grid it is <= 1e-8). *)
From Coq Require Import ZArith Reals Lra Lia Bool List.
From Coq Require Import Uint63 Floats.
From Flocq Require Import Core BinarySingleNaN PrimFloat.
From PyLib Require Import PyVal PyBuiltins B64 B64Verified.
From Gen Require Import M_base M_Angle M_Epoch.
From Proofs.C02 Require Import C02_defs C02_sym.
Import ListNotations.
Open Scope R_scope.

(* half an ulp below 2^23 = 8388608 (JDE + offset stays below 6.4e6) *)
Lemma RN_err_2p23 v : Rabs v <= 8388608 -> Rabs (RN v - v) <= bpow radix2 (-30).
Proof.
  intro Hv. eapply Rle_trans; [apply error_le_half_ulp; apply fexp64_valid|].
  assert (ulp radix2 fexp64 v <= bpow radix2 (-29)) as Hu.
  { apply Rle_trans with (ulp radix2 fexp64 8388608).
    { apply ulp_le; [apply fexp64_valid | apply fexp64_mono |]. rewrite (Rabs_pos_eq 8388608) by lra. exact Hv. }
    rewrite ulp_neq_0 by lra. unfold cexp.
    assert (mag radix2 8388608 = 24%Z :> Z) as ->.
    { apply mag_unique. rewrite Rabs_pos_eq by lra. change (bpow radix2 (24 - 1)) with 8388608. change (bpow radix2 24) with 16777216. lra. }
    change (fexp64 24) with (-29)%Z. lra. }
  assert (bpow radix2 (-30) = / 2 * bpow radix2 (-29)) as ->
    by (change (-30)%Z with (-1 + -29)%Z; rewrite bpow_plus; reflexivity).
  pose proof (bpow_gt_0 radix2 (-29)). lra.
Qed.

Lemma bpow_m28 : bpow radix2 (-28) <= / 100000000.
Proof. change (bpow radix2 (-28)) with (/ 268435456). apply Rinv_le; lra. Qed.
Lemma bpow_m29_m30 : bpow radix2 (-29) + 2 * bpow radix2 (-30) = bpow radix2 (-28).
Proof. change (bpow radix2 (-28)) with (/ 268435456). change (bpow radix2 (-29)) with (/ 536870912).
  change (bpow radix2 (-30)) with (/ 1073741824). lra. Qed.

(* accuracy of a constructor call: Epoch(a) stores a1 within 2^-29 = 1.86e-9 day of a *)
Definition ctor_within (a a1 : PrimFloat.float) : Prop :=
  mkE [VFloat a] = ep a1 /\ fin a1 /\ Rabs (RV a1 - RV a) <= bpow radix2 (-29).

Lemma sum_ok j x : fin j -> fin x -> 0 <= RV j <= 5400000 -> Rabs (RV x) <= 1000000 ->
  (RV (j + x)%float = RN (RV j + RV x) /\ fin (j + x)%float) /\ (RV (j - x)%float = RN (RV j - RV x) /\ fin (j - x)%float).
Proof.
  intros Fj Fx Hj Hx. apply Rabs_le_inv in Hx. split.
  - apply add_R; try assumption. apply RN_lt_emax. apply Rle_trans with 8388608; [apply Rabs_le; lra|].
    change 8388608 with (bpow radix2 23). apply bpow_le. discriminate.
  - apply sub_R; try assumption. apply RN_lt_emax. apply Rle_trans with 8388608; [apply Rabs_le; lra|].
    change 8388608 with (bpow radix2 23). apply bpow_le. discriminate.
Qed.

(* |fl(c - a) - x| when c is within 2^-29 of fl(a + x) *)
Lemma diff_bound a c s x : fin a -> fin c -> 0 <= RV a <= 5400000 -> Rabs x <= 1000000 ->
  Rabs (s - (RV a + x)) <= bpow radix2 (-30) -> Rabs (RV c - s) <= bpow radix2 (-29) ->
  RV (c - a)%float = RN (RV c - RV a) /\ fin (c - a)%float /\ Rabs (RV (c - a)%float - x) <= / 100000000.
Proof.
  intros Fa Fc Ha Hx Hs Hc.
  pose proof (bpow_gt_0 radix2 (-30)) as P30. pose proof bpow_m28 as P28. pose proof bpow_m29_m30 as Psum.
  assert (bpow radix2 (-29) < 1) as P29 by (change 1 with (bpow radix2 0); apply bpow_lt; reflexivity).
  assert (bpow radix2 (-30) < 1) as P30' by (change 1 with (bpow radix2 0); apply bpow_lt; reflexivity).
  apply Rabs_le_inv in Hx. apply Rabs_le_inv in Hs. apply Rabs_le_inv in Hc.
  assert (Rabs (RV c - RV a) <= 8388608) as Hd by (apply Rabs_le; lra).
  destruct (sub_R c a Fc Fa) as [A B].
  - apply RN_lt_emax. apply Rle_trans with 8388608; [exact Hd|].
    change 8388608 with (bpow radix2 23). apply bpow_le. discriminate.
  - split; [exact A|]. split; [exact B|]. rewrite A.
    pose proof (RN_err_2p23 (RV c - RV a) Hd) as He. apply Rabs_le_inv in He.
    apply Rabs_le. lra.
Qed.

Lemma mkEg_B0 args : mkEg B0 args = mkE args.
Proof. reflexivity. Qed.
Lemma epg_ep (j : PrimFloat.float) : epg j = ep j.
Proof. reflexivity. Qed.

(* (e + x) - e = x to 1e-8 day; x + e and e += x return the same Epoch *)
Theorem add_every_float j x j1 :
  fin j -> fin x -> 0 <= RV j <= 5400000 -> Rabs (RV x) <= 1000000 ->
  ctor_within (j + x)%float j1 ->
  e_add (ep j) (VFloat x) = ep j1 /\ e_radd (ep j) (VFloat x) = ep j1 /\ e_iadd (ep j) (VFloat x) = ep j1 /\
  e_sub (ep j1) (ep j) = VFloat (j1 - j)%float /\ fin (j1 - j)%float /\
  Rabs (RV (j1 - j)%float - RV x) <= / 100000000.
Proof.
  intros Fj Fx Hj Hx (E & F1 & H1).
  destruct (sum_ok j x Fj Fx Hj Hx) as [[Vs Fs] _].
  assert (Epoch___add__ B0 (epg j) (VFloat x) = ep j1) as Ea
    by (rewrite (add_ef B0 j x), mkEg_B0; exact E).
  change (e_add (ep j) (VFloat x)) with (Epoch___add__ B0 (epg j) (VFloat x)).
  change (e_radd (ep j) (VFloat x)) with (Epoch___radd__ B0 (epg j) (VFloat x)).
  change (e_iadd (ep j) (VFloat x)) with (Epoch___iadd__ B0 (epg j) (VFloat x)).
  change (e_sub (ep j1) (ep j)) with (Epoch___sub__ B0 (epg j1) (epg j)).
  rewrite (radd_ef B0 j x), (iadd_ef B0 j x), Ea, (sub_ee B0 j1 j).
  change (f_sub B0 j1 j) with (j1 - j)%float.
  split; [reflexivity|]. split; [reflexivity|]. split; [reflexivity|]. split; [reflexivity|].
  assert (Rabs (RV j + RV x) <= 8388608) as Hb by (apply Rabs_le_inv in Hx; apply Rabs_le; lra).
  pose proof (RN_err_2p23 _ Hb) as He. rewrite <- Vs in He.
  destruct (diff_bound j j1 (RV (j + x)%float) (RV x) Fj F1 Hj Hx He H1) as (_ & Fd & Hd).
  split; assumption.
Qed.

(* e - (e - x) = x to 1e-8 day; e -= x returns the same Epoch as e - x *)
Theorem sub_every_float j x j2 :
  fin j -> fin x -> 0 <= RV j <= 5400000 -> Rabs (RV x) <= 1000000 ->
  ctor_within (j - x)%float j2 ->
  e_sub (ep j) (VFloat x) = ep j2 /\ e_isub (ep j) (VFloat x) = ep j2 /\
  e_sub (ep j) (ep j2) = VFloat (j - j2)%float /\ fin (j - j2)%float /\
  Rabs (RV (j - j2)%float - RV x) <= / 100000000.
Proof.
  intros Fj Fx Hj Hx (E & F2 & H2).
  destruct (sum_ok j x Fj Fx Hj Hx) as [_ [Vs Fs]].
  assert (Epoch___sub__ B0 (epg j) (VFloat x) = ep j2) as Ea
    by (rewrite (sub_ef B0 j x), mkEg_B0; exact E).
  change (e_sub (ep j) (VFloat x)) with (Epoch___sub__ B0 (epg j) (VFloat x)).
  change (e_isub (ep j) (VFloat x)) with (Epoch___isub__ B0 (epg j) (VFloat x)).
  change (e_sub (ep j) (ep j2)) with (Epoch___sub__ B0 (epg j) (epg j2)).
  rewrite (isub_ef B0 j x), Ea, (sub_ee B0 j j2).
  change (f_sub B0 j j2) with (j - j2)%float.
  split; [reflexivity|]. split; [reflexivity|]. split; [reflexivity|].
  (* j - j2 = -(j2 - j) as reals; bound through the symmetric difference *)
  pose proof (bpow_gt_0 radix2 (-30)) as P30. pose proof bpow_m28 as P28. pose proof bpow_m29_m30 as Psum.
  assert (bpow radix2 (-29) < 1) as P29 by (change 1 with (bpow radix2 0); apply bpow_lt; reflexivity).
  assert (bpow radix2 (-30) < 1) as P30' by (change 1 with (bpow radix2 0); apply bpow_lt; reflexivity).
  assert (Rabs (RV j - RV x) <= 8388608) as Hb by (apply Rabs_le_inv in Hx; apply Rabs_le; lra).
  pose proof (RN_err_2p23 _ Hb) as He. rewrite <- Vs in He.
  apply Rabs_le_inv in Hx. apply Rabs_le_inv in He. apply Rabs_le_inv in H2.
  assert (Rabs (RV j - RV j2) <= 8388608) as Hd by (apply Rabs_le; lra).
  destruct (sub_R j j2 Fj F2) as [A B].
  - apply RN_lt_emax. apply Rle_trans with 8388608; [exact Hd|].
    change 8388608 with (bpow radix2 23). apply bpow_le. discriminate.
  - split; [exact B|]. rewrite A.
    pose proof (RN_err_2p23 (RV j - RV j2) Hd) as He2. apply Rabs_le_inv in He2.
    apply Rabs_le. lra.
Qed.

(* the premise is attained by what the model really returns, e.g. 2451545.25 + 1.5 *)
Example ctor_within_witness : ctor_within (2451545.25 + 1.5)%float 2451546.75%float.
Proof.
  split; [vm_compute; reflexivity|]. split; [apply fin_prim; reflexivity|].
  assert (RV (2451545.25 + 1.5)%float = RV 2451546.75%float) as -> by (f_equal; vm_compute; reflexivity).
  rewrite Rminus_diag_eq by reflexivity. rewrite Rabs_R0. apply bpow_ge_0.
Qed.
