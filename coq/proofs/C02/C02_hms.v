(* C02_hms: the hour / minute / second fields of Epoch.get_full_date in the binary64 instance,
   for EVERY finite day value that get_date can return (not a grid): hour in 0..23, minute in
   0..59, 0 <= second < 60 -- the products fl(r*24), fl(r*60), fl(60*q) cannot round up to
   24 / 60 / 60.  Float arithmetic is reasoned about through Flocq (PyLib.B64Verified). *)
From Coq Require Import ZArith Reals Lra Lia Bool List.
From Coq Require Import Uint63 Floats.
From Flocq Require Import Core BinarySingleNaN PrimFloat.
From PyLib Require Import PyVal PyBuiltins B64 B64Verified Whnf PyEval B64Eval.
From Gen Require Import M_base M_Angle M_Epoch.
Import ListNotations.
Open Scope R_scope.

From Ltac2 Require Ltac2.
Ltac2 Set Whnf.is_blocked as old := fun c =>
  Ltac2.Bool.or (old c) (Ltac2.List.exist (Ltac2.Constr.equal c) ['@Epoch_get_date; '@fmod_py]).

Lemma RV_24 : RV 24%float = 24.
Proof. rewrite RV_SF. vm_compute Prim2SF. unfold SF2R, F2R. simpl. lra. Qed.
Lemma fin_24 : fin 24%float.
Proof. apply fin_prim. reflexivity. Qed.

(* 24 times a float in [0, 1) is a float in [0, 24): the product cannot round up to 24.0 *)
Lemma frac_times_24 f : fin f -> 0 <= RV f < 1 ->
  RV (f * 24) = RN (RV f * 24) /\ fin (f * 24) /\ 0 <= RV (f * 24) <= 24 - bpow radix2 (-48).
Proof.
  intros Ff Hf.
  set (fm := 0x1.fffffffffffffp-1%float).
  assert (RV fm = 1 - bpow radix2 (-53)) as Hfm.
  { unfold fm. rewrite RV_SF. vm_compute Prim2SF. unfold SF2R, F2R. simpl Fnum. simpl Fexp.
    change (bpow radix2 (-53)) with (/ 9007199254740992). simpl bpow. field. }
  assert (fin fm) as Ffm by (apply fin_prim; reflexivity).
  assert (RN (RV fm * 24) = 24 - bpow radix2 (-48)) as Htop.
  { destruct (mul_R fm 24 Ffm fin_24) as [A _].
    - rewrite RV_24. apply RN_lt_emax. rewrite Hfm. pose proof (bpow_gt_0 radix2 (-53)).
      assert (bpow radix2 (-53) < 1) by (change 1 with (bpow radix2 0); apply bpow_lt; reflexivity).
      rewrite Rabs_pos_eq by nra. apply Rle_trans with (bpow radix2 6); [change (bpow radix2 6) with 64; nra | apply bpow_le; discriminate].
    - rewrite RV_24 in A. rewrite <- A. unfold fm.
      rewrite RV_SF. vm_compute Prim2SF. unfold SF2R, F2R. simpl Fnum. simpl Fexp.
      change (bpow radix2 (-48)) with (/ 281474976710656). simpl bpow. field. }
  assert (RV f <= 1 - bpow radix2 (-53)) as Hle by (apply lt_one_pred; [apply fmt_RV | lra]).
  assert (0 <= RN (RV f * 24) <= 24 - bpow radix2 (-48)) as Hr.
  { split.
    - rewrite <- RN_0. apply RN_le. lra.
    - rewrite <- Htop. apply RN_le. rewrite Hfm. lra. }
  pose proof (bpow_gt_0 radix2 (-48)).
  destruct (mul_R f 24 Ff fin_24) as [A B].
  - rewrite RV_24. apply small_lt_emax. rewrite Rabs_pos_eq; lra.
  - rewrite RV_24 in A. rewrite A. split; [reflexivity|]. split; [exact B | exact Hr].
Qed.

(* p - int(p) is exact for a non-negative float below 2^51: the fractional part, in [0, 1) *)
Lemma sub_trunc_exact p : fin p -> 0 <= RV p <= 1000 ->
  let k := Zfloor (RV p) in
  b64_trunc p = k /\ RV (p - b64_of_Z k) = RV p - IZR k /\ fin (p - b64_of_Z k) /\
  0 <= RV p - IZR k < 1.
Proof.
  intros Fp Hp k.
  assert (Ztrunc (RV p) = k) as Ht by (unfold Ztrunc; rewrite Rlt_bool_false by lra; reflexivity).
  pose proof (Zfloor_lb (RV p)) as Hl. pose proof (Zfloor_ub (RV p)) as Hu. fold k in Hl, Hu.
  assert (0 <= k <= 1000)%Z as Hk.
  { split; [apply Zfloor_lub; simpl; lra|]. apply le_IZR. lra. }
  destruct (b64_of_Z_exact k ltac:(lia)) as [Vk Fk].
  assert (fmt (RV p - IZR k)) as Ffr by (rewrite <- Ht; apply frac_fmt, fmt_RV).
  assert (RN (RV p - RV (b64_of_Z k)) = RV p - IZR k) as Hx
    by (rewrite Vk; apply round_generic; [apply valid_rnd_N | exact Ffr]).
  destruct (sub_R p (b64_of_Z k) Fp Fk) as [A B].
  - rewrite Hx. apply small_lt_emax. rewrite Rabs_pos_eq; lra.
  - split; [rewrite b64_trunc_correct by exact Fp; exact Ht|].
    split; [rewrite A; exact Hx|]. split; [exact B | lra].
Qed.

Definition epf (j : PrimFloat.float) : val PrimFloat.float := VObj cEpoch [VFloat j].

Theorem full_date_fields j y m d :
  Epoch_get_date B0 (epf j) (VDict []) = VTuple [VInt y; VInt m; VFloat d] ->
  fin d -> 0 <= RV d <= 1000 ->
  exists h mi s,
    Epoch_get_full_date B0 (epf j) (VDict [])
      = VTuple [VInt y; VInt m; VInt (Zfloor (RV d)); VInt h; VInt mi; VFloat s] /\
    (0 <= h <= 23)%Z /\ (0 <= mi <= 59)%Z /\ fin s /\ 0 <= RV s < 60.
Proof.
  intros E Fd Hd.
  destruct (fmod_py_1_nonneg d Fd (proj1 Hd)) as (f1 & H1 & Ff1 & Hf1 & Hf1r).
  destruct (sub_trunc_exact d Fd Hd) as (Hk & _).
  destruct (frac_times_24 f1 Ff1 Hf1r) as (Hp & Fp & Hpr).
  set (p24 := (f1 * 24)%float) in *.
  pose proof (bpow_gt_0 radix2 (-48)) as Hb48. pose proof (bpow_gt_0 radix2 (-47)) as Hb47.
  destruct (sub_trunc_exact p24 Fp ltac:(lra)) as (Hh & Vr2 & Fr2 & Rr2).
  set (h := Zfloor (RV p24)) in *. set (r2 := (p24 - b64_of_Z h)%float) in *.
  rewrite <- Vr2 in Rr2.
  destruct (frac_times_60 r2 Fr2 Rr2) as (Hp6 & Fp6 & Hp6r).
  set (p60 := (r2 * 60)%float) in *.
  destruct (sub_trunc_exact p60 Fp6 ltac:(lra)) as (Hmi & Vq & Fq & Rq).
  set (mi := Zfloor (RV p60)) in *. set (q := (p60 - b64_of_Z mi)%float) in *.
  rewrite <- Vq in Rq.
  destruct (frac_times_60 q Fq Rq) as (Hs6 & _ & Hs6r).
  assert (0 <= RN (60 * RV q) <= 60 - bpow radix2 (-47)) as Hsr
    by (rewrite Rmult_comm, <- Hs6; exact Hs6r).
  destruct (mul_R 60 q fin_60 Fq) as [Vs Fs].
  { rewrite RV_60. apply small_lt_emax. rewrite Rabs_pos_eq; lra. }
  rewrite RV_60 in Vs.
  assert (0 <= h <= 23)%Z as Hh_r.
  { unfold h. split; [apply Zfloor_lub; simpl; lra|].
    assert (Zfloor (RV p24) < 24)%Z; [|lia]. apply lt_IZR. pose proof (Zfloor_lb (RV p24)). lra. }
  assert (0 <= mi <= 59)%Z as Hmi_r.
  { unfold mi. split; [apply Zfloor_lub; simpl; lra|].
    assert (Zfloor (RV p60) < 60)%Z; [|lia]. apply lt_IZR. pose proof (Zfloor_lb (RV p60)). lra. }
  exists h, mi, (60 * q)%float. split.
  { pose proof (eqb_self_fin d Fd) as N1. pose proof (abs_not_inf d Fd) as N2.
    pose proof (eqb_self_fin p24 Fp) as N3. pose proof (abs_not_inf p24 Fp) as N4.
    pose proof (eqb_self_fin p60 Fp6) as N5. pose proof (abs_not_inf p60 Fp6) as N6.
    unfold p60, r2 in N5, N6. rewrite <- Hh in N5, N6.
    unfold Epoch_get_full_date. b64run.
    cbn [f_trunc f_mul f_sub f_lit B0 B64ops B64opsC]. unfold zf. cbn [f_of_Z B0 B64ops B64opsC].
    change (b64_of_Z 24) with 24%float. fold p24. rewrite Hh. fold r2. fold p60. rewrite Hmi. fold q.
    rewrite Hk. reflexivity. }
  repeat split; try assumption; try lia; try lra.
Qed.

Lemma RV_1000 : RV 1000%float = 1000.
Proof. rewrite RV_SF. vm_compute Prim2SF. unfold SF2R, F2R. simpl. lra. Qed.
Lemma fin_1000 : fin 1000%float.
Proof. apply fin_prim. reflexivity. Qed.

(* the same with premises and conclusion as executable float tests *)
Theorem full_date_fields_b j y m d :
  Epoch_get_date B0 (epf j) (VDict []) = VTuple [VInt y; VInt m; VFloat d] ->
  PrimFloat.is_finite d = true -> (0 <=? d)%float = true -> (d <=? 1000)%float = true ->
  exists h mi s,
    Epoch_get_full_date B0 (epf j) (VDict [])
      = VTuple [VInt y; VInt m; VInt (b64_trunc d); VInt h; VInt mi; VFloat s] /\
    (0 <= h <= 23)%Z /\ (0 <= mi <= 59)%Z /\ (0 <=? s)%float = true /\ (s <? 60)%float = true.
Proof.
  intros E Fd H0 H1. apply fin_prim in Fd.
  rewrite (leb_R 0 d fin_zero Fd), RV_zero in H0. rewrite (leb_R d 1000 Fd fin_1000), RV_1000 in H1.
  destruct (Rle_bool_spec 0 (RV d)) as [L0|]; [|discriminate].
  destruct (Rle_bool_spec (RV d) 1000) as [L1|]; [|discriminate].
  destruct (full_date_fields j y m d E Fd (conj L0 L1)) as (h & mi & s & G & Hh & Hm & Fs & Hs).
  destruct (sub_trunc_exact d Fd (conj L0 L1)) as (Hk & _).
  exists h, mi, s. rewrite Hk. split; [exact G|]. split; [exact Hh|]. split; [exact Hm|].
  rewrite (leb_R 0 s fin_zero Fs), RV_zero. rewrite (ltb_R s 60 Fs fin_60), RV_60.
  split; [apply Rle_bool_true; lra | apply Rlt_bool_true; lra].
Qed.

(* the premises are attained by what the model really returns, e.g. 2000-01-01 18h *)
Example full_date_fields_witness :
  Epoch_get_date B0 (epf 2451545.25%float) (VDict []) = VTuple [VInt 2000; VInt 1; VFloat 1.75%float] /\
  PrimFloat.is_finite 1.75%float = true /\ (0 <=? 1.75)%float = true /\ (1.75 <=? 1000)%float = true.
Proof. repeat split; vm_compute; reflexivity. Qed.
