(* C02_ctor_ideal: in the IDEAL (real-number) instance the constructor Epoch(j) stores exactly j:
   the calendar round trip inside Epoch.set (get_full_date, then _compute_jde) is exact over the reals.
   Dependencies: PyLib, the generated M_base / M_Angle / M_Epoch, and C02_ctor_spec.v + the 16 shards
   C02_ctor_rt_00..15.v (pure Z round trip of the calendar arithmetic, kernel computation).
   HOW TO USE from another property: list  ../C02/C02_ctor_spec.v, ../C02/C02_ctor_rt_00.v .. _15.v,
   ../C02/C02_ctor_ideal.v  in proof_files and  From Proofs.C02 Require Import C02_ctor_ideal.
   All tactic-state changes (Whnf blocking, pyrunv_hook) live in the module CtorImpl, which is NOT
   imported by Require Import of this file; the exported statements are at the end. *)
From Coq Require Import Reals ZArith List Bool Lra Lia ZifyBool String.
From PyLib Require Import PyVal PyBuiltins Ideal IdealFacts Whnf PyEval Range.
From Gen Require Import M_base M_Angle M_Epoch.
From Proofs.C02 Require Import C02_ctor_spec.
From Proofs.C02 Require C02_ctor_rt_00.
From Proofs.C02 Require C02_ctor_rt_01.
From Proofs.C02 Require C02_ctor_rt_02.
From Proofs.C02 Require C02_ctor_rt_03.
From Proofs.C02 Require C02_ctor_rt_04.
From Proofs.C02 Require C02_ctor_rt_05.
From Proofs.C02 Require C02_ctor_rt_06.
From Proofs.C02 Require C02_ctor_rt_07.
From Proofs.C02 Require C02_ctor_rt_08.
From Proofs.C02 Require C02_ctor_rt_09.
From Proofs.C02 Require C02_ctor_rt_10.
From Proofs.C02 Require C02_ctor_rt_11.
From Proofs.C02 Require C02_ctor_rt_12.
From Proofs.C02 Require C02_ctor_rt_13.
From Proofs.C02 Require C02_ctor_rt_14.
From Proofs.C02 Require C02_ctor_rt_15.

Import ListNotations.
Open Scope R_scope.

From Ltac2 Require Ltac2.
Module CtorImpl.
Ltac2 Set Whnf.is_blocked as old := fun c =>
  Ltac2.Bool.or (old c) (Ltac2.List.exist (Ltac2.Constr.equal c)
    ['Z.ltb; 'Z.leb; 'Z.eqb; 'Z.gtb; 'Z.geb; '@fmod_py]).

Ltac expose_R_in_all := repeat match goal with H : _ |- _ => progress (try (expose_R_in H)) end.
Definition epr (j : R) : val R := VObj cEpoch [VFloat j].

(* Driver for the long continuation-passing generated text: the spine (bind at the head) is advanced
   by explicit equational steps that never search or beta-normalise the large continuation; each
   statement is evaluated call-by-value on its own small goal by PyEval.pyrunv; an undetermined
   integer comparison (Z.ltb ... on the abstract day number) is case-split where it is met. *)
Lemma fmod1 a : 0 <= a -> fmod_py Rops a (zf Rops 1) = VFloat (Rfmod a 1).
Proof. intro H. apply (fmod_py_nonneg a 1); lra. Qed.
Ltac pyrunv_hook s tac ::=
  lazymatch s with
  | fmod_py Rops ?a (zf Rops 1) => rewrite (fmod1 a) by first [ assumption | subst; assumption | subst; Rlit_norm_all; lra ]
  end.

Ltac is_zlit n := lazymatch n with Z0 => idtac | Zpos _ => idtac | Zneg _ => idtac end.
(* name the number of a canonical statement result H : e = VInt n / VFloat r (an abstract variable with
   its defining equation kept in the context), so that the pending continuation only contains variables *)
Ltac name_result H :=
  lazymatch type of H with
  | _ = VInt ?n =>
      tryif first [ is_var n | is_zlit n ] then idtac else
        (let x := fresh "n" in let Hx := fresh "Hn" in remember n as x eqn:Hx in H)
  | _ = VFloat ?r =>
      tryif is_var r then idtac else
        (let x := fresh "x" in let Hx := fresh "Hx" in remember r as x eqn:Hx in H)
  | _ => idtac
  end.

Ltac irun :=
  whnf_lhs;
  lazymatch goal with
  | |- ?l = _ =>
    tryif is_canon l then idtac else
    (lazymatch l with
     | bind ?e ?k =>
         tryif is_canon e then
           (lazymatch e with
            | VErr _ => refine (eq_trans (bind_err _ k) _)
            | _ => refine (eq_trans (bind_ok e k eq_refl) _)
            end; irun)
         else (let H := fresh "Hev" in
               eassert (H : e = _) by (pyrunv; py_canon_refl);
               name_result H;
               refine (eq_trans (f_equal (fun x => bind x k) H) _); clear H; irun)
     | _ =>
         pose_stuck;
         lazymatch goal with
         | py_stuck := ?s |- _ =>
             clear py_stuck;
             lazymatch type of s with
             | bool => first [ py_decide_at s pylra; irun |
                       let E := fresh "Eb" in
                       destruct s eqn:E; [ tryif (exfalso; lia) then idtac else irun | tryif (exfalso; lia) then idtac else irun ] ]
             | _ => first [ match goal with H : s = _ |- _ => rewrite H end; irun
                          | let H := fresh "Hev" in
                            eassert (H : s = _) by (pyrunv; py_canon_refl); rewrite H; clear H; irun
                          | idtac "irun: stuck on" s ]
             end
         | |- ?l' = _ => idtac "irun: no stuck subterm in" l'
         end
     end)
  end.

(* ---- floors of the decimal rational functions in get_date / _compute_jde as integer divisions ---- *)
Lemma Rfloor_ratio p q : (0 < q)%Z -> Rfloor (IZR p / IZR q) = (p / q)%Z.
Proof. intro H. rewrite Rfloor_div_Z by exact H. rewrite Rfloor_IZR. reflexivity. Qed.
Ltac floor_div p q :=
  match goal with |- Rfloor ?X = _ =>
    replace X with (IZR p / IZR q) by (Rlit_norm; repeat (rewrite plus_IZR || rewrite minus_IZR || rewrite mult_IZR); field);
    apply Rfloor_ratio; lia end.

Lemma F_alpha z : Rfloor ((IZR z - Rlit 186721625 (-2)) / Rlit 3652425 (-2)) = ((100 * z - 186721625) / 3652425)%Z.
Proof. floor_div (100 * z - 186721625)%Z 3652425%Z. Qed.
Lemma F_q4 a : Rfloor (IZR a / Rlit 40 (-1)) = (a / 4)%Z.
Proof. floor_div a 4%Z. Qed.
Lemma F_c b : Rfloor ((IZR b - Rlit 1221 (-1)) / Rlit 36525 (-2)) = ((100 * b - 12210) / 36525)%Z.
Proof. floor_div (100 * b - 12210)%Z 36525%Z. Qed.
Lemma F_d c : Rfloor (Rlit 36525 (-2) * IZR c) = (36525 * c / 100)%Z.
Proof. floor_div (36525 * c)%Z 100%Z. Qed.
Lemma F_e n : Rfloor (IZR n / Rlit 306001 (-4)) = (10000 * n / 306001)%Z.
Proof. floor_div (10000 * n)%Z 306001%Z. Qed.
Lemma F_i e : Rfloor (Rlit 306001 (-4) * IZR e) = (306001 * e / 10000)%Z.
Proof. floor_div (306001 * e)%Z 10000%Z. Qed.

(* closing a leaf of the case analysis: the named intermediate integers are floors; turn them into the
   integer divisions of gdZ, replay the same decisions in gdZ, compare *)
Ltac close_leaf :=
  rewrite ?F_alpha, ?F_q4, ?F_c, ?F_d, ?F_e, ?F_i in *;
  lazymatch goal with G : gdZ _ = Some _, H0 : 0 <= _ |- _ =>
    unfold gdZ, zA in G; cbv zeta in G; subst;
    repeat (cbv iota beta in G;
            match goal with E : ?b = _ |- _ =>
              lazymatch type of b with bool => idtac end; rewrite E in G; clear E end);
    cbv iota beta in G;
    first [ discriminate G
          | injection G as <- <- <-; rewrite Rfmod_1 by exact H0; reflexivity ]
  end.

(* get_date, every real JDE: (year, month, day + exact day fraction) with the integer part gdZ z of the day
   number z = floor(j + 0.5) *)
Lemma get_date_ideal j y m d : 0 <= j + Rlit 5 (-1) ->
  gdZ (Rfloor (j + Rlit 5 (-1))) = Some (y, m, d) ->
  Epoch_get_date Rops (epr j) (VDict []) =
  VTuple [VInt y; VInt m; VFloat (IZR d + (j + Rlit 5 (-1) - IZR (Rfloor (j + Rlit 5 (-1)))))].
Proof.
  intros H0 G.
  unfold Epoch_get_date, epr.
  irun.
  all: close_leaf.
Qed.

Lemma Rltb_k5 k : Rltb (IZR k) (Rlit 50 (-1)) = (k <? 5)%Z.
Proof.
  assert (Rlit 50 (-1) = 5) as -> by (unfold Rlit; simpl; lra).
  destruct (Z.ltb_spec k 5) as [H|H].
  - apply Rltb_true. apply IZR_lt in H. exact H.
  - apply Rltb_false. apply IZR_le in H. exact H.
Qed.

Lemma F_y100 y : Rfloor (IZR y / Rlit 1000 (-1)) = (y / 100)%Z.
Proof. floor_div y 100%Z. Qed.
Lemma F_i1 y : Rfloor (Rlit 36525 (-2) * (IZR y + Rlit 47160 (-1))) = (36525 * (y + 4716) / 100)%Z.
Proof. floor_div (36525 * (y + 4716))%Z 100%Z. Qed.
Lemma F_i2 m : Rfloor (Rlit 306001 (-4) * (IZR m + Rlit 10 (-1))) = (306001 * (m + 1) / 10000)%Z.
Proof. floor_div (306001 * (m + 1))%Z 10000%Z. Qed.

Lemma compute_jde_ideal j0 y m D :
  Epoch__compute_jde Rops (epr j0) (VInt y) (VInt m) (VFloat D) (VBool false) (VFloat (Rlit 0 (-1))) (VBool false)
  = VFloat (IZR (cjZ y m (Rfloor D)) + D - 15245 / 10).
Proof.
  unfold Epoch__compute_jde.
  irun.
  all: subst; expose_R; expose_R_in_all; rewrite ?Rltb_k5 in *.
  all: f_equal; unfold cjZ.
  all: match goal with E : (_ <=? 2)%Z = _ |- _ => rewrite E end.
  all: rewrite ?F_i1, ?F_i2, ?F_y100, ?F_q4.
  all: match goal with |- context [isjulZ ?a ?b ?c] =>
         first [ assert (J : isjulZ a b c = true) by (unfold isjulZ; lia); rewrite J
               | assert (J : isjulZ a b c = false) by (unfold isjulZ; lia); rewrite J ] end.
  all: repeat (rewrite plus_IZR || rewrite minus_IZR); Rlit_norm; lra.
Qed.

(* from here on: the integer comparisons are closed (argument counts); get_date and _compute_jde are used
   through their characterisations *)
Ltac2 Set Whnf.is_blocked as old3 := fun c =>
  Ltac2.Bool.and (Ltac2.Bool.neg (Ltac2.List.exist (Ltac2.Constr.equal c) ['Z.ltb; 'Z.leb; 'Z.eqb; 'Z.gtb; 'Z.geb]))
  (Ltac2.Bool.or (old3 c) (Ltac2.List.exist (Ltac2.Constr.equal c) ['@Epoch_get_date; '@Epoch__compute_jde])).
Ltac pyrunv_hook s tac ::=
  lazymatch s with
  | fmod_py Rops ?a (zf Rops 1) => rewrite (fmod1 a) by first [ assumption | subst; assumption | subst; Rlit_norm_all; lra ]
  | Epoch__compute_jde Rops (VObj cEpoch [VFloat ?j0]) (VInt ?y) (VInt ?m) (VFloat ?D) _ _ _ =>
      change s with (Epoch__compute_jde Rops (epr j0) (VInt y) (VInt m) (VFloat D) (VBool false)
                       (VFloat (Rlit 0 (-1))) (VBool false));
      rewrite (compute_jde_ideal j0 y m D)
  end.

(* common script: run the constructor / set() with get_date and _compute_jde replaced by their
   characterisations, recombine the day fraction exactly, use the integer round trip *)
Ltac parts_script j y m d H0 G Hd Hid :=
  pose proof (get_date_ideal j y m d H0 G) as Hgd; unfold epr in Hgd;
  pose proof (Rfloor_spec (j + Rlit 5 (-1))) as Hfl;
  set (f := j + Rlit 5 (-1) - IZR (Rfloor (j + Rlit 5 (-1)))) in *;
  assert (0 <= f < 1) as Hf by (unfold f; lra);
  assert (0 <= IZR d + f) as Hdf by (apply IZR_le in Hd; lra);
  assert (Rfloor (IZR d + f) = d) as Hfd by (apply Rfloor_unique; lra);
  irun;
  repeat match goal with H : ?v = _ |- _ => is_var v; subst v end;
  rewrite (Rtrunc_nonneg (IZR d + f)) by exact Hdf; rewrite (Rfmod_1 (IZR d + f)) by exact Hdf;
  rewrite Hfd; replace (IZR d + f - IZR d) with f by ring;
  match goal with |- context [cjZ y m (Rfloor ?D)] =>
    assert (D = IZR d + f) as -> by (Rlit_norm; field) end;
  rewrite Hfd;
  match goal with |- context [VFloat ?r] =>
    let E := fresh "E" in
    assert (E : r = j);
    [ apply (f_equal IZR) in Hid; rewrite minus_IZR, plus_IZR in Hid; unfold f;
      assert (Rlit 5 (-1) = 5 / 10) as L5 by (unfold Rlit; simpl; lra); rewrite L5 in *; lra
    | rewrite E; reflexivity ]
  end.

Lemma ctor_from_parts j y m d : 0 <= j + Rlit 5 (-1) ->
  gdZ (Rfloor (j + Rlit 5 (-1))) = Some (y, m, d) -> (0 <= d)%Z ->
  (cjZ y m d + d - 1524 = Rfloor (j + Rlit 5 (-1)))%Z ->
  Epoch___init__ Rops (VObj cEpoch [VNone]) (VTuple [VFloat j]) (VDict []) = epr j.
Proof. intros H0 G Hd Hid. unfold Epoch___init__. parts_script j y m d H0 G Hd Hid. Qed.

Lemma set_from_parts j0 j y m d : 0 <= j + Rlit 5 (-1) ->
  gdZ (Rfloor (j + Rlit 5 (-1))) = Some (y, m, d) -> (0 <= d)%Z ->
  (cjZ y m d + d - 1524 = Rfloor (j + Rlit 5 (-1)))%Z ->
  Epoch_set Rops (epr j0) (VTuple [VFloat j]) (VDict []) = VTuple [epr j; VNone].
Proof. intros H0 G Hd Hid. unfold Epoch_set, epr. parts_script j y m d H0 G Hd Hid. Qed.

(* ---- every day number of the range passes the integer round trip (16 shards) ---- *)
Lemma rt_all z : (0 <= z < 5400000)%Z -> rt_ok z = true.
Proof.
  intro Hz.
  destruct (Z_lt_ge_dec z 337500) as [H0|H0]; [apply (all_range_spec _ _ _ C02_ctor_rt_00.shard); lia|].
  destruct (Z_lt_ge_dec z 675000) as [H1|H1]; [apply (all_range_spec _ _ _ C02_ctor_rt_01.shard); lia|].
  destruct (Z_lt_ge_dec z 1012500) as [H2|H2]; [apply (all_range_spec _ _ _ C02_ctor_rt_02.shard); lia|].
  destruct (Z_lt_ge_dec z 1350000) as [H3|H3]; [apply (all_range_spec _ _ _ C02_ctor_rt_03.shard); lia|].
  destruct (Z_lt_ge_dec z 1687500) as [H4|H4]; [apply (all_range_spec _ _ _ C02_ctor_rt_04.shard); lia|].
  destruct (Z_lt_ge_dec z 2025000) as [H5|H5]; [apply (all_range_spec _ _ _ C02_ctor_rt_05.shard); lia|].
  destruct (Z_lt_ge_dec z 2362500) as [H6|H6]; [apply (all_range_spec _ _ _ C02_ctor_rt_06.shard); lia|].
  destruct (Z_lt_ge_dec z 2700000) as [H7|H7]; [apply (all_range_spec _ _ _ C02_ctor_rt_07.shard); lia|].
  destruct (Z_lt_ge_dec z 3037500) as [H8|H8]; [apply (all_range_spec _ _ _ C02_ctor_rt_08.shard); lia|].
  destruct (Z_lt_ge_dec z 3375000) as [H9|H9]; [apply (all_range_spec _ _ _ C02_ctor_rt_09.shard); lia|].
  destruct (Z_lt_ge_dec z 3712500) as [H10|H10]; [apply (all_range_spec _ _ _ C02_ctor_rt_10.shard); lia|].
  destruct (Z_lt_ge_dec z 4050000) as [H11|H11]; [apply (all_range_spec _ _ _ C02_ctor_rt_11.shard); lia|].
  destruct (Z_lt_ge_dec z 4387500) as [H12|H12]; [apply (all_range_spec _ _ _ C02_ctor_rt_12.shard); lia|].
  destruct (Z_lt_ge_dec z 4725000) as [H13|H13]; [apply (all_range_spec _ _ _ C02_ctor_rt_13.shard); lia|].
  destruct (Z_lt_ge_dec z 5062500) as [H14|H14]; [apply (all_range_spec _ _ _ C02_ctor_rt_14.shard); lia|].
  apply (all_range_spec _ _ _ C02_ctor_rt_15.shard); lia.
Qed.

(* THE THEOREM.  Ideal (real-number) instance: for every real JDE j with -0.5 <= j < 5399999.5 (day numbers
   0 .. 5 399 999, i.e. 1 Jan -4712 .. year 10072) the constructor call Epoch(j) returns the Epoch that
   stores exactly j: the calendar round trip inside Epoch.set (get_full_date, then _compute_jde) is exact
   over the reals. *)
Theorem Epoch_ctor_exact_ideal : forall j : R, - (1 / 2) <= j < 5399999 + 1 / 2 ->
  Epoch___init__ Rops (VObj cEpoch [VNone]) (VTuple [VFloat j]) (VDict []) = VObj cEpoch [VFloat j].
Proof.
  intros j Hj.
  assert (Rlit 5 (-1) = 1 / 2) as L5 by (unfold Rlit; simpl; lra).
  assert (0 <= j + Rlit 5 (-1)) as H0 by (rewrite L5; lra).
  pose proof (Rfloor_spec (j + Rlit 5 (-1))) as Hfl.
  assert (0 <= Rfloor (j + Rlit 5 (-1)) < 5400000)%Z as Hz.
  { split; [apply Rfloor_nonneg; exact H0|]. apply lt_IZR. rewrite L5 in *. lra. }
  pose proof (rt_all _ Hz) as Hrt. unfold rt_ok in Hrt.
  destruct (gdZ (Rfloor (j + Rlit 5 (-1)))) as [[[y m] d]|] eqn:G; [|discriminate].
  apply andb_true_iff in Hrt. destruct Hrt as [Hd Hid].
  apply Z.leb_le in Hd. apply Z.eqb_eq in Hid.
  exact (ctor_from_parts j y m d H0 G Hd Hid).
Qed.

(* the same for e.set(j) on an Epoch in any state *)
Theorem Epoch_set_exact_ideal : forall j0 j : R, - (1 / 2) <= j < 5399999 + 1 / 2 ->
  Epoch_set Rops (VObj cEpoch [VFloat j0]) (VTuple [VFloat j]) (VDict []) = VTuple [VObj cEpoch [VFloat j]; VNone].
Proof.
  intros j0 j Hj.
  assert (Rlit 5 (-1) = 1 / 2) as L5 by (unfold Rlit; simpl; lra).
  assert (0 <= j + Rlit 5 (-1)) as H0 by (rewrite L5; lra).
  pose proof (Rfloor_spec (j + Rlit 5 (-1))) as Hfl.
  assert (0 <= Rfloor (j + Rlit 5 (-1)) < 5400000)%Z as Hz.
  { split; [apply Rfloor_nonneg; exact H0|]. apply lt_IZR. rewrite L5 in *. lra. }
  pose proof (rt_all _ Hz) as Hrt. unfold rt_ok in Hrt.
  destruct (gdZ (Rfloor (j + Rlit 5 (-1)))) as [[[y m] d]|] eqn:G; [|discriminate].
  apply andb_true_iff in Hrt. destruct Hrt as [Hd Hid].
  apply Z.leb_le in Hd. apply Z.eqb_eq in Hid.
  exact (set_from_parts j0 j y m d H0 G Hd Hid).
Qed.

(* ---- consequences: Epoch arithmetic in the ideal instance (the constructor is now a known function) ---- *)
Ltac2 Set Whnf.is_blocked as old4 := fun c =>
  Ltac2.Bool.or (old4 c) (Ltac2.Constr.equal c '@Epoch___init__).

Definition in_rng (a : R) : Prop := - (1 / 2) <= a < 5399999 + 1 / 2.
Ltac pyrunv_hook s tac ::=
  lazymatch s with
  | Epoch___init__ Rops (VObj cEpoch [VNone]) (VTuple [VFloat ?a]) (VDict []) =>
      rewrite (Epoch_ctor_exact_ideal a) by (first [ assumption | unfold in_rng in *; lra ])
  end.

Lemma add_ideal j x : in_rng (j + x) -> Epoch___add__ Rops (epr j) (VFloat x) = epr (j + x).
Proof. intro H. unfold Epoch___add__, epr. pyrunv. reflexivity. Qed.
Lemma add_int_ideal j n : in_rng (j + IZR n) -> Epoch___add__ Rops (epr j) (VInt n) = epr (j + IZR n).
Proof. intro H. unfold Epoch___add__, epr. pyrunv. reflexivity. Qed.
Lemma radd_ideal j x : in_rng (j + x) -> Epoch___radd__ Rops (epr j) (VFloat x) = epr (j + x).
Proof. intro H. unfold Epoch___radd__, Epoch___add__, epr. pyrunv. reflexivity. Qed.
Lemma sub_ideal j x : in_rng (j - x) -> Epoch___sub__ Rops (epr j) (VFloat x) = epr (j - x).
Proof. intro H. unfold Epoch___sub__, epr. pyrunv. reflexivity. Qed.
Lemma sub_int_ideal j n : in_rng (j - IZR n) -> Epoch___sub__ Rops (epr j) (VInt n) = epr (j - IZR n).
Proof. intro H. unfold Epoch___sub__, epr. pyrunv. reflexivity. Qed.
Lemma sub_epoch_ideal j j' : Epoch___sub__ Rops (epr j) (epr j') = VFloat (j - j').
Proof. unfold Epoch___sub__, epr. pyrunv. reflexivity. Qed.
Lemma iadd_ideal j x : in_rng (j + x) -> Epoch___iadd__ Rops (epr j) (VFloat x) = epr (j + x).
Proof. intro H. unfold Epoch___iadd__, epr. pyrunv. reflexivity. Qed.
Lemma isub_ideal j x : in_rng (j - x) -> Epoch___isub__ Rops (epr j) (VFloat x) = epr (j - x).
Proof. intro H. unfold Epoch___isub__, epr. pyrunv. reflexivity. Qed.
(* hence (e + x) - e = x and e - (e - x) = x exactly over the reals *)
Lemma add_sub_ideal j x : in_rng (j + x) ->
  Epoch___sub__ Rops (Epoch___add__ Rops (epr j) (VFloat x)) (epr j) = VFloat x.
Proof. intro H. rewrite (add_ideal j x H), (sub_epoch_ideal (j + x) j). f_equal. ring. Qed.
Lemma sub_sub_ideal j x : in_rng (j - x) ->
  Epoch___sub__ Rops (epr j) (Epoch___sub__ Rops (epr j) (VFloat x)) = VFloat x.
Proof. intro H. rewrite (sub_ideal j x H), (sub_epoch_ideal j (j - x)). f_equal. ring. Qed.

End CtorImpl.

(* ======================= exported statements (ideal instance, all reals in range) ======================= *)
(* range: day numbers 0 .. 5 399 999, i.e. 1 Jan -4712 (JDE -0.5) .. year 10072 *)
Definition jde_in_range (a : R) : Prop := - (1 / 2) <= a < 5399999 + 1 / 2.

Theorem Epoch_ctor_exact_ideal : forall j : R, jde_in_range j ->
  Epoch___init__ Rops (VObj cEpoch [VNone]) (VTuple [VFloat j]) (VDict []) = VObj cEpoch [VFloat j].
Proof. exact CtorImpl.Epoch_ctor_exact_ideal. Qed.

Theorem Epoch_set_exact_ideal : forall j0 j : R, jde_in_range j ->
  Epoch_set Rops (VObj cEpoch [VFloat j0]) (VTuple [VFloat j]) (VDict [])
  = VTuple [VObj cEpoch [VFloat j]; VNone].
Proof. exact CtorImpl.Epoch_set_exact_ideal. Qed.

Theorem Epoch_add_ideal : forall j x : R, jde_in_range (j + x) ->
  Epoch___add__ Rops (VObj cEpoch [VFloat j]) (VFloat x) = VObj cEpoch [VFloat (j + x)] /\
  Epoch___radd__ Rops (VObj cEpoch [VFloat j]) (VFloat x) = VObj cEpoch [VFloat (j + x)] /\
  Epoch___iadd__ Rops (VObj cEpoch [VFloat j]) (VFloat x) = VObj cEpoch [VFloat (j + x)].
Proof.
  intros j x H. split; [exact (CtorImpl.add_ideal j x H)|].
  split; [exact (CtorImpl.radd_ideal j x H) | exact (CtorImpl.iadd_ideal j x H)].
Qed.

Theorem Epoch_sub_ideal : forall j x : R, jde_in_range (j - x) ->
  Epoch___sub__ Rops (VObj cEpoch [VFloat j]) (VFloat x) = VObj cEpoch [VFloat (j - x)] /\
  Epoch___isub__ Rops (VObj cEpoch [VFloat j]) (VFloat x) = VObj cEpoch [VFloat (j - x)].
Proof.
  intros j x H. split; [exact (CtorImpl.sub_ideal j x H) | exact (CtorImpl.isub_ideal j x H)].
Qed.

Theorem Epoch_add_int_ideal : forall (j : R) (n : Z), jde_in_range (j + IZR n) ->
  Epoch___add__ Rops (VObj cEpoch [VFloat j]) (VInt n) = VObj cEpoch [VFloat (j + IZR n)].
Proof. exact CtorImpl.add_int_ideal. Qed.
Theorem Epoch_sub_int_ideal : forall (j : R) (n : Z), jde_in_range (j - IZR n) ->
  Epoch___sub__ Rops (VObj cEpoch [VFloat j]) (VInt n) = VObj cEpoch [VFloat (j - IZR n)].
Proof. exact CtorImpl.sub_int_ideal. Qed.

Theorem Epoch_diff_ideal : forall j j' : R,
  Epoch___sub__ Rops (VObj cEpoch [VFloat j]) (VObj cEpoch [VFloat j']) = VFloat (j - j').
Proof. exact CtorImpl.sub_epoch_ideal. Qed.

(* (e + x) - e = x and e - (e - x) = x, exactly, for all reals in range *)
Theorem Epoch_translation_ideal : forall j x : R,
  (jde_in_range (j + x) ->
     Epoch___sub__ Rops (Epoch___add__ Rops (VObj cEpoch [VFloat j]) (VFloat x)) (VObj cEpoch [VFloat j]) = VFloat x) /\
  (jde_in_range (j - x) ->
     Epoch___sub__ Rops (VObj cEpoch [VFloat j]) (Epoch___sub__ Rops (VObj cEpoch [VFloat j]) (VFloat x)) = VFloat x).
Proof.
  intros j x. split; intro H; [exact (CtorImpl.add_sub_ideal j x H) | exact (CtorImpl.sub_sub_ideal j x H)].
Qed.
