(* C02 ctor shard: decode/encode round trip of the integer calendar arithmetic on day numbers 3712500 .. 4049999
   - by kernel computation (vm_compute checked at Qed) *)
From Coq Require Import ZArith NArith.
From PyLib Require Import Range.
From Proofs.C02 Require Import C02_ctor_spec.
Open Scope Z_scope.
Lemma shard : all_range 3712500 337500%N rt_ok = true.
Proof. vm_cast_no_check (@eq_refl bool true). Qed.
