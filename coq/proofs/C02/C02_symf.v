(* C02: input forms of Epoch(...) / Epoch.set, for ALL argument values (valid or not: then
   the same exception) in EVERY FloatOps instance (binary64: all floats; ideal: all reals).
   Proofs: both sides are evaluated symbolically (weak-head steps of the generated text, no
   numbered wrapper is named) until they are the same term. *)
From Coq Require Import ZArith NArith List Bool String PrimFloat.
From PyLib Require Import PyVal PyBuiltins B64 Ideal PyEval.
From Gen Require Import M_base M_Angle M_Epoch.
From Proofs.C02 Require Import C02_defs.
Import ListNotations.
Open Scope Z_scope.

(* every conversion is under a tactic timeout: when the code changes and the two sides are no
   longer the same term, the proof FAILS within seconds instead of normalising open terms *)
Ltac rfl := timeout 30 reflexivity.
Ltac step := whnf_lhs; lazymatch goal with |- bind ?e ?k = _ => rewrite (bind_ok e k) by rfl; cbv beta end.
Ltac both t := t; symmetry; t; symmetry.
(* Epoch.__init__: strip the identical outer frame, then run Epoch.set on both sides up to the
   first call whose argument values are unknown (_check_values / get_full_date) *)
Ltac forms_eq :=
  unfold mkEg, mkE, blankg, epg, ep; both step; both whnf_lhs;
  lazymatch goal with |- bind ?x ?k = bind ?y ?k' => assert (x = y) as ->; [|rfl] end;
  both step; both whnf_lhs; rfl.

Section Generic.
Context {F : Type} (fo : FloatOps F).
Notation val := (PyVal.val F).

Lemma tuple3 a b c : mkEg fo [VTuple [a; b; c]] = mkEg fo [a; b; c].
Proof. forms_eq. Qed.
Lemma tuple4 a b c d : mkEg fo [VTuple [a; b; c; d]] = mkEg fo [a; b; c; d].
Proof. forms_eq. Qed.
Lemma tuple5 a b c d e : mkEg fo [VTuple [a; b; c; d; e]] = mkEg fo [a; b; c; d; e].
Proof. forms_eq. Qed.
Lemma tuple6 a b c d e f : mkEg fo [VTuple [a; b; c; d; e; f]] = mkEg fo [a; b; c; d; e; f].
Proof. forms_eq. Qed.
Lemma list3 a b c : mkEg fo [VList [a; b; c]] = mkEg fo [a; b; c].
Proof. forms_eq. Qed.
Lemma list4 a b c d : mkEg fo [VList [a; b; c; d]] = mkEg fo [a; b; c; d].
Proof. forms_eq. Qed.
Lemma list5 a b c d e : mkEg fo [VList [a; b; c; d; e]] = mkEg fo [a; b; c; d; e].
Proof. forms_eq. Qed.
Lemma list6 a b c d e f : mkEg fo [VList [a; b; c; d; e; f]] = mkEg fo [a; b; c; d; e; f].
Proof. forms_eq. Qed.
Lemma date3 y m d : mkEg fo [VObj cDate [VInt y; VInt m; VInt d]] = mkEg fo [VInt y; VInt m; VInt d].
Proof. forms_eq. Qed.
(* copy of another Epoch = construction from its JDE *)
Lemma copy1 j : mkEg fo [epg j] = mkEg fo [VFloat j].
Proof.
  unfold mkEg, blankg, epg; both step; both whnf_lhs.
  lazymatch goal with |- bind ?x ?k = bind ?y ?k' => assert (x = y) as ->; [|rfl] end.
  both step; both whnf_lhs. both step; both whnf_lhs. rfl.
Qed.
(* two arguments: ValueError; a string: TypeError *)
Lemma two_args a b : is_err a = false -> is_err b = false -> mkEg fo [a; b] = VErr ValueError.
Proof. destruct a, b; cbn [is_err]; intros; try discriminate; rfl. Qed.
Lemma str_arg s : mkEg fo [VStr s] = VErr TypeError.
Proof. rfl. Qed.
End Generic.

(* datetime: second + microsecond / 1e6 is what a float-seconds argument would be (binary64) *)
Lemma datetime7 y m d h mi s us :
  mkE [VObj cDateTime [VInt y; VInt m; VInt d; VInt h; VInt mi; VInt s; VInt us]]
  = mkE [VInt y; VInt m; VInt d; VInt h; VInt mi; VFloat (sec_of s us)].
Proof. forms_eq. Qed.
