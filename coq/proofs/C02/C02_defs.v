(* C02: executable checks relating the GENERATED model of Epoch (binary64 instance B0,
   no libm involved) to the independent calendar spec (Spec.CalSpec.jdn / CivilOfJdn),
   and the sample grids that appear in the statements of C02.v. *)
From Coq Require Import ZArith NArith List Bool String Lia PrimFloat.
From PyLib Require Import PyVal PyBuiltins B64 B64Facts Range.
From Spec Require Import CalSpec CivilOfJdn.
From Gen Require Import M_base M_Angle M_Epoch.
Import ListNotations.
Open Scope Z_scope.

(* ---- vocabulary, any FloatOps instance ---- *)
Definition epg {F} (j : F) : val F := VObj cEpoch [VFloat j].
Definition blankg {F} : val F := VObj cEpoch [VNone].
Definition mkEg {F} (fo : FloatOps F) (args : list (val F)) : val F :=
  Epoch___init__ fo blankg (VTuple args) (VDict []).

(* ---- binary64 instance ---- *)
Definition fval := val float.
Definition ep (j : float) : fval := VObj cEpoch [VFloat j].
Definition mkE (args : list fval) : fval := Epoch___init__ B0 (VObj cEpoch [VNone]) (VTuple args) (VDict []).
Definition get_date (e : fval) : fval := Epoch_get_date B0 e (VDict []).
Definition get_full (e : fval) : fval := Epoch_get_full_date B0 e (VDict []).
Definition set_on (e : fval) (args : list fval) : fval := Epoch_set B0 e (VTuple args) (VDict []).
Definition cid (args : list fval) : fval := Epoch_check_input_date B0 (VTuple args) (VDict []).
Definition e_add (e x : fval) : fval := Epoch___add__ B0 e x.
Definition e_radd (e x : fval) : fval := Epoch___radd__ B0 e x.
Definition e_sub (e x : fval) : fval := Epoch___sub__ B0 e x.
Definition e_iadd (e x : fval) : fval := Epoch___iadd__ B0 e x.
Definition e_isub (e x : fval) : fval := Epoch___isub__ B0 e x.

(* JDE at 0h of the civil day whose Julian Day Number (at noon) is n *)
Definition jde_of (n : Z) : float := (b64_of_Z n - 0.5)%float.
Definition date_tuple (y m d : Z) : fval := VTuple [VInt y; VInt m; VFloat (b64_of_Z d)].
Definition ZF (n : Z) : float := b64_of_Z n.

Definition tol8 : float := (1 / 100000000)%float.    (* 1e-8 day *)
Definition tol9 : float := (1 / 1000000000)%float.   (* 1e-9 day *)
Definition close (tol a b : float) : bool := (abs (a - b) <=? tol)%float.

(* ================= (a) day walk: every day number, by stepping Spec.next ================= *)
Definition wstate := (Z * Z * Z * Z * bool)%type.
Definition walk_step (f : Z -> Z -> Z -> Z -> bool) (st : wstate) : wstate :=
  let '(z, y, m, d, b) := st in
  let '(y', m', d') := next y m d in (z + 1, y', m', d', b && f z y m d).
(* f z y m d holds for the n days starting at day number z0 (whose civil date is computed
   by civil_of_jdn and CHECKED against jdn/valid) *)
Definition walk (z0 : Z) (n : N) (f : Z -> Z -> Z -> Z -> bool) : bool :=
  let '(y0, m0, d0) := civil_of_jdn z0 in
  civil_ok z0 &&
  let '(_, _, _, _, b) := N.iter n (walk_step f) (z0, y0, m0, d0, true) in b.

Lemma walk_inv f z0 y0 m0 d0 : valid y0 m0 d0 = true -> jdn y0 m0 d0 = z0 -> forall n,
  exists y m d b, N.iter n (walk_step f) (z0, y0, m0, d0, true) = (z0 + Z.of_N n, y, m, d, b)
    /\ valid y m d = true /\ jdn y m d = z0 + Z.of_N n
    /\ (b = true -> forall z y' m' d', z0 <= z < z0 + Z.of_N n ->
          valid y' m' d' = true -> jdn y' m' d' = z -> f z y' m' d' = true).
Proof.
  intros V0 J0 n. induction n as [|n IH] using N.peano_ind.
  - exists y0, m0, d0, true. simpl. rewrite Z.add_0_r.
    repeat split; try assumption. intros _ z y' m' d' Hz. lia.
  - destruct IH as (y & m & d & b & E & V & J & H).
    rewrite N.iter_succ, E. unfold walk_step.
    pose proof (next_valid y m d V) as NV. pose proof (jdn_next y m d V) as NJ.
    destruct (next y m d) as [[y' m'] d'].
    exists y', m', d', (b && f (z0 + Z.of_N n) y m d).
    rewrite N2Z.inj_succ.
    split; [f_equal; f_equal; f_equal; f_equal; lia|].
    split; [exact NV|]. split; [rewrite NJ, J; lia|].
    intros Hb z y2 m2 d2 Hz V2 J2. apply andb_true_iff in Hb. destruct Hb as [Hb Hf].
    destruct (Z.eq_dec z (z0 + Z.of_N n)) as [->|Hne].
    + assert ((y2, m2, d2) = (y, m, d)) as Heq by (apply jdn_inj; try assumption; congruence).
      inversion Heq; subst. exact Hf.
    + apply (H Hb); try assumption. lia.
Qed.

Theorem walk_spec z0 n f : walk z0 n f = true ->
  forall z y m d, z0 <= z < z0 + Z.of_N n -> valid y m d = true -> jdn y m d = z -> f z y m d = true.
Proof.
  unfold walk. intro H. pose proof (civil_ok_spec z0) as C.
  destruct (civil_of_jdn z0) as [[y0 m0] d0].
  apply andb_true_iff in H. destruct H as [Hc H]. specialize (C Hc). destruct C as [V0 J0].
  destruct (walk_inv f z0 y0 m0 d0 V0 J0 n) as (y & m & d & b & E & _ & _ & Hall).
  rewrite E in H. subst b. exact (Hall eq_refl).
Qed.

(* get_date at 0h of day z returns exactly the civil date (y, m, d) of z *)
Definition chk_day (z y m d : Z) : bool :=
  val_eqb (get_date (ep (jde_of z))) (date_tuple y m d).

(* ================= sample grids (they appear in the statements) ================= *)
(* sampled years: every 97th year -4712, -4615, ..., 10032 (153 years) and the special ones *)
Definition year_k (k : Z) : Z := -4712 + 97 * k.
Definition n_years : N := 153%N.
Definition special_years : list Z := [-4712; -1; 0; 1; 4; 1500; 1581; 1582; 1583; 1600; 1700; 1858; 1900;
                                      1972; 1999; 2000; 2024; 2100; 2400; 6000; 9999; 10071].
Definition months : list Z := [1; 2; 3; 4; 5; 6; 7; 8; 9; 10; 11; 12].
(* sampled day numbers of a year: first day of every month and the day before it *)
Definition zs_of_year (y : Z) : list Z :=
  flat_map (fun m => [jdn y m 1 - 1; jdn y m 1]) months.
(* day fractions *)
Definition fracs : list float :=
  [0; 1 / 1000000000; 1 / 1000000; 1 / 86400; 1 / 1440; 1 / 24; 0.25; 1 / 3; 0.5;
   0.5 - 1 / 1000000000; 43199 / 86400; 0.75; 86399 / 86400; 1 - 1 / 1000000;
   1 - 1 / 100000000; 1 - 1 / 1000000000]%float.

(* ================= (a) full date at (day z) + fraction ================= *)
Definition int_at (v : fval) (i : nat) : Z :=
  match v with VTuple l => match nth i l VNone with VInt n => n | _ => -1 end | _ => -1 end.
Definition flt_at (v : fval) (i : nat) : float :=
  match v with VTuple l => match nth i l VNone with VFloat x => x | _ => nan end | _ => nan end.
(* the JDE stored in an Epoch object (nan for anything else) and "v is an Epoch object" *)
Definition jv (v : fval) : float := match v with VObj _ [VFloat j] => j | _ => nan end.
Definition is_ep (v : fval) : bool := val_eqb v (ep (jv v)).
(* j = jde_of z + fr lies inside day z; get_full_date returns the civil date of z, fields in
   canonical range; rebuilding an Epoch from the six fields gives a JDE within 1e-8 of j, and
   that Epoch is exactly what Epoch(j) is *)
Definition chk_full (z y m d : Z) (fr : float) : bool :=
  let j := (jde_of z + fr)%float in
  let r := get_full (ep j) in
  let h := int_at r 3 in let mi := int_at r 4 in let s := flt_at r 5 in
  let e := mkE [VInt y; VInt m; VInt d; VInt h; VInt mi; VFloat s] in
  (jde_of z <=? j)%float && (j <? jde_of (z + 1))%float
  && val_eqb r (VTuple [VInt y; VInt m; VInt d; VInt h; VInt mi; VFloat s])
  && (0 <=? h) && (h <=? 23) && (0 <=? mi) && (mi <=? 59) && (0 <=? s)%float && (s <? 60)%float
  && is_ep e && val_eqb (mkE [VFloat j]) e && close tol8 (jv e) j.
Definition chk_full_z (z : Z) (fr : float) : bool :=
  if z <? 0 then true else
  let '(y, m, d) := civil_of_jdn z in civil_ok z && chk_full z y m d fr.
Definition chk_full_year (y : Z) : bool :=
  forallb (fun z => forallb (chk_full_z z) fracs) (zs_of_year y).
(* ================= (b) input forms ================= *)
Definition times : list (Z * Z * Z * Z) :=
  [(0, 0, 0, 0); (6, 30, 15, 500000); (23, 59, 59, 999999); (12, 0, 1, 1)].
Definition sec_of (si us : Z) : float := (ZF si + ZF us / 1000000)%float.
Definition other_state : fval := ep 12345.5%float.
Definition six_of (y m d : Z) (t : Z * Z * Z * Z) : list fval :=
  let '(h, mi, si, us) := t in [VInt y; VInt m; VInt d; VInt h; VInt mi; VFloat (sec_of si us)].
Definition dt_of (y m d : Z) (t : Z * Z * Z * Z) : fval :=
  let '(h, mi, si, us) := t in VObj cDateTime [VInt y; VInt m; VInt d; VInt h; VInt mi; VInt si; VInt us].
(* the same instant with the time of day folded into a fractional day *)
Definition fracday_of (y m d : Z) (t : Z * Z * Z * Z) : list fval :=
  let '(h, mi, si, us) := t in
  [VInt y; VInt m; VFloat (ZF d + (ZF (3600 * h + 60 * mi) + sec_of si us) / 86400)%float].

Definition chk_forms (y m d : Z) (t : Z * Z * Z * Z) : bool :=
  let six := six_of y m d t in
  let A := mkE six in
  let D := mkE [VInt y; VInt m; VInt d] in
  let C := mkE [A] in
  let Fd := mkE (fracday_of y m d t) in
  is_ep A && is_ep D && is_ep C && is_ep Fd
  (* tuple, list, datetime (seconds + microseconds), date *)
  && val_eqb (mkE [VTuple six]) A && val_eqb (mkE [VList six]) A
  && val_eqb (mkE [dt_of y m d t]) A
  && val_eqb (mkE [VObj cDate [VInt y; VInt m; VInt d]]) D
  (* copy of another Epoch: the same as Epoch(jde), within 1e-9 of the original *)
  && val_eqb C (mkE [VFloat (jv A)]) && close tol9 (jv C) (jv A)
  (* set() on an object in another state = constructor *)
  && val_eqb (set_on other_state six) (VTuple [A; VNone])
  && val_eqb (set_on other_state [VTuple six]) (VTuple [A; VNone])
  && val_eqb (set_on other_state [VFloat (jv A)]) (VTuple [C; VNone])
  && val_eqb (set_on other_state [A]) (VTuple [C; VNone])
  (* fractional day versus h/m/s: within 1e-9 day *)
  && close tol9 (jv Fd) (jv A)
  (* check_input_date: separate numbers, tuple, list, date, datetime, Epoch = the constructor *)
  && val_eqb (cid six) A
  && val_eqb (cid [VInt y; VInt m; VInt d]) D
  && val_eqb (cid [VTuple six]) A
  && val_eqb (cid [VList six]) A
  && val_eqb (cid [VObj cDate [VInt y; VInt m; VInt d]]) D
  && val_eqb (cid [dt_of y m d t]) A
  && val_eqb (cid [A]) A.
Definition chk_forms_month (y m : Z) : bool :=
  forallb (fun d => forallb (chk_forms y m d) times) [1; mlen y m].
Definition chk_forms_year (y : Z) : bool := forallb (chk_forms_month y) months.
(* the two days around the reform *)
Definition chk_forms_reform : bool :=
  forallb (chk_forms 1582 10 4) times && forallb (chk_forms 1582 10 15) times.

(* ================= (c) arithmetic ================= *)
Definition offsets : list fval :=
  [VFloat 0; VFloat 1; VFloat (-1); VInt 1; VInt (-7); VFloat 0.5; VFloat (-0.25); VFloat (1 / 1000);
   VFloat 365.25; VFloat (-36525); VFloat 1000000; VFloat (-1000000); VInt 1000000;
   VFloat (1 / 86400); VFloat (1 / 10); VFloat (- (1 / 3))]%float.
Definition fracs3 : list float := [0; 0.5 - 1 / 1000000000; 1 - 1 / 1000000000]%float.
Definition off_float (x : fval) : float :=
  match x with VFloat f => f | VInt n => ZF n | _ => nan end.
Definition in_range (j : float) : bool := (0 <=? j)%float && (j <=? 5400000)%float.

Definition flt_of (v : fval) : float := match v with VFloat f => f | _ => nan end.
Definition is_flt (v : fval) : bool := val_eqb v (VFloat (flt_of v)).
(* (e + x) - e = x and e - (e - x) = x to 1e-8 day; e + x is exactly Epoch(jde + x);
   x + e and e += x give the same object as e + x, e -= x the same as e - x *)
Definition chk_add (j : float) (x : fval) : bool :=
  let xf := off_float x in
  let s := e_add (ep j) x in
  let dl := e_sub s (ep j) in
  is_ep s && val_eqb s (mkE [VFloat (j + xf)%float]) && val_eqb (e_radd (ep j) x) s && val_eqb (e_iadd (ep j) x) s
  && is_flt dl && close tol8 (flt_of dl) xf.
Definition chk_sub (j : float) (x : fval) : bool :=
  let xf := off_float x in
  let s := e_sub (ep j) x in
  let dl := e_sub (ep j) s in
  is_ep s && val_eqb s (mkE [VFloat (j - xf)%float]) && val_eqb (e_isub (ep j) x) s && is_flt dl && close tol8 (flt_of dl) xf.
Definition chk_arith (j : float) (x : fval) : bool :=
  (if in_range (j + off_float x) then chk_add j x else true) &&
  (if in_range (j - off_float x) then chk_sub j x else true).
Definition chk_arith_year (y : Z) : bool :=
  forallb (fun m => forallb (fun fr => forallb (chk_arith (jde_of (jdn y m 1) + fr)%float) offsets) fracs3) months.
