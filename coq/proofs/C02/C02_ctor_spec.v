(* C02_ctor_spec: integer-level mirror of the calendar arithmetic inside Epoch.get_date (gdZ) and
   Epoch._compute_jde (cjZ): the floors of the decimal rational functions written as integer divisions.
   rt_ok z says that decoding day number z and re-encoding the date gives z again; it is established for
   every 0 <= z < 5 400 000 by kernel computation (C02_ctor_rt_*.v).  Pure Z; no model involved: the tie to
   the generated code is C02_ctor_ideal.v. *)
From Coq Require Import ZArith Bool.
Open Scope Z_scope.

Definition zA (z : Z) : Z :=
  if z <? 2299161 then z else
  let alpha := (100 * z - 186721625) / 3652425 in z + 1 + alpha - alpha / 4.
(* (year, month, integer day) that get_date derives from the day number z *)
Definition gdZ (z : Z) : option (Z * Z * Z) :=
  let b := zA z + 1524 in
  let c := (100 * b - 12210) / 36525 in
  let d := 36525 * c / 100 in
  let e := 10000 * (b - d) / 306001 in
  let day := b - d - 306001 * e / 10000 in
  let fin (m : Z) : option (Z * Z * Z) :=
    if m >? 2 then Some (c - 4716, m, day)
    else if m =? 1 then Some (c - 4715, m, day)
    else if m =? 2 then Some (c - 4715, m, day) else None in
  if e <? 14 then fin (e - 1)
  else if e =? 14 then fin (e - 13)
  else if e =? 15 then fin (e - 13) else None.

Definition isjulZ (y m k : Z) : bool :=
  (y <? 1582) || ((y =? 1582) && (m <? 10)) || ((y =? 1582) && ((m =? 10) && (k <? 5))).
(* integer part of _compute_jde: jde = cjZ y m (floor day) + day - 1524.5 *)
Definition cjZ (y m k : Z) : Z :=
  let y' := if m <=? 2 then y - 1 else y in
  let m' := if m <=? 2 then m + 12 else m in
  let a := y' / 100 in
  let b := if isjulZ y' m' k then 0 else 2 - a + a / 4 in
  36525 * (y' + 4716) / 100 + 306001 * (m' + 1) / 10000 + b.

Definition rt_ok (z : Z) : bool :=
  match gdZ z with
  | Some (y, m, d) => (0 <=? d) && (cjZ y m d + d - 1524 =? z)
  | None => false
  end.
