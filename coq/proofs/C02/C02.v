(* Property C02 - Instants survive JDE <-> date/time; input forms agree; Epoch arithmetic.
   This file holds only the statements; proofs are in C02_main.v (kernel computations over the
   stated finite domains, binary64 instance B0), C02_sym.v / C02_symf.v (symbolic, every
   FloatOps instance, all argument values).  The model (Epoch___init__, Epoch_get_date, ...) is
   regenerated from /repo on every run; vocabulary (mkE, ep, get_date, get_full, set_on, cid,
   the grids year_k / special_years / zs_of_year / fracs / times / offsets) is in C02_defs.v. *)
From Coq Require Import ZArith List String Reals PrimFloat.
From PyLib Require Import PyVal PyBuiltins B64 B64Facts B64Verified Ideal.
From Spec Require Import CalSpec CivilOfJdn.
From Gen Require Import M_base M_Angle M_Epoch.
From Proofs.C02 Require Import C02_defs C02_sym C02_symf C02_main C02_hms C02_arith.
From Proofs.C02 Require C02_ctor_ideal.
Import ListNotations.
Open Scope Z_scope.

(* (a) INTEGER DAY NUMBERS AT 0h ONLY (not "any instant"): for EVERY day number
   0 <= z < 5 400 000 (years -4712 .. 10072): Epoch(z - 0.5).get_date()
   is exactly the valid civil date whose independent day count is z (such a date exists and is
   unique for every z >= 0: CivilOfJdn.jdn_surj, CalSpec.jdn_inj). *)
Theorem C02_date_of_day : forall z y m d, 0 <= z < 5400000 -> valid y m d = true -> jdn y m d = z ->
  get_date (ep (jde_of z)) = VTuple [VInt y; VInt m; VFloat (b64_of_Z d)].
Proof. exact date_of_day. Qed.

(* ... hence the date tuple strictly increases from one day (at 0h) to a later day (at 0h);
   nothing is proved about two instants inside one day *)
Theorem C02_date_monotone : forall z z', 0 <= z -> z < z' -> z' < 5400000 ->
  exists y m d y' m' d',
    get_date (ep (jde_of z)) = date_tuple y m d /\ get_date (ep (jde_of z')) = date_tuple y' m' d' /\
    date_lt y m d y' m' d'.
Proof. exact date_monotone. Qed.

(* (a) A GRID, not "any instant": JDE -> (y, m, d, h, mi, s) -> JDE on the grid {first day of each month, day before} x
   {16 day fractions from 0 to 1 - 1e-9} of 153 + 22 years, and every day around the reform:
   the date is the civil date of the day, 0<=h<=23, 0<=mi<=59, 0<=s<60, the Epoch rebuilt from
   the six fields is within 1e-8 day of the JDE and is what Epoch(JDE) returns (see full_ok) *)
Theorem C02_full_date_grid :
  (forall k z fr, 0 <= k < 153 -> In z (zs_of_year (year_k k)) -> 0 <= z -> In fr fracs -> full_ok z fr) /\
  (forall y z fr, In y special_years -> In z (zs_of_year y) -> 0 <= z -> In fr fracs -> full_ok z fr) /\
  (forall z fr, 2299150 <= z < 2299172 -> In fr fracs -> full_ok z fr).
Proof. exact (conj full_grid (conj full_special full_reform)). Qed.

(* (a) field ranges for EVERY float, not a grid: whenever get_date returns (int, int, finite day
   value in [0, 1000]) -- the shape it really returns, see the witness below and full_ok on the
   grid -- get_full_date returns the same year and month, day = int(day value), and
   hour in 0..23, minute in 0..59, 0 <= second < 60 (never 60.0, never hour 24).
   Float rounding is handled with Flocq (B64Verified): fl(r*24) < 24, fl(r*60) < 60, fl(60*q) < 60
   for every float r, q in [0, 1), and p - int(p) is exact.  The premise about get_date is NOT
   discharged for arbitrary JDE (only at 0h of every day by C02_date_of_day and on the grid). *)
Theorem C02_fields_every_float : forall j y m d,
  Epoch_get_date B0 (ep j) (VDict []) = VTuple [VInt y; VInt m; VFloat d] ->
  PrimFloat.is_finite d = true -> (0 <=? d)%float = true -> (d <=? 1000)%float = true ->
  exists h mi s,
    Epoch_get_full_date B0 (ep j) (VDict [])
      = VTuple [VInt y; VInt m; VInt (b64_trunc d); VInt h; VInt mi; VFloat s] /\
    0 <= h <= 23 /\ 0 <= mi <= 59 /\ (0 <=? s)%float = true /\ (s <? 60)%float = true.
Proof. exact full_date_fields_b. Qed.
(* non-vacuity: the premises are attained by the model (2000-01-01 18h) *)
Theorem C02_fields_premise_attained :
  Epoch_get_date B0 (ep 2451545.25%float) (VDict []) = VTuple [VInt 2000; VInt 1; VFloat 1.75%float] /\
  PrimFloat.is_finite 1.75%float = true /\ (0 <=? 1.75)%float = true /\ (1.75 <=? 1000)%float = true.
Proof. exact full_date_fields_witness. Qed.

(* (b) input forms, ALL argument values, every FloatOps instance: a tuple or list of 3..6 items,
   a date, a copy of another Epoch give the same result as the separate numbers / the JDE *)
Theorem C02_input_forms_all : forall (F : Type) (fo : FloatOps F) (a b c d e f : val F) (y m dd : Z) (j : F),
  mkEg fo [VTuple [a; b; c]] = mkEg fo [a; b; c] /\
  mkEg fo [VTuple [a; b; c; d]] = mkEg fo [a; b; c; d] /\
  mkEg fo [VTuple [a; b; c; d; e]] = mkEg fo [a; b; c; d; e] /\
  mkEg fo [VTuple [a; b; c; d; e; f]] = mkEg fo [a; b; c; d; e; f] /\
  mkEg fo [VList [a; b; c]] = mkEg fo [a; b; c] /\
  mkEg fo [VList [a; b; c; d]] = mkEg fo [a; b; c; d] /\
  mkEg fo [VList [a; b; c; d; e]] = mkEg fo [a; b; c; d; e] /\
  mkEg fo [VList [a; b; c; d; e; f]] = mkEg fo [a; b; c; d; e; f] /\
  mkEg fo [VObj cDate [VInt y; VInt m; VInt dd]] = mkEg fo [VInt y; VInt m; VInt dd] /\
  mkEg fo [epg j] = mkEg fo [VFloat j].
Proof.
  intros. repeat apply conj.
  - apply tuple3. - apply tuple4. - apply tuple5. - apply tuple6.
  - apply list3. - apply list4. - apply list5. - apply list6.
  - apply date3. - apply copy1.
Qed.

(* datetime (binary64, all integers): second + microsecond/1e6 plays the role of float seconds *)
Theorem C02_datetime : forall y m d h mi s us,
  mkE [VObj cDateTime [VInt y; VInt m; VInt d; VInt h; VInt mi; VInt s; VInt us]]
  = mkE [VInt y; VInt m; VInt d; VInt h; VInt mi; VFloat (b64_of_Z s + b64_of_Z us / 1000000)%float].
Proof. exact datetime7. Qed.

(* (b) on the grid 175 years x 12 months x {first, last day} x 4 times of day (+ 4 and 15 Oct
   1582): all forms give an Epoch; tuple/list/datetime/date agree exactly; copy and fractional
   day agree to 1e-9 day; set() on an object in another state = constructor;
   check_input_date = constructor for every form (see forms_ok) *)
Theorem C02_forms_grid :
  (forall k m d t, 0 <= k < 153 -> In m months -> (d = 1 \/ d = mlen (year_k k) m) -> In t times ->
     forms_ok (year_k k) m d t) /\
  (forall y m d t, In y special_years -> In m months -> (d = 1 \/ d = mlen y m) -> In t times ->
     forms_ok y m d t) /\
  (forall d t, (d = 4 \/ d = 15) -> In t times -> forms_ok 1582 10 d t).
Proof. exact (conj forms_grid (conj forms_special forms_reform)). Qed.

(* (c)(d) operators, every FloatOps instance (binary64: all floats; ideal: all reals).
   NOTE what this does and does not say: e +/- x is only REDUCED to the constructor call
   Epoch(jde +/- x) (mkEg fo [VFloat ...]); what that constructor call returns (and hence
   (e + x) - e = x) is characterised only on the binary64 grids of C02_full_date_grid /
   C02_arith_grid, nowhere else.
   comparisons are the comparisons of the JDEs, == is |difference| < TOL, != its negation;
   Epoch - Epoch is the difference; Epoch +/- x is Epoch(jde +/- x); x + Epoch = Epoch + x;
   the in-place forms += / -= return what + / - return *)
Theorem C02_operators : forall (F : Type) (fo : FloatOps F) (a b : F),
  Epoch___lt__ fo (epg a) (epg b) = VBool (f_ltb fo a b) /\
  Epoch___gt__ fo (epg a) (epg b) = VBool (f_ltb fo b a) /\
  Epoch___le__ fo (epg a) (epg b) = VBool (negb (f_ltb fo b a)) /\
  Epoch___ge__ fo (epg a) (epg b) = VBool (negb (f_ltb fo a b)) /\
  Epoch___eq__ fo (epg a) (epg b) = VBool (f_ltb fo (f_abs fo (f_sub fo a b)) (tolv fo)) /\
  Epoch___ne__ fo (epg a) (epg b) = VBool (negb (f_ltb fo (f_abs fo (f_sub fo a b)) (tolv fo))) /\
  Epoch___lt__ fo (epg a) (VFloat b) = VBool (f_ltb fo a b) /\
  Epoch___gt__ fo (epg a) (VFloat b) = VBool (f_ltb fo b a) /\
  Epoch___eq__ fo (epg a) (VFloat b) = VBool (f_ltb fo (f_abs fo (f_sub fo a b)) (tolv fo)) /\
  Epoch___sub__ fo (epg a) (epg b) = VFloat (f_sub fo a b) /\
  Epoch___add__ fo (epg a) (VFloat b) = mkEg fo [VFloat (f_add fo a b)] /\
  Epoch___sub__ fo (epg a) (VFloat b) = mkEg fo [VFloat (f_sub fo a b)] /\
  Epoch___radd__ fo (epg a) (VFloat b) = Epoch___add__ fo (epg a) (VFloat b) /\
  (forall n, Epoch___radd__ fo (epg a) (VInt n) = Epoch___add__ fo (epg a) (VInt n)) /\
  Epoch___iadd__ fo (epg a) (VFloat b) = Epoch___add__ fo (epg a) (VFloat b) /\
  Epoch___isub__ fo (epg a) (VFloat b) = Epoch___sub__ fo (epg a) (VFloat b) /\
  (forall n, Epoch___iadd__ fo (epg a) (VInt n) = Epoch___add__ fo (epg a) (VInt n)) /\
  (forall n, Epoch___isub__ fo (epg a) (VInt n) = Epoch___sub__ fo (epg a) (VInt n)) /\
  (forall n, Epoch___add__ fo (epg a) (VInt n) = mkEg fo [VFloat (f_add fo a (f_of_Z fo n))]) /\
  (forall n, Epoch___sub__ fo (epg a) (VInt n) = mkEg fo [VFloat (f_sub fo a (f_of_Z fo n))]) /\
  (forall v, not_comparable v -> Epoch___lt__ fo (epg a) v = VErr TypeError /\
                                 Epoch___eq__ fo (epg a) v = VErr TypeError /\
                                 Epoch___add__ fo (epg a) v = VErr TypeError /\
                                 Epoch___iadd__ fo (epg a) v = VErr TypeError /\
                                 Epoch___isub__ fo (epg a) v = VErr TypeError).
Proof.
  intros. repeat apply conj.
  - apply lt_ee. - apply gt_ee. - apply le_ee. - apply ge_ee. - apply eq_ee. - apply ne_ee.
  - apply lt_ef. - apply gt_ef. - apply eq_ef. - apply sub_ee. - apply add_ef. - apply sub_ef.
  - apply radd_ef. - intro; apply radd_ei. - apply iadd_ef. - apply isub_ef. - intro; apply iadd_ei. - intro; apply isub_ei.
  - intro; apply add_ei. - intro; apply sub_ei.
  - intros v Hv. destruct (cmp_type_error fo a v Hv) as (H1 & _ & _ & _ & H5 & _).
    destruct (add_type_error fo a v Hv) as (H7 & _ & _ & H8 & H9). auto.
Qed.

(* (c) binary64, grid 175 years x 12 month starts x 3 fractions x 16 offsets (|x| <= 1e6, int and
   float): whenever jde +/- x stays in [0, 5.4e6]: (e + x) - e = x and e - (e - x) = x to 1e-8 day,
   and e += x / e -= x / x + e give the same Epoch as e + x / e - x (see add_ok, sub_ok) *)
Theorem C02_arith_grid :
  (forall k m fr x, 0 <= k < 153 -> In m months -> In fr fracs3 -> In x offsets ->
     arith_ok (jde_of (jdn (year_k k) m 1) + fr)%float x) /\
  (forall y m fr x, In y special_years -> In m months -> In fr fracs3 -> In x offsets ->
     arith_ok (jde_of (jdn y m 1) + fr)%float x).
Proof. exact (conj arith_grid arith_special). Qed.

(* (c) EVERY finite float JDE j in [0, 5.4e6] and offset |x| <= 1e6 (binary64, Flocq error bounds; RV is
   the real value of a float, fin = finite): (e + x) - e and e - (e - x) are within 1e-8 day of x, and
   x + e, e += x, e -= x return the same Epoch as e + x / e - x.
   PREMISE (ctor_within a a1): the constructor call Epoch(a) for a = fl(j +/- x) returns an Epoch that
   stores a1 with |a1 - a| <= 2^-29 = 1.86e-9 day.  Epoch(a) does NOT store a exactly in binary64 (set()
   re-derives the JDE from the broken-down date: Epoch(4193243.6725671566).jde() = 4193243.672567157), so
   this accuracy is a premise; it is attained (C02_ctor_within_attained; on the grids of
   C02_full_date_grid / C02_arith_grid it is checked to 1e-8), and unproved for arbitrary floats. *)
Theorem C02_arith_every_float : forall j x a1 : PrimFloat.float,
  fin j -> fin x -> (0 <= RV j <= 5400000)%R -> (Rabs (RV x) <= 1000000)%R ->
  (ctor_within (j + x)%float a1 ->
     e_add (ep j) (VFloat x) = ep a1 /\ e_radd (ep j) (VFloat x) = ep a1 /\ e_iadd (ep j) (VFloat x) = ep a1 /\
     e_sub (ep a1) (ep j) = VFloat (a1 - j)%float /\ fin (a1 - j)%float /\
     (Rabs (RV (a1 - j)%float - RV x) <= / 100000000)%R) /\
  (ctor_within (j - x)%float a1 ->
     e_sub (ep j) (VFloat x) = ep a1 /\ e_isub (ep j) (VFloat x) = ep a1 /\
     e_sub (ep j) (ep a1) = VFloat (j - a1)%float /\ fin (j - a1)%float /\
     (Rabs (RV (j - a1)%float - RV x) <= / 100000000)%R).
Proof.
  intros j x a1 Fj Fx Hj Hx. split; intro C.
  - exact (add_every_float j x a1 Fj Fx Hj Hx C).
  - exact (sub_every_float j x a1 Fj Fx Hj Hx C).
Qed.
Theorem C02_ctor_within_attained : ctor_within (2451545.25 + 1.5)%float 2451546.75%float.
Proof. exact ctor_within_witness. Qed.

(* IDEAL instance, EVERY real JDE j with -0.5 <= j < 5399999.5 (day numbers 0 .. 5 399 999): the constructor
   Epoch(j) and e.set(j) store exactly j -- the calendar round trip inside Epoch.set (get_full_date, then
   _compute_jde) is exact over the reals.  Proof: symbolic evaluation of the regenerated get_date /
   _compute_jde / set with an abstract day number (floors of the decimal rational functions = integer
   divisions), the day fraction recombined by field arithmetic, and the integer decode/encode round trip
   checked for every day number of the range by kernel computation (16 shards over Z). *)
Theorem C02_ctor_exact_ideal : forall j : R, C02_ctor_ideal.jde_in_range j ->
  Epoch___init__ Rops (VObj cEpoch [VNone]) (VTuple [VFloat j]) (VDict []) = VObj cEpoch [VFloat j] /\
  (forall j0, Epoch_set Rops (VObj cEpoch [VFloat j0]) (VTuple [VFloat j]) (VDict [])
              = VTuple [VObj cEpoch [VFloat j]; VNone]).
Proof.
  intros j H. split; [exact (C02_ctor_ideal.Epoch_ctor_exact_ideal j H)|].
  intro j0. exact (C02_ctor_ideal.Epoch_set_exact_ideal j0 j H).
Qed.

(* ... hence, ideal instance, all reals in range: e + x, x + e, e += x hold exactly jde + x; e - x, e -= x
   exactly jde - x; (e + x) - e = x and e - (e - x) = x EXACTLY *)
Theorem C02_arith_exact_ideal : forall j x : R,
  (C02_ctor_ideal.jde_in_range (j + x) ->
     Epoch___add__ Rops (epg j) (VFloat x) = epg (j + x)%R /\
     Epoch___radd__ Rops (epg j) (VFloat x) = epg (j + x)%R /\
     Epoch___iadd__ Rops (epg j) (VFloat x) = epg (j + x)%R /\
     Epoch___sub__ Rops (Epoch___add__ Rops (epg j) (VFloat x)) (epg j) = VFloat x) /\
  (C02_ctor_ideal.jde_in_range (j - x) ->
     Epoch___sub__ Rops (epg j) (VFloat x) = epg (j - x)%R /\
     Epoch___isub__ Rops (epg j) (VFloat x) = epg (j - x)%R /\
     Epoch___sub__ Rops (epg j) (Epoch___sub__ Rops (epg j) (VFloat x)) = VFloat x).
Proof.
  intros j x. split; intro H.
  - destruct (C02_ctor_ideal.Epoch_add_ideal j x H) as (A & B & C).
    split; [exact A|]. split; [exact B|]. split; [exact C|].
    exact (proj1 (C02_ctor_ideal.Epoch_translation_ideal j x) H).
  - destruct (C02_ctor_ideal.Epoch_sub_ideal j x H) as (A & B).
    split; [exact A|]. split; [exact B|].
    exact (proj2 (C02_ctor_ideal.Epoch_translation_ideal j x) H).
Qed.

(* (d) ideal instance, all reals: the operators order Epochs as their JDE values *)
Theorem C02_order_ideal : forall a b : R,
  (Epoch___lt__ Rops (epg a) (epg b) = VBool true <-> (a < b)%R) /\
  (Epoch___le__ Rops (epg a) (epg b) = VBool true <-> (a <= b)%R) /\
  (Epoch___gt__ Rops (epg a) (epg b) = VBool true <-> (a > b)%R) /\
  (Epoch___ge__ Rops (epg a) (epg b) = VBool true <-> (a >= b)%R) /\
  (Epoch___eq__ Rops (epg a) (epg b) = VBool true <-> (Rabs (a - b) < 1 / 10000000000)%R) /\
  (Epoch___ne__ Rops (epg a) (epg b) = VBool true <-> ~ (Rabs (a - b) < 1 / 10000000000)%R).
Proof. exact ideal_order. Qed.

(* (c) ideal instance, all reals: the instance of C02_operators at Rops (reduction to the constructor
   call); the constructor itself is characterised in C02_ctor_exact_ideal / C02_arith_exact_ideal *)
Theorem C02_arith_ideal : forall j j' x : R,
  Epoch___sub__ Rops (epg j) (epg j') = VFloat (j - j')%R /\
  Epoch___add__ Rops (epg j) (VFloat x) = mkEg Rops [VFloat (j + x)%R] /\
  Epoch___sub__ Rops (epg j) (VFloat x) = mkEg Rops [VFloat (j - x)%R] /\
  Epoch___radd__ Rops (epg j) (VFloat x) = Epoch___add__ Rops (epg j) (VFloat x).
Proof. exact ideal_arith. Qed.

Redirect "C02_date_of_day.assumptions" Print Assumptions C02_date_of_day.
Redirect "C02_date_monotone.assumptions" Print Assumptions C02_date_monotone.
Redirect "C02_full_date_grid.assumptions" Print Assumptions C02_full_date_grid.
Redirect "C02_fields_every_float.assumptions" Print Assumptions C02_fields_every_float.
Redirect "C02_fields_premise_attained.assumptions" Print Assumptions C02_fields_premise_attained.
Redirect "C02_input_forms_all.assumptions" Print Assumptions C02_input_forms_all.
Redirect "C02_datetime.assumptions" Print Assumptions C02_datetime.
Redirect "C02_forms_grid.assumptions" Print Assumptions C02_forms_grid.
Redirect "C02_operators.assumptions" Print Assumptions C02_operators.
Redirect "C02_arith_grid.assumptions" Print Assumptions C02_arith_grid.
Redirect "C02_arith_every_float.assumptions" Print Assumptions C02_arith_every_float.
Redirect "C02_ctor_within_attained.assumptions" Print Assumptions C02_ctor_within_attained.
Redirect "C02_ctor_exact_ideal.assumptions" Print Assumptions C02_ctor_exact_ideal.
Redirect "C02_arith_exact_ideal.assumptions" Print Assumptions C02_arith_exact_ideal.
Redirect "C02_order_ideal.assumptions" Print Assumptions C02_order_ideal.
Redirect "C02_arith_ideal.assumptions" Print Assumptions C02_arith_ideal.
