(* C02: lifting the sharded kernel computations to the quantified statements *)
From Coq Require Import ZArith NArith List Bool String Lia ZifyBool PrimFloat.
From PyLib Require Import PyVal PyBuiltins B64 B64Facts Range.
From Spec Require Import CalSpec CivilOfJdn.
From Gen Require Import M_base M_Angle M_Epoch.
From Proofs.C02 Require Import C02_defs.
From Proofs.C02 Require C02_walk_00.
From Proofs.C02 Require C02_walk_01.
From Proofs.C02 Require C02_walk_02.
From Proofs.C02 Require C02_walk_03.
From Proofs.C02 Require C02_walk_04.
From Proofs.C02 Require C02_walk_05.
From Proofs.C02 Require C02_walk_06.
From Proofs.C02 Require C02_walk_07.
From Proofs.C02 Require C02_walk_08.
From Proofs.C02 Require C02_walk_09.
From Proofs.C02 Require C02_walk_10.
From Proofs.C02 Require C02_walk_11.
From Proofs.C02 Require C02_walk_12.
From Proofs.C02 Require C02_walk_13.
From Proofs.C02 Require C02_walk_14.
From Proofs.C02 Require C02_walk_15.
From Proofs.C02 Require C02_full_0.
From Proofs.C02 Require C02_full_1.
From Proofs.C02 Require C02_full_2.
From Proofs.C02 Require C02_forms_0.
From Proofs.C02 Require C02_forms_1.
From Proofs.C02 Require C02_arith_0.
From Proofs.C02 Require C02_arith_1.
From Proofs.C02 Require C02_arith_2.
From Proofs.C02 Require C02_arith_3.
From Proofs.C02 Require C02_special.
Import ListNotations.
Open Scope Z_scope.

Ltac split_andb H :=
  repeat (let H2 := fresh "Hc" in apply andb_true_iff in H; destruct H as [H H2]).
Lemma is_ep_eq v : is_ep v = true -> v = ep (jv v).
Proof. apply val_eqb_eq. Qed.
Lemma is_flt_eq v : is_flt v = true -> v = VFloat (flt_of v).
Proof. apply val_eqb_eq. Qed.
Lemma close_eq t a b : close t a b = true -> (abs (a - b) <=? t)%float = true.
Proof. exact (fun H => H). Qed.
(* by lemma application only: no unfolding inside hypotheses (a cast there would make the
   kernel compare model terms up to conversion) *)
Ltac to_eqs :=
  repeat match goal with
  | H : is_ep _ = true |- _ => apply is_ep_eq in H
  | H : is_flt _ = true |- _ => apply is_flt_eq in H
  | H : close _ _ _ = true |- _ => apply close_eq in H
  | H : val_eqb _ _ = true |- _ => apply val_eqb_eq in H
  end.

(* ---------------- (a) every day number ---------------- *)
Lemma day_checked : forall z y m d, 0 <= z < 5400000 -> valid y m d = true -> jdn y m d = z ->
  chk_day z y m d = true.
Proof.
  intros z y m d Hz V J.
  destruct (Z_lt_ge_dec z 337500) as [H0|H0]; [apply (walk_spec _ _ _ C02_walk_00.shard z y m d); try assumption; lia|].
  destruct (Z_lt_ge_dec z 675000) as [H1|H1]; [apply (walk_spec _ _ _ C02_walk_01.shard z y m d); try assumption; lia|].
  destruct (Z_lt_ge_dec z 1012500) as [H2|H2]; [apply (walk_spec _ _ _ C02_walk_02.shard z y m d); try assumption; lia|].
  destruct (Z_lt_ge_dec z 1350000) as [H3|H3]; [apply (walk_spec _ _ _ C02_walk_03.shard z y m d); try assumption; lia|].
  destruct (Z_lt_ge_dec z 1687500) as [H4|H4]; [apply (walk_spec _ _ _ C02_walk_04.shard z y m d); try assumption; lia|].
  destruct (Z_lt_ge_dec z 2025000) as [H5|H5]; [apply (walk_spec _ _ _ C02_walk_05.shard z y m d); try assumption; lia|].
  destruct (Z_lt_ge_dec z 2362500) as [H6|H6]; [apply (walk_spec _ _ _ C02_walk_06.shard z y m d); try assumption; lia|].
  destruct (Z_lt_ge_dec z 2700000) as [H7|H7]; [apply (walk_spec _ _ _ C02_walk_07.shard z y m d); try assumption; lia|].
  destruct (Z_lt_ge_dec z 3037500) as [H8|H8]; [apply (walk_spec _ _ _ C02_walk_08.shard z y m d); try assumption; lia|].
  destruct (Z_lt_ge_dec z 3375000) as [H9|H9]; [apply (walk_spec _ _ _ C02_walk_09.shard z y m d); try assumption; lia|].
  destruct (Z_lt_ge_dec z 3712500) as [H10|H10]; [apply (walk_spec _ _ _ C02_walk_10.shard z y m d); try assumption; lia|].
  destruct (Z_lt_ge_dec z 4050000) as [H11|H11]; [apply (walk_spec _ _ _ C02_walk_11.shard z y m d); try assumption; lia|].
  destruct (Z_lt_ge_dec z 4387500) as [H12|H12]; [apply (walk_spec _ _ _ C02_walk_12.shard z y m d); try assumption; lia|].
  destruct (Z_lt_ge_dec z 4725000) as [H13|H13]; [apply (walk_spec _ _ _ C02_walk_13.shard z y m d); try assumption; lia|].
  destruct (Z_lt_ge_dec z 5062500) as [H14|H14]; [apply (walk_spec _ _ _ C02_walk_14.shard z y m d); try assumption; lia|].
  apply (walk_spec _ _ _ C02_walk_15.shard z y m d); try assumption; lia.
Qed.

Theorem date_of_day : forall z y m d, 0 <= z < 5400000 -> valid y m d = true -> jdn y m d = z ->
  get_date (ep (jde_of z)) = date_tuple y m d.
Proof. intros. apply val_eqb_eq. apply day_checked; assumption. Qed.

Theorem date_exists : forall z, 0 <= z < 5400000 ->
  exists y m d, valid y m d = true /\ jdn y m d = z /\ get_date (ep (jde_of z)) = date_tuple y m d.
Proof.
  intros z Hz. destruct (jdn_surj z (proj1 Hz)) as (y & m & d & V & J).
  exists y, m, d. repeat apply conj; try assumption. apply date_of_day; assumption.
Qed.

Theorem date_monotone : forall z z', 0 <= z -> z < z' -> z' < 5400000 ->
  exists y m d y' m' d',
    get_date (ep (jde_of z)) = date_tuple y m d /\ get_date (ep (jde_of z')) = date_tuple y' m' d' /\
    date_lt y m d y' m' d'.
Proof.
  intros z z' H0 H1 H2.
  destruct (date_exists z ltac:(lia)) as (y & m & d & V & J & G).
  destruct (date_exists z' ltac:(lia)) as (y' & m' & d' & V' & J' & G').
  exists y, m, d, y', m', d'. repeat apply conj; try assumption.
  apply date_order_of_jdn; try assumption. lia.
Qed.

(* ---------------- (a) full date on the grid ---------------- *)
Definition full_ok (z : Z) (fr : float) : Prop :=
  let j := (jde_of z + fr)%float in
  exists y m d h mi s j',
    valid y m d = true /\ jdn y m d = z /\
    (jde_of z <=? j)%float = true /\ (j <? jde_of (z + 1))%float = true /\
    get_full (ep j) = VTuple [VInt y; VInt m; VInt d; VInt h; VInt mi; VFloat s] /\
    0 <= h <= 23 /\ 0 <= mi <= 59 /\ (0 <=? s)%float = true /\ (s <? 60)%float = true /\
    mkE [VInt y; VInt m; VInt d; VInt h; VInt mi; VFloat s] = ep j' /\
    mkE [VFloat j] = ep j' /\
    (abs (j' - j) <=? tol8)%float = true.

Lemma full_z z fr : 0 <= z -> chk_full_z z fr = true -> full_ok z fr.
Proof.
  intros Hz H. unfold chk_full_z in H.
  destruct (z <? 0) eqn:E; [lia|].
  pose proof (civil_ok_spec z) as C. destruct (civil_of_jdn z) as [[y m] d].
  apply andb_true_iff in H. destruct H as [Hc H]. destruct (C Hc) as [V J].
  unfold chk_full in H. cbv zeta in H. split_andb H. to_eqs.
  unfold full_ok. cbv zeta.
  remember ((jde_of z + fr)%float) as j. remember (get_full (ep j)) as r.
  remember (mkE [VInt y; VInt m; VInt d; VInt (int_at r 3); VInt (int_at r 4); VFloat (flt_at r 5)]) as e.
  exists y, m, d, (int_at r 3), (int_at r 4), (flt_at r 5), (jv e).
 
  repeat apply conj; try lia; congruence.
Qed.

Lemma year_full k : 0 <= k < 153 -> chk_full_year (year_k k) = true.
Proof.
  intros Hk.
  destruct (Z_lt_ge_dec k 51); [apply (all_range_spec _ _ _ C02_full_0.shard); lia|].
  destruct (Z_lt_ge_dec k 102); [apply (all_range_spec _ _ _ C02_full_1.shard); lia|].
  apply (all_range_spec _ _ _ C02_full_2.shard); lia.
Qed.

Lemma full_of_year y z fr : chk_full_year y = true -> In z (zs_of_year y) -> 0 <= z -> In fr fracs -> full_ok z fr.
Proof.
  intros H Hz H0 Hf. unfold chk_full_year in H. rewrite forallb_forall in H.
  specialize (H z Hz). rewrite forallb_forall in H. apply full_z; [exact H0|exact (H fr Hf)].
Qed.

Theorem full_grid : forall k z fr, 0 <= k < 153 -> In z (zs_of_year (year_k k)) -> 0 <= z ->
  In fr fracs -> full_ok z fr.
Proof. intros k z fr Hk. apply full_of_year, year_full, Hk. Qed.

Theorem full_special : forall y z fr, In y special_years -> In z (zs_of_year y) -> 0 <= z ->
  In fr fracs -> full_ok z fr.
Proof.
  intros y z fr Hy. apply full_of_year.
  pose proof C02_special.full_special as H. rewrite forallb_forall in H. exact (H y Hy).
Qed.

Theorem full_reform : forall z fr, 2299150 <= z < 2299172 -> In fr fracs -> full_ok z fr.
Proof.
  intros z fr Hz Hf. apply full_z; [lia|].
  pose proof (all_range_spec _ _ _ C02_special.full_reform z ltac:(lia)) as H. cbv beta in H.
  rewrite forallb_forall in H. exact (H fr Hf).
Qed.

(* ---------------- (b) input forms on the grid ---------------- *)
Definition forms_ok (y m d : Z) (t : Z * Z * Z * Z) : Prop :=
  let six := six_of y m d t in
  exists ja jd jc jf,
    mkE six = ep ja /\ mkE [VInt y; VInt m; VInt d] = ep jd /\
    mkE [VTuple six] = ep ja /\ mkE [VList six] = ep ja /\ mkE [dt_of y m d t] = ep ja /\
    mkE [VObj cDate [VInt y; VInt m; VInt d]] = ep jd /\
    mkE [ep ja] = ep jc /\ mkE [VFloat ja] = ep jc /\ (abs (jc - ja) <=? tol9)%float = true /\
    set_on other_state six = VTuple [ep ja; VNone] /\
    set_on other_state [VTuple six] = VTuple [ep ja; VNone] /\
    set_on other_state [VFloat ja] = VTuple [ep jc; VNone] /\
    set_on other_state [ep ja] = VTuple [ep jc; VNone] /\
    mkE (fracday_of y m d t) = ep jf /\ (abs (jf - ja) <=? tol9)%float = true /\
    cid six = ep ja /\
    cid [VInt y; VInt m; VInt d] = ep jd /\
    cid [VTuple six] = ep ja /\
    cid [VList six] = ep ja /\
    cid [VObj cDate [VInt y; VInt m; VInt d]] = ep jd /\
    cid [dt_of y m d t] = ep ja /\
    cid [ep ja] = ep ja.

Lemma forms_lift y m d t : chk_forms y m d t = true -> forms_ok y m d t.
Proof.
  intro H. unfold chk_forms in H. cbv zeta in H. split_andb H. to_eqs.
  unfold forms_ok. cbv zeta.
  remember (six_of y m d t) as six.
  remember (mkE six) as A. remember (mkE [VInt y; VInt m; VInt d]) as D.
  remember (mkE [A]) as C. remember (mkE (fracday_of y m d t)) as Fd.
  exists (jv A), (jv D), (jv C), (jv Fd).
  assert (mkE [ep (jv A)] = C) as EC by congruence.
  assert (cid [ep (jv A)] = cid [A]) as ECid by congruence.
  repeat apply conj; congruence.
Qed.

Lemma year_forms k : 0 <= k < 153 -> chk_forms_year (year_k k) = true.
Proof.
  intros Hk.
  destruct (Z_lt_ge_dec k 77); [apply (all_range_spec _ _ _ C02_forms_0.shard); lia|].
  apply (all_range_spec _ _ _ C02_forms_1.shard); lia.
Qed.

Lemma forms_of_year y m d t : chk_forms_year y = true -> In m months -> (d = 1 \/ d = mlen y m) ->
  In t times -> forms_ok y m d t.
Proof.
  intros H Hm Hd Ht. unfold chk_forms_year in H. rewrite forallb_forall in H. specialize (H m Hm).
  unfold chk_forms_month in H. rewrite forallb_forall in H.
  assert (In d [1; mlen y m]) as Hin by (destruct Hd as [->| ->]; simpl; auto).
  specialize (H d Hin). rewrite forallb_forall in H. apply forms_lift, H, Ht.
Qed.

Theorem forms_grid : forall k m d t, 0 <= k < 153 -> In m months ->
  (d = 1 \/ d = mlen (year_k k) m) -> In t times -> forms_ok (year_k k) m d t.
Proof. intros k m d t Hk. apply forms_of_year, year_forms, Hk. Qed.

Theorem forms_special : forall y m d t, In y special_years -> In m months ->
  (d = 1 \/ d = mlen y m) -> In t times -> forms_ok y m d t.
Proof.
  intros y m d t Hy. apply forms_of_year.
  pose proof C02_special.forms_special as H. rewrite forallb_forall in H. exact (H y Hy).
Qed.

Theorem forms_reform : forall d t, (d = 4 \/ d = 15) -> In t times -> forms_ok 1582 10 d t.
Proof.
  intros d t Hd Ht. pose proof C02_special.forms_reform as H. unfold chk_forms_reform in H.
  apply andb_true_iff in H. destruct H as [H4 H15]. rewrite forallb_forall in H4, H15.
  destruct Hd as [->| ->]; apply forms_lift; [apply H4|apply H15]; exact Ht.
Qed.

(* ---------------- (c) arithmetic on the grid ---------------- *)
Definition add_ok (j : float) (x : fval) : Prop :=
  exists j1 dl, e_add (ep j) x = ep j1 /\ mkE [VFloat (j + off_float x)%float] = ep j1 /\
    e_radd (ep j) x = ep j1 /\ e_iadd (ep j) x = ep j1 /\ e_sub (ep j1) (ep j) = VFloat dl /\
    (abs (dl - off_float x) <=? tol8)%float = true.
Definition sub_ok (j : float) (x : fval) : Prop :=
  exists j2 dl, e_sub (ep j) x = ep j2 /\ mkE [VFloat (j - off_float x)%float] = ep j2 /\
    e_isub (ep j) x = ep j2 /\
    e_sub (ep j) (ep j2) = VFloat dl /\ (abs (dl - off_float x) <=? tol8)%float = true.
Definition arith_ok (j : float) (x : fval) : Prop :=
  (in_range (j + off_float x) = true -> add_ok j x) /\ (in_range (j - off_float x) = true -> sub_ok j x).

Lemma arith_lift j x : chk_arith j x = true -> arith_ok j x.
Proof.
  intro H. unfold chk_arith in H. apply andb_true_iff in H. destruct H as [Ha Hs]. split; intro R.
  - rewrite R in Ha. unfold chk_add in Ha. cbv zeta in Ha. split_andb Ha. to_eqs.
    remember (e_add (ep j) x) as s.
    exists (jv s), (flt_of (e_sub s (ep j))).
    assert (e_sub (ep (jv s)) (ep j) = e_sub s (ep j)) as E by congruence.
    repeat apply conj; congruence.
  - rewrite R in Hs. unfold chk_sub in Hs. cbv zeta in Hs. split_andb Hs. to_eqs.
    remember (e_sub (ep j) x) as s.
    exists (jv s), (flt_of (e_sub (ep j) s)).
    assert (e_sub (ep j) (ep (jv s)) = e_sub (ep j) s) as E by congruence.
    repeat apply conj; congruence.
Qed.

Lemma year_arith k : 0 <= k < 153 -> chk_arith_year (year_k k) = true.
Proof.
  intros Hk.
  destruct (Z_lt_ge_dec k 39); [apply (all_range_spec _ _ _ C02_arith_0.shard); lia|].
  destruct (Z_lt_ge_dec k 77); [apply (all_range_spec _ _ _ C02_arith_1.shard); lia|].
  destruct (Z_lt_ge_dec k 115); [apply (all_range_spec _ _ _ C02_arith_2.shard); lia|].
  apply (all_range_spec _ _ _ C02_arith_3.shard); lia.
Qed.

Lemma arith_of_year y m fr x : chk_arith_year y = true -> In m months -> In fr fracs3 -> In x offsets ->
  arith_ok (jde_of (jdn y m 1) + fr)%float x.
Proof.
  intros H Hm Hf Hx. unfold chk_arith_year in H. rewrite forallb_forall in H. specialize (H m Hm).
  rewrite forallb_forall in H. specialize (H fr Hf). rewrite forallb_forall in H.
  apply arith_lift, H, Hx.
Qed.

Theorem arith_grid : forall k m fr x, 0 <= k < 153 -> In m months -> In fr fracs3 -> In x offsets ->
  arith_ok (jde_of (jdn (year_k k) m 1) + fr)%float x.
Proof. intros k m fr x Hk. apply arith_of_year, year_arith, Hk. Qed.

Theorem arith_special : forall y m fr x, In y special_years -> In m months -> In fr fracs3 ->
  In x offsets -> arith_ok (jde_of (jdn y m 1) + fr)%float x.
Proof.
  intros y m fr x Hy. apply arith_of_year.
  pose proof C02_special.arith_special as H. rewrite forallb_forall in H. exact (H y Hy).
Qed.
