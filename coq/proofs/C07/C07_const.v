(* C07: constants of the extracted tables (ideal arithmetic, exact decimal literals):
   mean-longitude rate of the L series vs the element table, and Kepler's third law. *)
From Coq Require Import Reals ZArith List Bool Lra Lia.
From Interval Require Import Tactic.
From PyLib Require Import PyVal PyBuiltins Ideal PyEval.
From Gen Require M_Mercury M_Venus M_Earth M_Mars M_Jupiter M_Saturn M_Uranus M_Neptune.
Import ListNotations.
Open Scope R_scope.

Definition get2 (v : val R) (i j : Z) : val R := py_getitem Rops (py_getitem Rops v (VInt i)) (VInt j).
Definition get3 (v : val R) (i j k : Z) : val R := py_getitem Rops (get2 v i j) (VInt k).

(* Gaussian gravitational constant, rad/day *)
Definition gauss_k : R := 1720209895 / 100000000000.

(* L1[0] = (A, 0, 0): A/1e8 rad per Julian millennium is the series' mean-longitude rate;
   element table row 0 = mean longitude polynomial (deg, deg/century, ...), row 1 = semi-major axis;
   J2000 table row 0 = mean longitude referred to the fixed equinox (sidereal rate). *)
Definition constants_ok (tblL elem elemJ : val R) (tol_rate tol_k3 : R) : Prop :=
  exists A b c rate a ratej : R,
    get2 tblL 1 0 = VList [VFloat A; VFloat b; VFloat c] /\ b = 0 /\ c = 0 /\
    get2 elem 0 1 = VFloat rate /\ get2 elem 1 0 = VFloat a /\ get2 elemJ 0 1 = VFloat ratej /\
    Rabs (A / 100000000 * (180 / PI) / 10 - rate) <= tol_rate * rate /\
    Rabs ((ratej * (PI / 180) / 36525) ^ 2 * a ^ 3 / gauss_k ^ 2 - 1) <= tol_k3.

Ltac table_lazy := lazy -[Rlit Rplus Rminus Rmult Rdiv Rinv Ropp IZR PI]; reflexivity.
Ltac lit_zero := unfold Rlit; simpl; lra.
Ltac constants_tac :=
  unfold constants_ok; eexists _, _, _, _, _, _;
  split; [table_lazy|]; split; [lit_zero|]; split; [lit_zero|]; split; [table_lazy|]; split; [table_lazy|]; split; [table_lazy|];
  unfold gauss_k; Rlit_norm; split; interval with (i_prec 80).

Lemma mercury_constants :
  constants_ok (M_Mercury.g_VSOP87_L Rops) (M_Mercury.g_ORBITAL_ELEM Rops) (M_Mercury.g_ORBITAL_ELEM_J2000 Rops)
               (1 / 1000000) (1 / 1000).
Proof. constants_tac. Qed.

Lemma venus_constants :
  constants_ok (M_Venus.g_VSOP87_L Rops) (M_Venus.g_ORBITAL_ELEM Rops) (M_Venus.g_ORBITAL_ELEM_J2000 Rops)
               (1 / 1000000) (1 / 1000).
Proof. constants_tac. Qed.

Lemma earth_constants :
  constants_ok (M_Earth.g_VSOP87_L Rops) (M_Earth.g_ORBITAL_ELEM Rops) (M_Earth.g_ORBITAL_ELEM_J2000 Rops)
               (1 / 1000000) (1 / 1000).
Proof. constants_tac. Qed.

Lemma mars_constants :
  constants_ok (M_Mars.g_VSOP87_L Rops) (M_Mars.g_ORBITAL_ELEM Rops) (M_Mars.g_ORBITAL_ELEM_J2000 Rops)
               (1 / 1000000) (1 / 1000).
Proof. constants_tac. Qed.

Lemma jupiter_constants :
  constants_ok (M_Jupiter.g_VSOP87_L Rops) (M_Jupiter.g_ORBITAL_ELEM Rops) (M_Jupiter.g_ORBITAL_ELEM_J2000 Rops)
               (1 / 1000000) (1 / 1000).
Proof. constants_tac. Qed.

Lemma saturn_constants :
  constants_ok (M_Saturn.g_VSOP87_L Rops) (M_Saturn.g_ORBITAL_ELEM Rops) (M_Saturn.g_ORBITAL_ELEM_J2000 Rops)
               (1 / 1000000) (1 / 100).
Proof. constants_tac. Qed.

Lemma uranus_constants :
  constants_ok (M_Uranus.g_VSOP87_L Rops) (M_Uranus.g_ORBITAL_ELEM Rops) (M_Uranus.g_ORBITAL_ELEM_J2000 Rops)
               (1 / 1000000) (1 / 100).
Proof. constants_tac. Qed.

Lemma neptune_constants :
  constants_ok (M_Neptune.g_VSOP87_L Rops) (M_Neptune.g_ORBITAL_ELEM Rops) (M_Neptune.g_ORBITAL_ELEM_J2000 Rops)
               (1 / 1000000) (1 / 100).
Proof. constants_tac. Qed.

(* Earth's series referred to the fixed equinox J2000 against the J2000 element table *)
Lemma earth_j2000_rate :
  exists A b c rate : R,
    get2 (M_Earth.g_VSOP87_L_J2000 Rops) 1 0 = VList [VFloat A; VFloat b; VFloat c] /\ b = 0 /\ c = 0 /\
    get2 (M_Earth.g_ORBITAL_ELEM_J2000 Rops) 0 1 = VFloat rate /\
    Rabs (A / 100000000 * (180 / PI) / 10 - rate) <= 1 / 1000000 * rate.
Proof.
  eexists _, _, _, _. split; [table_lazy|]. split; [lit_zero|]. split; [lit_zero|]. split; [table_lazy|]. Rlit_norm. interval with (i_prec 80).
Qed.

Theorem mean_longitude_rate_and_third_law :
  constants_ok (M_Mercury.g_VSOP87_L Rops) (M_Mercury.g_ORBITAL_ELEM Rops) (M_Mercury.g_ORBITAL_ELEM_J2000 Rops) (1 / 1000000) (1 / 1000) /\
  constants_ok (M_Venus.g_VSOP87_L Rops) (M_Venus.g_ORBITAL_ELEM Rops) (M_Venus.g_ORBITAL_ELEM_J2000 Rops) (1 / 1000000) (1 / 1000) /\
  constants_ok (M_Earth.g_VSOP87_L Rops) (M_Earth.g_ORBITAL_ELEM Rops) (M_Earth.g_ORBITAL_ELEM_J2000 Rops) (1 / 1000000) (1 / 1000) /\
  constants_ok (M_Mars.g_VSOP87_L Rops) (M_Mars.g_ORBITAL_ELEM Rops) (M_Mars.g_ORBITAL_ELEM_J2000 Rops) (1 / 1000000) (1 / 1000) /\
  constants_ok (M_Jupiter.g_VSOP87_L Rops) (M_Jupiter.g_ORBITAL_ELEM Rops) (M_Jupiter.g_ORBITAL_ELEM_J2000 Rops) (1 / 1000000) (1 / 1000) /\
  constants_ok (M_Saturn.g_VSOP87_L Rops) (M_Saturn.g_ORBITAL_ELEM Rops) (M_Saturn.g_ORBITAL_ELEM_J2000 Rops) (1 / 1000000) (1 / 100) /\
  constants_ok (M_Uranus.g_VSOP87_L Rops) (M_Uranus.g_ORBITAL_ELEM Rops) (M_Uranus.g_ORBITAL_ELEM_J2000 Rops) (1 / 1000000) (1 / 100) /\
  constants_ok (M_Neptune.g_VSOP87_L Rops) (M_Neptune.g_ORBITAL_ELEM Rops) (M_Neptune.g_ORBITAL_ELEM_J2000 Rops) (1 / 1000000) (1 / 100).
Proof.
  repeat split; first [ exact mercury_constants | exact venus_constants | exact earth_constants | exact mars_constants
                      | exact jupiter_constants | exact saturn_constants | exact uranus_constants | exact neptune_constants ].
Qed.
