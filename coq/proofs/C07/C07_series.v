(* C07: Coordinates.vsop_pos in the ideal instance, for tables of ANY shape:
   the nested loops + Horner scheme return the direct term-by-term double sum / 1e8. *)
From Coq Require Import Reals ZArith List Bool Lra Lia.
From PyLib Require Import PyVal PyBuiltins Ideal IdealFacts Whnf PyEval.
From Spec Require Import AngleSpec.
From Gen Require Import M_base M_Angle M_Epoch M_Coordinates.
From Proofs.C07 Require Import C07_defs C07_lib C07_angle.
Import ListNotations.
Open Scope R_scope.

Ltac2 Set Whnf.is_blocked as old := fun c =>
  Ltac2.Bool.or (old c) (Ltac2.List.exist (Ltac2.Constr.equal c)
    ['@zrange_nat; '@zrange_step; '@List.length; '@List.map; '@List.app; '@nth_val; '@Z.to_nat; '@Z.of_nat;
     '@py_getitem; '@Angle___init__; '@Angle_to_positive; '@enc_series; '@enc_term]).

Lemma to_positive_obj v t : -360 < v < 360 ->
  Angle_to_positive Rops (VObj cAngle [VFloat v; VFloat t]) =
  VTuple [VObj cAngle [VFloat (pos360 v); VFloat t]; VObj cAngle [VFloat (pos360 v); VFloat t]].
Proof. exact (to_positive_ideal v t). Qed.

Ltac py_user_rw tac ::=
  first [ rewrite getitem_cons0 | rewrite init_rad
        | rewrite to_positive_obj by (apply red360_range)
        | rewrite reduce_deg_float ].

Lemma lit0 : Rlit 0 (-1) = 0.
Proof. unfold Rlit. simpl. lra. Qed.

(* stage 1: the nested loops over the table T; leaves  K .. (VList (per-series sums)) *)
Ltac nest_stage jde T :=
  rewrite range_len, bind_VList; cbv beta;
  match goal with |- context [seq_of (VList ?l)] => change (seq_of (VList l)) with l end;
  rewrite map_length;
  match goal with |- ?f _ _ _ _ (VList []) = _ =>
     let g := open_constr:(nest_fix _ (VFloat _) _ _) in unify f g; change f with g end;
  match goal with |- nest_fix ?KK (VFloat ?zz0) ?rrng ?bbody _ ?ii ?kk ?ss _ = _ =>
     let Hr := fresh "Hr" in let Hb := fresh "Hb" in
     assert (Hr : forall i s, nth_error T i = Some s ->
                  rrng (VInt (Z.of_nat i)) = VList (zrange_nat 0 (length s)));
     [ let Hs0 := fresh in intros ? ? Hs0; cbv beta; fold (enc_table T);
       rewrite (getitem_table _ _ _ Hs0); unfold enc_series; rewrite range_len, map_length; reflexivity | ];
     assert (Hb : forall i s j x acc, nth_error T i = Some s -> nth_error s j = Some x ->
                  bbody (VInt (Z.of_nat i)) (VInt (Z.of_nat j)) (VFloat acc) = VFloat (acc + tval (tmil jde) x));
     [ let Hs0 := fresh in let Hx0 := fresh in intros ? ? ? ? ? Hs0 Hx0; cbv beta; fold (enc_table T);
       rewrite (getitem_table _ _ _ Hs0), (getitem_series _ _ _ Hx0), getitem_term0, getitem_term1, getitem_term2;
       pyrun; reflexivity | ];
     let E := fresh "E" in
     destruct (nest_fix_spec (tmil jde) zz0 KK rrng bbody T Hr Hb T [] ii kk ss [] eq_refl) as (?i' & ?k' & ?s' & E);
     change (Z.of_nat (length (@nil (list term)))) with 0%Z in E; rewrite app_nil_l in E;
     rewrite <- (map_map (ssum_from (tmil jde) zz0) (@VFloat R)) in E;
     rewrite E; clear E Hr Hb; cbv beta
  end.

(* stage 2: the Horner loop over sum_list = v0 :: rest (as reals) *)
Ltac horner_stage jde :=
  match goal with |- context [map (ssum_from ?t ?z) (?a :: ?b)] =>
     change (map (ssum_from t z) (a :: b)) with (ssum_from t z a :: map (ssum_from t z) b);
     let v0 := fresh "v0" in let rest := fresh "rest" in
     set (v0 := ssum_from t z a); set (rest := map (ssum_from t z) b);
     change (map VFloat (v0 :: rest)) with (VFloat v0 :: map VFloat rest);
     rewrite bind_VFloat; cbv beta;
     match goal with |- bind ?e ?k = _ =>
       let H := fresh in eassert (H : e = _) by (whnf_lhs; reflexivity); rewrite H; clear H end;
     rewrite range3_down_norm, map_length, bind_VList; cbv beta;
     match goal with |- context [seq_of (VList ?l)] => change (seq_of (VList l)) with l end;
     match goal with |- ?f _ _ _ = _ =>
       let g := open_constr:(acc_fix _ _) in unify f g; change f with g end;
     match goal with |- acc_fix ?KK ?bbody _ ?kk (VFloat ?aacc) = _ =>
       let Hb := fresh "Hb" in
       assert (Hb : forall m v a0, nth_error (v0 :: rest) m = Some v -> (1 <= m)%nat ->
                    bbody (VInt (Z.of_nat m)) (VFloat a0) = VFloat ((a0 + v) * tmil jde));
       [ let Hm := fresh in intros ? ? ? Hm _; cbv beta;
         change (VFloat v0 :: map VFloat rest) with (map (@VFloat R) (v0 :: rest));
         rewrite (getitem_map (@VFloat R) _ _ _ Hm); pyrun; reflexivity | ];
       let E := fresh "E" in
       destruct (horner_loop KK bbody (tmil jde) v0 rest kk aacc Hb) as (?k' & E);
       rewrite E; clear E Hb; cbv beta
     end
  end.

Lemma horner_fold0 t (l0 : list term) (L' : list (list term)) :
  fold_left (fun a v => (a + v) * t) (rev (map (ssum_from t 0) L')) 0 + ssum_from t 0 l0
  = direct_sum t (l0 :: L').
Proof.
  rewrite <- horner_is_direct_sum. simpl map. unfold horner_code.
  rewrite ssum_from_0. f_equal. f_equal. f_equal.
  apply map_ext. intro. apply ssum_from_0.
Qed.

Lemma tmil_eq jde : tmil jde = (jde - 2451545) / 365250.
Proof. unfold tmil. Rlit_norm. field. Qed.

(* The evaluator, any tables (non-empty lists of series, series of any length):
   longitude / latitude / radius are the direct term-by-term double sums divided by 1e8;
   the two angles are handed to Angle(.., radians=True) (degrees, reduced), the longitude
   is made positive. *)
Theorem vsop_pos_direct_sum jde (L B Rr : list (list term)) :
  L <> [] -> B <> [] -> Rr <> [] ->
  let t := (jde - 2451545) / 365250 in
  f_vsop_pos Rops (ep jde) (enc_table L) (enc_table B) (enc_table Rr) =
  VTuple [ang (pos360 (red360 (direct_sum t L / 100000000 * (180 / PI))));
          ang (red360 (direct_sum t B / 100000000 * (180 / PI)));
          VFloat (direct_sum t Rr / 100000000)].
Proof.
  intros HL HB HR. cbv zeta.
  destruct L as [|l0 L']; [congruence|]. destruct B as [|b0 B']; [congruence|].
  destruct Rr as [|r0 R']; [congruence|]. clear HL HB HR.
  unfold ep, enc_table.
  pyrunA. fold (tmil jde).
  cbv beta zeta.
  nest_stage jde (l0 :: L').
  horner_stage jde.
  pyrunA.
  nest_stage jde (b0 :: B').
  horner_stage jde.
  pyrunA.
  nest_stage jde (r0 :: R').
  horner_stage jde.
  pyrunA.
  repeat match goal with v := _ |- _ => subst v end.
  expose_R. rewrite !lit0. rewrite !horner_fold0.
  rewrite tmil_eq. unfold ang, angT.
  assert (Rlit 1 8 = 100000000) as -> by (unfold Rlit; simpl; lra).
  reflexivity.
Qed.

(* longitude returned by vsop_pos is in [0, 360) (ideal arithmetic), any tables *)
Corollary vsop_pos_longitude_range jde (L B Rr : list (list term)) :
  L <> [] -> B <> [] -> Rr <> [] ->
  exists lon lat r, f_vsop_pos Rops (ep jde) (enc_table L) (enc_table B) (enc_table Rr)
                    = VTuple [ang lon; ang lat; VFloat r] /\ 0 <= lon < 360 /\ -360 < lat < 360.
Proof.
  intros HL HB HR. eexists _, _, _. split; [apply (vsop_pos_direct_sum jde L B Rr HL HB HR)|].
  split; [apply pos360_range; apply red360_range | apply red360_range].
Qed.
