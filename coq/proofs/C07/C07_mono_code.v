(* C07: from the table-level monotonicity to the generated evaluator: for a planet whose three
   tables decode to decimal tables TL, TB, TR and whose longitude table passes mono_check,
   vsop_pos returns the reduced form of the UNREDUCED longitude [ulon TL jde] (degrees), and
   that unreduced longitude is strictly increasing in the epoch over |t| <= 4 millennia. *)
From Coq Require Import Reals ZArith List Bool Lra Lia.
From PyLib Require Import PyVal PyBuiltins Ideal.
From Spec Require Import AngleSpec.
From Gen Require Import M_base M_Angle M_Epoch M_Coordinates.
From Proofs.C07 Require Import C07_defs C07_lib C07_angle C07_series C07_mono C07_dec.
Import ListNotations.
Open Scope R_scope.

Definition tmill (jde : R) : R := (jde - 2451545) / 365250.
(* longitude / latitude in degrees, radius in AU, as the series give them (no reduction) *)
Definition useries (T : list (list dterm3)) (jde : R) : R := direct_sum (tmill jde) (Rtable T) / 100000000.
Definition ulon (T : list (list dterm3)) (jde : R) : R := useries T jde * (180 / PI).

(* JDE of |t| = 4 millennia: years -2000 and 6000 *)
Definition jde_lo : R := 2451545 - 1461000.
Definition jde_hi : R := 2451545 + 1461000.

Lemma Rtable_nonempty T : T <> [] -> Rtable T <> [].
Proof. destruct T; [congruence | discriminate]. Qed.

Lemma mono_check_nonempty s M T : mono_check s M T = true -> T <> [].
Proof. destruct T; [discriminate | discriminate]. Qed.

Theorem planet_longitude_increasing (gL gB gR : val R) (TL TB TR : list (list dterm3)) :
  gL = enc_table (Rtable TL) -> gB = enc_table (Rtable TB) -> gR = enc_table (Rtable TR) ->
  mono_check 15 4 TL = true -> TB <> [] -> TR <> [] ->
  (forall jde, f_vsop_pos Rops (ep jde) gL gB gR
               = VTuple [ang (pos360 (red360 (ulon TL jde)));
                         ang (red360 (useries TB jde * (180 / PI)));
                         VFloat (useries TR jde)])
  /\ (forall j1 j2, jde_lo <= j1 -> j1 < j2 -> j2 <= jde_hi -> ulon TL j1 < ulon TL j2).
Proof.
  intros EL EB ER Hc HB HR. split.
  - intro jde. subst gL gB gR.
    apply (vsop_pos_direct_sum jde (Rtable TL) (Rtable TB) (Rtable TR));
      apply Rtable_nonempty; [eapply mono_check_nonempty; exact Hc | exact HB | exact HR].
  - intros j1 j2 H1 H12 H2. unfold ulon, useries, jde_lo, jde_hi in *.
    pose proof (mono_check_increasing 15 4 TL Hc (tmill j1) (tmill j2)) as Hm.
    assert (Hlt : direct_sum (tmill j1) (Rtable TL) < direct_sum (tmill j2) (Rtable TL)).
    { apply Hm; unfold tmill; simpl IZR.
      - apply Rmult_le_reg_r with 365250; [lra|]. unfold Rdiv. rewrite Rmult_assoc, Rinv_l by lra. lra.
      - apply Rmult_lt_reg_r with 365250; [lra|]. unfold Rdiv. rewrite !Rmult_assoc, Rinv_l by lra. lra.
      - apply Rmult_le_reg_r with 365250; [lra|]. unfold Rdiv. rewrite Rmult_assoc, Rinv_l by lra. lra. }
    assert (0 < 180 / PI) by (apply Rdiv_lt_0_compat; [lra | apply PI_RGT_0]).
    apply Rmult_lt_compat_r; [assumption|].
    apply Rmult_lt_compat_r; [lra | exact Hlt].
Qed.

(* the statement per planet: what vsop_pos computes from the planet's tables is the reduced form
   of an unreduced longitude that is strictly increasing over years -2000 .. 6000 *)
Definition longitude_increasing (gL gB gR : val R) : Prop :=
  exists TL TB TR : list (list dterm3),
    (forall jde, f_vsop_pos Rops (ep jde) gL gB gR
                 = VTuple [ang (pos360 (red360 (ulon TL jde)));
                           ang (red360 (useries TB jde * (180 / PI)));
                           VFloat (useries TR jde)])
    /\ (forall j1 j2, jde_lo <= j1 -> j1 < j2 -> j2 <= jde_hi -> ulon TL j1 < ulon TL j2).

(* ---- amplitude envelopes of latitude and radius vector (weaker than the property's physical
        envelope: plain sums of amplitudes), |t| <= 4 millennia ---- *)
Lemma tmill_range jde : jde_lo <= jde <= jde_hi -> Rabs (tmill jde) <= IZR 4.
Proof.
  unfold jde_lo, jde_hi, tmill. intros [H1 H2]. apply Rabs_le. simpl IZR. split.
  - apply Rmult_le_reg_r with 365250; [lra|]. unfold Rdiv. rewrite Rmult_assoc, Rinv_l by lra. lra.
  - apply Rmult_le_reg_r with 365250; [lra|]. unfold Rdiv. rewrite Rmult_assoc, Rinv_l by lra. lra.
Qed.

(* nB, nR: integers computed from the tables; bounds nB / 1e23 rad and nR / 1e23 AU *)
Definition series_envelope (gL gB gR : val R) (nB nR : Z) : Prop :=
  exists TL TB TR : list (list dterm3),
    (forall jde, f_vsop_pos Rops (ep jde) gL gB gR
                 = VTuple [ang (pos360 (red360 (ulon TL jde)));
                           ang (red360 (useries TB jde * (180 / PI)));
                           VFloat (useries TR jde)])
    /\ (forall jde, jde_lo <= jde <= jde_hi ->
          Rabs (useries TB jde) <= IZR nB / IZR (10 ^ 23)
          /\ Rabs (useries TR jde - const_term TR / 100000000) <= IZR nR / IZR (10 ^ 23)).

Theorem planet_envelope (gL gB gR : val R) (TL TB TR : list (list dterm3)) :
  gL = enc_table (Rtable TL) -> gB = enc_table (Rtable TB) -> gR = enc_table (Rtable TR) ->
  TL <> [] -> TB <> [] -> TR <> [] ->
  env_check 15 4 TB = true -> envc_check 15 4 TR = true ->
  series_envelope gL gB gR (zabound 15 4 0 TB) (zabound 15 4 0 (tail_table TR)).
Proof.
  intros EL EB ER HL HB HR CB CR. exists TL, TB, TR. split.
  - intro jde. subst gL gB gR.
    apply (vsop_pos_direct_sum jde (Rtable TL) (Rtable TB) (Rtable TR)); apply Rtable_nonempty; assumption.
  - intros jde Hj. pose proof (tmill_range jde Hj) as Ht.
    pose proof (env_check_bound 15 4 TB CB (tmill jde) Ht) as H1.
    pose proof (envc_check_bound 15 4 TR CR (tmill jde) Ht) as H2.
    assert (E : IZR (10 ^ 23) = IZR (10 ^ 15) * 100000000).
    { rewrite <- mult_IZR. f_equal. }
    assert (P15 : 0 < IZR (10 ^ 15)) by (apply pow10_pos; lia).
    unfold useries. rewrite E. split.
    + unfold Rdiv at 1. rewrite Rabs_mult, (Rabs_right (/ 100000000)) by (apply Rle_ge; lra).
      apply Rmult_le_reg_r with 100000000; [lra|].
      rewrite Rmult_assoc, Rinv_l, Rmult_1_r by lra.
      replace (IZR (zabound 15 4 0 TB) / (IZR (10 ^ 15) * 100000000) * 100000000)
        with (IZR (zabound 15 4 0 TB) / IZR (10 ^ 15)) by (field; lra).
      exact H1.
    + replace (direct_sum (tmill jde) (Rtable TR) / 100000000 - const_term TR / 100000000)
        with ((direct_sum (tmill jde) (Rtable TR) - const_term TR) * / 100000000) by (field; lra).
      rewrite Rabs_mult, (Rabs_right (/ 100000000)) by (apply Rle_ge; lra).
      apply Rmult_le_reg_r with 100000000; [lra|].
      rewrite Rmult_assoc, Rinv_l, Rmult_1_r by lra.
      replace (IZR (zabound 15 4 0 (tail_table TR)) / (IZR (10 ^ 15) * 100000000) * 100000000)
        with (IZR (zabound 15 4 0 (tail_table TR)) / IZR (10 ^ 15)) by (field; lra).
      exact H2.
Qed.
