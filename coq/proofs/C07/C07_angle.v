(* C07: the pieces of the generated Angle model used by vsop_pos / geometric_vsop_pos /
   apparent_vsop_pos, characterised in the ideal (real-number) instance.  The reduction
   lemmas follow the construction of the C03 files (Angle.reduce_deg = AngleSpec.red360);
   they are restated here because every property compiles only its own directory. *)
From Coq Require Import Reals ZArith List Bool Lra Lia String.
From PyLib Require Import PyVal PyBuiltins Ideal IdealFacts Whnf PyEval.
From Spec Require Import AngleSpec.
From Gen Require Import M_base M_Angle.
Import ListNotations.
Open Scope R_scope.

Notation rval := (val R).
Definition tol0 : R := Rlit 1 (-10).
Definition angT (d t : R) : rval := VObj cAngle [VFloat d; VFloat t].
Definition ang (d : R) : rval := angT d tol0.
Definition blank : rval := VObj cAngle [VNone; VNone].
Definition no_kw : rval := VDict [].
Definition rad_kw : rval := VDict [(VStr "radians", VBool true)].
Definition mkA (args : list rval) : rval := Angle___init__ Rops blank (VTuple args) no_kw.

(* pyrun variant: a blocked (abstracted) callee is rewritten with a hypothesis giving its
   value, after its arguments have been evaluated; [py_user_rw] can be extended with lemmas *)
Ltac py_user_rw tac := fail.
Ltac pyrunA_using tac :=
  whnf_lhs;
  lazymatch goal with
  | |- ?l = _ =>
    tryif is_canon l then expose_R else
    first [
      lazymatch l with
      | bind ?e ?k =>
          tryif is_canon e then
            lazymatch e with
            | VErr _ => rewrite (bind_err _ k)
            | _ => rewrite (bind_ok e k) by reflexivity; cbv beta
            end
          else
            let H := fresh "Hev" in
            eassert (H : e = _) by (pyrunA_using tac; py_canon_refl);
            rewrite H; clear H
      | VTuple ?xs => first_noncanon xs ltac:(fun x =>
            let H := fresh "Hev" in
            eassert (H : x = _) by (pyrunA_using tac; py_canon_refl); rewrite H; clear H)
      | VList ?xs => first_noncanon xs ltac:(fun x =>
            let H := fresh "Hev" in
            eassert (H : x = _) by (pyrunA_using tac; py_canon_refl); rewrite H; clear H)
      | VObj _ ?xs => first_noncanon xs ltac:(fun x =>
            let H := fresh "Hev" in
            eassert (H : x = _) by (pyrunA_using tac; py_canon_refl); rewrite H; clear H)
      | _ =>
          pose_stuck;
          lazymatch goal with
          | py_stuck := ?s |- _ =>
              clear py_stuck;
              lazymatch s with
              | bind ?e ?k =>
                  let H := fresh "Hev" in
                  eassert (H : bind e k = _) by (pyrunA_using tac; py_canon_refl);
                  rewrite H; clear H
              | Rltb _ _ => py_decide_at s tac
              | Rleb _ _ => py_decide_at s tac
              | Reqb _ _ => py_decide_at s tac
              | _ =>
                  first [ match goal with H : s = _ |- _ => rewrite H end
                        | pyA_eval_arg s tac
                        | py_user_rw tac
                        | idtac "pyrunA: stuck on" s; fail 1 ]
              end
          end
      end;
      pyrunA_using tac
    | idtac ]
  end
with pyA_eval_arg s tac :=
  lazymatch s with
  | ?g ?a =>
      first [ pyA_eval_arg g tac
            | lazymatch type of a with
              | val _ =>
                  tryif is_canon a then fail else
                  (let H := fresh "Harg" in
                   eassert (H : a = _) by (pyrunA_using tac; py_canon_refl);
                   rewrite H; clear H)
              end ]
  end.
Ltac pyrunA := pyrunA_using pylra.
(* decision tactic that first computes closed integer subterms (0 mod 1 ...) *)
Ltac zcomp :=
  repeat match goal with
  | |- context [IZR ?z] =>
      lazymatch z with
      | Z0 => fail | Zpos _ => fail | Zneg _ => fail
      | _ => let z' := eval vm_compute in z in progress change z with z'
      end
  end.
Ltac pylraZ := first [ pylra | zcomp; pylra ].
Ltac pyrunZ := pyrunA_using pylraZ.

(* ---------------------------------------------------------------- reduce_deg *)
Ltac2 Set Whnf.is_blocked as old := fun c =>
  Ltac2.Bool.or (old c) (Ltac2.Constr.equal c '@fmod_py).

Lemma fl_Rfloor x : fl x = Rfloor x.
Proof. reflexivity. Qed.

Lemma reduce_deg_small x : Rabs x < 360 -> Angle_reduce_deg Rops (VFloat x) = VFloat x.
Proof. intros H. pyrun. reflexivity. Qed.

Lemma reduce_deg_big_abs x : 360 <= Rabs x ->
  Angle_reduce_deg Rops (VFloat x) =
  VFloat (sgn x * (Rabs x - 360 * IZR (Rfloor (Rabs x / 360)))).
Proof.
  intros H.
  assert (0 <= Rabs x) as Ha by lra.
  pose proof (fmod_py_nonneg (Rabs x) 1 Ha ltac:(lra)) as Hm.
  change (Rabs x) with (f_abs Rops x) in Hm at 1. change 1 with (zf Rops 1) in Hm at 1.
  unfold sgn. destruct (Rle_dec 0 x) as [P|P].
  - pyrunA. rewrite Rtrunc_nonneg by lra. rewrite Rfmod_1 by lra.
    rewrite (int_frac_mod (Rabs x) 360) by lia. Rlit_norm. f_equal. field.
  - pyrunA. rewrite Rtrunc_nonneg by lra. rewrite Rfmod_1 by lra.
    rewrite (int_frac_mod (Rabs x) 360) by lia. Rlit_norm. f_equal. field.
Qed.

Theorem reduce_deg_float x : Angle_reduce_deg Rops (VFloat x) = VFloat (red360 x).
Proof.
  unfold red360. destruct (Rlt_dec (Rabs x) 360) as [H|H].
  - apply reduce_deg_small; assumption.
  - rewrite fl_Rfloor. apply reduce_deg_big_abs. lra.
Qed.

(* ---------------------------------------------------------------- constructors *)
Ltac2 Set Whnf.is_blocked as old := fun c =>
  Ltac2.Bool.or (old c) (Ltac2.Constr.equal c '@Angle_reduce_deg).

Lemma init_float x : mkA [VFloat x] = ang (red360 x).
Proof.
  pose proof (reduce_deg_float x) as H.
  unfold mkA, blank, no_kw. pyrunA. reflexivity.
Qed.

Lemma init_rad x :
  Angle___init__ Rops blank (VTuple [VFloat x]) rad_kw = ang (red360 (x * (180 / PI))).
Proof.
  pose proof (reduce_deg_float (x * (180 / PI))) as H.
  unfold blank, rad_kw. pyrunA. reflexivity.
Qed.

Ltac py_user_rw tac ::= rewrite reduce_deg_float.

(* ---------------------------------------------------------------- operators, views *)
Lemma add_ang a t b t' : Angle___add__ Rops (angT a t) (angT b t') = ang (red360 (a + b)).
Proof.
  pose proof (reduce_deg_float (a + b)) as H.
  unfold angT. pyrunA. reflexivity.
Qed.

Lemma iadd_ang a t b t' : Angle___iadd__ Rops (angT a t) (angT b t') = ang (red360 (a + b)).
Proof.
  pose proof (reduce_deg_float (a + b)) as H.
  unfold angT. pyrunA. reflexivity.
Qed.

Lemma sub_float a t x : Angle___sub__ Rops (angT a t) (VFloat x) = ang (red360 (a + - x)).
Proof.
  pose proof (reduce_deg_float (a + - x)) as H.
  unfold angT. pyrunA. reflexivity.
Qed.

Lemma to_positive_ideal v t : -360 < v < 360 ->
  Angle_to_positive Rops (angT v t) = VTuple [angT (pos360 v) t; angT (pos360 v) t].
Proof.
  intros Hv. unfold pos360, angT. destruct (Rlt_dec v 0) as [N|N].
  - pyrun. Rlit_norm.
    assert (3600 / 10 - Rabs v = 360 + v) as -> by (rewrite Rabs_left by lra; lra).
    reflexivity.
  - pyrun. reflexivity.
Qed.

Lemma rad_ideal v t : Angle_rad Rops (angT v t) = VFloat (v * (PI / 180)).
Proof. unfold angT. pyrun. reflexivity. Qed.
