(* C07 (thorough tier): the module constant JDE2000 = Epoch(2000, 1, 1.5), evaluated through the
   generated constructor in real arithmetic, is 2451545 — discharges the hypothesis of C07_elem.v *)
From Coq Require Import Reals ZArith List Bool Lra Lia.
From PyLib Require Import PyVal PyBuiltins Ideal IdealFacts Whnf PyEval.
From Gen Require Import M_base M_Angle M_Epoch.
From Proofs.C07 Require Import C07_defs C07_angle.
Import ListNotations.
Open Scope R_scope.

Lemma jde2000_value : JDE2000_is_2451545.
Proof.
  unfold JDE2000_is_2451545, g_JDE2000. pyrunZ.
  change (2000 - 1)%Z with 1999%Z. change (1 + 12)%Z with 13%Z.
  assert (Rfloor (Rlit 36525 (-2) * (IZR 1999 + Rlit 47160 (-1))) = 2452653%Z) as ->
    by (apply Rfloor_unique; Rlit_norm; lra).
  assert (Rfloor (Rlit 306001 (-4) * (IZR 13 + Rlit 10 (-1))) = 428%Z) as ->
    by (apply Rfloor_unique; Rlit_norm; lra).
  assert (Rfloor (IZR 1999 / Rlit 1000 (-1)) = 19%Z) as ->
    by (apply Rfloor_unique; Rlit_norm; lra).
  assert (Rfloor (IZR 19 / Rlit 40 (-1)) = 4%Z) as ->
    by (apply Rfloor_unique; Rlit_norm; lra).
  change (2452653 + 428)%Z with 2453081%Z.
  Rlit_norm. do 3 f_equal. lra.
Qed.
