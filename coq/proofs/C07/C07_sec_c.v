(* C07: Angle(0, 0, s) (s seconds of arc) in the ideal instance, -3600 < s <= -60 (seconds carried into minutes) *)
From Coq Require Import Reals ZArith List Bool Lra Lia String.
From PyLib Require Import PyVal PyBuiltins Ideal IdealFacts Whnf PyEval.
From Spec Require Import AngleSpec.
From Gen Require Import M_base M_Angle.
From Proofs.C07 Require Import C07_angle.
Import ListNotations.
Open Scope R_scope.

Lemma fmod_60 a : 0 <= a -> fmod_py Rops a (zf Rops 60) = VFloat (Rfmod a 60).
Proof. intro H. apply fmod_py_nonneg; simpl; lra. Qed.
Ltac py_user_rw tac ::= first [ rewrite reduce_deg_float | rewrite fmod_60 by (expose_R; tac) ].

Lemma init_sec_neg_big s : -3600 < s <= -60 -> mkA [VInt 0; VInt 0; VFloat s] = ang (s / 3600).
Proof.
  intros Hs. unfold mkA, blank, no_kw.
  assert (Rabs s = - s) as Ea by (apply Rabs_left; lra).
  assert (0 <= Rfmod (Rabs s) 60 < 60) as Hf by (apply Rfmod_bounds; lra).
  assert (Rlit 600 (-1) = 60) as E60 by (unfold Rlit; simpl; lra).
  assert (0 <= Rabs s / 60) as Hq by (rewrite Ea; lra).
  assert (IZR (Z.abs 0 + Rtrunc (Rabs s / Rlit 600 (-1))) < 60) as Hm.
  { change (Z.abs 0 + Rtrunc (Rabs s / Rlit 600 (-1)))%Z with (Rtrunc (Rabs s / Rlit 600 (-1))).
    rewrite E60. rewrite Rtrunc_nonneg by assumption.
    pose proof (Rfloor_le (Rabs s / 60)). rewrite Ea in *. lra. }
  pyrunZ. unfold ang, angT, tol0.
  change (Z.abs 0 mod 360)%Z with 0%Z.
  change (Z.abs 0 + Rtrunc (Rabs s / Rlit 600 (-1)))%Z with (Rtrunc (Rabs s / Rlit 600 (-1))).
  rewrite E60. rewrite Rtrunc_nonneg by assumption. rewrite Rfmod_nonneg by lra.
  pose proof (Rfloor_div_bounds (Rabs s) 60 ltac:(lra)) as Hb.
  set (q := IZR (Rfloor (Rabs s / 60))) in *.
  Rlit_norm. rewrite red360_small.
  - match goal with |- VObj _ [VFloat ?a; _] = _ => replace a with (s / 3600) by (rewrite Ea; lra) end. reflexivity.
  - rewrite Ea in *. unfold Rabs. destruct (Rcase_abs _); lra.
Qed.
