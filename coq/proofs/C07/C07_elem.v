(* C07: Coordinates.orbital_elements in the ideal instance: every element is the cubic
   polynomial of its table row in T = Julian centuries from J2000.0 (Horner form), the
   argument of perihelion is (longitude of perihelion - node); angles are reduced. *)
From Coq Require Import Reals ZArith List Bool Lra Lia.
From PyLib Require Import PyVal PyBuiltins Ideal IdealFacts Whnf PyEval.
From Spec Require Import AngleSpec.
From Gen Require Import M_base M_Angle M_Epoch M_Coordinates.
From Proofs.C07 Require Import C07_defs C07_lib C07_angle.
Import ListNotations.
Open Scope R_scope.

Ltac2 Set Whnf.is_blocked as old := fun c =>
  Ltac2.Bool.or (old c) (Ltac2.List.exist (Ltac2.Constr.equal c) ['@Angle___init__; '@g_JDE2000; '@py_getitem]).

Lemma init_float_obj x :
  Angle___init__ Rops (VObj cAngle [VNone; VNone]) (VTuple [VFloat x]) (VDict [])
  = VObj cAngle [VFloat (red360 x); VFloat tol0].
Proof. exact (init_float x). Qed.
Lemma gi0 (a : val R) l : py_getitem Rops (VList (a :: l)) (VInt 0) = a.
Proof. reflexivity. Qed.
Lemma gi1 (a b : val R) l : py_getitem Rops (VList (a :: b :: l)) (VInt 1) = b.
Proof. exact (getitem_list (a :: b :: l) 1%nat b eq_refl). Qed.
Lemma gi2 (a b c : val R) l : py_getitem Rops (VList (a :: b :: c :: l)) (VInt 2) = c.
Proof. exact (getitem_list (a :: b :: c :: l) 2%nat c eq_refl). Qed.
Lemma gi3 (a b c d : val R) l : py_getitem Rops (VList (a :: b :: c :: d :: l)) (VInt 3) = d.
Proof. exact (getitem_list (a :: b :: c :: d :: l) 3%nat d eq_refl). Qed.
Lemma gi4 (a b c d e : val R) l : py_getitem Rops (VList (a :: b :: c :: d :: e :: l)) (VInt 4) = e.
Proof. exact (getitem_list (a :: b :: c :: d :: e :: l) 4%nat e eq_refl). Qed.
Lemma gi5 (a b c d e f : val R) l : py_getitem Rops (VList (a :: b :: c :: d :: e :: f :: l)) (VInt 5) = f.
Proof. exact (getitem_list (a :: b :: c :: d :: e :: f :: l) 5%nat f eq_refl). Qed.
Ltac py_user_rw tac ::=
  first [ rewrite init_float_obj | rewrite gi0 | rewrite gi1 | rewrite gi2 | rewrite gi3 | rewrite gi4 | rewrite gi5 ].

Definition row4 := (R * R * R * R)%type.
Definition enc_row (c : row4) : val R :=
  let '(c0, c1, c2, c3) := c in VList [VFloat c0; VFloat c1; VFloat c2; VFloat c3].
Definition cubic (c : row4) (T : R) : R :=
  let '(c0, c1, c2, c3) := c in c0 + T * (c1 + T * (c2 + T * c3)).
Definition jcen (jde : R) : R := (jde - 2451545) / 36525.

(* mean equinox of the date: both arguments are the 6-row table [L, a, e, i, node, perihelion] *)
Theorem orbital_elements_6 jde (rl ra re ri rn rp : row4) :
  JDE2000_is_2451545 ->
  let tbl := VList [enc_row rl; enc_row ra; enc_row re; enc_row ri; enc_row rn; enc_row rp] in
  let T := jcen jde in
  f_orbital_elements Rops (ep jde) tbl tbl =
  VTuple [ang (red360 (cubic rl T)); VFloat (cubic ra T); VFloat (cubic re T);
          ang (red360 (cubic ri T)); ang (red360 (cubic rn T)); ang (red360 (cubic rp T - cubic rn T))].
Proof.
  destruct rl as [[[l0 l1] l2] l3], ra as [[[a0 a1] a2] a3], re as [[[e0 e1] e2] e3],
           ri as [[[i0 i1] i2] i3], rn as [[[n0 n1] n2] n3], rp as [[[p0 p1] p2] p3].
  intro Hj. unfold JDE2000_is_2451545 in Hj.
  cbv zeta. unfold ep, enc_row, cubic, jcen, ang, angT.
  Time pyrunA. Rlit_norm.
  replace ((jde - 2451545) / (365250 / 10)) with ((jde - 2451545) / 36525) by field.
  reflexivity.
Qed.

(* standard equinox J2000: a and e from the 6-row table, [L, i, node, perihelion] from the 4-row table *)
Theorem orbital_elements_4 jde (rl ra re ri rn rp jl ji jn jp : row4) :
  JDE2000_is_2451545 ->
  let tbl := VList [enc_row rl; enc_row ra; enc_row re; enc_row ri; enc_row rn; enc_row rp] in
  let tblj := VList [enc_row jl; enc_row ji; enc_row jn; enc_row jp] in
  let T := jcen jde in
  f_orbital_elements Rops (ep jde) tbl tblj =
  VTuple [ang (red360 (cubic jl T)); VFloat (cubic ra T); VFloat (cubic re T);
          ang (red360 (cubic ji T)); ang (red360 (cubic jn T)); ang (red360 (cubic jp T - cubic jn T))].
Proof.
  destruct rl as [[[l0 l1] l2] l3], ra as [[[a0 a1] a2] a3], re as [[[e0 e1] e2] e3],
           ri as [[[i0 i1] i2] i3], rn as [[[n0 n1] n2] n3], rp as [[[p0 p1] p2] p3],
           jl as [[[u0 u1] u2] u3], ji as [[[v0 v1] v2] v3], jn as [[[w0 w1] w2] w3], jp as [[[x0 x1] x2] x3].
  intro Hj. unfold JDE2000_is_2451545 in Hj.
  cbv zeta. unfold ep, enc_row, cubic, jcen, ang, angT.
  Time pyrunA. Rlit_norm.
  replace ((jde - 2451545) / (365250 / 10)) with ((jde - 2451545) / 36525) by field.
  reflexivity.
Qed.
