(* C07: Mercury -- the heliocentric longitude computed from the regenerated tables only ever
   increases for epochs within 4 Julian millennia of J2000 (years -2000 .. 6000).
   The tables are read from the model by computation (nothing is hard-coded): decimal instance
   for the integer bound, real instance equal to it through Rlit (checked by conversion). *)
From Coq Require Import Reals ZArith List Bool.
From PyLib Require Import PyVal PyBuiltins Ideal.
From Gen Require M_Mercury.
From Proofs.C07 Require Import C07_lib C07_mono C07_dec C07_mono_code.
Import ListNotations.
Open Scope R_scope.

Definition tL : list (list dterm3) := Eval vm_compute in the_table (M_Mercury.g_VSOP87_L Dops).
Definition tB : list (list dterm3) := Eval vm_compute in the_table (M_Mercury.g_VSOP87_B Dops).
Definition tR : list (list dterm3) := Eval vm_compute in the_table (M_Mercury.g_VSOP87_R Dops).

(* sum of the amplitudes of every term other than the secular rate < secular rate, |t| <= 4 *)
Lemma tL_check : mono_check 15 4 tL = true.
Proof. vm_compute. reflexivity. Qed.

Lemma tL_enc : M_Mercury.g_VSOP87_L Rops = enc_table (Rtable tL).
Proof. lazy -[Rlit]. reflexivity. Qed.
Lemma tB_enc : M_Mercury.g_VSOP87_B Rops = enc_table (Rtable tB).
Proof. lazy -[Rlit]. reflexivity. Qed.
Lemma tR_enc : M_Mercury.g_VSOP87_R Rops = enc_table (Rtable tR).
Proof. lazy -[Rlit]. reflexivity. Qed.

Theorem mercury_longitude_increasing :
  longitude_increasing (M_Mercury.g_VSOP87_L Rops) (M_Mercury.g_VSOP87_B Rops) (M_Mercury.g_VSOP87_R Rops).
Proof.
  exists tL, tB, tR.
  apply (planet_longitude_increasing _ _ _ tL tB tR tL_enc tB_enc tR_enc tL_check); discriminate.
Qed.

(* amplitude envelopes, |t| <= 4 millennia: |latitude series| <= nB / 1e23 rad and
   |radius series - constant term| <= nR / 1e23 AU (plain sums of |A| 4^i over the tables) *)
Definition nB : Z := Eval vm_compute in zabound 15 4 0 tB.
Definition nR : Z := Eval vm_compute in zabound 15 4 0 (tail_table tR).

Theorem mercury_envelope_partial :
  series_envelope (M_Mercury.g_VSOP87_L Rops) (M_Mercury.g_VSOP87_B Rops) (M_Mercury.g_VSOP87_R Rops) nB nR.
Proof.
  apply (planet_envelope _ _ _ tL tB tR tL_enc tB_enc tR_enc); try discriminate;
    vm_compute; reflexivity.
Qed.
