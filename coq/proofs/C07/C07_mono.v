(* C07: the longitude series only ever increases -- specification level, any tables.
   For S(t) = sum_i sum_k A_ik t^i cos(B_ik + C_ik t)  (direct_sum of C07_lib):
   S is differentiable, S'(t) = sum_i sum_k A_ik (i t^(i-1) cos(..) - C_ik t^i sin(..)),
   |S'(t) - A*| <= sum' |A_ik| (i M^(i-1) + |C_ik| M^i) for |t| <= M, where A* is the secular
   rate term (first term of the t^1 series, B = C = 0) and sum' runs over all the other
   terms; hence S is strictly increasing on [-M, M] as soon as that sum is below A*. *)
From Coq Require Import Reals ZArith List Bool Lra Lia Psatz.
#[local] Set Warnings "-ambiguous-paths".
From Coquelicot Require Import Coquelicot.
From PyLib Require Import PyVal Ideal.
From Proofs.C07 Require Import C07_lib.
Import ListNotations.
Open Scope R_scope.

(* derivative of one term A t^i cos(B + C t) *)
Definition dterm (t : R) (i : nat) (x : term) : R :=
  tA x * (INR i * t ^ pred i * cos (tB x + tC x * t) - tC x * t ^ i * sin (tB x + tC x * t)).

Fixpoint ddterms (t : R) (i : nat) (T : list (list term)) : list R :=
  match T with
  | [] => []
  | s :: T' => map (dterm t i) s ++ ddterms t (S i) T'
  end.

Lemma term_derive x i t :
  is_derive (fun t => tA x * t ^ i * cos (tB x + tC x * t)) t (dterm t i x).
Proof.
  unfold dterm. auto_derive; [trivial|]. ring.
Qed.

Lemma series_derive s i t :
  is_derive (fun t => sumR (map (fun x => tA x * t ^ i * cos (tB x + tC x * t)) s)) t
            (sumR (map (dterm t i) s)).
Proof.
  induction s as [|x s IH]; simpl.
  - apply (is_derive_const (K := R_AbsRing) (V := R_NormedModule) 0 t).
  - apply (is_derive_plus (K := R_AbsRing) (V := R_NormedModule)); [apply term_derive | exact IH].
Qed.

Theorem direct_sum_derive_from T : forall i t,
  is_derive (fun t => sumR (dterms t i T)) t (sumR (ddterms t i T)).
Proof.
  induction T as [|s T IH]; intros i t; simpl.
  - apply (is_derive_const (K := R_AbsRing) (V := R_NormedModule) 0 t).
  - rewrite sumR_app.
    apply is_derive_ext with
      (fun t => sumR (map (fun x => tA x * t ^ i * cos (tB x + tC x * t)) s) + sumR (dterms t (S i) T)).
    + intro u. rewrite sumR_app. reflexivity.
    + apply (is_derive_plus (K := R_AbsRing) (V := R_NormedModule)); [apply series_derive | apply IH].
Qed.

Theorem direct_sum_derive T t :
  is_derive (fun t => direct_sum t T) t (sumR (ddterms t 0 T)).
Proof. apply direct_sum_derive_from. Qed.

(* ---- amplitude bound of the derivative ---- *)
Definition tbound (M : R) (i : nat) (x : term) : R :=
  Rabs (tA x) * (INR i * M ^ pred i + Rabs (tC x) * M ^ i).

Fixpoint dbound (M : R) (i : nat) (T : list (list term)) : R :=
  match T with
  | [] => 0
  | s :: T' => sumR (map (tbound M i) s) + dbound M (S i) T'
  end.

Lemma pow_abs_le t M k : Rabs t <= M -> Rabs (t ^ k) <= M ^ k.
Proof.
  intro H. rewrite <- RPow_abs. apply pow_incr. split; [apply Rabs_pos | exact H].
Qed.

Lemma dterm_bound t M i x : Rabs t <= M -> Rabs (dterm t i x) <= tbound M i x.
Proof.
  intro H. unfold dterm, tbound. rewrite Rabs_mult.
  apply Rmult_le_compat_l; [apply Rabs_pos|].
  eapply Rle_trans; [apply Rabs_triang|]. rewrite Rabs_Ropp.
  assert (HM : 0 <= M) by (eapply Rle_trans; [apply Rabs_pos | exact H]).
  apply Rplus_le_compat.
  - rewrite !Rabs_mult. rewrite (Rabs_right (INR i)) by (apply Rle_ge, pos_INR).
    rewrite Rmult_assoc. apply Rmult_le_compat_l; [apply pos_INR|].
    rewrite <- (Rmult_1_r (M ^ pred i)).
    apply Rmult_le_compat; [apply Rabs_pos | apply Rabs_pos | apply pow_abs_le; exact H |].
    pose proof (COS_bound (tB x + tC x * t)). apply Rabs_le; lra.
  - rewrite !Rabs_mult.
    rewrite Rmult_assoc. apply Rmult_le_compat_l; [apply Rabs_pos|].
    rewrite <- (Rmult_1_r (M ^ i)).
    apply Rmult_le_compat; [apply Rabs_pos | apply Rabs_pos | apply pow_abs_le; exact H |].
    pose proof (SIN_bound (tB x + tC x * t)). apply Rabs_le; lra.
Qed.

Lemma series_bound t M i s : Rabs t <= M ->
  Rabs (sumR (map (dterm t i) s)) <= sumR (map (tbound M i) s).
Proof.
  intro H. induction s as [|x s IH]; simpl.
  - rewrite Rabs_R0. lra.
  - eapply Rle_trans; [apply Rabs_triang|]. apply Rplus_le_compat; [apply dterm_bound; exact H | exact IH].
Qed.

Theorem ddterms_bound T : forall i t M, Rabs t <= M ->
  Rabs (sumR (ddterms t i T)) <= dbound M i T.
Proof.
  induction T as [|s T IH]; intros i t M H; simpl.
  - rewrite Rabs_R0. lra.
  - rewrite sumR_app. eapply Rle_trans; [apply Rabs_triang|].
    apply Rplus_le_compat; [apply series_bound; exact H | apply IH; exact H].
Qed.

(* ---- the secular term ---- *)
Lemma ddterms_secular s0 x1 s1 rest t : tB x1 = 0 -> tC x1 = 0 ->
  sumR (ddterms t 0 (s0 :: (x1 :: s1) :: rest)) = tA x1 + sumR (ddterms t 0 (s0 :: s1 :: rest)).
Proof.
  intros HB HC. simpl. rewrite !sumR_app. simpl. unfold dterm at 2. rewrite HB, HC.
  rewrite Rmult_0_l, Rplus_0_l, cos_0. simpl. rewrite sumR_app. ring.
Qed.

Theorem derivative_lower_bound s0 x1 s1 rest t M : tB x1 = 0 -> tC x1 = 0 -> Rabs t <= M ->
  tA x1 - dbound M 0 (s0 :: s1 :: rest) <= sumR (ddterms t 0 (s0 :: (x1 :: s1) :: rest)).
Proof.
  intros HB HC H. rewrite ddterms_secular by assumption.
  pose proof (ddterms_bound (s0 :: s1 :: rest) 0 t M H) as Hb.
  apply Rabs_le_between in Hb. lra.
Qed.

(* strictly increasing on [-M, M] when the amplitude sum of all other terms is below the
   secular rate *)
Theorem direct_sum_increasing s0 x1 s1 rest M : tB x1 = 0 -> tC x1 = 0 ->
  dbound M 0 (s0 :: s1 :: rest) < tA x1 ->
  forall t1 t2, - M <= t1 -> t1 < t2 -> t2 <= M ->
  direct_sum t1 (s0 :: (x1 :: s1) :: rest) < direct_sum t2 (s0 :: (x1 :: s1) :: rest).
Proof.
  intros HB HC Hlt t1 t2 H1 H12 H2.
  set (T := s0 :: (x1 :: s1) :: rest).
  destruct (MVT_gen (fun t => direct_sum t T) t1 t2 (fun t => sumR (ddterms t 0 T))) as (c & Hc & E).
  - intros x _. apply direct_sum_derive.
  - intros x _. apply continuity_pt_filterlim.
    apply (ex_derive_continuous (K := R_AbsRing) (V := R_NormedModule)).
    eexists. apply direct_sum_derive.
  - rewrite Rmin_left, Rmax_right in Hc by lra.
    assert (Hcm : Rabs c <= M) by (apply Rabs_le; lra).
    pose proof (derivative_lower_bound s0 x1 s1 rest c M HB HC Hcm) as Hd. fold T in Hd.
    assert (0 < sumR (ddterms c 0 T)) by lra.
    assert (0 < sumR (ddterms c 0 T) * (t2 - t1)) by (apply Rmult_lt_0_compat; lra).
    lra.
Qed.

(* ---- amplitude envelope of the series itself (latitude, radius vector) ---- *)
Fixpoint abound (M : R) (i : nat) (T : list (list term)) : R :=
  match T with
  | [] => 0
  | s :: T' => sumR (map (fun x => Rabs (tA x) * M ^ i) s) + abound M (S i) T'
  end.

Lemma aterm_bound t M i x : Rabs t <= M ->
  Rabs (tA x * t ^ i * cos (tB x + tC x * t)) <= Rabs (tA x) * M ^ i.
Proof.
  intro H. rewrite !Rabs_mult. rewrite Rmult_assoc. apply Rmult_le_compat_l; [apply Rabs_pos|].
  rewrite <- (Rmult_1_r (M ^ i)).
  apply Rmult_le_compat; [apply Rabs_pos | apply Rabs_pos | apply pow_abs_le; exact H |].
  pose proof (COS_bound (tB x + tC x * t)). apply Rabs_le; lra.
Qed.

Theorem dterms_bound T : forall i t M, Rabs t <= M -> Rabs (sumR (dterms t i T)) <= abound M i T.
Proof.
  induction T as [|s T IH]; intros i t M H; simpl.
  - rewrite Rabs_R0. lra.
  - rewrite sumR_app. eapply Rle_trans; [apply Rabs_triang|].
    apply Rplus_le_compat; [|apply IH; exact H].
    induction s as [|x s IHs]; simpl.
    + rewrite Rabs_R0. lra.
    + eapply Rle_trans; [apply Rabs_triang|]. apply Rplus_le_compat; [apply aterm_bound; exact H | exact IHs].
Qed.

Theorem direct_sum_envelope T t M : Rabs t <= M -> Rabs (direct_sum t T) <= abound M 0 T.
Proof. apply dterms_bound. Qed.

(* around the constant term (first term of the t^0 series, B = C = 0): the mean distance *)
Theorem direct_sum_envelope_const x0 s0 rest t M : tB x0 = 0 -> tC x0 = 0 -> Rabs t <= M ->
  Rabs (direct_sum t ((x0 :: s0) :: rest) - tA x0) <= abound M 0 (s0 :: rest).
Proof.
  intros HB HC H.
  replace (direct_sum t ((x0 :: s0) :: rest) - tA x0) with (direct_sum t (s0 :: rest)).
  - apply direct_sum_envelope. exact H.
  - unfold direct_sum. simpl. rewrite HB, HC. rewrite Rmult_0_l, Rplus_0_l, cos_0. ring.
Qed.
