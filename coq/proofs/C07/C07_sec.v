(* C07: Angle(0, 0, s) = s/3600 degrees for -3600 < s < 60 seconds of arc (ideal instance) *)
From Coq Require Import Reals ZArith List Bool Lra Lia.
From PyLib Require Import PyVal PyBuiltins Ideal.
From Gen Require Import M_base M_Angle.
From Proofs.C07 Require Import C07_angle C07_sec_a C07_sec_b C07_sec_c.
Import ListNotations.
Open Scope R_scope.

Lemma init_sec s : -3600 < s < 60 -> mkA [VInt 0; VInt 0; VFloat s] = ang (s / 3600).
Proof.
  intros Hs. destruct (Rle_dec s (-60)) as [A|A]; [apply init_sec_neg_big; lra|].
  destruct (Rlt_dec s 0) as [N|N]; [apply init_sec_neg; lra | apply init_sec_pos; lra].
Qed.
