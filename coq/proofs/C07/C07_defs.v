(* C07: shared definitions *)
From Coq Require Import Reals ZArith List.
From PyLib Require Import PyVal Ideal.
From Gen Require Import M_base M_Angle M_Epoch.
Import ListNotations.
Open Scope R_scope.

(* an Epoch object holding the Julian Ephemeris Day jde *)
Definition ep (jde : R) : val R := VObj cEpoch [VFloat jde].
(* time in Julian millennia from J2000.0, as vsop_pos computes it *)
Definition tmil (jde : R) : R := (jde - Rlit 24515450 (-1)) / Rlit 3652500 (-1).

(* the module constant JDE2000 = Epoch(2000, 1, 1.5): used as a hypothesis by C07_elem.v (its evaluation
   through the whole constructor in real arithmetic takes minutes: C07_jde2000.v, thorough tier) *)
Definition JDE2000_is_2451545 : Prop := g_JDE2000 Rops = VObj cEpoch [VFloat 2451545].
