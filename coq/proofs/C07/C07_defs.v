(* C07: shared definitions *)
From Coq Require Import Reals ZArith List.
From PyLib Require Import PyVal Ideal.
Import ListNotations.
Open Scope R_scope.

(* an Epoch object holding the Julian Ephemeris Day jde *)
Definition ep (jde : R) : val R := VObj cEpoch [VFloat jde].
(* time in Julian millennia from J2000.0, as vsop_pos computes it *)
Definition tmil (jde : R) : R := (jde - Rlit 24515450 (-1)) / Rlit 3652500 (-1).
