(* C07: reading a VSOP87 table of the regenerated model as exact decimals, and computing the
   amplitude bound of C07_mono.v over it in integer arithmetic (reflection).
   The generated tables are parametric in the float instance and built from decimal literals
   [f_lit fo m e _] only; instantiating them with the carrier Z*Z (m, e) makes them
   computable by vm_compute, and the real-number instance is the same table read through
   Rlit (checked per table by conversion, nothing is hard-coded). *)
From Coq Require Import Reals ZArith List Bool Lra Lia String.
From PyLib Require Import PyVal PyBuiltins Ideal.
From Proofs.C07 Require Import C07_lib C07_mono.
Import ListNotations.
Open Scope R_scope.

Definition dec : Type := (Z * Z)%type.          (* (m, e) stands for m * 10^e *)
Definition dterm3 : Type := (dec * dec * dec)%type.

Definition d0 : dec := (0%Z, 0%Z).
Definition Dops : FloatOps dec := {|
  f_of_Z := fun z => (z, 0%Z);
  f_add := fun _ _ => d0; f_sub := fun _ _ => d0; f_mul := fun _ _ => d0; f_div := fun _ _ => d0;
  f_neg := fun x => (Z.opp (fst x), snd x); f_abs := fun x => (Z.abs (fst x), snd x);
  f_sqrt := fun _ => d0;
  f_ltb := fun _ _ => false; f_leb := fun _ _ => false; f_eqb := fun _ _ => false;
  f_floor := fun _ => 0%Z; f_trunc := fun _ => 0%Z; f_fmod := fun _ _ => d0;
  f_finite := fun _ => true; f_isnan := fun _ => false;
  f_lit := fun m e _ => (m, e);
  f_libm := fun _ _ => d0;
  f_round := fun _ => 0%Z; f_round_nd := fun _ _ => d0;
  f_signbit := fun _ => false;
  f_pi := d0; f_deg2rad := d0; f_rad2deg := d0;
  f_fsum := fun _ => d0;
  f_dom := fun _ _ => true;
  f_call := fun _ _ => VErr Unsupported;
  f_repr := fun _ => EmptyString
|}.

(* ---- decoding a table value ---- *)
Definition dec_term (v : val dec) : option dterm3 :=
  match v with
  | VList [VFloat a; VFloat b; VFloat c] => Some (a, b, c)
  | _ => None
  end.
Fixpoint opt_all {A B} (f : A -> option B) (l : list A) : option (list B) :=
  match l with
  | [] => Some []
  | x :: r => match f x, opt_all f r with Some y, Some ys => Some (y :: ys) | _, _ => None end
  end.
Definition dec_series (v : val dec) : option (list dterm3) :=
  match v with VList l => opt_all dec_term l | _ => None end.
Definition dec_table (v : val dec) : option (list (list dterm3)) :=
  match v with VList l => opt_all dec_series l | _ => None end.
Definition the_table (v : val dec) : list (list dterm3) :=
  match dec_table v with Some T => T | None => [] end.

(* the same table over the reals *)
Definition rlit (x : dec) : R := Rlit (fst x) (snd x).
Definition rterm (x : dterm3) : term := (rlit (fst (fst x)), rlit (snd (fst x)), rlit (snd x)).
Definition Rtable (T : list (list dterm3)) : list (list term) := map (map rterm) T.

(* ---- integers at scale 10^s ---- *)
Definition fits (s : Z) (x : dec) : bool := (0 <=? snd x + s)%Z.
Definition toS (s : Z) (x : dec) : Z := (fst x * 10 ^ (snd x + s))%Z.

Lemma pow10_pos k : (0 <= k)%Z -> 0 < IZR (10 ^ k).
Proof. intro H. apply IZR_lt. apply Z.pow_pos_nonneg; lia. Qed.

Lemma toS_val s x : (0 <= s)%Z -> fits s x = true -> IZR (toS s x) = rlit x * IZR (10 ^ s).
Proof.
  destruct x as [m e]. unfold fits, toS, rlit, Rlit. simpl fst. simpl snd. intros Hs Hf.
  apply Z.leb_le in Hf. destruct (Z.leb_spec 0 e) as [He|He].
  - rewrite Z.pow_add_r by lia. rewrite !mult_IZR. ring.
  - assert (E : (10 ^ s = 10 ^ (- e) * 10 ^ (e + s))%Z).
    { rewrite <- Z.pow_add_r by lia. f_equal. lia. }
    rewrite E. rewrite !mult_IZR. pose proof (pow10_pos (- e) ltac:(lia)). field. lra.
Qed.

Lemma toS_abs s x : (0 <= s)%Z -> fits s x = true ->
  IZR (Z.abs (toS s x)) = Rabs (rlit x) * IZR (10 ^ s).
Proof.
  intros Hs Hf. rewrite abs_IZR, (toS_val s x Hs Hf), Rabs_mult.
  rewrite (Rabs_right (IZR (10 ^ s))); [reflexivity|]. pose proof (pow10_pos s Hs). lra.
Qed.

Definition zterm (s M : Z) (i : nat) (x : dterm3) : Z :=
  (Z.abs (toS s (fst (fst x))) *
   (Z.of_nat i * M ^ Z.of_nat (pred i) * 10 ^ s + Z.abs (toS s (snd x)) * M ^ Z.of_nat i))%Z.
Definition zfit (s : Z) (x : dterm3) : bool := fits s (fst (fst x)) && fits s (snd x).

Fixpoint zsum (l : list Z) : Z := match l with [] => 0%Z | x :: r => (x + zsum r)%Z end.
Fixpoint zbound (s M : Z) (i : nat) (T : list (list dterm3)) : Z :=
  match T with
  | [] => 0%Z
  | sr :: T' => (zsum (map (zterm s M i) sr) + zbound s M (S i) T')%Z
  end.
Definition zfits (s : Z) (T : list (list dterm3)) : bool := forallb (forallb (zfit s)) T.

Lemma pow_IZR_nat (M : Z) (k : nat) : IZR M ^ k = IZR (M ^ Z.of_nat k).
Proof. apply pow_IZR. Qed.

Lemma zterm_val s M i x : (0 <= s)%Z -> zfit s x = true ->
  IZR (zterm s M i x) = tbound (IZR M) i (rterm x) * (IZR (10 ^ s) * IZR (10 ^ s)).
Proof.
  intros Hs Hf. apply andb_prop in Hf as [Ha Hc].
  unfold zterm, tbound, rterm, tA, tC. cbn [fst snd].
  rewrite mult_IZR, plus_IZR, !mult_IZR.
  rewrite (toS_abs s _ Hs Ha), (toS_abs s _ Hs Hc).
  rewrite <- !pow_IZR_nat. rewrite <- INR_IZR_INZ. ring.
Qed.

Lemma zseries_val s M i sr : (0 <= s)%Z -> forallb (zfit s) sr = true ->
  IZR (zsum (map (zterm s M i) sr))
  = sumR (map (tbound (IZR M) i) (map rterm sr)) * (IZR (10 ^ s) * IZR (10 ^ s)).
Proof.
  intros Hs. induction sr as [|x sr IH]; simpl; intro Hf.
  - unfold sumR. simpl. ring.
  - apply andb_prop in Hf as [Hx Hr]. rewrite plus_IZR, (zterm_val s M i x Hs Hx), (IH Hr).
    unfold sumR. simpl. ring.
Qed.

Theorem zbound_val s M T : (0 <= s)%Z -> forall i, zfits s T = true ->
  IZR (zbound s M i T) = dbound (IZR M) i (Rtable T) * (IZR (10 ^ s) * IZR (10 ^ s)).
Proof.
  intro Hs. induction T as [|sr T IH]; intros i Hf; simpl.
  - ring.
  - unfold zfits in Hf. simpl in Hf. apply andb_prop in Hf as [Hx Hr].
    rewrite plus_IZR, (zseries_val s M i sr Hs Hx), (IH (S i) Hr). ring.
Qed.

(* the shape and the numeric condition of C07_mono.direct_sum_increasing, decided by computation:
   T = s0 :: (x1 :: s1) :: rest, x1 = (A, 0, 0), sum of the amplitudes of all other terms < A *)
Definition mono_check (s M : Z) (T : list (list dterm3)) : bool :=
  match T with
  | s0 :: (x1 :: s1) :: rest =>
      (0 <=? s)%Z && (0 <=? M)%Z
      && (fst (snd (fst x1)) =? 0)%Z && (fst (snd x1) =? 0)%Z
      && fits s (fst (fst x1)) && zfits s (s0 :: s1 :: rest)
      && (zbound s M 0 (s0 :: s1 :: rest) <? toS s (fst (fst x1)) * 10 ^ s)%Z
  | _ => false
  end.

Lemma rlit_0 e : rlit (0%Z, e) = 0.
Proof.
  unfold rlit, Rlit. simpl. destruct (0 <=? e)%Z; [reflexivity|]. unfold Rdiv. ring.
Qed.

Theorem mono_check_increasing s M T : mono_check s M T = true ->
  forall t1 t2, - IZR M <= t1 -> t1 < t2 -> t2 <= IZR M ->
  direct_sum t1 (Rtable T) < direct_sum t2 (Rtable T).
Proof.
  destruct T as [|s0 [|[|x1 s1] rest]]; try discriminate.
  unfold mono_check. intro H.
  repeat (apply andb_prop in H; destruct H as [H ?]).
  apply Z.leb_le in H. 
  match goal with Hx : (_ <? _)%Z = true |- _ => apply Z.ltb_lt in Hx; rename Hx into Hlt end.
  match goal with Hx : zfits _ _ = true |- _ => rename Hx into Hfit end.
  match goal with Hx : fits _ _ = true |- _ => rename Hx into Hfa end.
  destruct x1 as [[[ma ea] [mb eb]] [mc ec]]. cbn [fst snd] in *.
  repeat match goal with Hx : (_ =? 0)%Z = true |- _ => apply Z.eqb_eq in Hx end.
  subst mb mc.
  apply (direct_sum_increasing (map rterm s0) (rterm ((ma, ea), (0%Z, eb), (0%Z, ec))) (map rterm s1)
           (Rtable rest) (IZR M)).
  - unfold rterm, tB. cbn [fst snd]. apply rlit_0.
  - unfold rterm, tC. cbn [fst snd]. apply rlit_0.
  - apply IZR_lt in Hlt. rewrite mult_IZR in Hlt.
    rewrite (zbound_val s M (s0 :: s1 :: rest) H 0%nat Hfit) in Hlt.
    rewrite (toS_val s (ma, ea) H Hfa) in Hlt.
    pose proof (pow10_pos s H) as Hp.
    unfold rterm, tA. cbn [fst snd].
    change (map rterm s0 :: map rterm s1 :: Rtable rest) with (Rtable (s0 :: s1 :: rest)).
    set (P := IZR (10 ^ s)) in *. set (D := dbound (IZR M) 0 (Rtable (s0 :: s1 :: rest))) in *.
    assert (HPP : 0 < P * P) by nra.
    apply Rmult_lt_reg_r with (P * P); [exact HPP|].
    replace (rlit (ma, ea) * (P * P)) with (rlit (ma, ea) * P * P) by ring. exact Hlt.
Qed.

(* ---- amplitude envelope in integers ---- *)
Definition zaterm (s M : Z) (i : nat) (x : dterm3) : Z := (Z.abs (toS s (fst (fst x))) * M ^ Z.of_nat i)%Z.
Fixpoint zabound (s M : Z) (i : nat) (T : list (list dterm3)) : Z :=
  match T with
  | [] => 0%Z
  | sr :: T' => (zsum (map (zaterm s M i) sr) + zabound s M (S i) T')%Z
  end.
Definition zafits (s : Z) (T : list (list dterm3)) : bool :=
  forallb (forallb (fun x => fits s (fst (fst x)))) T.

Theorem zabound_val s M T : (0 <= s)%Z -> forall i, zafits s T = true ->
  IZR (zabound s M i T) = abound (IZR M) i (Rtable T) * IZR (10 ^ s).
Proof.
  intro Hs. induction T as [|sr T IH]; intros i Hf; simpl.
  - ring.
  - unfold zafits in Hf. simpl in Hf. apply andb_prop in Hf as [Hx Hr].
    rewrite plus_IZR, (IH (S i) Hr). rewrite Rmult_plus_distr_r. f_equal.
    clear IH Hr. induction sr as [|x sr IHs]; simpl.
    + unfold sumR. simpl. ring.
    + simpl in Hx. apply andb_prop in Hx as [Hx1 Hx2].
      rewrite plus_IZR, (IHs Hx2). unfold zaterm. rewrite mult_IZR, (toS_abs s _ Hs Hx1).
      rewrite <- pow_IZR_nat. unfold rterm, tA. cbn [fst snd]. unfold sumR. simpl. ring.
Qed.

(* |series| <= num / 10^s with num computed from the table *)
Definition env_check (s M : Z) (T : list (list dterm3)) : bool := (0 <=? s)%Z && zafits s T.

Theorem env_check_bound s M T : env_check s M T = true ->
  forall t, Rabs t <= IZR M -> Rabs (direct_sum t (Rtable T)) <= IZR (zabound s M 0 T) / IZR (10 ^ s).
Proof.
  intros H t Ht. apply andb_prop in H as [Hs Hf]. apply Z.leb_le in Hs.
  pose proof (pow10_pos s Hs) as Hp.
  rewrite (zabound_val s M T Hs 0%nat Hf).
  replace (abound (IZR M) 0 (Rtable T) * IZR (10 ^ s) / IZR (10 ^ s)) with (abound (IZR M) 0 (Rtable T))
    by (field; lra).
  apply direct_sum_envelope. exact Ht.
Qed.

(* around the constant term: T = (x0 :: s0) :: rest with x0 = (A0, 0, 0) *)
Definition envc_check (s M : Z) (T : list (list dterm3)) : bool :=
  match T with
  | (x0 :: s0) :: rest =>
      (0 <=? s)%Z && (fst (snd (fst x0)) =? 0)%Z && (fst (snd x0) =? 0)%Z && zafits s (s0 :: rest)
  | _ => false
  end.
Definition const_term (T : list (list dterm3)) : R :=
  match T with (x0 :: _) :: _ => rlit (fst (fst x0)) | _ => 0 end.
Definition tail_table (T : list (list dterm3)) : list (list dterm3) :=
  match T with (_ :: s0) :: rest => s0 :: rest | _ => [] end.

Theorem envc_check_bound s M T : envc_check s M T = true ->
  forall t, Rabs t <= IZR M ->
  Rabs (direct_sum t (Rtable T) - const_term T) <= IZR (zabound s M 0 (tail_table T)) / IZR (10 ^ s).
Proof.
  destruct T as [|[|x0 s0] rest]; try discriminate.
  unfold envc_check. intros H t Ht.
  repeat (apply andb_prop in H; destruct H as [H ?]).
  apply Z.leb_le in H. pose proof (pow10_pos s H) as Hp.
  destruct x0 as [[[ma ea] [mb eb]] [mc ec]]. cbn [fst snd] in *.
  repeat match goal with Hx : (_ =? 0)%Z = true |- _ => apply Z.eqb_eq in Hx end.
  subst mb mc. cbn [tail_table const_term fst snd].
  match goal with Hx : zafits _ _ = true |- _ => rewrite (zabound_val s M (s0 :: rest) H 0%nat Hx) end.
  replace (abound (IZR M) 0 (Rtable (s0 :: rest)) * IZR (10 ^ s) / IZR (10 ^ s))
    with (abound (IZR M) 0 (Rtable (s0 :: rest))) by (field; lra).
  apply (direct_sum_envelope_const (rterm ((ma, ea), (0%Z, eb), (0%Z, ec))) (map rterm s0) (Rtable rest) t (IZR M)).
  - unfold rterm, tB. cbn [fst snd]. apply rlit_0.
  - unfold rterm, tC. cbn [fst snd]. apply rlit_0.
  - exact Ht.
Qed.
