(* C07: Angle(0, 0, s) (s seconds of arc) in the ideal instance, -60 < s < 0 *)
From Coq Require Import Reals ZArith List Bool Lra Lia String.
From PyLib Require Import PyVal PyBuiltins Ideal IdealFacts Whnf PyEval.
From Spec Require Import AngleSpec.
From Gen Require Import M_base M_Angle.
From Proofs.C07 Require Import C07_angle.
Import ListNotations.
Open Scope R_scope.

Lemma fmod_60 a : 0 <= a -> fmod_py Rops a (zf Rops 60) = VFloat (Rfmod a 60).
Proof. intro H. apply fmod_py_nonneg; simpl; lra. Qed.
Ltac py_user_rw tac ::= first [ rewrite reduce_deg_float | rewrite fmod_60 by (expose_R; tac) ].

Lemma init_sec_neg s : -60 < s < 0 -> mkA [VInt 0; VInt 0; VFloat s] = ang (s / 3600).
Proof.
  intros Hs. unfold mkA, blank, no_kw.
  assert (Rabs s = - s) as Ea by (apply Rabs_left; lra).
  pyrunZ. unfold ang, angT, tol0. rewrite Ea. change (Z.abs 0 mod 360)%Z with 0%Z. change (Z.abs 0) with 0%Z.
  Rlit_norm. rewrite red360_small.
  + match goal with |- VObj _ [VFloat ?a; _] = _ => replace a with (s / 3600) by lra end. reflexivity.
  + unfold Rabs. destruct (Rcase_abs _); lra.
Qed.
