(* Property C07 — VSOP87 heliocentric positions.  Statements only; proofs are in
   C07_lib.v (specification, generic loop theorems), C07_angle.v (Angle pieces),
   C07_series.v (vsop_pos), C07_corr.v (FK5 / aberration / nutation), C07_const.v (tables).
   All statements are about the IDEAL (real-number) instance [Rops] of the model regenerated
   from /repo on every run; they say nothing about binary64 rounding (searched instead). *)
From Coq Require Import Reals ZArith List Bool.
From PyLib Require Import PyVal PyBuiltins Ideal.
From Spec Require Import AngleSpec.
From Gen Require Import M_base M_Angle M_Epoch M_Coordinates.
From Gen Require M_Mercury M_Venus M_Earth M_Mars M_Jupiter M_Saturn M_Uranus M_Neptune.
#[local] Set Warnings "-ambiguous-paths".
From Coquelicot Require Import Coquelicot.
From Proofs.C07 Require Import C07_defs C07_lib C07_angle C07_sec C07_series C07_corr C07_const C07_elem.
From Proofs.C07 Require Import C07_mono C07_dec C07_mono_code.
From Proofs.C07 Require C07_mono_mercury C07_mono_venus C07_mono_earth C07_mono_mars C07_mono_jupiter C07_mono_saturn C07_mono_uranus C07_mono_neptune.
Import ListNotations.
Open Scope R_scope.

(* 1. The evaluator.  For tables of ANY shape (any number of powers of t, any number of terms
   per series; encoded as Python lists of lists of [A, B, C]) vsop_pos returns the direct
   term-by-term double sum  sum_i sum_k A_ik t^i cos(B_ik + C_ik t)  divided by 1e8, for the
   longitude (as Angle(.., radians=True), made positive), the latitude and the radius. *)
Theorem C07_series_evaluator : forall jde (L B Rr : list (list term)),
  L <> [] -> B <> [] -> Rr <> [] ->
  let t := (jde - 2451545) / 365250 in
  f_vsop_pos Rops (ep jde) (enc_table L) (enc_table B) (enc_table Rr) =
  VTuple [ang (pos360 (red360 (direct_sum t L / 100000000 * (180 / PI))));
          ang (red360 (direct_sum t B / 100000000 * (180 / PI)));
          VFloat (direct_sum t Rr / 100000000)].
Proof. exact vsop_pos_direct_sum. Qed.

(* Horner's scheme over the per-power sums (what the second loop does) = power sum = the flat
   direct sum over all terms *)
Theorem C07_horner_is_direct_sum : forall t (T : list (list term)),
  horner_code t (map (ssum t) T) = psum t 0 (map (ssum t) T) /\
  horner_code t (map (ssum t) T) = direct_sum t T.
Proof. intros t T. split; [apply horner_code_psum | apply horner_is_direct_sum]. Qed.

(* 2. Longitude of vsop_pos in [0, 360), any tables *)
Theorem C07_vsop_longitude_range : forall jde (L B Rr : list (list term)),
  L <> [] -> B <> [] -> Rr <> [] ->
  exists lon lat r, f_vsop_pos Rops (ep jde) (enc_table L) (enc_table B) (enc_table Rr)
                    = VTuple [ang lon; ang lat; VFloat r] /\ 0 <= lon < 360 /\ -360 < lat < 360.
Proof. exact vsop_pos_longitude_range. Qed.

(* 3. FK5 correction of geometric_vsop_pos, for ANY result (lon, lat, r) of vsop_pos on any
   tables (|tan lat| <= 500, i.e. |lat| < 89.88 deg):
     lon' = lon - 1.397 T - 0.00031 T^2 (reduced),
     dlon = -0.09033'' + 0.03916'' (cos lon' + sin lon') tan lat,  dlat = 0.03916'' (cos lon' - sin lon');
   without tofk5 the result of vsop_pos is returned unchanged. *)
Theorem C07_fk5_correction : forall jde lon lat r (L B Rr : list (val R)),
  f_vsop_pos Rops (ep jde) (VList L) (VList B) (VList Rr) = VTuple [ang lon; ang lat; VFloat r] ->
  Rabs (tan (lat * (PI / 180))) <= 500 ->
  f_geometric_vsop_pos Rops (ep jde) (VList L) (VList B) (VList Rr) (VBool false)
    = VTuple [ang lon; ang lat; VFloat r] /\
  f_geometric_vsop_pos Rops (ep jde) (VList L) (VList B) (VList Rr) (VBool true)
    = VTuple [ang (pos360 (red360 (lon + fk5_dlon jde lon lat)));
              ang (red360 (lat + fk5_dlat jde lon)); VFloat r] /\
  (let T := (jde - 2451545) / 36525 in
   lam_p jde lon = red360 (lon - T * (1397 / 1000 + 31 / 100000 * T)) * (PI / 180)) /\
  fk5_dlon jde lon lat * 3600 =
    - (9033 / 100000) + 3916 / 100000 * (cos (lam_p jde lon) + sin (lam_p jde lon)) * tan (lat * (PI / 180)) /\
  fk5_dlat jde lon * 3600 = 3916 / 100000 * (cos (lam_p jde lon) - sin (lam_p jde lon)).
Proof.
  intros jde lon lat r L B Rr Hv Ht.
  split; [exact (geometric_nofk5 jde lon lat r L B Rr Hv)|].
  split; [exact (geometric_fk5 jde lon lat r L B Rr Hv Ht)|].
  split; [exact (lam_p_eq jde lon)|].
  split; [exact (fk5_dlon_eq jde lon lat) | exact (fk5_dlat_eq jde lon)].
Qed.

(* documented size of the FK5 correction *)
Theorem C07_fk5_size : forall jde lon lat,
  Rabs (fk5_dlon jde lon lat * 3600) <= 9033 / 100000 + 3916 / 100000 * sqrt 2 * Rabs (tan (lat * (PI / 180))) /\
  Rabs (fk5_dlat jde lon * 3600) <= 3916 / 100000 * sqrt 2.
Proof. exact fk5_size. Qed.

(* 4. apparent_vsop_pos: (nutation in longitude, then) aberration -20.4898''/r added to the
   FK5 longitude, reduced to [0, 360); latitude and radius untouched.  (r >= 0.01 AU.) *)
Theorem C07_aberration : forall jde lon lat r dpsi (L B Rr : list (val R)),
  f_geometric_vsop_pos Rops (ep jde) (VList L) (VList B) (VList Rr) (VBool true)
    = VTuple [ang lon; ang lat; VFloat r] ->
  f_nutation_longitude Rops (VTuple [ep jde]) (VDict []) = ang dpsi ->
  1 / 100 <= r ->
  f_apparent_vsop_pos Rops (ep jde) (VList L) (VList B) (VList Rr) (VBool false)
    = VTuple [ang (pos360 (red360 (lon + aberration r))); ang lat; VFloat r] /\
  f_apparent_vsop_pos Rops (ep jde) (VList L) (VList B) (VList Rr) (VBool true)
    = VTuple [ang (pos360 (red360 (red360 (lon + dpsi) + aberration r))); ang lat; VFloat r] /\
  aberration r * 3600 = - (204898 / 10000) / r.
Proof.
  intros jde lon lat r dpsi L B Rr Hg Hn Hr.
  split; [exact (apparent_no_nutation jde lon lat r L B Rr Hg Hr)|].
  split; [exact (apparent_nutation jde lon lat r dpsi L B Rr Hg Hn Hr)|].
  apply aberration_eq. apply Rgt_not_eq. apply Rlt_le_trans with (1 / 100); [|exact Hr].
  apply Rdiv_lt_0_compat; apply IZR_lt; reflexivity.
Qed.

(* every corrected longitude above has the form pos360 (red360 x): it is in [0, 360) *)
Theorem C07_corrected_longitude_range : forall x, 0 <= pos360 (red360 x) < 360.
Proof. exact corrected_range. Qed.

(* 5. Constants of the tables extracted from the source, per planet:
   L1[0] = (A, 0, 0) with A/1e8 rad/millennium = the element table's mean-longitude rate to 1e-6,
   and (sidereal n)^2 a^3 = k^2 to 0.1 % (1 % Saturn .. Neptune), k = 0.01720209895. *)
Theorem C07_table_constants :
  constants_ok (M_Mercury.g_VSOP87_L Rops) (M_Mercury.g_ORBITAL_ELEM Rops) (M_Mercury.g_ORBITAL_ELEM_J2000 Rops) (1 / 1000000) (1 / 1000) /\
  constants_ok (M_Venus.g_VSOP87_L Rops) (M_Venus.g_ORBITAL_ELEM Rops) (M_Venus.g_ORBITAL_ELEM_J2000 Rops) (1 / 1000000) (1 / 1000) /\
  constants_ok (M_Earth.g_VSOP87_L Rops) (M_Earth.g_ORBITAL_ELEM Rops) (M_Earth.g_ORBITAL_ELEM_J2000 Rops) (1 / 1000000) (1 / 1000) /\
  constants_ok (M_Mars.g_VSOP87_L Rops) (M_Mars.g_ORBITAL_ELEM Rops) (M_Mars.g_ORBITAL_ELEM_J2000 Rops) (1 / 1000000) (1 / 1000) /\
  constants_ok (M_Jupiter.g_VSOP87_L Rops) (M_Jupiter.g_ORBITAL_ELEM Rops) (M_Jupiter.g_ORBITAL_ELEM_J2000 Rops) (1 / 1000000) (1 / 1000) /\
  constants_ok (M_Saturn.g_VSOP87_L Rops) (M_Saturn.g_ORBITAL_ELEM Rops) (M_Saturn.g_ORBITAL_ELEM_J2000 Rops) (1 / 1000000) (1 / 100) /\
  constants_ok (M_Uranus.g_VSOP87_L Rops) (M_Uranus.g_ORBITAL_ELEM Rops) (M_Uranus.g_ORBITAL_ELEM_J2000 Rops) (1 / 1000000) (1 / 100) /\
  constants_ok (M_Neptune.g_VSOP87_L Rops) (M_Neptune.g_ORBITAL_ELEM Rops) (M_Neptune.g_ORBITAL_ELEM_J2000 Rops) (1 / 1000000) (1 / 100).
Proof. exact mean_longitude_rate_and_third_law. Qed.

Theorem C07_earth_j2000_rate :
  exists A b c rate : R,
    get2 (M_Earth.g_VSOP87_L_J2000 Rops) 1 0 = VList [VFloat A; VFloat b; VFloat c] /\ b = 0 /\ c = 0 /\
    get2 (M_Earth.g_ORBITAL_ELEM_J2000 Rops) 0 1 = VFloat rate /\
    Rabs (A / 100000000 * (180 / PI) / 10 - rate) <= 1 / 1000000 * rate.
Proof. exact earth_j2000_rate. Qed.

(* 6. orbital_elements: each element is the cubic polynomial (Horner form) of its table row in
   T = (JDE - 2451545)/36525; argument of perihelion = longitude of perihelion - node; angles reduced.
   6-row table for the mean equinox of date, 6-row + 4-row tables for J2000.
   (Given that the module constant JDE2000 evaluates to 2451545: C07_jde2000.v, thorough tier.) *)
Theorem C07_orbital_elements : JDE2000_is_2451545 ->
  forall jde (rl ra re ri rn rp jl ji jn jp : row4),
  let tbl := VList [enc_row rl; enc_row ra; enc_row re; enc_row ri; enc_row rn; enc_row rp] in
  let tblj := VList [enc_row jl; enc_row ji; enc_row jn; enc_row jp] in
  let T := (jde - 2451545) / 36525 in
  f_orbital_elements Rops (ep jde) tbl tbl =
    VTuple [ang (red360 (cubic rl T)); VFloat (cubic ra T); VFloat (cubic re T);
            ang (red360 (cubic ri T)); ang (red360 (cubic rn T)); ang (red360 (cubic rp T - cubic rn T))] /\
  f_orbital_elements Rops (ep jde) tbl tblj =
    VTuple [ang (red360 (cubic jl T)); VFloat (cubic ra T); VFloat (cubic re T);
            ang (red360 (cubic ji T)); ang (red360 (cubic jn T)); ang (red360 (cubic jp T - cubic jn T))].
Proof.
  intros Hj jde rl ra re ri rn rp jl ji jn jp. split.
  - exact (orbital_elements_6 jde rl ra re ri rn rp Hj).
  - exact (orbital_elements_4 jde rl ra re ri rn rp jl ji jn jp Hj).
Qed.

(* 7. Longitude only ever increases.
   (a) any tables: the series S(t) = direct_sum t T is differentiable with the term-by-term
   derivative; with A* the secular rate (first term of the t^1 series, B = C = 0) the derivative is
   at least A* - sum' |A|(i M^(i-1) + |C| M^i) for |t| <= M (sum' over all other terms), and S is
   strictly increasing on [-M, M] when that sum is below A*. *)
Theorem C07_series_derivative :
  (forall T t, is_derive (fun t => direct_sum t T) t (sumR (ddterms t 0 T))) /\
  (forall s0 x1 s1 rest t M, tB x1 = 0 -> tC x1 = 0 -> Rabs t <= M ->
     tA x1 - dbound M 0 (s0 :: s1 :: rest) <= sumR (ddterms t 0 (s0 :: (x1 :: s1) :: rest))) /\
  (forall s0 x1 s1 rest M, tB x1 = 0 -> tC x1 = 0 -> dbound M 0 (s0 :: s1 :: rest) < tA x1 ->
     forall t1 t2, - M <= t1 -> t1 < t2 -> t2 <= M ->
     direct_sum t1 (s0 :: (x1 :: s1) :: rest) < direct_sum t2 (s0 :: (x1 :: s1) :: rest)).
Proof. exact (conj direct_sum_derive (conj derivative_lower_bound direct_sum_increasing)). Qed.

(* (b) the eight planets: the tables VSOP87_L/B/R of the regenerated modules are read by
   computation as exact decimals; the kernel checks in integer arithmetic that the amplitude sum is
   below the secular rate for |t| <= 4 millennia; hence vsop_pos on these tables returns the
   reduced form of an UNREDUCED longitude [ulon TL jde] (degrees) that is strictly increasing in
   the epoch over jde_lo .. jde_hi = years -2000 .. 6000 (longitude_increasing: C07_mono_code.v) *)
Theorem C07_longitude_increasing :
  longitude_increasing (M_Mercury.g_VSOP87_L Rops) (M_Mercury.g_VSOP87_B Rops) (M_Mercury.g_VSOP87_R Rops) /\
  longitude_increasing (M_Venus.g_VSOP87_L Rops) (M_Venus.g_VSOP87_B Rops) (M_Venus.g_VSOP87_R Rops) /\
  longitude_increasing (M_Earth.g_VSOP87_L Rops) (M_Earth.g_VSOP87_B Rops) (M_Earth.g_VSOP87_R Rops) /\
  longitude_increasing (M_Mars.g_VSOP87_L Rops) (M_Mars.g_VSOP87_B Rops) (M_Mars.g_VSOP87_R Rops) /\
  longitude_increasing (M_Jupiter.g_VSOP87_L Rops) (M_Jupiter.g_VSOP87_B Rops) (M_Jupiter.g_VSOP87_R Rops) /\
  longitude_increasing (M_Saturn.g_VSOP87_L Rops) (M_Saturn.g_VSOP87_B Rops) (M_Saturn.g_VSOP87_R Rops) /\
  longitude_increasing (M_Uranus.g_VSOP87_L Rops) (M_Uranus.g_VSOP87_B Rops) (M_Uranus.g_VSOP87_R Rops) /\
  longitude_increasing (M_Neptune.g_VSOP87_L Rops) (M_Neptune.g_VSOP87_B Rops) (M_Neptune.g_VSOP87_R Rops).
Proof.
  exact (conj C07_mono_mercury.mercury_longitude_increasing (conj C07_mono_venus.venus_longitude_increasing (conj C07_mono_earth.earth_longitude_increasing (conj C07_mono_mars.mars_longitude_increasing (conj C07_mono_jupiter.jupiter_longitude_increasing (conj C07_mono_saturn.saturn_longitude_increasing (conj C07_mono_uranus.uranus_longitude_increasing C07_mono_neptune.neptune_longitude_increasing))))))).
Qed.

(* 8. Amplitude envelopes (weaker than the property's physical envelope; the integers nB, nR are
   computed from the tables by the kernel): over years -2000 .. 6000
   |latitude series| <= nB / 1e23 rad, |radius series - constant term| <= nR / 1e23 AU *)
Theorem C07_envelope_partial :
  series_envelope (M_Mercury.g_VSOP87_L Rops) (M_Mercury.g_VSOP87_B Rops) (M_Mercury.g_VSOP87_R Rops) C07_mono_mercury.nB C07_mono_mercury.nR /\
  series_envelope (M_Venus.g_VSOP87_L Rops) (M_Venus.g_VSOP87_B Rops) (M_Venus.g_VSOP87_R Rops) C07_mono_venus.nB C07_mono_venus.nR /\
  series_envelope (M_Earth.g_VSOP87_L Rops) (M_Earth.g_VSOP87_B Rops) (M_Earth.g_VSOP87_R Rops) C07_mono_earth.nB C07_mono_earth.nR /\
  series_envelope (M_Mars.g_VSOP87_L Rops) (M_Mars.g_VSOP87_B Rops) (M_Mars.g_VSOP87_R Rops) C07_mono_mars.nB C07_mono_mars.nR /\
  series_envelope (M_Jupiter.g_VSOP87_L Rops) (M_Jupiter.g_VSOP87_B Rops) (M_Jupiter.g_VSOP87_R Rops) C07_mono_jupiter.nB C07_mono_jupiter.nR /\
  series_envelope (M_Saturn.g_VSOP87_L Rops) (M_Saturn.g_VSOP87_B Rops) (M_Saturn.g_VSOP87_R Rops) C07_mono_saturn.nB C07_mono_saturn.nR /\
  series_envelope (M_Uranus.g_VSOP87_L Rops) (M_Uranus.g_VSOP87_B Rops) (M_Uranus.g_VSOP87_R Rops) C07_mono_uranus.nB C07_mono_uranus.nR /\
  series_envelope (M_Neptune.g_VSOP87_L Rops) (M_Neptune.g_VSOP87_B Rops) (M_Neptune.g_VSOP87_R Rops) C07_mono_neptune.nB C07_mono_neptune.nR.
Proof.
  exact (conj C07_mono_mercury.mercury_envelope_partial (conj C07_mono_venus.venus_envelope_partial (conj C07_mono_earth.earth_envelope_partial (conj C07_mono_mars.mars_envelope_partial (conj C07_mono_jupiter.jupiter_envelope_partial (conj C07_mono_saturn.saturn_envelope_partial (conj C07_mono_uranus.uranus_envelope_partial C07_mono_neptune.neptune_envelope_partial))))))).
Qed.

Redirect "C07_series_evaluator.assumptions" Print Assumptions C07_series_evaluator.
Redirect "C07_horner_is_direct_sum.assumptions" Print Assumptions C07_horner_is_direct_sum.
Redirect "C07_vsop_longitude_range.assumptions" Print Assumptions C07_vsop_longitude_range.
Redirect "C07_fk5_correction.assumptions" Print Assumptions C07_fk5_correction.
Redirect "C07_fk5_size.assumptions" Print Assumptions C07_fk5_size.
Redirect "C07_aberration.assumptions" Print Assumptions C07_aberration.
Redirect "C07_corrected_longitude_range.assumptions" Print Assumptions C07_corrected_longitude_range.
Redirect "C07_table_constants.assumptions" Print Assumptions C07_table_constants.
Redirect "C07_earth_j2000_rate.assumptions" Print Assumptions C07_earth_j2000_rate.
Redirect "C07_orbital_elements.assumptions" Print Assumptions C07_orbital_elements.
Redirect "C07_series_derivative.assumptions" Print Assumptions C07_series_derivative.
Redirect "C07_longitude_increasing.assumptions" Print Assumptions C07_longitude_increasing.
Redirect "C07_envelope_partial.assumptions" Print Assumptions C07_envelope_partial.
