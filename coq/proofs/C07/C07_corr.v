(* C07: structure and size of the corrections applied by geometric_vsop_pos (FK5) and
   apparent_vsop_pos (nutation, aberration), ideal instance.  The series evaluation itself
   (vsop_pos, C07_series.v) is abstracted: its result is any (Angle lon, Angle lat, r). *)
From Coq Require Import Reals ZArith List Bool Lra Lia.
From PyLib Require Import PyVal PyBuiltins Ideal IdealFacts Whnf PyEval.
From Spec Require Import AngleSpec.
From Gen Require Import M_base M_Angle M_Epoch M_Coordinates.
From Proofs.C07 Require Import C07_defs C07_angle C07_sec.
Import ListNotations.
Open Scope R_scope.

Ltac2 Set Whnf.is_blocked as old := fun c =>
  Ltac2.Bool.or (old c) (Ltac2.List.exist (Ltac2.Constr.equal c)
    ['@f_vsop_pos; '@f_nutation_longitude; '@Angle___init__; '@Angle_to_positive;
     '@Angle___sub__; '@Angle___iadd__; '@Angle___add__]).

(* object-level forms of the Angle lemmas (what the evaluator meets) *)
Lemma init_sec_obj s : -3600 < s < 60 ->
  Angle___init__ Rops (VObj cAngle [VNone; VNone]) (VTuple [VInt 0; VInt 0; VFloat s]) (VDict [])
  = VObj cAngle [VFloat (s / 3600); VFloat tol0].
Proof. exact (init_sec s). Qed.
Lemma iadd_obj a t b t' :
  Angle___iadd__ Rops (VObj cAngle [VFloat a; VFloat t]) (VObj cAngle [VFloat b; VFloat t'])
  = VObj cAngle [VFloat (red360 (a + b)); VFloat tol0].
Proof. exact (iadd_ang a t b t'). Qed.
Lemma sub_float_obj a t x :
  Angle___sub__ Rops (VObj cAngle [VFloat a; VFloat t]) (VFloat x)
  = VObj cAngle [VFloat (red360 (a + - x)); VFloat tol0].
Proof. exact (sub_float a t x). Qed.

Lemma to_positive_obj v t : -360 < v < 360 ->
  Angle_to_positive Rops (VObj cAngle [VFloat v; VFloat t]) =
  VTuple [VObj cAngle [VFloat (pos360 v); VFloat t]; VObj cAngle [VFloat (pos360 v); VFloat t]].
Proof. exact (to_positive_ideal v t). Qed.

(* bounds that keep Angle(0, 0, seconds) in its simple branch *)
Lemma fk5_a_bound x y : Rabs (tan y) <= 500 ->
  -60 < Rlit 3916 (-5) * (cos x + sin x) * tan y < 60.
Proof.
  intro H. pose proof (COS_bound x). pose proof (SIN_bound x).
  assert (-500 <= tan y <= 500) as [T1 T2] by (unfold Rabs in H; destruct (Rcase_abs (tan y)); lra).
  Rlit_norm. set (u := cos x + sin x). assert (-2 <= u <= 2) as [U1 U2] by (unfold u; lra).
  set (v := tan y) in *. split; nra.
Qed.
Lemma fk5_b_bound x : -60 < Rlit 3916 (-5) * (cos x - sin x) < 60.
Proof.
  pose proof (COS_bound x). pose proof (SIN_bound x). Rlit_norm. split; lra.
Qed.
Lemma aberr_bound r : 1 / 100 <= r -> -3600 < Rlit (-204898) (-4) / r < 60.
Proof.
  intro H. Rlit_norm. assert (0 < r) by lra.
  assert (0 < / r <= 100) as [I1 I2].
  { split; [apply Rinv_0_lt_compat; lra|].
    replace 100 with (/ (1 / 100)) by field. apply Rinv_le_contravar; lra. }
  unfold Rdiv. split; nra.
Qed.
Lemma wide x : -60 < x < 60 -> -3600 < x < 60.
Proof. lra. Qed.

Ltac sec_bound :=
  first [ apply wide; apply fk5_a_bound; assumption | apply wide; apply fk5_b_bound
        | apply aberr_bound; assumption | expose_R; split; pylra ].

Ltac py_user_rw tac ::=
  first [ rewrite init_sec_obj by sec_bound | rewrite iadd_obj | rewrite sub_float_obj
        | rewrite to_positive_obj by (apply red360_range) ].

(* the FK5 correction, in degrees, with the literals as the code has them *)
Definition jcent (jde : R) : R := (jde - Rlit 24515450 (-1)) / Rlit 365250 (-1).
Definition lam_p (jde lon : R) : R :=
  red360 (lon + - (jcent jde * (Rlit 1397 (-3) + Rlit 31 (-5) * jcent jde))) * (PI / 180).
Definition fk5_dlon (jde lon lat : R) : R :=
  Rlit (-9033) (-5) / 3600 +
  Rlit 3916 (-5) * (cos (lam_p jde lon) + sin (lam_p jde lon)) * tan (lat * (PI / 180)) / 3600.
Definition fk5_dlat (jde lon : R) : R :=
  Rlit 3916 (-5) * (cos (lam_p jde lon) - sin (lam_p jde lon)) / 3600.
Definition aberration (r : R) : R := Rlit (-204898) (-4) / r / 3600.

(* ... and in plain numbers *)
Lemma jcent_eq jde : jcent jde = (jde - 2451545) / 36525.
Proof. unfold jcent. Rlit_norm. field. Qed.
Lemma lam_p_eq jde lon : let T := (jde - 2451545) / 36525 in
  lam_p jde lon = red360 (lon - T * ((1397 / 1000) + (31 / 100000) * T)) * (PI / 180).
Proof.
  cbv zeta. unfold lam_p. rewrite jcent_eq. f_equal; try (f_equal; Rlit_norm; field).
Qed.
Lemma fk5_dlon_eq jde lon lat :
  fk5_dlon jde lon lat * 3600 =
  - (9033 / 100000) + (3916 / 100000) * (cos (lam_p jde lon) + sin (lam_p jde lon)) * tan (lat * (PI / 180)).
Proof. unfold fk5_dlon. Rlit_norm. field. Qed.
Lemma fk5_dlat_eq jde lon :
  fk5_dlat jde lon * 3600 = (3916 / 100000) * (cos (lam_p jde lon) - sin (lam_p jde lon)).
Proof. unfold fk5_dlat. Rlit_norm. field. Qed.
Lemma aberration_eq r : r <> 0 -> aberration r * 3600 = - (204898 / 10000) / r.
Proof. intro H. unfold aberration. Rlit_norm. field. assumption. Qed.

Lemma fk5_dlon_small jde lon lat : Rabs (tan (lat * (PI / 180))) <= 500 -> Rabs (fk5_dlon jde lon lat) < 360.
Proof.
  intro H. unfold fk5_dlon.
  pose proof (fk5_a_bound (lam_p jde lon) _ H) as B.
  assert (Rlit (-9033) (-5) = - 9033 / 100000) as -> by (Rlit_norm; lra).
  unfold Rabs. destruct (Rcase_abs _); lra.
Qed.
Lemma fk5_dlat_small jde lon : Rabs (fk5_dlat jde lon) < 360.
Proof.
  unfold fk5_dlat. pose proof (fk5_b_bound (lam_p jde lon)) as B.
  unfold Rabs. destruct (Rcase_abs _); lra.
Qed.

(* documented size: |dlon + (9033 / 100000)''| <= (3916 / 100000)'' sqrt2 |tan b|,  |dlat| <= (3916 / 100000)'' sqrt2 *)
Lemma abs_cs_sqrt2 x : Rabs (cos x + sin x) <= sqrt 2 /\ Rabs (cos x - sin x) <= sqrt 2.
Proof.
  pose proof (sin2_cos2 x) as H. unfold Rsqr in H.
  pose proof (Rle_0_sqr (cos x - sin x)) as H1. pose proof (Rle_0_sqr (cos x + sin x)) as H2.
  unfold Rsqr in H1, H2.
  split; rewrite <- sqrt_Rsqr_abs; apply sqrt_le_1_alt; unfold Rsqr; lra.
Qed.
Theorem fk5_size jde lon lat :
  Rabs (fk5_dlon jde lon lat * 3600) <= (9033 / 100000) + (3916 / 100000) * sqrt 2 * Rabs (tan (lat * (PI / 180))) /\
  Rabs (fk5_dlat jde lon * 3600) <= (3916 / 100000) * sqrt 2.
Proof.
  rewrite fk5_dlon_eq, fk5_dlat_eq.
  destruct (abs_cs_sqrt2 (lam_p jde lon)) as [A B].
  split.
  - eapply Rle_trans; [apply Rabs_triang|].
    rewrite Rabs_Ropp, (Rabs_right (9033 / 100000)) by lra.
    apply Rplus_le_compat_l.
    rewrite !Rabs_mult, (Rabs_right (3916 / 100000)) by lra.
    apply Rmult_le_compat_r; [apply Rabs_pos|].
    apply Rmult_le_compat_l; [lra | exact A].
  - rewrite Rabs_mult, (Rabs_right (3916 / 100000)) by lra.
    apply Rmult_le_compat_l; [lra | exact B].
Qed.

Section Corrections.
Variables (jde lon lat r : R) (L B Rr : list rval).
Hypothesis Hvsop : f_vsop_pos Rops (ep jde) (VList L) (VList B) (VList Rr) = VTuple [ang lon; ang lat; VFloat r].
Hypothesis Hlat : Rabs (tan (lat * (PI / 180))) <= 500.

(* tofk5 = False: the result of vsop_pos unchanged *)
Theorem geometric_nofk5 :
  f_geometric_vsop_pos Rops (ep jde) (VList L) (VList B) (VList Rr) (VBool false) = VTuple [ang lon; ang lat; VFloat r].
Proof.
  unfold ep, ang, angT in *. pyrunA. reflexivity.
Qed.

(* tofk5 = True *)
Theorem geometric_fk5 :
  f_geometric_vsop_pos Rops (ep jde) (VList L) (VList B) (VList Rr) (VBool true) =
  VTuple [ang (pos360 (red360 (lon + fk5_dlon jde lon lat)));
          ang (red360 (lat + fk5_dlat jde lon)); VFloat r].
Proof.
  unfold ep, ang, angT in *. pyrunA.
  change (VTuple [VObj cAngle [VFloat (pos360 (red360 (lon + red360 (fk5_dlon jde lon lat)))); VFloat tol0];
                  VObj cAngle [VFloat (red360 (lat + fk5_dlat jde lon)); VFloat tol0]; VFloat r] =
          VTuple [VObj cAngle [VFloat (pos360 (red360 (lon + fk5_dlon jde lon lat))); VFloat tol0];
                  VObj cAngle [VFloat (red360 (lat + fk5_dlat jde lon)); VFloat tol0]; VFloat r]).
  rewrite (red360_small _ (fk5_dlon_small jde lon lat Hlat)). reflexivity.
Qed.
End Corrections.

(* ------------------------------------------------------------------ apparent_vsop_pos *)
Ltac2 Set Whnf.is_blocked as old := fun c =>
  Ltac2.Bool.or (old c) (Ltac2.Constr.equal c '@f_geometric_vsop_pos).

Section Apparent.
Variables (jde lon lat r dpsi : R) (L B Rr : list rval).
Hypothesis Hgeo : f_geometric_vsop_pos Rops (ep jde) (VList L) (VList B) (VList Rr) (VBool true)
                  = VTuple [ang lon; ang lat; VFloat r].
Hypothesis Hnut : f_nutation_longitude Rops (VTuple [ep jde]) (VDict []) = ang dpsi.
(* radius at least 0.01 AU keeps 20.4898''/r below one degree (branches of Angle(0,0,s) covered by C07_sec) *)
Hypothesis Hr : 1 / 100 <= r.

Theorem apparent_no_nutation :
  f_apparent_vsop_pos Rops (ep jde) (VList L) (VList B) (VList Rr) (VBool false) =
  VTuple [ang (pos360 (red360 (lon + aberration r))); ang lat; VFloat r].
Proof.
  unfold ep, ang, angT in *. pyrunA. reflexivity.
Qed.

Theorem apparent_nutation :
  f_apparent_vsop_pos Rops (ep jde) (VList L) (VList B) (VList Rr) (VBool true) =
  VTuple [ang (pos360 (red360 (red360 (lon + dpsi) + aberration r))); ang lat; VFloat r].
Proof.
  unfold ep, ang, angT in *. pyrunA. reflexivity.
Qed.
End Apparent.

(* whatever the corrections are, the longitude handed back is in [0, 360) *)
Lemma corrected_range x : 0 <= pos360 (red360 x) < 360.
Proof. apply pos360_range, red360_range. Qed.
