(* C07: specification of a VSOP87 series evaluation over the reals, the encoding of
   tables as Python values, and generic theorems (induction over lists, any length)
   about the two loop shapes the translator produces for Coordinates.vsop_pos.
   Nothing here mentions the generated model; C07_series.v shows that the generated
   loops ARE instances of [nest_fix] / [acc_fix] (by unification with the generated text). *)
From Coq Require Import Reals ZArith List Bool Lra Lia.
From PyLib Require Import PyVal PyBuiltins Ideal.
Import ListNotations.
Open Scope R_scope.

Notation rval := (val R).

(* ------------------------------------------------------------------ specification *)
(* one periodic term (A, B, C) at time t:  A cos(B + C t) *)
Definition term := (R * R * R)%type.
Definition tA (x : term) : R := fst (fst x).
Definition tB (x : term) : R := snd (fst x).
Definition tC (x : term) : R := snd x.
Definition tval (t : R) (x : term) : R := tA x * cos (tB x + tC x * t).

Definition sumR (l : list R) : R := fold_right Rplus 0 l.

(* the sum of one series, accumulated left to right from z (what the inner loop does) *)
Definition ssum_from (t z : R) (s : list term) : R := fold_left (fun acc x => acc + tval t x) s z.
Definition ssum (t : R) (s : list term) : R := sumR (map (tval t) s).

(* direct term-by-term double sum:  sum_i sum_k  A_ik t^i cos(B_ik + C_ik t),
   as ONE flat sum over all terms of all series *)
Fixpoint dterms (t : R) (i : nat) (T : list (list term)) : list R :=
  match T with
  | [] => []
  | s :: T' => map (fun x => tA x * t ^ i * cos (tB x + tC x * t)) s ++ dterms t (S i) T'
  end.
Definition direct_sum (t : R) (T : list (list term)) : R := sumR (dterms t 0 T).

(* power sum of the per-power sums *)
Fixpoint psum (t : R) (i : nat) (S : list R) : R :=
  match S with [] => 0 | x :: S' => t ^ i * x + psum t (Datatypes.S i) S' end.

(* what the second loop does: lon = 0; for i = n-1 .. 1: lon = (lon + S_i) t; lon += S_0 *)
Definition horner_code (t : R) (S : list R) : R :=
  match S with
  | [] => 0
  | s0 :: rest => fold_left (fun acc x => (acc + x) * t) (rev rest) 0 + s0
  end.

Lemma sumR_app a b : sumR (a ++ b) = sumR a + sumR b.
Proof. induction a; simpl; lra. Qed.

Lemma ssum_from_shift t s z : ssum_from t z s = z + ssum t s.
Proof.
  revert z. induction s as [|x s IH]; intro z; unfold ssum_from, ssum in *; simpl.
  - lra.
  - rewrite IH. lra.
Qed.

Lemma ssum_from_0 t s : ssum_from t 0 s = ssum t s.
Proof. rewrite ssum_from_shift. lra. Qed.

Lemma psum_shift t i S : psum t (Datatypes.S i) S = t * psum t i S.
Proof.
  revert i. induction S as [|x S IH]; intro i; simpl.
  - lra.
  - rewrite IH. ring.
Qed.

Lemma horner_tail t rest :
  fold_left (fun acc x => (acc + x) * t) (rev rest) 0 = psum t 1 rest.
Proof.
  rewrite <- fold_left_rev_right. rewrite rev_involutive.
  induction rest as [|x rest IH]; simpl.
  - reflexivity.
  - rewrite IH. rewrite (psum_shift t 1 rest). ring.
Qed.

(* Horner's scheme in t = the power sum *)
Theorem horner_code_psum t S : horner_code t S = psum t 0 S.
Proof.
  destruct S as [|s0 rest]; simpl.
  - reflexivity.
  - rewrite horner_tail. lra.
Qed.

Lemma sumR_scal c l : sumR (map (fun x => c * x) l) = c * sumR l.
Proof. induction l; simpl; [lra | rewrite IHl; lra]. Qed.

(* ... = the direct term-by-term double sum *)
Theorem psum_direct t T i : psum t i (map (ssum t) T) = sumR (dterms t i T).
Proof.
  revert i. induction T as [|s T IH]; intro i; simpl.
  - reflexivity.
  - rewrite sumR_app, IH. f_equal.
    unfold ssum. rewrite <- sumR_scal, map_map.
    f_equal. apply map_ext. intro x. unfold tval. ring.
Qed.

Theorem horner_is_direct_sum t T : horner_code t (map (ssum t) T) = direct_sum t T.
Proof. rewrite horner_code_psum. apply psum_direct. Qed.

(* ------------------------------------------------------------------ tables as Python values *)
Definition enc_term (x : term) : rval := VList [VFloat (tA x); VFloat (tB x); VFloat (tC x)].
Definition enc_series (s : list term) : rval := VList (map enc_term s).
Definition enc_table (T : list (list term)) : rval := VList (map enc_series T).

Lemma nth_val_nth (l : list rval) i x :
  nth_error l i = Some x -> nth_val l (Z.of_nat i) = x.
Proof.
  intro H.
  assert (i < length l)%nat as Hi by (apply nth_error_Some; congruence).
  assert ((Z.of_nat i <? 0)%Z = false) as E1 by (apply Z.ltb_ge; lia).
  assert ((Z.of_nat (length l) <=? Z.of_nat i)%Z = false) as E2 by (apply Z.leb_gt; lia).
  unfold nth_val. cbv zeta. rewrite E1. cbv iota. rewrite E1. rewrite E2. simpl orb. cbv iota.
  rewrite Nat2Z.id. apply nth_error_nth. assumption.
Qed.

Lemma getitem_list (l : list rval) i x :
  nth_error l i = Some x -> py_getitem Rops (VList l) (VInt (Z.of_nat i)) = x.
Proof. intro H. simpl. apply nth_val_nth. assumption. Qed.

Lemma getitem_map {A} (f : A -> rval) l i x :
  nth_error l i = Some x -> py_getitem Rops (VList (map f l)) (VInt (Z.of_nat i)) = f x.
Proof. intro H. apply getitem_list. rewrite nth_error_map, H. reflexivity. Qed.

Lemma getitem_table T i s :
  nth_error T i = Some s -> py_getitem Rops (enc_table T) (VInt (Z.of_nat i)) = enc_series s.
Proof. apply getitem_map. Qed.
Lemma getitem_series s j x :
  nth_error s j = Some x -> py_getitem Rops (enc_series s) (VInt (Z.of_nat j)) = enc_term x.
Proof. apply getitem_map. Qed.
Lemma getitem_term0 x : py_getitem Rops (enc_term x) (VInt 0) = VFloat (tA x).
Proof. reflexivity. Qed.
Lemma getitem_term1 x : py_getitem Rops (enc_term x) (VInt 1) = VFloat (tB x).
Proof. reflexivity. Qed.
Lemma getitem_term2 x : py_getitem Rops (enc_term x) (VInt 2) = VFloat (tC x).
Proof. reflexivity. Qed.

Lemma zrange_nat_S a n : zrange_nat a (S n) = VInt a :: @zrange_nat R (a + 1) n.
Proof. reflexivity. Qed.

Lemma range_len (l : list rval) :
  py_iter (py_range (@VInt R 0) (py_len (VList l))) = VList (zrange_nat 0 (length l)).
Proof.
  simpl. unfold py_range. cbn [norm]. rewrite Z.sub_0_r, Nat2Z.id. reflexivity.
Qed.

Lemma nth_error_mid {A} (done : list A) x rest : nth_error (done ++ x :: rest) (length done) = Some x.
Proof. induction done; simpl; auto. Qed.

(* ------------------------------------------------------------------ loop shapes *)
(* for x in l: acc = body(x, acc)      — loop variable and accumulator are the state *)
Definition acc_fix (K : rval -> rval -> rval) (body : rval -> rval -> rval) :=
  fix loop (l : list rval) (k s : rval) {struct l} : rval :=
    match l with
    | [] => K k s
    | x :: l' => bind (body x s) (fun s2 => loop l' x s2)
    end.

(* for i in l: s = init; for k in rng(i): s = body(i, k, s); sum_list.append(s) *)
Definition nest_fix (K : rval -> rval -> rval -> rval -> rval) (init : rval)
    (rng : rval -> rval) (body : rval -> rval -> rval -> rval) :=
  fix outer (l : list rval) (i k s sl : rval) {struct l} : rval :=
    match l with
    | [] => K i k s sl
    | x :: l' =>
        bind init (fun s0 =>
        bind (rng x) (fun l2 =>
          (fix inner (l3 : list rval) (k2 s2 : rval) {struct l3} : rval :=
             match l3 with
             | [] => bind (py_append sl s2) (fun sl' => bind VNone (fun _ => outer l' x k2 s2 sl'))
             | y :: l3' => bind (body x y s2) (fun s3 => inner l3' y s3)
             end) (seq_of l2) k s0))
    end.

(* the accumulating loop over a list of integers, with a real accumulator *)
Theorem acc_fix_spec K body (f : Z -> R -> R) :
  forall n a k acc,
  (forall j s, (a <= j < a + Z.of_nat n)%Z -> body (VInt j) (VFloat s) = VFloat (f j s)) ->
  exists k', acc_fix K body (zrange_nat a n) k (VFloat acc) =
             K k' (VFloat (fold_left (fun s j => f j s) (map (fun m => (a + Z.of_nat m)%Z) (seq 0 n)) acc)).
Proof.
  induction n as [|n IH]; intros a k acc Hb.
  - exists k. reflexivity.
  - rewrite zrange_nat_S. simpl acc_fix. rewrite Hb by lia. simpl bind.
    destruct (IH (a + 1)%Z (VInt a) (f a acc)) as [k' E].
    + intros j s Hj. apply Hb. lia.
    + exists k'. fold (acc_fix K body). rewrite E. f_equal. f_equal.
      simpl seq. simpl map. simpl fold_left. rewrite Z.add_0_r.
      rewrite <- seq_shift, map_map. f_equal.
      apply map_ext. intro m. lia.
Qed.

(* same with a step that goes down: the list produced by range(n-1, 0, -1) *)
Theorem acc_fix_spec_list K body (f : rval -> R -> R) :
  forall (l : list rval) k acc,
  (forall x s, In x l -> body x (VFloat s) = VFloat (f x s)) ->
  exists k', acc_fix K body l k (VFloat acc) = K k' (VFloat (fold_left (fun s x => f x s) l acc)).
Proof.
  induction l as [|x l IH]; intros k acc Hb.
  - exists k. reflexivity.
  - simpl acc_fix. rewrite Hb by (left; reflexivity). simpl bind.
    destruct (IH x (f x acc)) as [k' E].
    + intros y s Hy. apply Hb. right. assumption.
    + exists k'. fold (acc_fix K body). rewrite E. reflexivity.
Qed.

(* inner loop of nest_fix over the terms of one series *)
Lemma nest_inner (t : R) (body : rval -> rval -> rval -> rval) (Kin : rval -> rval -> rval) xi (s : list term) :
  (forall j x acc, nth_error s j = Some x ->
      body xi (VInt (Z.of_nat j)) (VFloat acc) = VFloat (acc + tval t x)) ->
  forall rest done k acc, s = done ++ rest ->
  exists k',
  (fix inner (l3 : list rval) (k2 s2 : rval) {struct l3} : rval :=
     match l3 with
     | [] => Kin k2 s2
     | y :: l3' => bind (body xi y s2) (fun s3 => inner l3' y s3)
     end) (zrange_nat (Z.of_nat (length done)) (length rest)) k (VFloat acc)
  = Kin k' (VFloat (ssum_from t acc rest)).
Proof.
  intros Hb. induction rest as [|x rest IH]; intros done k acc E.
  - exists k. reflexivity.
  - simpl length. rewrite zrange_nat_S.
    cbv beta iota. rewrite (Hb (length done) x acc) by (rewrite E; apply nth_error_mid).
    simpl bind.
    destruct (IH (done ++ [x]) (VInt (Z.of_nat (length done))) (acc + tval t x)) as [k' E'].
    + rewrite <- app_assoc. assumption.
    + exists k'. rewrite app_length in E'. simpl length in E'.
      replace (Z.of_nat (length done + 1)) with (Z.of_nat (length done) + 1)%Z in E' by lia.
      rewrite E'. reflexivity.
Qed.

Lemma bind_VFloat (a : R) (k : rval -> rval) : bind (VFloat a) k = k (VFloat a).
Proof. reflexivity. Qed.
Lemma bind_VList (l : list rval) (k : rval -> rval) : bind (VList l) k = k (VList l).
Proof. reflexivity. Qed.
Lemma bind_VNone (k : rval -> rval) : bind VNone k = k VNone.
Proof. reflexivity. Qed.
Lemma append_VFloat (l : list rval) (a : R) : py_append (VList l) (VFloat a) = VList (l ++ [VFloat a]).
Proof. reflexivity. Qed.

Lemma nest_fix_cons K init rng body x l' i k s sl :
  nest_fix K init rng body (x :: l') i k s sl =
  bind init (fun s0 =>
  bind (rng x) (fun l2 =>
    (fix inner (l3 : list rval) (k2 s2 : rval) {struct l3} : rval :=
       match l3 with
       | [] => bind (py_append sl s2) (fun sl' => bind VNone (fun _ => nest_fix K init rng body l' x k2 s2 sl'))
       | y :: l3' => bind (body x y s2) (fun s3 => inner l3' y s3)
       end) (seq_of l2) k s0)).
Proof. reflexivity. Qed.

(* the nested loop appends, for every series of the table, its sum accumulated from z0 *)
Theorem nest_fix_spec (t z0 : R) K rng body (T : list (list term)) :
  (forall i s, nth_error T i = Some s -> rng (VInt (Z.of_nat i)) = VList (zrange_nat 0 (length s))) ->
  (forall i s j x acc, nth_error T i = Some s -> nth_error s j = Some x ->
      body (VInt (Z.of_nat i)) (VInt (Z.of_nat j)) (VFloat acc) = VFloat (acc + tval t x)) ->
  forall rest done i k s sl, T = done ++ rest ->
  exists i' k' s',
  nest_fix K (VFloat z0) rng body (zrange_nat (Z.of_nat (length done)) (length rest)) i k s (VList sl)
  = K i' k' s' (VList (sl ++ map (fun s => VFloat (ssum_from t z0 s)) rest)).
Proof.
  intros Hr Hb. induction rest as [|s rest IH]; intros done i k st sl E.
  - exists i, k, st. simpl. rewrite app_nil_r. reflexivity.
  - simpl length. rewrite zrange_nat_S.
    assert (nth_error T (length done) = Some s) as Hs by (rewrite E; apply nth_error_mid).
    rewrite nest_fix_cons. rewrite bind_VFloat. rewrite (Hr _ _ Hs). rewrite bind_VList.
    change (seq_of (VList (zrange_nat 0 (length s)))) with (@zrange_nat R 0 (length s)).
    destruct (nest_inner t body
                (fun k2 s2 => bind (py_append (VList sl) s2) (fun sl' => bind VNone (fun _ =>
                   nest_fix K (VFloat z0) rng body (zrange_nat (Z.of_nat (length done) + 1) (length rest))
                     (VInt (Z.of_nat (length done))) k2 s2 sl')))
                (VInt (Z.of_nat (length done))) s (fun j x acc Hj => Hb _ _ _ _ acc Hs Hj)
                s [] k z0 eq_refl) as [k' E'].
    simpl length in E'. change (Z.of_nat 0) with 0%Z in E'.
    rewrite E'. rewrite append_VFloat, bind_VList, bind_VNone.
    destruct (IH (done ++ [s]) (VInt (Z.of_nat (length done))) k' (VFloat (ssum_from t z0 s))
                 (sl ++ [VFloat (ssum_from t z0 s)])) as [i' [k'' [s' E'']]].
    + rewrite <- app_assoc. assumption.
    + exists i', k'', s'. rewrite app_length in E''. simpl length in E''.
      replace (Z.of_nat (length done + 1)) with (Z.of_nat (length done) + 1)%Z in E'' by lia.
      rewrite E''. rewrite <- app_assoc. reflexivity.
Qed.

Lemma getitem_cons0 (x : rval) l : py_getitem Rops (VList (x :: l)) (VInt 0) = x.
Proof. reflexivity. Qed.

Lemma zrange_step_S a st n : zrange_step a st (S n) = VInt a :: @zrange_step R (a + st) st n.
Proof. reflexivity. Qed.

Lemma acc_fix_cons K body x l k s :
  acc_fix K body (x :: l) k s = bind (body x s) (fun s2 => acc_fix K body l x s2).
Proof. reflexivity. Qed.

(* the descending loop  for i in range(n-1, 0, -1): acc = (acc + S[i]) * t  *)
Theorem horner_loop K body (t s0 : R) : forall (rest : list R) k acc,
  (forall m v a, nth_error (s0 :: rest) m = Some v -> (1 <= m)%nat ->
       body (VInt (Z.of_nat m)) (VFloat a) = VFloat ((a + v) * t)) ->
  exists k', acc_fix K body (zrange_step (Z.of_nat (length rest)) (-1) (length rest)) k (VFloat acc)
             = K k' (VFloat (fold_left (fun a v => (a + v) * t) (rev rest) acc)).
Proof.
  induction rest as [|v rest IH] using rev_ind; intros k acc Hb.
  - exists k. reflexivity.
  - rewrite app_length. simpl length. rewrite Nat.add_1_r.
    rewrite zrange_step_S, acc_fix_cons.
    rewrite (Hb (S (length rest)) v acc).
    + rewrite bind_VFloat.
      replace (Z.of_nat (S (length rest)) + -1)%Z with (Z.of_nat (length rest)) by lia.
      destruct (IH (VInt (Z.of_nat (S (length rest)))) ((acc + v) * t)) as [k' E].
      * intros m v' a Hm H1. apply Hb; [|assumption].
        destruct m as [|m]; [lia|]. simpl in *.
        rewrite nth_error_app1; [assumption|]. apply nth_error_Some. congruence.
      * exists k'. rewrite E. rewrite rev_unit. reflexivity.
    + simpl. apply nth_error_mid.
    + lia.
Qed.

Lemma range3_down_norm (l : list rval) x :
  @zrange_step R (Z.of_nat (length (x :: l)) - 1) (-1)
     (Z.to_nat ((Z.of_nat (length (x :: l)) - 1 - 0 - -1 - 1) / - (-1)))
  = zrange_step (Z.of_nat (length l)) (-1) (length l).
Proof.
  simpl length. change (- (-1))%Z with 1%Z. rewrite Z.div_1_r.
  replace (Z.of_nat (S (length l)) - 1)%Z with (Z.of_nat (length l)) by lia.
  replace (Z.of_nat (length l) - 0 - -1 - 1)%Z with (Z.of_nat (length l)) by lia.
  rewrite Nat2Z.id. reflexivity.
Qed.
