(* C17: the sums stored by CurveFitting._compute_parameters, for data lists of any length
   (ideal instance; induction over the generated for-loop). *)
From Coq Require Import Reals ZArith List Bool Lra Lia.
From PyLib Require Import PyVal PyBuiltins Ideal PyEval.
From Gen Require Import M_base M_Angle M_CurveFitting.
From Proofs.C17 Require Import C17_tac.
Import ListNotations.
Open Scope R_scope.

(* a CurveFitting object: fields _x _y _P _Q _R _S _T _U _V _W _N *)
Definition cfobj (xl yl : list (val R)) (P Q Rr S T U V W : R) (N : Z) : val R :=
  VObj cCurveFitting [VList xl; VList yl; VFloat P; VFloat Q; VFloat Rr; VFloat S; VFloat T;
                      VFloat U; VFloat V; VFloat W; VInt N].

(* the power sums of the data *)
Definition sum1 (g : R -> R) (xs : list R) : R := fsum (map g xs).
Definition sum2 (g : R -> R -> R) (xs ys : list R) : R :=
  fsum (map (fun p => g (fst p) (snd p)) (combine xs ys)).

Definition Sx xs := fsum xs.
Definition Sx2 xs := sum1 (fun x => x * x) xs.
Definition Sx3 xs := sum1 (fun x => x * x * x) xs.
Definition Sx4 xs := sum1 (fun x => x * x * (x * x)) xs.
Definition Sxy xs ys := sum2 (fun x y => x * y) xs ys.
Definition Sx2y xs ys := sum2 (fun x y => x * y * x) xs ys.
Definition Sy2 (ys : list R) := sum1 (fun y => y * y) ys.

(* the object a data set is stored as *)
Definition cf_of (xs ys : list R) : val R :=
  cfobj (fl xs) (fl ys) (Sx xs) (Sx2 xs) (Sx3 xs) (Sx4 xs) (Sx ys) (Sxy xs ys) (Sx2y xs ys) (Sy2 ys)
        (Z.of_nat (length xs)).

Lemma cfobj_eq xl yl P Q Rr S T U V W N P' Q' R' S' T' U' V' W' :
  P = P' -> Q = Q' -> Rr = R' -> S = S' -> T = T' -> U = U' -> V = V' -> W = W' ->
  cfobj xl yl P Q Rr S T U V W N = cfobj xl yl P' Q' R' S' T' U' V' W' N.
Proof. intros; subst; reflexivity. Qed.

(* whatever values v2 .. v10 the nine sum fields and N hold before (they are only overwritten) *)
Lemma compute_parameters_any (xs ys : list R) (v2 v3 v4 v5 v6 v7 v8 v9 v10 : val R) :
  length xs = length ys ->
  CurveFitting__compute_parameters Rops
    (VObj cCurveFitting [VList (fl xs); VList (fl ys); v2; v3; v4; v5; v6; v7; v8; v9; v10])
  = VTuple [cf_of xs ys; VNone].
Proof.
  intro Hl. unfold CurveFitting__compute_parameters.
  pyrunL.
  match goal with |- context [py_range ?a ?b] =>
    let H := fresh in eassert (H : b = _) by (pyrunL; py_canon_refl2); rewrite H; clear H end.
  rewrite fl_length, (range_idxs Rops).
  pyrunL.
  match goal with |- ?f (idxs _ _) _ _ _ _ = _ => set (loop := f) end.
  assert (Hloop : forall m k i x2 xy P Q Rr S T U V W, (k + m = length xs)%nat ->
    loop (idxs k m) i (cfobj (fl xs) (fl ys) P Q Rr S T U V W (Z.of_nat (length xs))) x2 xy
    = VTuple [cfobj (fl xs) (fl ys) P
                (Q + sumr (fun j => nth j xs 0 * nth j xs 0) k m)
                (Rr + sumr (fun j => nth j xs 0 * nth j xs 0 * nth j xs 0) k m)
                (S + sumr (fun j => nth j xs 0 * nth j xs 0 * (nth j xs 0 * nth j xs 0)) k m)
                T
                (U + sumr (fun j => nth j xs 0 * nth j ys 0) k m)
                (V + sumr (fun j => nth j xs 0 * nth j ys 0 * nth j xs 0) k m)
                (W + sumr (fun j => nth j ys 0 * nth j ys 0) k m)
                (Z.of_nat (length xs)); VNone]).
  { clear - Hl. induction m as [| m IH]; intros k i x2 xy P Q Rr S T U V W Hk.
    - rewrite idxs_0. unfold cfobj. pyrunL. f_equal. f_equal. apply cfobj_eq; simpl; ring.
    - rewrite idxs_S. unfold cfobj. pyrunL. fold loop.
      change (VObj cCurveFitting
       [VList (fl xs); VList (fl ys); VFloat P;
        VFloat (Q + nth k xs 0 * nth k xs 0);
        VFloat (Rr + nth k xs 0 * nth k xs 0 * nth k xs 0);
        VFloat (S + nth k xs 0 * nth k xs 0 * (nth k xs 0 * nth k xs 0));
        VFloat T; VFloat (U + nth k xs 0 * nth k ys 0);
        VFloat (V + nth k xs 0 * nth k ys 0 * nth k xs 0);
        VFloat (W + nth k ys 0 * nth k ys 0); VInt (Z.of_nat (length xs))])
      with (cfobj (fl xs) (fl ys) P (Q + nth k xs 0 * nth k xs 0)
             (Rr + nth k xs 0 * nth k xs 0 * nth k xs 0)
             (S + nth k xs 0 * nth k xs 0 * (nth k xs 0 * nth k xs 0)) T
             (U + nth k xs 0 * nth k ys 0) (V + nth k xs 0 * nth k ys 0 * nth k xs 0)
             (W + nth k ys 0 * nth k ys 0) (Z.of_nat (length xs))).
      rewrite (IH (Datatypes.S k)) by lia.
      f_equal. f_equal. apply cfobj_eq; simpl; ring. }
  etransitivity; [ apply (Hloop (length xs) 0%nat); reflexivity | ].
  f_equal. f_equal. unfold cf_of.
  apply cfobj_eq; try reflexivity;
    unfold Sx2, Sx3, Sx4, Sxy, Sx2y, Sy2, sum1, sum2;
    rewrite <- ?sumr_nth, <- ?(sumr_nth2 _ _ _ Hl); Rlit_norm; try lra.
  - rewrite (sumr_nth2 (fun x y => x * y * x) xs ys Hl). lra.
  - rewrite Hl. lra.
Qed.

Lemma compute_parameters_sums (xs ys : list R) P Q Rr S T U V W N :
  length xs = length ys ->
  CurveFitting__compute_parameters Rops (cfobj (fl xs) (fl ys) P Q Rr S T U V W N)
  = VTuple [cf_of xs ys; VNone].
Proof. intro Hl. unfold cfobj. apply compute_parameters_any. exact Hl. Qed.

Lemma sum2_cons g a xs b ys : sum2 g (a :: xs) (b :: ys) = g a b + sum2 g xs ys.
Proof. reflexivity. Qed.

Lemma sum2_ext (g h : R -> R -> R) xs ys : (forall x y, g x y = h x y) -> sum2 g xs ys = sum2 h xs ys.
Proof.
  intro E. revert ys. induction xs as [| x xs IH]; intros [| y ys]; try reflexivity.
  rewrite !sum2_cons, E, IH. reflexivity.
Qed.

Lemma sum2_fst (g : R -> R) xs ys : length xs = length ys -> sum2 (fun x _ => g x) xs ys = sum1 g xs.
Proof.
  revert ys. induction xs as [| x xs IH]; intros [| y ys] Hl; try discriminate Hl; try reflexivity.
  rewrite sum2_cons, IH by (simpl in Hl; lia). reflexivity.
Qed.

Lemma sum2_snd (g : R -> R) xs ys : length xs = length ys -> sum2 (fun _ y => g y) xs ys = sum1 g ys.
Proof.
  revert ys. induction xs as [| x xs IH]; intros [| y ys] Hl; try discriminate Hl; try reflexivity.
  rewrite sum2_cons, IH by (simpl in Hl; lia). reflexivity.
Qed.

Lemma sum1_cons g a xs : sum1 g (a :: xs) = g a + sum1 g xs.
Proof. reflexivity. Qed.

Lemma sum1_id xs : sum1 (fun x => x) xs = Sx xs.
Proof. unfold sum1, Sx. rewrite map_id. reflexivity. Qed.

Lemma sum1_const c xs : sum1 (fun _ => c) xs = INR (length xs) * c.
Proof.
  induction xs as [| x xs IH]; [simpl; unfold sum1, fsum; simpl; ring |].
  rewrite sum1_cons, IH. cbn [length]. rewrite S_INR. ring.
Qed.

Lemma sum1_ext (g h : R -> R) xs : (forall x, g x = h x) -> sum1 g xs = sum1 h xs.
Proof. intro E. induction xs as [| x xs IH]; [reflexivity |]. rewrite !sum1_cons, E, IH. reflexivity. Qed.

Lemma sum2_sq_nonneg (h : R -> R -> R) xs ys : 0 <= sum2 (fun x y => h x y * h x y) xs ys.
Proof.
  revert ys. induction xs as [| x xs IH]; intros [| y ys]; try (unfold sum2, fsum; simpl; lra).
  rewrite sum2_cons. specialize (IH ys). nra.
Qed.
