(* C17: the constructor / set() for tables of ANY length (ideal instance): two lists, two tuples,
   interleaved scalars (an odd trailing one dropped), copy constructor, set() on an existing
   object - whatever the input form, the stored object is cf_of xs ys (the data and their sums).
   Induction over the generated loops of CurveFitting.set. *)
From Coq Require Import Reals ZArith List Bool Lra Lia.
From PyLib Require Import PyVal PyBuiltins Ideal PyEval.
From Gen Require Import M_base M_Angle M_CurveFitting.
From Proofs.C17 Require C17_whnf.
From Proofs.C17 Require Import C17_tac C17_sums.
Import ListNotations.
Open Scope R_scope.

Ltac Zify.zify_post_hook ::= Z.div_mod_to_equations.

(* pairs of floats as zip() yields them; never unfolded by the evaluator *)
Definition zp (xs ys : list R) : list (val R) := zip2 (fl xs) (fl ys).

Lemma zp_cons a xs b ys : zp (a :: xs) (b :: ys) = VTuple [VFloat a; VFloat b] :: zp xs ys.
Proof. reflexivity. Qed.
Lemma zp_nil : zp [] [] = [].
Proof. reflexivity. Qed.
Lemma fl_snoc xs a : fl xs ++ [VFloat a] = fl (xs ++ [a]).
Proof. unfold fl. rewrite map_app. reflexivity. Qed.
Lemma fl_nil : @nil (val R) = fl [].
Proof. reflexivity. Qed.

Lemma zip_lists (O : FloatOps R) xs ys : py_iter (py_zip (VList (fl xs)) (VList (fl ys))) = VList (zp xs ys).
Proof. unfold py_zip. cbn [py_iter]. rewrite !bind_ok by reflexivity. reflexivity. Qed.
Lemma zip_tuples (O : FloatOps R) xs ys : py_iter (py_zip (VTuple (fl xs)) (VTuple (fl ys))) = VList (zp xs ys).
Proof. unfold py_zip. cbn [py_iter]. rewrite !bind_ok by reflexivity. reflexivity. Qed.

(* slicing a whole sequence *)
Lemma slice_all_list (xs : list R) n : n = Z.of_nat (length xs) ->
  py_slice (VList (fl xs)) VNone (VInt n) = VList (fl xs).
Proof.
  intros ->. unfold py_slice. cbn [norm]. rewrite fl_length. unfold clampi.
  assert (H1 : (Z.of_nat (length xs) <? 0)%Z = false) by (apply Z.ltb_ge; lia). rewrite !H1.
  assert (H2 : (Z.of_nat (length xs) <? Z.of_nat (length xs))%Z = false) by (apply Z.ltb_ge; lia). rewrite H2.
  cbn [Z.to_nat skipn]. rewrite Z.sub_0_r, Nat2Z.id, <- fl_length, firstn_all. reflexivity.
Qed.
Lemma slice_all_tuple (xs : list R) n : n = Z.of_nat (length xs) ->
  py_slice (VTuple (fl xs)) VNone (VInt n) = VTuple (fl xs).
Proof.
  intros ->. unfold py_slice. cbn [norm]. rewrite fl_length. unfold clampi.
  assert (H1 : (Z.of_nat (length xs) <? 0)%Z = false) by (apply Z.ltb_ge; lia). rewrite !H1.
  assert (H2 : (Z.of_nat (length xs) <? Z.of_nat (length xs))%Z = false) by (apply Z.ltb_ge; lia). rewrite H2.
  cbn [Z.to_nat skipn]. rewrite Z.sub_0_r, Nat2Z.id, <- fl_length, firstn_all. reflexivity.
Qed.

Definition py_slice_body := Eval unfold py_slice in @py_slice.
Lemma py_slice_unfold {F} (v lo hi : val F) : py_slice v lo hi = py_slice_body F v lo hi.
Proof. reflexivity. Qed.

(* interleaved scalars x0, y0, x1, y1, ... of a list of points; never unfolded by the evaluator *)
Fixpoint il (l : list (R * R)) : list (val R) :=
  match l with [] => [] | (x, y) :: r => VFloat x :: VFloat y :: il r end.
Lemma il_cons x y l : il ((x, y) :: l) = VFloat x :: VFloat y :: il l.
Proof. reflexivity. Qed.
Lemma il_length l : length (il l) = (2 * length l)%nat.
Proof. induction l as [| [x y] l IH]; [reflexivity |]. cbn [il length]. rewrite IH. lia. Qed.

Lemma nth_il_even l k d : (k < length l)%nat -> nth (2 * k) (il l) d = VFloat (fst (nth k l (0, 0))).
Proof.
  revert k. induction l as [| [x y] l IH]; intros k Hk; [simpl in Hk; lia |].
  destruct k as [| k]; [reflexivity |].
  replace (2 * S k)%nat with (S (S (2 * k))) by lia. cbn [il nth]. apply IH. simpl in Hk. lia.
Qed.
Lemma nth_il_odd l k d : (k < length l)%nat -> nth (2 * k + 1) (il l) d = VFloat (snd (nth k l (0, 0))).
Proof.
  revert k. induction l as [| [x y] l IH]; intros k Hk; [simpl in Hk; lia |].
  destruct k as [| k]; [reflexivity |].
  replace (2 * S k + 1)%nat with (S (S (2 * k + 1))) by lia. cbn [il nth]. apply IH. simpl in Hk. lia.
Qed.

Lemma getitem_il_even (O : FloatOps R) l k : (k < length l)%nat ->
  py_getitem O (VTuple (il l)) (VInt (2 * Z.of_nat k)) = VFloat (fst (nth k l (0, 0))).
Proof.
  intro Hk. unfold py_getitem. cbn [norm]. unfold nth_val. cbv zeta. rewrite il_length.
  assert (H1 : (2 * Z.of_nat k <? 0)%Z = false) by (apply Z.ltb_ge; lia). rewrite !H1.
  assert (H2 : (Z.of_nat (2 * length l) <=? 2 * Z.of_nat k)%Z = false) by (apply Z.leb_gt; lia). rewrite H2.
  cbn [orb]. replace (Z.to_nat (2 * Z.of_nat k)) with (2 * k)%nat by lia. apply nth_il_even. exact Hk.
Qed.
Lemma getitem_il_odd (O : FloatOps R) l k : (k < length l)%nat ->
  py_getitem O (VTuple (il l)) (VInt (2 * Z.of_nat k + 1)) = VFloat (snd (nth k l (0, 0))).
Proof.
  intro Hk. unfold py_getitem. cbn [norm]. unfold nth_val. cbv zeta. rewrite il_length.
  assert (H1 : (2 * Z.of_nat k + 1 <? 0)%Z = false) by (apply Z.ltb_ge; lia). rewrite !H1.
  assert (H2 : (Z.of_nat (2 * length l) <=? 2 * Z.of_nat k + 1)%Z = false) by (apply Z.leb_gt; lia). rewrite H2.
  cbn [orb]. replace (Z.to_nat (2 * Z.of_nat k + 1)) with (2 * k + 1)%nat by lia. apply nth_il_odd. exact Hk.
Qed.

Lemma Rtrunc_val x z : 0 <= x -> IZR z <= x < IZR z + 1 -> Rtrunc x = z.
Proof.
  intros H0 Hz. unfold Rtrunc. destruct (Rlt_dec x 0); [lra |]. apply Rfloor_unique. exact Hz.
Qed.
Lemma half_len l : Rtrunc (IZR (Z.of_nat (length (il l))) / Rlit 20 (-1)) = Z.of_nat (length l).
Proof.
  rewrite il_length, Nat2Z.inj_mul, mult_IZR. change (Z.of_nat 2) with 2%Z.
  assert (E : 2 * IZR (Z.of_nat (length l)) / Rlit 20 (-1) = IZR (Z.of_nat (length l))) by (Rlit_norm; field).
  rewrite E. pose proof (IZR_le 0 _ (Nat2Z.is_nonneg (length l))). apply Rtrunc_val; lra.
Qed.

Lemma firstn_S_map {A B} (f : A -> B) (l : list A) k d : (k < length l)%nat ->
  map f (firstn k l) ++ [f (nth k l d)] = map f (firstn (S k) l).
Proof.
  revert k. induction l as [| a l IH]; intros k Hk; [simpl in Hk; lia |].
  destruct k as [| k]; [reflexivity |]. cbn [firstn map nth app]. f_equal. apply IH. simpl in Hk. lia.
Qed.

Lemma slice_drop_last (l : list (R * R)) (z : val R) :
  py_slice (VTuple (il l ++ [z])) VNone (VInt (-1)) = VTuple (il l).
Proof.
  unfold py_slice. cbn [norm]. rewrite app_length. cbn [length]. unfold clampi.
  set (n := Z.of_nat (length (il l) + 1)).
  assert (Hn : n = (Z.of_nat (length (il l)) + 1)%Z) by (unfold n; lia).
  assert (H1 : (-1 <? 0)%Z = true) by reflexivity. rewrite H1.
  assert (H2 : (-1 + n <? 0)%Z = false) by (apply Z.ltb_ge; lia). rewrite H2.
  assert (H3 : (n <? -1 + n)%Z = false) by (apply Z.ltb_ge; lia). rewrite H3.
  cbn [Z.to_nat skipn]. replace (Z.to_nat (-1 + n - 0)) with (length (il l)) by lia.
  rewrite firstn_app, Nat.sub_diag, firstn_all. cbn [firstn]. rewrite app_nil_r. reflexivity.
Qed.

Lemma slice_firstn_list (xs : list R) (m : nat) : (m <= length xs)%nat ->
  py_slice (VList (fl xs)) VNone (VInt (Z.of_nat m)) = VList (fl (firstn m xs)).
Proof.
  intro Hm. unfold py_slice. cbn [norm]. rewrite fl_length. unfold clampi.
  assert (H1 : (Z.of_nat m <? 0)%Z = false) by (apply Z.ltb_ge; lia). rewrite !H1.
  assert (H2 : (Z.of_nat (length xs) <? Z.of_nat m)%Z = false) by (apply Z.ltb_ge; lia). rewrite H2.
  cbn [Z.to_nat skipn]. rewrite Z.sub_0_r, Nat2Z.id. unfold fl. rewrite firstn_map. reflexivity.
Qed.
Lemma slice_firstn_tuple (xs : list R) (m : nat) : (m <= length xs)%nat ->
  py_slice (VTuple (fl xs)) VNone (VInt (Z.of_nat m)) = VTuple (fl (firstn m xs)).
Proof.
  intro Hm. unfold py_slice. cbn [norm]. rewrite fl_length. unfold clampi.
  assert (H1 : (Z.of_nat m <? 0)%Z = false) by (apply Z.ltb_ge; lia). rewrite !H1.
  assert (H2 : (Z.of_nat (length xs) <? Z.of_nat m)%Z = false) by (apply Z.ltb_ge; lia). rewrite H2.
  cbn [Z.to_nat skipn]. rewrite Z.sub_0_r, Nat2Z.id. unfold fl. rewrite firstn_map. reflexivity.
Qed.

From Ltac2 Require Ltac2.
Ltac2 Set C17_whnf.is_blocked := fun c =>
  Ltac2.List.exist (Ltac2.Constr.equal c)
    ['@bind; 'Rltb; 'Rleb; 'Reqb; 'Rfloor; 'Rtrunc; 'Rround; 'is_int; 'Rfmod; 'Rround_nd;
     'Rlit; 'atan2; 'Rpow; 'pow10; 'Rabs; 'sqrt; 'sin; 'cos; 'tan; 'asin; 'acos; 'atan;
     'exp; 'ln; 'Rpower; 'powerRZ; 'IZR; 'PI; '@py_getitem; '@math_fsum; 'fl; 'idxs; '@enum_from;
     'zp; 'il; '@app; '@py_slice; 'Z.eqb; 'Z.ltb; 'Z.leb; 'Z.gtb; 'Z.geb; '@CurveFitting__compute_parameters].

(* arithmetic side conditions about lengths *)
Ltac zsolve := rewrite ?fl_length, ?app_length, ?il_length, ?map_length, ?firstn_length, ?fl_length; cbn [length]; lia.

(* integer comparisons are decided by lia from the hypotheses about lengths; an innermost one
   (operands free of comparisons) first *)
Ltac has_cmp t :=
  match t with
  | context [Z.ltb _ _] => idtac | context [Z.leb _ _] => idtac | context [Z.eqb _ _] => idtac
  | context [Z.gtb _ _] => idtac | context [Z.geb _ _] => idtac
  end.
Ltac clean x y := tryif has_cmp x then fail else tryif has_cmp y then fail else idtac.
Ltac zcmp_hook s :=
  match s with
  | context [Z.gtb ?a ?b] => rewrite (Z.gtb_ltb a b)
  | context [Z.geb ?a ?b] => rewrite (Z.geb_leb a b)
  | context [Z.eqb ?a ?b] => clean a b;
      first [ rewrite (proj2 (Z.eqb_eq a b)) by zsolve | rewrite (proj2 (Z.eqb_neq a b)) by zsolve ]
  | context [Z.ltb ?a ?b] => clean a b;
      first [ rewrite (proj2 (Z.ltb_lt a b)) by zsolve | rewrite (proj2 (Z.ltb_ge a b)) by zsolve ]
  | context [Z.leb ?a ?b] => clean a b;
      first [ rewrite (proj2 (Z.leb_le a b)) by zsolve | rewrite (proj2 (Z.leb_gt a b)) by zsolve ]
  end.

Ltac ctor_hook run s :=
  first [ zcmp_hook s
        | fsum_hook run s
        | lazymatch s with
          | py_slice ?v ?lo ?hi =>
              tryif is_canon2 v then
                tryif is_canon2 hi then
                  first [ rewrite slice_all_list by zsolve | rewrite slice_all_tuple by zsolve | rewrite slice_drop_last
                        | rewrite slice_firstn_list by zsolve | rewrite slice_firstn_tuple by zsolve
                        | rewrite (py_slice_unfold v lo hi); unfold py_slice_body ]
                else (let H := fresh "Hev" in eassert (H : hi = _) by (run; py_canon_refl2); rewrite H; clear H)
              else (let H := fresh "Hev" in eassert (H : v = _) by (run; py_canon_refl2); rewrite H; clear H)
          | CurveFitting__compute_parameters ?O ?a =>
              tryif is_canon2 a then rewrite compute_parameters_any by zsolve
              else (let H := fresh "Hev" in eassert (H : a = _) by (run; py_canon_refl2); rewrite H; clear H)
          end ].

Ltac is_atom_list l ::=
  first [ is_var l
        | lazymatch l with
          | fl _ => idtac
          | idxs _ _ => idtac
          | enum_from _ (fl _) => idtac
          | zp _ _ => idtac
          | il _ => idtac
          | app ?a _ => is_atom_list a
          end ].

Ltac pyrunN := pyrun2 pylra_fast idx_floats ltac:(fun s => ctor_hook ltac:(pyrunN) s).

Definition obj11 (v0 v1 v2 v3 v4 v5 v6 v7 v8 v9 v10 : val R) : val R :=
  VObj cCurveFitting [v0; v1; v2; v3; v4; v5; v6; v7; v8; v9; v10].

(* two sequences of different lengths are both cut to the shorter one *)
Lemma set_two_lists_short_x (xs ys : list R) v0 v1 v2 v3 v4 v5 v6 v7 v8 v9 v10 :
  (length xs <= length ys)%nat -> (2 <= length xs)%nat ->
  CurveFitting_set Rops (obj11 v0 v1 v2 v3 v4 v5 v6 v7 v8 v9 v10) (VTuple [VList (fl xs); VList (fl ys)])
  = VTuple [cf_of xs (firstn (length xs) ys); VNone].
Proof.
  intros Hl H2. unfold obj11. pyrunN.
  rewrite (zip_lists Rops). pyrunN.
  match goal with |- ?f (zp _ _) _ _ _ = _ => set (loop := f) end.
  assert (Hloop : forall xs' ys' px py xv yv, length xs' = length ys' ->
    loop (zp xs' ys') (VObj cCurveFitting [VList (fl px); VList (fl py); v2; v3; v4; v5; v6; v7; v8; v9; v10]) xv yv
    = loop [] (VObj cCurveFitting [VList (fl (px ++ xs')); VList (fl (py ++ ys')); v2; v3; v4; v5; v6; v7; v8; v9; v10]) VNone VNone).
  { clear. induction xs' as [| a xs' IH]; intros [| b ys'] px py xv yv Hl; try discriminate Hl.
    - rewrite zp_nil, !app_nil_r. reflexivity.
    - rewrite zp_cons. pyrunN. fold loop. cbn [item nth]. rewrite !fl_snoc.
      rewrite IH by (simpl in Hl; lia). rewrite <- !app_assoc. reflexivity. }
  change (@VList R []) with (VList (fl [])).
  rewrite (Hloop (xs) (firstn (length (fl xs)) ys) [] []) by zsolve. cbn [app].
  subst loop. pyrunN. rewrite fl_length. reflexivity.
Qed.

Lemma set_two_lists_short_y (xs ys : list R) v0 v1 v2 v3 v4 v5 v6 v7 v8 v9 v10 :
  (length ys < length xs)%nat -> (2 <= length ys)%nat ->
  CurveFitting_set Rops (obj11 v0 v1 v2 v3 v4 v5 v6 v7 v8 v9 v10) (VTuple [VList (fl xs); VList (fl ys)])
  = VTuple [cf_of (firstn (length ys) xs) ys; VNone].
Proof.
  intros Hl H2. unfold obj11. pyrunN.
  rewrite (zip_lists Rops). pyrunN.
  match goal with |- ?f (zp _ _) _ _ _ = _ => set (loop := f) end.
  assert (Hloop : forall xs' ys' px py xv yv, length xs' = length ys' ->
    loop (zp xs' ys') (VObj cCurveFitting [VList (fl px); VList (fl py); v2; v3; v4; v5; v6; v7; v8; v9; v10]) xv yv
    = loop [] (VObj cCurveFitting [VList (fl (px ++ xs')); VList (fl (py ++ ys')); v2; v3; v4; v5; v6; v7; v8; v9; v10]) VNone VNone).
  { clear. induction xs' as [| a xs' IH]; intros [| b ys'] px py xv yv Hl; try discriminate Hl.
    - rewrite zp_nil, !app_nil_r. reflexivity.
    - rewrite zp_cons. pyrunN. fold loop. cbn [item nth]. rewrite !fl_snoc.
      rewrite IH by (simpl in Hl; lia). rewrite <- !app_assoc. reflexivity. }
  change (@VList R []) with (VList (fl [])).
  rewrite (Hloop (firstn (length (fl ys)) xs) (ys) [] []) by zsolve. cbn [app].
  subst loop. pyrunN. rewrite fl_length. reflexivity.
Qed.

Lemma set_two_tuples_short_x (xs ys : list R) v0 v1 v2 v3 v4 v5 v6 v7 v8 v9 v10 :
  (length xs <= length ys)%nat -> (2 <= length xs)%nat ->
  CurveFitting_set Rops (obj11 v0 v1 v2 v3 v4 v5 v6 v7 v8 v9 v10) (VTuple [VTuple (fl xs); VTuple (fl ys)])
  = VTuple [cf_of xs (firstn (length xs) ys); VNone].
Proof.
  intros Hl H2. unfold obj11. pyrunN.
  rewrite (zip_tuples Rops). pyrunN.
  match goal with |- ?f (zp _ _) _ _ _ = _ => set (loop := f) end.
  assert (Hloop : forall xs' ys' px py xv yv, length xs' = length ys' ->
    loop (zp xs' ys') (VObj cCurveFitting [VList (fl px); VList (fl py); v2; v3; v4; v5; v6; v7; v8; v9; v10]) xv yv
    = loop [] (VObj cCurveFitting [VList (fl (px ++ xs')); VList (fl (py ++ ys')); v2; v3; v4; v5; v6; v7; v8; v9; v10]) VNone VNone).
  { clear. induction xs' as [| a xs' IH]; intros [| b ys'] px py xv yv Hl; try discriminate Hl.
    - rewrite zp_nil, !app_nil_r. reflexivity.
    - rewrite zp_cons. pyrunN. fold loop. cbn [item nth]. rewrite !fl_snoc.
      rewrite IH by (simpl in Hl; lia). rewrite <- !app_assoc. reflexivity. }
  change (@VList R []) with (VList (fl [])).
  rewrite (Hloop (xs) (firstn (length (fl xs)) ys) [] []) by zsolve. cbn [app].
  subst loop. pyrunN. rewrite fl_length. reflexivity.
Qed.

Lemma set_two_tuples_short_y (xs ys : list R) v0 v1 v2 v3 v4 v5 v6 v7 v8 v9 v10 :
  (length ys < length xs)%nat -> (2 <= length ys)%nat ->
  CurveFitting_set Rops (obj11 v0 v1 v2 v3 v4 v5 v6 v7 v8 v9 v10) (VTuple [VTuple (fl xs); VTuple (fl ys)])
  = VTuple [cf_of (firstn (length ys) xs) ys; VNone].
Proof.
  intros Hl H2. unfold obj11. pyrunN.
  rewrite (zip_tuples Rops). pyrunN.
  match goal with |- ?f (zp _ _) _ _ _ = _ => set (loop := f) end.
  assert (Hloop : forall xs' ys' px py xv yv, length xs' = length ys' ->
    loop (zp xs' ys') (VObj cCurveFitting [VList (fl px); VList (fl py); v2; v3; v4; v5; v6; v7; v8; v9; v10]) xv yv
    = loop [] (VObj cCurveFitting [VList (fl (px ++ xs')); VList (fl (py ++ ys')); v2; v3; v4; v5; v6; v7; v8; v9; v10]) VNone VNone).
  { clear. induction xs' as [| a xs' IH]; intros [| b ys'] px py xv yv Hl; try discriminate Hl.
    - rewrite zp_nil, !app_nil_r. reflexivity.
    - rewrite zp_cons. pyrunN. fold loop. cbn [item nth]. rewrite !fl_snoc.
      rewrite IH by (simpl in Hl; lia). rewrite <- !app_assoc. reflexivity. }
  change (@VList R []) with (VList (fl [])).
  rewrite (Hloop (firstn (length (fl ys)) xs) (ys) [] []) by zsolve. cbn [app].
  subst loop. pyrunN. rewrite fl_length. reflexivity.
Qed.

Lemma set_two_lists (xs ys : list R) v0 v1 v2 v3 v4 v5 v6 v7 v8 v9 v10 :
  length xs = length ys -> (2 <= length xs)%nat ->
  CurveFitting_set Rops (obj11 v0 v1 v2 v3 v4 v5 v6 v7 v8 v9 v10) (VTuple [VList (fl xs); VList (fl ys)])
  = VTuple [cf_of xs ys; VNone].
Proof.
  intros Hl H2. rewrite set_two_lists_short_x by lia. rewrite Hl, firstn_all. reflexivity.
Qed.

Lemma set_two_tuples (xs ys : list R) v0 v1 v2 v3 v4 v5 v6 v7 v8 v9 v10 :
  length xs = length ys -> (2 <= length xs)%nat ->
  CurveFitting_set Rops (obj11 v0 v1 v2 v3 v4 v5 v6 v7 v8 v9 v10) (VTuple [VTuple (fl xs); VTuple (fl ys)])
  = VTuple [cf_of xs ys; VNone].
Proof.
  intros Hl H2. rewrite set_two_tuples_short_x by lia. rewrite Hl, firstn_all. reflexivity.
Qed.

(* fewer than two points in either sequence: refused *)
Lemma set_two_lists_too_short (xs ys : list R) v0 v1 v2 v3 v4 v5 v6 v7 v8 v9 v10 :
  (length xs < 2 \/ length ys < 2)%nat ->
  CurveFitting_set Rops (obj11 v0 v1 v2 v3 v4 v5 v6 v7 v8 v9 v10) (VTuple [VList (fl xs); VList (fl ys)])
  = VErr ValueError.
Proof.
  intros H. unfold obj11.
  destruct (le_lt_dec (length xs) (length ys)) as [Hc | Hc].
  - pyrunN. reflexivity.
  - pyrunN. reflexivity.
Qed.

(* copy: set(other) takes over the two lists of any CurveFitting object and recomputes the sums *)
Lemma set_copy (xs ys : list R) v0 v1 v2 v3 v4 v5 v6 v7 v8 v9 v10 w2 w3 w4 w5 w6 w7 w8 w9 w10 :
  length xs = length ys -> (1 <= length xs)%nat ->
  CurveFitting_set Rops (obj11 v0 v1 v2 v3 v4 v5 v6 v7 v8 v9 v10)
    (VTuple [obj11 (VList (fl xs)) (VList (fl ys)) w2 w3 w4 w5 w6 w7 w8 w9 w10])
  = VTuple [cf_of xs ys; VNone].
Proof.
  intros Hl H1. unfold obj11. pyrunN. reflexivity.
Qed.

Lemma set_interleaved (l : list (R * R)) v0 v1 v2 v3 v4 v5 v6 v7 v8 v9 v10 :
  (2 <= length l)%nat ->
  CurveFitting_set Rops (obj11 v0 v1 v2 v3 v4 v5 v6 v7 v8 v9 v10) (VTuple (il l))
  = VTuple [cf_of (map fst l) (map snd l); VNone].
Proof.
  intros H2. unfold obj11.
  pyrunN.
  match goal with |- ?f (il _) _ _ = _ => set (loop1 := f) end.
  assert (H1 : forall l' arg, loop1 (il l') (VBool true) arg = loop1 [] (VBool true) VNone).
  { clear. induction l' as [| [x y] l' IH]; intro arg; [reflexivity |].
    rewrite il_cons. pyrunN. fold loop1. apply IH. }
  rewrite H1. subst loop1. clear H1.
  pyrunN.
  match goal with |- context [py_range (VInt 0) ?b] =>
    let H := fresh in eassert (H : b = _) by (pyrunN; py_canon_refl2); rewrite H; clear H end.
  rewrite half_len, (range_idxs Rops).
  pyrunN.
  match goal with |- ?f (idxs _ _) _ _ = _ => set (loop2 := f) end.
  assert (HL : forall m k i, (k + m = length l)%nat ->
    loop2 (idxs k m) i (VObj cCurveFitting [VList (fl (map fst (firstn k l))); VList (fl (map snd (firstn k l)));
                                            v2; v3; v4; v5; v6; v7; v8; v9; v10])
    = loop2 [] VNone (VObj cCurveFitting [VList (fl (map fst l)); VList (fl (map snd l)); v2; v3; v4; v5; v6; v7; v8; v9; v10])).
  { clear. induction m as [| m IH]; intros k i Hk.
    - rewrite idxs_0. replace k with (length l) by lia. rewrite firstn_all. reflexivity.
    - rewrite idxs_S.
      pyrun2 pylra_fast ltac:(first [ rewrite getitem_il_even by lia | rewrite getitem_il_odd by lia ])
             ltac:(fun s => ctor_hook ltac:(pyrunN) s).
      fold loop2. rewrite !fl_snoc.
      rewrite (firstn_S_map fst l k (0, 0)), (firstn_S_map snd l k (0, 0)) by lia.
      apply IH. lia. }
  change (@VList R []) with (VList (fl (map fst (firstn 0 l)))) at 1.
  change (@VList R []) with (VList (fl (map snd (firstn 0 l)))) at 1.
  rewrite (HL (length l) 0%nat) by reflexivity.
  subst loop2. pyrunN. reflexivity.
Qed.

(* an odd trailing scalar is dropped *)
Lemma set_interleaved_odd (l : list (R * R)) (z : R) v0 v1 v2 v3 v4 v5 v6 v7 v8 v9 v10 :
  (2 <= length l)%nat ->
  CurveFitting_set Rops (obj11 v0 v1 v2 v3 v4 v5 v6 v7 v8 v9 v10) (VTuple (il l ++ [VFloat z]))
  = VTuple [cf_of (map fst l) (map snd l); VNone].
Proof.
  intros H2. unfold obj11.
  pyrunN.
  match goal with |- ?f (il _) _ _ = _ => set (loop1 := f) end.
  assert (H1 : forall l' arg, loop1 (il l') (VBool true) arg = loop1 [] (VBool true) VNone).
  { clear. induction l' as [| [x y] l' IH]; intro arg; [reflexivity |].
    rewrite il_cons. pyrunN. fold loop1. apply IH. }
  rewrite H1. subst loop1. clear H1.
  pyrunN.
  match goal with |- context [py_range (VInt 0) ?b] =>
    let H := fresh in eassert (H : b = _) by (pyrunN; py_canon_refl2); rewrite H; clear H end.
  rewrite half_len, (range_idxs Rops).
  pyrunN.
  match goal with |- ?f (idxs _ _) _ _ = _ => set (loop2 := f) end.
  assert (HL : forall m k i, (k + m = length l)%nat ->
    loop2 (idxs k m) i (VObj cCurveFitting [VList (fl (map fst (firstn k l))); VList (fl (map snd (firstn k l)));
                                            v2; v3; v4; v5; v6; v7; v8; v9; v10])
    = loop2 [] VNone (VObj cCurveFitting [VList (fl (map fst l)); VList (fl (map snd l)); v2; v3; v4; v5; v6; v7; v8; v9; v10])).
  { clear. induction m as [| m IH]; intros k i Hk.
    - rewrite idxs_0. replace k with (length l) by lia. rewrite firstn_all. reflexivity.
    - rewrite idxs_S.
      pyrun2 pylra_fast ltac:(first [ rewrite getitem_il_even by lia | rewrite getitem_il_odd by lia ])
             ltac:(fun s => ctor_hook ltac:(pyrunN) s).
      fold loop2. rewrite !fl_snoc.
      rewrite (firstn_S_map fst l k (0, 0)), (firstn_S_map snd l k (0, 0)) by lia.
      apply IH. lia. }
  change (@VList R []) with (VList (fl (map fst (firstn 0 l)))) at 1.
  change (@VList R []) with (VList (fl (map snd (firstn 0 l)))) at 1.
  rewrite (HL (length l) 0%nat) by reflexivity.
  subst loop2. pyrunN. reflexivity.
Qed.

(* ---------------------------------------------------------------- the constructor *)
(* __init__ empties the two lists and hands its arguments to set(); the object under construction
   may hold anything (in the model: eleven None fields) *)
Ltac init_via E :=
  unfold obj11 in *; pyrunN; first [ reflexivity | cbn [py_tuple]; rewrite E; pyrunN; reflexivity ].

Theorem init_two_lists (xs ys : list R) v0 v1 v2 v3 v4 v5 v6 v7 v8 v9 v10 :
  length xs = length ys -> (2 <= length xs)%nat ->
  CurveFitting___init__ Rops (obj11 v0 v1 v2 v3 v4 v5 v6 v7 v8 v9 v10) (VTuple [VList (fl xs); VList (fl ys)])
  = cf_of xs ys.
Proof.
  intros Hl H2.
  pose proof (set_two_lists xs ys (VList []) (VList []) v2 v3 v4 v5 v6 v7 v8 v9 v10 Hl H2) as E.
  init_via E.
Qed.

Theorem init_two_tuples (xs ys : list R) v0 v1 v2 v3 v4 v5 v6 v7 v8 v9 v10 :
  length xs = length ys -> (2 <= length xs)%nat ->
  CurveFitting___init__ Rops (obj11 v0 v1 v2 v3 v4 v5 v6 v7 v8 v9 v10) (VTuple [VTuple (fl xs); VTuple (fl ys)])
  = cf_of xs ys.
Proof.
  intros Hl H2.
  pose proof (set_two_tuples xs ys (VList []) (VList []) v2 v3 v4 v5 v6 v7 v8 v9 v10 Hl H2) as E.
  init_via E.
Qed.

Theorem init_interleaved (l : list (R * R)) v0 v1 v2 v3 v4 v5 v6 v7 v8 v9 v10 :
  (2 <= length l)%nat ->
  CurveFitting___init__ Rops (obj11 v0 v1 v2 v3 v4 v5 v6 v7 v8 v9 v10) (VTuple (il l))
  = cf_of (map fst l) (map snd l).
Proof.
  intros H2.
  pose proof (set_interleaved l (VList []) (VList []) v2 v3 v4 v5 v6 v7 v8 v9 v10 H2) as E.
  init_via E.
Qed.

Theorem init_interleaved_odd (l : list (R * R)) z v0 v1 v2 v3 v4 v5 v6 v7 v8 v9 v10 :
  (2 <= length l)%nat ->
  CurveFitting___init__ Rops (obj11 v0 v1 v2 v3 v4 v5 v6 v7 v8 v9 v10) (VTuple (il l ++ [VFloat z]))
  = cf_of (map fst l) (map snd l).
Proof.
  intros H2.
  pose proof (set_interleaved_odd l z (VList []) (VList []) v2 v3 v4 v5 v6 v7 v8 v9 v10 H2) as E.
  init_via E.
Qed.

Theorem init_copy (xs ys : list R) v0 v1 v2 v3 v4 v5 v6 v7 v8 v9 v10 w2 w3 w4 w5 w6 w7 w8 w9 w10 :
  length xs = length ys -> (1 <= length xs)%nat ->
  CurveFitting___init__ Rops (obj11 v0 v1 v2 v3 v4 v5 v6 v7 v8 v9 v10)
    (VTuple [obj11 (VList (fl xs)) (VList (fl ys)) w2 w3 w4 w5 w6 w7 w8 w9 w10])
  = cf_of xs ys.
Proof.
  intros Hl H1.
  pose proof (set_copy xs ys (VList []) (VList []) v2 v3 v4 v5 v6 v7 v8 v9 v10 w2 w3 w4 w5 w6 w7 w8 w9 w10 Hl H1) as E.
  init_via E.
Qed.

Theorem input_forms_any_length :
  forall (v0 v1 v2 v3 v4 v5 v6 v7 v8 v9 v10 : val R) (xs ys : list R) (l : list (R * R)) (z : R) (xs0 ys0 : list R),
  length xs = length ys -> (2 <= length xs)%nat -> (2 <= length l)%nat ->
  let o := obj11 v0 v1 v2 v3 v4 v5 v6 v7 v8 v9 v10 in
  CurveFitting___init__ Rops o (VTuple [VList (fl xs); VList (fl ys)]) = cf_of xs ys
  /\ CurveFitting___init__ Rops o (VTuple [VTuple (fl xs); VTuple (fl ys)]) = cf_of xs ys
  /\ CurveFitting___init__ Rops o (VTuple (il l)) = cf_of (map fst l) (map snd l)
  /\ CurveFitting___init__ Rops o (VTuple (il l ++ [VFloat z])) = cf_of (map fst l) (map snd l)
  /\ CurveFitting___init__ Rops o (VTuple [cf_of xs ys]) = cf_of xs ys
  /\ CurveFitting_set Rops (cf_of xs0 ys0) (VTuple [VList (fl xs); VList (fl ys)]) = VTuple [cf_of xs ys; VNone]
  /\ CurveFitting_set Rops (cf_of xs0 ys0) (VTuple (il l)) = VTuple [cf_of (map fst l) (map snd l); VNone]
  /\ CurveFitting_set Rops (cf_of xs0 ys0) (VTuple [cf_of xs ys]) = VTuple [cf_of xs ys; VNone].
Proof.
  intros v0 v1 v2 v3 v4 v5 v6 v7 v8 v9 v10 xs ys l z xs0 ys0 Hl H2 H2l o. unfold o.
  assert (H1 : (1 <= length xs)%nat) by lia.
  split; [apply init_two_lists; assumption |].
  split; [apply init_two_tuples; assumption |].
  split; [apply init_interleaved; assumption |].
  split; [apply init_interleaved_odd; assumption |].
  split; [exact (init_copy xs ys _ _ _ _ _ _ _ _ _ _ _ _ _ _ _ _ _ _ _ _ Hl H1) |].
  split; [exact (set_two_lists xs ys _ _ _ _ _ _ _ _ _ _ _ Hl H2) |].
  split; [exact (set_interleaved l _ _ _ _ _ _ _ _ _ _ _ H2l) |].
  exact (set_copy xs ys _ _ _ _ _ _ _ _ _ _ _ _ _ _ _ _ _ _ _ _ Hl H1).
Qed.

(* sequences of different lengths: both are cut to the shorter one (m = min); too short: refused *)
Lemma set_two_lists_min (xs ys : list R) v0 v1 v2 v3 v4 v5 v6 v7 v8 v9 v10 :
  (2 <= length xs)%nat -> (2 <= length ys)%nat ->
  let m := Nat.min (length xs) (length ys) in
  CurveFitting_set Rops (obj11 v0 v1 v2 v3 v4 v5 v6 v7 v8 v9 v10) (VTuple [VList (fl xs); VList (fl ys)])
  = VTuple [cf_of (firstn m xs) (firstn m ys); VNone].
Proof.
  intros Hx Hy m. unfold m. destruct (le_lt_dec (length xs) (length ys)) as [Hc | Hc].
  - rewrite Nat.min_l by exact Hc. rewrite firstn_all. apply set_two_lists_short_x; assumption.
  - rewrite Nat.min_r by lia. rewrite (firstn_all ys). apply set_two_lists_short_y; assumption.
Qed.
Lemma set_two_tuples_min (xs ys : list R) v0 v1 v2 v3 v4 v5 v6 v7 v8 v9 v10 :
  (2 <= length xs)%nat -> (2 <= length ys)%nat ->
  let m := Nat.min (length xs) (length ys) in
  CurveFitting_set Rops (obj11 v0 v1 v2 v3 v4 v5 v6 v7 v8 v9 v10) (VTuple [VTuple (fl xs); VTuple (fl ys)])
  = VTuple [cf_of (firstn m xs) (firstn m ys); VNone].
Proof.
  intros Hx Hy m. unfold m. destruct (le_lt_dec (length xs) (length ys)) as [Hc | Hc].
  - rewrite Nat.min_l by exact Hc. rewrite firstn_all. apply set_two_tuples_short_x; assumption.
  - rewrite Nat.min_r by lia. rewrite (firstn_all ys). apply set_two_tuples_short_y; assumption.
Qed.

Theorem input_forms_truncation :
  forall (v0 v1 v2 v3 v4 v5 v6 v7 v8 v9 v10 : val R) (xs ys : list R),
  let o := obj11 v0 v1 v2 v3 v4 v5 v6 v7 v8 v9 v10 in
  let m := Nat.min (length xs) (length ys) in
  ((2 <= length xs)%nat -> (2 <= length ys)%nat ->
     CurveFitting___init__ Rops o (VTuple [VList (fl xs); VList (fl ys)]) = cf_of (firstn m xs) (firstn m ys)
     /\ CurveFitting___init__ Rops o (VTuple [VTuple (fl xs); VTuple (fl ys)]) = cf_of (firstn m xs) (firstn m ys))
  /\ ((length xs < 2 \/ length ys < 2)%nat ->
     CurveFitting___init__ Rops o (VTuple [VList (fl xs); VList (fl ys)]) = VErr ValueError).
Proof.
  intros v0 v1 v2 v3 v4 v5 v6 v7 v8 v9 v10 xs ys o m. unfold o. split.
  - intros Hx Hy. split.
    + pose proof (set_two_lists_min xs ys (VList []) (VList []) v2 v3 v4 v5 v6 v7 v8 v9 v10 Hx Hy) as E.
      cbv zeta in E. fold m in E. init_via E.
    + pose proof (set_two_tuples_min xs ys (VList []) (VList []) v2 v3 v4 v5 v6 v7 v8 v9 v10 Hx Hy) as E.
      cbv zeta in E. fold m in E. init_via E.
  - intro H.
    pose proof (set_two_lists_too_short xs ys (VList []) (VList []) v2 v3 v4 v5 v6 v7 v8 v9 v10 H) as E.
    unfold obj11 in *. pyrunN. cbn [py_tuple]. rewrite E. pyrunN. reflexivity.
Qed.
