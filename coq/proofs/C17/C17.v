(* Property C17 — curve fitting returns the least-squares solution.
   Statements only; proofs in C17_sums / C17_fits / C17_general / C17_corr / C17_main.
   Everything is about the model of pymeeus/CurveFitting.py regenerated from /repo on every
   run, read in exact real arithmetic (instance Rops / RopsC call), for data lists of ANY length.
   Vocabulary (C17_sums.v): fl xs = the Python list of the floats xs;
   cfobj xl yl P Q R S T U V W N = a CurveFitting object with those lists and stored sums;
   cf_of xs ys = the object holding the data with its power sums Sx, Sx2, Sx3, Sx4, Sy = Sx ys,
   Sxy, Sx2y, Sy2 and N; sum2 g xs ys = sum over the points of g x y;  TOL = 1e-10 (base.TOL). *)
From Coq Require Import Reals ZArith List.
From PyLib Require Import PyVal PyBuiltins Ideal.
From Gen Require Import M_base M_Angle M_CurveFitting.
From Coq Require Import Permutation.
From Proofs.C17 Require Import C17_tac C17_sums C17_fits C17_general C17_corr C17_main C17_more C17_lsq C17_ctorN.
Import ListNotations.
Open Scope R_scope.

(* _compute_parameters stores exactly the power sums of the data, whatever was stored before *)
Theorem C17_sums : forall (xs ys : list R) P Q Rr S T U V W N, length xs = length ys ->
  CurveFitting__compute_parameters Rops (cfobj (fl xs) (fl ys) P Q Rr S T U V W N)
  = VTuple [cf_of xs ys; VNone].
Proof. exact compute_parameters_sums. Qed.

(* linear fit: when the guard |N*Sx2 - Sx^2| >= TOL lets a result through it solves the 2x2
   normal equations and leaves residuals orthogonal to x and 1; otherwise ZeroDivisionError *)
Theorem C17_linear_normal_equations : forall xs ys, length xs = length ys ->
  (TOL <= Rabs (lin_det (nR xs) (Sx xs) (Sx2 xs)) ->
   exists a b,
     CurveFitting_linear_fitting Rops (cf_of xs ys) = VTuple [VFloat a; VFloat b]
     /\ a * Sx2 xs + b * Sx xs = Sxy xs ys /\ a * Sx xs + b * nR xs = Sx ys
     /\ sum2 (fun x y => (y - (a * x + b)) * x) xs ys = 0
     /\ sum2 (fun x y => y - (a * x + b)) xs ys = 0)
  /\ (Rabs (lin_det (nR xs) (Sx xs) (Sx2 xs)) < TOL ->
      CurveFitting_linear_fitting Rops (cf_of xs ys) = VErr ZeroDivisionError).
Proof.
  intros xs ys Hl. split.
  - exact (linear_least_squares xs ys Hl).
  - exact (linear_refused_small_det xs ys).
Qed.

Theorem C17_quadratic_normal_equations : forall xs ys, length xs = length ys ->
  (TOL <= Rabs (quad_det (nR xs) (Sx xs) (Sx2 xs) (Sx3 xs) (Sx4 xs)) ->
   exists a b c,
     CurveFitting_quadratic_fitting Rops (cf_of xs ys) = VTuple [VFloat a; VFloat b; VFloat c]
     /\ a * Sx4 xs + b * Sx3 xs + c * Sx2 xs = Sx2y xs ys
     /\ a * Sx3 xs + b * Sx2 xs + c * Sx xs = Sxy xs ys
     /\ a * Sx2 xs + b * Sx xs + c * nR xs = Sx ys
     /\ sum2 (fun x y => (y - (a * (x * x) + b * x + c)) * (x * x)) xs ys = 0
     /\ sum2 (fun x y => (y - (a * (x * x) + b * x + c)) * x) xs ys = 0
     /\ sum2 (fun x y => (y - (a * (x * x) + b * x + c)) * 1) xs ys = 0)
  /\ (Rabs (quad_det (nR xs) (Sx xs) (Sx2 xs) (Sx3 xs) (Sx4 xs)) < TOL ->
      CurveFitting_quadratic_fitting Rops (cf_of xs ys) = VErr ZeroDivisionError).
Proof.
  intros xs ys Hl. split.
  - exact (quadratic_least_squares xs ys Hl).
  - exact (quadratic_refused_small_det xs ys).
Qed.

(* general fit with ARBITRARY basis functions g0 g1 g2 (function values called through [call]),
   non-empty data of any length, any stored sums: in the three-function branch the residuals
   are orthogonal to every basis function; in the two-function branch (third function null:
   sum of g2^2 below TOL) the 2x2 normal equations hold; all three refusal branches.
   The hypotheses about [call] are satisfiable: see C17_menu_instances (concrete interpreter) *)
Theorem C17_general_normal_equations :
  forall (call : val R -> list (val R) -> val R) i0 i1 i2 e0 e1 e2 (g0 g1 g2 : R -> R),
  (forall x, call (VFun i0 e0) [VFloat x] = VFloat (g0 x)) ->
  (forall x, call (VFun i1 e1) [VFloat x] = VFloat (g1 x)) ->
  (forall x, call (VFun i2 e2) [VFloat x] = VFloat (g2 x)) ->
  forall x xs y ys, length xs = length ys -> forall P Q Rr S T U V W N,
  let X := x :: xs in let Y := y :: ys in
  let m := G00 g0 X Y in let p := G01 g0 g1 X Y in let q := G02 g0 g2 X Y in
  let r := G11 g1 X Y in let s := G12 g1 g2 X Y in let t := G22 g2 X Y in
  let u := GY0 g0 X Y in let v := GY1 g1 X Y in
  let res := CurveFitting_general_fitting (RopsC call) (cfobj (fl X) (fl Y) P Q Rr S T U V W N)
               (VFun i0 e0) (VFun i1 e1) (VFun i2 e2) in
  (TOL <= Rabs t -> TOL <= Rabs (m * r * t) -> TOL <= Rabs (gen_det m p q r s t) ->
   exists a b c,
     res = VTuple [VFloat a; VFloat b; VFloat c]
     /\ sum2 (fun x y => (y - (a * g0 x + b * g1 x + c * g2 x)) * g0 x) X Y = 0
     /\ sum2 (fun x y => (y - (a * g0 x + b * g1 x + c * g2 x)) * g1 x) X Y = 0
     /\ sum2 (fun x y => (y - (a * g0 x + b * g1 x + c * g2 x)) * g2 x) X Y = 0)
  /\ (Rabs t < TOL -> TOL <= Rabs m -> TOL <= Rabs r -> TOL <= Rabs (gen_det2 m p r) ->
      exists a b, res = VTuple [VFloat a; VFloat b; VFloat zero_lit]
                  /\ a * m + b * p = u /\ a * p + b * r = v)
  /\ (TOL <= Rabs t -> TOL <= Rabs (m * r * t) -> Rabs (gen_det m p q r s t) < TOL ->
      res = VErr ZeroDivisionError)
  /\ (TOL <= Rabs t -> Rabs (m * r * t) < TOL -> res = VErr ZeroDivisionError)
  /\ (Rabs t < TOL -> TOL <= Rabs m -> TOL <= Rabs r -> Rabs (gen_det2 m p r) < TOL ->
      res = VErr ZeroDivisionError).
Proof.
  intros call i0 i1 i2 e0 e1 e2 g0 g1 g2 H0 H1 H2 x xs y ys Hl P Q Rr S T U V W N. cbv zeta.
  split; [| split; [| split; [| split]]].
  - exact (general_least_squares3 call i0 i1 i2 e0 e1 e2 g0 g1 g2 H0 H1 H2 x xs y ys Hl P Q Rr S T U V W N).
  - exact (general_least_squares2 call i0 i1 i2 e0 e1 e2 g0 g1 g2 H0 H1 H2 x xs y ys Hl P Q Rr S T U V W N).
  - exact (proj2 (proj2 (general_refused call i0 i1 i2 e0 e1 e2 g0 g1 g2 H0 H1 H2 x xs y ys Hl P Q Rr S T U V W N))).
  - exact (proj1 (proj2 (general_refused call i0 i1 i2 e0 e1 e2 g0 g1 g2 H0 H1 H2 x xs y ys Hl P Q Rr S T U V W N))).
  - exact (proj1 (general_refused call i0 i1 i2 e0 e1 e2 g0 g1 g2 H0 H1 H2 x xs y ys Hl P Q Rr S T U V W N)).
Qed.

(* general fit with the basis (x^2, x, 1) returns the quadratic fit *)
Theorem C17_general_eq_quadratic : forall call i0 i1 i2 e0 e1 e2,
  (forall x, call (VFun i0 e0) [VFloat x] = VFloat (x * x)) ->
  (forall x, call (VFun i1 e1) [VFloat x] = VFloat x) ->
  (forall x, call (VFun i2 e2) [VFloat x] = VFloat 1) ->
  forall x xs y ys, length xs = length ys ->
  let X := x :: xs in let Y := y :: ys in
  TOL <= Rabs (quad_det (nR X) (Sx X) (Sx2 X) (Sx3 X) (Sx4 X)) ->
  TOL <= Rabs (Sx4 X * Sx2 X * nR X) ->
  exists a b c,
    CurveFitting_quadratic_fitting Rops (cf_of X Y) = VTuple [VFloat a; VFloat b; VFloat c]
    /\ CurveFitting_general_fitting (RopsC call) (cf_of X Y) (VFun i0 e0) (VFun i1 e1) (VFun i2 e2)
       = VTuple [VFloat a; VFloat b; VFloat c].
Proof. exact general_eq_quadratic. Qed.

(* general fit with the basis (x, 1, null) returns the linear fit (and 0.0 for the null function) *)
Theorem C17_general_eq_linear : forall call i0 i1 i2 e0 e1 e2,
  (forall x, call (VFun i0 e0) [VFloat x] = VFloat x) ->
  (forall x, call (VFun i1 e1) [VFloat x] = VFloat 1) ->
  (forall x, call (VFun i2 e2) [VFloat x] = VFloat 0) ->
  forall x xs y ys, length xs = length ys ->
  let X := x :: xs in let Y := y :: ys in
  TOL <= Rabs (lin_det (nR X) (Sx X) (Sx2 X)) ->
  TOL <= Sx2 X ->
  exists a b,
    CurveFitting_linear_fitting Rops (cf_of X Y) = VTuple [VFloat a; VFloat b]
    /\ CurveFitting_general_fitting (RopsC call) (cf_of X Y) (VFun i0 e0) (VFun i1 e1) (VFun i2 e2)
       = VTuple [VFloat a; VFloat b; VFloat zero_lit].
Proof. exact general_eq_linear. Qed.

(* exactly degenerate data (all abscissae equal) are refused with ZeroDivisionError *)
Theorem C17_degenerate_refused : forall (c : R) (n : nat) (ys : list R),
  CurveFitting_linear_fitting Rops (cf_of (repeat c n) ys) = VErr ZeroDivisionError
  /\ CurveFitting_quadratic_fitting Rops (cf_of (repeat c n) ys) = VErr ZeroDivisionError
  /\ (length ys = n -> n <> 0%nat ->
      CurveFitting_correlation_coeff Rops (cf_of (repeat c n) ys) = VErr ZeroDivisionError).
Proof.
  intros c n ys. split; [exact (linear_degenerate c n ys) |].
  split; [exact (quadratic_degenerate c n ys) | exact (correlation_degenerate c n ys)].
Qed.

(* correlation coefficient of a data set: the returned value is the textbook quotient itself (the
   final limitation to [-1, 1] never acts: |r| <= 1 by Cauchy-Schwarz), and r changes sign when y is negated *)
Theorem C17_correlation : forall xs ys, length xs = length ys -> 0 < var_x xs -> 0 < var_y xs ys ->
  exists r,
    CurveFitting_correlation_coeff Rops (cf_of xs ys) = VFloat r
    /\ r = cov_xy xs ys / (sqrt (var_x xs) * sqrt (var_y xs ys))
    /\ Rabs r <= 1
    /\ CurveFitting_correlation_coeff Rops (cf_of xs (map Ropp ys)) = VFloat (- r).
Proof. exact correlation_of_data'. Qed.

(* sequences of different lengths (any lengths >= 2) are both cut to the shorter one, m = min;
   a sequence with fewer than two points is refused with ValueError *)
Theorem C17_input_forms :
  forall (v0 v1 v2 v3 v4 v5 v6 v7 v8 v9 v10 : val R) (xs ys : list R),
  let o := obj11 v0 v1 v2 v3 v4 v5 v6 v7 v8 v9 v10 in
  let m := Nat.min (length xs) (length ys) in
  ((2 <= length xs)%nat -> (2 <= length ys)%nat ->
     CurveFitting___init__ Rops o (VTuple [VList (fl xs); VList (fl ys)]) = cf_of (firstn m xs) (firstn m ys)
     /\ CurveFitting___init__ Rops o (VTuple [VTuple (fl xs); VTuple (fl ys)]) = cf_of (firstn m xs) (firstn m ys))
  /\ ((length xs < 2 \/ length ys < 2)%nat ->
     CurveFitting___init__ Rops o (VTuple [VList (fl xs); VList (fl ys)]) = VErr ValueError).
Proof. exact input_forms_truncation. Qed.

(* collinear data y = al*x + be (al <> 0, abscissae not all equal): r is exactly +1 or -1 *)
Theorem C17_correlation_collinear : forall xs al be, 0 < var_x xs ->
  (0 < al -> CurveFitting_correlation_coeff Rops (cf_of xs (map (aff al be) xs)) = VFloat 1)
  /\ (al < 0 -> CurveFitting_correlation_coeff Rops (cf_of xs (map (aff al be) xs)) = VFloat (-1)).
Proof. exact correlation_collinear_pm. Qed.

(* r is unchanged by a positive affine rescaling x -> a*x + b of either variable, and changes
   sign under a negative one, in particular when one variable is negated *)
Theorem C17_correlation_rescaling : forall xs ys a b, length xs = length ys ->
  0 < var_x xs -> 0 < var_y xs ys ->
  CurveFitting_correlation_coeff Rops (cf_of xs ys) = VFloat (r_of xs ys)
  /\ (0 < a -> CurveFitting_correlation_coeff Rops (cf_of (map (aff a b) xs) ys) = VFloat (r_of xs ys)
              /\ CurveFitting_correlation_coeff Rops (cf_of xs (map (aff a b) ys)) = VFloat (r_of xs ys))
  /\ (a < 0 -> CurveFitting_correlation_coeff Rops (cf_of (map (aff a b) xs) ys) = VFloat (- r_of xs ys)
              /\ CurveFitting_correlation_coeff Rops (cf_of xs (map (aff a b) ys)) = VFloat (- r_of xs ys))
  /\ CurveFitting_correlation_coeff Rops (cf_of (map Ropp xs) ys) = VFloat (- r_of xs ys).
Proof. exact correlation_rescaling_all. Qed.

(* the order of the points is irrelevant: for a permutation l' of the list l of points (x, y),
   linear fit, quadratic fit and correlation coefficient are the same, and so is the general fit
   with arbitrary basis functions in every branch its closed forms cover *)
Theorem C17_permutation_invariance : forall l l', Permutation l l' ->
  CurveFitting_linear_fitting Rops (cf_of (pxs l') (pys l')) = CurveFitting_linear_fitting Rops (cf_of (pxs l) (pys l))
  /\ CurveFitting_quadratic_fitting Rops (cf_of (pxs l') (pys l')) = CurveFitting_quadratic_fitting Rops (cf_of (pxs l) (pys l))
  /\ CurveFitting_correlation_coeff Rops (cf_of (pxs l') (pys l')) = CurveFitting_correlation_coeff Rops (cf_of (pxs l) (pys l)).
Proof. exact permutation_invariance. Qed.

Theorem C17_general_permutation_invariance :
  forall (call : val R -> list (val R) -> val R) i0 i1 i2 e0 e1 e2 (g0 g1 g2 : R -> R),
  (forall x, call (VFun i0 e0) [VFloat x] = VFloat (g0 x)) ->
  (forall x, call (VFun i1 e1) [VFloat x] = VFloat (g1 x)) ->
  (forall x, call (VFun i2 e2) [VFloat x] = VFloat (g2 x)) ->
  forall p l l', Permutation (p :: l) l' ->
  covered (G00 g0 (pxs (p :: l)) (pys (p :: l))) (G11 g1 (pxs (p :: l)) (pys (p :: l)))
          (G22 g2 (pxs (p :: l)) (pys (p :: l))) ->
  CurveFitting_general_fitting (RopsC call) (cf_of (pxs l') (pys l')) (VFun i0 e0) (VFun i1 e1) (VFun i2 e2)
  = CurveFitting_general_fitting (RopsC call) (cf_of (pxs (p :: l)) (pys (p :: l))) (VFun i0 e0) (VFun i1 e1) (VFun i2 e2).
Proof. exact general_permutation_invariance_cf. Qed.

(* noiseless data are recovered exactly: points on a line / parabola give back its coefficients *)
Theorem C17_noiseless_recovered : forall xs a b c,
  (TOL <= Rabs (lin_det (nR xs) (Sx xs) (Sx2 xs)) ->
   CurveFitting_linear_fitting Rops (cf_of xs (map (aff a b) xs)) = VTuple [VFloat a; VFloat b])
  /\ (TOL <= Rabs (quad_det (nR xs) (Sx xs) (Sx2 xs) (Sx3 xs) (Sx4 xs)) ->
      CurveFitting_quadratic_fitting Rops (cf_of xs (map (quadf a b c) xs)) = VTuple [VFloat a; VFloat b; VFloat c]).
Proof. intros xs a b c. split; [exact (linear_recovers xs a b) | exact (quadratic_recovers xs a b c)]. Qed.

(* non-vacuity: with the concrete interpreter C17_more.menu_call of the menu ids (1 null, 2 one,
   3 x, 4 x^2) the two comparison theorems hold without any hypothesis about function values;
   C17_more.linear_concrete / guard_satisfiable give a data set on which the guards pass *)
Theorem C17_menu_instances : forall x xs y ys, length xs = length ys ->
  let X := x :: xs in let Y := y :: ys in
  (TOL <= Rabs (quad_det (nR X) (Sx X) (Sx2 X) (Sx3 X) (Sx4 X)) ->
   TOL <= Rabs (Sx4 X * Sx2 X * nR X) ->
   exists a b c,
     CurveFitting_quadratic_fitting Rops (cf_of X Y) = VTuple [VFloat a; VFloat b; VFloat c]
     /\ CurveFitting_general_fitting (RopsC menu_call) (cf_of X Y) (VFun 4 []) (VFun 3 []) (VFun 2 [])
        = VTuple [VFloat a; VFloat b; VFloat c])
  /\ (TOL <= Rabs (lin_det (nR X) (Sx X) (Sx2 X)) -> TOL <= Sx2 X ->
      exists a b,
        CurveFitting_linear_fitting Rops (cf_of X Y) = VTuple [VFloat a; VFloat b]
        /\ CurveFitting_general_fitting (RopsC menu_call) (cf_of X Y) (VFun 3 []) (VFun 2 []) (VFun 1 [])
           = VTuple [VFloat a; VFloat b; VFloat zero_lit]).
Proof.
  intros x xs y ys Hl. split.
  - exact (menu_general_eq_quadratic x xs y ys Hl).
  - exact (menu_general_eq_linear x xs y ys Hl).
Qed.

(* INPUT FORMS FOR TABLES OF ANY LENGTH.  Whatever the object under construction holds (obj11 of
   arbitrary values; the model passes eleven None fields), the constructor stores cf_of xs ys (the
   data and their power sums) for: two lists, two tuples (equal lengths >= 2), interleaved scalars
   x0,y0,x1,y1,... (il l; >= 2 points; an odd trailing scalar is dropped), and a copy of another
   object's lists; set() on an existing object (here: one already holding other data) does the
   same.  Induction over the generated loops of CurveFitting.set. *)
Theorem C17_input_forms_any_length :
  forall (v0 v1 v2 v3 v4 v5 v6 v7 v8 v9 v10 : val R) (xs ys : list R) (l : list (R * R)) (z : R) (xs0 ys0 : list R),
  length xs = length ys -> (2 <= length xs)%nat -> (2 <= length l)%nat ->
  let o := obj11 v0 v1 v2 v3 v4 v5 v6 v7 v8 v9 v10 in
  CurveFitting___init__ Rops o (VTuple [VList (fl xs); VList (fl ys)]) = cf_of xs ys
  /\ CurveFitting___init__ Rops o (VTuple [VTuple (fl xs); VTuple (fl ys)]) = cf_of xs ys
  /\ CurveFitting___init__ Rops o (VTuple (il l)) = cf_of (map fst l) (map snd l)
  /\ CurveFitting___init__ Rops o (VTuple (il l ++ [VFloat z])) = cf_of (map fst l) (map snd l)
  /\ CurveFitting___init__ Rops o (VTuple [cf_of xs ys]) = cf_of xs ys
  /\ CurveFitting_set Rops (cf_of xs0 ys0) (VTuple [VList (fl xs); VList (fl ys)]) = VTuple [cf_of xs ys; VNone]
  /\ CurveFitting_set Rops (cf_of xs0 ys0) (VTuple (il l)) = VTuple [cf_of (map fst l) (map snd l); VNone]
  /\ CurveFitting_set Rops (cf_of xs0 ys0) (VTuple [cf_of xs ys]) = VTuple [cf_of xs ys; VNone].
Proof. exact input_forms_any_length. Qed.

(* the linear fit is THE least-squares line: it minimises the sum of squared residuals
   ssr a b = sum (y - (a x + b))^2 over all lines, and is the only minimiser *)
Theorem C17_linear_minimises : forall xs ys, length xs = length ys ->
  TOL <= Rabs (lin_det (nR xs) (Sx xs) (Sx2 xs)) ->
  exists a b,
    CurveFitting_linear_fitting Rops (cf_of xs ys) = VTuple [VFloat a; VFloat b]
    /\ (forall a' b', ssr a b xs ys <= ssr a' b' xs ys)
    /\ (forall a' b', ssr a' b' xs ys = ssr a b xs ys -> a' = a /\ b' = b).
Proof. exact linear_minimises. Qed.

(* |r| = 1 exactly when the points are collinear (both variances non-zero) *)
Theorem C17_r_one_iff_collinear : forall xs ys, length xs = length ys -> 0 < var_x xs -> 0 < var_y xs ys ->
  CurveFitting_correlation_coeff Rops (cf_of xs ys) = VFloat (r_of xs ys)
  /\ (Rabs (r_of xs ys) = 1 <-> exists al be, al <> 0 /\ ys = map (aff al be) xs).
Proof.
  intros xs ys Hl Hx Hy.
  exact (conj (correlation_value xs ys Hl Hx Hy) (r_one_iff_collinear xs ys Hl Hx Hy)).
Qed.

(* the returned value lies in [-1, 1] OUTRIGHT: the code returns max(-1.0, min(1.0, quotient)),
   i.e. clampR of the quotient, for any stored sums with positive variances (a value is returned
   only then; otherwise ValueError / ZeroDivisionError, C17_degenerate_refused).  For the sums of
   a data set the limitation is the identity (Cauchy-Schwarz, C17_correlation: the returned r IS
   the unclamped quotient). *)
Theorem C17_correlation_range : forall xl yl P Q Rr S T U V W N,
  0 < IZR N * Q - P * P -> 0 < IZR N * W - T * T ->
  CurveFitting_correlation_coeff Rops (cfobj xl yl P Q Rr S T U V W N)
    = VFloat (clampR (corr_r (IZR N) P Q T U W))
  /\ -1 <= clampR (corr_r (IZR N) P Q T U W) <= 1.
Proof.
  intros xl yl P Q Rr S T U V W N Hx Hy.
  exact (conj (correlation_clamped xl yl P Q Rr S T U V W N Hx Hy) (clampR_range _)).
Qed.

Redirect "C17_sums.assumptions" Print Assumptions C17_sums.
Redirect "C17_linear_normal_equations.assumptions" Print Assumptions C17_linear_normal_equations.
Redirect "C17_quadratic_normal_equations.assumptions" Print Assumptions C17_quadratic_normal_equations.
Redirect "C17_general_normal_equations.assumptions" Print Assumptions C17_general_normal_equations.
Redirect "C17_general_eq_quadratic.assumptions" Print Assumptions C17_general_eq_quadratic.
Redirect "C17_general_eq_linear.assumptions" Print Assumptions C17_general_eq_linear.
Redirect "C17_degenerate_refused.assumptions" Print Assumptions C17_degenerate_refused.
Redirect "C17_correlation.assumptions" Print Assumptions C17_correlation.
Redirect "C17_input_forms.assumptions" Print Assumptions C17_input_forms.
Redirect "C17_correlation_collinear.assumptions" Print Assumptions C17_correlation_collinear.
Redirect "C17_correlation_rescaling.assumptions" Print Assumptions C17_correlation_rescaling.
Redirect "C17_permutation_invariance.assumptions" Print Assumptions C17_permutation_invariance.
Redirect "C17_general_permutation_invariance.assumptions" Print Assumptions C17_general_permutation_invariance.
Redirect "C17_noiseless_recovered.assumptions" Print Assumptions C17_noiseless_recovered.
Redirect "C17_menu_instances.assumptions" Print Assumptions C17_menu_instances.
Redirect "C17_input_forms_any_length.assumptions" Print Assumptions C17_input_forms_any_length.
Redirect "C17_linear_minimises.assumptions" Print Assumptions C17_linear_minimises.
Redirect "C17_r_one_iff_collinear.assumptions" Print Assumptions C17_r_one_iff_collinear.
Redirect "C17_correlation_range.assumptions" Print Assumptions C17_correlation_range.
