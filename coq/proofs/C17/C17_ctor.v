(* C17: the constructor / set() dispatch on the input forms (ideal instance), for small concrete
   numbers of points with symbolic real entries: separate lists, tuples, interleaved scalars
   (odd count: last dropped) and a single list all store the data as cf_of xs ys. *)
From Coq Require Import Reals ZArith List Bool Lra Lia.
From PyLib Require Import PyVal PyBuiltins Ideal PyEval.
From Gen Require Import M_base M_Angle M_CurveFitting.
From Proofs.C17 Require Import C17_tac C17_sums.
Import ListNotations.
Open Scope R_scope.

Definition blank : val R :=
  VObj cCurveFitting [VNone; VNone; VNone; VNone; VNone; VNone; VNone; VNone; VNone; VNone; VNone].

Ltac finish_ctor :=
  unfold cf_of, Sx, Sx2, Sx3, Sx4, Sxy, Sx2y, Sy2, sum1, sum2, fsum, fl;
  cbn [map combine fold_right fst snd length];
  apply cfobj_eq; cbn [rev app fold_right]; Rlit_norm; try lra.

Lemma Rtrunc_val x z : 0 <= x -> IZR z <= x < IZR z + 1 -> Rtrunc x = z.
Proof.
  intros H0 Hz. unfold Rtrunc. destruct (Rlt_dec x 0); [lra |]. apply Rfloor_unique. exact Hz.
Qed.

Definition fresh_obj : val R :=
  VObj cCurveFitting [VList []; VList []; VNone; VNone; VNone; VNone; VNone; VNone; VNone; VNone; VNone].

(* range(int(len(args) / 2.0)) with a concrete number of arguments *)
Ltac set_interleaved k :=
  unfold fresh_obj; pyrunC;
  match goal with |- context [py_range (VInt 0) ?b] =>
    let H := fresh in eassert (H : b = _) by (pyrunC; py_canon_refl2); rewrite H; clear H end;
  match goal with |- context [Z.of_nat (length ?l)] =>
    let n := eval cbv in (Z.of_nat (length l)) in change (Z.of_nat (length l)) with n end;
  rewrite (Rtrunc_val _ k) by (first [split; Rlit_norm; lra | Rlit_norm; lra]);
  pyrunC.
Ltac finish_set := f_equal; f_equal; finish_ctor.

Lemma set_interleaved2 x0 x1 y0 y1 :
  CurveFitting_set Rops fresh_obj (VTuple [VFloat x0; VFloat y0; VFloat x1; VFloat y1])
  = VTuple [cf_of [x0; x1] [y0; y1]; VNone].
Proof. set_interleaved 2%Z. finish_set. Qed.

Lemma set_interleaved2_odd x0 x1 y0 y1 z :
  CurveFitting_set Rops fresh_obj (VTuple [VFloat x0; VFloat y0; VFloat x1; VFloat y1; VFloat z])
  = VTuple [cf_of [x0; x1] [y0; y1]; VNone].
Proof. set_interleaved 2%Z. finish_set. Qed.


Ltac ctor_via L :=
  unfold blank; pyrunC; cbn [py_tuple]; fold fresh_obj; rewrite L; pyrunC; reflexivity.



Lemma ctor_lists3 x0 x1 x2 y0 y1 y2 :
  CurveFitting___init__ Rops blank (VTuple [VList [VFloat x0; VFloat x1; VFloat x2];
                                            VList [VFloat y0; VFloat y1; VFloat y2]])
  = cf_of [x0; x1; x2] [y0; y1; y2].
Proof. unfold blank. pyrunC. finish_ctor. Qed.

Lemma ctor_tuples2 x0 x1 y0 y1 :
  CurveFitting___init__ Rops blank (VTuple [VTuple [VFloat x0; VFloat x1]; VTuple [VFloat y0; VFloat y1]])
  = cf_of [x0; x1] [y0; y1].
Proof. unfold blank. pyrunC. finish_ctor. Qed.

(* a longer y list is truncated *)
Lemma ctor_lists_truncated x0 x1 y0 y1 y2 :
  CurveFitting___init__ Rops blank (VTuple [VList [VFloat x0; VFloat x1];
                                            VList [VFloat y0; VFloat y1; VFloat y2]])
  = cf_of [x0; x1] [y0; y1].
Proof. unfold blank. pyrunC. finish_ctor. Qed.

(* interleaved scalars x0, y0, x1, y1, ... ; an odd trailing value is dropped *)
Lemma ctor_interleaved2 x0 x1 y0 y1 :
  CurveFitting___init__ Rops blank (VTuple [VFloat x0; VFloat y0; VFloat x1; VFloat y1])
  = cf_of [x0; x1] [y0; y1].
Proof. ctor_via set_interleaved2. Qed.

Lemma ctor_interleaved2_odd x0 x1 y0 y1 z :
  CurveFitting___init__ Rops blank (VTuple [VFloat x0; VFloat y0; VFloat x1; VFloat y1; VFloat z])
  = cf_of [x0; x1] [y0; y1].
Proof. ctor_via set_interleaved2_odd. Qed.


(* copy constructor *)
Lemma ctor_copy :
  CurveFitting___init__ Rops blank (VTuple [cf_of [1; 2] [3; 5]]) = cf_of [1; 2] [3; 5].
Proof. unfold blank, cf_of, cfobj, fl. cbn [map length]. pyrunC. finish_ctor. Qed.

(* too few points *)
Lemma ctor_one_pair x0 y0 :
  CurveFitting___init__ Rops blank (VTuple [VList [VFloat x0]; VList [VFloat y0]]) = VErr ValueError.
Proof. unfold blank. pyrunC. reflexivity. Qed.
