(* C17: the correlation coefficient (ideal instance): formula, |r| <= 1 by Cauchy-Schwarz over
   lists of any length, sign flip under y -> -y, exactly degenerate data are refused. *)
From Coq Require Import Reals ZArith List Bool Lra Lia.
From PyLib Require Import PyVal PyBuiltins Ideal PyEval.
From Gen Require Import M_base M_Angle M_CurveFitting.
From Proofs.C17 Require Import C17_tac C17_sums C17_fits.
Import ListNotations.
Open Scope R_scope.

Definition corr_r (N P Q T U W : R) : R :=
  (N * U - P * T) / (sqrt (N * Q - P * P) * sqrt (N * W - T * T)).

(* the quotient limited to [-1, 1], as the code returns it: max(-1.0, min(1.0, r)) *)
Definition clampR (r : R) : R := Rmax (-1) (Rmin 1 r).

Lemma clampR_range r : -1 <= clampR r <= 1.
Proof.
  unfold clampR. split; [apply Rmax_l |].
  apply Rmax_lub; [lra | apply Rmin_l].
Qed.
Lemma clampR_id r : Rabs r <= 1 -> clampR r = r.
Proof.
  intro H. assert (-1 <= r <= 1) by (unfold Rabs in H; destruct (Rcase_abs r); lra). unfold clampR. rewrite Rmin_right by lra. apply Rmax_right; lra.
Qed.

(* for ANY stored sums with positive variances the returned value is the clamped quotient,
   hence always inside [-1, 1] *)
Lemma correlation_clamped xl yl P Q Rr S T U V W N :
  0 < IZR N * Q - P * P -> 0 < IZR N * W - T * T ->
  CurveFitting_correlation_coeff Rops (cfobj xl yl P Q Rr S T U V W N)
  = VFloat (clampR (corr_r (IZR N) P Q T U W)).
Proof.
  intros Hx Hy. unfold cfobj.
  assert (0 < sqrt (IZR N * Q - P * P)) by (apply sqrt_lt_R0; exact Hx).
  assert (0 < sqrt (IZR N * W - T * T)) by (apply sqrt_lt_R0; exact Hy).
  assert (sqrt (IZR N * Q - P * P) * sqrt (IZR N * W - T * T) <> 0) by (apply Rgt_not_eq; apply Rmult_lt_0_compat; assumption).
  unfold corr_r, clampR.
  set (q := (IZR N * U - P * T) / (sqrt (IZR N * Q - P * P) * sqrt (IZR N * W - T * T))).
  destruct (Rlt_dec q 1) as [Hq1 | Hq1].
  - destruct (Rlt_dec (-1) q) as [Hq2 | Hq2].
    + assert (Hu1 := Hq1); assert (Hu2 := Hq2); unfold q in Hu1, Hu2. pyrun_using ltac:(first [assumption | pylra]). fold q.
      rewrite Rmin_right by lra. rewrite Rmax_right by lra. reflexivity.
    + apply Rnot_lt_le in Hq2. assert (Hu1 := Hq1); assert (Hu2 := Hq2); unfold q in Hu1, Hu2. pyrun_using ltac:(first [assumption | pylra]). fold q.
      rewrite Rmin_right by lra. rewrite Rmax_left by lra. Rlit_norm. f_equal. lra.
  - apply Rnot_lt_le in Hq1. assert (Hu1 := Hq1); unfold q in Hu1. pyrun_using ltac:(first [assumption | pylra]). fold q.
    rewrite Rmin_left by lra. rewrite Rmax_right by lra. Rlit_norm. f_equal. lra.
Qed.

(* when the quotient is within [-1, 1] (always the case for the sums of a data set, by
   Cauchy-Schwarz: corr_bound below) the limitation is the identity *)
Lemma correlation_formula xl yl P Q Rr S T U V W N :
  0 < IZR N * Q - P * P -> 0 < IZR N * W - T * T ->
  Rabs (corr_r (IZR N) P Q T U W) <= 1 ->
  CurveFitting_correlation_coeff Rops (cfobj xl yl P Q Rr S T U V W N)
  = VFloat (corr_r (IZR N) P Q T U W).
Proof.
  intros Hx Hy Hb. rewrite correlation_clamped by assumption. rewrite clampR_id by exact Hb. reflexivity.
Qed.

(* degenerate: a vanishing variance (all x equal, or all y equal) with the other one >= 0 *)
Lemma correlation_refused xl yl P Q Rr S T U V W N :
  (IZR N * Q - P * P = 0 /\ 0 <= IZR N * W - T * T) \/ (0 <= IZR N * Q - P * P /\ IZR N * W - T * T = 0) ->
  CurveFitting_correlation_coeff Rops (cfobj xl yl P Q Rr S T U V W N) = VErr ZeroDivisionError.
Proof.
  intros Hd. unfold cfobj.
  assert (Hz : sqrt (IZR N * Q - P * P) * sqrt (IZR N * W - T * T) = 0).
  { destruct Hd as [[Hx Hy] | [Hx Hy]].
    - rewrite Hx, sqrt_0. ring.
    - rewrite Hy, sqrt_0. ring. }
  assert (0 <= IZR N * Q - P * P /\ 0 <= IZR N * W - T * T) as [Hx' Hy'] by (destruct Hd as [[? ?] | [? ?]]; split; lra).
  pyrun_using ltac:(first [assumption | pylra]). reflexivity.
Qed.

(* ---- Cauchy-Schwarz over lists ---- *)
Lemma quadform_sum (a b c : R) (xs ys : list R) : length xs = length ys ->
  sum2 (fun x y => (a * x + b * y + c) * (a * x + b * y + c)) xs ys
  = a * a * Sx2 xs + b * b * Sy2 ys + c * c * INR (length xs)
    + 2 * a * b * Sxy xs ys + 2 * a * c * Sx xs + 2 * b * c * Sx ys.
Proof.
  revert ys. induction xs as [| x xs IH]; intros [| y ys] Hl; try discriminate Hl.
  - unfold sum2, Sx2, Sy2, Sxy, Sx, sum1, sum2, fsum. simpl. ring.
  - rewrite sum2_cons. rewrite IH by (simpl in Hl; lia).
    unfold Sx2, Sy2, Sxy, Sx, sum1, sum2, fsum. cbn [map combine fold_right fst snd length].
    rewrite S_INR. ring.
Qed.

Definition var_x (xs : list R) := INR (length xs) * Sx2 xs - Sx xs * Sx xs.
Definition cov_xy (xs ys : list R) := INR (length xs) * Sxy xs ys - Sx xs * Sx ys.
Definition var_y (xs ys : list R) := INR (length xs) * Sy2 ys - Sx ys * Sx ys.

(* the centred quadratic form is non-negative *)
Lemma centred_form (a b : R) xs ys : length xs = length ys -> xs <> [] ->
  0 <= a * a * var_x xs + 2 * a * b * cov_xy xs ys + b * b * var_y xs ys.
Proof.
  intros Hl Hne.
  assert (Hn : 0 < INR (length xs)).
  { destruct xs; [contradiction Hne; reflexivity |]. cbn [length]. rewrite S_INR. pose proof (pos_INR (length xs)). lra. }
  set (n := INR (length xs)) in *.
  set (c := - (a * Sx xs + b * Sx ys) / n).
  pose proof (sum2_sq_nonneg (fun x y => a * x + b * y + c) xs ys) as Hpos.
  cbv beta in Hpos. rewrite (quadform_sum a b c xs ys Hl) in Hpos. fold n in Hpos.
  assert (E : n * (a * a * Sx2 xs + b * b * Sy2 ys + c * c * n + 2 * a * b * Sxy xs ys
                   + 2 * a * c * Sx xs + 2 * b * c * Sx ys)
              = a * a * var_x xs + 2 * a * b * cov_xy xs ys + b * b * var_y xs ys).
  { unfold var_x, cov_xy, var_y, c. fold n. field. lra. }
  rewrite <- E. apply Rmult_le_pos; lra.
Qed.

Lemma var_y_nonneg xs ys : length xs = length ys -> xs <> [] -> 0 <= var_y xs ys.
Proof. intros Hl Hne. pose proof (centred_form 0 1 xs ys Hl Hne). lra. Qed.
Lemma var_x_nonneg (xs ys : list R) : length xs = length ys -> xs <> [] -> 0 <= var_x xs.
Proof. intros Hl Hne. pose proof (centred_form 1 0 xs ys Hl Hne). lra. Qed.

Lemma cauchy_schwarz xs ys : length xs = length ys -> xs <> [] ->
  cov_xy xs ys * cov_xy xs ys <= var_x xs * var_y xs ys.
Proof.
  intros Hl Hne.
  pose proof (var_x_nonneg xs ys Hl Hne) as Hx. pose proof (var_y_nonneg xs ys Hl Hne) as Hy.
  destruct (Req_dec (var_x xs) 0) as [H0 | H0].
  - (* vx = 0: the form a^2*0 + 2ab c + b^2 vy >= 0 for all a forces c = 0 *)
    assert (Hc : cov_xy xs ys = 0).
    { destruct (Req_dec (cov_xy xs ys) 0) as [Hc | Hc]; [exact Hc | exfalso].
      pose proof (centred_form (- (var_y xs ys + 1) / (2 * cov_xy xs ys)) 1 xs ys Hl Hne) as H1.
      rewrite H0 in H1.
      assert (E : 2 * (- (var_y xs ys + 1) / (2 * cov_xy xs ys)) * 1 * cov_xy xs ys = - (var_y xs ys + 1))
        by (field; exact Hc).
      rewrite E in H1. lra. }
    rewrite Hc, H0. lra.
  - pose proof (centred_form (cov_xy xs ys) (- var_x xs) xs ys Hl Hne) as H1.
    assert (0 < var_x xs) by lra.
    assert (0 <= var_x xs * (var_x xs * var_y xs ys - cov_xy xs ys * cov_xy xs ys)) by nra.
    nra.
Qed.

Lemma IZR_len (xs : list R) : IZR (Z.of_nat (length xs)) = INR (length xs).
Proof. symmetry. apply INR_IZR_INZ. Qed.

(* |r| <= 1 for the coefficient computed from the power sums of any data set *)
Lemma corr_bound xs ys : length xs = length ys -> 0 < var_x xs -> 0 < var_y xs ys ->
  Rabs (corr_r (INR (length xs)) (Sx xs) (Sx2 xs) (Sx ys) (Sxy xs ys) (Sy2 ys)) <= 1.
Proof.
  intros Hl Hx Hy.
  assert (Hne : xs <> []).
  { intro E. subst xs. unfold var_x in Hx. simpl in Hx. unfold Sx, Sx2, sum1, fsum in Hx. simpl in Hx. lra. }
  pose proof (cauchy_schwarz xs ys Hl Hne) as CS.
  unfold corr_r. fold (var_x xs) (cov_xy xs ys) (var_y xs ys).
  set (c := cov_xy xs ys) in *. set (vx := var_x xs) in *. set (vy := var_y xs ys) in *.
  assert (Hsx : 0 < sqrt vx) by (apply sqrt_lt_R0; exact Hx).
  assert (Hsy : 0 < sqrt vy) by (apply sqrt_lt_R0; exact Hy).
  assert (Hd : 0 < sqrt vx * sqrt vy) by (apply Rmult_lt_0_compat; assumption).
  unfold Rdiv. rewrite Rabs_mult, (Rabs_right (/ _)) by (left; apply Rinv_0_lt_compat; exact Hd).
  apply (Rmult_le_reg_r (sqrt vx * sqrt vy)); [exact Hd |].
  rewrite Rmult_assoc, Rinv_l, Rmult_1_r, Rmult_1_l by lra.
  rewrite <- sqrt_mult by lra.
  rewrite <- (sqrt_Rsqr_abs c). apply sqrt_le_1_alt. unfold Rsqr. exact CS.
Qed.

(* negating the ordinates *)
Lemma Sx_opp ys : Sx (map Ropp ys) = - Sx ys.
Proof. induction ys as [| y ys IH]; unfold Sx, fsum in *; simpl; [lra | rewrite IH; lra]. Qed.
Lemma Sy2_opp ys : Sy2 (map Ropp ys) = Sy2 ys.
Proof.
  induction ys as [| y ys IH]; [reflexivity |]. unfold Sy2 in *. cbn [map]. rewrite !sum1_cons, IH. ring.
Qed.
Lemma Sxy_opp xs ys : Sxy xs (map Ropp ys) = - Sxy xs ys.
Proof.
  revert ys. induction xs as [| x xs IH]; intros [| y ys]; unfold Sxy in *;
    try (unfold sum2, fsum; simpl; lra).
  cbn [map]. rewrite !sum2_cons, IH. ring.
Qed.
Lemma Sx2y_opp xs ys : Sx2y xs (map Ropp ys) = - Sx2y xs ys.
Proof.
  revert ys. induction xs as [| x xs IH]; intros [| y ys]; unfold Sx2y in *;
    try (unfold sum2, fsum; simpl; lra).
  cbn [map]. rewrite !sum2_cons, IH. ring.
Qed.

Lemma corr_r_opp N P Q T U W : corr_r N P Q (- T) (- U) W = - corr_r N P Q T U W.
Proof.
  unfold corr_r. replace (N * W - - T * - T) with (N * W - T * T) by ring.
  unfold Rdiv. ring.
Qed.

(* --- statements on data sets (any length) --- *)
Lemma correlation_of_data xs ys : length xs = length ys -> 0 < var_x xs -> 0 < var_y xs ys ->
  exists r, CurveFitting_correlation_coeff Rops (cf_of xs ys) = VFloat r /\ Rabs r <= 1
    /\ CurveFitting_correlation_coeff Rops (cf_of xs (map Ropp ys)) = VFloat (- r).
Proof.
  intros Hl Hx Hy.
  exists (corr_r (INR (length xs)) (Sx xs) (Sx2 xs) (Sx ys) (Sxy xs ys) (Sy2 ys)).
  unfold var_x, var_y in Hx, Hy.
  split; [| split].
  - unfold cf_of. rewrite correlation_formula; rewrite ?IZR_len;
      [reflexivity | exact Hx | exact Hy | apply corr_bound; assumption].
  - apply corr_bound; assumption.
  - unfold cf_of. rewrite Sx_opp, Sxy_opp, Sx2y_opp, Sy2_opp.
    rewrite correlation_formula; rewrite ?IZR_len.
    + rewrite corr_r_opp. reflexivity.
    + exact Hx.
    + replace (- Sx ys * - Sx ys) with (Sx ys * Sx ys) by ring. exact Hy.
    + rewrite corr_r_opp, Rabs_Ropp. apply corr_bound; assumption.
Qed.

(* all abscissae equal: the variance vanishes exactly *)
Lemma Sx_repeat c n : Sx (repeat c n) = INR n * c.
Proof. induction n as [| n IH]; [unfold Sx, fsum; simpl; ring |]. cbn [repeat]. unfold Sx, fsum in *. cbn [fold_right]. rewrite IH, S_INR. ring. Qed.
Lemma sum1_repeat g c n : sum1 g (repeat c n) = INR n * g c.
Proof. induction n as [| n IH]; [unfold sum1, fsum; simpl; ring |]. cbn [repeat]. rewrite sum1_cons, IH, S_INR. ring. Qed.

Lemma correlation_degenerate c n ys : length ys = n -> n <> 0%nat ->
  CurveFitting_correlation_coeff Rops (cf_of (repeat c n) ys) = VErr ZeroDivisionError.
Proof.
  intros Hl Hn. unfold cf_of. apply correlation_refused. left.
  rewrite repeat_length, <- INR_IZR_INZ. split.
  - unfold Sx2. rewrite Sx_repeat, sum1_repeat. ring.
  - assert (Hl' : length (repeat c n) = length ys) by (rewrite repeat_length; auto).
    assert (Hne : repeat c n <> []) by (destruct n; [contradiction | discriminate]).
    pose proof (var_y_nonneg (repeat c n) ys Hl' Hne) as H. unfold var_y in H.
    rewrite repeat_length in H. exact H.
Qed.

Lemma correlation_of_data' xs ys : length xs = length ys -> 0 < var_x xs -> 0 < var_y xs ys ->
  exists r, CurveFitting_correlation_coeff Rops (cf_of xs ys) = VFloat r
    /\ r = cov_xy xs ys / (sqrt (var_x xs) * sqrt (var_y xs ys))
    /\ Rabs r <= 1
    /\ CurveFitting_correlation_coeff Rops (cf_of xs (map Ropp ys)) = VFloat (- r).
Proof.
  intros Hl Hx Hy. destruct (correlation_of_data xs ys Hl Hx Hy) as (r & Hv & Hb & Hn).
  exists r. split; [exact Hv |]. split; [| split; assumption].
  unfold cf_of in Hv. rewrite correlation_formula in Hv; rewrite ?IZR_len; try assumption;
    [| apply corr_bound; assumption].
  injection Hv as <-. rewrite IZR_len. reflexivity.
Qed.
