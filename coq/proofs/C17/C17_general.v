(* C17: general_fitting with arbitrary basis functions, data lists of any length (ideal
   instance).  Basis functions are function values VFun id env; calling them goes through
   f_call of the FloatOps instance, here an arbitrary [call] that maps a float x to the float
   g_i x.  Induction over the generated for-loop, then the closed forms by field. *)
From Coq Require Import Reals ZArith List Bool Lra Lia.
From PyLib Require Import PyVal PyBuiltins Ideal PyEval.
From Gen Require Import M_base M_Angle M_CurveFitting.
From Proofs.C17 Require Import C17_tac C17_sums C17_fits.
Import ListNotations.
Open Scope R_scope.

Lemma enum_fl_cons k a xs :
  enum_from (Z.of_nat k) (fl (a :: xs)) = VTuple [VInt (Z.of_nat k); VFloat a] :: enum_from (Z.of_nat (S k)) (fl xs).
Proof. unfold fl. cbn [map enum_from]. rewrite Nat2Z.inj_succ. unfold Z.succ. reflexivity. Qed.

(* the calls of basis functions are rewritten with the hypotheses about [call] *)
Ltac call_hook H0 H1 H2 s :=
  lazymatch s with
  | _ (VFun _ _) [VFloat _] => first [ rewrite H0 | rewrite H1 | rewrite H2 ]
  end.

Section General.
Context (call : val R -> list (val R) -> val R).
Context (i0 i1 i2 : positive) (e0 e1 e2 : list (val R)) (g0 g1 g2 : R -> R).
Context (H0 : forall x, call (VFun i0 e0) [VFloat x] = VFloat (g0 x)).
Context (H1 : forall x, call (VFun i1 e1) [VFloat x] = VFloat (g1 x)).
Context (H2 : forall x, call (VFun i2 e2) [VFloat x] = VFloat (g2 x)).

Ltac pyrunG := pyrun2 pylra idx_floats ltac:(fun s => call_hook H0 H1 H2 s).

(* the nine sums general_fitting accumulates *)
Definition G00 xs ys := sum2 (fun x _ => g0 x * g0 x) xs ys.
Definition G01 xs ys := sum2 (fun x _ => g0 x * g1 x) xs ys.
Definition G02 xs ys := sum2 (fun x _ => g0 x * g2 x) xs ys.
Definition G11 xs ys := sum2 (fun x _ => g1 x * g1 x) xs ys.
Definition G12 xs ys := sum2 (fun x _ => g1 x * g2 x) xs ys.
Definition G22 xs ys := sum2 (fun x _ => g2 x * g2 x) xs ys.
Definition GY0 xs ys := sum2 (fun x y => y * g0 x) xs ys.
Definition GY1 xs ys := sum2 (fun x y => y * g1 x) xs ys.
Definition GY2 xs ys := sum2 (fun x y => y * g2 x) xs ys.

Lemma iter_enum (O : FloatOps R) (l : list (val R)) : py_iter (py_enumerate (VList l)) = VList (enum_from 0 l).
Proof. unfold py_enumerate. cbn [py_iter]. rewrite bind_ok by reflexivity. reflexivity. Qed.

(* determinants and closed forms exactly as the code writes them (2.0 is the literal 20e-1) *)
Definition gen_det (m p q r s t : R) := m * r * t + Rlit 20 (-1) * p * q * s - m * s * s - r * q * q - t * p * p.
Definition gen_det2 (m p r : R) := m * r - p * p.
Definition gen_a m p q r s t u v w := (u * (r * t - s * s) + v * (q * s - p * t) + w * (p * s - q * r)) / gen_det m p q r s t.
Definition gen_b m p q r s t u v w := (u * (s * q - p * t) + v * (m * t - q * q) + w * (p * q - m * s)) / gen_det m p q r s t.
Definition gen_c m p q r s t u v w := (u * (p * s - r * q) + v * (p * q - m * s) + w * (m * r - p * p)) / gen_det m p q r s t.
Definition zero_lit : R := Rlit 0 (-1).

Lemma general_closed_forms (x : R) (xs : list R) (y : R) (ys : list R) P Q Rr S T U V W N :
  length xs = length ys ->
  let X := x :: xs in let Y := y :: ys in
  let m := G00 X Y in let p := G01 X Y in let q := G02 X Y in let r := G11 X Y in
  let s := G12 X Y in let t := G22 X Y in let u := GY0 X Y in let v := GY1 X Y in let w := GY2 X Y in
  let res := CurveFitting_general_fitting (RopsC call) (cfobj (fl X) (fl Y) P Q Rr S T U V W N)
               (VFun i0 e0) (VFun i1 e1) (VFun i2 e2) in
  (* three basis functions *)
  (TOL <= Rabs t -> TOL <= Rabs (m * r * t) -> TOL <= Rabs (gen_det m p q r s t) ->
     res = VTuple [VFloat (gen_a m p q r s t u v w); VFloat (gen_b m p q r s t u v w);
                   VFloat (gen_c m p q r s t u v w)])
  (* two basis functions (third null) *)
  /\ (Rabs t < TOL -> TOL <= Rabs m -> TOL <= Rabs r -> TOL <= Rabs (gen_det2 m p r) ->
     res = VTuple [VFloat ((u * r - v * p) / gen_det2 m p r); VFloat ((v * m - u * p) / gen_det2 m p r);
                   VFloat zero_lit])
  (* one basis function *)
  /\ (Rabs r < TOL -> Rabs t < TOL -> TOL <= Rabs m ->
     res = VTuple [VFloat (u / m); VFloat zero_lit; VFloat zero_lit])
  (* refusals *)
  /\ (Rabs t < TOL -> TOL <= Rabs m -> TOL <= Rabs r -> Rabs (gen_det2 m p r) < TOL ->
     res = VErr ZeroDivisionError)
  /\ (TOL <= Rabs t -> Rabs (m * r * t) < TOL -> res = VErr ZeroDivisionError)
  /\ (TOL <= Rabs t -> TOL <= Rabs (m * r * t) -> Rabs (gen_det m p q r s t) < TOL ->
     res = VErr ZeroDivisionError).
Proof.
  intro Hl. cbv zeta.
  set (m := G00 (x :: xs) (y :: ys)). set (p := G01 (x :: xs) (y :: ys)).
  set (q := G02 (x :: xs) (y :: ys)). set (r := G11 (x :: xs) (y :: ys)).
  set (s := G12 (x :: xs) (y :: ys)). set (t := G22 (x :: xs) (y :: ys)).
  set (u := GY0 (x :: xs) (y :: ys)). set (v := GY1 (x :: xs) (y :: ys)).
  set (w := GY2 (x :: xs) (y :: ys)).
  match goal with |- context [CurveFitting_general_fitting ?a ?b ?c ?d ?e] =>
    set (res := CurveFitting_general_fitting a b c d e) end.
  eassert (Hres : res = _).
  { unfold res, CurveFitting_general_fitting, cfobj.
    pyrunG.
    rewrite (iter_enum (RopsC call)), (enum_fl_cons 0).
    pyrunG.
    match goal with |- ?f (enum_from _ _) _ _ _ _ _ _ _ _ _ _ _ _ _ = _ => set (loop := f) end.
    assert (Hloop : forall xs' ysuf ypre i m p q r s t u v vl w xv yv,
      length xs' = length ysuf -> y :: ys = ypre ++ ysuf ->
      loop (enum_from (Z.of_nat (length ypre)) (fl xs')) i (VFloat m) (VFloat p) (VFloat q) (VFloat r)
           (VFloat s) (VFloat t) (VFloat u) (VFloat v) vl (VFloat w) xv yv
      = loop [] VNone (VFloat (m + G00 xs' ysuf)) (VFloat (p + G01 xs' ysuf)) (VFloat (q + G02 xs' ysuf))
           (VFloat (r + G11 xs' ysuf)) (VFloat (s + G12 xs' ysuf)) (VFloat (t + G22 xs' ysuf))
           (VFloat (u + GY0 xs' ysuf)) (VFloat (v + GY1 xs' ysuf)) VNone (VFloat (w + GY2 xs' ysuf)) VNone VNone).
    { clear - H0 H1 H2. induction xs' as [| a xs' IH]; intros [| b ysuf] ypre i m p q r s t u v vl w xv yv Hl HY;
        try discriminate Hl.
      - unfold G00, G01, G02, G11, G12, G22, GY0, GY1, GY2, sum2. cbn [combine map fsum fold_right].
        rewrite !Rplus_0_r. reflexivity.
      - assert (Hlen : (length ypre < length (y :: ys))%nat) by (rewrite HY, app_length; simpl; lia).
        assert (Hn : nth (length ypre) (y :: ys) 0 = b) by (rewrite HY; apply nth_middle).
        assert (IH' := IH ysuf (ypre ++ [b]) (item (VTuple [VInt (Z.of_nat (length ypre)); VFloat a]) 0)
                    (m + g0 a * g0 a) (p + g0 a * g1 a) (q + g0 a * g2 a) (r + g1 a * g1 a)
                    (s + g1 a * g2 a) (t + g2 a * g2 a) (u + b * g0 a) (v + b * g1 a) (VFloat a)
                    (w + b * g2 a) (VFloat a) (VFloat b)).
        rewrite <- app_assoc in IH'. specialize (IH' ltac:(simpl in Hl; lia) HY).
        rewrite enum_fl_cons.
        pyrun2 pylra ltac:(rewrite getitem_floats by exact Hlen; rewrite Hn) ltac:(fun s => call_hook H0 H1 H2 s).
        fold loop.
        rewrite app_length in IH'. cbn [length] in IH'. rewrite Nat.add_1_r in IH'.
        rewrite IH'.
        unfold G00, G01, G02, G11, G12, G22, GY0, GY1, GY2. rewrite !sum2_cons.
        rewrite <- !Rplus_assoc. reflexivity. }
    rewrite (Hloop xs ys [y] _ _ _ _ _ _ _ _ _ _ _ _ _ Hl eq_refl).
    replace (0 + g0 x * g0 x + G00 xs ys) with m by (unfold m, G00; rewrite sum2_cons; ring).
    replace (0 + g0 x * g1 x + G01 xs ys) with p by (unfold p, G01; rewrite sum2_cons; ring).
    replace (0 + g0 x * g2 x + G02 xs ys) with q by (unfold q, G02; rewrite sum2_cons; ring).
    replace (0 + g1 x * g1 x + G11 xs ys) with r by (unfold r, G11; rewrite sum2_cons; ring).
    replace (0 + g1 x * g2 x + G12 xs ys) with s by (unfold s, G12; rewrite sum2_cons; ring).
    replace (0 + g2 x * g2 x + G22 xs ys) with t by (unfold t, G22; rewrite sum2_cons; ring).
    replace (0 + y * g0 x + GY0 xs ys) with u by (unfold u, GY0; rewrite sum2_cons; ring).
    replace (0 + y * g1 x + GY1 xs ys) with v by (unfold v, GY1; rewrite sum2_cons; ring).
    replace (0 + y * g2 x + GY2 xs ys) with w by (unfold w, GY2; rewrite sum2_cons; ring).
    subst loop. reflexivity. }
  rewrite Hres. clear Hres res.
  clearbody m p q r s t u v w.
  unfold gen_det, gen_det2, gen_a, gen_b, gen_c, TOL, zero_lit.
  repeat split.
  - intros Ht Hmrt Hd.
    assert (Hnz : m * r * t + Rlit 20 (-1) * p * q * s - m * s * s - r * q * q - t * p * p <> 0).
    { intro E. rewrite E, Rabs_R0 in Hd. Rlit_norm_in Hd. lra. }
    destruct (Rlt_dec (Rabs r) (Rlit 1 (-10))) as [Hr | Hr]; [| apply Rnot_lt_le in Hr].
    + pyrun2 ltac:(pylra_fast) no_idx ltac:(fun s => fail). reflexivity.
    + pyrun2 ltac:(pylra_fast) no_idx ltac:(fun s => fail). reflexivity.
  - intros Ht Hm Hr Hd.
    assert (Hnz : m * r - p * p <> 0).
    { intro E. rewrite E, Rabs_R0 in Hd. Rlit_norm_in Hd. lra. }
    pyrun2 ltac:(pylra_fast) no_idx ltac:(fun s => fail). reflexivity.
  - intros Hr Ht Hm.
    assert (Hnz : m <> 0).
    { intro E. rewrite E, Rabs_R0 in Hm. Rlit_norm_in Hm. lra. }
    pyrun2 ltac:(pylra_fast) no_idx ltac:(fun s => fail). reflexivity.
  - intros Ht Hm Hr Hd. pyrun2 ltac:(pylra_fast) no_idx ltac:(fun s => fail). reflexivity.
  - intros Ht Hmrt.
    destruct (Rlt_dec (Rabs r) (Rlit 1 (-10))) as [Hr | Hr]; [| apply Rnot_lt_le in Hr].
    + pyrun2 ltac:(pylra_fast) no_idx ltac:(fun s => fail). reflexivity.
    + pyrun2 ltac:(pylra_fast) no_idx ltac:(fun s => fail). reflexivity.
  - intros Ht Hmrt Hd.
    destruct (Rlt_dec (Rabs r) (Rlit 1 (-10))) as [Hr | Hr]; [| apply Rnot_lt_le in Hr].
    + pyrun2 ltac:(pylra_fast) no_idx ltac:(fun s => fail). reflexivity.
    + pyrun2 ltac:(pylra_fast) no_idx ltac:(fun s => fail). reflexivity.
Qed.

End General.
