(* C17: statements on data sets of any length (ideal instance), assembled from
   C17_sums (stored sums), C17_fits (closed forms), C17_general (loop of general_fitting),
   C17_corr (correlation). *)
From Coq Require Import Reals ZArith List Bool Lra Lia.
From PyLib Require Import PyVal PyBuiltins Ideal PyEval.
From Gen Require Import M_base M_Angle M_CurveFitting.
From Proofs.C17 Require Import C17_tac C17_sums C17_fits C17_general C17_corr.
Import ListNotations.
Open Scope R_scope.

Definition nR (xs : list R) : R := INR (length xs).

Lemma TOL_pos : 0 < TOL.
Proof. unfold TOL. Rlit_norm. lra. Qed.

Lemma nonzero_of_guard d : TOL <= Rabs d -> d <> 0.
Proof. intros H E. rewrite E, Rabs_R0 in H. pose proof TOL_pos. lra. Qed.

(* residual sums in terms of the power sums *)
Lemma resid_lin_x a b xs ys : length xs = length ys ->
  sum2 (fun x y => (y - (a * x + b)) * x) xs ys = Sxy xs ys - a * Sx2 xs - b * Sx xs.
Proof.
  revert ys. induction xs as [| x xs IH]; intros [| y ys] Hl; try discriminate Hl.
  - unfold sum2, Sxy, Sx2, Sx, sum1, sum2, fsum. simpl. ring.
  - rewrite sum2_cons, IH by (simpl in Hl; lia). unfold Sxy, Sx2, Sx.
    rewrite sum2_cons, sum1_cons. unfold fsum. cbn [fold_right]. ring.
Qed.
Lemma resid_lin_1 a b xs ys : length xs = length ys ->
  sum2 (fun x y => y - (a * x + b)) xs ys = Sx ys - a * Sx xs - b * nR xs.
Proof.
  revert ys. induction xs as [| x xs IH]; intros [| y ys] Hl; try discriminate Hl.
  - unfold sum2, Sx, nR, fsum. simpl. ring.
  - rewrite sum2_cons, IH by (simpl in Hl; lia). unfold Sx, nR, fsum. cbn [fold_right length].
    rewrite S_INR. ring.
Qed.

(* ---------------------------------------------------------------- linear fit *)
Theorem linear_least_squares xs ys : length xs = length ys ->
  TOL <= Rabs (lin_det (nR xs) (Sx xs) (Sx2 xs)) ->
  exists a b,
    CurveFitting_linear_fitting Rops (cf_of xs ys) = VTuple [VFloat a; VFloat b]
    (* normal equations *)
    /\ a * Sx2 xs + b * Sx xs = Sxy xs ys /\ a * Sx xs + b * nR xs = Sx ys
    (* residuals orthogonal to x and to 1 *)
    /\ sum2 (fun x y => (y - (a * x + b)) * x) xs ys = 0
    /\ sum2 (fun x y => y - (a * x + b)) xs ys = 0.
Proof.
  intros Hl Hd. unfold nR in *. rewrite <- IZR_len in Hd.
  destruct (linear_ok (fl xs) (fl ys) (Sx xs) (Sx2 xs) (Sx3 xs) (Sx4 xs) (Sx ys) (Sxy xs ys)
              (Sx2y xs ys) (Sy2 ys) (Z.of_nat (length xs)) Hd) as (a & b & Hv & E1 & E2).
  exists a, b. rewrite IZR_len in E2.
  split; [exact Hv |]. split; [exact E1 |]. split; [exact E2 |].
  rewrite resid_lin_x, resid_lin_1 by exact Hl. unfold nR. split; lra.
Qed.

Theorem linear_refused_small_det xs ys :
  Rabs (lin_det (nR xs) (Sx xs) (Sx2 xs)) < TOL ->
  CurveFitting_linear_fitting Rops (cf_of xs ys) = VErr ZeroDivisionError.
Proof. intro Hd. unfold nR in Hd. rewrite <- IZR_len in Hd. apply linear_refused. exact Hd. Qed.

(* ------------------------------------------------------------- quadratic fit *)
Lemma resid_quad (h : R -> R) a b c xs ys : length xs = length ys ->
  sum2 (fun x y => (y - (a * (x * x) + b * x + c)) * h x) xs ys
  = sum2 (fun x y => y * h x) xs ys - a * sum1 (fun x => x * x * h x) xs
    - b * sum1 (fun x => x * h x) xs - c * sum1 h xs.
Proof.
  revert ys. induction xs as [| x xs IH]; intros [| y ys] Hl; try discriminate Hl.
  - unfold sum2, sum1, fsum. simpl. ring.
  - rewrite !sum2_cons, !sum1_cons, IH by (simpl in Hl; lia). ring.
Qed.

Theorem quadratic_least_squares xs ys : length xs = length ys ->
  TOL <= Rabs (quad_det (nR xs) (Sx xs) (Sx2 xs) (Sx3 xs) (Sx4 xs)) ->
  exists a b c,
    CurveFitting_quadratic_fitting Rops (cf_of xs ys) = VTuple [VFloat a; VFloat b; VFloat c]
    /\ a * Sx4 xs + b * Sx3 xs + c * Sx2 xs = Sx2y xs ys
    /\ a * Sx3 xs + b * Sx2 xs + c * Sx xs = Sxy xs ys
    /\ a * Sx2 xs + b * Sx xs + c * nR xs = Sx ys
    (* residuals orthogonal to x^2, x, 1 *)
    /\ sum2 (fun x y => (y - (a * (x * x) + b * x + c)) * (x * x)) xs ys = 0
    /\ sum2 (fun x y => (y - (a * (x * x) + b * x + c)) * x) xs ys = 0
    /\ sum2 (fun x y => (y - (a * (x * x) + b * x + c)) * 1) xs ys = 0.
Proof.
  intros Hl Hd. unfold nR in *. rewrite <- IZR_len in Hd.
  destruct (quadratic_ok (fl xs) (fl ys) (Sx xs) (Sx2 xs) (Sx3 xs) (Sx4 xs) (Sx ys) (Sxy xs ys)
              (Sx2y xs ys) (Sy2 ys) (Z.of_nat (length xs)) Hd) as (a & b & c & Hv & E1 & E2 & E3).
  exists a, b, c. rewrite IZR_len in E3.
  split; [exact Hv |]. split; [exact E1 |]. split; [exact E2 |]. split; [exact E3 |].
  rewrite !resid_quad by exact Hl.
  assert (A1 : sum2 (fun x y => y * (x * x)) xs ys = Sx2y xs ys) by (apply sum2_ext; intros; ring).
  assert (A2 : sum2 (fun x y => y * x) xs ys = Sxy xs ys) by (apply sum2_ext; intros; ring).
  assert (A3 : sum2 (fun x y => y * 1) xs ys = Sx ys).
  { rewrite (sum2_ext _ (fun _ y => y)) by (intros; ring). rewrite (sum2_snd (fun y => y)) by exact Hl. apply sum1_id. }
  assert (B1 : sum1 (fun x => x * x * (x * x)) xs = Sx4 xs) by reflexivity.
  assert (B2 : sum1 (fun x => x * (x * x)) xs = Sx3 xs) by (apply sum1_ext; intros; ring).
  assert (B3 : sum1 (fun x => x * x) xs = Sx2 xs) by reflexivity.
  assert (B4 : sum1 (fun x => x * x * x) xs = Sx3 xs) by reflexivity.
  assert (B5 : sum1 (fun x => x) xs = Sx xs) by apply sum1_id.
  assert (B6 : sum1 (fun x => x * x * 1) xs = Sx2 xs) by (apply sum1_ext; intros; ring).
  assert (B7 : sum1 (fun x => x * 1) xs = Sx xs) by (rewrite <- sum1_id; apply sum1_ext; intros; ring).
  assert (B8 : sum1 (fun _ => 1) xs = INR (length xs)) by (rewrite sum1_const; ring).
  rewrite A1, A2, A3, B1, B2, B3, B4, B5, B6, B7, B8.
  repeat split; lra.
Qed.

Theorem quadratic_refused_small_det xs ys :
  Rabs (quad_det (nR xs) (Sx xs) (Sx2 xs) (Sx3 xs) (Sx4 xs)) < TOL ->
  CurveFitting_quadratic_fitting Rops (cf_of xs ys) = VErr ZeroDivisionError.
Proof. intro Hd. unfold nR in Hd. rewrite <- IZR_len in Hd. apply quadratic_refused. exact Hd. Qed.

(* ---------------------------------------------- exactly degenerate data are refused *)
Theorem linear_degenerate c n ys :
  CurveFitting_linear_fitting Rops (cf_of (repeat c n) ys) = VErr ZeroDivisionError.
Proof.
  apply linear_refused_small_det. unfold nR, lin_det, Sx2.
  rewrite Sx_repeat, sum1_repeat, repeat_length.
  replace (INR n * (INR n * (c * c)) - INR n * c * (INR n * c)) with 0 by ring.
  rewrite Rabs_R0. exact TOL_pos.
Qed.

Theorem quadratic_degenerate c n ys :
  CurveFitting_quadratic_fitting Rops (cf_of (repeat c n) ys) = VErr ZeroDivisionError.
Proof.
  apply quadratic_refused_small_det. rewrite quad_det_eq. unfold nR, Sx2, Sx3, Sx4.
  rewrite Sx_repeat, !sum1_repeat, repeat_length.
  match goal with |- Rabs ?e < _ => replace e with 0 by ring end.
  rewrite Rabs_R0. exact TOL_pos.
Qed.

(* ------------------------------------------------ general fit, arbitrary basis functions *)
Lemma gen_normal m p q r s t u v w : gen_det m p q r s t <> 0 ->
  gen_a m p q r s t u v w * m + gen_b m p q r s t u v w * p + gen_c m p q r s t u v w * q = u
  /\ gen_a m p q r s t u v w * p + gen_b m p q r s t u v w * r + gen_c m p q r s t u v w * s = v
  /\ gen_a m p q r s t u v w * q + gen_b m p q r s t u v w * s + gen_c m p q r s t u v w * t = w.
Proof.
  unfold gen_a, gen_b, gen_c, gen_det. Rlit_norm. intro Hnz.
  repeat split; field; intro H0; apply Hnz; lra.
Qed.

Lemma resid_gen (g0 g1 g2 h : R -> R) a b c xs ys :
  sum2 (fun x y => (y - (a * g0 x + b * g1 x + c * g2 x)) * h x) xs ys
  = sum2 (fun x y => y * h x) xs ys - a * sum2 (fun x _ => g0 x * h x) xs ys
    - b * sum2 (fun x _ => g1 x * h x) xs ys - c * sum2 (fun x _ => g2 x * h x) xs ys.
Proof.
  revert ys. induction xs as [| x xs IH]; intros [| y ys]; try (unfold sum2, fsum; simpl; ring).
  rewrite !sum2_cons, IH. ring.
Qed.

Section GeneralData.
Context (call : val R -> list (val R) -> val R).
Context (i0 i1 i2 : positive) (e0 e1 e2 : list (val R)) (g0 g1 g2 : R -> R).
Context (H0 : forall x, call (VFun i0 e0) [VFloat x] = VFloat (g0 x)).
Context (H1 : forall x, call (VFun i1 e1) [VFloat x] = VFloat (g1 x)).
Context (H2 : forall x, call (VFun i2 e2) [VFloat x] = VFloat (g2 x)).
Context (x : R) (xs : list R) (y : R) (ys : list R) (Hl : length xs = length ys).
Context (P Q Rr S T U V W : R) (N : Z).

Let X := x :: xs.
Let Y := y :: ys.
Let m := G00 g0 X Y.
Let p := G01 g0 g1 X Y.
Let q := G02 g0 g2 X Y.
Let r := G11 g1 X Y.
Let s := G12 g1 g2 X Y.
Let t := G22 g2 X Y.
Let u := GY0 g0 X Y.
Let v := GY1 g1 X Y.
Let w := GY2 g2 X Y.
Let res := CurveFitting_general_fitting (RopsC call) (cfobj (fl X) (fl Y) P Q Rr S T U V W N)
             (VFun i0 e0) (VFun i1 e1) (VFun i2 e2).

Ltac get_closed G :=
  pose proof (general_closed_forms call i0 i1 i2 e0 e1 e2 g0 g1 g2 H0 H1 H2 x xs y ys P Q Rr S T U V W N Hl) as G;
  cbv zeta in G; fold X Y in G; fold m p q r s t u v w in G; fold res in G.

Theorem general_least_squares3 :
  TOL <= Rabs t -> TOL <= Rabs (m * r * t) -> TOL <= Rabs (gen_det m p q r s t) ->
  exists a b c,
    res = VTuple [VFloat a; VFloat b; VFloat c]
    /\ sum2 (fun x y => (y - (a * g0 x + b * g1 x + c * g2 x)) * g0 x) X Y = 0
    /\ sum2 (fun x y => (y - (a * g0 x + b * g1 x + c * g2 x)) * g1 x) X Y = 0
    /\ sum2 (fun x y => (y - (a * g0 x + b * g1 x + c * g2 x)) * g2 x) X Y = 0.
Proof.
  intros Ht Hmrt Hd.
  get_closed G. destruct G as (C3 & _).
  exists (gen_a m p q r s t u v w), (gen_b m p q r s t u v w), (gen_c m p q r s t u v w).
  split; [exact (C3 Ht Hmrt Hd) |].
  destruct (gen_normal m p q r s t u v w (nonzero_of_guard _ Hd)) as (E1 & E2 & E3).
  rewrite !resid_gen.
  fold (GY0 g0 X Y) (GY1 g1 X Y) (GY2 g2 X Y) (G00 g0 X Y) (G11 g1 X Y) (G22 g2 X Y)
       (G01 g0 g1 X Y) (G02 g0 g2 X Y) (G12 g1 g2 X Y).
  rewrite (sum2_ext (fun x _ => g1 x * g0 x) (fun x _ => g0 x * g1 x)) by (intros; ring).
  rewrite (sum2_ext (fun x _ => g2 x * g0 x) (fun x _ => g0 x * g2 x)) by (intros; ring).
  rewrite (sum2_ext (fun x _ => g2 x * g1 x) (fun x _ => g1 x * g2 x)) by (intros; ring).
  fold (G01 g0 g1 X Y) (G02 g0 g2 X Y) (G12 g1 g2 X Y).
  fold m p q r s t u v w.
  repeat split; lra.
Qed.

Theorem general_least_squares2 :
  Rabs t < TOL -> TOL <= Rabs m -> TOL <= Rabs r -> TOL <= Rabs (gen_det2 m p r) ->
  exists a b,
    res = VTuple [VFloat a; VFloat b; VFloat zero_lit]
    /\ a * m + b * p = u /\ a * p + b * r = v.
Proof.
  intros Ht Hm Hr Hd.
  get_closed G. destruct G as (_ & C2 & _).
  exists ((u * r - v * p) / gen_det2 m p r), ((v * m - u * p) / gen_det2 m p r).
  split; [exact (C2 Ht Hm Hr Hd) |].
  pose proof (nonzero_of_guard _ Hd) as Hnz. unfold gen_det2 in *.
  split; field; exact Hnz.
Qed.

Theorem general_least_squares1 :
  Rabs r < TOL -> Rabs t < TOL -> TOL <= Rabs m ->
  exists a, res = VTuple [VFloat a; VFloat zero_lit; VFloat zero_lit] /\ a * m = u.
Proof.
  intros Hr Ht Hm.
  get_closed G. destruct G as (_ & _ & C1 & _).
  exists (u / m). split; [exact (C1 Hr Ht Hm) |].
  field. exact (nonzero_of_guard _ Hm).
Qed.

Theorem general_refused :
  (Rabs t < TOL -> TOL <= Rabs m -> TOL <= Rabs r -> Rabs (gen_det2 m p r) < TOL -> res = VErr ZeroDivisionError)
  /\ (TOL <= Rabs t -> Rabs (m * r * t) < TOL -> res = VErr ZeroDivisionError)
  /\ (TOL <= Rabs t -> TOL <= Rabs (m * r * t) -> Rabs (gen_det m p q r s t) < TOL -> res = VErr ZeroDivisionError).
Proof. get_closed G. destruct G as (_ & _ & _ & R1 & R2 & R3). exact (conj R1 (conj R2 R3)). Qed.

End GeneralData.

(* ------------------------------ general(x^2, x, 1) = quadratic ; general(x, 1, 0) = linear *)
Lemma one_le_nR x (xs : list R) : 1 <= nR (x :: xs).
Proof. unfold nR. cbn [length]. rewrite S_INR. pose proof (pos_INR (length xs)). lra. Qed.

Lemma TOL_le_1 : TOL <= 1.
Proof. unfold TOL. Rlit_norm. lra. Qed.

Theorem general_eq_quadratic call i0 i1 i2 e0 e1 e2
  (H0 : forall x, call (VFun i0 e0) [VFloat x] = VFloat (x * x))
  (H1 : forall x, call (VFun i1 e1) [VFloat x] = VFloat x)
  (H2 : forall x, call (VFun i2 e2) [VFloat x] = VFloat 1)
  x xs y ys : length xs = length ys ->
  let X := x :: xs in let Y := y :: ys in
  TOL <= Rabs (quad_det (nR X) (Sx X) (Sx2 X) (Sx3 X) (Sx4 X)) ->
  TOL <= Rabs (Sx4 X * Sx2 X * nR X) ->
  exists a b c,
    CurveFitting_quadratic_fitting Rops (cf_of X Y) = VTuple [VFloat a; VFloat b; VFloat c]
    /\ CurveFitting_general_fitting (RopsC call) (cf_of X Y) (VFun i0 e0) (VFun i1 e1) (VFun i2 e2)
       = VTuple [VFloat a; VFloat b; VFloat c].
Proof.
  intros Hl X Y Hd Hmrt.
  assert (HL : length X = length Y) by (unfold X, Y; simpl; lia).
  pose proof (general_closed_forms call i0 i1 i2 e0 e1 e2 (fun x => x * x) (fun x => x) (fun _ => 1)
                H0 H1 H2 x xs y ys (Sx X) (Sx2 X) (Sx3 X) (Sx4 X) (Sx Y) (Sxy X Y) (Sx2y X Y) (Sy2 Y)
                (Z.of_nat (length X)) Hl) as G.
  cbv zeta in G. fold X Y in G. destruct G as (G3 & _).
  assert (Em : G00 (fun x => x * x) X Y = Sx4 X) by (unfold G00; apply (sum2_fst (fun x => x * x * (x * x))); exact HL).
  assert (Ep : G01 (fun x => x * x) (fun x => x) X Y = Sx3 X) by (unfold G01; apply (sum2_fst (fun x => x * x * x)); exact HL).
  assert (Eq : G02 (fun x => x * x) (fun _ => 1) X Y = Sx2 X).
  { unfold G02. rewrite (sum2_ext _ (fun x _ => x * x)) by (intros; ring). apply (sum2_fst (fun x => x * x)); exact HL. }
  assert (Er : G11 (fun x => x) X Y = Sx2 X) by (unfold G11; apply (sum2_fst (fun x => x * x)); exact HL).
  assert (Es : G12 (fun x => x) (fun _ => 1) X Y = Sx X).
  { unfold G12. rewrite (sum2_ext _ (fun x _ => x)) by (intros; ring). rewrite (sum2_fst (fun x => x)) by exact HL. apply sum1_id. }
  assert (Et : G22 (fun _ => 1) X Y = nR X).
  { unfold G22. rewrite (sum2_ext _ (fun _ _ => 1)) by (intros; ring). rewrite (sum2_fst (fun _ => 1)) by exact HL.
    rewrite sum1_const. unfold nR. ring. }
  assert (Eu : GY0 (fun x => x * x) X Y = Sx2y X Y) by (unfold GY0, Sx2y; apply sum2_ext; intros; ring).
  assert (Ev : GY1 (fun x => x) X Y = Sxy X Y) by (unfold GY1, Sxy; apply sum2_ext; intros; ring).
  assert (Ew : GY2 (fun _ => 1) X Y = Sx Y).
  { unfold GY2. rewrite (sum2_ext _ (fun _ y => y)) by (intros; ring). rewrite (sum2_snd (fun y => y)) by exact HL. apply sum1_id. }
  rewrite Em, Ep, Eq, Er, Es, Et, Eu, Ev, Ew in G3.
  assert (Edet : gen_det (Sx4 X) (Sx3 X) (Sx2 X) (Sx2 X) (Sx X) (nR X)
                 = quad_det (nR X) (Sx X) (Sx2 X) (Sx3 X) (Sx4 X)) by (unfold gen_det, quad_det; ring).
  assert (Hn : TOL <= Rabs (nR X)).
  { pose proof (one_le_nR x xs). pose proof TOL_le_1. fold X in H. rewrite Rabs_right by lra. lra. }
  rewrite <- Edet in Hd. specialize (G3 Hn Hmrt Hd).
  pose proof (nonzero_of_guard _ Hd) as Hnz.
  do 3 eexists. split.
  - unfold cf_of. apply quadratic_value. rewrite IZR_len. fold (nR X). rewrite <- Edet. exact Hd.
  - unfold cf_of. rewrite G3. rewrite IZR_len. fold (nR X).
    unfold quad_a, quad_b, quad_c, gen_a, gen_b, gen_c. rewrite <- Edet.
    f_equal. f_equal; [| f_equal; [| f_equal]]; f_equal; unfold Rdiv; f_equal; ring.
Qed.

Theorem general_eq_linear call i0 i1 i2 e0 e1 e2
  (H0 : forall x, call (VFun i0 e0) [VFloat x] = VFloat x)
  (H1 : forall x, call (VFun i1 e1) [VFloat x] = VFloat 1)
  (H2 : forall x, call (VFun i2 e2) [VFloat x] = VFloat 0)
  x xs y ys : length xs = length ys ->
  let X := x :: xs in let Y := y :: ys in
  TOL <= Rabs (lin_det (nR X) (Sx X) (Sx2 X)) ->
  TOL <= Sx2 X ->
  exists a b,
    CurveFitting_linear_fitting Rops (cf_of X Y) = VTuple [VFloat a; VFloat b]
    /\ CurveFitting_general_fitting (RopsC call) (cf_of X Y) (VFun i0 e0) (VFun i1 e1) (VFun i2 e2)
       = VTuple [VFloat a; VFloat b; VFloat zero_lit].
Proof.
  intros Hl X Y Hd Hm.
  assert (HL : length X = length Y) by (unfold X, Y; simpl; lia).
  pose proof (general_closed_forms call i0 i1 i2 e0 e1 e2 (fun x => x) (fun _ => 1) (fun _ => 0)
                H0 H1 H2 x xs y ys (Sx X) (Sx2 X) (Sx3 X) (Sx4 X) (Sx Y) (Sxy X Y) (Sx2y X Y) (Sy2 Y)
                (Z.of_nat (length X)) Hl) as G.
  cbv zeta in G. fold X Y in G. destruct G as (_ & G2 & _).
  assert (Em : G00 (fun x => x) X Y = Sx2 X) by (unfold G00; apply (sum2_fst (fun x => x * x)); exact HL).
  assert (Ep : G01 (fun x => x) (fun _ => 1) X Y = Sx X).
  { unfold G01. rewrite (sum2_ext _ (fun x _ => x)) by (intros; ring). rewrite (sum2_fst (fun x => x)) by exact HL. apply sum1_id. }
  assert (Er : G11 (fun _ => 1) X Y = nR X).
  { unfold G11. rewrite (sum2_ext _ (fun _ _ => 1)) by (intros; ring). rewrite (sum2_fst (fun _ => 1)) by exact HL.
    rewrite sum1_const. unfold nR. ring. }
  assert (Et : G22 (fun _ => 0) X Y = 0).
  { unfold G22. rewrite (sum2_ext _ (fun _ _ => 0)) by (intros; ring). rewrite (sum2_fst (fun _ => 0)) by exact HL.
    rewrite sum1_const. ring. }
  assert (Eu : GY0 (fun x => x) X Y = Sxy X Y) by (unfold GY0, Sxy; apply sum2_ext; intros; ring).
  assert (Ev : GY1 (fun _ => 1) X Y = Sx Y).
  { unfold GY1. rewrite (sum2_ext _ (fun _ y => y)) by (intros; ring). rewrite (sum2_snd (fun y => y)) by exact HL. apply sum1_id. }
  rewrite Em, Ep, Er, Et, Eu, Ev in G2.
  assert (Edet : gen_det2 (Sx2 X) (Sx X) (nR X) = lin_det (nR X) (Sx X) (Sx2 X)) by (unfold gen_det2, lin_det; ring).
  pose proof TOL_pos as Tp. pose proof TOL_le_1 as T1. pose proof (one_le_nR x xs) as Hn1. fold X in Hn1.
  assert (Ht0 : Rabs 0 < TOL) by (rewrite Rabs_R0; exact Tp).
  assert (Hm' : TOL <= Rabs (Sx2 X)) by (rewrite Rabs_right by lra; exact Hm).
  assert (Hr' : TOL <= Rabs (nR X)) by (rewrite Rabs_right by lra; lra).
  rewrite <- Edet in Hd. specialize (G2 Ht0 Hm' Hr' Hd).
  do 2 eexists. split.
  - unfold cf_of. apply linear_value. rewrite IZR_len. fold (nR X). rewrite <- Edet. exact Hd.
  - unfold cf_of. rewrite G2. rewrite IZR_len. fold (nR X). rewrite <- Edet.
    f_equal. f_equal; [| f_equal]; f_equal; unfold Rdiv; f_equal; ring.
Qed.
