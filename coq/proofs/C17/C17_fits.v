(* C17: linear_fitting and quadratic_fitting solve the normal equations whenever the generated
   guard lets a result through; otherwise ZeroDivisionError (ideal instance).  The two methods
   only read the stored sums, so the statements hold for every object, hence (with
   C17_sums.compute_parameters_sums) for data lists of any length. *)
From Coq Require Import Reals ZArith List Bool Lra Lia.
From PyLib Require Import PyVal PyBuiltins Ideal PyEval.
From Gen Require Import M_base M_Angle M_CurveFitting.
From Proofs.C17 Require Import C17_tac C17_sums.
Import ListNotations.
Open Scope R_scope.

Definition TOL : R := Rlit 1 (-10).

Definition lin_det (N P Q : R) := N * Q - P * P.

Lemma linear_ok xl yl P Q Rr S T U V W N :
  TOL <= Rabs (lin_det (IZR N) P Q) ->
  exists a b,
    CurveFitting_linear_fitting Rops (cfobj xl yl P Q Rr S T U V W N) = VTuple [VFloat a; VFloat b]
    /\ a * Q + b * P = U /\ a * P + b * IZR N = T.
Proof.
  intro Hd. unfold lin_det, TOL in Hd.
  assert (Hnz : IZR N * Q - P * P <> 0).
  { intro H0. rewrite H0, Rabs_R0 in Hd. Rlit_norm_in Hd. lra. }
  eexists. eexists. split.
  - unfold cfobj. pyrun2 ltac:(first [exact Hd | exact Hnz | pylra_fast]) no_idx ltac:(fun s => fail). reflexivity.
  - split; field; assumption.
Qed.

Lemma linear_refused xl yl P Q Rr S T U V W N :
  Rabs (lin_det (IZR N) P Q) < TOL ->
  CurveFitting_linear_fitting Rops (cfobj xl yl P Q Rr S T U V W N) = VErr ZeroDivisionError.
Proof.
  intro Hd. unfold lin_det, TOL in Hd. pose (Hnz := I).
  unfold cfobj. pyrun2 ltac:(first [exact Hd | exact Hnz | pylra_fast]) no_idx ltac:(fun s => fail). reflexivity.
Qed.

(* the determinant exactly as the code computes it (2.0 is the literal 20e-1) *)
Definition quad_det (N P Q Rr S : R) :=
  N * Q * S + Rlit 20 (-1) * P * Q * Rr - Q * Q * Q - P * P * S - N * Rr * Rr.

Lemma quad_det_eq N P Q Rr S :
  quad_det N P Q Rr S = N * Q * S + 2 * P * Q * Rr - Q * Q * Q - P * P * S - N * Rr * Rr.
Proof. unfold quad_det. Rlit_norm. field. Qed.

Lemma quadratic_ok xl yl P Q Rr S T U V W N :
  TOL <= Rabs (quad_det (IZR N) P Q Rr S) ->
  exists a b c,
    CurveFitting_quadratic_fitting Rops (cfobj xl yl P Q Rr S T U V W N)
      = VTuple [VFloat a; VFloat b; VFloat c]
    /\ a * S + b * Rr + c * Q = V
    /\ a * Rr + b * Q + c * P = U
    /\ a * Q + b * P + c * IZR N = T.
Proof.
  intro Hd.
  assert (Hnz : quad_det (IZR N) P Q Rr S <> 0).
  { intro H0. rewrite H0, Rabs_R0 in Hd. unfold TOL in Hd. Rlit_norm_in Hd. lra. }
  unfold quad_det, TOL in Hd. unfold quad_det in Hnz.
  eexists. eexists. eexists. split.
  - unfold cfobj. pyrun2 ltac:(first [exact Hd | exact Hnz | pylra_fast]) no_idx ltac:(fun s => fail). reflexivity.
  - Rlit_norm_in Hnz. Rlit_norm.
    repeat split; field; intro H0; apply Hnz; lra.
Qed.

Lemma quadratic_refused xl yl P Q Rr S T U V W N :
  Rabs (quad_det (IZR N) P Q Rr S) < TOL ->
  CurveFitting_quadratic_fitting Rops (cfobj xl yl P Q Rr S T U V W N) = VErr ZeroDivisionError.
Proof.
  intro Hd. unfold quad_det, TOL in Hd. pose (Hnz := I).
  unfold cfobj. pyrun2 ltac:(first [exact Hd | exact Hnz | pylra_fast]) no_idx ltac:(fun s => fail). reflexivity.
Qed.

(* explicit closed forms, as the code writes them *)
Lemma linear_value xl yl P Q Rr S T U V W N :
  TOL <= Rabs (lin_det (IZR N) P Q) ->
  CurveFitting_linear_fitting Rops (cfobj xl yl P Q Rr S T U V W N)
  = VTuple [VFloat ((IZR N * U - P * T) / lin_det (IZR N) P Q);
            VFloat ((T * Q - P * U) / lin_det (IZR N) P Q)].
Proof.
  intro Hd. unfold lin_det, TOL in *.
  assert (Hnz : IZR N * Q - P * P <> 0).
  { intro H0. rewrite H0, Rabs_R0 in Hd. Rlit_norm_in Hd. lra. }
  unfold cfobj. pyrun2 ltac:(first [exact Hd | exact Hnz | pylra_fast]) no_idx ltac:(fun s => fail). reflexivity.
Qed.

Definition quad_a N P Q Rr S T U V :=
  (N * Q * V + P * Rr * T + P * Q * U - Q * Q * T - P * P * V - N * Rr * U) / quad_det N P Q Rr S.
Definition quad_b N P Q Rr S T U V :=
  (N * S * U + P * Q * V + Q * Rr * T - Q * Q * U - P * S * T - N * Rr * V) / quad_det N P Q Rr S.
Definition quad_c N P Q Rr S T U V :=
  (Q * S * T + Q * Rr * U + P * Rr * V - Q * Q * V - P * S * U - Rr * Rr * T) / quad_det N P Q Rr S.

Lemma quadratic_value xl yl P Q Rr S T U V W N :
  TOL <= Rabs (quad_det (IZR N) P Q Rr S) ->
  CurveFitting_quadratic_fitting Rops (cfobj xl yl P Q Rr S T U V W N)
  = VTuple [VFloat (quad_a (IZR N) P Q Rr S T U V); VFloat (quad_b (IZR N) P Q Rr S T U V);
            VFloat (quad_c (IZR N) P Q Rr S T U V)].
Proof.
  intro Hd. unfold quad_a, quad_b, quad_c, quad_det, TOL in *.
  assert (Hnz : IZR N * Q * S + Rlit 20 (-1) * P * Q * Rr - Q * Q * Q - P * P * S - IZR N * Rr * Rr <> 0).
  { intro H0. rewrite H0, Rabs_R0 in Hd. Rlit_norm_in Hd. lra. }
  unfold cfobj. pyrun2 ltac:(first [exact Hd | exact Hnz | pylra_fast]) no_idx ltac:(fun s => fail). reflexivity.
Qed.
