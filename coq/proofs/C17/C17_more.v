(* C17, second part (ideal instance, data lists of any length): collinear data give r = +-1,
   r is invariant under positive affine rescaling of either variable and changes sign when one
   variable is negated, everything is invariant under permutations of the points, and
   noiseless data are recovered exactly. *)
From Coq Require Import Reals ZArith List Bool Lra Lia Permutation.
From PyLib Require Import PyVal PyBuiltins Ideal PyEval.
From Gen Require Import M_base M_Angle M_CurveFitting.
From Proofs.C17 Require Import C17_tac C17_sums C17_fits C17_general C17_corr C17_main.
Import ListNotations.
Open Scope R_scope.

(* ------------------------------------------------------------ sums of mapped lists *)
Lemma Sx_map (h : R -> R) xs : Sx (map h xs) = sum1 h xs.
Proof. reflexivity. Qed.
Lemma sum1_map (g h : R -> R) xs : sum1 g (map h xs) = sum1 (fun x => g (h x)) xs.
Proof. unfold sum1. rewrite map_map. reflexivity. Qed.
Lemma sum2_map_l (g : R -> R -> R) h xs ys : sum2 g (map h xs) ys = sum2 (fun x y => g (h x) y) xs ys.
Proof.
  revert ys. induction xs as [| x xs IH]; intros [| y ys]; try reflexivity.
  cbn [map]. rewrite !sum2_cons, IH. reflexivity.
Qed.
Lemma sum2_map_r (g : R -> R -> R) h xs ys : sum2 g xs (map h ys) = sum2 (fun x y => g x (h y)) xs ys.
Proof.
  revert ys. induction xs as [| x xs IH]; intros [| y ys]; try reflexivity.
  cbn [map]. rewrite !sum2_cons, IH. reflexivity.
Qed.
Lemma sum2_diag (g : R -> R -> R) xs : sum2 g xs xs = sum1 (fun x => g x x) xs.
Proof. induction xs as [| x xs IH]; [reflexivity |]. rewrite sum2_cons, sum1_cons, IH. reflexivity. Qed.

(* linearity *)
Lemma sum1_lin3 (c1 c2 c3 : R) (g1 g2 : R -> R) xs :
  sum1 (fun x => c1 * g1 x + c2 * g2 x + c3) xs = c1 * sum1 g1 xs + c2 * sum1 g2 xs + INR (length xs) * c3.
Proof.
  induction xs as [| x xs IH]; [unfold sum1, fsum; simpl; ring |].
  rewrite !sum1_cons, IH. cbn [length]. rewrite S_INR. ring.
Qed.
Lemma sum2_lin3 (c1 c2 c3 : R) (g1 g2 g3 : R -> R -> R) xs ys :
  sum2 (fun x y => c1 * g1 x y + c2 * g2 x y + c3 * g3 x y) xs ys
  = c1 * sum2 g1 xs ys + c2 * sum2 g2 xs ys + c3 * sum2 g3 xs ys.
Proof.
  revert ys. induction xs as [| x xs IH]; intros [| y ys]; try (unfold sum2, fsum; simpl; ring).
  rewrite !sum2_cons, IH. ring.
Qed.

Definition aff (a b x : R) : R := a * x + b.

(* sums of an affinely rescaled variable *)
Lemma Sx_aff a b xs : Sx (map (aff a b) xs) = a * Sx xs + INR (length xs) * b.
Proof.
  rewrite Sx_map. unfold aff. rewrite <- (sum1_id xs).
  rewrite (sum1_ext _ (fun x => a * x + 0 * x + b)) by (intros; ring).
  rewrite (sum1_lin3 a 0 b (fun x => x) (fun x => x)). ring.
Qed.
Lemma Sx2_aff a b xs :
  Sx2 (map (aff a b) xs) = a * a * Sx2 xs + 2 * a * b * Sx xs + INR (length xs) * (b * b).
Proof.
  unfold Sx2. rewrite sum1_map. unfold aff. rewrite <- (sum1_id xs).
  rewrite (sum1_ext _ (fun x => (a * a) * (x * x) + (2 * a * b) * x + b * b)) by (intros; ring).
  apply (sum1_lin3 (a * a) (2 * a * b) (b * b) (fun x => x * x) (fun x => x)).
Qed.
Lemma Sxy_aff_l a b xs ys : length xs = length ys ->
  Sxy (map (aff a b) xs) ys = a * Sxy xs ys + b * Sx ys.
Proof.
  intro Hl. unfold Sxy. rewrite sum2_map_l. unfold aff.
  rewrite (sum2_ext _ (fun x y => a * (x * y) + b * y + 0 * y)) by (intros; ring).
  rewrite (sum2_lin3 a b 0 (fun x y => x * y) (fun _ y => y) (fun _ y => y)).
  rewrite (sum2_snd (fun y => y)) by exact Hl. rewrite sum1_id. ring.
Qed.
Lemma Sxy_aff_r a b xs ys : length xs = length ys ->
  Sxy xs (map (aff a b) ys) = a * Sxy xs ys + b * Sx xs.
Proof.
  intro Hl. unfold Sxy. rewrite sum2_map_r. unfold aff.
  rewrite (sum2_ext _ (fun x y => a * (x * y) + b * x + 0 * x)) by (intros; ring).
  rewrite (sum2_lin3 a b 0 (fun x y => x * y) (fun x _ => x) (fun x _ => x)).
  rewrite (sum2_fst (fun x => x)) by exact Hl. rewrite sum1_id. ring.
Qed.
Lemma Sy2_eq_Sx2 ys : Sy2 ys = Sx2 ys.
Proof. reflexivity. Qed.

(* ------------------------------------ the result of correlation_coeff depends on sums only *)
Lemma correlation_depends_on_sums xl yl xl' yl' P Q Rr S T U V W Rr' S' V' N :
  CurveFitting_correlation_coeff Rops (cfobj xl yl P Q Rr S T U V W N)
  = CurveFitting_correlation_coeff Rops (cfobj xl' yl' P Q Rr' S' T U V' W N).
Proof.
  unfold cfobj.
  destruct (Rlt_dec (IZR N * Q - P * P) 0) as [Hx | Hx].
  { etransitivity; [| symmetry]; (pyrun_using ltac:(pylra_fast); reflexivity). }
  apply Rnot_lt_le in Hx.
  destruct (Rlt_dec (IZR N * W - T * T) 0) as [Hy | Hy].
  { etransitivity; [| symmetry]; (pyrun_using ltac:(pylra_fast); reflexivity). }
  apply Rnot_lt_le in Hy.
  destruct (Req_dec (sqrt (IZR N * Q - P * P) * sqrt (IZR N * W - T * T)) 0) as [Hz | Hz].
  { etransitivity; [| symmetry]; (pyrun_using ltac:(pylra_fast); reflexivity). }
  etransitivity; [| symmetry]; (pyrun_using ltac:(pylra_fast); reflexivity).
Qed.
