(* C17, second part (ideal instance, data lists of any length): collinear data give r = +-1,
   r is invariant under positive affine rescaling of either variable and changes sign when one
   variable is negated, everything is invariant under permutations of the points, and
   noiseless data are recovered exactly. *)
From Coq Require Import Reals ZArith List Bool Lra Lia Permutation.
From PyLib Require Import PyVal PyBuiltins Ideal PyEval.
From Gen Require Import M_base M_Angle M_CurveFitting.
From Proofs.C17 Require Import C17_tac C17_sums C17_fits C17_general C17_corr C17_main.
Import ListNotations.
Open Scope R_scope.

(* ------------------------------------------------------------ sums of mapped lists *)
Lemma Sx_map (h : R -> R) xs : Sx (map h xs) = sum1 h xs.
Proof. reflexivity. Qed.
Lemma sum1_map (g h : R -> R) xs : sum1 g (map h xs) = sum1 (fun x => g (h x)) xs.
Proof. unfold sum1. rewrite map_map. reflexivity. Qed.
Lemma sum2_map_l (g : R -> R -> R) h xs ys : sum2 g (map h xs) ys = sum2 (fun x y => g (h x) y) xs ys.
Proof.
  revert ys. induction xs as [| x xs IH]; intros [| y ys]; try reflexivity.
  cbn [map]. rewrite !sum2_cons, IH. reflexivity.
Qed.
Lemma sum2_map_r (g : R -> R -> R) h xs ys : sum2 g xs (map h ys) = sum2 (fun x y => g x (h y)) xs ys.
Proof.
  revert ys. induction xs as [| x xs IH]; intros [| y ys]; try reflexivity.
  cbn [map]. rewrite !sum2_cons, IH. reflexivity.
Qed.
Lemma sum2_diag (g : R -> R -> R) xs : sum2 g xs xs = sum1 (fun x => g x x) xs.
Proof. induction xs as [| x xs IH]; [reflexivity |]. rewrite sum2_cons, sum1_cons, IH. reflexivity. Qed.

(* linearity *)
Lemma sum1_lin3 (c1 c2 c3 : R) (g1 g2 : R -> R) xs :
  sum1 (fun x => c1 * g1 x + c2 * g2 x + c3) xs = c1 * sum1 g1 xs + c2 * sum1 g2 xs + INR (length xs) * c3.
Proof.
  induction xs as [| x xs IH]; [unfold sum1, fsum; simpl; ring |].
  rewrite !sum1_cons, IH. cbn [length]. rewrite S_INR. ring.
Qed.
Lemma sum2_lin3 (c1 c2 c3 : R) (g1 g2 g3 : R -> R -> R) xs ys :
  sum2 (fun x y => c1 * g1 x y + c2 * g2 x y + c3 * g3 x y) xs ys
  = c1 * sum2 g1 xs ys + c2 * sum2 g2 xs ys + c3 * sum2 g3 xs ys.
Proof.
  revert ys. induction xs as [| x xs IH]; intros [| y ys]; try (unfold sum2, fsum; simpl; ring).
  rewrite !sum2_cons, IH. ring.
Qed.

Definition aff (a b x : R) : R := a * x + b.

(* sums of an affinely rescaled variable *)
Lemma Sx_aff a b xs : Sx (map (aff a b) xs) = a * Sx xs + INR (length xs) * b.
Proof.
  rewrite Sx_map. unfold aff. rewrite <- (sum1_id xs).
  rewrite (sum1_ext _ (fun x => a * x + 0 * x + b)) by (intros; ring).
  rewrite (sum1_lin3 a 0 b (fun x => x) (fun x => x)). ring.
Qed.
Lemma Sx2_aff a b xs :
  Sx2 (map (aff a b) xs) = a * a * Sx2 xs + 2 * a * b * Sx xs + INR (length xs) * (b * b).
Proof.
  unfold Sx2. rewrite sum1_map. unfold aff. rewrite <- (sum1_id xs).
  rewrite (sum1_ext _ (fun x => (a * a) * (x * x) + (2 * a * b) * x + b * b)) by (intros; ring).
  apply (sum1_lin3 (a * a) (2 * a * b) (b * b) (fun x => x * x) (fun x => x)).
Qed.
Lemma Sxy_aff_l a b xs ys : length xs = length ys ->
  Sxy (map (aff a b) xs) ys = a * Sxy xs ys + b * Sx ys.
Proof.
  intro Hl. unfold Sxy. rewrite sum2_map_l. unfold aff.
  rewrite (sum2_ext _ (fun x y => a * (x * y) + b * y + 0 * y)) by (intros; ring).
  rewrite (sum2_lin3 a b 0 (fun x y => x * y) (fun _ y => y) (fun _ y => y)).
  rewrite (sum2_snd (fun y => y)) by exact Hl. rewrite sum1_id. ring.
Qed.
Lemma Sxy_aff_r a b xs ys : length xs = length ys ->
  Sxy xs (map (aff a b) ys) = a * Sxy xs ys + b * Sx xs.
Proof.
  intro Hl. unfold Sxy. rewrite sum2_map_r. unfold aff.
  rewrite (sum2_ext _ (fun x y => a * (x * y) + b * x + 0 * x)) by (intros; ring).
  rewrite (sum2_lin3 a b 0 (fun x y => x * y) (fun x _ => x) (fun x _ => x)).
  rewrite (sum2_fst (fun x => x)) by exact Hl. rewrite sum1_id. ring.
Qed.
Lemma Sy2_eq_Sx2 ys : Sy2 ys = Sx2 ys.
Proof. reflexivity. Qed.

(* ------------------------------------ the result of correlation_coeff depends on sums only *)
Ltac both_sides :=
  etransitivity; [ pyrun_using ltac:(pylra_fast); reflexivity
                 | symmetry; pyrun_using ltac:(pylra_fast); reflexivity ].

Lemma correlation_depends_on_sums xl yl xl' yl' P Q Rr S T U V W Rr' S' V' N :
  CurveFitting_correlation_coeff Rops (cfobj xl yl P Q Rr S T U V W N)
  = CurveFitting_correlation_coeff Rops (cfobj xl' yl' P Q Rr' S' T U V' W N).
Proof.
  unfold cfobj.
  destruct (Rlt_dec (IZR N * Q - P * P) 0) as [Hx | Hx].
  { both_sides. }
  apply Rnot_lt_le in Hx.
  destruct (Rlt_dec (IZR N * W - T * T) 0) as [Hy | Hy].
  { both_sides. }
  apply Rnot_lt_le in Hy.
  destruct (Req_dec (sqrt (IZR N * Q - P * P) * sqrt (IZR N * W - T * T)) 0) as [Hz | Hz].
  { both_sides. }
  (* a quotient is formed; it is then limited to [-1, 1] *)
  destruct (Rlt_dec ((IZR N * U - P * T) / (sqrt (IZR N * Q - P * P) * sqrt (IZR N * W - T * T))) 1) as [H1 | H1].
  - destruct (Rlt_dec (-1) ((IZR N * U - P * T) / (sqrt (IZR N * Q - P * P) * sqrt (IZR N * W - T * T)))) as [H2 | H2].
    + both_sides.
    + apply Rnot_lt_le in H2. both_sides.
  - apply Rnot_lt_le in H1. both_sides.
Qed.

(* -------------------------------------------------- correlation: rescaling, collinear data *)
Lemma sqrt_sq_scale a v : 0 <= v -> sqrt (a * a * v) = Rabs a * sqrt v.
Proof.
  intro Hv. rewrite sqrt_mult by (try exact Hv; nra).
  change (a * a) with (Rsqr a). rewrite sqrt_Rsqr_abs. reflexivity.
Qed.

Lemma corr_r_scale_x n P Q T U W a b : a <> 0 -> 0 < n * Q - P * P -> 0 < n * W - T * T ->
  corr_r n (a * P + n * b) (a * a * Q + 2 * a * b * P + n * (b * b)) T (a * U + b * T) W
  = a / Rabs a * corr_r n P Q T U W.
Proof.
  intros Ha Hx Hy. unfold corr_r.
  replace (n * (a * a * Q + 2 * a * b * P + n * (b * b)) - (a * P + n * b) * (a * P + n * b))
    with (a * a * (n * Q - P * P)) by ring.
  replace (n * (a * U + b * T) - (a * P + n * b) * T) with (a * (n * U - P * T)) by ring.
  rewrite sqrt_sq_scale by lra.
  assert (Rabs a <> 0) by (apply Rabs_no_R0; exact Ha).
  assert (sqrt (n * Q - P * P) <> 0) by (apply Rgt_not_eq, sqrt_lt_R0; exact Hx).
  assert (sqrt (n * W - T * T) <> 0) by (apply Rgt_not_eq, sqrt_lt_R0; exact Hy).
  field. repeat split; assumption.
Qed.

Lemma corr_r_scale_y n P Q T U W a b : a <> 0 -> 0 < n * Q - P * P -> 0 < n * W - T * T ->
  corr_r n P Q (a * T + n * b) (a * U + b * P) (a * a * W + 2 * a * b * T + n * (b * b))
  = a / Rabs a * corr_r n P Q T U W.
Proof.
  intros Ha Hx Hy. unfold corr_r.
  replace (n * (a * a * W + 2 * a * b * T + n * (b * b)) - (a * T + n * b) * (a * T + n * b))
    with (a * a * (n * W - T * T)) by ring.
  replace (n * (a * U + b * P) - P * (a * T + n * b)) with (a * (n * U - P * T)) by ring.
  rewrite sqrt_sq_scale by lra.
  assert (Rabs a <> 0) by (apply Rabs_no_R0; exact Ha).
  assert (sqrt (n * Q - P * P) <> 0) by (apply Rgt_not_eq, sqrt_lt_R0; exact Hx).
  assert (sqrt (n * W - T * T) <> 0) by (apply Rgt_not_eq, sqrt_lt_R0; exact Hy).
  field. repeat split; assumption.
Qed.

Definition r_of (xs ys : list R) : R :=
  corr_r (INR (length xs)) (Sx xs) (Sx2 xs) (Sx ys) (Sxy xs ys) (Sy2 ys).

Lemma correlation_value xs ys : length xs = length ys -> 0 < var_x xs -> 0 < var_y xs ys ->
  CurveFitting_correlation_coeff Rops (cf_of xs ys) = VFloat (r_of xs ys).
Proof.
  intros Hl Hx Hy. unfold cf_of, r_of. rewrite correlation_formula; rewrite ?IZR_len;
    [reflexivity | exact Hx | exact Hy | apply corr_bound; assumption].
Qed.

Lemma sgn_pos a : 0 < a -> a / Rabs a = 1.
Proof. intro H. rewrite Rabs_right by lra. field. lra. Qed.
Lemma sgn_neg a : a < 0 -> a / Rabs a = -1.
Proof. intro H. rewrite Rabs_left by lra. field. lra. Qed.

Lemma var_x_aff a b xs : var_x (map (aff a b) xs) = a * a * var_x xs.
Proof. unfold var_x. rewrite map_length, Sx_aff, Sx2_aff. ring. Qed.
Lemma var_y_aff a b xs ys : length xs = length ys ->
  var_y xs (map (aff a b) ys) = a * a * var_y xs ys.
Proof. intro Hl. unfold var_y. change Sy2 with Sx2. rewrite Sx_aff, Sx2_aff, <- Hl. ring. Qed.

Theorem correlation_rescale_x xs ys a b : length xs = length ys -> 0 < var_x xs -> 0 < var_y xs ys ->
  a <> 0 ->
  CurveFitting_correlation_coeff Rops (cf_of (map (aff a b) xs) ys) = VFloat (a / Rabs a * r_of xs ys).
Proof.
  intros Hl Hx Hy Ha.
  assert (Hl' : length (map (aff a b) xs) = length ys) by (rewrite map_length; exact Hl).
  rewrite correlation_value.
  2: exact Hl'.
  - unfold r_of. rewrite map_length, Sx_aff, Sx2_aff, (Sxy_aff_l a b xs ys Hl).
    f_equal. apply corr_r_scale_x; assumption.
  - rewrite var_x_aff. apply Rmult_lt_0_compat; [destruct (Rdichotomy _ _ Ha); nra | exact Hx].
  - unfold var_y in *. rewrite map_length. exact Hy.
Qed.

Theorem correlation_rescale_y xs ys a b : length xs = length ys -> 0 < var_x xs -> 0 < var_y xs ys ->
  a <> 0 ->
  CurveFitting_correlation_coeff Rops (cf_of xs (map (aff a b) ys)) = VFloat (a / Rabs a * r_of xs ys).
Proof.
  intros Hl Hx Hy Ha.
  assert (Ey := var_y_aff a b xs ys Hl).
  rewrite correlation_value.
  2: rewrite map_length; exact Hl.
  - unfold r_of. change Sy2 with Sx2. rewrite Sx_aff, Sx2_aff, (Sxy_aff_r a b xs ys Hl), <- Hl.
    f_equal. apply corr_r_scale_y; assumption.
  - exact Hx.
  - rewrite Ey. apply Rmult_lt_0_compat; [destruct (Rdichotomy _ _ Ha); nra | exact Hy].
Qed.

(* negation of x (the case a = -1, b = 0) *)
Lemma map_opp_aff xs : map Ropp xs = map (aff (-1) 0) xs.
Proof. apply map_ext. intro x. unfold aff. ring. Qed.

(* r of a variable against itself is 1; collinear data *)
Lemma r_of_self xs : 0 < var_x xs -> r_of xs xs = 1.
Proof.
  intro Hx. unfold r_of, corr_r. change Sy2 with Sx2.
  replace (Sxy xs xs) with (Sx2 xs) by (unfold Sxy; rewrite sum2_diag; reflexivity).
  fold (var_x xs). rewrite sqrt_sqrt by lra. field. lra.
Qed.

Theorem correlation_collinear xs al be : 0 < var_x xs -> al <> 0 ->
  CurveFitting_correlation_coeff Rops (cf_of xs (map (aff al be) xs)) = VFloat (al / Rabs al).
Proof.
  intros Hx Ha.
  assert (Hy : 0 < var_y xs xs) by exact Hx.
  rewrite (correlation_rescale_y xs xs al be eq_refl Hx Hy Ha), (r_of_self xs Hx).
  f_equal. ring.
Qed.

(* ------------------------------------------------- results depend on the stored sums only *)
Lemma linear_depends_on_sums xl yl xl' yl' P Q Rr S T U V W Rr' S' V' W' N :
  CurveFitting_linear_fitting Rops (cfobj xl yl P Q Rr S T U V W N)
  = CurveFitting_linear_fitting Rops (cfobj xl' yl' P Q Rr' S' T U V' W' N).
Proof.
  destruct (Rlt_le_dec (Rabs (lin_det (IZR N) P Q)) TOL) as [Hd | Hd].
  - rewrite !linear_refused by exact Hd. reflexivity.
  - rewrite !linear_value by exact Hd. reflexivity.
Qed.

Lemma quadratic_depends_on_sums xl yl xl' yl' P Q Rr S T U V W W' N :
  CurveFitting_quadratic_fitting Rops (cfobj xl yl P Q Rr S T U V W N)
  = CurveFitting_quadratic_fitting Rops (cfobj xl' yl' P Q Rr S T U V W' N).
Proof.
  destruct (Rlt_le_dec (Rabs (quad_det (IZR N) P Q Rr S)) TOL) as [Hd | Hd].
  - rewrite !quadratic_refused by exact Hd. reflexivity.
  - rewrite !quadratic_value by exact Hd. reflexivity.
Qed.

(* ------------------------------------------------------------- permutations of the points *)
Lemma fsum_perm (a b : list R) : Permutation a b -> fsum a = fsum b.
Proof.
  induction 1; unfold fsum in *; cbn [fold_right]; try lra; try reflexivity.
Qed.

Lemma combine_fst_snd (l : list (R * R)) : combine (map fst l) (map snd l) = l.
Proof. induction l as [| [x y] l IH]; [reflexivity |]. cbn [map combine fst snd]. rewrite IH. reflexivity. Qed.

Definition pxs (l : list (R * R)) : list R := map fst l.
Definition pys (l : list (R * R)) : list R := map snd l.

Lemma sum1_fst_perm g l l' : Permutation l l' -> sum1 g (pxs l) = sum1 g (pxs l').
Proof. intro Hp. unfold sum1, pxs. apply fsum_perm. do 2 apply Permutation_map. exact Hp. Qed.
Lemma sum1_snd_perm g l l' : Permutation l l' -> sum1 g (pys l) = sum1 g (pys l').
Proof. intro Hp. unfold sum1, pys. apply fsum_perm. do 2 apply Permutation_map. exact Hp. Qed.
Lemma sum2_perm g l l' : Permutation l l' -> sum2 g (pxs l) (pys l) = sum2 g (pxs l') (pys l').
Proof.
  intro Hp. unfold sum2, pxs, pys. rewrite !combine_fst_snd. apply fsum_perm, Permutation_map. exact Hp.
Qed.
Lemma pxs_pys_length l : length (pxs l) = length (pys l).
Proof. unfold pxs, pys. rewrite !map_length. reflexivity. Qed.

(* the stored object of a permuted data set has the same sums *)
Lemma sums_perm l l' : Permutation l l' ->
  Sx (pxs l') = Sx (pxs l) /\ Sx2 (pxs l') = Sx2 (pxs l) /\ Sx3 (pxs l') = Sx3 (pxs l)
  /\ Sx4 (pxs l') = Sx4 (pxs l) /\ Sx (pys l') = Sx (pys l) /\ Sxy (pxs l') (pys l') = Sxy (pxs l) (pys l)
  /\ Sx2y (pxs l') (pys l') = Sx2y (pxs l) (pys l) /\ Sy2 (pys l') = Sy2 (pys l)
  /\ length (pxs l') = length (pxs l).
Proof.
  intro Hp. rewrite <- !sum1_id. unfold Sx2, Sx3, Sx4, Sxy, Sx2y, Sy2.
  repeat split; symmetry;
    first [ apply sum1_fst_perm; exact Hp | apply sum1_snd_perm; exact Hp | apply sum2_perm; exact Hp | idtac ].
  unfold pxs. rewrite !map_length. apply Permutation_length. exact Hp.
Qed.

Theorem permutation_invariance l l' : Permutation l l' ->
  CurveFitting_linear_fitting Rops (cf_of (pxs l') (pys l')) = CurveFitting_linear_fitting Rops (cf_of (pxs l) (pys l))
  /\ CurveFitting_quadratic_fitting Rops (cf_of (pxs l') (pys l')) = CurveFitting_quadratic_fitting Rops (cf_of (pxs l) (pys l))
  /\ CurveFitting_correlation_coeff Rops (cf_of (pxs l') (pys l')) = CurveFitting_correlation_coeff Rops (cf_of (pxs l) (pys l)).
Proof.
  intro Hp. destruct (sums_perm l l' Hp) as (E1 & E2 & E3 & E4 & E5 & E6 & E7 & E8 & E9).
  unfold cf_of. rewrite E1, E2, E3, E4, E5, E6, E7, E8, E9.
  split; [apply linear_depends_on_sums |]. split; [apply quadratic_depends_on_sums | apply correlation_depends_on_sums].
Qed.

(* general fit, arbitrary basis functions: equal sums give equal results in every branch the
   closed forms cover (third function present, or null third function with the first present) *)
Definition covered (m r t : R) : Prop :=
  TOL <= Rabs t \/ (Rabs t < TOL /\ TOL <= Rabs m /\ TOL <= Rabs r) \/ (Rabs r < TOL /\ Rabs t < TOL /\ TOL <= Rabs m).

Section GeneralPerm.
Context (call : val R -> list (val R) -> val R).
Context (i0 i1 i2 : positive) (e0 e1 e2 : list (val R)) (g0 g1 g2 : R -> R).
Context (H0 : forall x, call (VFun i0 e0) [VFloat x] = VFloat (g0 x)).
Context (H1 : forall x, call (VFun i1 e1) [VFloat x] = VFloat (g1 x)).
Context (H2 : forall x, call (VFun i2 e2) [VFloat x] = VFloat (g2 x)).

Lemma general_same_sums x xs y ys x' xs' y' ys' P Q Rr S T U V W N P' Q' R' S' T' U' V' W' N' :
  length xs = length ys -> length xs' = length ys' ->
  let X := x :: xs in let Y := y :: ys in let X' := x' :: xs' in let Y' := y' :: ys' in
  G00 g0 X' Y' = G00 g0 X Y -> G01 g0 g1 X' Y' = G01 g0 g1 X Y -> G02 g0 g2 X' Y' = G02 g0 g2 X Y ->
  G11 g1 X' Y' = G11 g1 X Y -> G12 g1 g2 X' Y' = G12 g1 g2 X Y -> G22 g2 X' Y' = G22 g2 X Y ->
  GY0 g0 X' Y' = GY0 g0 X Y -> GY1 g1 X' Y' = GY1 g1 X Y -> GY2 g2 X' Y' = GY2 g2 X Y ->
  covered (G00 g0 X Y) (G11 g1 X Y) (G22 g2 X Y) ->
  CurveFitting_general_fitting (RopsC call) (cfobj (fl X') (fl Y') P' Q' R' S' T' U' V' W' N')
    (VFun i0 e0) (VFun i1 e1) (VFun i2 e2)
  = CurveFitting_general_fitting (RopsC call) (cfobj (fl X) (fl Y) P Q Rr S T U V W N)
    (VFun i0 e0) (VFun i1 e1) (VFun i2 e2).
Proof.
  intros Hl Hl' X Y X' Y' E1 E2 E3 E4 E5 E6 E7 E8 E9 Hc.
  pose proof (general_closed_forms call i0 i1 i2 e0 e1 e2 g0 g1 g2 H0 H1 H2 x xs y ys P Q Rr S T U V W N Hl) as G.
  pose proof (general_closed_forms call i0 i1 i2 e0 e1 e2 g0 g1 g2 H0 H1 H2 x' xs' y' ys' P' Q' R' S' T' U' V' W' N' Hl') as G'.
  cbv zeta in G, G'. fold X Y in G. fold X' Y' in G'.
  rewrite E1, E2, E3, E4, E5, E6, E7, E8, E9 in G'.
  destruct G as (C3 & C2 & C1 & R1 & R2 & R3). destruct G' as (C3' & C2' & C1' & R1' & R2' & R3').
  destruct Hc as [Ht | [(Ht & Hm & Hr) | (Hr & Ht & Hm)]].
  - destruct (Rlt_le_dec (Rabs (G00 g0 X Y * G11 g1 X Y * G22 g2 X Y)) TOL) as [Hmrt | Hmrt].
    + rewrite (R2 Ht Hmrt), (R2' Ht Hmrt). reflexivity.
    + destruct (Rlt_le_dec (Rabs (gen_det (G00 g0 X Y) (G01 g0 g1 X Y) (G02 g0 g2 X Y) (G11 g1 X Y)
                                           (G12 g1 g2 X Y) (G22 g2 X Y))) TOL) as [Hd | Hd].
      * rewrite (R3 Ht Hmrt Hd), (R3' Ht Hmrt Hd). reflexivity.
      * rewrite (C3 Ht Hmrt Hd), (C3' Ht Hmrt Hd). reflexivity.
  - destruct (Rlt_le_dec (Rabs (gen_det2 (G00 g0 X Y) (G01 g0 g1 X Y) (G11 g1 X Y))) TOL) as [Hd | Hd].
    + rewrite (R1 Ht Hm Hr Hd), (R1' Ht Hm Hr Hd). reflexivity.
    + rewrite (C2 Ht Hm Hr Hd), (C2' Ht Hm Hr Hd). reflexivity.
  - rewrite (C1 Hr Ht Hm), (C1' Hr Ht Hm). reflexivity.
Qed.

Theorem general_permutation_invariance p l l' P Q Rr S T U V W N P' Q' R' S' T' U' V' W' N' :
  Permutation (p :: l) l' ->
  covered (G00 g0 (pxs (p :: l)) (pys (p :: l))) (G11 g1 (pxs (p :: l)) (pys (p :: l)))
          (G22 g2 (pxs (p :: l)) (pys (p :: l))) ->
  CurveFitting_general_fitting (RopsC call) (cfobj (fl (pxs l')) (fl (pys l')) P' Q' R' S' T' U' V' W' N')
    (VFun i0 e0) (VFun i1 e1) (VFun i2 e2)
  = CurveFitting_general_fitting (RopsC call) (cfobj (fl (pxs (p :: l))) (fl (pys (p :: l))) P Q Rr S T U V W N)
    (VFun i0 e0) (VFun i1 e1) (VFun i2 e2).
Proof.
  intros Hp Hc. destruct l' as [| p' l'].
  { apply Permutation_sym, Permutation_nil in Hp. discriminate Hp. }
  destruct p as [x y], p' as [x' y'].
  apply (general_same_sums x (pxs l) y (pys l) x' (pxs l') y' (pys l')); try apply pxs_pys_length;
    try exact Hc; unfold G00, G01, G02, G11, G12, G22, GY0, GY1, GY2; symmetry;
    exact (sum2_perm _ _ _ Hp).
Qed.
End GeneralPerm.

(* --------------------------------------------------------- noiseless data are recovered *)
Lemma sum1_lin3f (c1 c2 c3 : R) (g1 g2 g3 : R -> R) xs :
  sum1 (fun x => c1 * g1 x + c2 * g2 x + c3 * g3 x) xs = c1 * sum1 g1 xs + c2 * sum1 g2 xs + c3 * sum1 g3 xs.
Proof.
  induction xs as [| x xs IH]; [unfold sum1, fsum; simpl; ring |]. rewrite !sum1_cons, IH. ring.
Qed.

Theorem linear_recovers xs a b :
  TOL <= Rabs (lin_det (nR xs) (Sx xs) (Sx2 xs)) ->
  CurveFitting_linear_fitting Rops (cf_of xs (map (aff a b) xs)) = VTuple [VFloat a; VFloat b].
Proof.
  intro Hd. pose proof (nonzero_of_guard _ Hd) as Hnz.
  unfold cf_of. rewrite linear_value by (rewrite IZR_len; exact Hd).
  rewrite IZR_len. fold (nR xs). rewrite Sx_aff, (Sxy_aff_r a b xs xs eq_refl).
  replace (Sxy xs xs) with (Sx2 xs) by (unfold Sxy; rewrite sum2_diag; reflexivity).
  fold (nR xs). unfold lin_det in *.
  f_equal. f_equal; [| f_equal]; f_equal; field; exact Hnz.
Qed.

Definition quadf (a b c x : R) : R := a * (x * x) + b * x + c.

Theorem quadratic_recovers xs a b c :
  TOL <= Rabs (quad_det (nR xs) (Sx xs) (Sx2 xs) (Sx3 xs) (Sx4 xs)) ->
  CurveFitting_quadratic_fitting Rops (cf_of xs (map (quadf a b c) xs))
  = VTuple [VFloat a; VFloat b; VFloat c].
Proof.
  intro Hd. pose proof (nonzero_of_guard _ Hd) as Hnz.
  unfold cf_of. rewrite quadratic_value by (rewrite IZR_len; exact Hd).
  rewrite IZR_len. fold (nR xs).
  assert (ET : Sx (map (quadf a b c) xs) = a * Sx2 xs + b * Sx xs + nR xs * c).
  { rewrite Sx_map. unfold quadf, Sx2, nR. rewrite <- (sum1_id xs). apply (sum1_lin3 a b c (fun x => x * x) (fun x => x)). }
  assert (EU : Sxy xs (map (quadf a b c) xs) = a * Sx3 xs + b * Sx2 xs + c * Sx xs).
  { unfold Sxy. rewrite sum2_map_r, sum2_diag. unfold quadf, Sx3, Sx2. rewrite <- (sum1_id xs).
    rewrite (sum1_ext _ (fun x => a * (x * x * x) + b * (x * x) + c * x)) by (intros; ring).
    apply sum1_lin3f. }
  assert (EV : Sx2y xs (map (quadf a b c) xs) = a * Sx4 xs + b * Sx3 xs + c * Sx2 xs).
  { unfold Sx2y. rewrite sum2_map_r, sum2_diag. unfold quadf, Sx4, Sx3, Sx2.
    rewrite (sum1_ext _ (fun x => a * (x * x * (x * x)) + b * (x * x * x) + c * (x * x))) by (intros; ring).
    apply sum1_lin3f. }
  rewrite ET, EU, EV. unfold quad_a, quad_b, quad_c.
  rewrite quad_det_eq in *.
  f_equal. f_equal; [| f_equal; [| f_equal]]; f_equal; field; exact Hnz.
Qed.

(* ------------------------------------------------------------ statements as used in C17.v *)
Lemma correlation_collinear_pm : forall xs al be, 0 < var_x xs ->
  (0 < al -> CurveFitting_correlation_coeff Rops (cf_of xs (map (aff al be) xs)) = VFloat 1)
  /\ (al < 0 -> CurveFitting_correlation_coeff Rops (cf_of xs (map (aff al be) xs)) = VFloat (-1)).
Proof.
  intros xs al be Hx. split; intro Ha.
  - rewrite correlation_collinear by (try exact Hx; lra). rewrite sgn_pos by exact Ha. reflexivity.
  - rewrite correlation_collinear by (try exact Hx; lra). rewrite sgn_neg by exact Ha. reflexivity.
Qed.

Lemma correlation_rescaling_all : forall xs ys a b, length xs = length ys ->
  0 < var_x xs -> 0 < var_y xs ys ->
  CurveFitting_correlation_coeff Rops (cf_of xs ys) = VFloat (r_of xs ys)
  /\ (0 < a -> CurveFitting_correlation_coeff Rops (cf_of (map (aff a b) xs) ys) = VFloat (r_of xs ys)
              /\ CurveFitting_correlation_coeff Rops (cf_of xs (map (aff a b) ys)) = VFloat (r_of xs ys))
  /\ (a < 0 -> CurveFitting_correlation_coeff Rops (cf_of (map (aff a b) xs) ys) = VFloat (- r_of xs ys)
              /\ CurveFitting_correlation_coeff Rops (cf_of xs (map (aff a b) ys)) = VFloat (- r_of xs ys))
  /\ CurveFitting_correlation_coeff Rops (cf_of (map Ropp xs) ys) = VFloat (- r_of xs ys).
Proof.
  intros xs ys a b Hl Hx Hy.
  split; [exact (correlation_value xs ys Hl Hx Hy) |].
  split; [| split].
  - intro Ha. rewrite correlation_rescale_x, correlation_rescale_y by (try assumption; lra).
    rewrite sgn_pos by exact Ha. rewrite Rmult_1_l. split; reflexivity.
  - intro Ha. rewrite correlation_rescale_x, correlation_rescale_y by (try assumption; lra).
    rewrite sgn_neg by exact Ha. split; f_equal; ring.
  - rewrite map_opp_aff, correlation_rescale_x by (try assumption; lra).
    rewrite sgn_neg by lra. f_equal. ring.
Qed.

Lemma general_permutation_invariance_cf :
  forall (call : val R -> list (val R) -> val R) i0 i1 i2 e0 e1 e2 (g0 g1 g2 : R -> R),
  (forall x, call (VFun i0 e0) [VFloat x] = VFloat (g0 x)) ->
  (forall x, call (VFun i1 e1) [VFloat x] = VFloat (g1 x)) ->
  (forall x, call (VFun i2 e2) [VFloat x] = VFloat (g2 x)) ->
  forall p l l', Permutation (p :: l) l' ->
  covered (G00 g0 (pxs (p :: l)) (pys (p :: l))) (G11 g1 (pxs (p :: l)) (pys (p :: l)))
          (G22 g2 (pxs (p :: l)) (pys (p :: l))) ->
  CurveFitting_general_fitting (RopsC call) (cf_of (pxs l') (pys l')) (VFun i0 e0) (VFun i1 e1) (VFun i2 e2)
  = CurveFitting_general_fitting (RopsC call) (cf_of (pxs (p :: l)) (pys (p :: l))) (VFun i0 e0) (VFun i1 e1) (VFun i2 e2).
Proof.
  intros call i0 i1 i2 e0 e1 e2 g0 g1 g2 H0 H1 H2 p l l' Hp Hc. unfold cf_of.
  exact (general_permutation_invariance call i0 i1 i2 e0 e1 e2 g0 g1 g2 H0 H1 H2 p l l' _ _ _ _ _ _ _ _ _ _ _ _ _ _ _ _ _ _ Hp Hc).
Qed.


(* ------------------------------------------- non-vacuity of the hypotheses about [call] *)
(* a concrete interpretation of function values in the ideal instance: the ids of the menu
   vlib/basis.py for null, one, x, x^2 (what B64.b64_basis_call does in binary64) *)
Definition menu_call (f : val R) (args : list (val R)) : val R :=
  match f, args with
  | VFun 1 _, [VFloat _] => VFloat 0
  | VFun 2 _, [VFloat _] => VFloat 1
  | VFun 3 _, [VFloat x] => VFloat x
  | VFun 4 _, [VFloat x] => VFloat (x * x)
  | _, _ => VErr Unsupported
  end.

Lemma menu_call_ok :
  (forall x, menu_call (VFun 4 []) [VFloat x] = VFloat (x * x))
  /\ (forall x, menu_call (VFun 3 []) [VFloat x] = VFloat x)
  /\ (forall x, menu_call (VFun 2 []) [VFloat x] = VFloat 1)
  /\ (forall x, menu_call (VFun 1 []) [VFloat x] = VFloat 0).
Proof. repeat split; intro x; reflexivity. Qed.

(* the two comparison theorems instantiated with it: no hypothesis about [call] is left *)
Theorem menu_general_eq_quadratic x xs y ys : length xs = length ys ->
  let X := x :: xs in let Y := y :: ys in
  TOL <= Rabs (quad_det (nR X) (Sx X) (Sx2 X) (Sx3 X) (Sx4 X)) ->
  TOL <= Rabs (Sx4 X * Sx2 X * nR X) ->
  exists a b c,
    CurveFitting_quadratic_fitting Rops (cf_of X Y) = VTuple [VFloat a; VFloat b; VFloat c]
    /\ CurveFitting_general_fitting (RopsC menu_call) (cf_of X Y) (VFun 4 []) (VFun 3 []) (VFun 2 [])
       = VTuple [VFloat a; VFloat b; VFloat c].
Proof.
  destruct menu_call_ok as (M4 & M3 & M2 & M1).
  exact (general_eq_quadratic menu_call 4 3 2 [] [] [] M4 M3 M2 x xs y ys).
Qed.

Theorem menu_general_eq_linear x xs y ys : length xs = length ys ->
  let X := x :: xs in let Y := y :: ys in
  TOL <= Rabs (lin_det (nR X) (Sx X) (Sx2 X)) -> TOL <= Sx2 X ->
  exists a b,
    CurveFitting_linear_fitting Rops (cf_of X Y) = VTuple [VFloat a; VFloat b]
    /\ CurveFitting_general_fitting (RopsC menu_call) (cf_of X Y) (VFun 3 []) (VFun 2 []) (VFun 1 [])
       = VTuple [VFloat a; VFloat b; VFloat zero_lit].
Proof.
  destruct menu_call_ok as (M4 & M3 & M2 & M1).
  exact (general_eq_linear menu_call 3 2 1 [] [] [] M3 M2 M1 x xs y ys).
Qed.

(* and a concrete data set on which the guard hypothesis holds: (0,1), (1,3), (2,5) on y = 2x + 1 *)
Example guard_satisfiable : TOL <= Rabs (lin_det (nR [0; 1; 2]) (Sx [0; 1; 2]) (Sx2 [0; 1; 2])).
Proof.
  unfold lin_det, nR, Sx, Sx2, sum1, fsum, TOL. simpl. Rlit_norm.
  rewrite Rabs_right; lra.
Qed.
Example linear_concrete :
  CurveFitting_linear_fitting Rops (cf_of [0; 1; 2] (map (aff 2 1) [0; 1; 2])) = VTuple [VFloat 2; VFloat 1].
Proof. exact (linear_recovers [0; 1; 2] 2 1 guard_satisfiable). Qed.
