(* C17 tactics: pyrun extended to data lists of unknown length.
   - a list that is a variable / [map VFloat xs] / [atom ++ l] counts as evaluated;
   - [py_getitem] is never unfolded by the weak-head normaliser: an index into a symbolic
     list is rewritten with a lemma supplied by the caller (hook), a concrete one is unfolded;
   - a hook tactic gets every other stuck head term (calls of basis functions). *)
From Coq Require Import Reals ZArith List Bool Lra Lia.
From PyLib Require Import PyVal PyBuiltins Ideal PyEval.
From Proofs.C17 Require C17_whnf.
Import ListNotations.
Open Scope R_scope.

(* a list of floats as a Python list body; never unfolded by the evaluator *)
Definition fl (xs : list R) : list (val R) := map VFloat xs.
(* the indices k, k+1, ..., k+m-1 (what range() yields); never unfolded by the evaluator *)
Definition idxs (k m : nat) : list (val R) := zrange_nat (Z.of_nat k) m.

From Ltac2 Require Ltac2.
Ltac2 Set C17_whnf.is_blocked := fun c =>
  Ltac2.List.exist (Ltac2.Constr.equal c)
    ['@bind; 'Rltb; 'Rleb; 'Reqb; 'Rfloor; 'Rtrunc; 'Rround; 'is_int; 'Rfmod; 'Rround_nd;
     'Rlit; 'atan2; 'Rpow; 'pow10; 'Rabs; 'sqrt; 'sin; 'cos; 'tan; 'asin; 'acos; 'atan;
     'exp; 'ln; 'Rpower; 'powerRZ; 'IZR; 'PI; '@py_getitem; '@math_fsum; 'fl; 'idxs; '@enum_from].

Definition py_getitem_body := Eval unfold py_getitem in @py_getitem.
Lemma py_getitem_unfold {F} (O : FloatOps F) v i : py_getitem O v i = py_getitem_body F O v i.
Proof. reflexivity. Qed.

Ltac is_atom_list l :=
  first [ is_var l
        | lazymatch l with
          | fl _ => idtac
          | idxs _ _ => idtac
          | enum_from _ (fl _) => idtac
          | app ?a _ => is_atom_list a
          end ].

Ltac is_canon2 v :=
  lazymatch v with
  | VNone => idtac | VBool _ => idtac | VInt _ => idtac | VFloat _ => idtac
  | VStr _ => idtac | VErr _ => idtac | VFun _ _ => idtac | VDict _ => idtac
  | VTuple ?l => canon_list2 l | VList ?l => canon_list2 l | VObj _ ?l => canon_list2 l
  | _ => is_var v      (* an arbitrary value: only ever stored, never inspected *)
  end
with canon_list2 l :=
  lazymatch l with
  | nil => idtac
  | cons ?x ?r => is_canon2 x; canon_list2 r
  | _ => is_atom_list l
  end.

Ltac first_noncanon2 l k :=
  lazymatch l with
  | cons ?x ?r => tryif is_canon2 x then first_noncanon2 r k else k x
  end.

Ltac py_canon_refl2 :=
  lazymatch goal with |- ?l = _ => is_canon2 l end; reflexivity.

(* bottom-up evaluation of closed arithmetic: an application of a generated operator wrapper
   (or any binary function into values) to two numeric VALUES is replaced by its value.  The
   weak-head strategy alone re-normalises the whole nested expression at every step. *)
Ltac arith_eval t :=
  let H := fresh "Hev" in
  eassert (H : t = _) by (C17_whnf.whnf_lhsL; expose_R; py_canon_refl2);
  rewrite H; clear H.
Ltac arith_step :=
  match goal with
  | |- context [?g (VFloat ?a) (VFloat ?b)] => arith_eval (g (VFloat a) (VFloat b))
  | |- context [?g (VInt ?a) (VFloat ?b)] => arith_eval (g (VInt a) (VFloat b))
  | |- context [?g (VFloat ?a) (VInt ?b)] => arith_eval (g (VFloat a) (VInt b))
  end.
Ltac inner_eval := repeat arith_step.

(* [pyrun2 tac idx hook]: tac decides real comparisons, idx rewrites
   [py_getitem O (canonical) (canonical)] on a symbolic list (may fail), hook handles any other
   stuck head term (may fail) *)
Ltac pyrun2 tac idx hook :=
  C17_whnf.whnf_lhsL;
  lazymatch goal with
  | |- ?l = _ =>
    tryif is_canon2 l then expose_R else
    first [
      lazymatch l with
      | bind ?e ?k =>
          tryif is_canon2 e then
            lazymatch e with
            | VErr _ => rewrite (bind_err _ k)
            | _ => rewrite (bind_ok e k) by reflexivity; cbv beta
            end
          else
            let H := fresh "Hev" in
            eassert (H : e = _) by (inner_eval; pyrun2 tac idx hook; py_canon_refl2);
            rewrite H; clear H
      | VTuple ?xs => first_noncanon2 xs ltac:(fun x =>
            let H := fresh "Hev" in
            eassert (H : x = _) by (inner_eval; pyrun2 tac idx hook; py_canon_refl2); rewrite H; clear H)
      | VList ?xs => first_noncanon2 xs ltac:(fun x =>
            let H := fresh "Hev" in
            eassert (H : x = _) by (inner_eval; pyrun2 tac idx hook; py_canon_refl2); rewrite H; clear H)
      | VObj _ ?xs => first_noncanon2 xs ltac:(fun x =>
            let H := fresh "Hev" in
            eassert (H : x = _) by (inner_eval; pyrun2 tac idx hook; py_canon_refl2); rewrite H; clear H)
      | _ =>
          C17_whnf.pose_stuckL;
          lazymatch goal with
          | py_stuck := ?s |- _ =>
              clear py_stuck;
              lazymatch s with
              | bind ?e ?k =>
                  let H := fresh "Hev" in
                  eassert (H : bind e k = _) by (inner_eval; pyrun2 tac idx hook; py_canon_refl2);
                  rewrite H; clear H
              | Rltb _ _ => py_decide_at s tac
              | Rleb _ _ => py_decide_at s tac
              | Reqb _ _ => py_decide_at s tac
              | py_getitem ?O ?a ?b =>
                  tryif is_canon2 a then
                    tryif is_canon2 b then
                      first [ idx | rewrite (py_getitem_unfold O a b); unfold py_getitem_body ]
                    else
                      (let H := fresh "Hev" in
                       eassert (H : b = _) by (inner_eval; pyrun2 tac idx hook; py_canon_refl2); rewrite H; clear H)
                  else
                    (let H := fresh "Hev" in
                     eassert (H : a = _) by (inner_eval; pyrun2 tac idx hook; py_canon_refl2); rewrite H; clear H)
              | _ => first [ hook s | idtac "pyrun2: stuck on" s; fail 1 ]
              end
          end
      end;
      pyrun2 tac idx hook
    | idtac ]
  end.


(* sums over index ranges: sumr f k m = f k + f (k+1) + ... + f (k+m-1) *)
Fixpoint sumr (f : nat -> R) (k m : nat) : R :=
  match m with O => 0 | S m' => f k + sumr f (S k) m' end.

Definition fsum (l : list R) : R := fold_right Rplus 0 l.

Lemma sumr_shift f k m : sumr f (S k) m = sumr (fun j => f (S j)) k m.
Proof. revert k. induction m; intros k; simpl; [reflexivity | rewrite IHm; reflexivity]. Qed.

Lemma sumr_nth (g : R -> R) (xs : list R) :
  sumr (fun j => g (nth j xs 0)) 0 (length xs) = fsum (map g xs).
Proof.
  induction xs as [| a xs IH]; simpl; [reflexivity |].
  rewrite sumr_shift. simpl. unfold fsum in IH. rewrite IH. reflexivity.
Qed.

Lemma sumr_nth2 (g : R -> R -> R) (xs ys : list R) : length xs = length ys ->
  sumr (fun j => g (nth j xs 0) (nth j ys 0)) 0 (length xs)
  = fsum (map (fun p => g (fst p) (snd p)) (combine xs ys)).
Proof.
  revert ys. induction xs as [| a xs IH]; intros [| b ys] Hl; simpl in *; try discriminate; [reflexivity |].
  rewrite sumr_shift. simpl. unfold fsum in IH. rewrite IH by lia. reflexivity.
Qed.

(* indexing a list of floats *)
Lemma getitem_floats (O : FloatOps R) (xs : list R) (k : nat) : (k < length xs)%nat ->
  py_getitem O (VList (fl xs)) (VInt (Z.of_nat k)) = VFloat (nth k xs 0).
Proof.
  intro Hk. unfold fl, py_getitem. cbn [norm]. unfold nth_val. cbv zeta. rewrite map_length.
  assert (H1 : (Z.of_nat k <? 0)%Z = false) by (apply Z.ltb_ge; lia).
  rewrite !H1.
  assert (H2 : (Z.of_nat (length xs) <=? Z.of_nat k)%Z = false) by (apply Z.leb_gt; lia).
  rewrite H2. cbn [orb]. rewrite Nat2Z.id.
  rewrite (nth_indep _ (VErr IndexError) (VFloat 0)) by (rewrite map_length; exact Hk).
  apply (map_nth (@VFloat R)).
Qed.

Lemma fl_length xs : length (fl xs) = length xs.
Proof. apply map_length. Qed.

Lemma idxs_0 k : idxs k 0 = [].
Proof. reflexivity. Qed.
Lemma idxs_S k m : idxs k (S m) = VInt (Z.of_nat k) :: idxs (S k) m.
Proof. unfold idxs. cbn [zrange_nat]. rewrite Nat2Z.inj_succ. unfold Z.succ. reflexivity. Qed.

Lemma range_idxs (O : FloatOps R) (n : nat) :
  py_range (VInt 0) (VInt (Z.of_nat n)) = VList (idxs 0 n).
Proof.
  unfold py_range, idxs. cbn [norm]. rewrite Z.sub_0_r, Nat2Z.id. reflexivity.
Qed.

(* math.fsum of a list of floats *)
Lemma fsum_go (O := Rops) (l : list R) (acc : list R) :
  (fix go (l : list (val R)) (acc : list R) {struct l} : val R :=
     match l with
     | [] => VFloat (f_fsum O (rev acc))
     | x :: r => match norm x with
                 | VInt z => go r (zf O z :: acc)
                 | VFloat f => go r (f :: acc)
                 | VErr e => VErr e
                 | _ => VErr TypeError
                 end
     end) (fl l) acc = VFloat (fsum (rev acc ++ l)).
Proof.
  revert acc. induction l as [| a l IH]; intros acc.
  - cbn [fl map]. rewrite app_nil_r. reflexivity.
  - cbn [fl map norm]. unfold fl in IH. rewrite IH. cbn [rev]. rewrite <- app_assoc. reflexivity.
Qed.

Lemma math_fsum_floats (l : list R) : math_fsum Rops (VList (fl l)) = VFloat (fsum l).
Proof.
  unfold math_fsum. cbn [py_iter]. rewrite bind_ok by reflexivity. cbn [seq_of].
  apply (fsum_go l []).
Qed.

Definition math_fsum_body := Eval unfold math_fsum in @math_fsum.
Lemma math_fsum_unfold {F} (O : FloatOps F) v : math_fsum O v = math_fsum_body F O v.
Proof. reflexivity. Qed.

Ltac no_idx := fail.
(* default hook: math.fsum of a float list (argument evaluated first by the caller's runner) *)
Ltac fsum_hook run s :=
  lazymatch s with
  | math_fsum ?O ?a =>
      tryif is_canon2 a then first [ rewrite math_fsum_floats | rewrite (math_fsum_unfold O a); unfold math_fsum_body ]
      else (let H := fresh "Hev" in eassert (H : a = _) by (run; py_canon_refl2); rewrite H; clear H)
  end.
Ltac idx_floats :=
  rewrite getitem_floats by (first [assumption | rewrite ?fl_length; cbn [length]; lia]); cbn [nth].
Ltac pyrunL := pyrun2 pylra idx_floats ltac:(fun s => fsum_hook ltac:(pyrunL) s).

(* concrete data (literal lists): same evaluator, cheap decisions *)
Ltac pyrunC := pyrun2 pylra_fast no_idx ltac:(fun s => fsum_hook ltac:(pyrunC) s).
