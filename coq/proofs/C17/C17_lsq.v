(* C17, third part (ideal instance, any length): the linear fit MINIMISES the sum of squared
   residuals (and is the only minimiser), and |r| = 1 holds only for collinear data. *)
From Coq Require Import Reals ZArith List Bool Lra Lia.
From PyLib Require Import PyVal PyBuiltins Ideal PyEval.
From Gen Require Import M_base M_Angle M_CurveFitting.
From Proofs.C17 Require Import C17_tac C17_sums C17_fits C17_corr C17_main C17_more.
Import ListNotations.
Open Scope R_scope.

(* sum of squared residuals of the line y = a x + b *)
Definition ssr (a b : R) (xs ys : list R) : R :=
  sum2 (fun x y => (y - (a * x + b)) * (y - (a * x + b))) xs ys.

Lemma ssr_decomp a b a' b' xs ys :
  ssr a' b' xs ys
  = ssr a b xs ys + sum2 (fun x _ => ((a - a') * x + (b - b')) * ((a - a') * x + (b - b'))) xs ys
    + 2 * ((a - a') * sum2 (fun x y => (y - (a * x + b)) * x) xs ys
           + (b - b') * sum2 (fun x y => y - (a * x + b)) xs ys).
Proof.
  unfold ssr. revert ys. induction xs as [| x xs IH]; intros [| y ys]; try (unfold sum2, fsum; simpl; ring).
  rewrite !sum2_cons, IH. ring.
Qed.

Lemma dev_sum a b xs ys : length xs = length ys ->
  sum2 (fun x _ => (a * x + b) * (a * x + b)) xs ys
  = a * a * Sx2 xs + 2 * a * b * Sx xs + nR xs * (b * b).
Proof.
  intro Hl. rewrite (sum2_fst (fun x => (a * x + b) * (a * x + b))) by exact Hl.
  rewrite (sum1_ext _ (fun x => (a * a) * (x * x) + (2 * a * b) * x + b * b)) by (intros; ring).
  rewrite (sum1_lin3 (a * a) (2 * a * b) (b * b) (fun x => x * x) (fun x => x)), sum1_id.
  unfold nR, Sx2. ring.
Qed.

Theorem linear_minimises xs ys : length xs = length ys ->
  TOL <= Rabs (lin_det (nR xs) (Sx xs) (Sx2 xs)) ->
  exists a b,
    CurveFitting_linear_fitting Rops (cf_of xs ys) = VTuple [VFloat a; VFloat b]
    /\ (forall a' b', ssr a b xs ys <= ssr a' b' xs ys)
    /\ (forall a' b', ssr a' b' xs ys = ssr a b xs ys -> a' = a /\ b' = b).
Proof.
  intros Hl Hd.
  destruct (linear_least_squares xs ys Hl Hd) as (a & b & Hv & _ & _ & O1 & O2).
  exists a, b. split; [exact Hv |].
  assert (D : forall a' b', ssr a' b' xs ys = ssr a b xs ys
              + sum2 (fun x _ => ((a - a') * x + (b - b')) * ((a - a') * x + (b - b'))) xs ys).
  { intros a' b'. rewrite (ssr_decomp a b a' b'), O1, O2. ring. }
  split.
  - intros a' b'. rewrite (D a' b').
    pose proof (sum2_sq_nonneg (fun x _ => (a - a') * x + (b - b')) xs ys) as Hp. cbv beta in Hp. lra.
  - intros a' b' E. rewrite (D a' b') in E.
    assert (Z : sum2 (fun x _ => ((a - a') * x + (b - b')) * ((a - a') * x + (b - b'))) xs ys = 0) by lra.
    rewrite dev_sum in Z by exact Hl.
    pose proof (nonzero_of_guard _ Hd) as Hnz. unfold lin_det in Hnz.
    set (da := a - a') in *. set (db := b - b') in *. set (n := nR xs) in *.
    (* n * Z = da^2 * det + (da * Sx + n * db)^2 *)
    assert (Hn : 0 <= n) by (unfold n, nR; apply pos_INR).
    assert (Hdet : 0 <= n * Sx2 xs - Sx xs * Sx xs).
    { destruct xs as [| x0 xs']; [unfold n, nR, Sx, Sx2, sum1, fsum; simpl; lra |].
      pose proof (var_x_nonneg (x0 :: xs') ys Hl ltac:(discriminate)) as H. unfold var_x in H. exact H. }
    assert (I : n * (da * da * Sx2 xs + 2 * da * db * Sx xs + n * (db * db))
                = da * da * (n * Sx2 xs - Sx xs * Sx xs) + (da * Sx xs + n * db) * (da * Sx xs + n * db)) by ring.
    rewrite Z, Rmult_0_r in I.
    assert (HD : 0 < n * Sx2 xs - Sx xs * Sx xs) by (destruct (Rtotal_order 0 (n * Sx2 xs - Sx xs * Sx xs)) as [H | [H | H]]; [exact H | exfalso; apply Hnz; lra | lra]).
    set (Dt := n * Sx2 xs - Sx xs * Sx xs) in *. set (Sq := da * Sx xs + n * db) in *.
    assert (P1 : 0 <= da * da * Dt) by (apply Rmult_le_pos; [nra | lra]).
    assert (P2 : 0 <= Sq * Sq) by nra.
    assert (Z1 : da * da * Dt = 0) by lra.
    assert (Z2 : Sq * Sq = 0) by lra.
    assert (Hda : da = 0).
    { apply Rmult_integral in Z1. destruct Z1 as [Z1 | Z1]; [| lra]. apply Rmult_integral in Z1. tauto. }
    assert (Hn0 : n <> 0). { intro E0. unfold Dt in HD. rewrite E0 in HD. nra. }
    assert (Hdb : db = 0).
    { apply Rmult_integral in Z2. assert (Sq = 0) by tauto. unfold Sq in H. rewrite Hda in H.
      assert (n * db = 0) by lra. apply Rmult_integral in H0. tauto. }
    unfold da, db in *. split; lra.
Qed.

(* ------------------------------------------------------------ |r| = 1 only for collinear data *)
Lemma sum2_sq_zero (h : R -> R -> R) xs ys : length xs = length ys ->
  sum2 (fun x y => h x y * h x y) xs ys = 0 -> Forall2 (fun x y => h x y = 0) xs ys.
Proof.
  revert ys. induction xs as [| x xs IH]; intros [| y ys] Hl Hz; try discriminate Hl; [constructor |].
  rewrite sum2_cons in Hz.
  pose proof (sum2_sq_nonneg h xs ys) as Hp.
  assert (h x y * h x y = 0) by nra.
  constructor.
  - apply Rmult_integral in H. tauto.
  - apply IH; [simpl in Hl; lia | nra].
Qed.

Lemma centred_identity (a b : R) xs ys : length xs = length ys -> 0 < INR (length xs) ->
  let c := - (a * Sx xs + b * Sx ys) / INR (length xs) in
  INR (length xs) * sum2 (fun x y => (a * x + b * y + c) * (a * x + b * y + c)) xs ys
  = a * a * var_x xs + 2 * a * b * cov_xy xs ys + b * b * var_y xs ys.
Proof.
  intros Hl Hn c. rewrite (quadform_sum a b c xs ys Hl).
  unfold var_x, cov_xy, var_y, c. field. lra.
Qed.

Theorem r_one_collinear xs ys : length xs = length ys -> 0 < var_x xs -> 0 < var_y xs ys ->
  Rabs (r_of xs ys) = 1 ->
  exists al be, al <> 0 /\ ys = map (aff al be) xs.
Proof.
  intros Hl Hx Hy Hr.
  assert (Hn : 0 < INR (length xs)).
  { destruct xs; [unfold var_x, Sx, Sx2, sum1, fsum in Hx; simpl in Hx; lra |]. cbn [length]. rewrite S_INR. pose proof (pos_INR (length xs)). lra. }
  set (vx := var_x xs) in *. set (vy := var_y xs ys) in *. set (cv := cov_xy xs ys).
  assert (Hsx : 0 < sqrt vx) by (apply sqrt_lt_R0; exact Hx).
  assert (Hsy : 0 < sqrt vy) by (apply sqrt_lt_R0; exact Hy).
  (* |cov| = sqrt vx * sqrt vy, hence cov^2 = vx * vy *)
  assert (Hc : cv * cv = vx * vy).
  { unfold r_of, corr_r in Hr. fold (var_x xs) (var_y xs ys) (cov_xy xs ys) in Hr. fold vx vy cv in Hr.
    unfold Rdiv in Hr. rewrite Rabs_mult, (Rabs_right (/ _)) in Hr
      by (left; apply Rinv_0_lt_compat, Rmult_lt_0_compat; assumption).
    assert (Ha : Rabs cv = sqrt vx * sqrt vy).
    { apply (Rmult_eq_reg_r (/ (sqrt vx * sqrt vy))); [| apply Rinv_neq_0_compat; nra].
      rewrite Hr. field. nra. }
    replace (cv * cv) with (Rabs cv * Rabs cv) by (unfold Rabs; destruct (Rcase_abs cv); ring).
    rewrite Ha.
    replace (sqrt vx * sqrt vy * (sqrt vx * sqrt vy)) with ((sqrt vx * sqrt vx) * (sqrt vy * sqrt vy)) by ring.
    rewrite !sqrt_sqrt by lra. reflexivity. }
  pose proof (centred_identity cv (- vx) xs ys Hl Hn) as I. cbv zeta in I. fold vx vy cv in I.
  set (c := - (cv * Sx xs + - vx * Sx ys) / INR (length xs)) in *.
  assert (Z : sum2 (fun x y => (cv * x + - vx * y + c) * (cv * x + - vx * y + c)) xs ys = 0).
  { assert (INR (length xs) * sum2 (fun x y => (cv * x + - vx * y + c) * (cv * x + - vx * y + c)) xs ys = 0).
    { rewrite I. replace (cv * cv * vx + 2 * cv * - vx * cv + - vx * - vx * vy) with (vx * (vx * vy - cv * cv)) by ring.
      rewrite Hc. ring. }
    apply Rmult_integral in H. destruct H; [lra | exact H]. }
  apply (sum2_sq_zero (fun x y => cv * x + - vx * y + c)) in Z; [| exact Hl].
  exists (cv / vx), (c / vx). split.
  - intro E. assert (cv = 0). { apply (Rmult_eq_reg_r (/ vx)); [| apply Rinv_neq_0_compat; lra]. unfold Rdiv in E. rewrite E. ring. }
    rewrite H in Hc. nra.
  - assert (Hvx : vx <> 0) by lra. clearbody vx cv c. clear - Z Hvx.
    induction Z as [| x y xs' ys' Hxy _ IH]; [reflexivity |].
    cbn [map]. f_equal; [| exact IH]. unfold aff. field_simplify_eq; [lra | exact Hvx].
Qed.

(* |r| = 1 exactly for collinear data *)
Theorem r_one_iff_collinear xs ys : length xs = length ys -> 0 < var_x xs -> 0 < var_y xs ys ->
  (Rabs (r_of xs ys) = 1 <-> exists al be, al <> 0 /\ ys = map (aff al be) xs).
Proof.
  intros Hl Hx Hy. split; [exact (r_one_collinear xs ys Hl Hx Hy) |].
  intros (al & be & Ha & ->).
  pose proof (correlation_collinear xs al be Hx Ha) as E1.
  rewrite (correlation_value xs (map (aff al be) xs) Hl Hx Hy) in E1.
  injection E1 as ->.
  destruct (Rdichotomy _ _ Ha) as [Hn | Hp].
  - rewrite sgn_neg by exact Hn. rewrite Rabs_left; lra.
  - rewrite sgn_pos by lra. rewrite Rabs_right; lra.
Qed.
