(* assumptions of C09_body_Saturn: the theorem in C09.v is [exact planet_full_Saturn] *)
From Proofs.C09 Require Import C09_planets.
Redirect "C09_body_Saturn.assumptions" Print Assumptions planet_full_Saturn.
