(* C09: statements.  Each theorem is only an [exact] of a lemma proved in the other files. *)
From Coq Require Import Reals ZArith List Lra.
From PyLib Require Import Ideal Sphere.
From PyLib Require Import PyVal PyBuiltins.
From Gen Require Import M_base M_Angle M_Epoch M_Minor.
From Proofs.C09 Require Import C09_spec C09_minor.
Import ListNotations.
Open Scope R_scope.

(* [spec] lambda = atan2(y,x), beta = atan2(z, sqrt(x^2+y^2)) are the direction of (x,y,z) *)
Theorem C09_final_stage_direction x y z : x <> 0 \/ y <> 0 ->
  let l := lam_of x y in let b := bet_of x y z in let d := norm3 x y z in
  x = d * (cos b * cos l) /\ y = d * (cos b * sin l) /\ z = d * sin b
  /\ - PI < l <= PI /\ - (PI / 2) < b < PI / 2 /\ 0 < d.
Proof. exact (final_stage_direction x y z). Qed.

(* [spec] the elongation formula yields an angle in [0,180] degrees *)
Theorem C09_elongation_range b l ls : 0 <= r2d (elong b l ls) <= 180.
Proof. exact (elongation_range_deg b l ls). Qed.

(* [spec] ... whose cosine is the scalar product of the body's direction and the Sun's (latitude 0) *)
Theorem C09_elongation_cos b l ls :
  cos (elong b l ls) = cos b * cos (l - ls) /\ cos (elong b l ls) = dot (uvec l b) (uvec ls 0).
Proof. split; [exact (elongation_cos b l ls) | exact (elongation_is_angle_to_sun b l ls)]. Qed.

(* [spec] aberration + FK5 + nutation displace the place by at most 0.02 degree *)
Theorem C09_corrections_small t ls pie l b lp bh dpsi :
  -40 <= t <= 40 -> Rabs b <= 25 * (PI / 180) -> Rabs bh <= 25 * (PI / 180) ->
  Rabs dpsi <= 1903 / 100 ->
  (Rabs (abl kab (ecc t) ls pie l b + fk5l lp bh + dpsi)
   + Rabs (abb kab (ecc t) ls pie l b + fk5b lp)) / 3600 <= 2 / 100.
Proof. exact (corrections_small t ls pie l b lp bh dpsi). Qed.

(* [ideal, generated code] Minor.set for e < 1 - tol: Gauss constants, a = |q/(1-e)|, n = 0.9856076686/(a sqrt a) *)
Theorem C09_minor_set q e inc om w tp : 0 < q -> e < 1 - tol0 ->
  Minor_set Rops blankM (VFloat q) (VFloat e) (ang inc) (ang om) (ang w) (ep tp)
  = VTuple [minor_obj q e inc om w tp (Rabs (q / (Rlit 10 (-1) - e))); VNone].
Proof. exact (minor_set_elliptic q e inc om w tp). Qed.

(* [ideal, generated code] Minor.set in the parabolic regime |e - 1| <= tol: a = q *)
Theorem C09_minor_set_parabolic q e inc om w tp : 0 < q -> Rabs (e - 1) <= tol0 ->
  Minor_set Rops blankM (VFloat q) (VFloat e) (ang inc) (ang om) (ang w) (ep tp)
  = VTuple [minor_obj q e inc om w tp q; VNone].
Proof. exact (minor_set_parabolic q e inc om w tp). Qed.

(* [spec] the Gauss constants stored by set() turn (r, u) into equatorial J2000 coordinates:
   x/r = a sin(A+u) etc. equal the rotation Rx(eps) of the ecliptic unit vector *)
Theorem C09_minor_gauss om inc u :
  let x := sqrt (gF om * gF om + gP om inc * gP om inc) * sin (atan2 (gF om) (gP om inc) + u) in
  let y := sqrt (gG om * gG om + gQ om inc * gQ om inc) * sin (atan2 (gG om) (gQ om inc) + u) in
  let z := sqrt (gH om * gH om + gR om inc * gR om inc) * sin (atan2 (gH om) (gR om inc) + u) in
  let xe := cos (d2 om) * cos u - sin (d2 om) * sin u * cos (d2 inc) in
  let ye := sin (d2 om) * cos u + cos (d2 om) * sin u * cos (d2 inc) in
  let ze := sin (d2 inc) * sin u in
  x = xe /\ y = ye * ce - ze * se /\ z = ye * se + ze * ce.
Proof. exact (gauss_xyz om inc u). Qed.

Redirect "C09_final_stage_direction.assumptions" Print Assumptions C09_final_stage_direction.
Redirect "C09_elongation_range.assumptions" Print Assumptions C09_elongation_range.
Redirect "C09_elongation_cos.assumptions" Print Assumptions C09_elongation_cos.
Redirect "C09_corrections_small.assumptions" Print Assumptions C09_corrections_small.
Redirect "C09_minor_set.assumptions" Print Assumptions C09_minor_set.
Redirect "C09_minor_set_parabolic.assumptions" Print Assumptions C09_minor_set_parabolic.
Redirect "C09_minor_gauss.assumptions" Print Assumptions C09_minor_gauss.
