(* C09: statements.  Each theorem is only an [exact] of a lemma proved in the other files. *)
From Coq Require Import Reals ZArith List Lra.
From PyLib Require Import Ideal Sphere.
From PyLib Require Import PyVal PyBuiltins.
From Gen Require Import M_base M_Angle M_Epoch M_Earth M_Minor.
From Gen Require Import M_Mercury M_Venus M_Mars M_Jupiter M_Saturn M_Uranus M_Neptune.
From Proofs.C09 Require Import C09_spec C09_minor C09_A_defs C09_geo.
From Proofs.C09 Require Import C09_lt_Mercury C09_lt_Venus C09_lt_Mars C09_lt_Jupiter C09_lt_Saturn C09_lt_Uranus C09_lt_Neptune.
Import ListNotations.
Open Scope R_scope.

(* [spec] lambda = atan2(y,x), beta = atan2(z, sqrt(x^2+y^2)) are the direction of (x,y,z) *)
Theorem C09_final_stage_direction x y z : x <> 0 \/ y <> 0 ->
  let l := lam_of x y in let b := bet_of x y z in let d := norm3 x y z in
  x = d * (cos b * cos l) /\ y = d * (cos b * sin l) /\ z = d * sin b
  /\ - PI < l <= PI /\ - (PI / 2) < b < PI / 2 /\ 0 < d.
Proof. exact (final_stage_direction x y z). Qed.

(* [spec] the elongation formula yields an angle in [0,180] degrees *)
Theorem C09_elongation_range b l ls : 0 <= r2d (elong b l ls) <= 180.
Proof. exact (elongation_range_deg b l ls). Qed.

(* [spec] ... whose cosine is the scalar product of the body's direction and the Sun's (latitude 0) *)
Theorem C09_elongation_cos b l ls :
  cos (elong b l ls) = cos b * cos (l - ls) /\ cos (elong b l ls) = dot (uvec l b) (uvec ls 0).
Proof. split; [exact (elongation_cos b l ls) | exact (elongation_is_angle_to_sun b l ls)]. Qed.

(* [spec] aberration + FK5 + nutation displace the place by at most 0.02 degree *)
Theorem C09_corrections_small t ls pie l b lp bh dpsi :
  -40 <= t <= 40 -> Rabs b <= 25 * (PI / 180) -> Rabs bh <= 25 * (PI / 180) ->
  Rabs dpsi <= 1903 / 100 ->
  (Rabs (abl kab (ecc t) ls pie l b + fk5l lp bh + dpsi)
   + Rabs (abb kab (ecc t) ls pie l b + fk5b lp)) / 3600 <= 2 / 100.
Proof. exact (corrections_small t ls pie l b lp bh dpsi). Qed.

(* [ideal, generated code] Minor.set for e < 1 - tol: Gauss constants, a = |q/(1-e)|, n = 0.9856076686/(a sqrt a) *)
Theorem C09_minor_set q e inc om w tp : 0 < q -> e < 1 - tol0 ->
  Minor_set Rops blankM (VFloat q) (VFloat e) (ang inc) (ang om) (ang w) (ep tp)
  = VTuple [minor_obj q e inc om w tp (Rabs (q / (Rlit 10 (-1) - e))); VNone].
Proof. exact (minor_set_elliptic q e inc om w tp). Qed.

(* [ideal, generated code] Minor.set in the parabolic regime |e - 1| <= tol: a = q *)
Theorem C09_minor_set_parabolic q e inc om w tp : 0 < q -> Rabs (e - 1) <= tol0 ->
  Minor_set Rops blankM (VFloat q) (VFloat e) (ang inc) (ang om) (ang w) (ep tp)
  = VTuple [minor_obj q e inc om w tp q; VNone].
Proof. exact (minor_set_parabolic q e inc om w tp). Qed.

(* [spec] the Gauss constants stored by set() turn (r, u) into equatorial J2000 coordinates:
   x/r = a sin(A+u) etc. equal the rotation Rx(eps) of the ecliptic unit vector *)
Theorem C09_minor_gauss om inc u :
  let x := sqrt (gF om * gF om + gP om inc * gP om inc) * sin (atan2 (gF om) (gP om inc) + u) in
  let y := sqrt (gG om * gG om + gQ om inc * gQ om inc) * sin (atan2 (gG om) (gQ om inc) + u) in
  let z := sqrt (gH om * gH om + gR om inc * gR om inc) * sin (atan2 (gH om) (gR om inc) + u) in
  let xe := cos (d2 om) * cos u - sin (d2 om) * sin u * cos (d2 inc) in
  let ye := sin (d2 om) * cos u + cos (d2 om) * sin u * cos (d2 inc) in
  let ze := sin (d2 inc) * sin u in
  x = xe /\ y = ye * ce - ze * se /\ z = ye * se + ze * ce.
Proof. exact (gauss_xyz om inc u). Qed.

(* [ideal, generated code, callees abstracted] light-time stage of <Planet>.geocentric_position:
   whatever the planet's and the Earth's geometric_heliocentric_position(epoch, tofk5=False) return
   (l,b,r) and (l0,b0,r0) at the CALLER's epoch j, the body next asks Epoch.__isub__ for
   (epoch j) - tau with tau = 0.0057755183 * |planet - Earth| (C09_geo.tau_of): if that call
   failed the body would fail.  The caller's Epoch value itself is what is passed on. *)
Theorem C09_light_time_Mercury (pl pb pr el eb er : R -> R) :
  (forall j, Mercury_geometric_heliocentric_position Rops (C09_geo.ep j) (VBool false) = VTuple [C09_A_defs.ang (pl j); C09_A_defs.ang (pb j); VFloat (pr j)]) ->
  (forall j, Earth_geometric_heliocentric_position Rops (C09_geo.ep j) (VBool false) = VTuple [C09_A_defs.ang (el j); C09_A_defs.ang (eb j); VFloat (er j)]) ->
  forall j, Epoch___isub__ Rops (C09_geo.ep j) (VFloat (tau_of (pl j) (pb j) (pr j) (el j) (eb j) (er j))) = VErr ValueError ->
  Mercury_geocentric_position Rops (C09_geo.ep j) = VErr ValueError.
Proof. exact (light_time_stage_Mercury pl pb pr el eb er). Qed.

Theorem C09_light_time_Venus (pl pb pr el eb er : R -> R) :
  (forall j, Venus_geometric_heliocentric_position Rops (C09_geo.ep j) (VBool false) = VTuple [C09_A_defs.ang (pl j); C09_A_defs.ang (pb j); VFloat (pr j)]) ->
  (forall j, Earth_geometric_heliocentric_position Rops (C09_geo.ep j) (VBool false) = VTuple [C09_A_defs.ang (el j); C09_A_defs.ang (eb j); VFloat (er j)]) ->
  forall j, Epoch___isub__ Rops (C09_geo.ep j) (VFloat (tau_of (pl j) (pb j) (pr j) (el j) (eb j) (er j))) = VErr ValueError ->
  Venus_geocentric_position Rops (C09_geo.ep j) = VErr ValueError.
Proof. exact (light_time_stage_Venus pl pb pr el eb er). Qed.

Theorem C09_light_time_Mars (pl pb pr el eb er : R -> R) :
  (forall j, Mars_geometric_heliocentric_position Rops (C09_geo.ep j) (VBool false) = VTuple [C09_A_defs.ang (pl j); C09_A_defs.ang (pb j); VFloat (pr j)]) ->
  (forall j, Earth_geometric_heliocentric_position Rops (C09_geo.ep j) (VBool false) = VTuple [C09_A_defs.ang (el j); C09_A_defs.ang (eb j); VFloat (er j)]) ->
  forall j, Epoch___isub__ Rops (C09_geo.ep j) (VFloat (tau_of (pl j) (pb j) (pr j) (el j) (eb j) (er j))) = VErr ValueError ->
  Mars_geocentric_position Rops (C09_geo.ep j) = VErr ValueError.
Proof. exact (light_time_stage_Mars pl pb pr el eb er). Qed.

Theorem C09_light_time_Jupiter (pl pb pr el eb er : R -> R) :
  (forall j, Jupiter_geometric_heliocentric_position Rops (C09_geo.ep j) (VBool false) = VTuple [C09_A_defs.ang (pl j); C09_A_defs.ang (pb j); VFloat (pr j)]) ->
  (forall j, Earth_geometric_heliocentric_position Rops (C09_geo.ep j) (VBool false) = VTuple [C09_A_defs.ang (el j); C09_A_defs.ang (eb j); VFloat (er j)]) ->
  forall j, Epoch___isub__ Rops (C09_geo.ep j) (VFloat (tau_of (pl j) (pb j) (pr j) (el j) (eb j) (er j))) = VErr ValueError ->
  Jupiter_geocentric_position Rops (C09_geo.ep j) = VErr ValueError.
Proof. exact (light_time_stage_Jupiter pl pb pr el eb er). Qed.

Theorem C09_light_time_Saturn (pl pb pr el eb er : R -> R) :
  (forall j, Saturn_geometric_heliocentric_position Rops (C09_geo.ep j) (VBool false) = VTuple [C09_A_defs.ang (pl j); C09_A_defs.ang (pb j); VFloat (pr j)]) ->
  (forall j, Earth_geometric_heliocentric_position Rops (C09_geo.ep j) (VBool false) = VTuple [C09_A_defs.ang (el j); C09_A_defs.ang (eb j); VFloat (er j)]) ->
  forall j, Epoch___isub__ Rops (C09_geo.ep j) (VFloat (tau_of (pl j) (pb j) (pr j) (el j) (eb j) (er j))) = VErr ValueError ->
  Saturn_geocentric_position Rops (C09_geo.ep j) = VErr ValueError.
Proof. exact (light_time_stage_Saturn pl pb pr el eb er). Qed.

Theorem C09_light_time_Uranus (pl pb pr el eb er : R -> R) :
  (forall j, Uranus_geometric_heliocentric_position Rops (C09_geo.ep j) (VBool false) = VTuple [C09_A_defs.ang (pl j); C09_A_defs.ang (pb j); VFloat (pr j)]) ->
  (forall j, Earth_geometric_heliocentric_position Rops (C09_geo.ep j) (VBool false) = VTuple [C09_A_defs.ang (el j); C09_A_defs.ang (eb j); VFloat (er j)]) ->
  forall j, Epoch___isub__ Rops (C09_geo.ep j) (VFloat (tau_of (pl j) (pb j) (pr j) (el j) (eb j) (er j))) = VErr ValueError ->
  Uranus_geocentric_position Rops (C09_geo.ep j) = VErr ValueError.
Proof. exact (light_time_stage_Uranus pl pb pr el eb er). Qed.

Theorem C09_light_time_Neptune (pl pb pr el eb er : R -> R) :
  (forall j, Neptune_geometric_heliocentric_position Rops (C09_geo.ep j) (VBool false) = VTuple [C09_A_defs.ang (pl j); C09_A_defs.ang (pb j); VFloat (pr j)]) ->
  (forall j, Earth_geometric_heliocentric_position Rops (C09_geo.ep j) (VBool false) = VTuple [C09_A_defs.ang (el j); C09_A_defs.ang (eb j); VFloat (er j)]) ->
  forall j, Epoch___isub__ Rops (C09_geo.ep j) (VFloat (tau_of (pl j) (pb j) (pr j) (el j) (eb j) (er j))) = VErr ValueError ->
  Neptune_geocentric_position Rops (C09_geo.ep j) = VErr ValueError.
Proof. exact (light_time_stage_Neptune pl pb pr el eb er). Qed.

Redirect "C09_final_stage_direction.assumptions" Print Assumptions C09_final_stage_direction.
Redirect "C09_elongation_range.assumptions" Print Assumptions C09_elongation_range.
Redirect "C09_elongation_cos.assumptions" Print Assumptions C09_elongation_cos.
Redirect "C09_corrections_small.assumptions" Print Assumptions C09_corrections_small.
Redirect "C09_minor_set.assumptions" Print Assumptions C09_minor_set.
Redirect "C09_minor_set_parabolic.assumptions" Print Assumptions C09_minor_set_parabolic.
Redirect "C09_minor_gauss.assumptions" Print Assumptions C09_minor_gauss.
Redirect "C09_light_time_Mercury.assumptions" Print Assumptions C09_light_time_Mercury.
Redirect "C09_light_time_Venus.assumptions" Print Assumptions C09_light_time_Venus.
Redirect "C09_light_time_Mars.assumptions" Print Assumptions C09_light_time_Mars.
Redirect "C09_light_time_Jupiter.assumptions" Print Assumptions C09_light_time_Jupiter.
Redirect "C09_light_time_Saturn.assumptions" Print Assumptions C09_light_time_Saturn.
Redirect "C09_light_time_Uranus.assumptions" Print Assumptions C09_light_time_Uranus.
Redirect "C09_light_time_Neptune.assumptions" Print Assumptions C09_light_time_Neptune.
