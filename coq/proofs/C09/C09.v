(* C09: statements.  Each theorem is only an [exact] of a lemma proved in the other files.
   The seven theorems C09_body_<Planet> (whole generated geocentric_position bodies) are stated, proved
   by [exact] and their assumptions printed in C09_b_<Planet>.v (one file per planet, compiled in
   parallel; imported below); their statement is explained here before C09_body_direction.
   Labels: [ideal, generated code] theorem about the regenerated model in the real-number instance;
   [generated closed forms -> spec] property of the closed forms those theorems show the code to compute;
   [spec] hand-written formula only.  PARTIAL CORRECTNESS is marked where a callee is assumed to return. *)
From Coq Require Import Reals ZArith List Lra.
From PyLib Require Import PyVal PyBuiltins Ideal Sphere.
From Spec Require Import AngleSpec.
From Gen Require Import M_base M_Angle M_Epoch M_Coordinates M_Earth M_Sun M_Minor M_Pluto.
From Proofs.C09 Require Import C09_spec C09_minor C09_A_defs C09_geo C09_body C09_planets C09_mbody C09_mgeo C09_mnp C09_pluto.
From Proofs.C09 Require Import C09_b_Mercury C09_b_Venus C09_b_Mars C09_b_Jupiter C09_b_Saturn C09_b_Uranus C09_b_Neptune.
Import ListNotations.
Open Scope R_scope.

(* [spec] lambda = atan2(y,x), beta = atan2(z, sqrt(x^2+y^2)) are the direction of (x,y,z) *)
Theorem C09_final_stage_direction x y z : x <> 0 \/ y <> 0 ->
  let l := lam_of x y in let b := bet_of x y z in let d := norm3 x y z in
  x = d * (cos b * cos l) /\ y = d * (cos b * sin l) /\ z = d * sin b
  /\ - PI < l <= PI /\ - (PI / 2) < b < PI / 2 /\ 0 < d.
Proof. exact (final_stage_direction x y z). Qed.

(* [spec] the elongation formula yields an angle in [0,180] degrees *)
Theorem C09_elongation_range b l ls : 0 <= r2d (elong b l ls) <= 180.
Proof. exact (elongation_range_deg b l ls). Qed.

(* [spec] ... whose cosine is the scalar product of the body's direction and the Sun's (latitude 0) *)
Theorem C09_elongation_cos b l ls :
  cos (elong b l ls) = cos b * cos (l - ls) /\ cos (elong b l ls) = dot (uvec l b) (uvec ls 0).
Proof. split; [exact (elongation_cos b l ls) | exact (elongation_is_angle_to_sun b l ls)]. Qed.

(* [spec] aberration + FK5 + nutation displace the place by at most 0.02 degree *)
Theorem C09_corrections_small t ls pie l b lp bh dpsi :
  -40 <= t <= 40 -> Rabs b <= 25 * (PI / 180) -> Rabs bh <= 25 * (PI / 180) ->
  Rabs dpsi <= 1903 / 100 ->
  (Rabs (abl kab (ecc t) ls pie l b + fk5l lp bh + dpsi)
   + Rabs (abb kab (ecc t) ls pie l b + fk5b lp)) / 3600 <= 2 / 100.
Proof. exact (corrections_small t ls pie l b lp bh dpsi). Qed.

(* [ideal, generated code] Minor.set for e < 1 - tol: Gauss constants, a = |q/(1-e)|, n = 0.9856076686/(a sqrt a) *)
Theorem C09_minor_set q e inc om w tp : 0 < q -> e < 1 - tol0 ->
  Minor_set Rops blankM (VFloat q) (VFloat e) (ang inc) (ang om) (ang w) (ep tp)
  = VTuple [minor_obj q e inc om w tp (Rabs (q / (Rlit 10 (-1) - e))); VNone].
Proof. exact (minor_set_elliptic q e inc om w tp). Qed.

(* [ideal, generated code] Minor.set in the parabolic regime |e - 1| <= tol: a = q *)
Theorem C09_minor_set_parabolic q e inc om w tp : 0 < q -> Rabs (e - 1) <= tol0 ->
  Minor_set Rops blankM (VFloat q) (VFloat e) (ang inc) (ang om) (ang w) (ep tp)
  = VTuple [minor_obj q e inc om w tp q; VNone].
Proof. exact (minor_set_parabolic q e inc om w tp). Qed.

(* [spec] the Gauss constants stored by set() turn (r, u) into equatorial J2000 coordinates:
   x/r = a sin(A+u) etc. equal the rotation Rx(eps) of the ecliptic unit vector *)
Theorem C09_minor_gauss om inc u :
  let x := sqrt (gF om * gF om + gP om inc * gP om inc) * sin (atan2 (gF om) (gP om inc) + u) in
  let y := sqrt (gG om * gG om + gQ om inc * gQ om inc) * sin (atan2 (gG om) (gQ om inc) + u) in
  let z := sqrt (gH om * gH om + gR om inc * gR om inc) * sin (atan2 (gH om) (gR om inc) + u) in
  let xe := cos (d2 om) * cos u - sin (d2 om) * sin u * cos (d2 inc) in
  let ye := sin (d2 om) * cos u + cos (d2 om) * sin u * cos (d2 inc) in
  let ze := sin (d2 inc) * sin u in
  x = xe /\ y = ye * ce - ze * se /\ z = ye * se + ze * ce.
Proof. exact (gauss_xyz om inc u). Qed.

(* C09_body_<Planet> (in C09_b_<Planet>.v)  [ideal, generated code, callees abstracted; PARTIAL CORRECTNESS:
   conditional on the five callees returning values of the stated shape at the arguments the body passes].
   Hypotheses, each ONLY at the argument really used: <Planet>.geometric_heliocentric_position(., tofk5=False) at
   the caller's epoch j = (lA,bA,rA) and at j1 = (l,b,r); Earth.geometric_heliocentric_position(j) = (l0,b0,r0);
   Epoch.__isub__(epoch j, tau) = epoch j1 for exactly tau = 0.0057755183*|planet(j) - Earth(j)| (C09_geo.tau_of);
   nutation_longitude(j1) = nut1, true_obliquity(j1) = obl1, Sun.apparent_geocentric_position(j1) = (sl1,sb1,sr1).
   Side conditions on those OUTPUTS: |T(j1)| <= 40 centuries, |beta| <= 25 deg, |B(j1)| <= 25 deg (so cos beta <> 0,
   tan B finite, Angle(0,0,s) has |s| < 60).  Satisfiability of the callee hypotheses is not proved in Coq (the
   VSOP87 series cannot be evaluated symbolically); the shapes are those observed bit-exactly in the correspondence.
   ecliptical2equatorial is NOT abstracted (closed form of C05) and JDE2000 = 2451545 is proved.
   Conclusion: the body returns (RAG, DECG, ELONG) of C09_body: with (x,y,z) = planet(j1) - Earth(j),
   lamG = atan2(y,x), betG = atan2(z, sqrt(x^2+y^2)); LAMG/BETG = these plus aberration (k = 20.49552, e and pi
   polynomials at T(j1)), FK5 and nutation(j1) terms, each sum reduced by Angle's red360; RAG/DECG =
   ecliptical2equatorial(LAMG, BETG, obl1); ELONG = acos(cos BETG cos(LAMG - sl1)) with the SUN TAKEN AT THE
   SHIFTED EPOCH j1 (known finding elongation-sun-at-light-time-epoch, here as a theorem). *)

(* [generated closed forms -> spec] lambda, beta of the body are the direction of planet(j1) - Earth(j) *)
Theorem C09_body_direction l b r l0 b0 r0 : X2 l b r l0 b0 r0 <> 0 \/ Y2 l b r l0 b0 r0 <> 0 ->
  X2 l b r l0 b0 r0 = norm3 (X2 l b r l0 b0 r0) (Y2 l b r l0 b0 r0) (Z2 b r b0 r0) * (cos (betG l b r l0 b0 r0) * cos (lamG l b r l0 b0 r0)) /\
  Y2 l b r l0 b0 r0 = norm3 (X2 l b r l0 b0 r0) (Y2 l b r l0 b0 r0) (Z2 b r b0 r0) * (cos (betG l b r l0 b0 r0) * sin (lamG l b r l0 b0 r0)) /\
  Z2 b r b0 r0 = norm3 (X2 l b r l0 b0 r0) (Y2 l b r l0 b0 r0) (Z2 b r b0 r0) * sin (betG l b r l0 b0 r0) /\
  - PI < lamG l b r l0 b0 r0 <= PI /\ - (PI / 2) < betG l b r l0 b0 r0 < PI / 2.
Proof. exact (body_direction l b r l0 b0 r0). Qed.

(* [generated closed forms -> spec] what the body adds to (lambda, beta) -- aberration + FK5 + nutation --
   is at most 0.02 degree *)
Theorem C09_body_corrections l b r l0 b0 r0 j1 nutv :
  -40 <= tG j1 <= 40 -> Rabs (betG l b r l0 b0 r0) <= 25 * (PI / 180) -> Rabs (b * (PI / 180)) <= 25 * (PI / 180) ->
  Rabs (nutv * 3600) <= 1903 / 100 ->
  (Rabs (dl1G l b r l0 b0 r0 j1 + (Rlit (-9033) (-5) + dl2aG l b r l0 b0 r0 j1) + nutv * 3600)
   + Rabs (db1G l b r l0 b0 r0 j1 + db2G l b r l0 b0 r0 j1)) / 3600 <= 2 / 100.
Proof. exact (body_corrections_small l b r l0 b0 r0 j1 nutv). Qed.

(* [generated closed forms -> spec] the returned elongation is acos(cos B cos(L - Lsun)) in degrees, in [0,180] *)
Theorem C09_body_elongation l b r l0 b0 r0 j1 nutv slv :
  ELONG l b r l0 b0 r0 j1 nutv slv = r2d (elong (BETG l b r l0 b0 r0 j1 * (PI / 180)) (LAMG l b r l0 b0 r0 j1 nutv * (PI / 180)) (slv * (PI / 180))) /\
  0 <= ELONG l b r l0 b0 r0 j1 nutv slv <= 180 /\
  cos (ELONG l b r l0 b0 r0 j1 nutv slv * (PI / 180)) =
  cos (BETG l b r l0 b0 r0 j1 * (PI / 180)) * cos (LAMG l b r l0 b0 r0 j1 nutv * (PI / 180) - slv * (PI / 180)).
Proof. exact (body_elongation l b r l0 b0 r0 j1 nutv slv). Qed.

(* [generated closed forms -> spec] what the body hands to ecliptical2equatorial is, in degrees and up to whole
   turns, the geometric direction plus exactly the correction terms bounded by C09_body_corrections *)
Theorem C09_body_LAMG_BETG l b r l0 b0 r0 j1 nutv :
  (exists k : Z, LAMG l b r l0 b0 r0 j1 nutv =
     lamG l b r l0 b0 r0 * (180 / PI) + (dl1G l b r l0 b0 r0 j1 + (Rlit (-9033) (-5) + dl2aG l b r l0 b0 r0 j1)) / 3600 + nutv + 360 * IZR k) /\
  (exists k : Z, BETG l b r l0 b0 r0 j1 =
     betG l b r l0 b0 r0 * (180 / PI) + (db1G l b r l0 b0 r0 j1 + db2G l b r l0 b0 r0 j1) / 3600 + 360 * IZR k).
Proof. exact (body_LAMG_BETG l b r l0 b0 r0 j1 nutv). Qed.

(* [generated closed forms -> spec] the returned RA/Dec are the rotation about the x axis by the obliquity of the
   unit vector (LAMG, BETG); RA in [0,360), Dec in [-90,90] *)
Theorem C09_body_radec l b r l0 b0 r0 j1 nutv oblv : -90 < BETG l b r l0 b0 r0 j1 < 90 ->
  uvec (d2r (RAG l b r l0 b0 r0 j1 nutv oblv)) (d2r (DECG l b r l0 b0 r0 j1 nutv oblv)) =
  Rx (d2r oblv) (uvec (d2r (LAMG l b r l0 b0 r0 j1 nutv)) (d2r (BETG l b r l0 b0 r0 j1))) /\
  0 <= RAG l b r l0 b0 r0 j1 nutv oblv < 360 /\ -90 <= DECG l b r l0 b0 r0 j1 nutv oblv <= 90.
Proof. exact (body_radec l b r l0 b0 r0 j1 nutv oblv). Qed.

(* [ideal, generated code] Minor.geocentric_position, elliptic regime e < 0.98: kepler_equation path,
   r = a(1 - e cos E), two passes (t - T, then t - T - tau with tau = 0.0057755183*|body + Sun|),
   ra/dec/elongation = C09_mbody.raM/decM/psiM.  kepler_equation is assumed to return (E, v), |E| < 360,
   ONLY at the two mean anomalies the body passes (mA1, mA2); these four hypotheses are satisfiable by the
   model for every 0 <= e < 1: C09_kepler_sat_geo *)
Theorem C09_minor_geo_elliptic (aa bb cc am bm cm q e inc om w tp n a : R) (kE kv : R -> R -> R) (j sxj syj szj : R) :
  Sun_rectangular_coordinates_j2000 Rops (C09_geo.ep j) = VTuple [VFloat sxj; VFloat syj; VFloat szj] ->
  e < Rlit 98 (-2) ->
  f_kepler_equation Rops (VFloat e) (ang (mA1 tp n j)) = VTuple [ang (kE e (mA1 tp n j)); ang (kv e (mA1 tp n j))] ->
  -360 < kE e (mA1 tp n j) < 360 ->
  f_kepler_equation Rops (VFloat e) (ang (mA2 aa bb cc am bm cm e w tp n a kE kv j sxj syj szj)) =
    VTuple [ang (kE e (mA2 aa bb cc am bm cm e w tp n a kE kv j sxj syj szj)); ang (kv e (mA2 aa bb cc am bm cm e w tp n a kE kv j sxj syj szj))] ->
  -360 < kE e (mA2 aa bb cc am bm cm e w tp n a kE kv j sxj syj szj) < 360 ->
  denM aa bb cc am bm cm w sxj syj szj (j - tp) (vfE e n kv) (rfE e n a kE) <> 0 ->
  Minor_geocentric_position Rops (mobj aa bb cc am bm cm q e inc om w tp n a) (C09_geo.ep j) =
  VTuple [ang (raM aa bb cc am bm cm w sxj syj szj (j - tp) (vfE e n kv) (rfE e n a kE));
          ang (decM aa bb cc am bm cm w sxj syj szj (j - tp) (vfE e n kv) (rfE e n a kE));
          ang (psiM aa bb cc am bm cm w sxj syj szj (j - tp) (vfE e n kv) (rfE e n a kE))].
Proof. exact (minor_geo_elliptic aa bb cc am bm cm q e inc om w tp n a kE kv j sxj syj szj). Qed.

(* [ideal, generated code] non-vacuity of the kepler_equation hypotheses above: for every 0 <= e < 1 the model's
   kepler_equation (characterised in C11, copied as C09_K_kepler) returns such values at both arguments *)
Theorem C09_kepler_sat_geo aa bb cc am bm cm e w tp n a j sxj syj szj : 0 <= e < 1 ->
  exists kE kv : R -> R -> R,
    let m1 := mA1 tp n j in let m2 := mA2 aa bb cc am bm cm e w tp n a kE kv j sxj syj szj in
    f_kepler_equation Rops (VFloat e) (ang m1) = VTuple [ang (kE e m1); ang (kv e m1)] /\ -360 < kE e m1 < 360 /\
    f_kepler_equation Rops (VFloat e) (ang m2) = VTuple [ang (kE e m2); ang (kv e m2)] /\ -360 < kE e m2 < 360.
Proof. exact (kepler_sat_geo aa bb cc am bm cm e w tp n a j sxj syj szj). Qed.

(* [ideal, generated code; PARTIAL CORRECTNESS] near-parabolic regime 0.98 <= e, |e - 1| >= tol: IF the two calls
   of _near_parabolic the body makes (at t - T and t - T - tau) return (v, r), THEN ... .  The model raises
   ValueError('No convergence') for 0.98 <= e < ~0.9975 far from perihelion (known finding), so the two
   hypotheses are not always satisfiable; C09_near_parabolic_witness shows the shape at t = 0. *)
Theorem C09_minor_geo_near_parabolic (aa bb cc am bm cm q e inc om w tp n a j sxj syj szj : R) :
  Sun_rectangular_coordinates_j2000 Rops (C09_geo.ep j) = VTuple [VFloat sxj; VFloat syj; VFloat szj] ->
  forall npv npr : R -> R,
  Rlit 98 (-2) <= e -> C09_A_defs.tol0 <= Rabs (e - 1) ->
  Minor__near_parabolic Rops (mobj aa bb cc am bm cm q e inc om w tp n a) (VFloat (j - tp)) = VTuple [ang (npv (j - tp)); VFloat (npr (j - tp))] ->
  Minor__near_parabolic Rops (mobj aa bb cc am bm cm q e inc om w tp n a) (VFloat (tN2 aa bb cc am bm cm w tp j sxj syj szj npv npr)) =
    VTuple [ang (npv (tN2 aa bb cc am bm cm w tp j sxj syj szj npv npr)); VFloat (npr (tN2 aa bb cc am bm cm w tp j sxj syj szj npv npr))] ->
  denM aa bb cc am bm cm w sxj syj szj (j - tp) npv npr <> 0 ->
  Minor_geocentric_position Rops (mobj aa bb cc am bm cm q e inc om w tp n a) (C09_geo.ep j) =
  VTuple [ang (raM aa bb cc am bm cm w sxj syj szj (j - tp) npv npr);
          ang (decM aa bb cc am bm cm w sxj syj szj (j - tp) npv npr);
          ang (psiM aa bb cc am bm cm w sxj syj szj (j - tp) npv npr)].
Proof. exact (minor_geo_near_parabolic aa bb cc am bm cm q e inc om w tp n a j sxj syj szj). Qed.

(* [ideal, generated code] shape witness: at perihelion the generated _near_parabolic returns (Angle(0), q) *)
Theorem C09_near_parabolic_witness (aa bb cc am bm cm q e inc om w tp n a : R) : 0 < q -> 0 <= e ->
  Minor__near_parabolic Rops (mobj aa bb cc am bm cm q e inc om w tp n a) (VFloat 0) = VTuple [ang (red360 (Rlit 0 (-1))); VFloat q].
Proof. exact (near_parabolic_at_perihelion aa bb cc am bm cm q e inc om w tp n a). Qed.

(* [ideal, generated code] Minor.heliocentric_ecliptical_position; kepler_equation assumed to return only at the
   mean anomaly passed (mA1); satisfiable for 0 <= e < 1: C09_kepler_sat_helio *)
Theorem C09_minor_helio (aa bb cc am bm cm q e inc om w tp n a : R) (kE kv : R -> R -> R) (j : R) :
  f_kepler_equation Rops (VFloat e) (ang (mA1 tp n j)) = VTuple [ang (kE e (mA1 tp n j)); ang (kv e (mA1 tp n j))] ->
  -360 < kE e (mA1 tp n j) < 360 ->
  Minor_heliocentric_ecliptical_position Rops (mobj aa bb cc am bm cm q e inc om w tp n a) (C09_geo.ep j) =
  VTuple [ang (red360 (lam_of (ecl_x e inc om w n a kE kv (j - tp)) (ecl_y e inc om w n a kE kv (j - tp)) * (180 / PI)));
          ang (red360 (bet_of (ecl_x e inc om w n a kE kv (j - tp)) (ecl_y e inc om w n a kE kv (j - tp)) (ecl_z e inc w n a kE kv (j - tp)) * (180 / PI)))].
Proof. exact (minor_helio aa bb cc am bm cm q e inc om w tp n a kE kv j). Qed.

Theorem C09_kepler_sat_helio e n tp j : 0 <= e < 1 ->
  exists kE kv : R -> R -> R,
    f_kepler_equation Rops (VFloat e) (ang (mA1 tp n j)) = VTuple [ang (kE e (mA1 tp n j)); ang (kv e (mA1 tp n j))]
    /\ -360 < kE e (mA1 tp n j) < 360.
Proof. exact (kepler_sat_helio e n tp j). Qed.

(* [generated closed forms -> spec] the elongation of a minor body: Cauchy-Schwarz keeps the acos argument in
   [-1,1]; psi in [0,180], cos psi = <g, s>/(|g||s|) *)
Theorem C09_minor_elongation (aa bb cc am bm cm w sxj syj szj dt1 : R) (vf rf : R -> R) :
  denM aa bb cc am bm cm w sxj syj szj dt1 vf rf <> 0 ->
  psiM aa bb cc am bm cm w sxj syj szj dt1 vf rf = r2d (acos (cospsiM aa bb cc am bm cm w sxj syj szj dt1 vf rf)) /\
  0 <= psiM aa bb cc am bm cm w sxj syj szj dt1 vf rf <= 180 /\
  cos (psiM aa bb cc am bm cm w sxj syj szj dt1 vf rf * (PI / 180)) = cospsiM aa bb cc am bm cm w sxj syj szj dt1 vf rf.
Proof. exact (minor_elongation aa bb cc am bm cm w sxj syj szj dt1 vf rf). Qed.

(* [generated closed forms -> spec] ra, dec of a minor body are the direction of body(t - tau) + Sun(t) *)
Theorem C09_minor_direction (aa bb cc am bm cm w sxj syj szj dt1 : R) (vf rf : R -> R) :
  let t2 := dt2M aa bb cc am bm cm w sxj syj szj dt1 vf rf in
  let gx := gxM aa am w sxj vf rf t2 in let gy := gyM bb bm w syj vf rf t2 in let gz := gzM cc cm w szj vf rf t2 in
  gx <> 0 \/ gy <> 0 ->
  raM aa bb cc am bm cm w sxj syj szj dt1 vf rf = r2d (lam_of gx gy) /\
  decM aa bb cc am bm cm w sxj syj szj dt1 vf rf = r2d (bet_of gx gy gz) /\
  gx = norm3 gx gy gz * (cos (bet_of gx gy gz) * cos (lam_of gx gy)) /\
  gy = norm3 gx gy gz * (cos (bet_of gx gy gz) * sin (lam_of gx gy)) /\
  gz = norm3 gx gy gz * sin (bet_of gx gy gz).
Proof. exact (minor_direction aa bb cc am bm cm w sxj syj szj dt1 vf rf). Qed.

(* [ideal, generated code] Pluto.geocentric_position for an epoch whose fractional year is in [1885, 2100):
   Pluto at the epoch, light time tau = 0.0057755183*|Pluto + Sun|, Pluto again at epoch - tau =: j1
   (Epoch.__sub__ abstracted), ecliptic J2000 -> equatorial with sin/cos eps = 0.397777156/0.917482062,
   ra = atan2(eta, xi) in [0,360), dec = asin(zeta/delta) of Pluto(j1) + Sun(j) *)
Theorem C09_pluto_geo (yv j j1 l1 b1 r1 l2 b2 r2 sxj syj szj : R) :
  Epoch_year Rops (C09_geo.ep j) = VFloat yv -> 1885 <= yv < 2100 ->
  Pluto_geometric_heliocentric_position Rops (C09_geo.ep j) = VTuple [ang l1; ang b1; VFloat r1] ->
  Sun_rectangular_coordinates_j2000 Rops (C09_geo.ep j) = VTuple [VFloat sxj; VFloat syj; VFloat szj] ->
  Epoch___sub__ Rops (C09_geo.ep j) (VFloat (tauP l1 b1 r1 sxj syj szj)) = C09_geo.ep j1 ->
  Pluto_geometric_heliocentric_position Rops (C09_geo.ep j1) = VTuple [ang l2; ang b2; VFloat r2] ->
  delta2 l2 b2 r2 sxj syj szj <> 0 ->
  Pluto_geocentric_position Rops (C09_geo.ep j) =
  VTuple [ang (pos360 (red360 (atan2 (eta2 l2 b2 r2 syj) (xi2 l2 b2 r2 sxj) * (180 / PI))));
          ang (red360 (asin (zeta2 l2 b2 r2 szj / delta2 l2 b2 r2 sxj syj szj) * (180 / PI)))].
Proof. exact (pluto_geo yv j j1 l1 b1 r1 l2 b2 r2 sxj syj szj). Qed.

(* [ideal, generated code] outside [1885, 2100) Pluto.geocentric_position raises ValueError *)
Theorem C09_pluto_refuses (yv j : R) :
  Epoch_year Rops (C09_geo.ep j) = VFloat yv -> yv < 1885 \/ 2100 <= yv ->
  Pluto_geocentric_position Rops (C09_geo.ep j) = VErr ValueError.
Proof. exact (pluto_geo_refuses yv j). Qed.

Redirect "C09_final_stage_direction.assumptions" Print Assumptions C09_final_stage_direction.
Redirect "C09_elongation_range.assumptions" Print Assumptions C09_elongation_range.
Redirect "C09_elongation_cos.assumptions" Print Assumptions C09_elongation_cos.
Redirect "C09_corrections_small.assumptions" Print Assumptions C09_corrections_small.
Redirect "C09_minor_set.assumptions" Print Assumptions C09_minor_set.
Redirect "C09_minor_set_parabolic.assumptions" Print Assumptions C09_minor_set_parabolic.
Redirect "C09_minor_gauss.assumptions" Print Assumptions C09_minor_gauss.
Redirect "C09_body_direction.assumptions" Print Assumptions C09_body_direction.
Redirect "C09_body_corrections.assumptions" Print Assumptions C09_body_corrections.
Redirect "C09_body_elongation.assumptions" Print Assumptions C09_body_elongation.
Redirect "C09_body_LAMG_BETG.assumptions" Print Assumptions C09_body_LAMG_BETG.
Redirect "C09_body_radec.assumptions" Print Assumptions C09_body_radec.
Redirect "C09_minor_geo_elliptic.assumptions" Print Assumptions C09_minor_geo_elliptic.
Redirect "C09_kepler_sat_geo.assumptions" Print Assumptions C09_kepler_sat_geo.
Redirect "C09_minor_geo_near_parabolic.assumptions" Print Assumptions C09_minor_geo_near_parabolic.
Redirect "C09_near_parabolic_witness.assumptions" Print Assumptions C09_near_parabolic_witness.
Redirect "C09_minor_helio.assumptions" Print Assumptions C09_minor_helio.
Redirect "C09_kepler_sat_helio.assumptions" Print Assumptions C09_kepler_sat_helio.
Redirect "C09_minor_elongation.assumptions" Print Assumptions C09_minor_elongation.
Redirect "C09_minor_direction.assumptions" Print Assumptions C09_minor_direction.
Redirect "C09_pluto_geo.assumptions" Print Assumptions C09_pluto_geo.
Redirect "C09_pluto_refuses.assumptions" Print Assumptions C09_pluto_refuses.
