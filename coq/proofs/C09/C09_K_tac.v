(* C09_K_tac: tactics shared by the C11 proof files.
   [pyrunv]: pyrun with call-by-VALUE evaluation of nested operator applications.
   PyEval.pyrun is call-by-value at each [bind] only; below a bind the generated
   operator wrappers (match a with ... | _ => num_op a b) mention their arguments
   twice, so a nested Python expression of depth n is re-evaluated 2^n times.
   [pyrunv] first evaluates, innermost first, every closed application
   [f Rops a b] / [m1 Rops fn a] / [math_sqrt Rops a] with canonical arguments. *)
From Coq Require Import Reals ZArith List String Lra Lia.
From PyLib Require Import PyVal PyBuiltins Ideal Whnf PyEval.
From Gen Require Import M_base M_Angle M_Epoch.
Import ListNotations.
Open Scope R_scope.

(* constants at which evaluation stops: the loop fuel, [fz n] (an abstract fuel), and
   Angle.__init__ (evaluated once, in Angle_new_rad / Angle_new_deg, and rewritten) *)
Definition fz (n : nat) : nat := n.
From Ltac2 Require Ltac2.
Ltac2 Set Whnf.is_blocked as old := fun c =>
  Ltac2.Bool.or (old c)
    (Ltac2.List.exist (Ltac2.Constr.equal c) ['@loop_fuel; '@fz; '@Angle___init__; '@Epoch___init__]).

Ltac eval_sub_u t tac :=
  let H := fresh "Hs" in eassert (H : t = _) by (pyrun_using tac; py_canon_refl); rewrite H; clear H.
Ltac inner_step E tac :=
  match E with
  | context [?f Rops ?a ?b] =>
      is_canon a; is_canon b;
      lazymatch type of (f Rops a b) with val R => idtac end;
      eval_sub_u (f Rops a b) tac
  | context [m1 Rops ?fn ?a] => is_canon a; eval_sub_u (m1 Rops fn a) tac
  | context [math_sqrt Rops ?a] => is_canon a; eval_sub_u (math_sqrt Rops a) tac
  | context [math_degrees Rops ?a] => is_canon a; eval_sub_u (math_degrees Rops a) tac
  end.

Ltac pyrunv_using tac :=
  whnf_lhs;
  lazymatch goal with
  | |- ?l = _ =>
    tryif is_canon l then expose_R else
    first [
      lazymatch l with
      | bind ?e ?k =>
          tryif is_canon e then
            lazymatch e with
            | VErr _ => rewrite (bind_err _ k)
            | _ => rewrite (bind_ok e k) by reflexivity; cbv beta
            end
          else first [ progress (repeat (lazymatch goal with |- bind ?E _ = _ => inner_step E tac end))
                     | let H := fresh "Hev" in
                       eassert (H : e = _) by (pyrunv_using tac; py_canon_refl);
                       rewrite H; clear H ]
      | VTuple ?xs => first_noncanon xs ltac:(fun x =>
            let H := fresh "Hev" in
            eassert (H : x = _) by (pyrunv_using tac; py_canon_refl); rewrite H; clear H)
      | VList ?xs => first_noncanon xs ltac:(fun x =>
            let H := fresh "Hev" in
            eassert (H : x = _) by (pyrunv_using tac; py_canon_refl); rewrite H; clear H)
      | VObj _ ?xs => first_noncanon xs ltac:(fun x =>
            let H := fresh "Hev" in
            eassert (H : x = _) by (pyrunv_using tac; py_canon_refl); rewrite H; clear H)
      | _ =>
          pose_stuck;
          lazymatch goal with
          | py_stuck := ?s |- _ =>
              clear py_stuck;
              lazymatch s with
              | bind ?e ?k =>
                  let H := fresh "Hev" in
                  eassert (H : bind e k = _) by (pyrunv_using tac; py_canon_refl);
                  rewrite H; clear H
              | Rltb _ _ => py_decide_at s tac
              | Rleb _ _ => py_decide_at s tac
              | Reqb _ _ => py_decide_at s tac
              | _ => idtac "pyrunv: stuck on" s; fail
              end
          end
      end;
      pyrunv_using tac
    | idtac ]
  end.

Ltac lra1 := timeout 5 (Rlit_norm_all; lra).
Ltac pyrunv := pyrunv_using lra1.

(* close a comparison goal by a hypothesis that states the same comparison up to field equalities *)
Ltac fl := first [ reflexivity | lra | field; repeat split; lra ].
Ltac close_by H := Rlit_norm;
  lazymatch goal with
  | |- ?c <= ?d => lazymatch type of H with ?a <= ?b =>
        replace c with a by fl; replace d with b by fl; exact H end
  | |- ?c < ?d => lazymatch type of H with ?a < ?b =>
        replace c with a by fl; replace d with b by fl; exact H end
  end.

Definition tol0 : R := Rlit 1 (-10).
Definition ang (d : R) : val R := VObj cAngle [VFloat d; VFloat tol0].

Lemma Angle_new_rad x : Rabs (x * (180 / PI)) < Rlit 3600 (-1) ->
  Angle___init__ Rops (VObj cAngle [VNone; VNone]) (mk_tuple [VFloat x]) (mk_dict [kw "radians" (VBool true)])
  = ang (x * (180 / PI)).
Proof.
  intro H. unfold Angle___init__. pyrun_using ltac:(first [exact H | lra1]).
  reflexivity.
Qed.

Lemma Angle_new_deg x : Rabs x < Rlit 3600 (-1) ->
  Angle___init__ Rops (VObj cAngle [VNone; VNone]) (mk_tuple [VFloat x]) (mk_dict []) = ang x.
Proof.
  intro H. unfold Angle___init__. pyrun_using ltac:(first [exact H | lra1]).
  reflexivity.
Qed.

(* Epoch(x) for a float x converts the JDE to a calendar date and back (Epoch.set); it is not
   entered here: theorems about functions that end in Epoch(...) are stated for whatever JDE
   [Ef x] that constructor stores *)
Definition Epoch_of (Ef : R -> R) : Prop :=
  forall x, Epoch___init__ Rops (VObj cEpoch [VNone]) (mk_tuple [VFloat x]) (mk_dict [])
            = VObj cEpoch [VFloat (Ef x)].

Lemma Angle_rad_ang d : Angle_rad Rops (ang d) = VFloat (d * (PI / 180)).
Proof. pyrun. reflexivity. Qed.

Lemma atan_deg_bound y : Rabs (Rlit 20 (-1) * atan y * (180 / PI)) < Rlit 3600 (-1).
Proof.
  pose proof (atan_bound y). pose proof PI_RGT_0. Rlit_norm.
  replace (20 / 10 * atan y * (180 / PI)) with (360 * (atan y / PI)) by (field; lra).
  assert (-1/2 < atan y / PI < 1/2).
  { split.
    - apply Rmult_lt_reg_r with PI; [lra|]. unfold Rdiv at 2. rewrite Rmult_assoc, Rinv_l by lra. lra.
    - apply Rmult_lt_reg_r with PI; [lra|]. unfold Rdiv at 1. rewrite Rmult_assoc, Rinv_l by lra. lra. }
  apply Rabs_def1; lra.
Qed.

Ltac eval_sub t :=
  let H := fresh "Hs" in eassert (H : t = _) by (pyrun; py_canon_refl); rewrite H; clear H.
(* evaluate the argument of a pending Angle(...) construction *)
Ltac angle_arg :=
  try match goal with |- context [Angle___init__ Rops _ (mk_tuple [?a]) _] =>
    tryif is_canon a then fail else eval_sub a end.
Ltac epoch_arg :=
  lazymatch goal with |- context [Epoch___init__ Rops _ (mk_tuple [?a]) _] =>
    tryif is_canon a then idtac else eval_sub a end.
