(* C03: shared definitions for the ideal-instance statements about the generated Angle model *)
From Coq Require Import Reals ZArith List Bool String.
From PyLib Require Import PyVal PyBuiltins Ideal.
From Gen Require Import M_base M_Angle.
Import ListNotations.
Open Scope R_scope.

Definition rval := val R.
(* default tolerance base.TOL = 1e-10 *)
Definition tol0 : R := Rlit 1 (-10).
(* an Angle object holding d degrees with tolerance t / the default tolerance *)
Definition angT (d t : R) : rval := VObj cAngle [VFloat d; VFloat t].
Definition ang (d : R) : rval := angT d tol0.
(* the uninitialised object handed to __init__ *)
Definition blank : rval := VObj cAngle [VNone; VNone].
Definition no_kw : rval := VDict [].
(* Angle(args...) and Angle(args..., key=True) *)
Definition mkA (args : list rval) : rval := Angle___init__ Rops blank (VTuple args) no_kw.
Definition mkA_kw (args : list rval) (key : string) : rval :=
  Angle___init__ Rops blank (VTuple args) (VDict [(VStr key, VBool true)]).
