(* C09_K_kepdefs: the pieces shared by the five control-flow paths of kepler_equation
   (sign of M x "m < 0" x "m > pi"): the reduction of the mean anomaly transcribed in
   the model's literal forms, the shape of the result, and the tactic [kep_path] that
   runs one path of the generated function symbolically:
     prefix (reduction of M)  -> pyrunv with the path's two decisions,
     the `while` loop          -> C09_K_loop.loop_run, after showing that the generated
                                  fix satisfies the step / leave equations (pyrun on
                                  the loop body with symbolic state),
     the tail (Angle(E), v)    -> pyrunv + Angle_new_rad. *)
From Coq Require Import Reals ZArith List String Lra Lia.
From PyLib Require Import PyVal PyBuiltins Ideal Whnf PyEval.
From Gen Require Import M_base M_Angle M_Epoch M_Coordinates.
From Spec Require Import Kepler.
From Proofs.C09 Require Import C09_K_tac C09_K_loop.
Import ListNotations.
Open Scope R_scope.

(* the reduction of the mean anomaly, in the model's literal forms *)
Definition r_m0 (M : R) := M * (PI / 180).
Definition r_sg (M : R) := if Rltb (r_m0 M) 0 then - Rabs (Rlit 10 (-1)) else Rabs (Rlit 10 (-1)).
Definition r_x (M : R) := Rabs (r_m0 M) / (Rlit 20 (-1) * PI).
Definition r_t (M : R) := r_x M - IZR (Rfloor (r_x M)).
Definition r_m2 (M : R) := r_t M * Rlit 20 (-1) * PI * r_sg M.
Definition r_m3 (M : R) := r_m2 M + Rlit 20 (-1) * PI.

Lemma r_t_range M : 0 <= r_t M < 1.
Proof. unfold r_t. pose proof (Rfloor_spec (r_x M)). lra. Qed.

Lemma r_x_eq M : r_x M = Rabs M / 360.
Proof.
  unfold r_x, r_m0. pose proof PI_RGT_0. rewrite Rabs_mult, (Rabs_right (PI / 180)).
  Rlit_norm. field. lra. apply Rle_ge. apply Rmult_le_pos; lra.
Qed.

Lemma r_sg_pos M : 0 <= M -> r_sg M = 1.
Proof.
  intro H. pose proof PI_RGT_0. unfold r_sg, r_m0.
  rewrite (proj2 (Rltb_false _ _)) by nra. Rlit_norm. rewrite Rabs_right; lra.
Qed.
Lemma r_sg_neg M : M < 0 -> r_sg M = -1.
Proof.
  intro H. pose proof PI_RGT_0. unfold r_sg, r_m0.
  rewrite (proj2 (Rltb_true _ _)) by nra. Rlit_norm. rewrite Rabs_right; lra.
Qed.

Lemma copysign1 x :
  (if Rltb x 0 then - Rabs (Rlit 10 (-1)) else Rabs (Rlit 10 (-1))) = sgn1 x.
Proof.
  unfold sgn1, Rltb. Rlit_norm. rewrite Rabs_right by lra. destruct (Rlt_dec x 0); lra.
Qed.

Lemma loop_cong (L : nat -> val R -> val R -> val R -> val R -> val R -> val R) n
  a1 a2 a3 a4 a5 b1 b2 b3 b4 b5 : a1 = b1 -> a2 = b2 -> a3 = b3 -> a4 = b4 -> a5 = b5 ->
  L n (VFloat a1) (VFloat a2) (VFloat a3) (VFloat a4) (VFloat a5) =
  L n (VFloat b1) (VFloat b2) (VFloat b3) (VFloat b4) (VFloat b5).
Proof. intros; subst; reflexivity. Qed.

(* initial step and estimate of the loop, as the model writes them *)
Definition d_0 : R := PI / Rlit 40 (-1).
Definition E_0 : R := PI / Rlit 20 (-1).
Definition E_n (e m : R) (n : nat) : R := bisect e m n d_0 E_0.

(* what kepler_equation returns on a path with reduced anomaly m and sign factor f,
   if the loop performs n halvings *)
Definition kep_out (e m f : R) (n : nat) : val R :=
  VTuple [ang (E_n e m n * f * (180 / PI));
          ang (Rlit 20 (-1) *
               atan (sqrt ((Rlit 10 (-1) + e) / (Rlit 10 (-1) - e)) *
                     tan (E_n e m n * f * (180 / PI) * (PI / 180) / Rlit 20 (-1))) * (180 / PI))].

Definition kep_path_spec (e M m f : R) : Prop :=
  exists n, 2 * (d_0 / 2 ^ n) <= TOLr /\ (n <> O -> TOLr < 4 * (d_0 / 2 ^ n)) /\
    f_kepler_equation Rops (VFloat e) (ang M) = kep_out e m f n.

Lemma fuel_enough : 2 * d_0 <= TOLr * 2 ^ 4999.
Proof.
  pose proof PI_RGT_0. pose proof PI_4.
  assert (2 ^ 40 <= 2 ^ 4999) by (apply Rle_pow; [lra | lia]).
  assert (4 / TOLr <= 2 ^ 40) by (unfold TOLr; simpl; lra).
  unfold d_0. Rlit_norm. unfold TOLr in *. lra.
Qed.

Lemma d_0_pos : 0 < d_0.
Proof. pose proof PI_RGT_0. unfold d_0. Rlit_norm. lra. Qed.
Lemma E_0_start : Rabs (E_0 - Rlit 0 (-1)) = 2 * d_0.
Proof. pose proof PI_RGT_0. unfold E_0, d_0. Rlit_norm. rewrite Rabs_right; lra. Qed.

(* bracket facts of the final estimate (from the specification) *)
Lemma E_n_range e m n : 0 <= m <= PI ->
  0 < d_0 / 2 ^ n /\ 0 <= E_n e m n - 2 * (d_0 / 2 ^ n) /\ E_n e m n + 2 * (d_0 / 2 ^ n) <= PI.
Proof.
  intros Hm. pose proof PI_RGT_0. pose proof d_0_pos.
  assert (kg e (E_0 - 2 * d_0) <= m <= kg e (E_0 + 2 * d_0)) as Hb.
  { unfold E_0, d_0, kg. Rlit_norm.
    replace (PI / (20 / 10) - 2 * (PI / (40 / 10))) with 0 by field.
    replace (PI / (20 / 10) + 2 * (PI / (40 / 10))) with PI by field.
    rewrite sin_0, sin_PI. lra. }
  destruct (bisect_bracket e m n d_0 E_0 H0 Hb) as (_ & A & B).
  split. apply Rdiv_lt_0_compat; [lra | apply pow2_pos].
  unfold E_n. unfold E_0, d_0 in A, B |- *. Rlit_norm_all.
  replace (PI / (20 / 10) - 2 * (PI / (40 / 10))) with 0 in A by field.
  replace (PI / (20 / 10) + 2 * (PI / (40 / 10))) with PI in B by field.
  lra.
Qed.

Lemma deg_bound En f : 0 <= En <= PI -> (f = Rlit 10 (-1) \/ f = -1) ->
  Rabs (En * f * (180 / PI)) < Rlit 3600 (-1).
Proof.
  intros HE Hf. pose proof PI_RGT_0.
  assert (0 <= En / PI <= 1).
  { split. apply Rmult_le_pos; [lra|]. left. apply Rinv_0_lt_compat. lra.
    apply Rmult_le_reg_r with PI; [lra|]. unfold Rdiv. rewrite Rmult_assoc, Rinv_l by lra. lra. }
  destruct Hf as [-> | ->]; Rlit_norm.
  - replace (En * (10 / 10) * (180 / PI)) with (180 * (En / PI)) by (field; lra).
    rewrite Rabs_right by lra. lra.
  - replace (En * -1 * (180 / PI)) with (- (180 * (En / PI))) by (field; lra).
    rewrite Rabs_Ropp, Rabs_right by lra. lra.
Qed.

Lemma sqrt_arg_ok e : 0 <= e < 1 -> 0 <= (Rlit 10 (-1) + e) / (Rlit 10 (-1) - e).
Proof. intro. Rlit_norm. apply Rmult_le_pos; [lra|]. left. apply Rinv_0_lt_compat. lra. Qed.

Lemma spec_intro e M m f (X : val R) :
  f_kepler_equation Rops (VFloat e) (ang M) = X ->
  (exists n, 2 * (d_0 / 2 ^ n) <= TOLr /\ (n <> O -> TOLr < 4 * (d_0 / 2 ^ n)) /\ X = kep_out e m f n) ->
  kep_path_spec e M m f.
Proof. intros HX H. unfold kep_path_spec. rewrite HX. exact H. Qed.

(* the generated fix satisfies the step equation of C09_K_loop *)
Ltac kep_step loop :=
  let n := fresh "n" in let Hgt := fresh "Hgt" in
  intros n ? ? ? ? ? Hgt; unfold TOLr in Hgt; change n with (fz n);
  pyrunv; repeat (rewrite bind_ok by reflexivity; cbv beta); apply (loop_cong loop);
  [ Rlit_norm; field | rewrite copysign1; reflexivity | reflexivity | reflexivity
  | exact (copysign1 _) ].
Ltac kep_leave :=
  let n := fresh "n" in let Hle := fresh "Hle" in
  intros n ? ? ? ? ? Hle; unfold TOLr in Hle; change n with (fz n);
  whnf_lhs; rewrite (proj2 (Rltb_false _ _)) by (expose_R; lra1);
  symmetry; whnf_lhs; rewrite (proj2 (Rltb_false _ _)) by (expose_R; lra1);
  reflexivity.

(* One control-flow path.  Goal: kep_path_spec e M mexpr fR.
   [mexpr]: the reduced mean anomaly of this path (convertible with the model's term),
   [fR]: the sign factor as the model writes it (Rlit 10 (-1) or -1),
   [He : 0 <= e < 1], [Hm : 0 <= mexpr <= PI], [Hf : fR = Rlit 10 (-1) \/ fR = -1],
   [F1 F2 F3]: the facts deciding the path's comparisons. *)
Ltac kep_path e mexpr fR He Hm Hf F1 F2 F3 :=
  let Hpi := fresh "Hpi" in let Hpi4 := fresh "Hpi4" in
  pose proof PI_RGT_0 as Hpi; pose proof PI_4 as Hpi4;
  eapply spec_intro;
  [ pyrunv_using ltac:(first [exact F1 | exact F2 | exact F3 | lra1]);
    repeat (rewrite bind_ok by reflexivity; cbv beta); reflexivity | ];
  let loop := fresh "loop" in
  lazymatch goal with |- context [?L loop_fuel _ _ _ _ _] => set (loop := L) end;
  let Hstep := fresh "Hstep" in let Hleave := fresh "Hleave" in
  assert (Hstep : forall n d e0 ef m1 s, TOLr < Rabs (e0 - ef) ->
    loop (S n) (VFloat d) (VFloat e0) (VFloat ef) m1 s =
    loop n (VFloat (d / 2)) (VFloat (e0 + d * sgn1 (mexpr - kg e e0))) (VFloat e0)
       (VFloat (kg e e0)) (VFloat (sgn1 (mexpr - kg e e0)))) by kep_step loop;
  assert (Hleave : forall n d e0 ef m1 s, Rabs (e0 - ef) <= TOLr ->
    loop (S n) (VFloat d) (VFloat e0) (VFloat ef) m1 s =
    loop 1%nat (VFloat d) (VFloat e0) (VFloat ef) m1 s) by kep_leave;
  let n := fresh "n" in let ef' := fresh "ef'" in let m1' := fresh "m1'" in let s' := fresh "s'" in
  let A := fresh "A" in let B := fresh "B" in let C := fresh "C" in let D := fresh "D" in
  let E := fresh "E" in
  destruct (loop_run loop e mexpr Hstep Hleave 4999 d_0 E_0 (Rlit 0 (-1))
              (VErr UnboundLocalError) (VErr UnboundLocalError)
              d_0_pos E_0_start fuel_enough) as (n & ef' & m1' & s' & A & B & C & D & E);
  exists n; split; [exact A | split; [exact C |]];
  change loop_fuel with (S 4999); expose_R;
  change (PI / Rlit 40 (-1)) with d_0; change (PI / Rlit 20 (-1)) with E_0;
  rewrite E; clear E Hstep Hleave; unfold loop; clear loop;
  (* the tail *)
  unfold kep_out; fold (E_n e mexpr n) in B |- *;
  let HE := fresh "HE" in
  pose proof (E_n_range e mexpr n Hm) as HE;
  let En := fresh "En" in let dn := fresh "dn" in
  set (En := E_n e mexpr n) in *; set (dn := d_0 / 2 ^ n) in *;
  clearbody En dn; unfold TOLr in *;
  let G1 := fresh "G1" in let G2 := fresh "G2" in
  assert (G1 : Rabs (En * fR * (180 / PI)) < Rlit 3600 (-1)) by (apply deg_bound; [lra | exact Hf]);
  pose proof (sqrt_arg_ok e He) as G2;
  pyrunv_using ltac:(first [exact G2 | lra1]);
  angle_arg; rewrite Angle_new_rad by exact G1;
  pyrunv_using ltac:(first [exact G2 | lra1]);
  try (rewrite bind_ok by reflexivity; cbv beta);
  angle_arg; rewrite Angle_new_rad by apply atan_deg_bound;
  pyrunv_using ltac:(first [exact G2 | lra1]);
  reflexivity.
