(* assumptions of C09_body_Jupiter: the theorem in C09.v is [exact planet_full_Jupiter] *)
From Proofs.C09 Require Import C09_planets.
Redirect "C09_body_Jupiter.assumptions" Print Assumptions planet_full_Jupiter.
