(* C03: Angle.reduce_deg in the ideal instance = the independent reduction AngleSpec.red360,
   for every real and every integer argument. *)
From Coq Require Import Reals ZArith List Bool Lra Lia String.
From PyLib Require Import PyVal PyBuiltins Ideal IdealFacts Whnf PyEval.
From Spec Require Import AngleSpec.
From Gen Require Import M_base M_Angle.
From Proofs.C09 Require Import C09_A_defs.
Import ListNotations.
Open Scope R_scope.

(* Python's float % is used through the general lemma IdealFacts.fmod_py_nonneg *)
Ltac2 Set Whnf.is_blocked as old := fun c =>
  Ltac2.Bool.or (old c) (Ltac2.Constr.equal c '@fmod_py).

Lemma fl_Rfloor x : fl x = Rfloor x.
Proof. reflexivity. Qed.

Lemma reduce_deg_small x : Rabs x < 360 -> Angle_reduce_deg Rops (VFloat x) = VFloat x.
Proof. intros H. pyrun. reflexivity. Qed.

(* |x| >= 360: sign * (int(|x|) % 360 + |x| % 1) *)
Lemma reduce_deg_big_abs x : 360 <= Rabs x ->
  Angle_reduce_deg Rops (VFloat x) =
  VFloat (sgn x * (Rabs x - 360 * IZR (Rfloor (Rabs x / 360)))).
Proof.
  intros H.
  assert (0 <= Rabs x) as Ha by lra.
  pose proof (fmod_py_nonneg (Rabs x) 1 Ha ltac:(lra)) as Hm.
  change (Rabs x) with (f_abs Rops x) in Hm at 1. change 1 with (zf Rops 1) in Hm at 1.
  unfold sgn. destruct (Rle_dec 0 x) as [P|P].
  - pyrun. rewrite Rtrunc_nonneg by lra. rewrite Rfmod_1 by lra.
    rewrite (int_frac_mod (Rabs x) 360) by lia. Rlit_norm. f_equal. field.
  - pyrun. rewrite Rtrunc_nonneg by lra. rewrite Rfmod_1 by lra.
    rewrite (int_frac_mod (Rabs x) 360) by lia. Rlit_norm. f_equal. field.
Qed.

Theorem reduce_deg_float x : Angle_reduce_deg Rops (VFloat x) = VFloat (red360 x).
Proof.
  unfold red360. destruct (Rlt_dec (Rabs x) 360) as [H|H].
  - apply reduce_deg_small; assumption.
  - rewrite fl_Rfloor. apply reduce_deg_big_abs. lra.
Qed.

(* integer argument: abs(z) % 1 = 0 and int(abs z) % 360 are integer operations *)
Lemma reduce_deg_int_small z : (Z.abs z < 360)%Z -> Angle_reduce_deg Rops (VInt z) = VFloat (IZR z).
Proof.
  intros H. assert (IZR (Z.abs z) < 360) by (apply IZR_lt; assumption).
  pyrun. reflexivity.
Qed.

Lemma reduce_deg_int_big_pos p : (360 <= Z.pos p)%Z ->
  Angle_reduce_deg Rops (VInt (Z.pos p)) = VFloat (IZR (Z.pos p mod 360)).
Proof.
  intros H. assert (360 <= IZR (Z.abs (Z.pos p))) by (apply IZR_le; lia).
  pyrun. change (Z.abs (Z.pos p)) with (Z.pos p).
  rewrite Z.mod_1_r, Z.add_0_r. Rlit_norm. f_equal. field.
Qed.
Lemma reduce_deg_int_big_neg p : (360 <= Z.pos p)%Z ->
  Angle_reduce_deg Rops (VInt (Z.neg p)) = VFloat (- IZR (Z.pos p mod 360)).
Proof.
  intros H. assert (360 <= IZR (Z.abs (Z.neg p))) by (apply IZR_le; lia).
  pyrun. change (Z.abs (Z.neg p)) with (Z.pos p).
  rewrite Z.mod_1_r, Z.add_0_r. Rlit_norm. f_equal. field.
Qed.

Lemma mod360_IZR n : IZR (n mod 360) = IZR n - 360 * IZR (fl (IZR n / 360)).
Proof.
  rewrite fl_Rfloor, (Rfloor_div_Z (IZR n) 360) by lia. rewrite Rfloor_IZR.
  rewrite Z.mod_eq by lia. rewrite minus_IZR, mult_IZR. reflexivity.
Qed.

Theorem reduce_deg_int z : Angle_reduce_deg Rops (VInt z) = VFloat (red360 (IZR z)).
Proof.
  destruct (Z_lt_ge_dec (Z.abs z) 360) as [H|H].
  - rewrite red360_small by (rewrite <- abs_IZR; apply IZR_lt; assumption).
    apply reduce_deg_int_small; assumption.
  - destruct z as [|p|p]; [simpl in H; lia | |].
    + rewrite reduce_deg_int_big_pos by lia.
      rewrite red360_nonneg_big by (apply IZR_le; lia). rewrite mod360_IZR. reflexivity.
    + rewrite reduce_deg_int_big_neg by lia.
      rewrite red360_neg_big by (apply IZR_le; lia).
      replace (- IZR (Z.neg p)) with (IZR (Z.pos p)) by (rewrite <- opp_IZR; reflexivity).
      rewrite mod360_IZR. reflexivity.
Qed.
