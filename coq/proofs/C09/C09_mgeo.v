(* C09_mgeo: the GENERATED Minor.geocentric_position (elliptic regime e < 0.98 and near-parabolic
   regime e >= 0.98, |e-1| >= tol) and Minor.heliocentric_ecliptical_position, ideal instance,
   with kepler_equation / _near_parabolic / Sun.rectangular_coordinates_j2000 abstracted.
   The callee hypotheses are stated ONLY for the arguments the body really passes:
   kepler_equation at the two mean anomalies of the two light-time passes (eccentricity in
   [0, 0.98), inside the callee's domain [0,1)); _near_parabolic at the two times.
   For kepler_equation the hypotheses are shown to be satisfiable by what the model returns
   (kepler_sat_*, from the characterisation theorem of C11, copied as C09_K_kepler).
   For _near_parabolic they are NOT always satisfiable (the model raises ValueError for
   0.98 <= e < ~0.9975 far from perihelion: known finding): that theorem is a PARTIAL
   CORRECTNESS statement, conditional on the two calls returning.
   The parabolic regime |e-1| < tol runs a data-dependent while loop (Barker's equation by
   iteration) and is not covered here. *)
From Coq Require Import Reals ZArith List Bool Lra Lia String.
From PyLib Require Import PyVal PyBuiltins Ideal IdealFacts Whnf PyEval Sphere.
From Spec Require Import AngleSpec.
From Gen Require Import M_base M_Angle M_Epoch M_Coordinates M_Earth M_Sun M_Minor.
From Proofs.C09 Require Import C09_A_defs C09_A_reduce C09_A_construct C09_spec C09_geo C09_tac C09_mbody.
From Proofs.C09 Require C09_K_tac C09_K_kepler.
Import ListNotations.
Open Scope R_scope.

Ltac2 Set Whnf.is_blocked as old := fun c =>
  Ltac2.Bool.or (old c) (Ltac2.List.exist (Ltac2.Constr.equal c)
    ['@Angle___init__; '@Angle_to_positive; '@Angle_rad;
     '@f_kepler_equation; '@Minor__near_parabolic; '@Sun_rectangular_coordinates_j2000]).

(* what the model's kepler_equation returns inside its domain (C11's characterisation) *)
Lemma kepler_returns e M : 0 <= e < 1 ->
  exists Ed vd, f_kepler_equation Rops (VFloat e) (ang M) = VTuple [ang Ed; ang vd] /\ -360 < Ed < 360.
Proof.
  intro He. destruct (C09_K_kepler.kepler_ideal e M He) as (Ed & vd & K & k & R1 & _).
  exists Ed, vd. split; [exact K | lra].
Qed.

Section M.
(* any Minor object: fields _tol, _aa, _bb, _cc, _am, _bm, _cm, _q, _e, _i, _omega, _w, _t, _n, _a *)
Variables aa bb cc am bm cm q e inc om w tp n a : R.
Definition mobj : val R :=
  VObj cMinor [VFloat tol0; VFloat aa; VFloat bb; VFloat cc; VFloat am; VFloat bm; VFloat cm;
               VFloat q; VFloat e; ang inc; ang om; ang w; ep tp; VFloat n; VFloat a].
Variables kE kv : R -> R -> R.
Variables j sxj syj szj : R.
Hypothesis Hsun : Sun_rectangular_coordinates_j2000 Rops (ep j) = VTuple [VFloat sxj; VFloat syj; VFloat szj].

(* elliptic regime: mean anomaly red360(dt n), E to [0,360), r = a (1 - e cos E) *)
Definition vfE (dt : R) : R := kv e (red360 (dt * n)).
Definition rfE (dt : R) : R := a * (Rlit 10 (-1) - e * cos (pos360 (kE e (red360 (dt * n))) * (PI / 180))).
(* the two mean anomalies (degrees) handed to kepler_equation *)
Definition mA1 : R := red360 ((j - tp) * n).
Definition mA2 : R := red360 ((j - tp - tauM aa bb cc am bm cm w sxj syj szj (j - tp) vfE rfE) * n).

Section Elliptic.
Hypothesis He : e < Rlit 98 (-2).
(* the two calls of kepler_equation the body makes return (E, v) in degrees, E within (-360,360) *)
Hypothesis Hk1 : f_kepler_equation Rops (VFloat e) (ang mA1) = VTuple [ang (kE e mA1); ang (kv e mA1)].
Hypothesis HE1 : -360 < kE e mA1 < 360.
Hypothesis Hk2 : f_kepler_equation Rops (VFloat e) (ang mA2) = VTuple [ang (kE e mA2); ang (kv e mA2)].
Hypothesis HE2 : -360 < kE e mA2 < 360.
Hypothesis Hden : denM aa bb cc am bm cm w sxj syj szj (j - tp) vfE rfE <> 0.

Ltac py9_hook s tac ::=
  lazymatch s with
  | Angle___init__ Rops (VObj cAngle [VNone; VNone]) (VTuple [VFloat ?x]) (VDict [kw "radians" (VBool true)]) => rw_with s (init_rad x)
  | Angle___init__ Rops (VObj cAngle [VNone; VNone]) (VTuple [VFloat ?x]) (VDict []) => rw_with s (init_float_raw x)
  | Angle___init__ Rops (VObj cAngle [VNone; VNone]) (VTuple [VObj cAngle [VFloat ?d; VFloat ?t]]) (VDict []) => rw_with s (init_copy d t)
  | Angle_rad Rops (VObj cAngle [VFloat ?a; VFloat ?ta]) => rw_with s (rad_ideal a ta)
  | Angle_to_positive Rops (VObj cAngle [VFloat (kE ?e (red360 ((_ - _ - _) * _))); VFloat ?ta]) => rw_with s (to_positive_ideal (kE e mA2) ta HE2)
  | Angle_to_positive Rops (VObj cAngle [VFloat (kE ?e _); VFloat ?ta]) => rw_with s (to_positive_ideal (kE e mA1) ta HE1)
  | f_kepler_equation Rops _ (VObj cAngle [VFloat (red360 ((_ - _ - _) * _)); _]) => rw_with s Hk2
  | f_kepler_equation Rops _ _ => rw_with s Hk1
  | Sun_rectangular_coordinates_j2000 Rops _ => rw_with s Hsun
  end.
Ltac dec_m :=
  first [ sq_nonneg
        | match goal with |- _ <> 0 => exact Hden end
        | match goal with |- -1 <= _ => exact (proj1 (cospsiM_range _ _ _ _ _ _ _ _ _ _ _ _ _ Hden)) end
        | match goal with |- _ <= 1 => exact (proj2 (cospsiM_range _ _ _ _ _ _ _ _ _ _ _ _ _ Hden)) end
        | pylra ].
Theorem minor_geo_elliptic :
  Minor_geocentric_position Rops mobj (ep j) =
  VTuple [ang (raM aa bb cc am bm cm w sxj syj szj (j - tp) vfE rfE);
          ang (decM aa bb cc am bm cm w sxj syj szj (j - tp) vfE rfE);
          ang (psiM aa bb cc am bm cm w sxj syj szj (j - tp) vfE rfE)].
Proof. unfold ep, mobj, ang, angT, mA1, mA2 in *. pyrun9_using dec_m. reflexivity. Qed.
End Elliptic.

Section NearParabolic.
Variables npv npr : R -> R.
Hypothesis He1 : Rlit 98 (-2) <= e.
Hypothesis He2 : tol0 <= Rabs (e - 1).
(* PARTIAL CORRECTNESS: IF the two calls of _near_parabolic the body makes (at t - T and at
   t - T - tau) return (v, r) -- they may raise ValueError('No convergence') -- THEN ... *)
Definition tN2 : R := j - tp - tauM aa bb cc am bm cm w sxj syj szj (j - tp) npv npr.
Hypothesis Hnp1 : Minor__near_parabolic Rops mobj (VFloat (j - tp)) = VTuple [ang (npv (j - tp)); VFloat (npr (j - tp))].
Hypothesis Hnp2 : Minor__near_parabolic Rops mobj (VFloat tN2) = VTuple [ang (npv tN2); VFloat (npr tN2)].
Hypothesis Hden : denM aa bb cc am bm cm w sxj syj szj (j - tp) npv npr <> 0.
Ltac py9_hook s tac ::=
  lazymatch s with
  | Angle___init__ Rops (VObj cAngle [VNone; VNone]) (VTuple [VFloat ?x]) (VDict [kw "radians" (VBool true)]) => rw_with s (init_rad x)
  | Angle___init__ Rops (VObj cAngle [VNone; VNone]) (VTuple [VFloat ?x]) (VDict []) => rw_with s (init_float_raw x)
  | Angle___init__ Rops (VObj cAngle [VNone; VNone]) (VTuple [VObj cAngle [VFloat ?d; VFloat ?t]]) (VDict []) => rw_with s (init_copy d t)
  | Angle_rad Rops (VObj cAngle [VFloat ?a; VFloat ?ta]) => rw_with s (rad_ideal a ta)
  | Minor__near_parabolic Rops _ (VFloat (_ - _ - _)) => rw_with s Hnp2
  | Minor__near_parabolic Rops _ _ => rw_with s Hnp1
  | Sun_rectangular_coordinates_j2000 Rops _ => rw_with s Hsun
  end.
Ltac dec_m :=
  first [ sq_nonneg
        | match goal with |- _ <> 0 => exact Hden end
        | match goal with |- -1 <= _ => exact (proj1 (cospsiM_range _ _ _ _ _ _ _ _ _ _ _ _ _ Hden)) end
        | match goal with |- _ <= 1 => exact (proj2 (cospsiM_range _ _ _ _ _ _ _ _ _ _ _ _ _ Hden)) end
        | pylra ].
Theorem minor_geo_near_parabolic :
  Minor_geocentric_position Rops mobj (ep j) =
  VTuple [ang (raM aa bb cc am bm cm w sxj syj szj (j - tp) npv npr);
          ang (decM aa bb cc am bm cm w sxj syj szj (j - tp) npv npr);
          ang (psiM aa bb cc am bm cm w sxj syj szj (j - tp) npv npr)].
Proof. unfold ep, mobj, ang, angT, tol0, tN2 in *. pyrun9_using dec_m. reflexivity. Qed.
End NearParabolic.

(* heliocentric ecliptical position: always through kepler_equation (one call, at mA1) *)
Definition ecl_x (dt : R) : R :=
  rfE dt * (cos (om * (PI / 180)) * cos (w * (PI / 180) + vfE dt * (PI / 180))
            - sin (om * (PI / 180)) * sin (w * (PI / 180) + vfE dt * (PI / 180)) * cos (inc * (PI / 180))).
Definition ecl_y (dt : R) : R :=
  rfE dt * (sin (om * (PI / 180)) * cos (w * (PI / 180) + vfE dt * (PI / 180))
            + cos (om * (PI / 180)) * sin (w * (PI / 180) + vfE dt * (PI / 180)) * cos (inc * (PI / 180))).
Definition ecl_z (dt : R) : R :=
  rfE dt * sin (inc * (PI / 180)) * sin (w * (PI / 180) + vfE dt * (PI / 180)).
Section Helio.
Hypothesis Hk1 : f_kepler_equation Rops (VFloat e) (ang mA1) = VTuple [ang (kE e mA1); ang (kv e mA1)].
Hypothesis HE1 : -360 < kE e mA1 < 360.
Ltac py9_hook s tac ::=
  lazymatch s with
  | Angle___init__ Rops (VObj cAngle [VNone; VNone]) (VTuple [VFloat ?x]) (VDict [kw "radians" (VBool true)]) => rw_with s (init_rad x)
  | Angle___init__ Rops (VObj cAngle [VNone; VNone]) (VTuple [VFloat ?x]) (VDict []) => rw_with s (init_float_raw x)
  | Angle___init__ Rops (VObj cAngle [VNone; VNone]) (VTuple [VObj cAngle [VFloat ?d; VFloat ?t]]) (VDict []) => rw_with s (init_copy d t)
  | Angle_rad Rops (VObj cAngle [VFloat ?a; VFloat ?ta]) => rw_with s (rad_ideal a ta)
  | Angle_to_positive Rops (VObj cAngle [VFloat (kE ?e _); VFloat ?ta]) => rw_with s (to_positive_ideal (kE e mA1) ta HE1)
  | f_kepler_equation Rops _ _ => rw_with s Hk1
  end.
Theorem minor_helio :
  Minor_heliocentric_ecliptical_position Rops mobj (ep j) =
  VTuple [ang (red360 (lam_of (ecl_x (j - tp)) (ecl_y (j - tp)) * (180 / PI)));
          ang (red360 (bet_of (ecl_x (j - tp)) (ecl_y (j - tp)) (ecl_z (j - tp)) * (180 / PI)))].
Proof. unfold ep, mobj, ang, angT, mA1 in *. pyrun9_using ltac:(first [sq_nonneg | pylra]). reflexivity. Qed.
End Helio.
End M.

(* ---- the kepler_equation hypotheses are satisfiable by what the model returns ---- *)
(* for every object and epoch with 0 <= e < 0.98 there are kE, kv meeting the four hypotheses
   Hk1, HE1, Hk2, HE2 of minor_geo_elliptic (and Hk1, HE1 of minor_helio for 0 <= e < 1) *)
Lemma kepler_sat_helio e n tp j : 0 <= e < 1 ->
  exists kE kv : R -> R -> R,
    f_kepler_equation Rops (VFloat e) (ang (mA1 tp n j)) = VTuple [ang (kE e (mA1 tp n j)); ang (kv e (mA1 tp n j))]
    /\ -360 < kE e (mA1 tp n j) < 360.
Proof.
  intro He. destruct (kepler_returns e (mA1 tp n j) He) as (E1 & v1 & K & R1).
  exists (fun _ _ => E1), (fun _ _ => v1). split; assumption.
Qed.

Lemma kepler_sat_geo aa bb cc am bm cm e w tp n a j sxj syj szj : 0 <= e < 1 ->
  exists kE kv : R -> R -> R,
    let m1 := mA1 tp n j in let m2 := mA2 aa bb cc am bm cm e w tp n a kE kv j sxj syj szj in
    f_kepler_equation Rops (VFloat e) (ang m1) = VTuple [ang (kE e m1); ang (kv e m1)] /\ -360 < kE e m1 < 360 /\
    f_kepler_equation Rops (VFloat e) (ang m2) = VTuple [ang (kE e m2); ang (kv e m2)] /\ -360 < kE e m2 < 360.
Proof.
  intro He. set (m1 := mA1 tp n j).
  destruct (kepler_returns e m1 He) as (E1 & v1 & K1 & R1).
  set (m2 := mA2 aa bb cc am bm cm e w tp n a (fun _ _ => E1) (fun _ _ => v1) j sxj syj szj).
  destruct (kepler_returns e m2 He) as (E2 & v2 & K2 & R2).
  set (kE := fun (_ m : R) => if Req_EM_T m m1 then E1 else E2).
  set (kv := fun (_ m : R) => if Req_EM_T m m1 then v1 else v2).
  exists kE, kv. cbv zeta.
  assert (A1 : kE e m1 = E1) by (unfold kE; destruct (Req_EM_T m1 m1); [reflexivity | contradiction]).
  assert (B1 : kv e m1 = v1) by (unfold kv; destruct (Req_EM_T m1 m1); [reflexivity | contradiction]).
  assert (Em : mA2 aa bb cc am bm cm e w tp n a kE kv j sxj syj szj = m2).
  { unfold m2, mA2, tauM, gxM, gyM, gzM, hxM, hyM, hzM, vfE, rfE. fold (mA1 tp n j). fold m1.
    rewrite A1, B1. reflexivity. }
  fold m1. rewrite Em, A1, B1.
  split; [exact K1|]. split; [exact R1|].
  unfold kE, kv. destruct (Req_EM_T m2 m1) as [Eq | Ne].
  - rewrite Eq. split; [exact K1 | exact R1].
  - split; [exact K2 | exact R2].
Qed.

