(* C09_mgeo: the GENERATED Minor.geocentric_position (elliptic regime e < 0.98 and near-parabolic
   regime e >= 0.98, |e-1| >= tol) and Minor.heliocentric_ecliptical_position, ideal instance,
   with kepler_equation / _near_parabolic / Sun.rectangular_coordinates_j2000 abstracted.
   The parabolic regime |e-1| < tol runs a data-dependent while loop (Barker's equation by
   iteration) and is not covered here. *)
From Coq Require Import Reals ZArith List Bool Lra Lia String.
From PyLib Require Import PyVal PyBuiltins Ideal IdealFacts Whnf PyEval Sphere.
From Spec Require Import AngleSpec.
From Gen Require Import M_base M_Angle M_Epoch M_Coordinates M_Earth M_Sun M_Minor.
From Proofs.C09 Require Import C09_A_defs C09_A_reduce C09_A_construct C09_spec C09_geo C09_tac C09_mbody.
Import ListNotations.
Open Scope R_scope.

Ltac2 Set Whnf.is_blocked as old := fun c =>
  Ltac2.Bool.or (old c) (Ltac2.List.exist (Ltac2.Constr.equal c)
    ['@Angle___init__; '@Angle_to_positive; '@Angle_rad;
     '@f_kepler_equation; '@Minor__near_parabolic; '@Sun_rectangular_coordinates_j2000]).

Section M.
(* any Minor object: fields _tol, _aa, _bb, _cc, _am, _bm, _cm, _q, _e, _i, _omega, _w, _t, _n, _a *)
Variables aa bb cc am bm cm q e inc om w tp n a : R.
Definition mobj : val R :=
  VObj cMinor [VFloat tol0; VFloat aa; VFloat bb; VFloat cc; VFloat am; VFloat bm; VFloat cm;
               VFloat q; VFloat e; ang inc; ang om; ang w; ep tp; VFloat n; VFloat a].
(* kepler_equation(e, M) returns (E, v) in degrees, E within (-360, 360) *)
Variables kE kv : R -> R -> R.
Hypothesis Hkep : forall e m, f_kepler_equation Rops (VFloat e) (ang m) = VTuple [ang (kE e m); ang (kv e m)].
Hypothesis HkE : forall e m, -360 < kE e m < 360.
(* _near_parabolic(t) returns (v, r) *)
Variables npv npr : R -> R.
Hypothesis Hnp : forall t, Minor__near_parabolic Rops mobj (VFloat t) = VTuple [ang (npv t); VFloat (npr t)].
Variables j sxj syj szj : R.
Hypothesis Hsun : Sun_rectangular_coordinates_j2000 Rops (ep j) = VTuple [VFloat sxj; VFloat syj; VFloat szj].

(* elliptic regime: mean anomaly red360(dt n), E to [0,360), r = a (1 - e cos E) *)
Definition vfE (dt : R) : R := kv e (red360 (dt * n)).
Definition rfE (dt : R) : R := a * (Rlit 10 (-1) - e * cos (pos360 (kE e (red360 (dt * n))) * (PI / 180))).

Ltac py9_hook s tac ::=
  lazymatch s with
  | Angle___init__ Rops (VObj cAngle [VNone; VNone]) (VTuple [VFloat ?x]) (VDict [kw "radians" (VBool true)]) => rw_with s (init_rad x)
  | Angle___init__ Rops (VObj cAngle [VNone; VNone]) (VTuple [VFloat ?x]) (VDict []) => rw_with s (init_float_raw x)
  | Angle___init__ Rops (VObj cAngle [VNone; VNone]) (VTuple [VObj cAngle [VFloat ?d; VFloat ?t]]) (VDict []) => rw_with s (init_copy d t)
  | Angle_rad Rops (VObj cAngle [VFloat ?a; VFloat ?ta]) => rw_with s (rad_ideal a ta)
  | Angle_to_positive Rops (VObj cAngle [VFloat (kE ?e ?m); VFloat ?ta]) => rw_with s (to_positive_ideal (kE e m) ta (HkE e m))
  | f_kepler_equation Rops (VFloat ?e) (VObj cAngle [VFloat ?m; _]) => rw_with s (Hkep e m)
  | Minor__near_parabolic Rops _ (VFloat ?t) => rw_with s (Hnp t)
  | Sun_rectangular_coordinates_j2000 Rops _ => rw_with s Hsun
  end.

Section Elliptic.
Hypothesis He : e < Rlit 98 (-2).
Hypothesis Hden : denM aa bb cc am bm cm w sxj syj szj (j - tp) vfE rfE <> 0.
Ltac dec_m :=
  first [ sq_nonneg
        | match goal with |- _ <> 0 => exact Hden end
        | match goal with |- -1 <= _ => exact (proj1 (cospsiM_range _ _ _ _ _ _ _ _ _ _ _ _ _ Hden)) end
        | match goal with |- _ <= 1 => exact (proj2 (cospsiM_range _ _ _ _ _ _ _ _ _ _ _ _ _ Hden)) end
        | pylra ].
Theorem minor_geo_elliptic :
  Minor_geocentric_position Rops mobj (ep j) =
  VTuple [ang (raM aa bb cc am bm cm w sxj syj szj (j - tp) vfE rfE);
          ang (decM aa bb cc am bm cm w sxj syj szj (j - tp) vfE rfE);
          ang (psiM aa bb cc am bm cm w sxj syj szj (j - tp) vfE rfE)].
Proof. unfold ep, mobj, ang, angT. pyrun9_using dec_m. reflexivity. Qed.
End Elliptic.

Section NearParabolic.
Hypothesis He1 : Rlit 98 (-2) <= e.
Hypothesis He2 : tol0 <= Rabs (e - 1).
Hypothesis Hden : denM aa bb cc am bm cm w sxj syj szj (j - tp) npv npr <> 0.
Ltac dec_m :=
  first [ sq_nonneg
        | match goal with |- _ <> 0 => exact Hden end
        | match goal with |- -1 <= _ => exact (proj1 (cospsiM_range _ _ _ _ _ _ _ _ _ _ _ _ _ Hden)) end
        | match goal with |- _ <= 1 => exact (proj2 (cospsiM_range _ _ _ _ _ _ _ _ _ _ _ _ _ Hden)) end
        | pylra ].
Theorem minor_geo_near_parabolic :
  Minor_geocentric_position Rops mobj (ep j) =
  VTuple [ang (raM aa bb cc am bm cm w sxj syj szj (j - tp) npv npr);
          ang (decM aa bb cc am bm cm w sxj syj szj (j - tp) npv npr);
          ang (psiM aa bb cc am bm cm w sxj syj szj (j - tp) npv npr)].
Proof. unfold ep, mobj, ang, angT, tol0 in *. pyrun9_using dec_m. reflexivity. Qed.
End NearParabolic.

(* heliocentric ecliptical position: always through kepler_equation *)
Definition ecl_x (dt : R) : R :=
  rfE dt * (cos (om * (PI / 180)) * cos (w * (PI / 180) + vfE dt * (PI / 180))
            - sin (om * (PI / 180)) * sin (w * (PI / 180) + vfE dt * (PI / 180)) * cos (inc * (PI / 180))).
Definition ecl_y (dt : R) : R :=
  rfE dt * (sin (om * (PI / 180)) * cos (w * (PI / 180) + vfE dt * (PI / 180))
            + cos (om * (PI / 180)) * sin (w * (PI / 180) + vfE dt * (PI / 180)) * cos (inc * (PI / 180))).
Definition ecl_z (dt : R) : R :=
  rfE dt * sin (inc * (PI / 180)) * sin (w * (PI / 180) + vfE dt * (PI / 180)).
Theorem minor_helio :
  Minor_heliocentric_ecliptical_position Rops mobj (ep j) =
  VTuple [ang (red360 (lam_of (ecl_x (j - tp)) (ecl_y (j - tp)) * (180 / PI)));
          ang (red360 (bet_of (ecl_x (j - tp)) (ecl_y (j - tp)) (ecl_z (j - tp)) * (180 / PI)))].
Proof. unfold ep, mobj, ang, angT. pyrun9_using ltac:(first [sq_nonneg | pylra]). reflexivity. Qed.
End M.
