(* C09_spec: hand-written closed forms of the final stage of <Planet>.geocentric_position
   (direction of a vector, aberration / FK5 / nutation terms, elongation) and their
   properties.  Independent of the generated code; C09_planet.v shows that the generated
   body computes exactly these expressions. *)
From Coq Require Import Reals ZArith List Lra Lia.
From Interval Require Import Tactic.
From PyLib Require Import Ideal Sphere.
Open Scope R_scope.

(* ---------- direction of a vector ---------- *)
Definition lam_of (x y : R) : R := atan2 y x.
Definition bet_of (x y z : R) : R := atan2 z (sqrt (x * x + y * y)).
Definition norm3 (x y z : R) : R := sqrt (x * x + y * y + z * z).

Lemma rho_rho x y z : rho (rho x y) z = norm3 x y z.
Proof. unfold rho at 1, norm3. rewrite rho_sqr. reflexivity. Qed.

Lemma bet_of_range x y z : x <> 0 \/ y <> 0 -> - (PI / 2) < bet_of x y z < PI / 2.
Proof.
  intro H. unfold bet_of. fold (rho x y). pose proof (rho_pos x y H) as Hp.
  rewrite atan2_pos by assumption. pose proof (atan_bound (z / rho x y)). lra.
Qed.

(* lambda, beta are the spherical coordinates of (x,y,z): the vector is recovered exactly *)
Theorem final_stage_direction x y z : x <> 0 \/ y <> 0 ->
  let l := lam_of x y in let b := bet_of x y z in let d := norm3 x y z in
  x = d * (cos b * cos l) /\ y = d * (cos b * sin l) /\ z = d * sin b
  /\ - PI < l <= PI /\ - (PI / 2) < b < PI / 2 /\ 0 < d.
Proof.
  intros H l b d.
  assert (Hr : rho x y = d * cos b).
  { unfold d, b, bet_of. fold (rho x y). rewrite <- rho_rho. symmetry. apply rho_cos_atan2. }
  assert (Hz : z = d * sin b).
  { unfold d, b, bet_of. fold (rho x y). rewrite <- rho_rho. symmetry. apply rho_sin_atan2. }
  repeat split.
  - rewrite <- Rmult_assoc, <- Hr. unfold l, lam_of. symmetry. apply rho_cos_atan2.
  - rewrite <- Rmult_assoc, <- Hr. unfold l, lam_of. symmetry. apply rho_sin_atan2.
  - exact Hz.
  - apply atan2_bound.
  - apply atan2_bound.
  - apply (bet_of_range x y z H).
  - apply (bet_of_range x y z H).
  - unfold d. rewrite <- rho_rho. apply rho_pos. left.
    pose proof (rho_pos x y H). lra.
Qed.

(* ---------- elongation ---------- *)
Definition elong (b l ls : R) : R := acos (cos b * cos (l - ls)).

Lemma coscos_range a b : -1 <= cos a * cos b <= 1.
Proof.
  pose proof (COS_bound a) as [A1 A2]. pose proof (COS_bound b) as [B1 B2].
  split; nra.
Qed.

Theorem elongation_range b l ls : 0 <= elong b l ls <= PI.
Proof. unfold elong. apply acos_bound. Qed.

Theorem elongation_cos b l ls : cos (elong b l ls) = cos b * cos (l - ls).
Proof. unfold elong. apply cos_acos. apply coscos_range. Qed.

Theorem elongation_range_deg b l ls : 0 <= r2d (elong b l ls) <= 180.
Proof.
  pose proof (elongation_range b l ls) as [H1 H2]. rewrite <- r2d_PI. split.
  - replace 0 with (r2d 0) by (unfold r2d; lra). apply r2d_le; assumption.
  - apply r2d_le; assumption.
Qed.

(* the same angle as a scalar product: cos E = <u(l,b), u(ls,0)> *)
Theorem elongation_is_angle_to_sun b l ls :
  cos (elong b l ls) = dot (uvec l b) (uvec ls 0).
Proof.
  rewrite elongation_cos. unfold dot, uvec. rewrite sin_0, cos_0, cos_minus. ring.
Qed.

(* ---------- aberration (arc seconds) ---------- *)
Definition kab : R := 2049552 / 100000.
Definition ecc (t : R) : R := 16708634 / 1000000000 + t * (- (42037 / 1000000000) - t * (1267 / 10000000000)).
Definition abl (k e ls pie l b : R) : R := k * (- cos (ls - l) + e * cos (pie - l)) / cos b.
Definition abb (k e ls pie l b : R) : R := - k * sin b * (sin (ls - l) - e * sin (pie - l)).

Lemma ecc_range t : -40 <= t <= 40 -> 0 <= ecc t <= 2 / 100.
Proof. intro H. unfold ecc. split; interval. Qed.

Lemma abl_bound k e ls pie l b : 0 <= k -> 0 <= e -> 0 < cos b ->
  Rabs (abl k e ls pie l b) <= k * (1 + e) / cos b.
Proof.
  intros Hk He Hc. unfold abl, Rdiv. rewrite Rabs_mult, (Rabs_pos_eq (/ cos b)).
  2: { left. apply Rinv_0_lt_compat; assumption. }
  apply Rmult_le_compat_r. { left. apply Rinv_0_lt_compat; assumption. }
  rewrite Rabs_mult, (Rabs_pos_eq k) by assumption.
  apply Rmult_le_compat_l; [assumption|].
  pose proof (COS_bound (ls - l)). pose proof (COS_bound (pie - l)).
  apply Rabs_le. split; nra.
Qed.

Lemma abb_bound k e ls pie l b : 0 <= k -> 0 <= e ->
  Rabs (abb k e ls pie l b) <= k * (1 + e).
Proof.
  intros Hk He. unfold abb.
  pose proof (SIN_bound (ls - l)). pose proof (SIN_bound (pie - l)). pose proof (SIN_bound b).
  assert (Rabs (sin (ls - l) - e * sin (pie - l)) <= 1 + e) by (apply Rabs_le; split; nra).
  assert (Rabs (- k * sin b) <= k).
  { rewrite Rabs_mult, Rabs_Ropp, (Rabs_pos_eq k) by assumption.
    assert (Rabs (sin b) <= 1) by (apply Rabs_le; lra). nra. }
  rewrite Rabs_mult.
  pose proof (Rabs_pos (- k * sin b)). pose proof (Rabs_pos (sin (ls - l) - e * sin (pie - l))). nra.
Qed.

(* ---------- FK5 (arc seconds) ---------- *)
Definition fk5l (lp bh : R) : R := - (9033 / 100000) + 3916 / 100000 * (cos lp + sin lp) * tan bh.
Definition fk5b (lp : R) : R := 3916 / 100000 * (cos lp - sin lp).

Lemma fk5b_bound lp : Rabs (fk5b lp) <= 7832 / 100000.
Proof.
  unfold fk5b. pose proof (COS_bound lp). pose proof (SIN_bound lp). apply Rabs_le. split; nra.
Qed.

Lemma fk5l_bound lp bh T : Rabs (tan bh) <= T ->
  Rabs (fk5l lp bh) <= 9033 / 100000 + 7832 / 100000 * T.
Proof.
  intro HT. unfold fk5l.
  pose proof (COS_bound lp). pose proof (SIN_bound lp).
  assert (Rabs (cos lp + sin lp) <= 2) by (apply Rabs_le; split; lra).
  pose proof (Rabs_pos (tan bh)). pose proof (Rabs_pos (cos lp + sin lp)).
  assert (Rabs (3916 / 100000 * (cos lp + sin lp) * tan bh) <= 7832 / 100000 * T).
  { rewrite !Rabs_mult, (Rabs_pos_eq (3916 / 100000)) by lra. nra. }
  eapply Rle_trans. apply Rabs_triang. rewrite Rabs_Ropp, (Rabs_pos_eq (9033/100000)) by lra. lra.
Qed.

(* ---------- everything together: the apparent-place corrections stay below 0.02 degree ---------- *)
Lemma deg25 : 25 * (PI / 180) <= 43634 / 100000.
Proof. interval. Qed.

Lemma cos_25 b : Rabs b <= 25 * (PI / 180) -> 9063 / 10000 <= cos b.
Proof.
  intro H. assert (H1 : - (25 * (PI / 180)) <= b <= 25 * (PI / 180)) by (unfold Rabs in H; destruct (Rcase_abs b); lra). pose proof deg25.
  assert (- (43634 / 100000) <= b <= 43634 / 100000) by lra.
  interval with (i_bisect b).
Qed.

Lemma tan_25 b : Rabs b <= 25 * (PI / 180) -> Rabs (tan b) <= 4664 / 10000.
Proof.
  intro H. assert (H1 : - (25 * (PI / 180)) <= b <= 25 * (PI / 180)) by (unfold Rabs in H; destruct (Rcase_abs b); lra). pose proof deg25.
  assert (- (43634 / 100000) <= b <= 43634 / 100000) by lra.
  apply Rabs_le. split; interval with (i_bisect b).
Qed.

(* total displacement in longitude and latitude (arc seconds), with
   dpsi the nutation in longitude (bounded as in C08: 17.3 arcsec * 1.1) *)
Theorem corrections_small t ls pie l b lp bh dpsi :
  -40 <= t <= 40 -> Rabs b <= 25 * (PI / 180) -> Rabs bh <= 25 * (PI / 180) ->
  Rabs dpsi <= 1903 / 100 ->
  let dl := abl kab (ecc t) ls pie l b + fk5l lp bh + dpsi in
  let db := abb kab (ecc t) ls pie l b + fk5b lp in
  (Rabs dl + Rabs db) / 3600 <= 2 / 100.
Proof.
  intros Ht Hb Hbh Hpsi dl db.
  pose proof (ecc_range t Ht) as [He1 He2].
  pose proof (cos_25 b Hb) as Hc.
  assert (Hk : 0 <= kab) by (unfold kab; lra).
  pose proof (abl_bound kab (ecc t) ls pie l b Hk He1 ltac:(lra)) as A1.
  pose proof (abb_bound kab (ecc t) ls pie l b Hk He1) as A2.
  pose proof (fk5l_bound lp bh _ (tan_25 bh Hbh)) as A3.
  pose proof (fk5b_bound lp) as A4.
  assert (A5 : kab * (1 + ecc t) / cos b <= 2308 / 100).
  { unfold Rdiv. apply Rle_trans with (kab * (1 + 2 / 100) * / (9063 / 10000)).
    - apply Rmult_le_compat; try (unfold kab; nra).
      + left. apply Rinv_0_lt_compat. lra.
      + apply Rinv_le_contravar; lra.
    - unfold kab. lra. }
  assert (A6 : kab * (1 + ecc t) <= 2091 / 100) by (unfold kab; nra).
  assert (Rabs dl <= 2308 / 100 + (9033 / 100000 + 7832 / 100000 * (4664 / 10000)) + 1903 / 100).
  { unfold dl. eapply Rle_trans. apply Rabs_triang. eapply Rle_trans.
    apply Rplus_le_compat_r. apply Rabs_triang. lra. }
  assert (Rabs db <= 2091 / 100 + 7832 / 100000).
  { unfold db. eapply Rle_trans. apply Rabs_triang. lra. }
  lra.
Qed.
