(* assumptions of C09_body_Mercury: the theorem in C09.v is [exact planet_full_Mercury] *)
From Proofs.C09 Require Import C09_planets.
Redirect "C09_body_Mercury.assumptions" Print Assumptions planet_full_Mercury.
