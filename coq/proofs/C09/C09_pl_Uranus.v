(* C09_pl_Uranus: the GENERATED Uranus.geocentric_position, whole body, ideal instance.
   Callees abstracted, each hypothesis stated ONLY for the argument the body really passes:
   the planet at the caller's epoch j and at the shifted epoch j1, the Earth at j,
   Epoch.__isub__ for exactly (epoch j, tau_of ...), nutation_longitude / true_obliquity /
   Sun.apparent_geocentric_position at j1, ecliptical2equatorial at (LAMG, BETG, obl1) (this last
   hypothesis is discharged in C09_planets.v with C05's closed form ecl2eq_closed, so that RA/Dec
   are interpreted there).
   (One template for the seven planets.) *)
From Coq Require Import Reals ZArith List Bool Lra Lia String.
From PyLib Require Import PyVal PyBuiltins Ideal IdealFacts Whnf PyEval Sphere.
From Spec Require Import AngleSpec.
From Gen Require Import M_base M_Angle M_Epoch M_Coordinates M_Earth M_Sun M_Uranus.
From Proofs.C09 Require Import C09_A_defs C09_A_reduce C09_A_construct C09_A_ops C09_angle C09_spec C09_geo C09_tac C09_body.
Import ListNotations.
Open Scope R_scope.

Ltac2 Set Whnf.is_blocked as old := fun c =>
  Ltac2.Bool.or (old c) (Ltac2.List.exist (Ltac2.Constr.equal c)
    ['@Angle___init__; '@Angle___add__; '@Angle___iadd__; '@Angle___sub__; '@Angle_to_positive; '@Angle_rad;
     '@Epoch___isub__; '@M_Epoch.g_JDE2000;
     '@f_nutation_longitude; '@f_true_obliquity; '@f_ecliptical2equatorial;
     '@Sun_apparent_geocentric_position; '@Earth_geometric_heliocentric_position;
     '@Uranus_geometric_heliocentric_position]).

Section Planet.
(* planet at j: (lA,bA,rA); planet at j1: (l,b,r); Earth at j: (l0,b0,r0); at j1: nutation nut1,
   true obliquity obl1, Sun (sl1,sb1,sr1) -- degrees / AU *)
Variables lA bA rA l b r l0 b0 r0 nut1 obl1 sl1 sb1 sr1 raV decV : R.
Variables j j1 : R.
Hypothesis HPa : Uranus_geometric_heliocentric_position Rops (ep j) (VBool false) = VTuple [ang lA; ang bA; VFloat rA].
Hypothesis HPb : Uranus_geometric_heliocentric_position Rops (ep j1) (VBool false) = VTuple [ang l; ang b; VFloat r].
Hypothesis HE : Earth_geometric_heliocentric_position Rops (ep j) (VBool false) = VTuple [ang l0; ang b0; VFloat r0].
Hypothesis Hisub : Epoch___isub__ Rops (ep j) (VFloat (tau_of lA bA rA l0 b0 r0)) = ep j1.
Hypothesis HJ : M_Epoch.g_JDE2000 Rops = ep 2451545.
Hypothesis Hnut : f_nutation_longitude Rops (VTuple [ep j1]) (VDict []) = ang nut1.
Hypothesis Hobl : f_true_obliquity Rops (VTuple [ep j1]) (VDict []) = ang obl1.
Hypothesis Hsun : Sun_apparent_geocentric_position Rops (ep j1) (VBool true) = VTuple [ang sl1; ang sb1; VFloat sr1].

Hypothesis He2e : f_ecliptical2equatorial Rops (ang (LAMG l b r l0 b0 r0 j1 nut1)) (ang (BETG l b r l0 b0 r0 j1)) (ang obl1) = VTuple [ang raV; ang decV].

Hypothesis H1 : Rabs (dl1G l b r l0 b0 r0 j1) < 60.
Hypothesis H2 : Rabs (db1G l b r l0 b0 r0 j1) < 60.
Hypothesis H3 : Rabs (dl2aG l b r l0 b0 r0 j1) < 60.
Hypothesis H4 : cos (betG l b r l0 b0 r0) <> 0.

Lemma const_small : Rabs (Rlit (-9033) (-5)) < 60.
Proof. Rlit_norm. apply Rabs_def1; lra. Qed.

Ltac py9_hook s tac ::=
  lazymatch s with
  | Angle___init__ Rops (VObj cAngle [VNone; VNone]) (VTuple [VInt 0; VInt 0; VFloat ?x]) (VDict []) =>
      lazymatch x with
      | _ * (- cos _ + _) / cos _ => rw_with s (init_sec x H1)
      | - _ * sin _ * (_ - _) => rw_with s (init_sec x H2)
      | Rlit _ _ => rw_with s (init_sec x const_small)
      | _ * (cos _ + sin _) * tan _ => rw_with s (init_sec x H3)
      | _ * (cos ?a - sin ?a) => rw_with s (init_sec x (db2_small a))
      end
  | Angle___init__ Rops (VObj cAngle [VNone; VNone]) (VTuple [VFloat ?x]) (VDict [kw "radians" (VBool true)]) =>
      rw_with s (init_rad x)
  | Angle___init__ Rops (VObj cAngle [VNone; VNone]) (VTuple [VFloat ?x]) (VDict []) => rw_with s (init_float_raw x)
  | Angle___add__ Rops (VObj cAngle [VFloat ?a; VFloat ?ta]) (VObj cAngle [VFloat ?b; VFloat ?tb]) => rw_with s (add_AA a ta b tb)
  | Angle___add__ Rops (VObj cAngle [VFloat ?a; VFloat ?ta]) (VFloat ?b) => rw_with s (add_AF a ta b)
  | Angle___iadd__ Rops (VObj cAngle [VFloat ?a; VFloat ?ta]) (VObj cAngle [VFloat ?b; VFloat ?tb]) => rw_with s (iadd_AA a ta b tb)
  | Angle___sub__ Rops (VObj cAngle [VFloat ?a; VFloat ?ta]) (VFloat ?b) => rw_with s (sub_AF a ta b)
  | Angle_rad Rops (VObj cAngle [VFloat ?a; VFloat ?ta]) => rw_with s (rad_ideal a ta)
  | Angle_to_positive Rops (VObj cAngle [VFloat (red360 ?y); VFloat ?ta]) => rw_with s (to_positive_ideal (red360 y) ta (red360_range y))
  | Uranus_geometric_heliocentric_position Rops (VObj cEpoch [VFloat ?x]) _ =>
      (* never let a failing [exact] unfold the callee: choose the hypothesis syntactically *)
      tryif constr_eq x j then rw_with s HPa else rw_with s HPb
  | Earth_geometric_heliocentric_position Rops _ _ => rw_with s HE
  | Epoch___isub__ Rops _ _ => rw_with s Hisub
  | M_Epoch.g_JDE2000 Rops => rw_with s HJ
  | f_nutation_longitude Rops _ _ => rw_with s Hnut
  | f_true_obliquity Rops _ _ => rw_with s Hobl
  | Sun_apparent_geocentric_position Rops _ _ => rw_with s Hsun
  | f_ecliptical2equatorial Rops _ _ _ => rw_with s He2e
  end.
Ltac dec_planet :=
  first [ sq_nonneg
        | match goal with |- -1 <= cos ?a * cos ?b => exact (proj1 (coscos_range a b)) end
        | match goal with |- cos ?a * cos ?b <= 1 => exact (proj2 (coscos_range a b)) end
        | match goal with |- cos _ <> 0 => exact H4 end
        | pylra ].

Theorem body_Uranus :
  Uranus_geocentric_position Rops (ep j) =
  VTuple [ang raV; ang decV;
          ang (ELONG l b r l0 b0 r0 j1 nut1 sl1)].
Proof.
  unfold ep. pyrun9_using dec_planet. reflexivity.
Qed.
End Planet.
