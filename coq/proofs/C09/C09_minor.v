(* C09_minor: Minor.set of the regenerated model in the ideal (real-number) instance:
   the Gauss constants a,b,c,A,B,C, the semi-major axis in the two regimes of
   |e - 1| <= tol, the mean motion; and the spec-level meaning of the Gauss constants. *)
From Coq Require Import Reals ZArith List Bool Lra Lia String.
From PyLib Require Import PyVal PyBuiltins Ideal IdealFacts Whnf PyEval Sphere.
From Gen Require Import M_base M_Angle M_Epoch M_Minor.
Import ListNotations.
Open Scope R_scope.

Definition tol0 : R := Rlit 1 (-10).
Definition ang (d : R) : val R := VObj cAngle [VFloat d; VFloat tol0].
Definition ep (j : R) : val R := VObj cEpoch [VFloat j].
(* the object Minor.__init__ hands to set(): only _tol is assigned *)
Definition blankM : val R :=
  VObj cMinor [VFloat tol0; VNone; VNone; VNone; VNone; VNone; VNone; VNone; VNone; VNone; VNone;
               VNone; VNone; VNone; VNone].

(* sine / cosine of the J2000 obliquity as written in the source *)
Definition se : R := Rlit 397777156 (-9).
Definition ce : R := Rlit 917482062 (-9).
Definition d2 (x : R) : R := x * (PI / 180).
Definition gF (om : R) := cos (d2 om).
Definition gG (om : R) := sin (d2 om) * ce.
Definition gH (om : R) := sin (d2 om) * se.
Definition gP (om i : R) := - sin (d2 om) * cos (d2 i).
Definition gQ (om i : R) := cos (d2 om) * cos (d2 i) * ce - sin (d2 i) * se.
Definition gR (om i : R) := cos (d2 om) * cos (d2 i) * se + sin (d2 i) * ce.
Definition mean_motion (a : R) : R := Rlit 9856076686 (-10) / (a * sqrt a).

(* fields: _tol, _aa, _bb, _cc, _am, _bm, _cm, _q, _e, _i, _omega, _w, _t, _n, _a *)
Definition minor_obj (q e inc om w tp a : R) : val R :=
  VObj cMinor
    [VFloat tol0;
     VFloat (atan2 (gF om) (gP om inc)); VFloat (atan2 (gG om) (gQ om inc)); VFloat (atan2 (gH om) (gR om inc));
     VFloat (sqrt (gF om * gF om + gP om inc * gP om inc));
     VFloat (sqrt (gG om * gG om + gQ om inc * gQ om inc));
     VFloat (sqrt (gH om * gH om + gR om inc * gR om inc));
     VFloat q; VFloat e; ang inc; ang om; ang w; ep tp;
     VFloat (mean_motion a); VFloat a].

Ltac dec_minor :=
  first [ pylra
        | match goal with |- _ <= ?a * ?a + ?b * ?b =>
            apply Rplus_le_le_0_compat; [exact (Rle_0_sqr a) | exact (Rle_0_sqr b)] end
        | Rlit_norm_all; apply Rgt_not_eq, Rmult_lt_0_compat; [ | apply sqrt_lt_R0];
          first [ apply Rabs_pos_lt, Rgt_not_eq, Rdiv_lt_0_compat; lra
                | lra ] ].

(* elliptic / near-parabolic below 1: a = |q / (1 - e)| *)
Theorem minor_set_elliptic q e inc om w tp : 0 < q -> e < 1 - tol0 ->
  Minor_set Rops blankM (VFloat q) (VFloat e) (ang inc) (ang om) (ang w) (ep tp)
  = VTuple [minor_obj q e inc om w tp (Rabs (q / (Rlit 10 (-1) - e))); VNone].
Proof.
  intros Hq He. unfold blankM, ang, ep, tol0 in *.
  assert (0 < q / (1 - e)) by (apply Rdiv_lt_0_compat; Rlit_norm_all; lra).
  pyrun_using dec_minor. reflexivity.
Qed.

(* parabolic regime of set(): |e - 1| <= tol gives a = q *)
Theorem minor_set_parabolic q e inc om w tp : 0 < q -> Rabs (e - 1) <= tol0 ->
  Minor_set Rops blankM (VFloat q) (VFloat e) (ang inc) (ang om) (ang w) (ep tp)
  = VTuple [minor_obj q e inc om w tp q; VNone].
Proof.
  intros Hq He. unfold blankM, ang, ep, tol0 in *.
  assert (0 < sqrt q) by (apply sqrt_lt_R0; lra).
  assert (0 < q * sqrt q) by (apply Rmult_lt_0_compat; lra).
  pyrun_using dec_minor. reflexivity.
Qed.

(* wrong argument types are refused *)
Theorem minor_set_type q e inc om w tp :
  Minor_set Rops blankM (VInt q) (VFloat e) (ang inc) (ang om) (ang w) (ep tp) = VErr TypeError.
Proof. unfold blankM, ang, ep. pyrun. reflexivity. Qed.

(* [spec] meaning of the Gauss constants: with a = sqrt(F^2+P^2), A = atan2(F, P),
   a sin(A + u) = F cos u + P sin u, i.e. the equatorial x (resp. y, z with G,Q / H,R)
   of the unit vector at argument of latitude u *)
Theorem gauss_constant f p u :
  sqrt (f * f + p * p) * sin (atan2 f p + u) = f * cos u + p * sin u.
Proof.
  rewrite sin_plus.
  assert (E : sqrt (f * f + p * p) = rho p f) by (unfold rho; f_equal; ring).
  rewrite E.
  pose proof (rho_cos_atan2 f p) as Hc. pose proof (rho_sin_atan2 f p) as Hs.
  replace (rho p f * (sin (atan2 f p) * cos u + cos (atan2 f p) * sin u))
    with ((rho p f * sin (atan2 f p)) * cos u + (rho p f * cos (atan2 f p)) * sin u) by ring.
  rewrite Hc, Hs. reflexivity.
Qed.

(* the three Gauss pairs are the columns of Rx(eps) . Rz(Omega) . Rx(i) applied to (cos u, sin u, 0) *)
Theorem gauss_xyz om inc u :
  let x := sqrt (gF om * gF om + gP om inc * gP om inc) * sin (atan2 (gF om) (gP om inc) + u) in
  let y := sqrt (gG om * gG om + gQ om inc * gQ om inc) * sin (atan2 (gG om) (gQ om inc) + u) in
  let z := sqrt (gH om * gH om + gR om inc * gR om inc) * sin (atan2 (gH om) (gR om inc) + u) in
  let xe := cos (d2 om) * cos u - sin (d2 om) * sin u * cos (d2 inc) in
  let ye := sin (d2 om) * cos u + cos (d2 om) * sin u * cos (d2 inc) in
  let ze := sin (d2 inc) * sin u in
  x = xe /\ y = ye * ce - ze * se /\ z = ye * se + ze * ce.
Proof.
  cbv zeta. rewrite !gauss_constant. unfold gF, gG, gH, gP, gQ, gR. repeat split; ring.
Qed.
