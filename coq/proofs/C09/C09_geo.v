(* C09_geo: closed forms of the quantities formed by <Planet>.geocentric_position, written in
   the order of operations of the source (so that they are convertible with what the symbolic
   evaluation of the generated body produces), and shared tactics. *)
From Coq Require Import Reals ZArith List Bool Lra Lia String.
From PyLib Require Import PyVal PyBuiltins Ideal IdealFacts Whnf PyEval Sphere.
From Gen Require Import M_base M_Angle.
From Proofs.C09 Require Import C09_A_defs.
Import ListNotations.
Open Scope R_scope.

Definition ep (j : R) : val R := VObj cEpoch [VFloat j].
Definition dr (a : R) : R := a * (PI / 180).

(* heliocentric planet (l,b,r) minus heliocentric Earth (l0,b0,r0), degrees / AU *)
Definition vx (l b r l0 b0 r0 : R) : R := r * cos (dr b) * cos (dr l) - r0 * cos (dr b0) * cos (dr l0).
Definition vy (l b r l0 b0 r0 : R) : R := r * cos (dr b) * sin (dr l) - r0 * cos (dr b0) * sin (dr l0).
Definition vz (b r b0 r0 : R) : R := r * sin (dr b) - r0 * sin (dr b0).
(* light time in days: 0.0057755183 * distance *)
Definition tau_of (l b r l0 b0 r0 : R) : R :=
  Rlit 57755183 (-10) *
  sqrt (vx l b r l0 b0 r0 * vx l b r l0 b0 r0 + vy l b r l0 b0 r0 * vy l b r l0 b0 r0 + vz b r b0 r0 * vz b r b0 r0).

(* Angle.rad(): degrees -> radians *)
Lemma rad_ideal v t : Angle_rad Rops (angT v t) = VFloat (v * (PI / 180)).
Proof. unfold angT. pyrun. reflexivity. Qed.

Ltac rw_with s lem :=
  let T := type of lem in
  lazymatch T with
  | _ = ?r =>
      let r' := eval unfold ang, angT, ep in r in
      let E := fresh "Hrw" in
      assert (E : s = r') by exact lem; rewrite E; clear E
  end.

Ltac sq_nonneg :=
  repeat (apply Rplus_le_le_0_compat); match goal with |- _ <= ?a * ?a => exact (Rle_0_sqr a) end.
Ltac dec_geo := first [ assumption | sq_nonneg | pylra ].
