(* C09 (unconditional statements), planet-independent part: from the shape of the planet's
   heliocentric callee (C09_u_vsop.geo_nofk5_shape on its tables) and numeric separation conditions,
   every callee hypothesis of planet_full_<Planet> except Epoch.__isub__ is discharged:
   Earth (C07 theorems on the Earth's tables), nutation in longitude and true obliquity
   (C08_wide), Sun.apparent_geocentric_position (C08_app), |T| <= 40, |betG| <= 25 deg, |b| <= 25 deg. *)
From Coq Require Import Reals ZArith List Bool Lra Lia.
From Interval Require Import Tactic.
From PyLib Require Import PyVal PyBuiltins Ideal PyEval.
From Spec Require Import AngleSpec.
From Gen Require Import M_base M_Angle M_Epoch M_Coordinates M_Earth M_Sun.
From Proofs.C07 Require C07_dec C07_mono_code C07_mono_earth.
From Proofs.C08 Require C08_base C08_obliquity C08_nut_main C08_nut_bound C08_wide C08_app.
From Proofs.C09 Require Import C09_A_defs C09_spec C09_geo C09_body C09_u_vsop C09_u_geo.
Import ListNotations.
Open Scope R_scope.

(* ---- the Earth, tofk5 = False ---- *)
Lemma earth_wrapper_nofk5 jde :
  Earth_geometric_heliocentric_position Rops (ep jde) (VBool false) =
  f_geometric_vsop_pos Rops (ep jde) (g_VSOP87_L Rops) (g_VSOP87_B Rops) (g_VSOP87_R Rops) (VBool false).
Proof. reflexivity. Qed.

Definition bE : R := 1087 / 100000000.       (* rad: 2.24 arcsec *)

Lemma earth_shape jde : jde_lo <= jde <= jde_hi ->
  exists lon b r,
    Earth_geometric_heliocentric_position Rops (ep jde) (VBool false) = VTuple [ang lon; ang b; VFloat r] /\
    0 <= lon < 360 /\ Rabs (b * (PI / 180)) <= bE /\ 97 / 100 <= r <= 103 / 100.
Proof.
  intros Hj.
  destruct (geo_nofk5_shape _ _ _ C07_mono_earth.tL C07_mono_earth.tB C07_mono_earth.tR
              C07_mono_earth.tL_enc C07_mono_earth.tB_enc C07_mono_earth.tR_enc
              ltac:(discriminate) ltac:(discriminate) ltac:(discriminate)
              ltac:(vm_compute; reflexivity) ltac:(vm_compute; reflexivity)
              bE (100013988799 / 100000000000) (23 / 1000)) with (jde := jde) as (lon & b & r & H & Hl & Hb & Hr).
  - apply Rmult_le_reg_r with (IZR (10 ^ 15)); [apply IZR_lt; reflexivity|].
    unfold Rdiv at 1. rewrite Rmult_assoc, Rinv_l by (apply not_0_IZR; discriminate). rewrite Rmult_1_r.
    unfold bE. replace (1087 / 100000000 * 100000000 * IZR (10 ^ 15)) with (IZR (1087 * 10 ^ 15)) by (rewrite mult_IZR; field).
    apply IZR_le. vm_compute. discriminate.
  - apply Rmult_le_reg_r with (IZR (10 ^ 15)); [apply IZR_lt; reflexivity|].
    unfold Rdiv at 1. rewrite Rmult_assoc, Rinv_l by (apply not_0_IZR; discriminate). rewrite Rmult_1_r.
    replace (23 / 1000 * 100000000 * IZR (10 ^ 15)) with (IZR (2300000 * 10 ^ 15)) by (rewrite mult_IZR; field).
    apply IZR_le. vm_compute. discriminate.
  - unfold C07_dec.const_term, C07_mono_earth.tR, C07_dec.rlit. cbn [fst snd]. Rlit_norm. lra.
  - unfold bE. lra.
  - exact Hj.
  - exists lon, b, r. rewrite earth_wrapper_nofk5. repeat split; try assumption; lra.
Qed.

(* cos x >= 1 - x^2/2 and |sin x| <= |x| *)
Lemma cos_ge x : 1 - x * x / 2 <= cos x.
Proof.
  assert (E : cos x = 1 - 2 * sin (x / 2) * sin (x / 2)).
  { replace (cos x) with (cos (2 * (x / 2))) by (f_equal; field). apply cos_2a_sin. }
  rewrite E.
  pose proof (C08_nut_bound.abs_sin_le (x / 2)) as H. apply Rabs_bounds' in H.
  assert (H2 : - Rabs (x / 2) <= x / 2 <= Rabs (x / 2)) by (unfold Rabs; destruct (Rcase_abs (x / 2)); lra).
  set (s := sin (x / 2)) in *. set (a := Rabs (x / 2)) in *.
  assert (s * s <= a * a) by nra. assert (a * a = x / 2 * (x / 2)) by (unfold a, Rabs; destruct (Rcase_abs (x / 2)); ring).
  nra.
Qed.

Section Uncond.
(* the planet's heliocentric callee and its proved shape *)
Variable P : val R -> val R -> val R.
Variables (bmax c dr_ rhomin : R).
Hypothesis Pshape : forall jde, jde_lo <= jde <= jde_hi ->
  exists lon b r, P (ep jde) (VBool false) = VTuple [ang lon; ang b; VFloat r] /\
                  0 <= lon < 360 /\ Rabs (b * (PI / 180)) <= bmax /\ c - dr_ <= r <= c + dr_.
(* numeric separation of the planet's orbit from the Earth's *)
Hypothesis Hb25 : 0 <= bmax <= 43 / 100.
Hypothesis Hrpos : 0 < c - dr_.
Hypothesis Hrho : 0 < rhomin.
Hypothesis Hsep : forall A C, (c - dr_) * (1 - bmax * bmax / 2) <= A <= c + dr_ ->
  97 / 100 * (1 - bE * bE / 2) <= C <= 103 / 100 -> rhomin <= Rabs (A - C).
Hypothesis Hz : (c + dr_) * bmax + 103 / 100 * bE <= 4663 / 10000 * rhomin.

Lemma betG_25 l b r l0 b0 r0 :
  Rabs (b * (PI / 180)) <= bmax -> c - dr_ <= r <= c + dr_ ->
  Rabs (b0 * (PI / 180)) <= bE -> 97 / 100 <= r0 <= 103 / 100 ->
  Rabs (betG l b r l0 b0 r0) <= 25 * (PI / 180).
Proof.
  intros Hb Hr Hb0 Hr0. unfold betG, X2, Y2, Z2.
  fold (dr b) in Hb. fold (dr b0) in Hb0.
  pose proof (cos_ge (dr b)) as C1. pose proof (cos_ge (dr b0)) as C2.
  pose proof (COS_bound (dr b)) as [_ C1']. pose proof (COS_bound (dr b0)) as [_ C2'].
  pose proof (C08_nut_bound.abs_sin_le (dr b)) as S1. pose proof (C08_nut_bound.abs_sin_le (dr b0)) as S2.
  assert (Q1 : dr b * dr b <= bmax * bmax).
  { apply Rabs_bounds' in Hb. nra. }
  assert (Q2 : dr b0 * dr b0 <= bE * bE).
  { apply Rabs_bounds' in Hb0. unfold bE in *. nra. }
  assert (Hcb : 1 - bmax * bmax / 2 <= cos (dr b) <= 1) by lra.
  assert (Hcb0 : 1 - bE * bE / 2 <= cos (dr b0) <= 1) by lra.
  assert (Hcpos : 0 < 1 - bmax * bmax / 2) by nra.
  assert (HcEpos : 0 < 1 - bE * bE / 2) by (unfold bE; lra).
  set (A := r * cos (dr b)). set (C := r0 * cos (dr b0)).
  assert (HA : (c - dr_) * (1 - bmax * bmax / 2) <= A <= c + dr_) by (unfold A; split; nra).
  assert (HC : 97 / 100 * (1 - bE * bE / 2) <= C <= 103 / 100) by (unfold C; split; nra).
  pose proof (Hsep A C HA HC) as Hs.
  assert (HA0 : 0 <= A) by (unfold A; nra). assert (HC0 : 0 <= C) by (unfold C; nra).
  pose proof (xy_dist l b r l0 b0 r0 HA0 HC0) as Hd. fold A C in Hd.
  set (q := vx l b r l0 b0 r0 * vx l b r l0 b0 r0 + vy l b r l0 b0 r0 * vy l b r l0 b0 r0) in *.
  assert (Hrq : rhomin <= sqrt q).
  { eapply Rle_trans; [exact Hs|]. rewrite <- sqrt_Rsqr_abs. apply sqrt_le_1_alt. unfold Rsqr. exact Hd. }
  apply bet_le; fold q; [lra|].
  unfold vz.
  assert (Hzz : Rabs (r * sin (dr b) - r0 * sin (dr b0)) <= (c + dr_) * bmax + 103 / 100 * bE).
  { eapply Rle_trans; [apply Rabs_triang|]. rewrite Rabs_Ropp, !Rabs_mult.
    rewrite (Rabs_right r) by lra. rewrite (Rabs_right r0) by lra.
    pose proof (Rabs_pos (sin (dr b))). pose proof (Rabs_pos (sin (dr b0))).
    assert (Rabs (sin (dr b)) <= bmax) by lra. assert (Rabs (sin (dr b0)) <= bE) by lra.
    assert (0 <= bE) by (unfold bE; lra). nra. }
  nra.
Qed.

(* Julian centuries of C08 (Tc) and of C09 (tcen) *)
Lemma Tc_range j1 : jde_lo <= j1 <= jde_hi -> Rabs (C08_nut_main.Tc j1) <= 40 /\ -40 <= tcen j1 <= 40.
Proof.
  unfold jde_lo, jde_hi, C07_mono_code.jde_lo, C07_mono_code.jde_hi, C08_nut_main.Tc, tcen. intros [H1 H2].
  assert (E : (j1 - Rlit 24515450 (-1)) / Rlit 365250 (-1) = (j1 - 2451545) / 36525) by (Rlit_norm; field).
  rewrite E. split; [apply Rabs_le|]; split; lra.
Qed.

(* every callee hypothesis of planet_full_<Planet> except Epoch.__isub__ *)
Theorem callees_ok j j1 : jde_lo <= j <= jde_hi -> jde_lo <= j1 <= jde_hi ->
  exists lA bA rA l0 b0 r0 l b r nut1 obl1 sl1 sb1 sr1,
    P (ep j) (VBool false) = VTuple [ang lA; ang bA; VFloat rA] /\
    Earth_geometric_heliocentric_position Rops (ep j) (VBool false) = VTuple [ang l0; ang b0; VFloat r0] /\
    P (ep j1) (VBool false) = VTuple [ang l; ang b; VFloat r] /\
    f_nutation_longitude Rops (VTuple [ep j1]) (VDict []) = ang nut1 /\
    f_true_obliquity Rops (VTuple [ep j1]) (VDict []) = ang obl1 /\
    Sun_apparent_geocentric_position Rops (ep j1) (VBool true) = VTuple [ang sl1; ang sb1; VFloat sr1] /\
    -40 <= tcen j1 <= 40 /\
    Rabs (betG l b r l0 b0 r0) <= 25 * (PI / 180) /\
    Rabs (b * (PI / 180)) <= 25 * (PI / 180) /\
    Rabs (nut1 * 3600) <= 21 /\ 22 < obl1 < 25 /\ 0 <= sl1 < 360.
Proof.
  intros Hj Hj1.
  destruct (Pshape j Hj) as (lA & bA & rA & HPa & _ & _ & _).
  destruct (earth_shape j Hj) as (l0 & b0 & r0 & HE & _ & Hb0 & Hr0).
  destruct (Pshape j1 Hj1) as (l & b & r & HPb & _ & Hb & Hr).
  destruct (Tc_range j1 Hj1) as [HT Ht].
  destruct (C08_wide.nutation_longitude_shape40 j1 HT) as (dpsi & Hn & _ & Hdp).
  destruct (C08_wide.true_obliquity_closed40 j1 HT) as (deps & Ho & _ & _ & Hob).
  destruct (C08_app.sun_apparent_unconditional j1 HT) as (L & B & R0 & _ & Hs & HL & _ & _).
  exists lA, bA, rA, l0, b0, r0, l, b, r, (dpsi / 3600),
    (C08_obliquity.eps0 + C08_obliquity.laskar (C08_obliquity.uj j1) / 3600 + deps / 3600),
    (C08_sun.reflect_lon L), (- B), R0.
  split; [exact HPa|]. split; [exact HE|]. split; [exact HPb|]. split; [exact Hn|].
  split; [exact Ho|]. split; [exact Hs|]. split; [exact Ht|].
  split; [apply betG_25; assumption|].
  split; [assert (P25 : 43 / 100 <= 25 * (PI / 180)) by interval; lra|].
  split; [replace (dpsi / 3600 * 3600) with dpsi by field; exact Hdp|].
  split; [exact Hob|]. apply C08_sun.reflect_lon_range. lra.
Qed.
End Uncond.
