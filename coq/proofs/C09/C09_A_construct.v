(* C09_A_construct: subset of C03_construct.v (only the lemmas C09 needs).  C03: the constructor forms on one number, to_positive, rad, get_ra in the ideal instance.
   Angle.reduce_deg is abstracted (block list) and replaced by its characterisation
   C09_A_reduce.reduce_deg_float / reduce_deg_int. *)
From Coq Require Import Reals ZArith List Bool Lra Lia String.
From PyLib Require Import PyVal PyBuiltins Ideal IdealFacts Whnf PyEval.
From Spec Require Import AngleSpec.
From Gen Require Import M_base M_Angle.
From Proofs.C09 Require Import C09_A_defs C09_A_tac C09_A_reduce.
Import ListNotations.
Open Scope R_scope.

Ltac2 Set Whnf.is_blocked as old := fun c =>
  Ltac2.Bool.or (old c) (Ltac2.Constr.equal c '@Angle_reduce_deg).

Ltac pyA_hook s tac ::=
  lazymatch s with
  | Angle_reduce_deg Rops (VFloat ?x) => rewrite (reduce_deg_float x)
  | Angle_reduce_deg Rops (VInt ?z) => rewrite (reduce_deg_int z)
  end.

Lemma init_float x : mkA [VFloat x] = ang (red360 x).
Proof.
  unfold mkA, blank, no_kw. pyrunA. reflexivity.
Qed.

Lemma init_int z : mkA [VInt z] = ang (red360 (IZR z)).
Proof.
  unfold mkA, blank, no_kw. pyrunA. reflexivity.
Qed.

Lemma init_rad x : mkA_kw [VFloat x] "radians" = ang (red360 (x * (180 / PI))).
Proof.
  unfold mkA_kw, blank. pyrunA. reflexivity.
Qed.

(* no argument, copy constructor, one-element tuple / list *)
Lemma init_copy d t : mkA [angT d t] = angT d t.
Proof. unfold mkA, blank, no_kw, angT. pyrunA. reflexivity. Qed.

(* positive form *)
Lemma to_positive_ideal v t : -360 < v < 360 ->
  Angle_to_positive Rops (angT v t) = VTuple [angT (pos360 v) t; angT (pos360 v) t].
Proof.
  intros Hv. unfold pos360, angT. destruct (Rlt_dec v 0) as [N|N].
  - pyrunA. Rlit_norm.
    assert (3600 / 10 - Rabs v = 360 + v) as -> by (rewrite Rabs_left by lra; lra).
    reflexivity.
  - pyrunA. reflexivity.
Qed.

(* views *)
Lemma rad_ideal v t : Angle_rad Rops (angT v t) = VFloat (v * (PI / 180)).
Proof. unfold angT. pyrunA. reflexivity. Qed.

(* raw forms used as rewrite rules by the operator proofs *)
Lemma init_float_raw r :
  Angle___init__ Rops (VObj cAngle [VNone; VNone]) (VTuple [VFloat r]) (VDict []) = ang (red360 r).
Proof. exact (init_float r). Qed.
Lemma init_int_raw z :
  Angle___init__ Rops (VObj cAngle [VNone; VNone]) (VTuple [VInt z]) (VDict []) = ang (red360 (IZR z)).
Proof. exact (init_int z). Qed.
