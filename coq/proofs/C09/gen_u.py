import importlib, math, sys
from fractions import Fraction as F
sys.path.insert(0,'/repo')
PLANETS=["Mercury","Venus","Mars","Jupiter","Saturn","Uranus","Neptune"]
TEMPLATE = r'''(* C09_u_@P@: @P@.geocentric_position with every callee hypothesis about VSOP87, nutation, obliquity
   and the Sun discharged (generated from one template for the seven planets, /verif/coq/proofs/C09/gen_u.py).
   Imported: property C07 (VSOP87 evaluator = direct sum, amplitude envelopes of the regenerated tables)
   and property C08 (nutation structure, true obliquity, Sun.apparent_geocentric_position).
   Only hypothesis left about a callee: Epoch.__isub__(epoch, tau) = Epoch(j1) (calendar round trip, C02). *)
From Coq Require Import Reals ZArith List Bool Lra Lia.
From PyLib Require Import PyVal PyBuiltins Ideal PyEval.
From Gen Require Import M_base M_Angle M_Epoch M_Coordinates M_Earth M_Sun.
From Gen Require M_@P@.
From Proofs.C07 Require C07_lib C07_dec C07_mono_code C07_mono_@p@.
From Proofs.C09 Require Import C09_A_defs C09_spec C09_geo C09_body C09_planets C09_u_vsop C09_u_geo C09_u_body.
Import ListNotations.
Open Scope R_scope.

Lemma wrapper_@P@ jde :
  M_@P@.@P@_geometric_heliocentric_position Rops (ep jde) (VBool false) =
  f_geometric_vsop_pos Rops (ep jde) (M_@P@.g_VSOP87_L Rops) (M_@P@.g_VSOP87_B Rops) (M_@P@.g_VSOP87_R Rops) (VBool false).
Proof. reflexivity. Qed.

(* heliocentric latitude |b| <= @BMAX@ rad, radius vector within @C@ -+ @DR@ AU (amplitude sums, |t| <= 4 millennia) *)
Definition bmax : R := @BMAXN@ / 1000000.
Definition cc : R := @CN@ / 100000000000.
Definition drr : R := @DRN@ / 100000.
Definition rhomin : R := @RHON@ / 10000.

Lemma shape_@P@ jde : jde_lo <= jde <= jde_hi ->
  exists lon b r,
    M_@P@.@P@_geometric_heliocentric_position Rops (ep jde) (VBool false) = VTuple [ang lon; ang b; VFloat r] /\
    0 <= lon < 360 /\ Rabs (b * (PI / 180)) <= bmax /\ cc - drr <= r <= cc + drr.
Proof.
  intros Hj.
  destruct (geo_nofk5_shape _ _ _ C07_mono_@p@.tL C07_mono_@p@.tB C07_mono_@p@.tR
              C07_mono_@p@.tL_enc C07_mono_@p@.tB_enc C07_mono_@p@.tR_enc
              ltac:(discriminate) ltac:(discriminate) ltac:(discriminate)
              ltac:(vm_compute; reflexivity) ltac:(vm_compute; reflexivity)
              bmax cc drr) with (jde := jde) as (lon & b & r & H & Hl & Hb & Hr).
  - apply Rmult_le_reg_r with (IZR (10 ^ 15)); [apply IZR_lt; reflexivity|].
    unfold Rdiv at 1. rewrite Rmult_assoc, Rinv_l by (apply not_0_IZR; discriminate). rewrite Rmult_1_r.
    unfold bmax. replace (@BMAXN@ / 1000000 * 100000000 * IZR (10 ^ 15)) with (IZR (@BMAXN@ * 100 * 10 ^ 15)) by (rewrite !mult_IZR; field).
    apply IZR_le. vm_compute. discriminate.
  - apply Rmult_le_reg_r with (IZR (10 ^ 15)); [apply IZR_lt; reflexivity|].
    unfold Rdiv at 1. rewrite Rmult_assoc, Rinv_l by (apply not_0_IZR; discriminate). rewrite Rmult_1_r.
    unfold drr. replace (@DRN@ / 100000 * 100000000 * IZR (10 ^ 15)) with (IZR (@DRN@ * 1000 * 10 ^ 15)) by (rewrite !mult_IZR; field).
    apply IZR_le. vm_compute. discriminate.
  - unfold C07_dec.const_term, C07_mono_@p@.tR, C07_dec.rlit, cc. cbn [fst snd]. Rlit_norm. lra.
  - unfold bmax. lra.
  - exact Hj.
  - exists lon, b, r. rewrite wrapper_@P@. split; [exact H|]. split; [exact Hl|]. split; [exact Hb | exact Hr].
Qed.

Lemma sep_@P@ A C : (cc - drr) * (1 - bmax * bmax / 2) <= A <= cc + drr ->
  97 / 100 * (1 - bE * bE / 2) <= C <= 103 / 100 -> rhomin <= Rabs (A - C).
Proof.
  unfold cc, drr, bmax, bE, rhomin. intros HA HC. unfold Rabs. destruct (Rcase_abs (A - C)); lra.
Qed.

(* [ideal, generated code] @P@.geocentric_position for every epoch j in years -2000 .. 6000: the callees
   return (lA,bA,rA), (l0,b0,r0) at j and - at whatever epoch j1 (in the same range) Epoch.__isub__ yields
   for the light time tau_of(...) - (l,b,r), nut1, obl1, sl1; the result is the closed form of
   C09_body_@P@ with RA in [0,360), Dec in [-90,90], elongation in [0,180] *)
Theorem C09_body_@P@_unconditional j j1 : jde_lo <= j <= jde_hi -> jde_lo <= j1 <= jde_hi ->
  exists lA bA rA l0 b0 r0 l b r nut1 obl1 sl1 sb1 sr1,
    M_@P@.@P@_geometric_heliocentric_position Rops (ep j) (VBool false) = VTuple [ang lA; ang bA; VFloat rA] /\
    Earth_geometric_heliocentric_position Rops (ep j) (VBool false) = VTuple [ang l0; ang b0; VFloat r0] /\
    M_@P@.@P@_geometric_heliocentric_position Rops (ep j1) (VBool false) = VTuple [ang l; ang b; VFloat r] /\
    f_nutation_longitude Rops (VTuple [ep j1]) (VDict []) = ang nut1 /\
    f_true_obliquity Rops (VTuple [ep j1]) (VDict []) = ang obl1 /\
    Sun_apparent_geocentric_position Rops (ep j1) (VBool true) = VTuple [ang sl1; ang sb1; VFloat sr1] /\
    (Epoch___isub__ Rops (ep j) (VFloat (tau_of lA bA rA l0 b0 r0)) = ep j1 ->
     M_@P@.@P@_geocentric_position Rops (ep j) =
     VTuple [ang (RAG l b r l0 b0 r0 j1 nut1 obl1); ang (DECG l b r l0 b0 r0 j1 nut1 obl1);
             ang (ELONG l b r l0 b0 r0 j1 nut1 sl1)]) /\
    0 <= RAG l b r l0 b0 r0 j1 nut1 obl1 < 360 /\ -90 <= DECG l b r l0 b0 r0 j1 nut1 obl1 <= 90 /\
    0 <= ELONG l b r l0 b0 r0 j1 nut1 sl1 <= 180 /\
    Rabs (nut1 * 3600) <= 21 /\ 22 < obl1 < 25.
Proof.
  intros Hj Hj1.
  destruct (callees_ok (M_@P@.@P@_geometric_heliocentric_position Rops) bmax cc drr rhomin shape_@P@
              ltac:(unfold bmax; lra) ltac:(unfold cc, drr; lra) ltac:(unfold rhomin; lra) sep_@P@
              ltac:(unfold cc, drr, bmax, bE, rhomin; lra) j j1 Hj Hj1)
    as (lA & bA & rA & l0 & b0 & r0 & l & b & r & nut1 & obl1 & sl1 & sb1 & sr1 &
        HPa & HE & HPb & Hn & Ho & Hs & Ht & Hbet & Hb & Hnb & Hob & _).
  exists lA, bA, rA, l0, b0, r0, l, b, r, nut1, obl1, sl1, sb1, sr1.
  split; [exact HPa|]. split; [exact HE|]. split; [exact HPb|]. split; [exact Hn|]. split; [exact Ho|].
  split; [exact Hs|].
  split; [intro Hi; exact (planet_full_@P@ lA bA rA l b r l0 b0 r0 nut1 obl1 sl1 sb1 sr1 j j1 HPa HPb HE Hi Hn Ho Hs Ht Hbet Hb)|].
  pose proof (body_radec l b r l0 b0 r0 j1 nut1 obl1 (BETG_range l b r l0 b0 r0 j1 Ht Hbet)) as (_ & Hra & Hdec).
  pose proof (body_elongation l b r l0 b0 r0 j1 nut1 sl1) as (_ & Hel & _).
  repeat split; try apply Hra; try apply Hdec; try apply Hel; try exact Hnb; apply Hob.
Qed.

Redirect "C09_body_@P@_unconditional.assumptions" Print Assumptions C09_body_@P@_unconditional.
'''
bE=1087e-8
for p in PLANETS:
    m=importlib.import_module("pymeeus."+p)
    R=m.VSOP87_R; B=m.VSOP87_B
    cexact=F(repr(R[0][0][0]))
    nb=sum(sum(F(repr(abs(t[0]))) for t in s)*4**i for i,s in enumerate(B))/10**8
    nr=(sum(F(repr(abs(t[0]))) for t in R[0][1:])+sum(sum(F(repr(abs(t[0]))) for t in s)*4**i for i,s in enumerate(R) if i>0))/10**8
    bmaxN=math.ceil(nb*10**6)+1
    drN=math.ceil(nr*10**5)+1
    cN=cexact*1000
    assert cN.denominator==1
    c=float(cexact)/1e8; bm=bmaxN/1e6; dr=drN/1e5
    if c<1: rho=0.97*(1-bE*bE/2)-(c+dr)
    else: rho=(c-dr)*(1-bm*bm/2)-1.03
    rhoN=math.floor(rho*10**4)-1
    assert (c+dr)*bm+1.03*bE <= 0.4663*rhoN/1e4, p
    s=TEMPLATE.replace("@P@",p).replace("@p@",p.lower()).replace("@BMAXN@",str(bmaxN)).replace("@DRN@",str(drN)).replace("@CN@",str(cN.numerator)).replace("@RHON@",str(rhoN)).replace("@BMAX@","%.6f"%bm).replace("@C@","%.5f"%c).replace("@DR@","%.5f"%dr)
    open('/verif/coq/proofs/C09/C09_u_%s.v'%p,'w').write(s)
    print(p,bmaxN,drN,cN.numerator,rhoN)

# ---- total statements (thorough tier): C09_t_<Planet>.v
TOTAL = r'''(* C09_t_@P@ (thorough tier): @P@.geocentric_position with NO premise about any callee (generated from
   one template, gen_u.py).  As C09_body_@P@_unconditional, and the shifted epoch is the one the code
   computes: j1 = j - tau, tau = 0.0057755183 * |planet(j) - Earth(j)|; Epoch.__isub__ is discharged with
   property C02's Epoch_sub_ideal (calendar round trip of the Epoch constructor exact over the reals). *)
From Coq Require Import Reals ZArith List Bool Lra Lia.
From PyLib Require Import PyVal PyBuiltins Ideal PyEval.
From Gen Require Import M_base M_Angle M_Epoch M_Coordinates M_Earth M_Sun.
From Gen Require M_@P@.
From Proofs.C09 Require Import C09_A_defs C09_spec C09_geo C09_body C09_planets C09_u_vsop C09_u_geo C09_u_body C09_t_body.
From Proofs.C09 Require C09_u_@P@.
Import ListNotations.
Open Scope R_scope.

(* [ideal, generated code] for every epoch j from one day after the start of year -2000 to year 6000 *)
Theorem C09_body_@P@_total j : jde_lo + 1 <= j <= jde_hi ->
  exists lA bA rA l0 b0 r0 l b r nut1 obl1 sl1 sb1 sr1,
    let j1 := j - tau_of lA bA rA l0 b0 r0 in
    M_@P@.@P@_geometric_heliocentric_position Rops (ep j) (VBool false) = VTuple [ang lA; ang bA; VFloat rA] /\
    Earth_geometric_heliocentric_position Rops (ep j) (VBool false) = VTuple [ang l0; ang b0; VFloat r0] /\
    Epoch___isub__ Rops (ep j) (VFloat (tau_of lA bA rA l0 b0 r0)) = ep j1 /\
    j - 1 <= j1 <= j /\
    M_@P@.@P@_geometric_heliocentric_position Rops (ep j1) (VBool false) = VTuple [ang l; ang b; VFloat r] /\
    f_nutation_longitude Rops (VTuple [ep j1]) (VDict []) = ang nut1 /\
    f_true_obliquity Rops (VTuple [ep j1]) (VDict []) = ang obl1 /\
    Sun_apparent_geocentric_position Rops (ep j1) (VBool true) = VTuple [ang sl1; ang sb1; VFloat sr1] /\
    M_@P@.@P@_geocentric_position Rops (ep j) =
      VTuple [ang (RAG l b r l0 b0 r0 j1 nut1 obl1); ang (DECG l b r l0 b0 r0 j1 nut1 obl1);
              ang (ELONG l b r l0 b0 r0 j1 nut1 sl1)] /\
    0 <= RAG l b r l0 b0 r0 j1 nut1 obl1 < 360 /\ -90 <= DECG l b r l0 b0 r0 j1 nut1 obl1 <= 90 /\
    0 <= ELONG l b r l0 b0 r0 j1 nut1 sl1 <= 180 /\
    Rabs (nut1 * 3600) <= 21 /\ 22 < obl1 < 25.
Proof.
  intros Hj.
  destruct (callees_total (M_@P@.@P@_geometric_heliocentric_position Rops)
              C09_u_@P@.bmax C09_u_@P@.cc C09_u_@P@.drr C09_u_@P@.rhomin C09_u_@P@.shape_@P@
              ltac:(unfold C09_u_@P@.bmax; lra) ltac:(unfold C09_u_@P@.cc, C09_u_@P@.drr; lra)
              ltac:(unfold C09_u_@P@.rhomin; lra) C09_u_@P@.sep_@P@
              ltac:(unfold C09_u_@P@.cc, C09_u_@P@.drr, C09_u_@P@.bmax, bE, C09_u_@P@.rhomin; lra)
              ltac:(unfold C09_u_@P@.cc, C09_u_@P@.drr; lra) j Hj)
    as (lA & bA & rA & l0 & b0 & r0 & l & b & r & nut1 & obl1 & sl1 & sb1 & sr1 & H).
  cbv zeta in H.
  destruct H as (HPa & HE & Hi & Hj1 & HPb & Hn & Ho & Hs & Ht & Hbet & Hb & Hnb & Hob).
  exists lA, bA, rA, l0, b0, r0, l, b, r, nut1, obl1, sl1, sb1, sr1. cbv zeta.
  set (j1 := j - tau_of lA bA rA l0 b0 r0) in *.
  split; [exact HPa|]. split; [exact HE|]. split; [exact Hi|]. split; [exact Hj1|]. split; [exact HPb|].
  split; [exact Hn|]. split; [exact Ho|]. split; [exact Hs|].
  split; [exact (planet_full_@P@ lA bA rA l b r l0 b0 r0 nut1 obl1 sl1 sb1 sr1 j j1 HPa HPb HE Hi Hn Ho Hs Ht Hbet Hb)|].
  pose proof (body_radec l b r l0 b0 r0 j1 nut1 obl1 (BETG_range l b r l0 b0 r0 j1 Ht Hbet)) as (_ & Hra & Hdec).
  pose proof (body_elongation l b r l0 b0 r0 j1 nut1 sl1) as (_ & Hel & _).
  repeat split; try apply Hra; try apply Hdec; try apply Hel; try exact Hnb; apply Hob.
Qed.

Redirect "C09_body_@P@_total.assumptions" Print Assumptions C09_body_@P@_total.
'''
for p in PLANETS:
    open('/verif/coq/proofs/C09/C09_t_%s.v' % p, 'w').write(TOTAL.replace("@P@", p))
