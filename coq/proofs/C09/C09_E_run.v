(* C05: evaluation set-up for the coordinate routines: bounds that the evaluator needs
   (asin arguments, degree ranges) and a pyrun hook that replaces calls of the Angle
   constructor / to_positive by their characterisations from C09_E_angle. *)
From Coq Require Import Reals ZArith List String Lra Lia Psatz.
From PyLib Require Import PyVal PyBuiltins Ideal Whnf PyEval Sphere.
From Gen Require Import M_base M_Angle.
From Proofs.C09 Require Import C09_E_angle.
Import ListNotations.
Open Scope R_scope.

(* |p r - q s t| <= 1 and |p r + q s t| <= 1 for unit pairs (p,q), (r,s) and |t| <= 1 *)
Lemma comb_bound p q r s t : p * p + q * q = 1 -> r * r + s * s = 1 -> -1 <= t <= 1 ->
  -1 <= p * r - q * s * t <= 1.
Proof.
  intros H H0 H1.
  assert ((p * r - q * s * t) * (p * r - q * s * t) <= 1).
  { assert (t * t <= 1) by nra.
    assert (Hp : p * p = 1 - q * q) by lra.
    assert (E : (p * r - q * s * t) * (p * r - q * s * t) + (p * s * t + q * r) * (p * s * t + q * r)
                = r * r + s * s * (t * t)) by ring [Hp].
    assert (s * s * (t * t) <= s * s) by nra.
    assert (0 <= (p * s * t + q * r) * (p * s * t + q * r)) by (apply Rle_0_sqr).
    set (X := (p * r - q * s * t) * (p * r - q * s * t)) in *.
    set (W := (p * s * t + q * r) * (p * s * t + q * r)) in *.
    set (ST := s * s * (t * t)) in *. lra. }
  split; nra.
Qed.

Lemma sc1 a : sin a * sin a + cos a * cos a = 1.
Proof. pose proof (sin2_eq a). lra. Qed.
Lemma cs1 a : cos a * cos a + sin a * sin a = 1.
Proof. pose proof (sin2_eq a). lra. Qed.

(* sin d cos e - cos d sin e sin a    (ecliptical latitude) *)
Lemma zr_minus_sin d e a : -1 <= sin d * cos e - cos d * sin e * sin a <= 1.
Proof. apply comb_bound; [apply sc1 | apply cs1 | apply SIN_bound]. Qed.
(* sin b cos e + cos b sin e sin l    (declination from ecliptical) *)
Lemma zr_plus_sin d e a : -1 <= sin d * cos e + cos d * sin e * sin a <= 1.
Proof.
  pose proof (comb_bound (sin d) (cos d) (cos e) (sin e) (- sin a) (sc1 d) (cs1 e)) as H.
  pose proof (SIN_bound a). replace (sin d * cos e - cos d * sin e * - sin a)
    with (sin d * cos e + cos d * sin e * sin a) in H by ring. apply H. lra.
Qed.
(* sin p sin d + cos p cos d cos h    (altitude, galactic latitude) *)
Lemma zr_plus_cos p d h : -1 <= sin p * sin d + cos p * cos d * cos h <= 1.
Proof.
  pose proof (comb_bound (sin p) (cos p) (sin d) (cos d) (- cos h) (sc1 p) (sc1 d)) as H.
  pose proof (COS_bound h). replace (sin p * sin d - cos p * cos d * - cos h)
    with (sin p * sin d + cos p * cos d * cos h) in H by ring. apply H. lra.
Qed.
(* sin p sin e - cos p cos e cos A    (declination from horizontal) *)
Lemma zr_minus_cos p d h : -1 <= sin p * sin d - cos p * cos d * cos h <= 1.
Proof. apply comb_bound; [apply sc1 | apply sc1 | apply COS_bound]. Qed.

Lemma sqr_sum_nonneg a b : 0 <= a * a + b * b.
Proof. nra. Qed.

Lemma atan2_deg_bound y x : -180 < atan2 y x * (180 / PI) <= 180.
Proof.
  pose proof (atan2_bound y x) as [H1 H2].
  apply r2d_lt in H1. apply r2d_le in H2. rewrite r2d_opp, r2d_PI in *. unfold r2d in *. lra.
Qed.
Lemma asin_deg_bound z : -90 <= asin z * (180 / PI) <= 90.
Proof. apply asin_range_deg. Qed.

(* decision tactic: degree ranges of atan2 / asin results, then linear arithmetic *)
Ltac sph_dec :=
  expose_R;
  repeat match goal with
  | |- context [atan2 ?y ?x] =>
      lazymatch goal with
      | _ : -180 < atan2 y x * (180 / PI) <= 180 |- _ => fail
      | _ => pose proof (atan2_deg_bound y x)
      end
  | |- context [asin ?z] =>
      lazymatch goal with
      | _ : -90 <= asin z * (180 / PI) <= 90 |- _ => fail
      | _ => pose proof (asin_deg_bound z)
      end
  end;
  first [ pylra | apply sqr_sum_nonneg ].

(* the hook: when pyrun reaches a blocked Angle constructor / to_positive call, state its
   value (pyrun then rewrites with it) *)
Ltac c05_init_with s pre x kwr tac :=
  lazymatch kwr with
  | true =>
      first [ assert (s = ang (x * (180 / PI)))
                by (pre; replace (ang (x * (180 / PI))) with (ang (red360 (x * (180 / PI))))
                      by (rewrite red360_id by tac; reflexivity);
                    apply Angle_new_rad_mk; tac)
            | assert (s = ang (red360 (x * (180 / PI)))) by (pre; apply Angle_new_rad_mk; tac) ]
  | false =>
      first [ assert (s = ang x)
                by (pre; replace (ang x) with (ang (red360 x))
                      by (rewrite red360_id by tac; reflexivity);
                    apply Angle_new_deg_mk; tac)
            | assert (s = ang (red360 x)) by (pre; apply Angle_new_deg_mk; tac) ]
  end.

Ltac c05_init s a kwr tac :=
  tryif is_canon a then
    lazymatch a with VFloat ?x => c05_init_with s idtac x kwr tac end
  else
    (let Ha := fresh "Harg" in
     eassert (Ha : a = _) by (pyrun_using tac; py_canon_refl);
     lazymatch type of Ha with
     | _ = VFloat ?x => c05_init_with s ltac:(rewrite Ha) x kwr tac
     end; clear Ha).

Ltac c05_hook s :=
  lazymatch goal with
  | _ : s = _ |- _ => idtac
  | _ =>
  lazymatch s with
  | Angle___init__ Rops (VObj cAngle [VNone; VNone]) (mk_tuple [?a])
      (mk_dict [kw "radians" (VBool true)]) => c05_init s a true sph_dec
  | Angle___init__ Rops (VObj cAngle [VNone; VNone]) (mk_tuple [?a]) (mk_dict []) =>
      c05_init s a false sph_dec
  | Angle_to_positive Rops (VObj cAngle [VFloat ?d; VFloat _]) =>
      assert (s = VTuple [ang (topos d); ang (topos d)]) by (apply to_positive_topos)
  | _ => idtac
  end
  end.
Ltac py_trace s ::= c05_hook s.

Ltac c05run := pyrun_using sph_dec.

(* ---- generic geometry in degrees ---- *)
Lemma uvec_topos_deg t b : uvec (d2r (topos (r2d t))) b = uvec t b.
Proof.
  destruct (topos_mod (r2d t)) as [k Hk]. rewrite Hk, d2r_360k, d2r_r2d. apply uvec_period.
Qed.

Lemma uvec_deg_360k l (k : Z) b : uvec (d2r (l + 360 * IZR k)) b = uvec (d2r l) b.
Proof. rewrite d2r_360k. apply uvec_period. Qed.

Lemma uvec_red360_deg l b : uvec (d2r (red360 l)) b = uvec (d2r l) b.
Proof. destruct (red360_cases l) as [k Hk]. rewrite Hk. apply uvec_deg_360k. Qed.

Lemma uvec_topos_deg' l b : uvec (d2r (topos l)) b = uvec (d2r l) b.
Proof. destruct (topos_mod l) as [k Hk]. rewrite Hk. apply uvec_deg_360k. Qed.

(* (X, Y) is the horizontal part of a unit vector divided by k > 0 *)
Lemma lonlat_scaled k x y z X Y : 0 < k -> x = k * X -> y = k * Y ->
  x * x + y * y + z * z = 1 -> uvec (atan2 Y X) (asin z) = (x, y, z).
Proof.
  intros Hk Hx Hy Hn. rewrite <- (atan2_scale k Y X Hk), <- Hx, <- Hy. now apply uvec_of_unit.
Qed.

Lemma d2r_m90 : d2r (-90) = - (PI / 2).
Proof. unfold d2r. field. Qed.
Lemma d2r_360 : d2r 360 = 2 * PI.
Proof. unfold d2r. field. Qed.
Lemma d2r_m360 : d2r (-360) = - (2 * PI).
Proof. unfold d2r. field. Qed.

Lemma cos_d2r_pos d : -90 < d < 90 -> 0 < cos (d2r d).
Proof.
  intros [H1 H2]. apply d2r_lt in H1, H2. rewrite d2r_m90 in H1. rewrite d2r_90 in H2.
  apply cos_gt_0; lra.
Qed.

Lemma d2r_inj a b : d2r a = d2r b -> a = b.
Proof. intros H. rewrite <- (r2d_d2r a), <- (r2d_d2r b). now rewrite H. Qed.

(* equal directions with canonical coordinates have equal coordinates *)
Lemma angles_of_uvec_eq l1 b1 l2 b2 :
  -360 < l1 - l2 < 360 -> -90 < b1 < 90 -> -90 <= b2 <= 90 ->
  uvec (d2r l1) (d2r b1) = uvec (d2r l2) (d2r b2) -> l1 = l2 /\ b1 = b2.
Proof.
  intros Hl [Hb1 Hb1'] [Hb2 Hb2'] H.
  apply d2r_lt in Hb1, Hb1'. apply d2r_le in Hb2, Hb2'.
  rewrite d2r_m90 in Hb1, Hb2. rewrite d2r_90 in Hb1', Hb2'.
  destruct Hl as [Hl Hl']. apply d2r_lt in Hl, Hl'.
  rewrite d2r_minus in Hl, Hl'. rewrite d2r_m360 in Hl. rewrite d2r_360 in Hl'.
  destruct (uvec_inj (d2r l1) (d2r b1) (d2r l2) (d2r b2)) as [A B]; try lra; try assumption.
  split; now apply d2r_inj.
Qed.

Lemma r2d_atan2_range y x : -180 < r2d (atan2 y x) <= 180.
Proof. apply atan2_deg_bound. Qed.
Lemma topos_r2d_atan2_range y x : 0 <= topos (r2d (atan2 y x)) < 360.
Proof. apply topos_range. pose proof (r2d_atan2_range y x). lra. Qed.

(* ---- call-by-value variant of pyrun for deeply nested arithmetic ----
   pyrun evaluates the expression of a bind by weak-head steps (call-by-name); the
   operator dispatch wrappers copy their unevaluated arguments into every branch, which
   is exponential in the nesting depth.  [crun] first evaluates innermost operator
   applications whose arguments are already float values. *)
Ltac eval_sub t tac :=
  let H := fresh "Hsub" in
  eassert (H : t = _) by (pyrun_using tac; py_canon_refl);
  rewrite H; clear H.

Ltac step_inner tac :=
  match goal with
  | |- context [m1 Rops ?fn (VFloat ?x)] => eval_sub constr:(m1 Rops fn (VFloat x)) tac
  | |- context [m2 Rops ?fn (VFloat ?x) (VFloat ?y)] =>
      eval_sub constr:(m2 Rops fn (VFloat x) (VFloat y)) tac
  | |- context [math_sqrt Rops (VFloat ?x)] => eval_sub constr:(math_sqrt Rops (VFloat x)) tac
  | |- context [?f Rops (VFloat ?x) (VFloat ?y)] =>
      eval_sub constr:(f Rops (VFloat x) (VFloat y)) tac
  | |- context [?f Rops (VFloat ?x) (VInt ?y)] =>
      eval_sub constr:(f Rops (VFloat x) (VInt y)) tac
  | |- context [guard [VFloat ?x] (fun _ : unit => VFloat ?y)] =>
      eval_sub constr:(guard [VFloat x] (fun _ : unit => VFloat y)) tac
  | |- context [?f Rops (VFloat ?x)] =>
      let ty := type of (f Rops (VFloat x)) in
      lazymatch ty with val _ => eval_sub constr:(f Rops (VFloat x)) tac end
  end.

Ltac crun_using tac :=
  whnf_lhs;
  lazymatch goal with
  | |- ?l = _ =>
    tryif is_canon l then expose_R else
    first [
      lazymatch l with
      | bind ?e ?k =>
          tryif is_canon e then
            lazymatch e with
            | VErr _ => rewrite (bind_err _ k)
            | _ => rewrite (bind_ok e k) by reflexivity; cbv beta
            end
          else
            (repeat (step_inner tac);
             lazymatch goal with
             | |- bind ?e' ?k' = _ =>
                 tryif is_canon e' then idtac else
                 (let H := fresh "Hev" in
                  eassert (H : e' = _) by (crun_using tac; py_canon_refl);
                  rewrite H; clear H)
             end)
      | VTuple ?xs => first_noncanon xs ltac:(fun x =>
            let H := fresh "Hev" in
            eassert (H : x = _) by (crun_using tac; py_canon_refl); rewrite H; clear H)
      | VList ?xs => first_noncanon xs ltac:(fun x =>
            let H := fresh "Hev" in
            eassert (H : x = _) by (crun_using tac; py_canon_refl); rewrite H; clear H)
      | VObj _ ?xs => first_noncanon xs ltac:(fun x =>
            let H := fresh "Hev" in
            eassert (H : x = _) by (crun_using tac; py_canon_refl); rewrite H; clear H)
      | _ =>
          pose_stuck;
          lazymatch goal with
          | py_stuck := ?s |- _ =>
              clear py_stuck; py_trace s;
              lazymatch s with
              | bind ?e ?k =>
                  let H := fresh "Hev" in
                  eassert (H : bind e k = _) by (crun_using tac; py_canon_refl);
                  rewrite H; clear H
              | Rltb _ _ => py_decide_at s tac
              | Rleb _ _ => py_decide_at s tac
              | Reqb _ _ => py_decide_at s tac
              | _ =>
                  first [ match goal with H : s = _ |- _ => rewrite H end
                        | idtac "crun: stuck on" s; fail 1 ]
              end
          end
      end;
      crun_using tac
    | idtac ]
  end.
Ltac crun := crun_using sph_dec.

(* ---- latitude from atan2 (z, cos lat) ---- *)
(* for a unit vector the latitude atan2 z (sqrt (x^2+y^2)) is asin z, poles included *)
Lemma atan2_asin_unit x y z : x * x + y * y + z * z = 1 -> atan2 z (rho x y) = asin z.
Proof.
  intros H. pose proof (unit_z_range x y z H) as Hz. pose proof (asin_bound z) as Hb.
  pose proof PI_RGT_0 as HPI.
  assert (Hr : rho x y = cos (asin z)).
  { rewrite cos_asin by assumption. unfold rho, Rsqr. f_equal. lra. }
  rewrite Hr. rewrite <- (sin_asin z) at 1 by assumption.
  rewrite <- (Rmult_1_l (sin (asin z))), <- (Rmult_1_l (cos (asin z))).
  apply atan2_polar; lra.
Qed.

(* (X, Y) is the horizontal part of a unit vector divided by k > 0, and the latitude is
   taken as atan2 z (k sqrt (X^2 + Y^2)) *)
Lemma lonlat_scaled2 k x y z X Y : 0 < k -> x = k * X -> y = k * Y ->
  x * x + y * y + z * z = 1 ->
  uvec (atan2 Y X) (atan2 z (k * sqrt (X * X + Y * Y))) = (x, y, z).
Proof.
  intros Hk Hx Hy Hn.
  assert (E : k * sqrt (X * X + Y * Y) = rho x y).
  { subst x y. rewrite rho_scale by lra. reflexivity. }
  rewrite E, (atan2_asin_unit x y z Hn). now apply lonlat_scaled with (k := k).
Qed.

Lemma atan2_range_nonneg z w : 0 <= w -> - (PI / 2) <= atan2 z w <= PI / 2.
Proof.
  intros [Hw | Hw]; pose proof PI_RGT_0 as HPI.
  - rewrite atan2_pos by assumption. pose proof (atan_bound (z / w)). lra.
  - subst w. destruct (Rtotal_order z 0) as [Hz | [Hz | Hz]].
    + rewrite atan2_0_down by assumption. lra.
    + subst. rewrite atan2_0_0. lra.
    + rewrite atan2_0_up by assumption. lra.
Qed.

Lemma r2d_atan2_nonneg_range z w : 0 <= w -> -90 <= r2d (atan2 z w) <= 90.
Proof.
  intros Hw. destruct (atan2_range_nonneg z w Hw) as [H1 H2].
  apply r2d_le in H1, H2. pose proof PI_RGT_0 as HPI.
  assert (E1 : r2d (- (PI / 2)) = - 90) by (unfold r2d; field; lra).
  assert (E2 : r2d (PI / 2) = 90) by (unfold r2d; field; lra).
  lra.
Qed.

Lemma abs_sqrt_nonneg c a : 0 <= Rabs c * sqrt a.
Proof. apply Rmult_le_pos; [apply Rabs_pos | apply sqrt_pos]. Qed.
