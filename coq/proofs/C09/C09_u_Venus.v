(* C09_u_Venus: Venus.geocentric_position with every callee hypothesis about VSOP87, nutation, obliquity
   and the Sun discharged (generated from one template for the seven planets, /verif/coq/proofs/C09/gen_u.py).
   Imported: property C07 (VSOP87 evaluator = direct sum, amplitude envelopes of the regenerated tables)
   and property C08 (nutation structure, true obliquity, Sun.apparent_geocentric_position).
   Only hypothesis left about a callee: Epoch.__isub__(epoch, tau) = Epoch(j1) (calendar round trip, C02). *)
From Coq Require Import Reals ZArith List Bool Lra Lia.
From PyLib Require Import PyVal PyBuiltins Ideal PyEval.
From Gen Require Import M_base M_Angle M_Epoch M_Coordinates M_Earth M_Sun.
From Gen Require M_Venus.
From Proofs.C07 Require C07_lib C07_dec C07_mono_code C07_mono_venus.
From Proofs.C09 Require Import C09_A_defs C09_spec C09_geo C09_body C09_planets C09_u_vsop C09_u_geo C09_u_body.
Import ListNotations.
Open Scope R_scope.

Lemma wrapper_Venus jde :
  M_Venus.Venus_geometric_heliocentric_position Rops (ep jde) (VBool false) =
  f_geometric_vsop_pos Rops (ep jde) (M_Venus.g_VSOP87_L Rops) (M_Venus.g_VSOP87_B Rops) (M_Venus.g_VSOP87_R Rops) (VBool false).
Proof. reflexivity. Qed.

(* heliocentric latitude |b| <= 0.084855 rad, radius vector within 0.72335 -+ 0.00666 AU (amplitude sums, |t| <= 4 millennia) *)
Definition bmax : R := 84855 / 1000000.
Definition cc : R := 72334820905 / 100000000000.
Definition drr : R := 666 / 100000.
Definition rhomin : R := 2398 / 10000.

Lemma shape_Venus jde : jde_lo <= jde <= jde_hi ->
  exists lon b r,
    M_Venus.Venus_geometric_heliocentric_position Rops (ep jde) (VBool false) = VTuple [ang lon; ang b; VFloat r] /\
    0 <= lon < 360 /\ Rabs (b * (PI / 180)) <= bmax /\ cc - drr <= r <= cc + drr.
Proof.
  intros Hj.
  destruct (geo_nofk5_shape _ _ _ C07_mono_venus.tL C07_mono_venus.tB C07_mono_venus.tR
              C07_mono_venus.tL_enc C07_mono_venus.tB_enc C07_mono_venus.tR_enc
              ltac:(discriminate) ltac:(discriminate) ltac:(discriminate)
              ltac:(vm_compute; reflexivity) ltac:(vm_compute; reflexivity)
              bmax cc drr) with (jde := jde) as (lon & b & r & H & Hl & Hb & Hr).
  - apply Rmult_le_reg_r with (IZR (10 ^ 15)); [apply IZR_lt; reflexivity|].
    unfold Rdiv at 1. rewrite Rmult_assoc, Rinv_l by (apply not_0_IZR; discriminate). rewrite Rmult_1_r.
    unfold bmax. replace (84855 / 1000000 * 100000000 * IZR (10 ^ 15)) with (IZR (84855 * 100 * 10 ^ 15)) by (rewrite !mult_IZR; field).
    apply IZR_le. vm_compute. discriminate.
  - apply Rmult_le_reg_r with (IZR (10 ^ 15)); [apply IZR_lt; reflexivity|].
    unfold Rdiv at 1. rewrite Rmult_assoc, Rinv_l by (apply not_0_IZR; discriminate). rewrite Rmult_1_r.
    unfold drr. replace (666 / 100000 * 100000000 * IZR (10 ^ 15)) with (IZR (666 * 1000 * 10 ^ 15)) by (rewrite !mult_IZR; field).
    apply IZR_le. vm_compute. discriminate.
  - unfold C07_dec.const_term, C07_mono_venus.tR, C07_dec.rlit, cc. cbn [fst snd]. Rlit_norm. lra.
  - unfold bmax. lra.
  - exact Hj.
  - exists lon, b, r. rewrite wrapper_Venus. split; [exact H|]. split; [exact Hl|]. split; [exact Hb | exact Hr].
Qed.

Lemma sep_Venus A C : (cc - drr) * (1 - bmax * bmax / 2) <= A <= cc + drr ->
  97 / 100 * (1 - bE * bE / 2) <= C <= 103 / 100 -> rhomin <= Rabs (A - C).
Proof.
  unfold cc, drr, bmax, bE, rhomin. intros HA HC. unfold Rabs. destruct (Rcase_abs (A - C)); lra.
Qed.

(* [ideal, generated code] Venus.geocentric_position for every epoch j in years -2000 .. 6000: the callees
   return (lA,bA,rA), (l0,b0,r0) at j and - at whatever epoch j1 (in the same range) Epoch.__isub__ yields
   for the light time tau_of(...) - (l,b,r), nut1, obl1, sl1; the result is the closed form of
   C09_body_Venus with RA in [0,360), Dec in [-90,90], elongation in [0,180] *)
Theorem C09_body_Venus_unconditional j j1 : jde_lo <= j <= jde_hi -> jde_lo <= j1 <= jde_hi ->
  exists lA bA rA l0 b0 r0 l b r nut1 obl1 sl1 sb1 sr1,
    M_Venus.Venus_geometric_heliocentric_position Rops (ep j) (VBool false) = VTuple [ang lA; ang bA; VFloat rA] /\
    Earth_geometric_heliocentric_position Rops (ep j) (VBool false) = VTuple [ang l0; ang b0; VFloat r0] /\
    M_Venus.Venus_geometric_heliocentric_position Rops (ep j1) (VBool false) = VTuple [ang l; ang b; VFloat r] /\
    f_nutation_longitude Rops (VTuple [ep j1]) (VDict []) = ang nut1 /\
    f_true_obliquity Rops (VTuple [ep j1]) (VDict []) = ang obl1 /\
    Sun_apparent_geocentric_position Rops (ep j1) (VBool true) = VTuple [ang sl1; ang sb1; VFloat sr1] /\
    (Epoch___isub__ Rops (ep j) (VFloat (tau_of lA bA rA l0 b0 r0)) = ep j1 ->
     M_Venus.Venus_geocentric_position Rops (ep j) =
     VTuple [ang (RAG l b r l0 b0 r0 j1 nut1 obl1); ang (DECG l b r l0 b0 r0 j1 nut1 obl1);
             ang (ELONG l b r l0 b0 r0 j1 nut1 sl1)]) /\
    0 <= RAG l b r l0 b0 r0 j1 nut1 obl1 < 360 /\ -90 <= DECG l b r l0 b0 r0 j1 nut1 obl1 <= 90 /\
    0 <= ELONG l b r l0 b0 r0 j1 nut1 sl1 <= 180 /\
    Rabs (nut1 * 3600) <= 21 /\ 22 < obl1 < 25.
Proof.
  intros Hj Hj1.
  destruct (callees_ok (M_Venus.Venus_geometric_heliocentric_position Rops) bmax cc drr rhomin shape_Venus
              ltac:(unfold bmax; lra) ltac:(unfold cc, drr; lra) ltac:(unfold rhomin; lra) sep_Venus
              ltac:(unfold cc, drr, bmax, bE, rhomin; lra) j j1 Hj Hj1)
    as (lA & bA & rA & l0 & b0 & r0 & l & b & r & nut1 & obl1 & sl1 & sb1 & sr1 &
        HPa & HE & HPb & Hn & Ho & Hs & Ht & Hbet & Hb & Hnb & Hob & _).
  exists lA, bA, rA, l0, b0, r0, l, b, r, nut1, obl1, sl1, sb1, sr1.
  split; [exact HPa|]. split; [exact HE|]. split; [exact HPb|]. split; [exact Hn|]. split; [exact Ho|].
  split; [exact Hs|].
  split; [intro Hi; exact (planet_full_Venus lA bA rA l b r l0 b0 r0 nut1 obl1 sl1 sb1 sr1 j j1 HPa HPb HE Hi Hn Ho Hs Ht Hbet Hb)|].
  pose proof (body_radec l b r l0 b0 r0 j1 nut1 obl1 (BETG_range l b r l0 b0 r0 j1 Ht Hbet)) as (_ & Hra & Hdec).
  pose proof (body_elongation l b r l0 b0 r0 j1 nut1 sl1) as (_ & Hel & _).
  repeat split; try apply Hra; try apply Hdec; try apply Hel; try exact Hnb; apply Hob.
Qed.

Redirect "C09_body_Venus_unconditional.assumptions" Print Assumptions C09_body_Venus_unconditional.
