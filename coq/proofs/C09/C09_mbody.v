(* C09_mbody: closed forms of the two light-time passes and the direction stage of the
   GENERATED Minor.geocentric_position (order of operations of the source), parametrised by the
   regime: vf dt / rf dt = true anomaly (degrees) and radius vector at dt days from perihelion.
   Spec-level facts about them: Cauchy-Schwarz (the acos argument is in [-1,1]), direction,
   elongation range. *)
From Coq Require Import Reals ZArith List Bool Lra Lia String.
From PyLib Require Import PyVal PyBuiltins Ideal IdealFacts Whnf PyEval Sphere.
From Spec Require Import AngleSpec.
From Proofs.C09 Require Import C09_A_defs C09_spec C09_geo.
Import ListNotations.
Open Scope R_scope.

Lemma cs3 a1 a2 a3 b1 b2 b3 :
  sqrt (b1 * b1 + b2 * b2 + b3 * b3) * sqrt (a1 * a1 + a2 * a2 + a3 * a3) <> 0 ->
  -1 <= (a1 * b1 + a2 * b2 + a3 * b3) / (sqrt (b1 * b1 + b2 * b2 + b3 * b3) * sqrt (a1 * a1 + a2 * a2 + a3 * a3)) <= 1.
Proof.
  set (A := a1 * a1 + a2 * a2 + a3 * a3). set (B := b1 * b1 + b2 * b2 + b3 * b3).
  set (d := a1 * b1 + a2 * b2 + a3 * b3). intro Hnz.
  assert (HA : 0 <= A) by (unfold A; nra). assert (HB : 0 <= B) by (unfold B; nra).
  pose proof (sqrt_pos A) as SA. pose proof (sqrt_pos B) as SB.
  set (D := sqrt B * sqrt A) in *.
  assert (HD : 0 < D) by (unfold D in *; nra).
  assert (HDD : D * D = A * B).
  { unfold D. replace (sqrt B * sqrt A * (sqrt B * sqrt A)) with ((sqrt A * sqrt A) * (sqrt B * sqrt B)) by ring.
    rewrite !sqrt_sqrt by assumption. reflexivity. }
  assert (Hdd : d * d <= A * B).
  { unfold d, A, B.
    pose proof (Rle_0_sqr (a1 * b2 - a2 * b1)) as S1. pose proof (Rle_0_sqr (a1 * b3 - a3 * b1)) as S2.
    pose proof (Rle_0_sqr (a2 * b3 - a3 * b2)) as S3. unfold Rsqr in *.
    assert (E : (a1 * a1 + a2 * a2 + a3 * a3) * (b1 * b1 + b2 * b2 + b3 * b3)
                - (a1 * b1 + a2 * b2 + a3 * b3) * (a1 * b1 + a2 * b2 + a3 * b3)
                = (a1 * b2 - a2 * b1) * (a1 * b2 - a2 * b1) + (a1 * b3 - a3 * b1) * (a1 * b3 - a3 * b1)
                  + (a2 * b3 - a3 * b2) * (a2 * b3 - a3 * b2)) by ring.
    lra. }
  assert (Hq : d / D * D = d) by (field; lra).
  assert (- D <= d <= D).
  { split; apply Rnot_lt_le; intro Hc.
    - assert (D * D < d * d) by nra. lra.
    - assert (D * D < d * d) by nra. lra. }
  split; nra.
Qed.

Section MinorBody.
(* Gauss constants and argument of perihelion (degrees) of the object; Sun's J2000 rectangular
   coordinates at the epoch; days from perihelion of the epoch; regime functions *)
Variables aa bb cc am bm cm w sxj syj szj dt1 : R.
Variables vf rf : R -> R.

Definition hxM (dt : R) : R := rf dt * am * sin (aa + w * (PI / 180) + vf dt * (PI / 180)).
Definition hyM (dt : R) : R := rf dt * bm * sin (bb + w * (PI / 180) + vf dt * (PI / 180)).
Definition hzM (dt : R) : R := rf dt * cm * sin (cc + w * (PI / 180) + vf dt * (PI / 180)).
Definition gxM (dt : R) : R := hxM dt + sxj.
Definition gyM (dt : R) : R := hyM dt + syj.
Definition gzM (dt : R) : R := hzM dt + szj.
(* light time of the first pass and the retarded time *)
Definition tauM : R := Rlit 57755183 (-10) * sqrt (gxM dt1 * gxM dt1 + gyM dt1 * gyM dt1 + gzM dt1 * gzM dt1).
Definition dt2M : R := dt1 - tauM.
Definition raM : R := red360 (lam_of (gxM dt2M) (gyM dt2M) * (180 / PI)).
Definition decM : R := red360 (bet_of (gxM dt2M) (gyM dt2M) (gzM dt2M) * (180 / PI)).
Definition cospsiM : R :=
  (gxM dt2M * sxj + gyM dt2M * syj + gzM dt2M * szj) /
  (sqrt (sxj * sxj + syj * syj + szj * szj) *
   sqrt (gxM dt2M * gxM dt2M + gyM dt2M * gyM dt2M + gzM dt2M * gzM dt2M)).
Definition psiM : R := red360 (acos cospsiM * (180 / PI)).
Definition denM : R :=
  sqrt (sxj * sxj + syj * syj + szj * szj) *
  sqrt (gxM dt2M * gxM dt2M + gyM dt2M * gyM dt2M + gzM dt2M * gzM dt2M).

Lemma cospsiM_range : denM <> 0 -> -1 <= cospsiM <= 1.
Proof. intro H. unfold cospsiM. apply cs3. exact H. Qed.

(* ra, dec are the direction of the geocentric vector body(t - tau) + Sun(t) *)
Theorem minor_direction : gxM dt2M <> 0 \/ gyM dt2M <> 0 ->
  let l := lam_of (gxM dt2M) (gyM dt2M) in let b := bet_of (gxM dt2M) (gyM dt2M) (gzM dt2M) in
  let d := norm3 (gxM dt2M) (gyM dt2M) (gzM dt2M) in
  raM = r2d l /\ decM = r2d b /\
  gxM dt2M = d * (cos b * cos l) /\ gyM dt2M = d * (cos b * sin l) /\ gzM dt2M = d * sin b.
Proof.
  intros H l b d. pose proof (final_stage_direction _ _ (gzM dt2M) H) as F. cbv zeta in F.
  fold l b d in F. destruct F as (F1 & F2 & F3 & F4 & F5 & F6).
  pose proof PI_RGT_0.
  assert (Em : r2d (- PI) = -180) by (unfold r2d; field; lra).
  assert (Eh : r2d (PI / 2) = 90) by (unfold r2d; field; lra).
  assert (Emh : r2d (- (PI / 2)) = -90) by (unfold r2d; field; lra).
  assert (-180 < r2d l <= 180).
  { rewrite <- Em, <- r2d_PI. split; [apply r2d_lt | apply r2d_le]; tauto. }
  assert (-90 < r2d b < 90).
  { rewrite <- Emh, <- Eh. split; apply r2d_lt; tauto. }
  repeat split; try assumption.
  - unfold raM. fold l. fold (r2d l). apply red360_small. apply Rabs_def1; lra.
  - unfold decM. fold b. fold (r2d b). apply red360_small. apply Rabs_def1; lra.
Qed.

(* the elongation is the angle between that vector and the Sun's, in [0,180] degrees *)
Theorem minor_elongation : denM <> 0 ->
  psiM = r2d (acos cospsiM) /\ 0 <= psiM <= 180 /\ cos (psiM * (PI / 180)) = cospsiM.
Proof.
  intro H. pose proof (cospsiM_range H) as Hr. pose proof (acos_bound cospsiM) as [A1 A2].
  pose proof PI_RGT_0.
  assert (0 <= r2d (acos cospsiM) <= 180).
  { rewrite <- r2d_PI. split; [replace 0 with (r2d 0) by (unfold r2d; lra)|]; apply r2d_le; assumption. }
  assert (E : psiM = r2d (acos cospsiM)).
  { unfold psiM. fold (r2d (acos cospsiM)). apply red360_small. apply Rabs_def1; lra. }
  split; [exact E|]. split; [rewrite E; assumption|].
  rewrite E. fold (d2r (r2d (acos cospsiM))). rewrite d2r_r2d. apply cos_acos. exact Hr.
Qed.
End MinorBody.
