(* C09_b_Neptune: the named theorem C09_body_Neptune (statement explained in C09.v) and its assumptions;
   one file per planet so that the seven Print Assumptions (9 s each) run in parallel. *)
From Coq Require Import Reals ZArith List.
From PyLib Require Import PyVal PyBuiltins Ideal Sphere.
From Gen Require Import M_base M_Angle M_Epoch M_Coordinates M_Earth M_Sun M_Neptune.
From Proofs.C09 Require Import C09_A_defs C09_geo C09_body C09_planets.
Import ListNotations.
Open Scope R_scope.

Theorem C09_body_Neptune (lA bA rA l b r l0 b0 r0 nut1 obl1 sl1 sb1 sr1 j j1 : R) :
  Neptune_geometric_heliocentric_position Rops (ep j) (VBool false) = VTuple [ang lA; ang bA; VFloat rA] ->
  Neptune_geometric_heliocentric_position Rops (ep j1) (VBool false) = VTuple [ang l; ang b; VFloat r] ->
  Earth_geometric_heliocentric_position Rops (ep j) (VBool false) = VTuple [ang l0; ang b0; VFloat r0] ->
  Epoch___isub__ Rops (ep j) (VFloat (tau_of lA bA rA l0 b0 r0)) = ep j1 ->
  f_nutation_longitude Rops (VTuple [ep j1]) (VDict []) = ang nut1 ->
  f_true_obliquity Rops (VTuple [ep j1]) (VDict []) = ang obl1 ->
  Sun_apparent_geocentric_position Rops (ep j1) (VBool true) = VTuple [ang sl1; ang sb1; VFloat sr1] ->
  -40 <= tcen j1 <= 40 ->
  Rabs (betG l b r l0 b0 r0) <= 25 * (PI / 180) ->
  Rabs (b * (PI / 180)) <= 25 * (PI / 180) ->
  Neptune_geocentric_position Rops (ep j) =
  VTuple [ang (RAG l b r l0 b0 r0 j1 nut1 obl1); ang (DECG l b r l0 b0 r0 j1 nut1 obl1);
          ang (ELONG l b r l0 b0 r0 j1 nut1 sl1)].
Proof. exact (planet_full_Neptune lA bA rA l b r l0 b0 r0 nut1 obl1 sl1 sb1 sr1 j j1). Qed.

Redirect "C09_body_Neptune.assumptions" Print Assumptions C09_body_Neptune.
