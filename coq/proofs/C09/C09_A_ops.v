(* C03: every operator of Angle in the ideal instance.  The constructor call
   Angle(<number>) inside each operator is abstracted and replaced by its
   characterisation C09_A_construct.init_float_raw; Python's float % by
   IdealFacts.fmod_py_nonneg. *)
From Coq Require Import Reals ZArith List Bool Lra Lia String.
From PyLib Require Import PyVal PyBuiltins Ideal IdealFacts Whnf PyEval.
From Spec Require Import AngleSpec.
From Gen Require Import M_base M_Angle.
From Proofs.C09 Require Import C09_A_defs C09_A_tac C09_A_reduce C09_A_construct.
Import ListNotations.
Open Scope R_scope.

Ltac2 Set Whnf.is_blocked as old := fun c =>
  Ltac2.Bool.or (old c)
    (Ltac2.Bool.or (Ltac2.Constr.equal c '@Angle___init__) (Ltac2.Constr.equal c '@fmod_py)).

Ltac pyA_hook s tac ::=
  lazymatch s with
  | Angle___init__ Rops (VObj cAngle [VNone; VNone]) (VTuple [VFloat ?r]) (VDict []) =>
      rewrite (init_float_raw r)
  | Angle___init__ Rops (VObj cAngle [VNone; VNone]) (VTuple [VInt ?z]) (VDict []) =>
      rewrite (init_int_raw z)
  | fmod_py Rops ?x ?y =>
      first [ rewrite (fmod_py_nonneg x y) by (expose_R; tac)
            | rewrite (fmod_py_zero x y) by (expose_R; tac) ]
  end.

(* both sides are Angle objects holding red360 of two real expressions equal by lra *)
Ltac fin_lra :=
  Rlit_norm; unfold ang, angT;
  match goal with
  | |- VObj _ [VFloat (red360 ?x); _] = VObj _ [VFloat (red360 ?y); _] => replace x with y by lra
  end; reflexivity.

Ltac op_solve := unfold angT; pyrunA; try reflexivity.

(* subset of C03_ops.v needed by C09 *)
Lemma add_AA a ta b tb : Angle___add__ Rops (angT a ta) (angT b tb) = ang (red360 (a + b)).
Proof. op_solve. Qed.
Lemma add_AF a ta y : Angle___add__ Rops (angT a ta) (VFloat y) = ang (red360 (a + y)).
Proof. op_solve. Qed.
Lemma iadd_AA a ta b tb : Angle___iadd__ Rops (angT a ta) (angT b tb) = ang (red360 (a + b)).
Proof. op_solve. Qed.
Lemma sub_AF a ta y : Angle___sub__ Rops (angT a ta) (VFloat y) = ang (red360 (a + - y)).
Proof. op_solve. Qed.
