(* C05: equatorial <-> ecliptical, ideal instance: closed forms, rotation, inverse. *)
From Coq Require Import Reals ZArith List String Lra Lia Psatz.
From PyLib Require Import PyVal PyBuiltins Ideal Whnf PyEval Sphere.
From Gen Require Import M_base M_Angle M_Epoch M_Interpolation M_Coordinates.
From Proofs.C09 Require Import C09_E_angle C09_E_run.
Import ListNotations.
Open Scope R_scope.

Ltac2 Set Whnf.is_blocked as old := fun c =>
  Ltac2.Bool.or (old c) (Ltac2.Bool.or (Ltac2.Constr.equal c '@Angle___init__)
                                       (Ltac2.Constr.equal c '@Angle_to_positive)).

(* the formulas of the two routines (radians in, radians out) *)
Definition ecl_y (a d e : R) : R := sin a * cos e + tan d * sin e.
Definition ecl_lon (a d e : R) : R := atan2 (ecl_y a d e) (cos a).
Definition ecl_lat (a d e : R) : R :=
  atan2 (sin d * cos e - cos d * sin e * sin a)
        (Rabs (cos d) * sqrt (cos a * cos a + ecl_y a d e * ecl_y a d e)).
Definition equ_y (l b e : R) : R := sin l * cos e - tan b * sin e.
Definition equ_ra (l b e : R) : R := atan2 (equ_y l b e) (cos l).
Definition equ_dec (l b e : R) : R :=
  atan2 (sin b * cos e + cos b * sin e * sin l)
        (Rabs (cos b) * sqrt (cos l * cos l + equ_y l b e * equ_y l b e)).

(* exact outputs as real expressions *)
Lemma eq2ecl_closed (al de ep : R) :
  f_equatorial2ecliptical Rops (ang al) (ang de) (ang ep) =
  VTuple [ang (topos (r2d (ecl_lon (d2r al) (d2r de) (d2r ep))));
          ang (r2d (ecl_lat (d2r al) (d2r de) (d2r ep)))].
Proof. crun. reflexivity. Qed.

Lemma ecl2eq_closed (lo la ep : R) :
  f_ecliptical2equatorial Rops (ang lo) (ang la) (ang ep) =
  VTuple [ang (topos (r2d (equ_ra (d2r lo) (d2r la) (d2r ep))));
          ang (r2d (equ_dec (d2r lo) (d2r la) (d2r ep)))].
Proof. crun. reflexivity. Qed.

(* ---- geometry: the formulas are the rotation about the x axis ---- *)
Lemma ecl_formula_rot a d e : 0 < cos d ->
  uvec (ecl_lon a d e) (ecl_lat a d e) = Rx (- e) (uvec a d).
Proof.
  intros Hd.
  assert (E : Rx (- e) (uvec a d) =
              (cos d * cos a, cos d * ecl_y a d e,
               sin d * cos e - cos d * sin e * sin a)).
  { unfold Rx, uvec, ecl_y. rewrite cos_neg, sin_neg. apply vec_eq; unfold tan; field; lra. }
  assert (N : dot (Rx (- e) (uvec a d)) (Rx (- e) (uvec a d)) = 1)
    by (rewrite dot_Rx; apply uvec_norm).
  rewrite E in *. unfold dot in N. unfold ecl_lon, ecl_lat. rewrite (Rabs_right (cos d)) by lra.
  apply lonlat_scaled2; [assumption | reflexivity | reflexivity | exact N].
Qed.

Lemma equ_formula_rot l b e : 0 < cos b ->
  uvec (equ_ra l b e) (equ_dec l b e) = Rx e (uvec l b).
Proof.
  intros Hd.
  assert (E : Rx e (uvec l b) =
              (cos b * cos l, cos b * equ_y l b e,
               sin b * cos e + cos b * sin e * sin l)).
  { unfold Rx, uvec, equ_y. apply vec_eq; unfold tan; field; lra. }
  assert (N : dot (Rx e (uvec l b)) (Rx e (uvec l b)) = 1)
    by (rewrite dot_Rx; apply uvec_norm).
  rewrite E in *. unfold dot in N. unfold equ_ra, equ_dec. rewrite (Rabs_right (cos b)) by lra.
  apply lonlat_scaled2; [assumption | reflexivity | reflexivity | exact N].
Qed.

(* equatorial2ecliptical returns the direction rotated by -eps about the x axis, longitude
   in [0,360), latitude in [-90,90] *)
Theorem eq2ecl_rotation al de ep : -90 < de < 90 ->
  exists lo la, f_equatorial2ecliptical Rops (ang al) (ang de) (ang ep) = VTuple [ang lo; ang la]
    /\ uvec (d2r lo) (d2r la) = Rx (- d2r ep) (uvec (d2r al) (d2r de))
    /\ 0 <= lo < 360 /\ -90 <= la <= 90.
Proof.
  intros Hde. eexists. eexists. split; [apply eq2ecl_closed |]. split; [| split].
  - rewrite uvec_topos_deg, d2r_r2d. apply ecl_formula_rot. now apply cos_d2r_pos.
  - apply topos_r2d_atan2_range.
  - apply r2d_atan2_nonneg_range, abs_sqrt_nonneg.
Qed.

Theorem ecl2eq_rotation lo la ep : -90 < la < 90 ->
  exists al de, f_ecliptical2equatorial Rops (ang lo) (ang la) (ang ep) = VTuple [ang al; ang de]
    /\ uvec (d2r al) (d2r de) = Rx (d2r ep) (uvec (d2r lo) (d2r la))
    /\ 0 <= al < 360 /\ -90 <= de <= 90.
Proof.
  intros Hla. eexists. eexists. split; [apply ecl2eq_closed |]. split; [| split].
  - rewrite uvec_topos_deg, d2r_r2d. apply equ_formula_rot. now apply cos_d2r_pos.
  - apply topos_r2d_atan2_range.
  - apply r2d_atan2_nonneg_range, abs_sqrt_nonneg.
Qed.

(* mutually inverse, as angles *)
Theorem ecl_roundtrip al de ep lo la : 0 <= al < 360 -> -90 < de < 90 ->
  f_equatorial2ecliptical Rops (ang al) (ang de) (ang ep) = VTuple [ang lo; ang la] ->
  -90 < la < 90 ->
  f_ecliptical2equatorial Rops (ang lo) (ang la) (ang ep) = VTuple [ang al; ang de].
Proof.
  intros Hal Hde H1 Hla.
  destruct (eq2ecl_rotation al de ep Hde) as (lo' & la' & E1 & R1 & _ & _).
  rewrite H1 in E1. injection E1 as <- <-.
  destruct (ecl2eq_rotation lo la ep Hla) as (al' & de' & E2 & R2 & Hal' & Hde').
  rewrite E2. rewrite R1, Rx_inv' in R2.
  destruct (angles_of_uvec_eq al de al' de') as [A B]; try lra; [now symmetry |].
  now subst.
Qed.

Theorem equ_roundtrip lo la ep al de : 0 <= lo < 360 -> -90 < la < 90 ->
  f_ecliptical2equatorial Rops (ang lo) (ang la) (ang ep) = VTuple [ang al; ang de] ->
  -90 < de < 90 ->
  f_equatorial2ecliptical Rops (ang al) (ang de) (ang ep) = VTuple [ang lo; ang la].
Proof.
  intros Hlo Hla H1 Hde.
  destruct (ecl2eq_rotation lo la ep Hla) as (al' & de' & E1 & R1 & _ & _).
  rewrite H1 in E1. injection E1 as <- <-.
  destruct (eq2ecl_rotation al de ep Hde) as (lo' & la' & E2 & R2 & Hlo' & Hla').
  rewrite E2. rewrite R1, Rx_inv in R2.
  destruct (angles_of_uvec_eq lo la lo' la') as [A B]; try lra; [now symmetry |].
  now subst.
Qed.

(* the angle between two directions is unchanged (dot product of the unit vectors) *)
Theorem eq2ecl_dot a1 d1 a2 d2 ep l1 b1 l2 b2 : -90 < d1 < 90 -> -90 < d2 < 90 ->
  f_equatorial2ecliptical Rops (ang a1) (ang d1) (ang ep) = VTuple [ang l1; ang b1] ->
  f_equatorial2ecliptical Rops (ang a2) (ang d2) (ang ep) = VTuple [ang l2; ang b2] ->
  dot (uvec (d2r l1) (d2r b1)) (uvec (d2r l2) (d2r b2))
  = dot (uvec (d2r a1) (d2r d1)) (uvec (d2r a2) (d2r d2)).
Proof.
  intros H1 H2 E1 E2.
  destruct (eq2ecl_rotation a1 d1 ep H1) as (? & ? & E1' & R1 & _).
  destruct (eq2ecl_rotation a2 d2 ep H2) as (? & ? & E2' & R2 & _).
  rewrite E1 in E1'. rewrite E2 in E2'. injection E1' as <- <-. injection E2' as <- <-.
  rewrite R1, R2. apply dot_Rx.
Qed.

Theorem ecl2eq_dot l1 b1 l2 b2 ep a1 d1 a2 d2 : -90 < b1 < 90 -> -90 < b2 < 90 ->
  f_ecliptical2equatorial Rops (ang l1) (ang b1) (ang ep) = VTuple [ang a1; ang d1] ->
  f_ecliptical2equatorial Rops (ang l2) (ang b2) (ang ep) = VTuple [ang a2; ang d2] ->
  dot (uvec (d2r a1) (d2r d1)) (uvec (d2r a2) (d2r d2))
  = dot (uvec (d2r l1) (d2r b1)) (uvec (d2r l2) (d2r b2)).
Proof.
  intros H1 H2 E1 E2.
  destruct (ecl2eq_rotation l1 b1 ep H1) as (? & ? & E1' & R1 & _).
  destruct (ecl2eq_rotation l2 b2 ep H2) as (? & ? & E2' & R2 & _).
  rewrite E1 in E1'. rewrite E2 in E2'. injection E1' as <- <-. injection E2' as <- <-.
  rewrite R1, R2. apply dot_Rx.
Qed.

(* there and back returns the same direction for EVERY input longitude (not only canonical
   ones): the result is the direction's canonical representative *)
Theorem ecl_roundtrip_vec al de ep lo la : -90 < de < 90 ->
  f_equatorial2ecliptical Rops (ang al) (ang de) (ang ep) = VTuple [ang lo; ang la] ->
  -90 < la < 90 ->
  exists x y, f_ecliptical2equatorial Rops (ang lo) (ang la) (ang ep) = VTuple [ang x; ang y]
    /\ uvec (d2r x) (d2r y) = uvec (d2r al) (d2r de) /\ y = de /\ 0 <= x < 360.
Proof.
  intros H0 H1 H2.
  destruct (eq2ecl_rotation al de ep H0) as (o1' & o2' & E1 & R1 & _ & _).
  rewrite H1 in E1. injection E1 as <- <-.
  destruct (ecl2eq_rotation lo la ep H2) as (x & y & E2 & R2 & Hx & Hy).
  exists x, y. rewrite R1, Rx_inv' in R2. repeat split; try assumption; try lra.
  apply d2r_inj. apply (uvec_inj_lat (d2r x) (d2r y) (d2r al) (d2r de)); [| | assumption].
  - destruct Hy as [A B]. apply d2r_le in A, B. rewrite d2r_m90 in A. rewrite d2r_90 in B. lra.
  - destruct H0 as [A B]. apply d2r_lt in A, B. rewrite d2r_m90 in A. rewrite d2r_90 in B. lra.
Qed.

(* there and back returns the same direction for EVERY input longitude (not only canonical
   ones): the result is the direction's canonical representative *)
Theorem equ_roundtrip_vec lo la ep al de : -90 < la < 90 ->
  f_ecliptical2equatorial Rops (ang lo) (ang la) (ang ep) = VTuple [ang al; ang de] ->
  -90 < de < 90 ->
  exists x y, f_equatorial2ecliptical Rops (ang al) (ang de) (ang ep) = VTuple [ang x; ang y]
    /\ uvec (d2r x) (d2r y) = uvec (d2r lo) (d2r la) /\ y = la /\ 0 <= x < 360.
Proof.
  intros H0 H1 H2.
  destruct (ecl2eq_rotation lo la ep H0) as (o1' & o2' & E1 & R1 & _ & _).
  rewrite H1 in E1. injection E1 as <- <-.
  destruct (eq2ecl_rotation al de ep H2) as (x & y & E2 & R2 & Hx & Hy).
  exists x, y. rewrite R1, Rx_inv in R2. repeat split; try assumption; try lra.
  apply d2r_inj. apply (uvec_inj_lat (d2r x) (d2r y) (d2r lo) (d2r la)); [| | assumption].
  - destruct Hy as [A B]. apply d2r_le in A, B. rewrite d2r_m90 in A. rewrite d2r_90 in B. lra.
  - destruct H0 as [A B]. apply d2r_lt in A, B. rewrite d2r_m90 in A. rewrite d2r_90 in B. lra.
Qed.
