(* C09_t_Neptune (thorough tier): Neptune.geocentric_position with NO premise about any callee (generated from
   one template, gen_u.py).  As C09_body_Neptune_unconditional, and the shifted epoch is the one the code
   computes: j1 = j - tau, tau = 0.0057755183 * |planet(j) - Earth(j)|; Epoch.__isub__ is discharged with
   property C02's Epoch_sub_ideal (calendar round trip of the Epoch constructor exact over the reals). *)
From Coq Require Import Reals ZArith List Bool Lra Lia.
From PyLib Require Import PyVal PyBuiltins Ideal PyEval.
From Gen Require Import M_base M_Angle M_Epoch M_Coordinates M_Earth M_Sun.
From Gen Require M_Neptune.
From Proofs.C09 Require Import C09_A_defs C09_spec C09_geo C09_body C09_planets C09_u_vsop C09_u_geo C09_u_body C09_t_body.
From Proofs.C09 Require C09_u_Neptune.
Import ListNotations.
Open Scope R_scope.

(* [ideal, generated code] for every epoch j from one day after the start of year -2000 to year 6000 *)
Theorem C09_body_Neptune_total j : jde_lo + 1 <= j <= jde_hi ->
  exists lA bA rA l0 b0 r0 l b r nut1 obl1 sl1 sb1 sr1,
    let j1 := j - tau_of lA bA rA l0 b0 r0 in
    M_Neptune.Neptune_geometric_heliocentric_position Rops (ep j) (VBool false) = VTuple [ang lA; ang bA; VFloat rA] /\
    Earth_geometric_heliocentric_position Rops (ep j) (VBool false) = VTuple [ang l0; ang b0; VFloat r0] /\
    Epoch___isub__ Rops (ep j) (VFloat (tau_of lA bA rA l0 b0 r0)) = ep j1 /\
    j - 1 <= j1 <= j /\
    M_Neptune.Neptune_geometric_heliocentric_position Rops (ep j1) (VBool false) = VTuple [ang l; ang b; VFloat r] /\
    f_nutation_longitude Rops (VTuple [ep j1]) (VDict []) = ang nut1 /\
    f_true_obliquity Rops (VTuple [ep j1]) (VDict []) = ang obl1 /\
    Sun_apparent_geocentric_position Rops (ep j1) (VBool true) = VTuple [ang sl1; ang sb1; VFloat sr1] /\
    M_Neptune.Neptune_geocentric_position Rops (ep j) =
      VTuple [ang (RAG l b r l0 b0 r0 j1 nut1 obl1); ang (DECG l b r l0 b0 r0 j1 nut1 obl1);
              ang (ELONG l b r l0 b0 r0 j1 nut1 sl1)] /\
    0 <= RAG l b r l0 b0 r0 j1 nut1 obl1 < 360 /\ -90 <= DECG l b r l0 b0 r0 j1 nut1 obl1 <= 90 /\
    0 <= ELONG l b r l0 b0 r0 j1 nut1 sl1 <= 180 /\
    Rabs (nut1 * 3600) <= 21 /\ 22 < obl1 < 25.
Proof.
  intros Hj.
  destruct (callees_total (M_Neptune.Neptune_geometric_heliocentric_position Rops)
              C09_u_Neptune.bmax C09_u_Neptune.cc C09_u_Neptune.drr C09_u_Neptune.rhomin C09_u_Neptune.shape_Neptune
              ltac:(unfold C09_u_Neptune.bmax; lra) ltac:(unfold C09_u_Neptune.cc, C09_u_Neptune.drr; lra)
              ltac:(unfold C09_u_Neptune.rhomin; lra) C09_u_Neptune.sep_Neptune
              ltac:(unfold C09_u_Neptune.cc, C09_u_Neptune.drr, C09_u_Neptune.bmax, bE, C09_u_Neptune.rhomin; lra)
              ltac:(unfold C09_u_Neptune.cc, C09_u_Neptune.drr; lra) j Hj)
    as (lA & bA & rA & l0 & b0 & r0 & l & b & r & nut1 & obl1 & sl1 & sb1 & sr1 & H).
  cbv zeta in H.
  destruct H as (HPa & HE & Hi & Hj1 & HPb & Hn & Ho & Hs & Ht & Hbet & Hb & Hnb & Hob).
  exists lA, bA, rA, l0, b0, r0, l, b, r, nut1, obl1, sl1, sb1, sr1. cbv zeta.
  set (j1 := j - tau_of lA bA rA l0 b0 r0) in *.
  split; [exact HPa|]. split; [exact HE|]. split; [exact Hi|]. split; [exact Hj1|]. split; [exact HPb|].
  split; [exact Hn|]. split; [exact Ho|]. split; [exact Hs|].
  split; [exact (planet_full_Neptune lA bA rA l b r l0 b0 r0 nut1 obl1 sl1 sb1 sr1 j j1 HPa HPb HE Hi Hn Ho Hs Ht Hbet Hb)|].
  pose proof (body_radec l b r l0 b0 r0 j1 nut1 obl1 (BETG_range l b r l0 b0 r0 j1 Ht Hbet)) as (_ & Hra & Hdec).
  pose proof (body_elongation l b r l0 b0 r0 j1 nut1 sl1) as (_ & Hel & _).
  repeat split; try apply Hra; try apply Hdec; try apply Hel; try exact Hnb; apply Hob.
Qed.

Redirect "C09_body_Neptune_total.assumptions" Print Assumptions C09_body_Neptune_total.
