(* C09_pluto: the GENERATED Pluto.geocentric_position, ideal instance, with
   Pluto.geometric_heliocentric_position, Sun.rectangular_coordinates_j2000, Epoch.year and
   Epoch.__sub__ abstracted. *)
From Coq Require Import Reals ZArith List Bool Lra Lia String.
From PyLib Require Import PyVal PyBuiltins Ideal IdealFacts Whnf PyEval Sphere.
From Spec Require Import AngleSpec.
From Gen Require Import M_base M_Angle M_Epoch M_Coordinates M_Earth M_Sun M_Pluto.
From Proofs.C09 Require Import C09_A_defs C09_A_reduce C09_A_construct C09_spec C09_geo C09_tac.
Import ListNotations.
Open Scope R_scope.

Ltac2 Set Whnf.is_blocked as old := fun c =>
  Ltac2.Bool.or (old c) (Ltac2.List.exist (Ltac2.Constr.equal c)
    ['@Angle___init__; '@Angle_to_positive; '@Angle_rad; '@Epoch_year; '@Epoch___sub__;
     '@Pluto_geometric_heliocentric_position; '@Sun_rectangular_coordinates_j2000]).

(* ecliptic J2000 (l, b degrees, r) -> equatorial J2000 with the source's sin/cos of the obliquity *)
Definition sineP : R := Rlit 397777156 (-9).
Definition coseP : R := Rlit 917482062 (-9).
Definition pxE (l b r : R) : R := r * cos (l * (PI / 180)) * cos (b * (PI / 180)).
Definition pyE (l b r : R) : R := r * (sin (l * (PI / 180)) * cos (b * (PI / 180)) * coseP - sin (b * (PI / 180)) * sineP).
Definition pzE (l b r : R) : R := r * (sin (l * (PI / 180)) * cos (b * (PI / 180)) * sineP + sin (b * (PI / 180)) * coseP).

Lemma ratio_range x y z : sqrt (x * x + y * y + z * z) <> 0 -> -1 <= z / sqrt (x * x + y * y + z * z) <= 1.
Proof.
  set (d := sqrt (x * x + y * y + z * z)). intro H.
  assert (Hs : 0 <= x * x + y * y + z * z) by nra.
  pose proof (sqrt_pos (x * x + y * y + z * z)) as Hp. fold d in Hp.
  assert (Hd : 0 < d) by lra.
  assert (Hdd : d * d = x * x + y * y + z * z) by (unfold d; apply sqrt_sqrt; assumption).
  assert (Hq : z / d * d = z) by (field; lra).
  assert (- d <= z <= d).
  { split; apply Rnot_lt_le; intro Hc.
    - assert (d * d < z * z) by nra. nra.
    - assert (d * d < z * z) by nra. nra. }
  split; nra.
Qed.

Section Pluto.
Variables yv j j1 l1 b1 r1 l2 b2 r2 sxj syj szj : R.
Hypothesis Hyear : Epoch_year Rops (ep j) = VFloat yv.
Hypothesis Hy : 1885 <= yv < 2100.
Hypothesis HP1 : Pluto_geometric_heliocentric_position Rops (ep j) = VTuple [ang l1; ang b1; VFloat r1].
Hypothesis Hsun : Sun_rectangular_coordinates_j2000 Rops (ep j) = VTuple [VFloat sxj; VFloat syj; VFloat szj].
Definition xi1 := pxE l1 b1 r1 + sxj. Definition eta1 := pyE l1 b1 r1 + syj. Definition zeta1 := pzE l1 b1 r1 + szj.
Definition tauP : R := Rlit 57755183 (-10) * sqrt (xi1 * xi1 + eta1 * eta1 + zeta1 * zeta1).
Hypothesis Hsub : Epoch___sub__ Rops (ep j) (VFloat tauP) = ep j1.
Hypothesis HP2 : Pluto_geometric_heliocentric_position Rops (ep j1) = VTuple [ang l2; ang b2; VFloat r2].
Definition xi2 := pxE l2 b2 r2 + sxj. Definition eta2 := pyE l2 b2 r2 + syj. Definition zeta2 := pzE l2 b2 r2 + szj.
Definition delta2 : R := sqrt (xi2 * xi2 + eta2 * eta2 + zeta2 * zeta2).
Hypothesis Hd : delta2 <> 0.

Ltac py9_hook s tac ::=
  lazymatch s with
  | Angle___init__ Rops (VObj cAngle [VNone; VNone]) (VTuple [VFloat ?x]) (VDict [kw "radians" (VBool true)]) => rw_with s (init_rad x)
  | Angle_rad Rops (VObj cAngle [VFloat ?a; VFloat ?ta]) => rw_with s (rad_ideal a ta)
  | Angle_to_positive Rops (VObj cAngle [VFloat (red360 ?y); VFloat ?ta]) => rw_with s (to_positive_ideal (red360 y) ta (red360_range y))
  | Epoch_year Rops _ => rw_with s Hyear
  | Epoch___sub__ Rops _ _ => rw_with s Hsub
  | Pluto_geometric_heliocentric_position Rops (VObj cEpoch [VFloat ?x]) =>
      first [ rw_with s HP1 | rw_with s HP2 ]
  | Sun_rectangular_coordinates_j2000 Rops _ => rw_with s Hsun
  end.
Ltac dec_p :=
  first [ sq_nonneg
        | match goal with |- _ <> 0 => exact Hd end
        | match goal with |- -1 <= _ => exact (proj1 (ratio_range xi2 eta2 zeta2 Hd)) end
        | match goal with |- _ <= 1 => exact (proj2 (ratio_range xi2 eta2 zeta2 Hd)) end
        | pylra ].

(* right ascension in [0,360), declination = asin(zeta/delta) of Pluto(j1) + Sun(j) *)
Theorem pluto_geo :
  Pluto_geocentric_position Rops (ep j) =
  VTuple [ang (pos360 (red360 (atan2 eta2 xi2 * (180 / PI))));
          ang (red360 (asin (zeta2 / delta2) * (180 / PI)))].
Proof. unfold ep, ang, angT in *. pyrun9_using dec_p. reflexivity. Qed.

End Pluto.

(* outside [1885, 2100) the body refuses with ValueError before calling anything else *)
Section Refuse.
Variables yv j : R.
Hypothesis Hyear : Epoch_year Rops (ep j) = VFloat yv.
Ltac py9_hook s tac ::=
  lazymatch s with
  | Epoch_year Rops _ => rw_with s Hyear
  end.
Theorem pluto_geo_refuses : yv < 1885 \/ 2100 <= yv ->
  Pluto_geocentric_position Rops (ep j) = VErr ValueError.
Proof.
  intros [H | H]; unfold ep in *.
  - pyrun9. reflexivity.
  - pyrun9. reflexivity.
Qed.
End Refuse.
