(* C09_pl_Neptune: the GENERATED Neptune.geocentric_position, whole body, ideal instance, callees
   abstracted (their values are hypotheses; Epoch.__isub__ returns an Epoch with JDE j1 for
   exactly the light-time tau_of ... of the first pass).  The body returns
   ecliptical2equatorial(LAMG, BETG, true_obliquity(j1)) and the elongation ELONG, with LAMG,
   BETG, ELONG the closed forms of C09_body.  (One template for the seven planets.) *)
From Coq Require Import Reals ZArith List Bool Lra Lia String.
From PyLib Require Import PyVal PyBuiltins Ideal IdealFacts Whnf PyEval Sphere.
From Spec Require Import AngleSpec.
From Gen Require Import M_base M_Angle M_Epoch M_Coordinates M_Earth M_Sun M_Neptune.
From Proofs.C09 Require Import C09_A_defs C09_A_reduce C09_A_construct C09_A_ops C09_angle C09_spec C09_geo C09_tac C09_body.
Import ListNotations.
Open Scope R_scope.

Ltac2 Set Whnf.is_blocked as old := fun c =>
  Ltac2.Bool.or (old c) (Ltac2.List.exist (Ltac2.Constr.equal c)
    ['@Angle___init__; '@Angle___add__; '@Angle___iadd__; '@Angle___sub__; '@Angle_to_positive; '@Angle_rad;
     '@Epoch___isub__; '@M_Epoch.g_JDE2000;
     '@f_nutation_longitude; '@f_true_obliquity; '@f_ecliptical2equatorial;
     '@Sun_apparent_geocentric_position; '@Earth_geometric_heliocentric_position;
     '@Neptune_geometric_heliocentric_position]).

Section Planet.
Variables pl pb pr el eb er : R -> R.
Variables nut obl sl sb sr : R -> R.
Variables era edec : R -> R -> R -> R.
Variables j j1 : R.
Hypothesis HP : forall j, Neptune_geometric_heliocentric_position Rops (ep j) (VBool false) = VTuple [ang (pl j); ang (pb j); VFloat (pr j)].
Hypothesis HE : forall j, Earth_geometric_heliocentric_position Rops (ep j) (VBool false) = VTuple [ang (el j); ang (eb j); VFloat (er j)].
Hypothesis Hisub : Epoch___isub__ Rops (ep j) (VFloat (tau_of (pl j) (pb j) (pr j) (el j) (eb j) (er j))) = ep j1.
Hypothesis HJ : M_Epoch.g_JDE2000 Rops = ep 2451545.
Hypothesis Hnut : forall j, f_nutation_longitude Rops (VTuple [ep j]) (VDict []) = ang (nut j).
Hypothesis Hobl : forall j, f_true_obliquity Rops (VTuple [ep j]) (VDict []) = ang (obl j).
Hypothesis Hsun : forall j, Sun_apparent_geocentric_position Rops (ep j) (VBool true) = VTuple [ang (sl j); ang (sb j); VFloat (sr j)].
Hypothesis He2e : forall a b e, f_ecliptical2equatorial Rops (ang a) (ang b) (ang e) = VTuple [ang (era a b e); ang (edec a b e)].

Let l := pl j1. Let b := pb j1. Let r := pr j1. Let l0 := el j. Let b0 := eb j. Let r0 := er j.
Hypothesis H1 : Rabs (dl1G l b r l0 b0 r0 j1) < 60.
Hypothesis H2 : Rabs (db1G l b r l0 b0 r0 j1) < 60.
Hypothesis H3 : Rabs (dl2aG l b r l0 b0 r0 j1) < 60.
Hypothesis H4 : cos (betG l b r l0 b0 r0) <> 0.

Lemma const_small : Rabs (Rlit (-9033) (-5)) < 60.
Proof. Rlit_norm. apply Rabs_def1; lra. Qed.

Ltac py9_hook s tac ::=
  lazymatch s with
  | Angle___init__ Rops (VObj cAngle [VNone; VNone]) (VTuple [VInt 0; VInt 0; VFloat ?x]) (VDict []) =>
      lazymatch x with
      | _ * (- cos _ + _) / cos _ => rw_with s (init_sec x H1)
      | - _ * sin _ * (_ - _) => rw_with s (init_sec x H2)
      | Rlit _ _ => rw_with s (init_sec x const_small)
      | _ * (cos _ + sin _) * tan _ => rw_with s (init_sec x H3)
      | _ * (cos ?a - sin ?a) => rw_with s (init_sec x (db2_small a))
      end
  | Angle___init__ Rops (VObj cAngle [VNone; VNone]) (VTuple [VFloat ?x]) (VDict [kw "radians" (VBool true)]) =>
      rw_with s (init_rad x)
  | Angle___init__ Rops (VObj cAngle [VNone; VNone]) (VTuple [VFloat ?x]) (VDict []) => rw_with s (init_float_raw x)
  | Angle___add__ Rops (VObj cAngle [VFloat ?a; VFloat ?ta]) (VObj cAngle [VFloat ?b; VFloat ?tb]) => rw_with s (add_AA a ta b tb)
  | Angle___add__ Rops (VObj cAngle [VFloat ?a; VFloat ?ta]) (VFloat ?b) => rw_with s (add_AF a ta b)
  | Angle___iadd__ Rops (VObj cAngle [VFloat ?a; VFloat ?ta]) (VObj cAngle [VFloat ?b; VFloat ?tb]) => rw_with s (iadd_AA a ta b tb)
  | Angle___sub__ Rops (VObj cAngle [VFloat ?a; VFloat ?ta]) (VFloat ?b) => rw_with s (sub_AF a ta b)
  | Angle_rad Rops (VObj cAngle [VFloat ?a; VFloat ?ta]) => rw_with s (rad_ideal a ta)
  | Angle_to_positive Rops (VObj cAngle [VFloat (red360 ?y); VFloat ?ta]) => rw_with s (to_positive_ideal (red360 y) ta (red360_range y))
  | Neptune_geometric_heliocentric_position Rops (VObj cEpoch [VFloat ?j]) (VBool false) => rw_with s (HP j)
  | Earth_geometric_heliocentric_position Rops (VObj cEpoch [VFloat ?j]) (VBool false) => rw_with s (HE j)
  | Epoch___isub__ Rops _ _ => rw_with s Hisub
  | M_Epoch.g_JDE2000 Rops => rw_with s HJ
  | f_nutation_longitude Rops (VTuple [VObj cEpoch [VFloat ?j]]) (VDict []) => rw_with s (Hnut j)
  | f_true_obliquity Rops (VTuple [VObj cEpoch [VFloat ?j]]) (VDict []) => rw_with s (Hobl j)
  | Sun_apparent_geocentric_position Rops (VObj cEpoch [VFloat ?j]) (VBool true) => rw_with s (Hsun j)
  | f_ecliptical2equatorial Rops (VObj cAngle [VFloat ?a; _]) (VObj cAngle [VFloat ?b; _]) (VObj cAngle [VFloat ?e; _]) => rw_with s (He2e a b e)
  end.
Ltac dec_planet :=
  first [ sq_nonneg
        | match goal with |- -1 <= cos ?a * cos ?b => exact (proj1 (coscos_range a b)) end
        | match goal with |- cos ?a * cos ?b <= 1 => exact (proj2 (coscos_range a b)) end
        | match goal with |- cos _ <> 0 => exact H4 end
        | pylra ].

Theorem body_Neptune :
  Neptune_geocentric_position Rops (ep j) =
  VTuple [ang (era (LAMG l b r l0 b0 r0 j1 (nut j1)) (BETG l b r l0 b0 r0 j1) (obl j1));
          ang (edec (LAMG l b r l0 b0 r0 j1 (nut j1)) (BETG l b r l0 b0 r0 j1) (obl j1));
          ang (ELONG l b r l0 b0 r0 j1 (nut j1) (sl j1))].
Proof.
  unfold ep. pyrun9_using dec_planet. reflexivity.
Qed.
End Planet.
