(* assumptions of C09_body_Uranus: the theorem in C09.v is [exact planet_full_Uranus] *)
From Proofs.C09 Require Import C09_planets.
Redirect "C09_body_Uranus.assumptions" Print Assumptions planet_full_Uranus.
