(* C09 (unconditional statements): shapes of the callees of <Planet>.geocentric_position, proved from
   property C07's theorems (imported: VSOP87 evaluator = direct sum over any tables, amplitude
   envelopes checked by the kernel on the regenerated tables):
   geometric_vsop_pos(epoch, L, B, R, tofk5=False) = (Angle in [0,360), Angle b, float r) with
   |b| and |r - constant term| bounded by the amplitude sums of the B and R tables, for every
   epoch in years -2000 .. 6000.
   (Epoch.__isub__ is NOT characterised here: Epoch(jde - tau) goes through get_full_date and
   _compute_jde, i.e. the calendar round trip over the reals, which belongs to property C02.) *)
From Coq Require Import Reals ZArith List Bool Lra Lia.
From Interval Require Import Tactic.
From PyLib Require Import PyVal PyBuiltins Ideal Whnf PyEval.
From Spec Require AngleSpec.
From Gen Require Import M_base M_Angle M_Epoch M_Coordinates.
From Proofs.C07 Require C07_defs C07_lib C07_angle C07_series C07_corr C07_mono C07_dec C07_mono_code.
From Proofs.C09 Require Import C09_A_defs C09_geo.
Import ListNotations.
Open Scope R_scope.

Definition jde_lo : R := C07_mono_code.jde_lo.   (* 2451545 - 1461000: year -2000 *)
Definition jde_hi : R := C07_mono_code.jde_hi.   (* 2451545 + 1461000: year  6000 *)

Lemma Rabs_bounds x b : Rabs x <= b -> - b <= x <= b.
Proof. intro H. unfold Rabs in H. destruct (Rcase_abs x); lra. Qed.

Section Shape.
Variables (gL gB gR : val R) (TL TB TR : list (list C07_dec.dterm3)).
Hypothesis EL : gL = C07_lib.enc_table (C07_dec.Rtable TL).
Hypothesis EB : gB = C07_lib.enc_table (C07_dec.Rtable TB).
Hypothesis ER : gR = C07_lib.enc_table (C07_dec.Rtable TR).
Hypothesis NL : TL <> []. Hypothesis NB : TB <> []. Hypothesis NR : TR <> [].
Hypothesis CB : C07_dec.env_check 15 4 TB = true.
Hypothesis CR : C07_dec.envc_check 15 4 TR = true.
(* numeric envelopes: latitude series (rad) and radius series (AU) *)
Variables (bmax c dr_ : R).
Hypothesis HbN : IZR (C07_dec.zabound 15 4 0 TB) / IZR (10 ^ 15) <= bmax * 100000000.
Hypothesis HrN : IZR (C07_dec.zabound 15 4 0 (C07_dec.tail_table TR)) / IZR (10 ^ 15) <= dr_ * 100000000.
Hypothesis HcN : C07_dec.const_term TR = c * 100000000.
Hypothesis Hbmax : 0 <= bmax <= 1.

(* result in degrees: latitude b with |b| <= bmax * 180/PI, radius within c -+ dr_ *)
Theorem geo_nofk5_shape jde : jde_lo <= jde <= jde_hi ->
  exists lon b r,
    f_geometric_vsop_pos Rops (ep jde) gL gB gR (VBool false) = VTuple [ang lon; ang b; VFloat r] /\
    0 <= lon < 360 /\ Rabs (b * (PI / 180)) <= bmax /\ c - dr_ <= r <= c + dr_.
Proof.
  intros Hj. pose proof (C07_mono_code.tmill_range jde Hj) as Ht.
  pose proof (C07_series.vsop_pos_direct_sum jde (C07_dec.Rtable TL) (C07_dec.Rtable TB) (C07_dec.Rtable TR)
                (C07_mono_code.Rtable_nonempty _ NL) (C07_mono_code.Rtable_nonempty _ NB)
                (C07_mono_code.Rtable_nonempty _ NR)) as Hv.
  cbv zeta in Hv. rewrite <- EL, <- EB, <- ER in Hv.
  change ((jde - 2451545) / 365250) with (C07_mono_code.tmill jde) in Hv.
  pose proof (C07_dec.env_check_bound 15 4 _ CB _ Ht) as HB.
  pose proof (C07_dec.envc_check_bound 15 4 _ CR _ Ht) as HR.
  set (SB := C07_lib.direct_sum (C07_mono_code.tmill jde) (C07_dec.Rtable TB)) in *.
  set (SR := C07_lib.direct_sum (C07_mono_code.tmill jde) (C07_dec.Rtable TR)) in *.
  assert (HB' : Rabs (SB / 100000000) <= bmax).
  { apply Rabs_bounds in HB. apply Rabs_le. lra. }
  assert (HR' : c - dr_ <= SR / 100000000 <= c + dr_).
  { apply Rabs_bounds in HR. rewrite HcN in HR. lra. }
  assert (Hdeg : Rabs (SB / 100000000 * (180 / PI)) < 360).
  { apply Rabs_bounds in HB'. assert (Hk : 0 < 180 / PI < 58) by (split; interval).
    set (x := SB / 100000000) in *. set (k := 180 / PI) in *. apply Rabs_def1; nra. }
  rewrite (AngleSpec.red360_small _ Hdeg) in Hv.
  unfold C07_lib.enc_table in EL, EB, ER. subst gL gB gR.
  pose proof (C07_corr.geometric_nofk5 jde _ _ _ _ _ _ Hv) as G.
  eexists _, (SB / 100000000 * (180 / PI)), (SR / 100000000). split; [exact G|].
  split; [apply AngleSpec.pos360_range; apply AngleSpec.red360_range|]. split; [|exact HR'].
  replace (SB / 100000000 * (180 / PI) * (PI / 180)) with (SB / 100000000) by (field; apply PI_neq0).
  exact HB'.
Qed.
End Shape.
