(* C09_planets: the whole-body theorems of C09_pl_<Planet>.v with
   - their side conditions (|aberration terms| < 60 arcsec, cos beta <> 0) discharged from natural
     hypotheses (|T| <= 40 centuries, |beta| <= 25 deg, |B| <= 25 deg),
   - JDE2000 = 2451545 proved (C09_J_jde),
   - the ecliptical2equatorial hypothesis discharged with its closed form (C05's ecl2eq_closed, copied
     as C09_E_ecl): RA/Dec are RAG/DECG of C09_body, the rotation of (LAMG, BETG) by the obliquity. *)
From Coq Require Import Reals ZArith List Bool Lra Lia String.
From PyLib Require Import PyVal PyBuiltins Ideal Sphere.
From Gen Require Import M_base M_Angle M_Epoch M_Coordinates M_Earth M_Sun.
From Gen Require Import M_Mercury M_Venus M_Mars M_Jupiter M_Saturn M_Uranus M_Neptune.
From Proofs.C09 Require Import C09_A_defs C09_spec C09_geo C09_body C09_J_tac C09_J_jde.
From Proofs.C09 Require C09_E_angle C09_E_run C09_E_ecl.
From Proofs.C09 Require Import C09_pl_Mercury C09_pl_Venus C09_pl_Mars C09_pl_Jupiter C09_pl_Saturn C09_pl_Uranus C09_pl_Neptune.
Import ListNotations.
Open Scope R_scope.

Lemma planet_full_Mercury (lA bA rA l b r l0 b0 r0 nut1 obl1 sl1 sb1 sr1 j j1 : R) :
  Mercury_geometric_heliocentric_position Rops (ep j) (VBool false) = VTuple [ang lA; ang bA; VFloat rA] ->
  Mercury_geometric_heliocentric_position Rops (ep j1) (VBool false) = VTuple [ang l; ang b; VFloat r] ->
  Earth_geometric_heliocentric_position Rops (ep j) (VBool false) = VTuple [ang l0; ang b0; VFloat r0] ->
  Epoch___isub__ Rops (ep j) (VFloat (tau_of lA bA rA l0 b0 r0)) = ep j1 ->
  f_nutation_longitude Rops (VTuple [ep j1]) (VDict []) = ang nut1 ->
  f_true_obliquity Rops (VTuple [ep j1]) (VDict []) = ang obl1 ->
  Sun_apparent_geocentric_position Rops (ep j1) (VBool true) = VTuple [ang sl1; ang sb1; VFloat sr1] ->
  -40 <= tcen j1 <= 40 ->
  Rabs (betG l b r l0 b0 r0) <= 25 * (PI / 180) ->
  Rabs (b * (PI / 180)) <= 25 * (PI / 180) ->
  Mercury_geocentric_position Rops (ep j) =
  VTuple [ang (RAG l b r l0 b0 r0 j1 nut1 obl1); ang (DECG l b r l0 b0 r0 j1 nut1 obl1);
          ang (ELONG l b r l0 b0 r0 j1 nut1 sl1)].
Proof.
  intros HPa HPb HE Hi Hn Ho Hs Ht Hb HB.
  apply (body_Mercury lA bA rA l b r l0 b0 r0 nut1 obl1 sl1 sb1 sr1 _ _ j j1); try assumption.
  - exact JDE2000_val.
  - exact (C09_E_ecl.ecl2eq_closed _ _ _).
  - apply dl1G_small; assumption.
  - apply db1G_small; assumption.
  - apply dl2aG_small; assumption.
  - apply cosbet_nz; assumption.
Qed.

Lemma planet_full_Venus (lA bA rA l b r l0 b0 r0 nut1 obl1 sl1 sb1 sr1 j j1 : R) :
  Venus_geometric_heliocentric_position Rops (ep j) (VBool false) = VTuple [ang lA; ang bA; VFloat rA] ->
  Venus_geometric_heliocentric_position Rops (ep j1) (VBool false) = VTuple [ang l; ang b; VFloat r] ->
  Earth_geometric_heliocentric_position Rops (ep j) (VBool false) = VTuple [ang l0; ang b0; VFloat r0] ->
  Epoch___isub__ Rops (ep j) (VFloat (tau_of lA bA rA l0 b0 r0)) = ep j1 ->
  f_nutation_longitude Rops (VTuple [ep j1]) (VDict []) = ang nut1 ->
  f_true_obliquity Rops (VTuple [ep j1]) (VDict []) = ang obl1 ->
  Sun_apparent_geocentric_position Rops (ep j1) (VBool true) = VTuple [ang sl1; ang sb1; VFloat sr1] ->
  -40 <= tcen j1 <= 40 ->
  Rabs (betG l b r l0 b0 r0) <= 25 * (PI / 180) ->
  Rabs (b * (PI / 180)) <= 25 * (PI / 180) ->
  Venus_geocentric_position Rops (ep j) =
  VTuple [ang (RAG l b r l0 b0 r0 j1 nut1 obl1); ang (DECG l b r l0 b0 r0 j1 nut1 obl1);
          ang (ELONG l b r l0 b0 r0 j1 nut1 sl1)].
Proof.
  intros HPa HPb HE Hi Hn Ho Hs Ht Hb HB.
  apply (body_Venus lA bA rA l b r l0 b0 r0 nut1 obl1 sl1 sb1 sr1 _ _ j j1); try assumption.
  - exact JDE2000_val.
  - exact (C09_E_ecl.ecl2eq_closed _ _ _).
  - apply dl1G_small; assumption.
  - apply db1G_small; assumption.
  - apply dl2aG_small; assumption.
  - apply cosbet_nz; assumption.
Qed.

Lemma planet_full_Mars (lA bA rA l b r l0 b0 r0 nut1 obl1 sl1 sb1 sr1 j j1 : R) :
  Mars_geometric_heliocentric_position Rops (ep j) (VBool false) = VTuple [ang lA; ang bA; VFloat rA] ->
  Mars_geometric_heliocentric_position Rops (ep j1) (VBool false) = VTuple [ang l; ang b; VFloat r] ->
  Earth_geometric_heliocentric_position Rops (ep j) (VBool false) = VTuple [ang l0; ang b0; VFloat r0] ->
  Epoch___isub__ Rops (ep j) (VFloat (tau_of lA bA rA l0 b0 r0)) = ep j1 ->
  f_nutation_longitude Rops (VTuple [ep j1]) (VDict []) = ang nut1 ->
  f_true_obliquity Rops (VTuple [ep j1]) (VDict []) = ang obl1 ->
  Sun_apparent_geocentric_position Rops (ep j1) (VBool true) = VTuple [ang sl1; ang sb1; VFloat sr1] ->
  -40 <= tcen j1 <= 40 ->
  Rabs (betG l b r l0 b0 r0) <= 25 * (PI / 180) ->
  Rabs (b * (PI / 180)) <= 25 * (PI / 180) ->
  Mars_geocentric_position Rops (ep j) =
  VTuple [ang (RAG l b r l0 b0 r0 j1 nut1 obl1); ang (DECG l b r l0 b0 r0 j1 nut1 obl1);
          ang (ELONG l b r l0 b0 r0 j1 nut1 sl1)].
Proof.
  intros HPa HPb HE Hi Hn Ho Hs Ht Hb HB.
  apply (body_Mars lA bA rA l b r l0 b0 r0 nut1 obl1 sl1 sb1 sr1 _ _ j j1); try assumption.
  - exact JDE2000_val.
  - exact (C09_E_ecl.ecl2eq_closed _ _ _).
  - apply dl1G_small; assumption.
  - apply db1G_small; assumption.
  - apply dl2aG_small; assumption.
  - apply cosbet_nz; assumption.
Qed.

Lemma planet_full_Jupiter (lA bA rA l b r l0 b0 r0 nut1 obl1 sl1 sb1 sr1 j j1 : R) :
  Jupiter_geometric_heliocentric_position Rops (ep j) (VBool false) = VTuple [ang lA; ang bA; VFloat rA] ->
  Jupiter_geometric_heliocentric_position Rops (ep j1) (VBool false) = VTuple [ang l; ang b; VFloat r] ->
  Earth_geometric_heliocentric_position Rops (ep j) (VBool false) = VTuple [ang l0; ang b0; VFloat r0] ->
  Epoch___isub__ Rops (ep j) (VFloat (tau_of lA bA rA l0 b0 r0)) = ep j1 ->
  f_nutation_longitude Rops (VTuple [ep j1]) (VDict []) = ang nut1 ->
  f_true_obliquity Rops (VTuple [ep j1]) (VDict []) = ang obl1 ->
  Sun_apparent_geocentric_position Rops (ep j1) (VBool true) = VTuple [ang sl1; ang sb1; VFloat sr1] ->
  -40 <= tcen j1 <= 40 ->
  Rabs (betG l b r l0 b0 r0) <= 25 * (PI / 180) ->
  Rabs (b * (PI / 180)) <= 25 * (PI / 180) ->
  Jupiter_geocentric_position Rops (ep j) =
  VTuple [ang (RAG l b r l0 b0 r0 j1 nut1 obl1); ang (DECG l b r l0 b0 r0 j1 nut1 obl1);
          ang (ELONG l b r l0 b0 r0 j1 nut1 sl1)].
Proof.
  intros HPa HPb HE Hi Hn Ho Hs Ht Hb HB.
  apply (body_Jupiter lA bA rA l b r l0 b0 r0 nut1 obl1 sl1 sb1 sr1 _ _ j j1); try assumption.
  - exact JDE2000_val.
  - exact (C09_E_ecl.ecl2eq_closed _ _ _).
  - apply dl1G_small; assumption.
  - apply db1G_small; assumption.
  - apply dl2aG_small; assumption.
  - apply cosbet_nz; assumption.
Qed.

Lemma planet_full_Saturn (lA bA rA l b r l0 b0 r0 nut1 obl1 sl1 sb1 sr1 j j1 : R) :
  Saturn_geometric_heliocentric_position Rops (ep j) (VBool false) = VTuple [ang lA; ang bA; VFloat rA] ->
  Saturn_geometric_heliocentric_position Rops (ep j1) (VBool false) = VTuple [ang l; ang b; VFloat r] ->
  Earth_geometric_heliocentric_position Rops (ep j) (VBool false) = VTuple [ang l0; ang b0; VFloat r0] ->
  Epoch___isub__ Rops (ep j) (VFloat (tau_of lA bA rA l0 b0 r0)) = ep j1 ->
  f_nutation_longitude Rops (VTuple [ep j1]) (VDict []) = ang nut1 ->
  f_true_obliquity Rops (VTuple [ep j1]) (VDict []) = ang obl1 ->
  Sun_apparent_geocentric_position Rops (ep j1) (VBool true) = VTuple [ang sl1; ang sb1; VFloat sr1] ->
  -40 <= tcen j1 <= 40 ->
  Rabs (betG l b r l0 b0 r0) <= 25 * (PI / 180) ->
  Rabs (b * (PI / 180)) <= 25 * (PI / 180) ->
  Saturn_geocentric_position Rops (ep j) =
  VTuple [ang (RAG l b r l0 b0 r0 j1 nut1 obl1); ang (DECG l b r l0 b0 r0 j1 nut1 obl1);
          ang (ELONG l b r l0 b0 r0 j1 nut1 sl1)].
Proof.
  intros HPa HPb HE Hi Hn Ho Hs Ht Hb HB.
  apply (body_Saturn lA bA rA l b r l0 b0 r0 nut1 obl1 sl1 sb1 sr1 _ _ j j1); try assumption.
  - exact JDE2000_val.
  - exact (C09_E_ecl.ecl2eq_closed _ _ _).
  - apply dl1G_small; assumption.
  - apply db1G_small; assumption.
  - apply dl2aG_small; assumption.
  - apply cosbet_nz; assumption.
Qed.

Lemma planet_full_Uranus (lA bA rA l b r l0 b0 r0 nut1 obl1 sl1 sb1 sr1 j j1 : R) :
  Uranus_geometric_heliocentric_position Rops (ep j) (VBool false) = VTuple [ang lA; ang bA; VFloat rA] ->
  Uranus_geometric_heliocentric_position Rops (ep j1) (VBool false) = VTuple [ang l; ang b; VFloat r] ->
  Earth_geometric_heliocentric_position Rops (ep j) (VBool false) = VTuple [ang l0; ang b0; VFloat r0] ->
  Epoch___isub__ Rops (ep j) (VFloat (tau_of lA bA rA l0 b0 r0)) = ep j1 ->
  f_nutation_longitude Rops (VTuple [ep j1]) (VDict []) = ang nut1 ->
  f_true_obliquity Rops (VTuple [ep j1]) (VDict []) = ang obl1 ->
  Sun_apparent_geocentric_position Rops (ep j1) (VBool true) = VTuple [ang sl1; ang sb1; VFloat sr1] ->
  -40 <= tcen j1 <= 40 ->
  Rabs (betG l b r l0 b0 r0) <= 25 * (PI / 180) ->
  Rabs (b * (PI / 180)) <= 25 * (PI / 180) ->
  Uranus_geocentric_position Rops (ep j) =
  VTuple [ang (RAG l b r l0 b0 r0 j1 nut1 obl1); ang (DECG l b r l0 b0 r0 j1 nut1 obl1);
          ang (ELONG l b r l0 b0 r0 j1 nut1 sl1)].
Proof.
  intros HPa HPb HE Hi Hn Ho Hs Ht Hb HB.
  apply (body_Uranus lA bA rA l b r l0 b0 r0 nut1 obl1 sl1 sb1 sr1 _ _ j j1); try assumption.
  - exact JDE2000_val.
  - exact (C09_E_ecl.ecl2eq_closed _ _ _).
  - apply dl1G_small; assumption.
  - apply db1G_small; assumption.
  - apply dl2aG_small; assumption.
  - apply cosbet_nz; assumption.
Qed.

Lemma planet_full_Neptune (lA bA rA l b r l0 b0 r0 nut1 obl1 sl1 sb1 sr1 j j1 : R) :
  Neptune_geometric_heliocentric_position Rops (ep j) (VBool false) = VTuple [ang lA; ang bA; VFloat rA] ->
  Neptune_geometric_heliocentric_position Rops (ep j1) (VBool false) = VTuple [ang l; ang b; VFloat r] ->
  Earth_geometric_heliocentric_position Rops (ep j) (VBool false) = VTuple [ang l0; ang b0; VFloat r0] ->
  Epoch___isub__ Rops (ep j) (VFloat (tau_of lA bA rA l0 b0 r0)) = ep j1 ->
  f_nutation_longitude Rops (VTuple [ep j1]) (VDict []) = ang nut1 ->
  f_true_obliquity Rops (VTuple [ep j1]) (VDict []) = ang obl1 ->
  Sun_apparent_geocentric_position Rops (ep j1) (VBool true) = VTuple [ang sl1; ang sb1; VFloat sr1] ->
  -40 <= tcen j1 <= 40 ->
  Rabs (betG l b r l0 b0 r0) <= 25 * (PI / 180) ->
  Rabs (b * (PI / 180)) <= 25 * (PI / 180) ->
  Neptune_geocentric_position Rops (ep j) =
  VTuple [ang (RAG l b r l0 b0 r0 j1 nut1 obl1); ang (DECG l b r l0 b0 r0 j1 nut1 obl1);
          ang (ELONG l b r l0 b0 r0 j1 nut1 sl1)].
Proof.
  intros HPa HPb HE Hi Hn Ho Hs Ht Hb HB.
  apply (body_Neptune lA bA rA l b r l0 b0 r0 nut1 obl1 sl1 sb1 sr1 _ _ j j1); try assumption.
  - exact JDE2000_val.
  - exact (C09_E_ecl.ecl2eq_closed _ _ _).
  - apply dl1G_small; assumption.
  - apply db1G_small; assumption.
  - apply dl2aG_small; assumption.
  - apply cosbet_nz; assumption.
Qed.

