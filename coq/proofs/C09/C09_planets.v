(* C09_planets: the whole-body theorems of C09_pl_<Planet>.v with their side conditions
   (|aberration terms| < 60 arcsec, cos beta <> 0) discharged from natural hypotheses
   (|T| <= 40 centuries, |beta| <= 25 deg, |B| <= 25 deg) and JDE2000 = 2451545 proved. *)
From Coq Require Import Reals ZArith List Bool Lra Lia String.
From PyLib Require Import PyVal PyBuiltins Ideal.
From Gen Require Import M_base M_Angle M_Epoch M_Coordinates M_Earth M_Sun.
From Gen Require Import M_Mercury M_Venus M_Mars M_Jupiter M_Saturn M_Uranus M_Neptune.
From Proofs.C09 Require Import C09_A_defs C09_spec C09_geo C09_body C09_J_tac C09_J_jde.
From Proofs.C09 Require Import C09_pl_Mercury C09_pl_Venus C09_pl_Mars C09_pl_Jupiter C09_pl_Saturn C09_pl_Uranus C09_pl_Neptune.
Import ListNotations.
Open Scope R_scope.

Lemma planet_full_Mercury (pl pb pr el eb er nut obl sl sb sr : R -> R) (era edec : R -> R -> R -> R) (j j1 : R) :
  (forall j, Mercury_geometric_heliocentric_position Rops (ep j) (VBool false) = VTuple [ang (pl j); ang (pb j); VFloat (pr j)]) ->
  (forall j, Earth_geometric_heliocentric_position Rops (ep j) (VBool false) = VTuple [ang (el j); ang (eb j); VFloat (er j)]) ->
  Epoch___isub__ Rops (ep j) (VFloat (tau_of (pl j) (pb j) (pr j) (el j) (eb j) (er j))) = ep j1 ->
  (forall j, f_nutation_longitude Rops (VTuple [ep j]) (VDict []) = ang (nut j)) ->
  (forall j, f_true_obliquity Rops (VTuple [ep j]) (VDict []) = ang (obl j)) ->
  (forall j, Sun_apparent_geocentric_position Rops (ep j) (VBool true) = VTuple [ang (sl j); ang (sb j); VFloat (sr j)]) ->
  (forall a b e, f_ecliptical2equatorial Rops (ang a) (ang b) (ang e) = VTuple [ang (era a b e); ang (edec a b e)]) ->
  -40 <= tcen j1 <= 40 ->
  Rabs (betG (pl j1) (pb j1) (pr j1) (el j) (eb j) (er j)) <= 25 * (PI / 180) ->
  Rabs (pb j1 * (PI / 180)) <= 25 * (PI / 180) ->
  Mercury_geocentric_position Rops (ep j) =
  VTuple [ang (era (LAMG (pl j1) (pb j1) (pr j1) (el j) (eb j) (er j) j1 (nut j1)) (BETG (pl j1) (pb j1) (pr j1) (el j) (eb j) (er j) j1) (obl j1));
          ang (edec (LAMG (pl j1) (pb j1) (pr j1) (el j) (eb j) (er j) j1 (nut j1)) (BETG (pl j1) (pb j1) (pr j1) (el j) (eb j) (er j) j1) (obl j1));
          ang (ELONG (pl j1) (pb j1) (pr j1) (el j) (eb j) (er j) j1 (nut j1) (sl j1))].
Proof.
  intros HP HE Hi Hn Ho Hs He Ht Hb HB.
  apply (body_Mercury pl pb pr el eb er nut obl sl sb sr era edec j j1); try assumption.
  - exact JDE2000_val.
  - apply dl1G_small; assumption.
  - apply db1G_small; assumption.
  - apply dl2aG_small; assumption.
  - apply cosbet_nz; assumption.
Qed.

Lemma planet_full_Venus (pl pb pr el eb er nut obl sl sb sr : R -> R) (era edec : R -> R -> R -> R) (j j1 : R) :
  (forall j, Venus_geometric_heliocentric_position Rops (ep j) (VBool false) = VTuple [ang (pl j); ang (pb j); VFloat (pr j)]) ->
  (forall j, Earth_geometric_heliocentric_position Rops (ep j) (VBool false) = VTuple [ang (el j); ang (eb j); VFloat (er j)]) ->
  Epoch___isub__ Rops (ep j) (VFloat (tau_of (pl j) (pb j) (pr j) (el j) (eb j) (er j))) = ep j1 ->
  (forall j, f_nutation_longitude Rops (VTuple [ep j]) (VDict []) = ang (nut j)) ->
  (forall j, f_true_obliquity Rops (VTuple [ep j]) (VDict []) = ang (obl j)) ->
  (forall j, Sun_apparent_geocentric_position Rops (ep j) (VBool true) = VTuple [ang (sl j); ang (sb j); VFloat (sr j)]) ->
  (forall a b e, f_ecliptical2equatorial Rops (ang a) (ang b) (ang e) = VTuple [ang (era a b e); ang (edec a b e)]) ->
  -40 <= tcen j1 <= 40 ->
  Rabs (betG (pl j1) (pb j1) (pr j1) (el j) (eb j) (er j)) <= 25 * (PI / 180) ->
  Rabs (pb j1 * (PI / 180)) <= 25 * (PI / 180) ->
  Venus_geocentric_position Rops (ep j) =
  VTuple [ang (era (LAMG (pl j1) (pb j1) (pr j1) (el j) (eb j) (er j) j1 (nut j1)) (BETG (pl j1) (pb j1) (pr j1) (el j) (eb j) (er j) j1) (obl j1));
          ang (edec (LAMG (pl j1) (pb j1) (pr j1) (el j) (eb j) (er j) j1 (nut j1)) (BETG (pl j1) (pb j1) (pr j1) (el j) (eb j) (er j) j1) (obl j1));
          ang (ELONG (pl j1) (pb j1) (pr j1) (el j) (eb j) (er j) j1 (nut j1) (sl j1))].
Proof.
  intros HP HE Hi Hn Ho Hs He Ht Hb HB.
  apply (body_Venus pl pb pr el eb er nut obl sl sb sr era edec j j1); try assumption.
  - exact JDE2000_val.
  - apply dl1G_small; assumption.
  - apply db1G_small; assumption.
  - apply dl2aG_small; assumption.
  - apply cosbet_nz; assumption.
Qed.

Lemma planet_full_Mars (pl pb pr el eb er nut obl sl sb sr : R -> R) (era edec : R -> R -> R -> R) (j j1 : R) :
  (forall j, Mars_geometric_heliocentric_position Rops (ep j) (VBool false) = VTuple [ang (pl j); ang (pb j); VFloat (pr j)]) ->
  (forall j, Earth_geometric_heliocentric_position Rops (ep j) (VBool false) = VTuple [ang (el j); ang (eb j); VFloat (er j)]) ->
  Epoch___isub__ Rops (ep j) (VFloat (tau_of (pl j) (pb j) (pr j) (el j) (eb j) (er j))) = ep j1 ->
  (forall j, f_nutation_longitude Rops (VTuple [ep j]) (VDict []) = ang (nut j)) ->
  (forall j, f_true_obliquity Rops (VTuple [ep j]) (VDict []) = ang (obl j)) ->
  (forall j, Sun_apparent_geocentric_position Rops (ep j) (VBool true) = VTuple [ang (sl j); ang (sb j); VFloat (sr j)]) ->
  (forall a b e, f_ecliptical2equatorial Rops (ang a) (ang b) (ang e) = VTuple [ang (era a b e); ang (edec a b e)]) ->
  -40 <= tcen j1 <= 40 ->
  Rabs (betG (pl j1) (pb j1) (pr j1) (el j) (eb j) (er j)) <= 25 * (PI / 180) ->
  Rabs (pb j1 * (PI / 180)) <= 25 * (PI / 180) ->
  Mars_geocentric_position Rops (ep j) =
  VTuple [ang (era (LAMG (pl j1) (pb j1) (pr j1) (el j) (eb j) (er j) j1 (nut j1)) (BETG (pl j1) (pb j1) (pr j1) (el j) (eb j) (er j) j1) (obl j1));
          ang (edec (LAMG (pl j1) (pb j1) (pr j1) (el j) (eb j) (er j) j1 (nut j1)) (BETG (pl j1) (pb j1) (pr j1) (el j) (eb j) (er j) j1) (obl j1));
          ang (ELONG (pl j1) (pb j1) (pr j1) (el j) (eb j) (er j) j1 (nut j1) (sl j1))].
Proof.
  intros HP HE Hi Hn Ho Hs He Ht Hb HB.
  apply (body_Mars pl pb pr el eb er nut obl sl sb sr era edec j j1); try assumption.
  - exact JDE2000_val.
  - apply dl1G_small; assumption.
  - apply db1G_small; assumption.
  - apply dl2aG_small; assumption.
  - apply cosbet_nz; assumption.
Qed.

Lemma planet_full_Jupiter (pl pb pr el eb er nut obl sl sb sr : R -> R) (era edec : R -> R -> R -> R) (j j1 : R) :
  (forall j, Jupiter_geometric_heliocentric_position Rops (ep j) (VBool false) = VTuple [ang (pl j); ang (pb j); VFloat (pr j)]) ->
  (forall j, Earth_geometric_heliocentric_position Rops (ep j) (VBool false) = VTuple [ang (el j); ang (eb j); VFloat (er j)]) ->
  Epoch___isub__ Rops (ep j) (VFloat (tau_of (pl j) (pb j) (pr j) (el j) (eb j) (er j))) = ep j1 ->
  (forall j, f_nutation_longitude Rops (VTuple [ep j]) (VDict []) = ang (nut j)) ->
  (forall j, f_true_obliquity Rops (VTuple [ep j]) (VDict []) = ang (obl j)) ->
  (forall j, Sun_apparent_geocentric_position Rops (ep j) (VBool true) = VTuple [ang (sl j); ang (sb j); VFloat (sr j)]) ->
  (forall a b e, f_ecliptical2equatorial Rops (ang a) (ang b) (ang e) = VTuple [ang (era a b e); ang (edec a b e)]) ->
  -40 <= tcen j1 <= 40 ->
  Rabs (betG (pl j1) (pb j1) (pr j1) (el j) (eb j) (er j)) <= 25 * (PI / 180) ->
  Rabs (pb j1 * (PI / 180)) <= 25 * (PI / 180) ->
  Jupiter_geocentric_position Rops (ep j) =
  VTuple [ang (era (LAMG (pl j1) (pb j1) (pr j1) (el j) (eb j) (er j) j1 (nut j1)) (BETG (pl j1) (pb j1) (pr j1) (el j) (eb j) (er j) j1) (obl j1));
          ang (edec (LAMG (pl j1) (pb j1) (pr j1) (el j) (eb j) (er j) j1 (nut j1)) (BETG (pl j1) (pb j1) (pr j1) (el j) (eb j) (er j) j1) (obl j1));
          ang (ELONG (pl j1) (pb j1) (pr j1) (el j) (eb j) (er j) j1 (nut j1) (sl j1))].
Proof.
  intros HP HE Hi Hn Ho Hs He Ht Hb HB.
  apply (body_Jupiter pl pb pr el eb er nut obl sl sb sr era edec j j1); try assumption.
  - exact JDE2000_val.
  - apply dl1G_small; assumption.
  - apply db1G_small; assumption.
  - apply dl2aG_small; assumption.
  - apply cosbet_nz; assumption.
Qed.

Lemma planet_full_Saturn (pl pb pr el eb er nut obl sl sb sr : R -> R) (era edec : R -> R -> R -> R) (j j1 : R) :
  (forall j, Saturn_geometric_heliocentric_position Rops (ep j) (VBool false) = VTuple [ang (pl j); ang (pb j); VFloat (pr j)]) ->
  (forall j, Earth_geometric_heliocentric_position Rops (ep j) (VBool false) = VTuple [ang (el j); ang (eb j); VFloat (er j)]) ->
  Epoch___isub__ Rops (ep j) (VFloat (tau_of (pl j) (pb j) (pr j) (el j) (eb j) (er j))) = ep j1 ->
  (forall j, f_nutation_longitude Rops (VTuple [ep j]) (VDict []) = ang (nut j)) ->
  (forall j, f_true_obliquity Rops (VTuple [ep j]) (VDict []) = ang (obl j)) ->
  (forall j, Sun_apparent_geocentric_position Rops (ep j) (VBool true) = VTuple [ang (sl j); ang (sb j); VFloat (sr j)]) ->
  (forall a b e, f_ecliptical2equatorial Rops (ang a) (ang b) (ang e) = VTuple [ang (era a b e); ang (edec a b e)]) ->
  -40 <= tcen j1 <= 40 ->
  Rabs (betG (pl j1) (pb j1) (pr j1) (el j) (eb j) (er j)) <= 25 * (PI / 180) ->
  Rabs (pb j1 * (PI / 180)) <= 25 * (PI / 180) ->
  Saturn_geocentric_position Rops (ep j) =
  VTuple [ang (era (LAMG (pl j1) (pb j1) (pr j1) (el j) (eb j) (er j) j1 (nut j1)) (BETG (pl j1) (pb j1) (pr j1) (el j) (eb j) (er j) j1) (obl j1));
          ang (edec (LAMG (pl j1) (pb j1) (pr j1) (el j) (eb j) (er j) j1 (nut j1)) (BETG (pl j1) (pb j1) (pr j1) (el j) (eb j) (er j) j1) (obl j1));
          ang (ELONG (pl j1) (pb j1) (pr j1) (el j) (eb j) (er j) j1 (nut j1) (sl j1))].
Proof.
  intros HP HE Hi Hn Ho Hs He Ht Hb HB.
  apply (body_Saturn pl pb pr el eb er nut obl sl sb sr era edec j j1); try assumption.
  - exact JDE2000_val.
  - apply dl1G_small; assumption.
  - apply db1G_small; assumption.
  - apply dl2aG_small; assumption.
  - apply cosbet_nz; assumption.
Qed.

Lemma planet_full_Uranus (pl pb pr el eb er nut obl sl sb sr : R -> R) (era edec : R -> R -> R -> R) (j j1 : R) :
  (forall j, Uranus_geometric_heliocentric_position Rops (ep j) (VBool false) = VTuple [ang (pl j); ang (pb j); VFloat (pr j)]) ->
  (forall j, Earth_geometric_heliocentric_position Rops (ep j) (VBool false) = VTuple [ang (el j); ang (eb j); VFloat (er j)]) ->
  Epoch___isub__ Rops (ep j) (VFloat (tau_of (pl j) (pb j) (pr j) (el j) (eb j) (er j))) = ep j1 ->
  (forall j, f_nutation_longitude Rops (VTuple [ep j]) (VDict []) = ang (nut j)) ->
  (forall j, f_true_obliquity Rops (VTuple [ep j]) (VDict []) = ang (obl j)) ->
  (forall j, Sun_apparent_geocentric_position Rops (ep j) (VBool true) = VTuple [ang (sl j); ang (sb j); VFloat (sr j)]) ->
  (forall a b e, f_ecliptical2equatorial Rops (ang a) (ang b) (ang e) = VTuple [ang (era a b e); ang (edec a b e)]) ->
  -40 <= tcen j1 <= 40 ->
  Rabs (betG (pl j1) (pb j1) (pr j1) (el j) (eb j) (er j)) <= 25 * (PI / 180) ->
  Rabs (pb j1 * (PI / 180)) <= 25 * (PI / 180) ->
  Uranus_geocentric_position Rops (ep j) =
  VTuple [ang (era (LAMG (pl j1) (pb j1) (pr j1) (el j) (eb j) (er j) j1 (nut j1)) (BETG (pl j1) (pb j1) (pr j1) (el j) (eb j) (er j) j1) (obl j1));
          ang (edec (LAMG (pl j1) (pb j1) (pr j1) (el j) (eb j) (er j) j1 (nut j1)) (BETG (pl j1) (pb j1) (pr j1) (el j) (eb j) (er j) j1) (obl j1));
          ang (ELONG (pl j1) (pb j1) (pr j1) (el j) (eb j) (er j) j1 (nut j1) (sl j1))].
Proof.
  intros HP HE Hi Hn Ho Hs He Ht Hb HB.
  apply (body_Uranus pl pb pr el eb er nut obl sl sb sr era edec j j1); try assumption.
  - exact JDE2000_val.
  - apply dl1G_small; assumption.
  - apply db1G_small; assumption.
  - apply dl2aG_small; assumption.
  - apply cosbet_nz; assumption.
Qed.

Lemma planet_full_Neptune (pl pb pr el eb er nut obl sl sb sr : R -> R) (era edec : R -> R -> R -> R) (j j1 : R) :
  (forall j, Neptune_geometric_heliocentric_position Rops (ep j) (VBool false) = VTuple [ang (pl j); ang (pb j); VFloat (pr j)]) ->
  (forall j, Earth_geometric_heliocentric_position Rops (ep j) (VBool false) = VTuple [ang (el j); ang (eb j); VFloat (er j)]) ->
  Epoch___isub__ Rops (ep j) (VFloat (tau_of (pl j) (pb j) (pr j) (el j) (eb j) (er j))) = ep j1 ->
  (forall j, f_nutation_longitude Rops (VTuple [ep j]) (VDict []) = ang (nut j)) ->
  (forall j, f_true_obliquity Rops (VTuple [ep j]) (VDict []) = ang (obl j)) ->
  (forall j, Sun_apparent_geocentric_position Rops (ep j) (VBool true) = VTuple [ang (sl j); ang (sb j); VFloat (sr j)]) ->
  (forall a b e, f_ecliptical2equatorial Rops (ang a) (ang b) (ang e) = VTuple [ang (era a b e); ang (edec a b e)]) ->
  -40 <= tcen j1 <= 40 ->
  Rabs (betG (pl j1) (pb j1) (pr j1) (el j) (eb j) (er j)) <= 25 * (PI / 180) ->
  Rabs (pb j1 * (PI / 180)) <= 25 * (PI / 180) ->
  Neptune_geocentric_position Rops (ep j) =
  VTuple [ang (era (LAMG (pl j1) (pb j1) (pr j1) (el j) (eb j) (er j) j1 (nut j1)) (BETG (pl j1) (pb j1) (pr j1) (el j) (eb j) (er j) j1) (obl j1));
          ang (edec (LAMG (pl j1) (pb j1) (pr j1) (el j) (eb j) (er j) j1 (nut j1)) (BETG (pl j1) (pb j1) (pr j1) (el j) (eb j) (er j) j1) (obl j1));
          ang (ELONG (pl j1) (pb j1) (pr j1) (el j) (eb j) (er j) j1 (nut j1) (sl j1))].
Proof.
  intros HP HE Hi Hn Ho Hs He Ht Hb HB.
  apply (body_Neptune pl pb pr el eb er nut obl sl sb sr era edec j j1); try assumption.
  - exact JDE2000_val.
  - apply dl1G_small; assumption.
  - apply db1G_small; assumption.
  - apply dl2aG_small; assumption.
  - apply cosbet_nz; assumption.
Qed.

