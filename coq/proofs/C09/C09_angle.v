(* C09_angle: Angle(0, 0, s) (arc seconds -> degrees) in the ideal instance, on top of the
   Angle lemmas of C03 (copied as C09_A_*.v). *)
From Coq Require Import Reals ZArith List Bool Lra Lia String.
From PyLib Require Import PyVal PyBuiltins Ideal IdealFacts Whnf PyEval.
From Spec Require Import AngleSpec.
From Gen Require Import M_base M_Angle.
From Proofs.C09 Require Import C09_A_defs C09_A_reduce C09_tac.
Import ListNotations.
Open Scope R_scope.

Ltac2 Set Whnf.is_blocked as old := fun c =>
  Ltac2.Bool.or (old c) (Ltac2.Constr.equal c '@Angle_reduce_deg).

Ltac Znorm :=
  repeat match goal with
  | |- context [IZR ?z] =>
      lazymatch z with
      | Z0 => fail | Zpos _ => fail | Zneg _ => fail
      | _ => let z' := eval vm_compute in z in progress change z with z'
      end
  end.
Ltac pylraz := Znorm; pylra.

Ltac py9_hook s tac ::=
  lazymatch s with
  | Angle_reduce_deg Rops (VFloat ?x) => rewrite (reduce_deg_float x)
  | Angle_reduce_deg Rops (VInt ?z) => rewrite (reduce_deg_int z)
  end.

(* Angle(0, 0, s) for |s| < 60 arc seconds is s/3600 degrees *)
Lemma init_sec s : Rabs s < 60 -> mkA [VInt 0; VInt 0; VFloat s] = ang (s / 3600).
Proof.
  intro H. unfold mkA, blank, no_kw.
  assert (Hs : Rabs (s / 3600) < 360) by (unfold Rabs in *; destruct (Rcase_abs s); destruct (Rcase_abs (s / 3600)); lra).
  destruct (Rlt_dec s 0) as [Hn | Hn].
  - pyrun9_using pylraz. Rlit_norm. unfold ang, angT. repeat f_equal.

    replace (IZR (Z.abs 0 mod 360)) with 0 by reflexivity. replace (IZR (Z.abs 0)) with 0 by reflexivity.
    rewrite Rabs_left by lra.
    replace (-10 / 10 * (0 + 0 / (600 / 10) + - s / (36000 / 10))) with (s / 3600) by field.
    apply red360_small; assumption.
  - pyrun9_using pylraz. Rlit_norm. unfold ang, angT. repeat f_equal.
    replace (IZR (Z.abs 0 mod 360)) with 0 by reflexivity. replace (IZR (Z.abs 0)) with 0 by reflexivity.
    rewrite Rabs_right by lra.
    replace (10 / 10 * (0 + 0 / (600 / 10) + s / (36000 / 10))) with (s / 3600) by field.
    apply red360_small; assumption.
Qed.
