(* assumptions of C09_body_Neptune: the theorem in C09.v is [exact planet_full_Neptune] *)
From Proofs.C09 Require Import C09_planets.
Redirect "C09_body_Neptune.assumptions" Print Assumptions planet_full_Neptune.
