(* C09 (total statements, thorough tier), planet-independent part: as C09_u_body.callees_ok, but the
   shifted epoch is the one the code computes, j1 = j - tau with tau = 0.0057755183 * distance, and
   Epoch.__isub__(Epoch(j), tau) = Epoch(j1) is PROVED (property C02's theorem Epoch_sub_ideal: the
   Epoch constructor's calendar round trip is exact over the reals for -0.5 <= jde < 5399999.5),
   so that no premise about any callee is left.  The light time is bounded by the distance envelope
   Delta <= 2 (r + r0), which keeps j1 within one day of j. *)
From Coq Require Import Reals ZArith List Bool Lra Lia.
From Interval Require Import Tactic.
From PyLib Require Import PyVal PyBuiltins Ideal PyEval.
From Spec Require Import AngleSpec.
From Gen Require Import M_base M_Angle M_Epoch M_Coordinates M_Earth M_Sun.
From Proofs.C02 Require C02_ctor_ideal.
From Proofs.C07 Require C07_mono_code.
From Proofs.C08 Require C08_base C08_obliquity C08_sun C08_nut_main C08_wide C08_app.
From Proofs.C09 Require Import C09_A_defs C09_spec C09_geo C09_body C09_u_vsop C09_u_geo C09_u_body.
Import ListNotations.
Open Scope R_scope.

Lemma prod3_le r x y : 0 <= r -> -1 <= x <= 1 -> -1 <= y <= 1 -> - r <= r * x * y <= r.
Proof. intros Hr Hx Hy. assert (-1 <= x * y <= 1) by nra. rewrite Rmult_assoc. nra. Qed.

(* light time: 0 <= tau <= 0.0058 * 2 (r + r0) *)
Lemma tau_bound l b r l0 b0 r0 : 0 <= r -> 0 <= r0 ->
  0 <= tau_of l b r l0 b0 r0 <= 116 / 10000 * (r + r0).
Proof.
  intros Hr Hr0. unfold tau_of.
  set (q := vx l b r l0 b0 r0 * vx l b r l0 b0 r0 + vy l b r l0 b0 r0 * vy l b r l0 b0 r0 + vz b r b0 r0 * vz b r b0 r0).
  assert (Hx : - (r + r0) <= vx l b r l0 b0 r0 <= r + r0).
  { unfold vx. pose proof (prod3_le r _ _ Hr (COS_bound (dr b)) (COS_bound (dr l))).
    pose proof (prod3_le r0 _ _ Hr0 (COS_bound (dr b0)) (COS_bound (dr l0))). lra. }
  assert (Hy : - (r + r0) <= vy l b r l0 b0 r0 <= r + r0).
  { unfold vy. pose proof (prod3_le r _ _ Hr (COS_bound (dr b)) (SIN_bound (dr l))).
    pose proof (prod3_le r0 _ _ Hr0 (COS_bound (dr b0)) (SIN_bound (dr l0))). lra. }
  assert (Hz : - (r + r0) <= vz b r b0 r0 <= r + r0).
  { unfold vz. pose proof (SIN_bound (dr b)). pose proof (SIN_bound (dr b0)). nra. }
  assert (Hq : q <= (2 * (r + r0)) * (2 * (r + r0))) by (unfold q; nra).
  assert (Hs : sqrt q <= 2 * (r + r0)).
  { rewrite <- (sqrt_square (2 * (r + r0))) by lra. apply sqrt_le_1_alt. exact Hq. }
  pose proof (sqrt_pos q) as H0.
  assert (L : Rlit 57755183 (-10) = 57755183 / 10000000000) by (Rlit_norm; lra).
  rewrite L. split; nra.
Qed.

Section Total.
Variable P : val R -> val R -> val R.
Variables (bmax c dr_ rhomin : R).
Hypothesis Pshape : forall jde, jde_lo <= jde <= jde_hi ->
  exists lon b r, P (ep jde) (VBool false) = VTuple [ang lon; ang b; VFloat r] /\
                  0 <= lon < 360 /\ Rabs (b * (PI / 180)) <= bmax /\ c - dr_ <= r <= c + dr_.
Hypothesis Hb25 : 0 <= bmax <= 43 / 100.
Hypothesis Hrpos : 0 < c - dr_.
Hypothesis Hrho : 0 < rhomin.
Hypothesis Hsep : forall A C, (c - dr_) * (1 - bmax * bmax / 2) <= A <= c + dr_ ->
  97 / 100 * (1 - bE * bE / 2) <= C <= 103 / 100 -> rhomin <= Rabs (A - C).
Hypothesis Hz : (c + dr_) * bmax + 103 / 100 * bE <= 4663 / 10000 * rhomin.
Hypothesis Hfar : c + dr_ <= 60.

Theorem callees_total j : jde_lo + 1 <= j <= jde_hi ->
  exists lA bA rA l0 b0 r0 l b r nut1 obl1 sl1 sb1 sr1,
    let j1 := j - tau_of lA bA rA l0 b0 r0 in
    P (ep j) (VBool false) = VTuple [ang lA; ang bA; VFloat rA] /\
    Earth_geometric_heliocentric_position Rops (ep j) (VBool false) = VTuple [ang l0; ang b0; VFloat r0] /\
    Epoch___isub__ Rops (ep j) (VFloat (tau_of lA bA rA l0 b0 r0)) = ep j1 /\
    j - 1 <= j1 <= j /\
    P (ep j1) (VBool false) = VTuple [ang l; ang b; VFloat r] /\
    f_nutation_longitude Rops (VTuple [ep j1]) (VDict []) = ang nut1 /\
    f_true_obliquity Rops (VTuple [ep j1]) (VDict []) = ang obl1 /\
    Sun_apparent_geocentric_position Rops (ep j1) (VBool true) = VTuple [ang sl1; ang sb1; VFloat sr1] /\
    -40 <= tcen j1 <= 40 /\
    Rabs (betG l b r l0 b0 r0) <= 25 * (PI / 180) /\
    Rabs (b * (PI / 180)) <= 25 * (PI / 180) /\
    Rabs (nut1 * 3600) <= 21 /\ 22 < obl1 < 25.
Proof.
  intros Hj.
  assert (Hj' : jde_lo <= j <= jde_hi) by lra.
  destruct (Pshape j Hj') as (lA & bA & rA & HPa & _ & _ & HrA).
  destruct (earth_shape j Hj') as (l0 & b0 & r0 & HE & _ & Hb0 & Hr0).
  pose proof (tau_bound lA bA rA l0 b0 r0 ltac:(lra) ltac:(lra)) as Ht.
  set (tau := tau_of lA bA rA l0 b0 r0) in *.
  assert (Htau : 0 <= tau <= 1) by (split; [lra | nra]).
  assert (Hj1 : jde_lo <= j - tau <= jde_hi) by lra.
  assert (Hin : C02_ctor_ideal.jde_in_range (j - tau)).
  { unfold C02_ctor_ideal.jde_in_range. unfold jde_lo, jde_hi, C07_mono_code.jde_lo, C07_mono_code.jde_hi in Hj1. lra. }
  destruct (C02_ctor_ideal.Epoch_sub_ideal j tau Hin) as [_ Hisub].
  destruct (Pshape (j - tau) Hj1) as (l & b & r & HPb & _ & Hb & Hr).
  destruct (Tc_range (j - tau) Hj1) as [HT Htc].
  destruct (C08_wide.nutation_longitude_shape40 (j - tau) HT) as (dpsi & Hn & _ & Hdp).
  destruct (C08_wide.true_obliquity_closed40 (j - tau) HT) as (deps & Ho & _ & _ & Hob).
  destruct (C08_app.sun_apparent_unconditional (j - tau) HT) as (L & B & R0 & _ & Hs & HL & _ & _).
  exists lA, bA, rA, l0, b0, r0, l, b, r, (dpsi / 3600),
    (C08_obliquity.eps0 + C08_obliquity.laskar (C08_obliquity.uj (j - tau)) / 3600 + deps / 3600),
    (C08_sun.reflect_lon L), (- B), R0.
  cbv zeta. fold tau.
  split; [exact HPa|]. split; [exact HE|]. split; [exact Hisub|]. split; [lra|].
  split; [exact HPb|]. split; [exact Hn|]. split; [exact Ho|]. split; [exact Hs|]. split; [exact Htc|].
  split; [apply (betG_25 bmax c dr_ rhomin Hb25 Hrpos Hrho Hsep Hz); assumption|].
  split; [assert (P25 : 43 / 100 <= 25 * (PI / 180)) by interval; lra|].
  split; [replace (dpsi / 3600 * 3600) with dpsi by field; exact Hdp | exact Hob].
Qed.
End Total.
