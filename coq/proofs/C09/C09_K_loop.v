(* C09_K_loop: the induction over the generated `while` loop of kepler_equation, stated
   for ANY function [loop] that satisfies the two equations of the generated loop
   (one iteration when |e0 - ef| > TOL; leaving the loop otherwise).  The concrete
   generated fix is shown to satisfy them by symbolic evaluation in C09_K_kepler.v. *)
From Coq Require Import Reals ZArith List Lra Lia.
From PyLib Require Import PyVal PyBuiltins Ideal PyEval.
From Spec Require Import Kepler.
Import ListNotations.
Open Scope R_scope.

Definition TOLr : R := 1 / 10000000000.

Section Loop.
Variable loop : nat -> val R -> val R -> val R -> val R -> val R -> val R.
Variables e m : R.
Hypothesis step : forall n d e0 ef m1 s, TOLr < Rabs (e0 - ef) ->
  loop (S n) (VFloat d) (VFloat e0) (VFloat ef) m1 s =
  loop n (VFloat (d / 2)) (VFloat (e0 + d * sgn1 (m - kg e e0))) (VFloat e0)
       (VFloat (kg e e0)) (VFloat (sgn1 (m - kg e e0))).
Hypothesis leave : forall n d e0 ef m1 s, Rabs (e0 - ef) <= TOLr ->
  loop (S n) (VFloat d) (VFloat e0) (VFloat ef) m1 s =
  loop 1%nat (VFloat d) (VFloat e0) (VFloat ef) m1 s.

Lemma sgn1_abs x : Rabs (sgn1 x) = 1.
Proof. unfold sgn1. destruct (Rlt_dec x 0); [rewrite Rabs_left | rewrite Rabs_right]; lra. Qed.

(* with enough fuel the loop performs n halvings, n minimal with 2 d / 2^n <= TOL, the
   estimates being those of the specification [bisect], and arrives at the exit test *)
Lemma loop_run : forall fuel d e0 ef m1 s, 0 < d -> Rabs (e0 - ef) = 2 * d ->
  2 * d <= TOLr * 2 ^ fuel ->
  exists n ef' m1' s', 2 * (d / 2 ^ n) <= TOLr /\
    Rabs (bisect e m n d e0 - ef') = 2 * (d / 2 ^ n) /\
    (n <> O -> TOLr < 4 * (d / 2 ^ n)) /\ (n <= fuel)%nat /\
    loop (S fuel) (VFloat d) (VFloat e0) (VFloat ef) m1 s =
    loop 1%nat (VFloat (d / 2 ^ n)) (VFloat (bisect e m n d e0)) (VFloat ef') m1' s'.
Proof.
  induction fuel; intros d e0 ef m1 s Hd Hef Hfuel.
  - exists O, ef, m1, s. simpl in *. replace (d / 1) with d by field.
    repeat split; try lra; try lia; try tauto.
  - destruct (Rle_dec (2 * d) TOLr) as [L | L].
    + exists O, ef, m1, s. simpl bisect. simpl pow. replace (d / 1) with d by field.
      repeat split; try lra; try lia; try tauto. apply leave. lra.
    + rewrite step by lra.
      destruct (IHfuel (d / 2) (e0 + d * sgn1 (m - kg e e0)) e0 (VFloat (kg e e0))
                  (VFloat (sgn1 (m - kg e e0)))) as (n & ef' & m1' & s' & A & B & C & D & E).
      * lra.
      * replace (e0 + d * sgn1 (m - kg e e0) - e0) with (d * sgn1 (m - kg e e0)) by ring.
        rewrite Rabs_mult, sgn1_abs, (Rabs_right d) by lra. lra.
      * simpl pow in Hfuel. lra.
      * exists (S n), ef', m1', s'. simpl bisect.
        replace (d / 2 ^ S n) with (d / 2 / 2 ^ n).
        2:{ simpl. field. pose proof (pow2_pos n). lra. }
        repeat split; try assumption; try lia.
        intros _. destruct n as [|n'].
        -- simpl. unfold TOLr in *. lra.
        -- apply C. discriminate.
Qed.
End Loop.
