(* C09_mnp: shape witness for the _near_parabolic hypotheses of C09_mgeo.minor_geo_near_parabolic:
   at perihelion (t = 0) the generated Minor._near_parabolic returns (Angle(0), q). *)
From Coq Require Import Reals ZArith List Bool Lra Lia String.
From PyLib Require Import PyVal PyBuiltins Ideal IdealFacts Whnf PyEval Sphere.
From Spec Require Import AngleSpec.
From Gen Require Import M_base M_Angle M_Epoch M_Coordinates M_Earth M_Sun M_Minor.
From Proofs.C09 Require Import C09_A_defs C09_A_reduce C09_A_construct C09_spec C09_geo C09_tac.
Import ListNotations.
Open Scope R_scope.
Ltac2 Set Whnf.is_blocked as old := fun c =>
  Ltac2.Bool.or (old c) (Ltac2.Constr.equal c '@Angle___init__).
Ltac py9_hook s tac ::=
  lazymatch s with
  | Angle___init__ Rops (VObj cAngle [VNone; VNone]) (VTuple [VFloat ?x]) (VDict []) => rw_with s (init_float_raw x)
  end.
Lemma near_parabolic_at_perihelion (aa bb cc am bm cm q e inc om w tp n a : R) : 0 < q -> 0 <= e ->
  Minor__near_parabolic Rops
    (VObj cMinor [VFloat tol0; VFloat aa; VFloat bb; VFloat cc; VFloat am; VFloat bm; VFloat cm;
                  VFloat q; VFloat e; ang inc; ang om; ang w; ep tp; VFloat n; VFloat a]) (VFloat 0)
  = VTuple [ang (red360 (Rlit 0 (-1))); VFloat q].
Proof.
  intros Hq He. unfold ang, angT, ep, tol0.
  assert (0 < (1 + e) / q) by (apply Rdiv_lt_0_compat; lra).
  pyrun9_using ltac:(first [pylra | Rlit_norm_all; nra]). reflexivity.
Qed.
