(* assumptions of C09_body_Venus: the theorem in C09.v is [exact planet_full_Venus] *)
From Proofs.C09 Require Import C09_planets.
Redirect "C09_body_Venus.assumptions" Print Assumptions planet_full_Venus.
