(* C09_tac: call-by-value symbolic evaluator for the generated model (copy of pyrun9 of
   C13_tac.v: the val-typed arguments of every application are evaluated first), with a client
   hook [py9_hook s tac] that rewrites a stuck call [s] of an abstracted (blocked) callee with a
   characterisation lemma or a hypothesis.  Only rewriting with proved equalities is used. *)
From Coq Require Import Reals ZArith List Bool Lra Lia String.
From PyLib Require Import PyVal PyBuiltins Ideal Whnf PyEval.
Import ListNotations.
Open Scope R_scope.

Ltac py9_hook s tac := fail.

Ltac has9_noncanon_arg t :=
  lazymatch t with
  | ?g ?a =>
      first [ lazymatch type of a with
              | val R => tryif is_canon a then fail else idtac
              | _ => fail
              end
            | has9_noncanon_arg g ]
  | _ => fail
  end.

Ltac pyrun9_using tac :=
  lazymatch goal with
  | |- ?l = _ =>
      lazymatch l with
      | bind _ _ => idtac
      | _ => cbv9_args l tac
      end
  end;
  whnf_lhs;
  lazymatch goal with
  | |- ?l = _ =>
    tryif is_canon l then expose_R else
    first [
      lazymatch l with
      | bind ?e ?k =>
          tryif is_canon e then
            lazymatch e with
            | VErr _ => refine (eq_trans (bind_err _ k) _)
            | _ => refine (eq_trans (bind_ok e k eq_refl) _); cbv beta
            end
          else
            let H := fresh "Hev" in
            eassert (H : e = _) by (pyrun9_using tac; py_canon_refl);
            refine (eq_trans (f_equal (fun z => bind z k) H) _); clear H
      | VTuple ?xs => first_noncanon xs ltac:(fun x =>
            let H := fresh "Hev" in
            eassert (H : x = _) by (pyrun9_using tac; py_canon_refl); rewrite H; clear H)
      | VList ?xs => first_noncanon xs ltac:(fun x =>
            let H := fresh "Hev" in
            eassert (H : x = _) by (pyrun9_using tac; py_canon_refl); rewrite H; clear H)
      | VObj _ ?xs => first_noncanon xs ltac:(fun x =>
            let H := fresh "Hev" in
            eassert (H : x = _) by (pyrun9_using tac; py_canon_refl); rewrite H; clear H)
      | _ =>
          pose_stuck;
          lazymatch goal with
          | py_stuck := ?s |- _ =>
              clear py_stuck; py_trace s;
              lazymatch s with
              | bind ?e ?k =>
                  let H := fresh "Hev" in
                  eassert (H : bind e k = _) by (pyrun9_using tac; py_canon_refl);
                  rewrite H; clear H
              | Rltb _ _ => py_decide_at s tac
              | Rleb _ _ => py_decide_at s tac
              | Reqb _ _ => py_decide_at s tac
              | _ =>
                  first [ match goal with H : s = _ |- _ => rewrite H end
                        | py9_hook s tac
                        | (* reached lazily (inside a tuple display): evaluate its arguments first *)
                          has9_noncanon_arg s;
                          let H := fresh "Hev" in
                          eassert (H : s = _) by (pyrun9_using tac; py_canon_refl);
                          rewrite H; clear H
                        | idtac "pyrun9: stuck on" s; fail 1 ]
              end
          end
      end;
      pyrun9_using tac
    | idtac ]
  end
with cbv9_args t tac :=
  (* goal [t = r]; evaluates the val-typed arguments of the application t, left to right *)
  cbv9_fun t tac ltac:(fun p => refine (eq_trans p _))
with cbv9_fun g tac k :=
  (* calls k with a proof of [g = g'] where g' is g with its val arguments evaluated *)
  lazymatch g with
  | ?g1 ?a =>
      lazymatch type of a with
      | val R =>
          cbv9_fun g1 tac ltac:(fun p1 =>
            tryif is_canon a then k constr:(f_equal (fun f => f a) p1) else
              (let H := fresh "Hev" in
               eassert (H : a = _) by (pyrun9_using tac; py_canon_refl);
               k constr:(f_equal2 (fun f x => f x) p1 H); clear H))
      | nat => cbv9_fun g1 tac ltac:(fun p1 => k constr:(f_equal (fun f => f a) p1))
      | libm_fn => cbv9_fun g1 tac ltac:(fun p1 => k constr:(f_equal (fun f => f a) p1))
      | _ => k constr:(eq_refl g)
      end
  | _ => k constr:(eq_refl g)
  end.

Ltac pyrun9 := pyrun9_using pylra.
