(* assumptions of C09_body_Mars: the theorem in C09.v is [exact planet_full_Mars] *)
From Proofs.C09 Require Import C09_planets.
Redirect "C09_body_Mars.assumptions" Print Assumptions planet_full_Mars.
