(* C05: characterisation of the Angle primitives used by the coordinate routines,
   ideal (real-number) instance of the generated model.  No callee is blocked here. *)
From Coq Require Import Reals ZArith List String Lra Lia.
From PyLib Require Import PyVal PyBuiltins Ideal Whnf PyEval Sphere.
From Gen Require Import M_base M_Angle.
Import ListNotations.
Open Scope R_scope.

Definition tol0 : R := Rlit 1 (-10).
Definition ang (d : R) : val R := VObj cAngle [VFloat d; VFloat tol0].
Definition blank : val R := VObj cAngle [VNone; VNone].
Definition kw_rad : val R := VDict [(VStr "radians"%string, VBool true)].

(* what Angle.to_positive makes of a value *)
Definition topos (d : R) : R := if Rlt_dec d 0 then 360 + d else d.
(* what the constructor's reduction makes of a value in (-720, 720) *)
Definition red360 (d : R) : R :=
  if Rle_dec d (-360) then d + 360 else if Rlt_dec d 360 then d else d - 360.

Lemma topos_range d : -360 <= d < 360 -> 0 <= topos d < 360.
Proof. intros H. unfold topos. destruct (Rlt_dec d 0); lra. Qed.
Lemma topos_cases d : topos d = d \/ topos d = d + 360.
Proof. unfold topos. destruct (Rlt_dec d 0); [right | left]; lra. Qed.
Lemma topos_id d : 0 <= d -> topos d = d.
Proof. intros H. unfold topos. destruct (Rlt_dec d 0); lra. Qed.
Lemma red360_range d : -720 < d < 720 -> -360 < red360 d < 360.
Proof. intros H. unfold red360. destruct (Rle_dec d (-360)); [| destruct (Rlt_dec d 360)]; lra. Qed.
Lemma red360_cases d : exists k : Z, red360 d = d + 360 * IZR k.
Proof.
  unfold red360. destruct (Rle_dec d (-360)); [| destruct (Rlt_dec d 360)].
  - exists 1%Z. lra.
  - exists 0%Z. lra.
  - exists (-1)%Z. lra.
Qed.
Lemma red360_id d : -360 < d < 360 -> red360 d = d.
Proof. intros H. unfold red360. destruct (Rle_dec d (-360)); [| destruct (Rlt_dec d 360)]; lra. Qed.
Lemma topos_mod d : exists k : Z, topos d = d + 360 * IZR k.
Proof. destruct (topos_cases d) as [H | H]; [exists 0%Z | exists 1%Z]; lra. Qed.

Lemma Angle_rad_ang d : Angle_rad Rops (ang d) = VFloat (d * (PI / 180)).
Proof. pyrun. reflexivity. Qed.

Lemma Angle_call_ang d : Angle___call__ Rops (ang d) = VFloat d.
Proof. pyrun. reflexivity. Qed.

(* ---- Angle.reduce_deg ---- *)
Lemma reduce_lo d : -360 < d < 360 -> Angle_reduce_deg Rops (VFloat d) = VFloat d.
Proof. intros H. pyrun. reflexivity. Qed.

Lemma mod360_hi n : (359 < n < 720)%Z -> (n mod 360 = n - 360)%Z.
Proof. intros H. symmetry. apply Z.mod_unique with 1%Z; lia. Qed.

Lemma reduce_hi d : 360 <= d < 720 -> Angle_reduce_deg Rops (VFloat d) = VFloat (d - 360).
Proof.
  intros H.
  assert (Habs : Rabs d = d) by (apply Rabs_right; lra).
  pose proof (Rfloor_spec d) as Hn. set (n := Rfloor d) in *.
  assert (Hm : Rfmod (Rabs d) 1 = d - IZR n).
  { unfold Rfmod, Rtrunc. rewrite Habs. replace (d / 1) with d by field.
    destruct (Rlt_dec d 0); [lra |]. fold n. ring. }
  assert (Ht : Rtrunc (Rabs d) = n).
  { unfold Rtrunc. rewrite Habs. destruct (Rlt_dec d 0); [lra | reflexivity]. }
  assert (Hq : (n mod 360 = n - 360)%Z).
  { apply mod360_hi. split; apply lt_IZR; lra. }
  destruct (Req_dec (d - IZR n) 0) as [Hz | Hz].
  - pyrun_using ltac:(first [ rewrite Hm; lra | pylra ]).
    rewrite Ht, Hq, minus_IZR. rewrite (proj2 (Rltb_false 1 0)) by lra. cbv iota.
    Rlit_norm. f_equal. lra.
  - pyrun_using ltac:(first [ rewrite Hm; lra | pylra ]).
    rewrite Ht, Hm, Hq, minus_IZR. Rlit_norm. f_equal. lra.
Qed.

Lemma reduce_neg d : -720 < d <= -360 -> Angle_reduce_deg Rops (VFloat d) = VFloat (d + 360).
Proof.
  intros H.
  assert (Habs : Rabs d = - d) by (apply Rabs_left; lra).
  pose proof (Rfloor_spec (- d)) as Hn. set (n := Rfloor (- d)) in *.
  assert (Hm : Rfmod (Rabs d) 1 = - d - IZR n).
  { unfold Rfmod, Rtrunc. rewrite Habs. replace (- d / 1) with (- d) by field.
    destruct (Rlt_dec (- d) 0); [lra |]. fold n. ring. }
  assert (Ht : Rtrunc (Rabs d) = n).
  { unfold Rtrunc. rewrite Habs. destruct (Rlt_dec (- d) 0); [lra | reflexivity]. }
  assert (Hq : (n mod 360 = n - 360)%Z).
  { apply mod360_hi. split; apply lt_IZR; lra. }
  destruct (Req_dec (- d - IZR n) 0) as [Hz | Hz].
  - pyrun_using ltac:(first [ rewrite Hm; lra | pylra ]).
    rewrite Ht, Hq, minus_IZR. rewrite (proj2 (Rltb_false 1 0)) by lra. cbv iota.
    Rlit_norm. f_equal. lra.
  - pyrun_using ltac:(first [ rewrite Hm; lra | pylra ]).
    rewrite Ht, Hm, Hq, minus_IZR. Rlit_norm. f_equal. lra.
Qed.

Lemma reduce_720 d : -720 < d < 720 -> Angle_reduce_deg Rops (VFloat d) = VFloat (red360 d).
Proof.
  intros H. unfold red360. destruct (Rle_dec d (-360)); [| destruct (Rlt_dec d 360)].
  - apply reduce_neg; lra.
  - apply reduce_lo; lra.
  - apply reduce_hi; lra.
Qed.

(* ---- constructor and to_positive; reduce_deg is abstracted from here on ---- *)
Ltac2 Set Whnf.is_blocked as old := fun c =>
  Ltac2.Bool.or (old c) (Ltac2.Constr.equal c '@Angle_reduce_deg).

Lemma Angle_new_deg_mk x : -720 < x < 720 ->
  Angle___init__ Rops blank (mk_tuple [VFloat x]) (mk_dict []) = ang (red360 x).
Proof. intros H. pose proof (reduce_720 x H) as Hr. pyrun. reflexivity. Qed.

Lemma Angle_new_rad_mk x : -720 < x * (180 / PI) < 720 ->
  Angle___init__ Rops blank (mk_tuple [VFloat x]) (mk_dict [kw "radians" (VBool true)])
  = ang (red360 (x * (180 / PI))).
Proof. intros H. pose proof (reduce_720 _ H) as Hr. pyrun. reflexivity. Qed.

Lemma to_positive_topos a :
  Angle_to_positive Rops (ang a) = VTuple [ang (topos a); ang (topos a)].
Proof.
  unfold topos. destruct (Rlt_dec a 0) as [Ha | Ha].
  - pyrun. Rlit_norm. unfold ang, tol0.
    assert (3600 / 10 - Rabs a = 360 + a) as -> by (rewrite Rabs_left by lra; lra).
    reflexivity.
  - pyrun. reflexivity.
Qed.

(* x ** 2 on floats *)
Lemma Rpow_2 x : Rpow x 2 = x * x.
Proof.
  unfold Rpow. destruct (Rlt_dec 0 x) as [Hx | Hx].
  - replace 2 with (INR 2) by (simpl; lra). rewrite Rpower_pow by assumption. simpl. ring.
  - assert (E : is_int 2 = true).
    { unfold is_int. apply Reqb_true. rewrite Rfloor_IZR. reflexivity. }
    rewrite E, Rfloor_IZR. simpl. ring.
Qed.

Lemma num_pow_2 s : num_pow Rops (VFloat s) (VInt 2) = VFloat (s * s).
Proof.
  rewrite <- Rpow_2.
  assert (E : is_int 2 = true).
  { unfold is_int. apply Reqb_true. rewrite Rfloor_IZR. reflexivity. }
  destruct (Rtotal_order s 0) as [H | [H | H]].
  - pyrun_using ltac:(first [ rewrite Rfloor_IZR; lra | pylra ]). reflexivity.
  - pyrun_using ltac:(first [ rewrite Rfloor_IZR; lra | pylra ]). reflexivity.
  - pyrun_using ltac:(first [ rewrite Rfloor_IZR; lra | pylra ]). reflexivity.
Qed.
