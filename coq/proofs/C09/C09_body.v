(* C09_body: the closed forms computed by the GENERATED <Planet>.geocentric_position after the
   light-time stage, written with the spec functions of C09_spec (abl, abb, elong, lam_of,
   bet_of) in the order of operations of the source, so that they are convertible with what
   the symbolic evaluation of the generated body produces (C09_pl_<Planet>.v), and the lemmas
   that tie the spec theorems (direction, size of the corrections, elongation) to them.
   Planet-independent. *)
From Coq Require Import Reals ZArith List Bool Lra Lia String.
From Interval Require Import Tactic.
From PyLib Require Import PyVal PyBuiltins Ideal IdealFacts Whnf PyEval Sphere.
From Spec Require Import AngleSpec.
From Proofs.C09 Require Import C09_A_defs C09_spec C09_geo.
From Proofs.C09 Require C09_E_angle C09_E_run C09_E_ecl.
Import ListNotations.
Open Scope R_scope.

Definition kabL : R := Rlit 2049552 (-5).
Definition tcen (j1 : R) : R := (j1 - 2451545) / 36525.
Definition eccL (t : R) : R := Rlit 16708634 (-9) + t * (Rlit (-42037) (-9) - t * Rlit 1267 (-10)).
Definition pieL (t : R) : R := (Rlit 10293735 (-5) + t * (Rlit 171946 (-5) + t * Rlit 46 (-5))) * (PI / 180).

Section Body.
(* planet (l,b,r) at the light-time-shifted epoch j1, Earth (l0,b0,r0) at the caller's epoch,
   nutation in longitude and Sun's apparent longitude (degrees) as returned for j1 *)
Variables l b r l0 b0 r0 j1 nutv slv : R.

Definition X2 : R := vx l b r l0 b0 r0.
Definition Y2 : R := vy l b r l0 b0 r0.
Definition Z2 : R := vz b r b0 r0.
Definition lamG : R := lam_of X2 Y2.                 (* atan2 y x *)
Definition betG : R := bet_of X2 Y2 Z2.              (* atan2 z sqrt(x^2+y^2) *)
Definition tG : R := tcen j1.
Definition lonG : R := red360 (l0 + Rlit 1800 (-1)) * (PI / 180).   (* Sun's geometric longitude *)
(* aberration, arc seconds *)
Definition dl1G : R := abl kabL (eccL tG) lonG (pieL tG) lamG betG.
Definition db1G : R := abb kabL (eccL tG) lonG (pieL tG) lamG betG.
(* geometric longitude in [0,360) degrees *)
Definition lam0G : R := pos360 (red360 (lamG * (180 / PI))).
(* FK5 *)
Definition lpG : R := red360 (lam0G + - (tG * (Rlit 1397 (-3) + tG * Rlit 31 (-5)))) * (PI / 180).
Definition dl2aG : R := Rlit 3916 (-5) * (cos lpG + sin lpG) * tan (b * (PI / 180)).
Definition db2G : R := Rlit 3916 (-5) * (cos lpG - sin lpG).
(* apparent longitude / latitude, degrees, as handed to ecliptical2equatorial *)
Definition LAMG : R :=
  red360 (red360 (red360 (lam0G + dl1G / 3600) + red360 (Rlit (-9033) (-5) / 3600 + dl2aG / 3600)) + nutv).
Definition BETG : R :=
  red360 (red360 (red360 (betG * (180 / PI)) + db1G / 3600) + db2G / 3600).
(* elongation, degrees *)
Definition ELONG : R := red360 (elong (BETG * (PI / 180)) (LAMG * (PI / 180)) (slv * (PI / 180)) * (180 / PI)).

(* right ascension / declination (degrees): ecliptical2equatorial(LAMG, BETG, obl), closed form of C05 *)
Variable oblv : R.
Definition RAG : R := C09_E_angle.topos (r2d (C09_E_ecl.equ_ra (d2r LAMG) (d2r BETG) (d2r oblv))).
Definition DECG : R := r2d (C09_E_ecl.equ_dec (d2r LAMG) (d2r BETG) (d2r oblv)).
(* they are the rotation about the x axis by the obliquity of the unit vector (LAMG, BETG) *)
Theorem body_radec : -90 < BETG < 90 ->
  uvec (d2r RAG) (d2r DECG) = Rx (d2r oblv) (uvec (d2r LAMG) (d2r BETG)) /\ 0 <= RAG < 360 /\ -90 <= DECG <= 90.
Proof.
  intro H. unfold RAG, DECG. split; [| split].
  - rewrite C09_E_run.uvec_topos_deg, d2r_r2d. apply C09_E_ecl.equ_formula_rot. now apply C09_E_run.cos_d2r_pos.
  - apply C09_E_run.topos_r2d_atan2_range.
  - apply C09_E_run.r2d_atan2_nonneg_range, C09_E_run.abs_sqrt_nonneg.
Qed.

(* ---- side conditions of the evaluation, from natural hypotheses ---- *)
Hypothesis Ht : -40 <= tG <= 40.
Hypothesis Hbet : Rabs betG <= 25 * (PI / 180).
Hypothesis Hb : Rabs (b * (PI / 180)) <= 25 * (PI / 180).

Lemma kabL_eq : kabL = kab.
Proof. unfold kabL, kab. Rlit_norm. lra. Qed.
Lemma eccL_eq t : eccL t = ecc t.
Proof. unfold eccL, ecc. Rlit_norm. lra. Qed.

Lemma cosbet_pos : 9063 / 10000 <= cos betG.
Proof. apply cos_25. exact Hbet. Qed.
Lemma cosbet_nz : cos betG <> 0.
Proof. pose proof cosbet_pos. lra. Qed.

Lemma dl1G_small : Rabs dl1G < 60.
Proof.
  unfold dl1G. rewrite kabL_eq, eccL_eq.
  pose proof (ecc_range tG Ht) as [E1 E2]. pose proof cosbet_pos as Hc.
  assert (Hk : 0 <= kab) by (unfold kab; lra).
  eapply Rle_lt_trans. apply abl_bound; try assumption; lra.
  apply Rle_lt_trans with (kab * (1 + 2 / 100) * / (9063 / 10000)).
  - unfold Rdiv at 1. apply Rmult_le_compat; try (unfold kab; nra).
    + left. apply Rinv_0_lt_compat. lra.
    + apply Rinv_le_contravar; lra.
  - unfold kab. lra.
Qed.

Lemma db1G_small : Rabs db1G < 60.
Proof.
  unfold db1G. rewrite kabL_eq, eccL_eq.
  pose proof (ecc_range tG Ht) as [E1 E2].
  assert (Hk : 0 <= kab) by (unfold kab; lra).
  eapply Rle_lt_trans. apply abb_bound; assumption. unfold kab. nra.
Qed.

Lemma dl2aG_small : Rabs dl2aG < 60.
Proof.
  unfold dl2aG. pose proof (tan_25 _ Hb) as HT.
  pose proof (COS_bound lpG). pose proof (SIN_bound lpG).
  assert (Rabs (cos lpG + sin lpG) <= 2) by (apply Rabs_le; split; lra).
  pose proof (Rabs_pos (tan (b * (PI / 180)))). pose proof (Rabs_pos (cos lpG + sin lpG)).
  rewrite !Rabs_mult. rewrite (Rabs_pos_eq (Rlit 3916 (-5))) by (Rlit_norm; lra).
  Rlit_norm. nra.
Qed.

Lemma db2_small lp : Rabs (Rlit 3916 (-5) * (cos lp - sin lp)) < 60.
Proof.
  pose proof (COS_bound lp). pose proof (SIN_bound lp). Rlit_norm. apply Rabs_def1; nra.
Qed.

(* ---- ties to the spec theorems ---- *)
(* lambda, beta of the generated body are the direction of the vector planet(j1) - Earth(j) *)
Theorem body_direction : X2 <> 0 \/ Y2 <> 0 ->
  X2 = norm3 X2 Y2 Z2 * (cos betG * cos lamG) /\ Y2 = norm3 X2 Y2 Z2 * (cos betG * sin lamG)
  /\ Z2 = norm3 X2 Y2 Z2 * sin betG /\ - PI < lamG <= PI /\ - (PI / 2) < betG < PI / 2.
Proof.
  clear Ht Hbet Hb. intro H. pose proof (final_stage_direction X2 Y2 Z2 H) as F. cbv zeta in F.
  unfold lamG, betG. tauto.
Qed.

(* the FK5 pair of Angles of the source is the spec term *)
Lemma fk5_eq : Rlit (-9033) (-5) + dl2aG = fk5l lpG (b * (PI / 180)) /\ db2G = fk5b lpG.
Proof. unfold dl2aG, db2G, fk5l, fk5b. Rlit_norm. split; lra. Qed.

(* total of the corrections the body adds (arc seconds; nutation nutv is in degrees) *)
Theorem body_corrections_small : Rabs (nutv * 3600) <= 1903 / 100 ->
  (Rabs (dl1G + (Rlit (-9033) (-5) + dl2aG) + nutv * 3600) + Rabs (db1G + db2G)) / 3600 <= 2 / 100.
Proof.
  intro Hn. destruct fk5_eq as [E1 E2]. rewrite E1, E2. unfold dl1G, db1G.
  rewrite kabL_eq, eccL_eq.
  exact (corrections_small tG lonG (pieL tG) lamG betG lpG (b * (PI / 180)) (nutv * 3600) Ht Hbet Hb Hn).
Qed.

(* what the body hands to ecliptical2equatorial differs from the geometric (lambda, beta) of the
   vector, in degrees, by exactly the correction terms bounded in body_corrections_small, up to
   whole turns (each Angle operation reduces by red360) *)
Lemma red360_ex x : exists k : Z, red360 x = x + 360 * IZR k.
Proof. destruct (red360_cong x) as [k Hk]. exists (- k)%Z. rewrite opp_IZR. lra. Qed.
Lemma pos360_ex x : exists k : Z, pos360 x = x + 360 * IZR k.
Proof. destruct (pos360_cong x) as [k Hk]. exists k. lra. Qed.

Theorem body_LAMG_BETG :
  (exists k : Z, LAMG = lamG * (180 / PI) + (dl1G + (Rlit (-9033) (-5) + dl2aG)) / 3600 + nutv + 360 * IZR k) /\
  (exists k : Z, BETG = betG * (180 / PI) + (db1G + db2G) / 3600 + 360 * IZR k).
Proof.
  split.
  - unfold LAMG, lam0G.
    destruct (red360_ex (red360 (red360 (pos360 (red360 (lamG * (180 / PI))) + dl1G / 3600) + red360 (Rlit (-9033) (-5) / 3600 + dl2aG / 3600)) + nutv)) as [k1 E1].
    destruct (red360_ex (red360 (pos360 (red360 (lamG * (180 / PI))) + dl1G / 3600) + red360 (Rlit (-9033) (-5) / 3600 + dl2aG / 3600))) as [k2 E2].
    destruct (red360_ex (pos360 (red360 (lamG * (180 / PI))) + dl1G / 3600)) as [k3 E3].
    destruct (red360_ex (Rlit (-9033) (-5) / 3600 + dl2aG / 3600)) as [k4 E4].
    destruct (pos360_ex (red360 (lamG * (180 / PI)))) as [k5 E5].
    destruct (red360_ex (lamG * (180 / PI))) as [k6 E6].
    exists (k1 + k2 + k3 + k4 + k5 + k6)%Z. rewrite !plus_IZR.
    rewrite E1, E2, E3, E4, E5, E6. lra.
  - unfold BETG.
    destruct (red360_ex (red360 (red360 (betG * (180 / PI)) + db1G / 3600) + db2G / 3600)) as [k1 E1].
    destruct (red360_ex (red360 (betG * (180 / PI)) + db1G / 3600)) as [k2 E2].
    destruct (red360_ex (betG * (180 / PI))) as [k3 E3].
    exists (k1 + k2 + k3)%Z. rewrite !plus_IZR. rewrite E1, E2, E3. lra.
Qed.

(* the elongation the body returns: in [0,180] degrees, cosine = cos B cos(L - Lsun) *)
Theorem body_elongation :
  ELONG = r2d (elong (BETG * (PI / 180)) (LAMG * (PI / 180)) (slv * (PI / 180)))
  /\ 0 <= ELONG <= 180
  /\ cos (ELONG * (PI / 180)) = cos (BETG * (PI / 180)) * cos (LAMG * (PI / 180) - slv * (PI / 180)).
Proof.
  pose proof (elongation_range_deg (BETG * (PI / 180)) (LAMG * (PI / 180)) (slv * (PI / 180))) as Hr.
  assert (E : ELONG = r2d (elong (BETG * (PI / 180)) (LAMG * (PI / 180)) (slv * (PI / 180)))).
  { unfold ELONG. fold (r2d (elong (BETG * (PI / 180)) (LAMG * (PI / 180)) (slv * (PI / 180)))).
    apply red360_small. apply Rabs_def1; lra. }
  split; [exact E|]. split; [rewrite E; exact Hr|].
  rewrite E. fold (d2r (r2d (elong (BETG * (PI / 180)) (LAMG * (PI / 180)) (slv * (PI / 180))))).
  rewrite d2r_r2d. apply elongation_cos.
Qed.

End Body.
