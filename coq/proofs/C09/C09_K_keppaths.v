(* C09_K_keppaths: the five control-flow paths of kepler_equation's anomaly reduction,
   each run symbolically through the generated function (tactic kep_path). *)
From Coq Require Import Reals ZArith List String Lra Lia.
From PyLib Require Import PyVal PyBuiltins Ideal Whnf PyEval.
From Gen Require Import M_base M_Angle M_Epoch M_Coordinates.
From Spec Require Import Kepler.
From Proofs.C09 Require Import C09_K_tac C09_K_loop C09_K_kepdefs.
Import ListNotations.
Open Scope R_scope.

Lemma f_pos_ok : Rlit 10 (-1) = Rlit 10 (-1) \/ Rlit 10 (-1) = -1.
Proof. left; reflexivity. Qed.
Lemma f_neg_ok : -1 = Rlit 10 (-1) \/ -1 = -1.
Proof. right; reflexivity. Qed.

(* M >= 0, fractional turn <= 1/2 *)
Lemma kep_A1 e M : 0 <= e < 1 -> 0 <= M -> r_t M <= 1/2 ->
  kep_path_spec e M (r_m2 M) (Rlit 10 (-1)) /\ 0 <= r_m2 M <= PI.
Proof.
  intros He HM Ht. pose proof PI_RGT_0 as Hpi0.
  pose proof (r_t_range M) as Ht0. pose proof (r_sg_pos M HM) as Hsg.
  assert (Rlit 0 (-1) <= r_m2 M) as F1 by (unfold r_m2; rewrite Hsg; Rlit_norm; nra).
  assert (r_m2 M <= PI) as F2 by (unfold r_m2; rewrite Hsg; Rlit_norm; nra).
  assert (0 <= r_m2 M <= PI) as Hm by (Rlit_norm_all; lra).
  split; [| exact Hm].
  kep_path e (r_m2 M) (Rlit 10 (-1)) He Hm f_pos_ok F1 F2 F2.
Qed.

(* M >= 0, fractional turn > 1/2: E is negative *)
Lemma kep_A2 e M : 0 <= e < 1 -> 0 <= M -> 1/2 < r_t M ->
  kep_path_spec e M (Rlit 20 (-1) * PI - r_m2 M) (-1) /\ 0 < Rlit 20 (-1) * PI - r_m2 M < PI.
Proof.
  intros He HM Ht. pose proof PI_RGT_0 as Hpi0.
  pose proof (r_t_range M) as Ht0. pose proof (r_sg_pos M HM) as Hsg.
  assert (Rlit 0 (-1) <= r_m2 M) as F1 by (unfold r_m2; rewrite Hsg; Rlit_norm; nra).
  assert (PI < r_m2 M) as F2 by (unfold r_m2; rewrite Hsg; Rlit_norm; nra).
  assert (r_m2 M < 2 * PI) as F3 by (unfold r_m2; rewrite Hsg; Rlit_norm; nra).
  assert (0 < Rlit 20 (-1) * PI - r_m2 M < PI) as Hm' by (Rlit_norm_all; lra).
  assert (0 <= Rlit 20 (-1) * PI - r_m2 M <= PI) as Hm by lra.
  split; [| exact Hm'].
  kep_path e (Rlit 20 (-1) * PI - r_m2 M) (-1) He Hm f_neg_ok F1 F2 F2.
Qed.

(* M < 0, a whole number of turns *)
Lemma kep_B0 e M : 0 <= e < 1 -> M < 0 -> r_t M = 0 ->
  kep_path_spec e M (r_m2 M) (Rlit 10 (-1)) /\ r_m2 M = 0.
Proof.
  intros He HM Ht. pose proof PI_RGT_0 as Hpi0.
  assert (r_m2 M = 0) as H0 by (unfold r_m2; rewrite Ht; ring).
  assert (Rlit 0 (-1) <= r_m2 M) as F1 by (rewrite H0; Rlit_norm; lra).
  assert (r_m2 M <= PI) as F2 by (rewrite H0; lra).
  assert (0 <= r_m2 M <= PI) as Hm by (rewrite H0; lra).
  split; [| exact H0].
  kep_path e (r_m2 M) (Rlit 10 (-1)) He Hm f_pos_ok F1 F2 F2.
Qed.

(* M < 0, fractional turn >= 1/2 *)
Lemma kep_B1a e M : 0 <= e < 1 -> M < 0 -> 1/2 <= r_t M ->
  kep_path_spec e M (r_m3 M) (Rlit 10 (-1)) /\ 0 < r_m3 M <= PI.
Proof.
  intros He HM Ht. pose proof PI_RGT_0 as Hpi0.
  pose proof (r_t_range M) as Ht0. pose proof (r_sg_neg M HM) as Hsg.
  assert (r_m2 M < Rlit 0 (-1)) as F1 by (unfold r_m2; rewrite Hsg; Rlit_norm; nra).
  assert (r_m3 M <= PI) as F2 by (unfold r_m3, r_m2; rewrite Hsg; Rlit_norm; nra).
  assert (0 < r_m3 M) as F3 by (unfold r_m3, r_m2; rewrite Hsg; Rlit_norm; nra).
  assert (0 <= r_m3 M <= PI) as Hm by lra.
  split; [| lra].
  kep_path e (r_m3 M) (Rlit 10 (-1)) He Hm f_pos_ok F1 F2 F2.
Qed.

(* M < 0, fractional turn in (0, 1/2): E is negative *)
Lemma kep_B1b e M : 0 <= e < 1 -> M < 0 -> 0 < r_t M < 1/2 ->
  kep_path_spec e M (Rlit 20 (-1) * PI - r_m3 M) (-1) /\ 0 < Rlit 20 (-1) * PI - r_m3 M < PI.
Proof.
  intros He HM Ht. pose proof PI_RGT_0 as Hpi0.
  pose proof (r_sg_neg M HM) as Hsg.
  assert (r_m2 M < Rlit 0 (-1)) as F1 by (unfold r_m2; rewrite Hsg; Rlit_norm; nra).
  assert (PI < r_m3 M) as F2 by (unfold r_m3, r_m2; rewrite Hsg; Rlit_norm; nra).
  assert (r_m3 M < 2 * PI) as F3 by (unfold r_m3, r_m2; rewrite Hsg; Rlit_norm; nra).
  assert (0 < Rlit 20 (-1) * PI - r_m3 M < PI) as Hm' by (Rlit_norm_all; lra).
  assert (0 <= Rlit 20 (-1) * PI - r_m3 M <= PI) as Hm by lra.
  split; [| exact Hm'].
  kep_path e (Rlit 20 (-1) * PI - r_m3 M) (-1) He Hm f_neg_ok F1 F2 F2.
Qed.
