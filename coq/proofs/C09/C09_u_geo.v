(* C09 (unconditional statements): geometry that turns bounds on the heliocentric latitudes and radius
   vectors of planet and Earth into the two side conditions of the body theorems:
   |geocentric latitude betG| <= 25 degrees and -90 < BETG < 90. *)
From Coq Require Import Reals ZArith List Bool Lra Lia.
From Interval Require Import Tactic.
From PyLib Require Import PyVal PyBuiltins Ideal.
From Spec Require Import AngleSpec.
From Proofs.C09 Require Import C09_A_defs C09_spec C09_geo C09_body.
Import ListNotations.
Open Scope R_scope.

Lemma Rabs_bounds' x b : Rabs x <= b -> - b <= x <= b.
Proof. intro H. unfold Rabs in H. destruct (Rcase_abs x); lra. Qed.

(* projected distance: at least the difference of the projected radii *)
Lemma xy_dist l b r l0 b0 r0 : 0 <= r * cos (dr b) -> 0 <= r0 * cos (dr b0) ->
  (r * cos (dr b) - r0 * cos (dr b0)) * (r * cos (dr b) - r0 * cos (dr b0))
  <= vx l b r l0 b0 r0 * vx l b r l0 b0 r0 + vy l b r l0 b0 r0 * vy l b r l0 b0 r0.
Proof.
  intros HA HC. unfold vx, vy. set (A := r * cos (dr b)) in *. set (C := r0 * cos (dr b0)) in *.
  pose proof (sin2_cos2 (dr l)) as H1. pose proof (sin2_cos2 (dr l0)) as H2. unfold Rsqr in H1, H2.
  pose proof (COS_bound (dr l - dr l0)) as [_ Hc]. rewrite cos_minus in Hc.
  set (cl := cos (dr l)) in *. set (sl := sin (dr l)) in *.
  set (c0 := cos (dr l0)) in *. set (s0 := sin (dr l0)) in *.
  replace ((A * cl - C * c0) * (A * cl - C * c0) + (A * sl - C * s0) * (A * sl - C * s0))
    with (A * A * (sl * sl + cl * cl) + C * C * (s0 * s0 + c0 * c0) - 2 * (A * C) * (cl * c0 + sl * s0)) by ring.
  rewrite H1, H2. assert (0 <= A * C) by (apply Rmult_le_pos; assumption). nra.
Qed.

(* geocentric latitude: |z| <= 0.4663 rho  =>  |atan2 z rho| <= 25 degrees *)
Lemma bet_le x y z : 0 < sqrt (x * x + y * y) ->
  Rabs z <= 4663 / 10000 * sqrt (x * x + y * y) -> Rabs (bet_of x y z) <= 25 * (PI / 180).
Proof.
  intros Hp Hz. unfold bet_of, atan2. set (rho := sqrt (x * x + y * y)) in *.
  destruct (Rlt_dec 0 rho) as [_|n]; [|contradiction].
  assert (Hq : - (4663 / 10000) <= z / rho <= 4663 / 10000).
  { apply Rabs_bounds' in Hz. split.
    - apply Rmult_le_reg_r with rho; [exact Hp|]. unfold Rdiv. rewrite Rmult_assoc, Rinv_l by lra. lra.
    - apply Rmult_le_reg_r with rho; [exact Hp|]. unfold Rdiv. rewrite Rmult_assoc, Rinv_l by lra. lra. }
  assert (Ha : atan (4663 / 10000) <= 25 * (PI / 180)) by interval.
  assert (Hb : - (25 * (PI / 180)) <= atan (- (4663 / 10000))) by interval.
  destruct Hq as [Hq1 Hq2].
  apply Rabs_le. split.
  - eapply Rle_trans; [exact Hb|]. destruct (Rle_lt_or_eq_dec _ _ Hq1) as [H|H];
      [left; apply atan_increasing; exact H | rewrite H; right; reflexivity].
  - eapply Rle_trans; [|exact Ha]. destruct (Rle_lt_or_eq_dec _ _ Hq2) as [H|H];
      [left; apply atan_increasing; exact H | rewrite H; right; reflexivity].
Qed.

(* the latitude handed to ecliptical2equatorial stays away from the poles *)
Lemma BETG_range l b r l0 b0 r0 j1 : -40 <= tG j1 <= 40 ->
  Rabs (betG l b r l0 b0 r0) <= 25 * (PI / 180) -> -90 < BETG l b r l0 b0 r0 j1 < 90.
Proof.
  intros Ht Hbet. unfold BETG.
  pose proof (db1G_small l b r l0 b0 r0 j1 Ht) as H1.
  pose proof (db2_small (lpG l b r l0 b0 r0 j1)) as H2. fold (db2G l b r l0 b0 r0 j1) in H2.
  apply Rabs_def2 in H1. apply Rabs_def2 in H2. apply Rabs_bounds' in Hbet.
  assert (Hd : -2501 / 100 <= betG l b r l0 b0 r0 * (180 / PI) <= 2501 / 100).
  { set (x := betG l b r l0 b0 r0) in *. assert (Hx : -4364 / 10000 <= x <= 4364 / 10000) by (split; interval).
    clearbody x. split; interval. }
  rewrite (red360_small (betG l b r l0 b0 r0 * (180 / PI))) by (apply Rabs_def1; lra).
  rewrite (red360_small (betG l b r l0 b0 r0 * (180 / PI) + db1G l b r l0 b0 r0 j1 / 3600)) by (apply Rabs_def1; lra).
  rewrite red360_small by (apply Rabs_def1; lra).
  lra.
Qed.
