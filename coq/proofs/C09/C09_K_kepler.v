(* C09_K_kepler: kepler_equation (ideal instance), every eccentricity in [0,1) and EVERY
   real mean anomaly: combination of the five paths with the specification theorems. *)
From Coq Require Import Reals ZArith List String Lra Lia.
From Interval Require Import Tactic.
From PyLib Require Import PyVal PyBuiltins Ideal Whnf PyEval.
From Gen Require Import M_base M_Angle M_Epoch M_Coordinates.
From Spec Require Import Kepler.
From Proofs.C09 Require Import C09_K_tac C09_K_loop C09_K_kepdefs C09_K_keppaths.
Import ListNotations.
Open Scope R_scope.

(* what C11 says about the pair (E, v) returned for eccentricity e and mean anomaly M
   (all in degrees, as stored in the returned Angle objects) *)
Definition kepler_post (e M Ed vd : R) : Prop :=
  exists k : Z,
  -180 < Ed < 180 /\
  ((0 <= M - 360 * IZR k <= 180 /\ 0 < Ed) \/ (-180 < M - 360 * IZR k < 0 /\ Ed < 0)) /\
  Rabs (Ed - e * (180 / PI) * sin (Ed * (PI / 180)) - (M - 360 * IZR k)) <= 5 / 100000000 /\
  tan (vd * (PI / 180) / 2) = sqrt ((1 + e) / (1 - e)) * tan (Ed * (PI / 180) / 2) /\
  -180 < vd < 180 /\ (0 < Ed -> 0 < vd) /\ (Ed < 0 -> vd < 0).

Lemma PI_gt_3 : 3 < PI.
Proof. pose proof PI2_3_2. lra. Qed.

Lemma div_PI_range x : 0 < x < PI -> 0 < x * (180 / PI) < 180.
Proof.
  intros H. pose proof PI_RGT_0.
  assert (0 < x / PI < 1).
  { split. apply Rdiv_lt_0_compat; lra.
    apply Rmult_lt_reg_r with PI; [lra|]. unfold Rdiv. rewrite Rmult_assoc, Rinv_l by lra. lra. }
  replace (x * (180 / PI)) with (180 * (x / PI)) by (field; lra). lra.
Qed.

Lemma kep_combine e M m f k : 0 <= e < 1 -> kep_path_spec e M m f -> 0 <= m <= PI ->
  ((f = Rlit 10 (-1) /\ M - 360 * IZR k = m * (180 / PI) ) \/
   (f = -1 /\ 0 < m < PI /\ M - 360 * IZR k = - m * (180 / PI))) ->
  exists Ed vd, f_kepler_equation Rops (VFloat e) (ang M) = VTuple [ang Ed; ang vd] /\
                kepler_post e M Ed vd.
Proof.
  intros He (n & A & _ & Heq) Hm Hcase. pose proof PI_RGT_0 as Hpi. pose proof PI_gt_3 as Hpi3.
  unfold kep_out in Heq.
  destruct (E_n_range e m n Hm) as (Hdn & Hlo & Hhi).
  assert (Rabs (kg e (E_n e m n) - m) <= (1 + e) * TOLr) as Hres.
  { eapply Rle_trans.
    - apply (bisect_residual e m n d_0 E_0); [lra | apply d_0_pos |].
      unfold E_0, d_0, kg. Rlit_norm.
      replace (PI / (20 / 10) - 2 * (PI / (40 / 10))) with 0 by field.
      replace (PI / (20 / 10) + 2 * (PI / (40 / 10))) with PI by field.
      rewrite sin_0, sin_PI. lra.
    - apply Rmult_le_compat_l; lra. }
  set (En := E_n e m n) in *.
  assert (0 < En < PI) as HEn by lra.
  pose proof (div_PI_range En HEn) as HEd.
  assert (sqrt ((Rlit 10 (-1) + e) / (Rlit 10 (-1) - e)) = sqrt ((1 + e) / (1 - e))) as Hsq
    by (f_equal; Rlit_norm; field; lra).
  assert (0 < sqrt ((1 + e) / (1 - e))) as Hsqpos.
  { apply sqrt_lt_R0. apply Rdiv_lt_0_compat; lra. }
  assert (180 / PI * ((1 + e) * TOLr) <= 5 / 100000000) as Htol.
  { assert (180 / PI < 60).
    { apply Rmult_lt_reg_r with PI; [lra|]. unfold Rdiv. rewrite Rmult_assoc, Rinv_l by lra. lra. }
    assert (0 < 180 / PI) by (apply Rdiv_lt_0_compat; lra).
    unfold TOLr. nra. }
  eexists. eexists. split; [exact Heq|].
  exists k.
  destruct Hcase as [(-> & HM) | (-> & Hm' & HM)].
  - (* E positive *)
    replace (En * Rlit 10 (-1) * (180 / PI)) with (En * (180 / PI)) by (Rlit_norm; field; lra).
    set (Ed := En * (180 / PI)) in *.
    assert (Ed * (PI / 180) = En) as HEr by (unfold Ed; field; lra).
    rewrite Hsq.
    split; [lra|]. split.
    { left. split; [|lra]. rewrite HM.
      destruct (Req_dec m 0) as [-> | Hm0]; [lra|].
      destruct (Req_dec m PI) as [-> | Hm1]; [replace (PI * (180 / PI)) with 180 by (field; lra); lra|].
      pose proof (div_PI_range m). lra. }
    split.
    { rewrite HEr, HM.
      replace (Ed - e * (180 / PI) * sin En - m * (180 / PI)) with (180 / PI * (kg e En - m))
        by (unfold Ed, kg; field; lra).
      rewrite Rabs_mult, (Rabs_right (180 / PI)).
      2:{ apply Rle_ge. left. apply Rdiv_lt_0_compat; lra. }
      eapply Rle_trans; [| exact Htol].
      apply Rmult_le_compat_l; [left; apply Rdiv_lt_0_compat; lra | exact Hres]. }
    rewrite HEr.
    set (y := sqrt ((1 + e) / (1 - e)) * tan (En / Rlit 20 (-1))).
    replace (Rlit 20 (-1) * atan y * (180 / PI) * (PI / 180) / 2) with (atan y)
      by (Rlit_norm; field; lra).
    rewrite tan_atan. unfold y.
    replace (En / Rlit 20 (-1)) with (En / 2) by (Rlit_norm; field).
    split; [reflexivity|].
    pose proof (atan_bound (sqrt ((1 + e) / (1 - e)) * tan (En / 2))) as Hat.
    assert (0 < atan (sqrt ((1 + e) / (1 - e)) * tan (En / 2))) as Hpos.
    { assert (0 < tan (En / 2)) by (apply tan_gt_0; lra).
      rewrite <- atan_0. apply atan_increasing. nra. }
    set (a := atan (sqrt ((1 + e) / (1 - e)) * tan (En / 2))) in *.
    replace (Rlit 20 (-1) * a * (180 / PI)) with (2 * a * (180 / PI)) by (Rlit_norm; field; lra).
    assert (0 < 2 * a < PI) as Ha by lra.
    pose proof (div_PI_range (2 * a) Ha).
    split; [lra|]. split; intros; lra.
  - (* E negative *)
    replace (En * -1 * (180 / PI)) with (- (En * (180 / PI))) by (field; lra).
    set (Ed := En * (180 / PI)) in *.
    assert (- Ed * (PI / 180) = - En) as HEr by (unfold Ed; field; lra).
    rewrite Hsq.
    split; [lra|]. split.
    { right. split; [|lra]. rewrite HM. pose proof (div_PI_range m Hm'). lra. }
    split.
    { rewrite HEr, HM, sin_neg.
      replace (- Ed - e * (180 / PI) * - sin En - - m * (180 / PI)) with (- (180 / PI * (kg e En - m)))
        by (unfold Ed, kg; field; lra).
      rewrite Rabs_Ropp, Rabs_mult, (Rabs_right (180 / PI)).
      2:{ apply Rle_ge. left. apply Rdiv_lt_0_compat; lra. }
      eapply Rle_trans; [| exact Htol].
      apply Rmult_le_compat_l; [left; apply Rdiv_lt_0_compat; lra | exact Hres]. }
    rewrite HEr.
    set (y := sqrt ((1 + e) / (1 - e)) * tan (- En / Rlit 20 (-1))).
    replace (Rlit 20 (-1) * atan y * (180 / PI) * (PI / 180) / 2) with (atan y)
      by (Rlit_norm; field; lra).
    rewrite tan_atan. unfold y.
    replace (- En / Rlit 20 (-1)) with (- En / 2) by (Rlit_norm; field).
    split; [reflexivity|].
    pose proof (atan_bound (sqrt ((1 + e) / (1 - e)) * tan (- En / 2))) as Hat.
    assert (atan (sqrt ((1 + e) / (1 - e)) * tan (- En / 2)) < 0) as Hneg.
    { assert (tan (- En / 2) < 0) by (apply tan_lt_0; lra).
      rewrite <- atan_0. apply atan_increasing. nra. }
    set (a := atan (sqrt ((1 + e) / (1 - e)) * tan (- En / 2))) in *.
    replace (Rlit 20 (-1) * a * (180 / PI)) with (- (2 * - a * (180 / PI))) by (Rlit_norm; field; lra).
    assert (0 < 2 * - a < PI) as Ha by lra.
    pose proof (div_PI_range (2 * - a) Ha).
    split; [lra|]. split; intros; lra.
Qed.

(* |M| = 360 (q + t) *)
Lemma r_t_abs M : Rabs M = 360 * (IZR (Rfloor (r_x M)) + r_t M).
Proof. unfold r_t. rewrite r_x_eq. field. Qed.

Lemma r_m2_deg M : r_m2 M * (180 / PI) = 360 * r_t M * r_sg M.
Proof. pose proof PI_RGT_0. unfold r_m2. Rlit_norm. field. lra. Qed.

Theorem kepler_ideal e M : 0 <= e < 1 ->
  exists Ed vd, f_kepler_equation Rops (VFloat e) (ang M) = VTuple [ang Ed; ang vd] /\
                kepler_post e M Ed vd.
Proof.
  intros He. pose proof PI_RGT_0 as Hpi.
  pose proof (r_t_range M) as Ht. pose proof (r_t_abs M) as Habs. pose proof (r_m2_deg M) as Hdeg.
  set (q := Rfloor (r_x M)) in *.
  destruct (Rle_dec 0 M) as [HM | HM].
  - rewrite Rabs_right in Habs by lra. rewrite (r_sg_pos M HM) in Hdeg.
    destruct (Rle_dec (r_t M) (1 / 2)) as [H2 | H2].
    + destruct (kep_A1 e M He HM H2) as (S & Hm).
      apply (kep_combine e M (r_m2 M) (Rlit 10 (-1)) q He S Hm).
      left. split; [reflexivity|]. rewrite Hdeg. lra.
    + destruct (kep_A2 e M He HM ltac:(lra)) as (S & Hm).
      apply (kep_combine e M _ (-1) (q + 1)%Z He S ltac:(lra)).
      right. split; [reflexivity|]. split; [exact Hm|]. rewrite plus_IZR.
      replace (- (Rlit 20 (-1) * PI - r_m2 M) * (180 / PI))
        with (r_m2 M * (180 / PI) - 360) by (Rlit_norm; field; lra).
      rewrite Hdeg. lra.
  - assert (M < 0) as HM' by lra. rewrite Rabs_left in Habs by lra.
    rewrite (r_sg_neg M HM') in Hdeg.
    destruct (Req_dec (r_t M) 0) as [H0 | H0].
    + destruct (kep_B0 e M He HM' H0) as (S & Hm).
      apply (kep_combine e M (r_m2 M) (Rlit 10 (-1)) (- q)%Z He S ltac:(lra)).
      left. split; [reflexivity|]. rewrite Hdeg, opp_IZR. rewrite H0 in *. lra.
    + destruct (Rle_dec (1 / 2) (r_t M)) as [H2 | H2].
      * destruct (kep_B1a e M He HM' H2) as (S & Hm).
        apply (kep_combine e M (r_m3 M) (Rlit 10 (-1)) (- (q + 1))%Z He S ltac:(lra)).
        left. split; [reflexivity|]. rewrite opp_IZR, plus_IZR. unfold r_m3.
        replace ((r_m2 M + Rlit 20 (-1) * PI) * (180 / PI))
          with (r_m2 M * (180 / PI) + 360) by (Rlit_norm; field; lra).
        rewrite Hdeg. lra.
      * destruct (kep_B1b e M He HM' ltac:(lra)) as (S & Hm).
        apply (kep_combine e M _ (-1) (- q)%Z He S ltac:(lra)).
        right. split; [reflexivity|]. split; [exact Hm|]. rewrite opp_IZR. unfold r_m3.
        replace (- (Rlit 20 (-1) * PI - (r_m2 M + Rlit 20 (-1) * PI)) * (180 / PI))
          with (r_m2 M * (180 / PI)) by (Rlit_norm; field; lra).
        rewrite Hdeg. lra.
Qed.

(* the loop leaves after exactly 34 halvings (so the fuel 5000 is never the reason) *)
Lemma halvings_34 n : 2 * (d_0 / 2 ^ n) <= TOLr -> (n <> O -> TOLr < 4 * (d_0 / 2 ^ n)) -> n = 34%nat.
Proof.
  intros A C. pose proof PI_gt_3 as H3. assert (PI < 32 / 10) as H4 by interval.
  unfold d_0, TOLr in *. Rlit_norm_all.
  assert (forall a b : nat, (a <= b)%nat -> 2 ^ a <= 2 ^ b) as Hmono by (intros; apply Rle_pow; [lra | lia]).
  pose proof (pow2_pos n) as Hp.
  assert (/ 2 ^ n * 2 ^ n = 1) as Hx by (apply Rinv_l; lra).
  assert (0 < / 2 ^ n) as Hx0 by (apply Rinv_0_lt_compat; lra).
  assert (2 ^ 34 = 17179869184) as E34 by (simpl; lra).
  destruct (Nat.lt_trichotomy n 34) as [L | [L | L]]; [| exact L |]; exfalso.
  - assert (2 ^ n <= 2 ^ 33) as Hle by (apply Hmono; lia).
    assert (2 ^ 33 = 8589934592) as E33 by (simpl; lra).
    assert (2 * (PI / (40 / 10)) <= 1 / 10000000000 * 2 ^ n).
    { unfold Rdiv in A. set (x := / 2 ^ n) in *. nra. }
    lra.
  - assert (2 ^ 35 <= 2 ^ n) as Hle by (apply Hmono; lia).
    assert (2 ^ 35 = 34359738368) as E35 by (simpl; lra).
    assert (n <> O) as Hn by lia. specialize (C Hn).
    assert (1 / 10000000000 * 2 ^ n < 4 * (PI / (40 / 10))).
    { unfold Rdiv in C. set (x := / 2 ^ n) in *. nra. }
    lra.
Qed.

Lemma bisection_spec e m n d e0 Es : 0 <= e < 1 -> 0 < d ->
  kg e (e0 - 2 * d) <= m <= kg e (e0 + 2 * d) -> kg e Es = m ->
  Rabs (kg e (bisect e m n d e0) - m) <= (1 + e) * (2 * (d / 2 ^ n)) /\
  Rabs (Es - bisect e m n d e0) <= 2 * (d / 2 ^ n).
Proof.
  intros He Hd Hb Hs. split.
  - apply bisect_residual; [lra | assumption | assumption].
  - apply bisect_near_root; assumption.
Qed.

(* an eccentricity outside [0, 1) is refused with ValueError (guard added by /repo b141fbd) *)
Lemma kepler_bad_ecc e M : e < 0 \/ 1 <= e ->
  f_kepler_equation Rops (VFloat e) (ang M) = VErr ValueError.
Proof.
  intros [H | H].
  - pyrunv. reflexivity.
  - pyrunv. reflexivity.
Qed.
