(* C09_lt_Mercury: the light-time stage of the GENERATED Mercury.geocentric_position, ideal instance,
   callees abstracted (their values are hypotheses).  Prefix theorem: the evaluation of the
   generated body is followed up to the call of Epoch.__isub__, whose (hypothetical) failure ends
   it; this shows with which arguments that callee is reached: the caller's epoch itself and
   tau = 0.0057755183 * |Mercury(epoch) - Earth(epoch)|, both callees taken at the caller's epoch
   with tofk5=False.  (Generated from one template for the seven planets.) *)
From Coq Require Import Reals ZArith List Bool Lra Lia String.
From PyLib Require Import PyVal PyBuiltins Ideal IdealFacts Whnf PyEval Sphere.
From Gen Require Import M_base M_Angle M_Epoch M_Coordinates M_Earth M_Sun M_Mercury.
From Proofs.C09 Require Import C09_A_defs C09_A_tac C09_geo.
Import ListNotations.
Open Scope R_scope.

Ltac2 Set Whnf.is_blocked as old := fun c =>
  Ltac2.Bool.or (old c) (Ltac2.List.exist (Ltac2.Constr.equal c)
    ['@Angle___init__; '@Angle_rad; '@Epoch___isub__; '@M_Epoch.g_JDE2000;
     '@Earth_geometric_heliocentric_position; '@Mercury_geometric_heliocentric_position]).

Section Planet.
Variables pl pb pr el eb er : R -> R.
Hypothesis HP : forall j, Mercury_geometric_heliocentric_position Rops (ep j) (VBool false) = VTuple [ang (pl j); ang (pb j); VFloat (pr j)].
Hypothesis HE : forall j, Earth_geometric_heliocentric_position Rops (ep j) (VBool false) = VTuple [ang (el j); ang (eb j); VFloat (er j)].

(* if Epoch.__isub__ fails on exactly (epoch, tau1) the body fails: it asks for epoch - tau1 *)
Variable j : R.
Hypothesis Hisub : Epoch___isub__ Rops (ep j) (VFloat (tau_of (pl j) (pb j) (pr j) (el j) (eb j) (er j))) = VErr ValueError.
Ltac pyA_hook s tac ::=
  lazymatch s with
  | Angle_rad Rops (VObj cAngle [VFloat ?a; VFloat ?ta]) => rw_with s (rad_ideal a ta)
  | Mercury_geometric_heliocentric_position Rops (VObj cEpoch [VFloat ?j]) (VBool false) => rw_with s (HP j)
  | Earth_geometric_heliocentric_position Rops (VObj cEpoch [VFloat ?j]) (VBool false) => rw_with s (HE j)
  | Epoch___isub__ Rops _ _ => rw_with s Hisub
  end.
Lemma light_time_stage_Mercury : Mercury_geocentric_position Rops (ep j) = VErr ValueError.
Proof. unfold ep. pyrunA_using dec_geo. reflexivity. Qed.

End Planet.
