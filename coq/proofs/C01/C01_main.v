(* C01: lifting the sharded computations to the quantified statements *)
From Coq Require Import ZArith NArith List Bool String Lia PrimFloat.
From PyLib Require Import PyVal PyBuiltins B64 B64Facts Range.
From Spec Require Import CalSpec CivilOfJdn.
From Gen Require Import M_base M_Angle M_Epoch.
From Proofs.C01 Require Import C01_defs.
From Proofs.C01 Require C01_shard_00.
From Proofs.C01 Require C01_shard_01.
From Proofs.C01 Require C01_shard_02.
From Proofs.C01 Require C01_shard_03.
From Proofs.C01 Require C01_shard_04.
From Proofs.C01 Require C01_shard_05.
From Proofs.C01 Require C01_shard_06.
From Proofs.C01 Require C01_shard_07.
From Proofs.C01 Require C01_shard_08.
From Proofs.C01 Require C01_shard_09.
From Proofs.C01 Require C01_shard_10.
From Proofs.C01 Require C01_shard_11.
From Proofs.C01 Require C01_shard_12.
From Proofs.C01 Require C01_shard_13.
From Proofs.C01 Require C01_shard_14.
From Proofs.C01 Require C01_shard_15.
From Proofs.C01 Require C01_step.
Import ListNotations.
Open Scope Z_scope.

Lemma all_years : forall y, -4712 <= y <= 6000 -> chk_year y = true.
Proof.
  intros y Hy.
  destruct (Z_lt_ge_dec y (-4042)) as [H0|H0]; [apply (all_range_spec _ _ _ C01_shard_00.shard); lia|].
  destruct (Z_lt_ge_dec y (-3372)) as [H1|H1]; [apply (all_range_spec _ _ _ C01_shard_01.shard); lia|].
  destruct (Z_lt_ge_dec y (-2702)) as [H2|H2]; [apply (all_range_spec _ _ _ C01_shard_02.shard); lia|].
  destruct (Z_lt_ge_dec y (-2032)) as [H3|H3]; [apply (all_range_spec _ _ _ C01_shard_03.shard); lia|].
  destruct (Z_lt_ge_dec y (-1362)) as [H4|H4]; [apply (all_range_spec _ _ _ C01_shard_04.shard); lia|].
  destruct (Z_lt_ge_dec y (-692)) as [H5|H5]; [apply (all_range_spec _ _ _ C01_shard_05.shard); lia|].
  destruct (Z_lt_ge_dec y (-22)) as [H6|H6]; [apply (all_range_spec _ _ _ C01_shard_06.shard); lia|].
  destruct (Z_lt_ge_dec y (648)) as [H7|H7]; [apply (all_range_spec _ _ _ C01_shard_07.shard); lia|].
  destruct (Z_lt_ge_dec y (1318)) as [H8|H8]; [apply (all_range_spec _ _ _ C01_shard_08.shard); lia|].
  destruct (Z_lt_ge_dec y (1988)) as [H9|H9]; [apply (all_range_spec _ _ _ C01_shard_09.shard); lia|].
  destruct (Z_lt_ge_dec y (2658)) as [H10|H10]; [apply (all_range_spec _ _ _ C01_shard_10.shard); lia|].
  destruct (Z_lt_ge_dec y (3328)) as [H11|H11]; [apply (all_range_spec _ _ _ C01_shard_11.shard); lia|].
  destruct (Z_lt_ge_dec y (3998)) as [H12|H12]; [apply (all_range_spec _ _ _ C01_shard_12.shard); lia|].
  destruct (Z_lt_ge_dec y (4668)) as [H13|H13]; [apply (all_range_spec _ _ _ C01_shard_13.shard); lia|].
  destruct (Z_lt_ge_dec y (5338)) as [H14|H14]; [apply (all_range_spec _ _ _ C01_shard_14.shard); lia|].
  apply (all_range_spec _ _ _ C01_shard_15.shard); lia.
Qed.

Lemma year_month y m : -4712 <= y <= 6000 -> 1 <= m <= 12 -> chk_month y m = true.
Proof.
  intros Hy Hm. pose proof (all_years y Hy) as H. unfold chk_year in H.
  apply andb_true_iff in H. destruct H as [H _].
  apply (forallb_zrange _ 1 12 H). simpl; lia.
Qed.

Lemma mlen_range y m : 1 <= m <= 12 -> 28 <= mlen y m <= 31.
Proof.
  intros Hm. unfold mlen, mlen_common.
  assert (m = 1 \/ m = 2 \/ m = 3 \/ m = 4 \/ m = 5 \/ m = 6 \/ m = 7 \/ m = 8 \/ m = 9 \/ m = 10
          \/ m = 11 \/ m = 12) as Hc by lia.
  destruct (leap y); repeat (destruct Hc as [->|Hc]; [simpl; lia|]); subst; simpl; lia.
Qed.

Lemma valid_bounds y m d : valid y m d = true -> -4712 <= y /\ 1 <= m <= 12 /\ 1 <= d <= mlen y m.
Proof.
  unfold valid. intro H. repeat (apply andb_true_iff in H; destruct H as [H ?]). lia.
Qed.

Lemma date_checked y m d : -4712 <= y <= 6000 -> valid y m d = true -> chk_date y m d = true.
Proof.
  intros Hy Hv. destruct (valid_bounds _ _ _ Hv) as (_ & Hm & Hd).
  pose proof (year_month y m Hy Hm) as H. unfold chk_month in H.
  apply andb_true_iff in H. destruct H as [_ H].
  pose proof (mlen_range y m Hm) as Hl.
  pose proof (forallb_zrange _ 1 _ H d) as H1. cbv beta in H1. rewrite Hv in H1.
  apply H1. rewrite Z2Nat.id; lia.
Qed.

(* ---- the statements ---- *)

Theorem construct : forall y m d, -4712 <= y <= 6000 -> valid y m d = true ->
  mkEpoch [VInt y; VInt m; VInt d] = epoch_at (jdn y m d).
Proof.
  intros y m d Hy Hv. pose proof (date_checked y m d Hy Hv) as H. unfold chk_date in H.
  apply andb_true_iff in H. destruct H as [H _]. apply val_eqb_eq, H.
Qed.

Theorem readback : forall y m d, -4712 <= y <= 6000 -> valid y m d = true ->
  get_date (epoch_at (jdn y m d)) = date_tuple y m d.
Proof.
  intros y m d Hy Hv. pose proof (date_checked y m d Hy Hv) as H. unfold chk_date in H.
  apply andb_true_iff in H. destruct H as [_ H]. apply val_eqb_eq, H.
Qed.

Theorem roundtrip : forall y m d, -4712 <= y <= 6000 -> valid y m d = true ->
  get_date (mkEpoch [VInt y; VInt m; VInt d]) = VTuple [VInt y; VInt m; VFloat (b64_of_Z d)].
Proof. intros. rewrite construct by assumption. apply readback; assumption. Qed.

Theorem refused : forall y m d, -4712 <= y <= 6000 -> 1 <= m <= 12 ->
  (-1 <= d <= 0 \/ mlen y m < d <= 33) ->
  mkEpoch [VInt y; VInt m; VInt d] = VErr ValueError.
Proof.
  intros y m d Hy Hm Hd. pose proof (year_month y m Hy Hm) as H. unfold chk_month in H.
  pose proof (mlen_range y m Hm) as Hl.
  apply andb_true_iff in H. destruct H as [H _].
  apply andb_true_iff in H. destruct H as [H H3].
  apply andb_true_iff in H. destruct H as [H1 H2].
  assert (chk_refused y m d = true) as Hr.
  { destruct Hd as [Hd|Hd].
    - assert (d = -1 \/ d = 0) as [->| ->] by lia; assumption.
    - apply (forallb_zrange _ _ _ H3). rewrite Z2Nat.id; lia. }
  unfold chk_refused in Hr.
  destruct (mkEpoch [VInt y; VInt m; VInt d]) as [| | | | | | | | | |e]; try discriminate Hr.
  destruct e; try discriminate Hr. reflexivity.
Qed.

Theorem month_names_agree : forall y s k s', -4712 <= y <= 6000 ->
  In (s, k) month_names -> In s' (spellings s) ->
  mkEpoch [VInt y; VStr s'; VInt 1] = mkEpoch [VInt y; VInt k; VInt 1].
Proof.
  intros y s k s' Hy Hin Hs. pose proof (all_years y Hy) as H. unfold chk_year in H.
  apply andb_true_iff in H. destruct H as [_ H]. unfold chk_names in H.
  rewrite forallb_forall in H. specialize (H _ Hin). cbv beta in H.
  rewrite forallb_forall in H. specialize (H _ Hs). cbv beta in H.
  apply andb_true_iff in H. destruct H as [H _]. unfold chk_name_on in H. simpl fst in H; simpl snd in H.
  assert (valid y k 1 = true) as Hv.
  { assert (1 <= k <= 12) as Hk.
    { unfold month_names in Hin. simpl in Hin.
      repeat (destruct Hin as [Hin|Hin]; [inversion Hin; lia|]). contradiction. }
    pose proof (mlen_range y k Hk). unfold valid.
    repeat (apply andb_true_iff; split); try (apply Z.leb_le; lia).
    replace (5 <=? 1) with false by reflexivity. rewrite andb_false_r. reflexivity. }
  rewrite Hv in H. apply val_eqb_eq in H. rewrite H. symmetry. apply construct; assumption.
Qed.

Theorem month_names_lastday : forall y s k s', -4712 <= y <= 6000 ->
  In (s, k) month_names -> In s' (spellings s) -> valid y k (mlen y k) = true ->
  mkEpoch [VInt y; VStr s'; VInt (mlen y k)] = mkEpoch [VInt y; VInt k; VInt (mlen y k)].
Proof.
  intros y s k s' Hy Hin Hs Hv. pose proof (all_years y Hy) as H. unfold chk_year in H.
  apply andb_true_iff in H. destruct H as [_ H]. unfold chk_names in H.
  rewrite forallb_forall in H. specialize (H _ Hin). cbv beta in H.
  rewrite forallb_forall in H. specialize (H _ Hs). cbv beta in H.
  apply andb_true_iff in H. destruct H as [_ H]. unfold chk_name_on in H. simpl fst in H; simpl snd in H.
  rewrite Hv in H. apply val_eqb_eq in H. rewrite H. symmetry. apply construct; assumption.
Qed.

Theorem step_one : forall n, 0 <= n < 3913000 -> (jde_of (n + 1) - jde_of n)%float = 1%float.
Proof.
  intros n Hn. apply feq_eq. apply (all_range_spec _ _ _ C01_step.steps). lia.
Qed.

Definition jde_val (v : fval) : float :=
  match v with VObj _ [VFloat j] => j | _ => nan end.

Lemma jan1_6001 : jdn 6001 1 1 = 3912881. Proof. reflexivity. Qed.

Theorem consecutive : forall y m d y' m' d', -4712 <= y <= 6000 -> y' <= 6000 ->
  valid y m d = true -> next y m d = (y', m', d') ->
  (jde_val (mkEpoch [VInt y'; VInt m'; VInt d']) - jde_val (mkEpoch [VInt y; VInt m; VInt d]))%float
  = 1%float.
Proof.
  intros y m d y' m' d' Hy Hy' Hv Hn.
  pose proof (next_valid y m d Hv) as Hv'. pose proof (jdn_next y m d Hv) as Hj.
  rewrite Hn in Hv', Hj.
  assert (-4712 <= y') as Hlo by (destruct (valid_bounds _ _ _ Hv'); lia).
  rewrite (construct y' m' d') by (try assumption; lia).
  rewrite (construct y m d) by assumption.
  unfold epoch_at, jde_val. rewrite Hj. apply step_one.
  split; [apply jdn_nonneg, Hv|].
  pose proof (jdn_year_bounds y m d Hv) as Hb.
  pose proof (jan1_mono (y + 1) 6001 ltac:(lia)) as Hm. unfold jan1 in *. rewrite jan1_6001 in Hm. lia.
Qed.

Lemma daycount_bijection :
  (forall y m d, valid y m d = true -> valid (fst (fst (next y m d))) (snd (fst (next y m d))) (snd (next y m d)) = true) /\
  (forall y m d, valid y m d = true ->
     jdn (fst (fst (next y m d))) (snd (fst (next y m d))) (snd (next y m d)) = jdn y m d + 1) /\
  (forall y m d y' m' d', valid y m d = true -> valid y' m' d' = true ->
     jdn y m d = jdn y' m' d' -> (y, m, d) = (y', m', d')) /\
  (forall z, 0 <= z -> exists y m d, valid y m d = true /\ jdn y m d = z) /\
  next 1582 10 4 = (1582, 10, 15).
Proof.
  split; [|split; [|split; [|split]]].
  - intros y m d H. pose proof (next_valid y m d H) as Hn. destruct (next y m d) as [[y' m'] d']. exact Hn.
  - intros y m d H. pose proof (jdn_next y m d H) as Hn. destruct (next y m d) as [[y' m'] d']. exact Hn.
  - exact jdn_inj.
  - exact jdn_surj.
  - reflexivity.
Qed.

(* anchors: -4712-01-01 12h is 0.0; 1858-11-17 0h is MJD 0; 2000-01-01 12h is 2451545.0 *)
Example anchor_zero : mkEpoch [VInt (-4712); VInt 1; VFloat 1.5%float] = VObj cEpoch [VFloat 0%float].
Proof. vm_compute. reflexivity. Qed.
Example anchor_mjd0 : Epoch_mjd B0 (mkEpoch [VInt 1858; VInt 11; VInt 17]) = VFloat 0%float.
Proof. vm_compute. reflexivity. Qed.
Example anchor_j2000 : mkEpoch [VInt 2000; VInt 1; VFloat 1.5%float] = VObj cEpoch [VFloat 2451545%float].
Proof. vm_compute. reflexivity. Qed.
(* the hypotheses are satisfiable, e.g. at the reform *)
Example reform_step : next 1582 10 4 = (1582, 10, 15) /\ valid 1582 10 4 = true.
Proof. split; reflexivity. Qed.
