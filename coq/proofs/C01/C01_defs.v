(* C01: executable checks relating the GENERATED model of Epoch(y, m, d) / get_date()
   (binary64 instance, no libm involved) to the independent day count Spec.CalSpec.jdn. *)
From Coq Require Import ZArith NArith List Bool String PrimFloat.
From PyLib Require Import PyVal PyBuiltins B64 B64Facts Range.
From Spec Require Import CalSpec.
From Gen Require Import M_base M_Angle M_Epoch.
Import ListNotations.
Open Scope Z_scope.

Definition fval := val float.
Definition mkEpoch (args : list fval) : fval :=
  Epoch___init__ B0 (VObj cEpoch [VNone]) (VTuple args) (VDict []).
Definition get_date (e : fval) : fval := Epoch_get_date B0 e (VDict []).

(* JDE at 0h of the civil day whose Julian Day Number (at noon) is n *)
Definition jde_of (n : Z) : float := (b64_of_Z n - 0.5)%float.

Definition epoch_at (n : Z) : fval := VObj cEpoch [VFloat (jde_of n)].
Definition date_tuple (y m d : Z) : fval := VTuple [VInt y; VInt m; VFloat (b64_of_Z d)].

(* Epoch(y, m, d) has JDE = jdn - 0.5 exactly, and get_date() gives back (y, m, float d) exactly *)
Definition chk_date (y m d : Z) : bool :=
  val_eqb (mkEpoch [VInt y; VInt m; VInt d]) (epoch_at (jdn y m d)) &&
  val_eqb (get_date (epoch_at (jdn y m d))) (date_tuple y m d).

Definition chk_refused (y m d : Z) : bool :=
  match mkEpoch [VInt y; VInt m; VInt d] with VErr ValueError => true | _ => false end.

Definition chk_month (y m : Z) : bool :=
  let n := mlen y m in
  chk_refused y m (-1) && chk_refused y m 0 &&
  forallb (chk_refused y m) (zrange (n + 1) (Z.to_nat (33 - n))) &&
  forallb (fun d => if valid y m d then chk_date y m d else true) (zrange 1 (Z.to_nat n)).

(* month names: the 24 documented names in four spellings *)
Definition month_names : list (string * Z) :=
  [("Jan", 1); ("Feb", 2); ("Mar", 3); ("Apr", 4); ("May", 5); ("Jun", 6); ("Jul", 7); ("Aug", 8);
   ("Sep", 9); ("Oct", 10); ("Nov", 11); ("Dec", 12);
   ("January", 1); ("February", 2); ("March", 3); ("April", 4); ("May", 5); ("June", 6); ("July", 7);
   ("August", 8); ("September", 9); ("October", 10); ("November", 11); ("December", 12)]%string.
Definition spellings (s : string) : list string :=
  [s; smap upper_c s; smap lower_c s; (" " ++ s ++ "  ")%string].

Definition chk_name_on (y : Z) (s : string) (k d : Z) : bool :=
  if valid y k d then val_eqb (mkEpoch [VInt y; VStr s; VInt d]) (epoch_at (jdn y k d)) else true.
Definition chk_names (y : Z) : bool :=
  forallb (fun p => forallb (fun s => chk_name_on y s (snd p) 1 && chk_name_on y s (snd p) (mlen y (snd p)))
                            (spellings (fst p))) month_names.

Definition chk_year (y : Z) : bool :=
  forallb (chk_month y) (zrange 1 12) && chk_names y.

(* consecutive day numbers are exactly 1.0 apart as JDE values (binary64 subtraction) *)
Definition chk_step (n : Z) : bool := feq (jde_of (n + 1) - jde_of n)%float 1%float.
