(* consecutive day numbers 0 .. 3913000 are exactly 1.0 apart as JDE values *)
From Coq Require Import ZArith NArith.
From PyLib Require Import Range.
From Proofs.C01 Require Import C01_defs.
Lemma steps : all_range 0 3913000%N chk_step = true.
Proof. vm_cast_no_check (@eq_refl bool true). Qed.
