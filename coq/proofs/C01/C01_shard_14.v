(* C01 shard 14: years 4668 .. 5337, by kernel computation *)
From Coq Require Import ZArith NArith.
From PyLib Require Import Range.
From Proofs.C01 Require Import C01_defs.
Lemma shard : all_range (4668) 670%N chk_year = true.
Proof. vm_cast_no_check (@eq_refl bool true). Qed.
