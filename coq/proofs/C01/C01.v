(* Property C01 — Calendar date <-> Julian Day is an exact bijection on civil days.
   This file holds only the statements; all proofs are in C01_main.v.  The model
   (mkEpoch, get_date = the generated Epoch.__init__ / Epoch.get_date, binary64
   instance) is regenerated from /repo on every run. *)
From Coq Require Import ZArith List String PrimFloat.
From PyLib Require Import PyVal PyBuiltins B64 B64Facts.
From Spec Require Import CalSpec CivilOfJdn.
From Gen Require Import M_base M_Angle M_Epoch.
From Proofs.C01 Require Import C01_defs C01_main.
Import ListNotations.
Open Scope Z_scope.

(* Building an Epoch from a civil date gives exactly the independent day count minus 0.5 *)
Theorem C01_construct : forall y m d, -4712 <= y <= 6000 -> valid y m d = true ->
  mkEpoch [VInt y; VInt m; VInt d] = VObj cEpoch [VFloat (b64_of_Z (jdn y m d) - 0.5)%float].
Proof. exact construct. Qed.

(* ... and reading the date back returns exactly that date *)
Theorem C01_roundtrip : forall y m d, -4712 <= y <= 6000 -> valid y m d = true ->
  get_date (mkEpoch [VInt y; VInt m; VInt d]) = VTuple [VInt y; VInt m; VFloat (b64_of_Z d)].
Proof. exact roundtrip. Qed.

(* a day number below 1 or beyond the month's length (rule in force) is refused *)
Theorem C01_refused : forall y m d, -4712 <= y <= 6000 -> 1 <= m <= 12 ->
  (-1 <= d <= 0 \/ mlen y m < d <= 33) ->
  mkEpoch [VInt y; VInt m; VInt d] = VErr ValueError.
Proof. exact refused. Qed.

(* consecutive civil dates (4 Oct 1582 is followed by 15 Oct 1582) are exactly 1.0 apart *)
Theorem C01_consecutive : forall y m d y' m' d', -4712 <= y <= 6000 -> y' <= 6000 ->
  valid y m d = true -> next y m d = (y', m', d') ->
  (jde_val (mkEpoch [VInt y'; VInt m'; VInt d']) - jde_val (mkEpoch [VInt y; VInt m; VInt d]))%float
  = 1%float.
Proof. exact consecutive. Qed.

(* month names (short, long; as written, upper, lower, padded) mean the month number *)
Theorem C01_month_names : forall y s k s', -4712 <= y <= 6000 ->
  In (s, k) month_names -> In s' (spellings s) ->
  mkEpoch [VInt y; VStr s'; VInt 1] = mkEpoch [VInt y; VInt k; VInt 1].
Proof. exact month_names_agree. Qed.

(* ... also on the last day of the month, e.g. 29 February of a leap year under the rule in force *)
Theorem C01_month_names_lastday : forall y s k s', -4712 <= y <= 6000 ->
  In (s, k) month_names -> In s' (spellings s) -> valid y k (mlen y k) = true ->
  mkEpoch [VInt y; VStr s'; VInt (mlen y k)] = mkEpoch [VInt y; VInt k; VInt (mlen y k)].
Proof. exact month_names_lastday. Qed.

(* the independent day count itself is a bijection between valid civil dates (ALL years
   >= -4712, no upper bound) and the day numbers >= 0, stepping by one from each date to the next
   (4 Oct 1582 is followed by 15 Oct 1582) *)
Theorem C01_daycount_bijection :
  (forall y m d, valid y m d = true -> valid (fst (fst (next y m d))) (snd (fst (next y m d))) (snd (next y m d)) = true) /\
  (forall y m d, valid y m d = true ->
     jdn (fst (fst (next y m d))) (snd (fst (next y m d))) (snd (next y m d)) = jdn y m d + 1) /\
  (forall y m d y' m' d', valid y m d = true -> valid y' m' d' = true ->
     jdn y m d = jdn y' m' d' -> (y, m, d) = (y', m', d')) /\
  (forall z, 0 <= z -> exists y m d, valid y m d = true /\ jdn y m d = z) /\
  next 1582 10 4 = (1582, 10, 15).
Proof. exact daycount_bijection. Qed.

Theorem C01_anchors :
  mkEpoch [VInt (-4712); VInt 1; VFloat 1.5%float] = VObj cEpoch [VFloat 0%float] /\
  Epoch_mjd B0 (mkEpoch [VInt 1858; VInt 11; VInt 17]) = VFloat 0%float /\
  mkEpoch [VInt 2000; VInt 1; VFloat 1.5%float] = VObj cEpoch [VFloat 2451545%float].
Proof. exact (conj anchor_zero (conj anchor_mjd0 anchor_j2000)). Qed.

Redirect "C01_construct.assumptions" Print Assumptions C01_construct.
Redirect "C01_roundtrip.assumptions" Print Assumptions C01_roundtrip.
Redirect "C01_refused.assumptions" Print Assumptions C01_refused.
Redirect "C01_consecutive.assumptions" Print Assumptions C01_consecutive.
Redirect "C01_month_names.assumptions" Print Assumptions C01_month_names.
Redirect "C01_month_names_lastday.assumptions" Print Assumptions C01_month_names_lastday.
Redirect "C01_daycount_bijection.assumptions" Print Assumptions C01_daycount_bijection.
Redirect "C01_anchors.assumptions" Print Assumptions C01_anchors.
