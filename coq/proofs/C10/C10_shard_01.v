(* C10 shard 1: years 1960 .. 1969 (leap table, utc=True offset and read-back, overrides 1..60), by kernel computation *)
From Coq Require Import ZArith NArith.
From PyLib Require Import Range.
From Proofs.C10 Require Import C10_defs.
Lemma shard : all_range (1960) 10%N chk_year = true.
Proof. vm_cast_no_check (@eq_refl bool true). Qed.
