(* C10: lifting the sharded computations to the quantified statements *)
From Coq Require Import ZArith NArith List Bool String Lia PrimFloat.
From PyLib Require Import PyVal PyBuiltins B64 B64Facts Range.
From Spec Require Import CalSpec IERS.
From Gen Require Import M_base M_Angle M_Epoch.
From Proofs.C10 Require Import C10_defs.
From Proofs.C10 Require C10_shard_00.
From Proofs.C10 Require C10_shard_01.
From Proofs.C10 Require C10_shard_02.
From Proofs.C10 Require C10_shard_03.
From Proofs.C10 Require C10_shard_04.
From Proofs.C10 Require C10_shard_05.
From Proofs.C10 Require C10_shard_06.
From Proofs.C10 Require C10_shard_07.
From Proofs.C10 Require C10_shard_08.
From Proofs.C10 Require C10_shard_09.
From Proofs.C10 Require C10_shard_10.
From Proofs.C10 Require C10_shard_11.
From Proofs.C10 Require C10_shard_12.
From Proofs.C10 Require C10_shard_13.
From Proofs.C10 Require C10_shard_14.
From Proofs.C10 Require C10_shard_15.
From Proofs.C10 Require C10_dt.
Import ListNotations.
Open Scope Z_scope.

Lemma all_years : forall y, 1950 <= y <= 2100 -> chk_year y = true.
Proof.
  intros y Hy.
  destruct (Z_lt_ge_dec y (1960)) as [H0|H0]; [apply (all_range_spec _ _ _ C10_shard_00.shard); lia|].
  destruct (Z_lt_ge_dec y (1970)) as [H1|H1]; [apply (all_range_spec _ _ _ C10_shard_01.shard); lia|].
  destruct (Z_lt_ge_dec y (1980)) as [H2|H2]; [apply (all_range_spec _ _ _ C10_shard_02.shard); lia|].
  destruct (Z_lt_ge_dec y (1990)) as [H3|H3]; [apply (all_range_spec _ _ _ C10_shard_03.shard); lia|].
  destruct (Z_lt_ge_dec y (2000)) as [H4|H4]; [apply (all_range_spec _ _ _ C10_shard_04.shard); lia|].
  destruct (Z_lt_ge_dec y (2010)) as [H5|H5]; [apply (all_range_spec _ _ _ C10_shard_05.shard); lia|].
  destruct (Z_lt_ge_dec y (2020)) as [H6|H6]; [apply (all_range_spec _ _ _ C10_shard_06.shard); lia|].
  destruct (Z_lt_ge_dec y (2029)) as [H7|H7]; [apply (all_range_spec _ _ _ C10_shard_07.shard); lia|].
  destruct (Z_lt_ge_dec y (2038)) as [H8|H8]; [apply (all_range_spec _ _ _ C10_shard_08.shard); lia|].
  destruct (Z_lt_ge_dec y (2047)) as [H9|H9]; [apply (all_range_spec _ _ _ C10_shard_09.shard); lia|].
  destruct (Z_lt_ge_dec y (2056)) as [H10|H10]; [apply (all_range_spec _ _ _ C10_shard_10.shard); lia|].
  destruct (Z_lt_ge_dec y (2065)) as [H11|H11]; [apply (all_range_spec _ _ _ C10_shard_11.shard); lia|].
  destruct (Z_lt_ge_dec y (2074)) as [H12|H12]; [apply (all_range_spec _ _ _ C10_shard_12.shard); lia|].
  destruct (Z_lt_ge_dec y (2083)) as [H13|H13]; [apply (all_range_spec _ _ _ C10_shard_13.shard); lia|].
  destruct (Z_lt_ge_dec y (2092)) as [H14|H14]; [apply (all_range_spec _ _ _ C10_shard_14.shard); lia|].
  apply (all_range_spec _ _ _ C10_shard_15.shard); lia.
Qed.

Lemma in_months m : 1 <= m <= 12 -> In m months.
Proof. intro H. apply zrange_In. simpl. lia. Qed.

Lemma year_month y m : 1950 <= y <= 2100 -> 1 <= m <= 12 ->
  chk_leap y m = true /\ on_month chk_date y m = true.
Proof.
  intros Hy Hm. pose proof (all_years y Hy) as H. unfold chk_year in H.
  rewrite forallb_forall in H. specialize (H m (in_months m Hm)). cbv beta in H.
  apply andb_true_iff in H. exact H.
Qed.

(* the property's date/time domain *)
Definition dom (y m d h mi s : Z) : Prop :=
  1950 <= y <= 2100 /\ 1 <= m <= 12 /\ In d (days y m) /\ In (h, mi, s) times.

Lemma on_month_spec f y m d h mi s :
  on_month f y m = true -> In d (days y m) -> In (h, mi, s) times -> f y m d h mi s = true.
Proof.
  unfold on_month. intros H Hd Ht. rewrite forallb_forall in H. specialize (H d Hd). cbv beta in H.
  rewrite forallb_forall in H. specialize (H (h, mi, s) Ht). exact H.
Qed.

(* ---- generic readings of the boolean checks (no model term is unfolded here) *)
Definition later_by (e0 e1 : fval) (ms : Z) : Prop :=
  is_epoch e0 = true /\ is_epoch e1 = true /\
  (ms = 0 -> jde_of e1 = jde_of e0) /\
  (ms <> 0 -> fclose ((jde_of e1 - jde_of e0) * day2sec) (offset_sec ms) tol_offset = true).

Lemma offset_ok_spec e0 e1 ms : offset_ok e0 e1 ms = true -> later_by e0 e1 ms.
Proof.
  unfold offset_ok, later_by. intro H.
  apply andb_true_iff in H. destruct H as [H H3]. apply andb_true_iff in H. destruct H as [H1 H2].
  repeat split; try assumption.
  - intro E. rewrite E in H3. simpl in H3. apply feq_eq, H3.
  - intro E. apply Z.eqb_neq in E. rewrite E in H3. exact H3.
Qed.

Lemma tt_utc_ms_before y m : y < 1972 -> tt_utc_ms y m = 0.
Proof. intro H. unfold tt_utc_ms, utc_era. replace (1972 <=? y) with false by (symmetry; apply Z.leb_gt; lia). reflexivity. Qed.
Lemma tt_utc_ms_from y m : 1972 <= y -> tt_utc_ms y m = 32184 + 1000 * (10 + iers_count y m).
Proof. intro H. unfold tt_utc_ms, utc_era. replace (1972 <=? y) with true by (symmetry; apply Z.leb_le; lia). reflexivity. Qed.
Lemma override_ms_before y L : y < 1972 -> override_ms y L = 0.
Proof. intro H. unfold override_ms, utc_era. replace (1972 <=? y) with false by (symmetry; apply Z.leb_gt; lia). reflexivity. Qed.
Lemma override_ms_from y L : 1972 <= y -> override_ms y L = 32184 + 1000 * (10 + L).
Proof. intro H. unfold override_ms, utc_era. replace (1972 <=? y) with true by (symmetry; apply Z.leb_le; lia). reflexivity. Qed.

(* ---- (a) *)
Theorem leap_table : forall y m, 1950 <= y <= 2100 -> 1 <= m <= 12 ->
  leap_seconds y m = VInt (iers_count y m).
Proof. intros y m Hy Hm. destruct (year_month y m Hy Hm) as [H _]. apply val_eqb_eq, H. Qed.

Theorem leap_monotone : forall y m y' m', 1950 <= y <= 2100 -> 1 <= m <= 12 ->
  1950 <= y' <= 2100 -> 1 <= m' <= 12 -> ym_le (y, m) (y', m') = true ->
  exists a b, leap_seconds y m = VInt a /\ leap_seconds y' m' = VInt b /\ 0 <= a <= b /\ b <= 27.
Proof.
  intros y m y' m' Hy Hm Hy' Hm' Hle.
  exists (iers_count y m), (iers_count y' m'). rewrite !leap_table by assumption.
  pose proof (iers_count_mono _ _ _ _ Hle). pose proof (iers_count_range y m).
  pose proof (iers_count_range y' m'). repeat split; lia.
Qed.

Theorem leap_constant_after : forall y m, 2017 <= y <= 2100 -> 1 <= m <= 12 ->
  leap_seconds y m = VInt 27.
Proof.
  intros y m Hy Hm. rewrite leap_table by lia. rewrite iers_count_after; [reflexivity|].
  unfold ym_le; simpl. apply orb_true_iff.
  destruct (Z.eq_dec y 2017) as [->|Hne]; [right; simpl; apply Z.leb_le; lia|left; apply Z.ltb_lt; lia].
Qed.

Theorem leap_zero_before : forall y m, 1950 <= y <= 2100 -> 1 <= m <= 12 ->
  ym_le (1972, 7) (y, m) = false -> leap_seconds y m = VInt 0.
Proof. intros y m Hy Hm H. rewrite leap_table by assumption. rewrite iers_count_before by exact H. reflexivity. Qed.

Example last_leap_second :
  Epoch_get_last_leap_second B0 tt = VTuple [VInt 2016; VInt 12; VFloat 31%float; VInt 27].
Proof. vm_compute. reflexivity. Qed.

(* ---- (b), (c), (d) *)
Definition kw_holds (y m d h mi s : Z) (kw : fval) (ms : Z) : Prop :=
  later_by (mkEpoch (civil y m d h mi s) kw_none) (mkEpoch (civil y m d h mi s) kw) ms /\
  same_instant (instant_of_date (get_date (mkEpoch (civil y m d h mi s) kw) kw))
               (instant y m d (secs_of h mi s)) = true.

Lemma chk_kw_spec y m d h mi s kw ms :
  chk_kw y m d h mi s (mkEpoch (civil y m d h mi s) kw_none) kw ms = true -> kw_holds y m d h mi s kw ms.
Proof.
  unfold chk_kw, kw_holds. cbv zeta. intro H. apply andb_true_iff in H. destruct H as [H1 H2].
  split; [apply offset_ok_spec, H1 | exact H2].
Qed.

Lemma date_checked y m d h mi s : dom y m d h mi s ->
  plain_ok (mkEpoch (civil y m d h mi s) kw_none) y m d h mi s = true /\
  kw_holds y m d h mi s kw_utc (tt_utc_ms y m) /\
  (forall L, 1 <= L <= 60 -> kw_holds y m d h mi s (kw_leap L) (override_ms y L)).
Proof.
  intros (Hy & Hm & Hd & Ht). destruct (year_month y m Hy Hm) as (_ & H).
  pose proof (on_month_spec _ _ _ _ _ _ _ H Hd Ht) as H1. unfold chk_date in H1. cbv zeta in H1.
  apply andb_true_iff in H1. destruct H1 as [H1 H3]. apply andb_true_iff in H1. destruct H1 as [H1 H2].
  split; [exact H1|]. split; [apply chk_kw_spec, H2|].
  intros L HL. apply chk_kw_spec. apply (forallb_zrange _ 1 60 H3 L). simpl; lia.
Qed.

Theorem plain_instant : forall y m d h mi s, dom y m d h mi s ->
  fclose ((jde_of (mkEpoch (civil y m d h mi s) kw_none) - instant y m d (secs_of h mi s)) * day2sec)
         0 tol_offset = true.
Proof. intros y m d h mi s D. exact (proj1 (date_checked _ _ _ _ _ _ D)). Qed.

Theorem utc_offset : forall y m d h mi s, dom y m d h mi s ->
  later_by (mkEpoch (civil y m d h mi s) kw_none) (mkEpoch (civil y m d h mi s) kw_utc) (tt_utc_ms y m).
Proof. intros y m d h mi s D. exact (proj1 (proj1 (proj2 (date_checked _ _ _ _ _ _ D)))). Qed.

Theorem utc_readback : forall y m d h mi s, dom y m d h mi s ->
  same_instant (instant_of_date (get_date (mkEpoch (civil y m d h mi s) kw_utc) kw_utc))
               (instant y m d (secs_of h mi s)) = true.
Proof. intros y m d h mi s D. exact (proj2 (proj1 (proj2 (date_checked _ _ _ _ _ _ D)))). Qed.

(* overrides *)
Definition override_holds (L y m d h mi s : Z) : Prop :=
  kw_holds y m d h mi s (kw_leap L) (override_ms y L).

Theorem override_partial : forall y m d h mi s L, dom y m d h mi s -> 1 <= L <= 60 ->
  override_holds L y m d h mi s.
Proof. intros y m d h mi s L D HL. exact (proj2 (proj2 (date_checked _ _ _ _ _ _ D)) L HL). Qed.

(* leap_seconds = 0: the Epoch is NOT 42.184 s later than the plain one (it is identical) *)
Lemma zero_witness_dom : dom 2000 1 1 0 0 0.
Proof. unfold dom, days, times. simpl. intuition lia. Qed.
Lemma zero_witness : fclose ((jde_of (mkEpoch (civil 2000 1 1 0 0 0) (kw_leap 0))
                              - jde_of (mkEpoch (civil 2000 1 1 0 0 0) kw_none)) * day2sec)
                            (offset_sec 42184) tol_offset = false.
Proof. vm_compute. reflexivity. Qed.
Lemma zero_witness_same : mkEpoch (civil 2000 1 1 0 0 0) (kw_leap 0) = mkEpoch (civil 2000 1 1 0 0 0) kw_none.
Proof. vm_compute. reflexivity. Qed.

Theorem override_zero_refuted :
  ~ (forall y m d h mi s L, dom y m d h mi s -> 0 <= L <= 60 -> override_holds L y m d h mi s).
Proof.
  intro H. specialize (H 2000 1 1 0 0 0 0 zero_witness_dom ltac:(lia)).
  destruct H as [(_ & _ & _ & H) _].
  assert (override_ms 2000 0 = 42184) as E by reflexivity. rewrite E in H.
  specialize (H ltac:(lia)). rewrite zero_witness in H. discriminate.
Qed.

(* ---- (e) Delta-T *)
Lemma fin_spec v : fin v = true -> exists x, v = VFloat x /\ is_finite x = true.
Proof. destruct v; simpl; try discriminate. intro H. eexists; split; [reflexivity|exact H]. Qed.

Theorem deltat_finite : forall y m, -2000 <= y <= 3000 -> (y < 2050 \/ 2150 <= y) -> 1 <= m <= 12 ->
  exists x, tt2ut (VInt y) (VInt m) = VFloat x /\ is_finite x = true.
Proof.
  intros y m Hy Hs Hm. apply fin_spec.
  assert (chk_dt_finite y = true) as H.
  { destruct Hs; [apply (all_range_spec _ _ _ C10_dt.finite_lo)|apply (all_range_spec _ _ _ C10_dt.finite_hi)]; lia. }
  unfold chk_dt_finite in H. rewrite forallb_forall in H. apply (H m (in_months m Hm)).
Qed.

Theorem deltat_near : forall y m, 1972 <= y <= 2018 -> 1 <= m <= 12 ->
  exists x, tt2ut (VInt y) (VInt m) = VFloat x /\
            fclose x (offset_sec (32184 + 1000 * (10 + iers_count y m))) tol_dt = true.
Proof.
  intros y m Hy Hm.
  pose proof (all_range_spec _ _ _ C10_dt.near y ltac:(lia)) as H. unfold chk_dt_near in H.
  rewrite forallb_forall in H. specialize (H m (in_months m Hm)). unfold chk_dt_near1 in H.
  apply andb_true_iff in H. destruct H as [H1 H2].
  destruct (fin_spec _ H1) as (x & E & _). exists x. split; [exact E|]. rewrite E in H2. exact H2.
Qed.

Theorem deltat_joints : forall J mo, In J joints_nolibm -> In mo mo_joint ->
  exists a b, tt2ut (VFloat (b64_of_Z J)) mo = VFloat a /\ tt2ut (VFloat (below J)) mo = VFloat b /\
              (PrimFloat.abs (a - b) <? 1)%float = true.
Proof.
  intros J mo HJ Hmo. pose proof C10_dt.joints as H. rewrite forallb_forall in H.
  specialize (H J HJ). unfold chk_joint in H. rewrite forallb_forall in H. specialize (H mo Hmo).
  unfold chk_jump in H. apply andb_true_iff in H. destruct H as [H H3].
  apply andb_true_iff in H. destruct H as [H1 H2].
  destruct (fin_spec _ H1) as (a & Ea & _). destruct (fin_spec _ H2) as (b & Eb & _).
  exists a, b. rewrite Ea, Eb in H3. auto.
Qed.

Theorem deltat_joints_monthly : forall J, In J joints_monthly ->
  exists a b, tt2ut (VInt J) (VInt 1) = VFloat a /\ tt2ut (VInt (J - 1)) (VInt 12) = VFloat b /\
              (PrimFloat.abs (a - b) <? 1)%float = true.
Proof.
  intros J HJ. pose proof C10_dt.joints_month as H. rewrite forallb_forall in H.
  specialize (H J HJ). unfold chk_month_jump in H. apply andb_true_iff in H. destruct H as [H H3].
  apply andb_true_iff in H. destruct H as [H1 H2].
  destruct (fin_spec _ H1) as (a & Ea & _). destruct (fin_spec _ H2) as (b & Eb & _).
  exists a, b. rewrite Ea, Eb in H3. auto.
Qed.
