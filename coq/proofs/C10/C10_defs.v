(* C10: executable checks relating the GENERATED model of Epoch.leap_seconds,
   Epoch(..., utc=True / leap_seconds=L), Epoch.get_date(utc=True / leap_seconds=L) and
   Epoch.tt2ut (binary64 instance B0: no libm value is used) to the IERS list Spec.IERS
   and the independent day count Spec.CalSpec.jdn. *)
From Coq Require Import ZArith NArith List Bool String PrimFloat.
From PyLib Require Import PyVal PyBuiltins B64 B64Facts Range.
From Spec Require Import CalSpec IERS.
From Gen Require Import M_base M_Angle M_Epoch.
Import ListNotations.
Open Scope Z_scope.

Definition fval := val float.
Definition kw_none : fval := VDict [].
Definition kw_utc : fval := VDict [(VStr "utc", VBool true)].
(* utc=True together with an explicit leap_seconds=L *)
Definition kw_leap (L : Z) : fval := VDict [(VStr "utc", VBool true); (VStr "leap_seconds", VInt L)].

Definition mkEpoch (args : list fval) (kw : fval) : fval :=
  Epoch___init__ B0 (VObj cEpoch [VNone]) (VTuple args) kw.
Definition civil (y m d h mi s : Z) : list fval := [VInt y; VInt m; VInt d; VInt h; VInt mi; VInt s].
Definition get_date (e kw : fval) : fval := Epoch_get_date B0 e kw.
Definition leap_seconds (y m : Z) : fval := Epoch_leap_seconds B0 (VInt y) (VInt m).
Definition tt2ut (y m : fval) : fval := Epoch_tt2ut B0 y m.

Definition jde_of (v : fval) : float := match v with VObj _ [VFloat j] => j | _ => nan end.
Definition is_epoch (v : fval) : bool :=
  match v with VObj c [VFloat j] => Pos.eqb c cEpoch && is_finite j | _ => false end.

(* |x - y| <= tol, false on NaN *)
Definition fclose (x y tol : float) : bool := (PrimFloat.abs (x - y) <=? tol)%float.
Definition day2sec : float := 86400%float.

(* ---- (a) the leap-second table *)
Definition chk_leap (y m : Z) : bool := val_eqb (leap_seconds y m) (VInt (iers_count y m)).

(* ---- the instant (a JDE) of a civil date and time of day, from the independent day count:
   jdn - 0.5 + seconds/86400 *)
Definition instant (y m d secs : Z) : float :=
  (b64_of_Z (jdn y m d) - 0.5 + b64_of_Z secs / day2sec)%float.
(* ... and of a (year, month, fractional day) triple as returned by get_date; the day may be
   any float (31.9999999 of December and 1.0 of January are 1e-7 s apart as instants) *)
Definition instant_of_date (v : fval) : float :=
  match v with
  | VTuple [VInt y; VInt m; VFloat d] =>
      if (1 <=? m) && (m <=? 12) then (b64_of_Z (jdn y m 1) - 0.5 + (d - 1))%float else nan
  | _ => nan
  end.

(* seconds as a float from integer milliseconds *)
Definition offset_sec (ms : Z) : float := (b64_of_Z ms / 1000)%float.
Definition tol_offset : float := 0x1.a36e2eb1c432dp-14%float.   (* 1e-4 s *)
Definition tol_ms : float := 0x1.0624dd2f1a9fcp-10%float.       (* 1e-3 s *)

(* e1 is later than e0 by ms milliseconds: to 1e-4 s, and bit-identical when ms = 0 *)
Definition offset_ok (e0 e1 : fval) (ms : Z) : bool :=
  is_epoch e0 && is_epoch e1 &&
  (if ms =? 0 then feq (jde_of e1) (jde_of e0)
   else fclose ((jde_of e1 - jde_of e0) * day2sec) (offset_sec ms) tol_offset).
(* two JDE values are the same instant to 1 ms *)
Definition same_instant (a b : float) : bool := fclose ((a - b) * day2sec) 0 tol_ms.

Definition secs_of (h mi s : Z) : Z := h * 3600 + mi * 60 + s.

(* (b): the Epoch e1 built with kwargs kw is later than the plain one e0 by ms milliseconds;
   (c): get_date with the same kwargs gives back the civil date and time to 1 ms *)
Definition chk_kw (y m d h mi s : Z) (e0 kw : fval) (ms : Z) : bool :=
  let e1 := mkEpoch (civil y m d h mi s) kw in
  offset_ok e0 e1 ms &&
  same_instant (instant_of_date (get_date e1 kw)) (instant y m d (secs_of h mi s)).
(* the plain (TT) construction is the civil instant itself (to 1e-4 s) *)
Definition plain_ok (e0 : fval) (y m d h mi s : Z) : bool :=
  fclose ((jde_of e0 - instant y m d (secs_of h mi s)) * day2sec) 0 tol_offset.

Definition times : list (Z * Z * Z) := [(0, 0, 0); (12, 0, 0); (23, 59, 59)].
Definition days (y m : Z) : list Z := [1; 15; mlen y m].
Definition months : list Z := zrange 1 12.

Definition on_month (f : Z -> Z -> Z -> Z -> Z -> Z -> bool) (y m : Z) : bool :=
  forallb (fun d => forallb (fun t => f y m d (fst (fst t)) (snd (fst t)) (snd t)) times) (days y m).

(* explicit leap_seconds = L replaces the table value: the offset is 32.184 + 10 + L from 1972 on *)
Definition override_ms (y L : Z) : Z := if utc_era y then 32184 + 1000 * (10 + L) else 0.

(* one civil date and time: plain construction, utc=True (table value tt_utc_ms), overrides 1..60 *)
Definition chk_date (y m d h mi s : Z) : bool :=
  let e0 := mkEpoch (civil y m d h mi s) kw_none in
  plain_ok e0 y m d h mi s &&
  chk_kw y m d h mi s e0 kw_utc (tt_utc_ms y m) &&
  forallb (fun L => chk_kw y m d h mi s e0 (kw_leap L) (override_ms y L)) (zrange 1 60).

Definition chk_year (y : Z) : bool :=
  forallb (fun m => chk_leap y m && on_month chk_date y m) months.

(* ---- (e) Delta-T *)
Definition fin (v : fval) : bool := match v with VFloat x => is_finite x | _ => false end.
Definition fl (v : fval) : float := match v with VFloat x => x | _ => nan end.
Definition chk_dt_finite (y : Z) : bool := forallb (fun m => fin (tt2ut (VInt y) (VInt m))) months.
Definition tol_dt : float := 3.5%float.
Definition chk_dt_near1 (y m : Z) : bool :=
  fin (tt2ut (VInt y) (VInt m)) &&
  fclose (fl (tt2ut (VInt y) (VInt m))) (offset_sec (32184 + 1000 * (10 + iers_count y m))) tol_dt.
Definition chk_dt_near (y : Z) : bool := forallb (chk_dt_near1 y) months.
(* the two sides of a segment joint J: year = J and year = the double just below J, same month
   argument mo (0.5 makes the decimal year exactly J; 1 is January) *)
Definition below (J : Z) : float := next_down (b64_of_Z J).
Definition chk_jump (J : Z) (mo : fval) : bool :=
  fin (tt2ut (VFloat (b64_of_Z J)) mo) && fin (tt2ut (VFloat (below J)) mo) &&
  (PrimFloat.abs (fl (tt2ut (VFloat (b64_of_Z J)) mo) - fl (tt2ut (VFloat (below J)) mo)) <? 1)%float.
Definition mo_joint : list fval := [VFloat 0.5%float; VInt 1].
Definition chk_joint (J : Z) : bool := forallb (chk_jump J) mo_joint.
(* joints of the piecewise definition with no libm call on either side (2050 and 2150 border
   the segment that uses `** 2`, i.e. libm pow) *)
Definition joints_nolibm : list Z := [-500; 500; 1600; 1700; 1800; 1860; 1900; 1920; 1941; 1961; 1986; 2005].
(* the same joints on the property's (year, month) grid: December of the year before the joint
   against January of the joint year (the text asks for the joints after -500) *)
Definition chk_month_jump (J : Z) : bool :=
  fin (tt2ut (VInt J) (VInt 1)) && fin (tt2ut (VInt (J - 1)) (VInt 12)) &&
  (PrimFloat.abs (fl (tt2ut (VInt J) (VInt 1)) - fl (tt2ut (VInt (J - 1)) (VInt 12))) <? 1)%float.
Definition joints_monthly : list Z := [500; 1600; 1700; 1800; 1860; 1900; 1920; 1941; 1961; 1986; 2005].
