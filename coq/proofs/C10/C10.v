(* Property C10 — the UTC <-> TT offset follows the IERS leap-second history and inverts.
   This file holds only the statements; all proofs are in C10_main.v.  The model
   (mkEpoch = generated Epoch.__init__, get_date, leap_seconds, tt2ut; binary64 instance
   without any libm value) is regenerated from /repo on every run; the leap-second history
   is Spec.IERS (written from IERS Bulletin C), the day count Spec.CalSpec.jdn.
   dom y m d h mi s: 1950 <= y <= 2100, 1 <= m <= 12, d in {1, 15, last day of the month},
   (h, mi, s) in {0:00:00, 12:00:00, 23:59:59}.
   later_by e0 e1 ms: both are Epochs with finite JDE, bit-identical JDE when ms = 0, else
   |(jde e1 - jde e0) * 86400 - ms/1000| <= 1e-4 (binary64 arithmetic).
   same_instant a b: |(a - b) * 86400| <= 1e-3. *)
From Coq Require Import ZArith List String PrimFloat.
From PyLib Require Import PyVal PyBuiltins B64 B64Facts.
From Spec Require Import CalSpec IERS.
From Gen Require Import M_base M_Angle M_Epoch.
From Proofs.C10 Require Import C10_defs C10_pow C10_main.
Import ListNotations.
Open Scope Z_scope.

(* (a) the cumulative count is the IERS list for every (year, month) 1950..2100 ... *)
Theorem C10_leap_table : forall y m, 1950 <= y <= 2100 -> 1 <= m <= 12 ->
  leap_seconds y m = VInt (iers_count y m).
Proof. exact leap_table. Qed.

(* ... a non-decreasing step function of (year, month) with values in 0..27 ... *)
Theorem C10_leap_monotone : forall y m y' m', 1950 <= y <= 2100 -> 1 <= m <= 12 ->
  1950 <= y' <= 2100 -> 1 <= m' <= 12 -> ym_le (y, m) (y', m') = true ->
  exists a b, leap_seconds y m = VInt a /\ leap_seconds y' m' = VInt b /\ 0 <= a <= b /\ b <= 27.
Proof. exact leap_monotone. Qed.

(* ... constant from 2017-01 on, zero before 1972-07; the last insertion is 2016-12-31 *)
Theorem C10_leap_constant : 
  (forall y m, 2017 <= y <= 2100 -> 1 <= m <= 12 -> leap_seconds y m = VInt 27) /\
  (forall y m, 1950 <= y <= 2100 -> 1 <= m <= 12 -> ym_le (1972, 7) (y, m) = false ->
     leap_seconds y m = VInt 0) /\
  Epoch_get_last_leap_second B0 tt = VTuple [VInt 2016; VInt 12; VFloat 31%float; VInt 27].
Proof. exact (conj leap_constant_after (conj leap_zero_before last_leap_second)). Qed.

(* (b) utc=True makes the Epoch later by 32.184 + 10 + IERS count seconds from 1972-01-01 on
   and by nothing before (tt_utc_ms y m = 0 iff y < 1972); the plain Epoch is the civil instant *)
Theorem C10_utc_offset : forall y m d h mi s, dom y m d h mi s ->
  later_by (mkEpoch (civil y m d h mi s) kw_none) (mkEpoch (civil y m d h mi s) kw_utc)
           (if 1972 <=? y then 32184 + 1000 * (10 + iers_count y m) else 0) /\
  fclose ((jde_of (mkEpoch (civil y m d h mi s) kw_none) - instant y m d (secs_of h mi s)) * day2sec)
         0 tol_offset = true.
Proof. exact (fun y m d h mi s D => conj (utc_offset y m d h mi s D) (plain_instant y m d h mi s D)). Qed.

(* (c) reading the date back with utc=True returns the civil date and time to 1 ms *)
Theorem C10_utc_readback : forall y m d h mi s, dom y m d h mi s ->
  same_instant (instant_of_date (get_date (mkEpoch (civil y m d h mi s) kw_utc) kw_utc))
               (instant y m d (secs_of h mi s)) = true.
Proof. exact utc_readback. Qed.

(* (d) an explicit leap_seconds = L replaces the table value in both directions.
   override_holds L ...: the Epoch built with (utc=True, leap_seconds=L) is later than the plain
   one by 32.184 + 10 + L seconds from 1972 on (nothing before), and get_date with the same
   keywords returns the civil date to 1 ms.  The full statement (L in 0..60) is FALSE in the
   code as it stands: L = 0 switches the correction off. *)
Definition C10_override_full : Prop :=
  forall y m d h mi s L, dom y m d h mi s -> 0 <= L <= 60 -> override_holds L y m d h mi s.

Theorem C10_override_zero_refuted : ~ C10_override_full.
Proof. exact override_zero_refuted. Qed.

Theorem C10_override_partial : forall y m d h mi s L, dom y m d h mi s -> 1 <= L <= 60 ->
  override_holds L y m d h mi s.
Proof. exact override_partial. Qed.

(* (e) Delta-T = tt2ut(year, month): within 3.5 s of 42.184 + leap seconds for 1972..2018 *)
Theorem C10_deltat_near : forall y m, 1972 <= y <= 2018 -> 1 <= m <= 12 ->
  exists x, tt2ut (VInt y) (VInt m) = VFloat x /\
            fclose x (offset_sec (32184 + 1000 * (10 + iers_count y m))) 3.5%float = true.
Proof. exact deltat_near. Qed.

(* jumps by less than 1 s at the segment joints (both sides evaluated: year = J and the
   double just below J; month argument 0.5, i.e. decimal year exactly J, and 1) *)
Theorem C10_deltat_joints : forall J mo,
  In J [-500; 500; 1600; 1700; 1800; 1860; 1900; 1920; 1941; 1961; 1986; 2005] ->
  In mo [VFloat 0.5%float; VInt 1] ->
  exists a b, tt2ut (VFloat (b64_of_Z J)) mo = VFloat a /\
              tt2ut (VFloat (next_down (b64_of_Z J))) mo = VFloat b /\
              (PrimFloat.abs (a - b) <? 1)%float = true.
Proof. exact deltat_joints. Qed.

(* the same on the property's (year, month) grid: January of the joint year against December of
   the year before, joints after -500 (the text's reading) *)
Theorem C10_deltat_joints_monthly : forall J,
  In J [500; 1600; 1700; 1800; 1860; 1900; 1920; 1941; 1961; 1986; 2005] ->
  exists a b, tt2ut (VInt J) (VInt 1) = VFloat a /\ tt2ut (VInt (J - 1)) (VInt 12) = VFloat b /\
              (PrimFloat.abs (a - b) <? 1)%float = true.
Proof. exact deltat_joints_monthly. Qed.

(* a finite float for every (year, month) -2000..3000 outside the segment 2050..2149, which
   calls libm pow and is covered by correspondence + search *)
Theorem C10_deltat_finite : forall y m, -2000 <= y <= 3000 -> (y < 2050 \/ 2150 <= y) -> 1 <= m <= 12 ->
  exists x, tt2ut (VInt y) (VInt m) = VFloat x /\ is_finite x = true.
Proof. exact deltat_finite. Qed.

(* the segment 2050 <= year < 2150 calls libm pow(x, 2) with x = xarg year month
   (= ((year + (month - 0.5)/12) - 1820)/100): for each of the three doubles within 1 ulp of the
   correctly rounded x*x as the value of that call (k = -1, 0, 1; tt2ut_k k runs the model with
   that one-entry oracle table) the result is finite, and the joints 2050 and 2150 jump < 1 s *)
Theorem C10_deltat_pow_segment :
  (forall y m k, 2050 <= y <= 2149 -> 1 <= m <= 12 -> -1 <= k <= 1 ->
     exists x, tt2ut_k k (b64_of_Z y) (b64_of_Z m) (VInt y) (VInt m) = VFloat x /\ is_finite x = true) /\
  (forall J mo k, In J [2050; 2150] -> In mo [VFloat 0.5%float; VInt 1] -> -1 <= k <= 1 ->
     exists a b, tt2ut_k k (b64_of_Z J) (mo_float mo) (VFloat (b64_of_Z J)) mo = VFloat a /\
                 tt2ut_k k (next_down (b64_of_Z J)) (mo_float mo) (VFloat (next_down (b64_of_Z J))) mo = VFloat b /\
                 (PrimFloat.abs (a - b) <? 1)%float = true).
Proof. exact (conj pow_segment_finite pow_segment_joints). Qed.

Redirect "C10_leap_table.assumptions" Print Assumptions C10_leap_table.
Redirect "C10_leap_monotone.assumptions" Print Assumptions C10_leap_monotone.
Redirect "C10_leap_constant.assumptions" Print Assumptions C10_leap_constant.
Redirect "C10_utc_offset.assumptions" Print Assumptions C10_utc_offset.
Redirect "C10_utc_readback.assumptions" Print Assumptions C10_utc_readback.
Redirect "C10_override_zero_refuted.assumptions" Print Assumptions C10_override_zero_refuted.
Redirect "C10_override_partial.assumptions" Print Assumptions C10_override_partial.
Redirect "C10_deltat_near.assumptions" Print Assumptions C10_deltat_near.
Redirect "C10_deltat_joints.assumptions" Print Assumptions C10_deltat_joints.
Redirect "C10_deltat_joints_monthly.assumptions" Print Assumptions C10_deltat_joints_monthly.
Redirect "C10_deltat_finite.assumptions" Print Assumptions C10_deltat_finite.
Redirect "C10_deltat_pow_segment.assumptions" Print Assumptions C10_deltat_pow_segment.
