(* C10: the Delta-T segment 2050 <= year < 2150 computes ((y - 1820)/100) ** 2, i.e. calls libm pow.
   libm is not modelled; here the model is run with a one-entry oracle table that answers
   pow(x, 2) by each of the three doubles within 1 ulp of the correctly rounded x*x
   (k = -1, 0, 1).  The theorems hold for all three, so they apply to any libm whose pow(x, 2)
   is within 1 ulp of x*x (the search checks the running libm for that on every argument used). *)
From Coq Require Import ZArith NArith List Bool String Lia PrimFloat.
From PyLib Require Import PyVal PyBuiltins B64 B64Facts Range.
From Gen Require Import M_base M_Angle M_Epoch.
From Proofs.C10 Require Import C10_defs.
Import ListNotations.
Open Scope Z_scope.

Definition nudge (k : Z) (p : float) : float :=
  if k =? 0 then p else if k <? 0 then next_down p else next_up p.
(* the argument of pow: ((year + (month - 0.5)/12) - 1820) / 100 in binary64 *)
Definition xarg (yf mf : float) : float := (((yf + (mf - 0.5) / 12) - 1820) / 100)%float.
Definition pow_table (k : Z) (x : float) : libm_table := [(Lpow, [x; 2%float], nudge k (x * x)%float)].
Definition tt2ut_k (k : Z) (yf mf : float) (yv mv : fval) : fval :=
  Epoch_tt2ut (B64ops (pow_table k (xarg yf mf))) yv mv.

Definition ks : list Z := [-1; 0; 1].
Definition chk_pow_finite (y : Z) : bool :=
  forallb (fun m => forallb (fun k =>
     fin (tt2ut_k k (b64_of_Z y) (b64_of_Z m) (VInt y) (VInt m))) ks) months.
Definition mo_float (mo : fval) : float := match mo with VInt z => b64_of_Z z | VFloat x => x | _ => nan end.
Definition chk_jump_pow (J : Z) (mo : fval) (k : Z) : bool :=
  let hi := tt2ut_k k (b64_of_Z J) (mo_float mo) (VFloat (b64_of_Z J)) mo in
  let lo := tt2ut_k k (below J) (mo_float mo) (VFloat (below J)) mo in
  fin hi && fin lo && (PrimFloat.abs (fl hi - fl lo) <? 1)%float.
Definition joints_pow : list Z := [2050; 2150].

Lemma pow_finite : all_range 2050 100%N chk_pow_finite = true.
Proof. vm_cast_no_check (@eq_refl bool true). Qed.
Lemma pow_joints : forallb (fun J => forallb (fun mo => forallb (chk_jump_pow J mo) ks) mo_joint) joints_pow = true.
Proof. vm_cast_no_check (@eq_refl bool true). Qed.

Lemma in_ks k : -1 <= k <= 1 -> In k ks.
Proof. intro H. assert (k = -1 \/ k = 0 \/ k = 1) as [->|[->| ->]] by lia; simpl; auto. Qed.

Theorem pow_segment_finite : forall y m k, 2050 <= y <= 2149 -> 1 <= m <= 12 -> -1 <= k <= 1 ->
  exists x, tt2ut_k k (b64_of_Z y) (b64_of_Z m) (VInt y) (VInt m) = VFloat x /\ is_finite x = true.
Proof.
  intros y m k Hy Hm Hk.
  pose proof (all_range_spec _ _ _ pow_finite y ltac:(lia)) as H. unfold chk_pow_finite in H.
  rewrite forallb_forall in H. specialize (H m (zrange_In 12 1 m ltac:(simpl; lia))). cbv beta in H.
  rewrite forallb_forall in H. specialize (H k (in_ks k Hk)). cbv beta in H.
  destruct (tt2ut_k k (b64_of_Z y) (b64_of_Z m) (VInt y) (VInt m)); simpl in H; try discriminate.
  eexists; split; [reflexivity|exact H].
Qed.

Theorem pow_segment_joints : forall J mo k, In J joints_pow -> In mo mo_joint -> -1 <= k <= 1 ->
  exists a b, tt2ut_k k (b64_of_Z J) (mo_float mo) (VFloat (b64_of_Z J)) mo = VFloat a /\
              tt2ut_k k (below J) (mo_float mo) (VFloat (below J)) mo = VFloat b /\
              (PrimFloat.abs (a - b) <? 1)%float = true.
Proof.
  intros J mo k HJ Hmo Hk. pose proof pow_joints as H.
  rewrite forallb_forall in H. specialize (H J HJ). cbv beta in H.
  rewrite forallb_forall in H. specialize (H mo Hmo). cbv beta in H.
  rewrite forallb_forall in H. specialize (H k (in_ks k Hk)). unfold chk_jump_pow in H. cbv zeta in H.
  destruct (tt2ut_k k (b64_of_Z J) (mo_float mo) (VFloat (b64_of_Z J)) mo) as [| | |a| | | | | | |]; simpl in H; try discriminate.
  destruct (tt2ut_k k (below J) (mo_float mo) (VFloat (below J)) mo) as [| | |b| | | | | | |]; simpl in H;
    try (rewrite andb_false_r in H; discriminate).
  exists a, b. apply andb_true_iff in H. destruct H as [_ H]. auto.
Qed.
