(* C10: Delta-T (Epoch.tt2ut) computations in the binary64 instance without libm *)
From Coq Require Import ZArith NArith List Bool.
From PyLib Require Import Range.
From Proofs.C10 Require Import C10_defs.
Import ListNotations.
Open Scope Z_scope.
(* finite float for every (year, month), years -2000..2049 and 2150..3000 *)
Lemma finite_lo : all_range (-2000) 4050%N chk_dt_finite = true.
Proof. vm_cast_no_check (@eq_refl bool true). Qed.
Lemma finite_hi : all_range 2150 851%N chk_dt_finite = true.
Proof. vm_cast_no_check (@eq_refl bool true). Qed.
(* within 3.5 s of 42.184 + leap seconds for the 564 months of 1972..2018 *)
Lemma near : all_range 1972 47%N chk_dt_near = true.
Proof. vm_cast_no_check (@eq_refl bool true). Qed.
Lemma joints : forallb chk_joint joints_nolibm = true.
Proof. vm_cast_no_check (@eq_refl bool true). Qed.
Lemma joints_month : forallb chk_month_jump joints_monthly = true.
Proof. vm_cast_no_check (@eq_refl bool true). Qed.
