(* C06_jde: the module constant JDE2000 = Epoch(2000, 1, 1.5) is the instant 2451545.0 *)
From Coq Require Import Reals ZArith List Bool Lra Lia String.
From PyLib Require Import PyVal PyBuiltins Ideal IdealFacts Whnf PyEval.
From Spec Require Import AngleSpec Precession.
From Gen Require Import M_base M_Angle M_Epoch.
From Proofs.C06 Require Import C06_angle.
Import ListNotations.
Open Scope R_scope.

Ltac nohook s := fail.
Ltac decJ := zfold; Rlit_norm; lra.

Lemma jde2000_eq : g_JDE2000 Rops = ep J2000.
Proof.
  pyrunH_using nohook decJ.
  assert (E1 : Rfloor (Rlit 36525 (-2) * (IZR (2000 - 1) + Rlit 47160 (-1))) = 2452653%Z)
    by (apply Rfloor_unique; zfold; Rlit_norm; lra).
  assert (E2 : Rfloor (Rlit 306001 (-4) * (IZR (1 + 12) + Rlit 10 (-1))) = 428%Z)
    by (apply Rfloor_unique; zfold; Rlit_norm; lra).
  assert (E3 : Rfloor (IZR (2000 - 1) / Rlit 1000 (-1)) = 19%Z)
    by (apply Rfloor_unique; zfold; Rlit_norm; lra).
  rewrite E1, E2, E3.
  assert (E4 : Rfloor (IZR 19 / Rlit 40 (-1)) = 4%Z)
    by (apply Rfloor_unique; Rlit_norm; lra).
  rewrite E4. unfold ep, J2000. do 3 f_equal. zfold. Rlit_norm. lra.
Qed.
