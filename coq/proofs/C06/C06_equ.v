(* C06_equ: closed form of precession_equatorial / precession_newcomb in the ideal instance *)
From Coq Require Import Reals ZArith List Bool Lra Lia String.
From PyLib Require Import PyVal PyBuiltins Ideal IdealFacts Whnf PyEval Sphere.
From Spec Require Import AngleSpec Precession.
From Gen Require Import M_base M_Angle M_Epoch M_Coordinates.
From Proofs.C06 Require Import C06_angle C06_tac.
Import ListNotations.
Open Scope R_scope.

Theorem equ_closed J j0 j1 a0 d0 ma md : g_JDE2000 Rops = ep J ->
  let T := cen J j0 in let t := cen j0 j1 in
  let o := equ_out (zeta_as T t) (z_as T t) (theta_as T t) (pm_start a0 ma t) (pm_start d0 md t) in
  f_precession_equatorial Rops (ep j0) (ep j1) (ang a0) (ang d0) (ang ma) (ang md)
  = VTuple [ang (fst o); ang (snd o)].
Proof.
  intros HJ T t o. pyrun2.
  rewrite L100_eq.
  replace ((j1 - j0) / Rlit 365250 (-1)) with t by (unfold t, cen; Rlit_norm; field).
  replace ((j0 - J) / Rlit 365250 (-1)) with T by (unfold T, cen; Rlit_norm; field).
  repeat match goal with
  | |- context [dms_sec ?e] =>
      lazymatch e with
      | zeta_as _ _ => fail | z_as _ _ => fail | theta_as _ _ => fail
      | _ => first [ poly_to e (zeta_as T t) | poly_to e (z_as T t) | poly_to e (theta_as T t) ]
      end
  end.
  reflexivity.
Qed.

Theorem newcomb_closed j0 j1 a0 d0 ma md :
  let T := tropcen B1900 j0 in let t := tropcen j0 j1 in
  let o := equ_out (nzeta_as T t) (nz_as T t) (ntheta_as T t) (pm_start a0 ma t) (pm_start d0 md t) in
  f_precession_newcomb Rops (ep j0) (ep j1) (ang a0) (ang d0) (ang ma) (ang md)
  = VTuple [ang (fst o); ang (snd o)].
Proof.
  intros T t o. pyrun2.
  rewrite L100_eq.
  replace ((j1 - j0) / Rlit 365242199 (-4)) with t by (unfold t, tropcen; Rlit_norm; dec_norm; field).
  replace ((j0 - Rlit 24150203135 (-4)) / Rlit 365242199 (-4)) with T
    by (unfold T, tropcen, B1900; Rlit_norm; dec_norm; field).
  repeat match goal with
  | |- context [dms_sec ?e] =>
      lazymatch e with
      | nzeta_as _ _ => fail | nz_as _ _ => fail | ntheta_as _ _ => fail
      | _ => first [ poly_to e (nzeta_as T t) | poly_to e (nz_as T t) | poly_to e (ntheta_as T t) ]
      end
  end.
  reflexivity.
Qed.
