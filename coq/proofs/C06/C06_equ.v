(* C06_equ: closed form of precession_equatorial / precession_newcomb in the ideal instance *)
From Coq Require Import Reals ZArith List Bool Lra Lia String.
From PyLib Require Import PyVal PyBuiltins Ideal IdealFacts Whnf PyEval Sphere.
From Spec Require Import AngleSpec Precession.
From Gen Require Import M_base M_Angle M_Epoch M_Coordinates.
From Proofs.C06 Require Import C06_angle.
Import ListNotations.
Open Scope R_scope.

From Ltac2 Require Ltac2.
Ltac2 Set Whnf.is_blocked := fun c =>
  Ltac2.List.exist (Ltac2.Constr.equal c)
    ['@bind; 'Rltb; 'Rleb; 'Reqb; 'Rfloor; 'Rtrunc; 'Rround; 'is_int; 'Rfmod; 'Rround_nd;
     'Rlit; 'atan2; 'Rpow; 'pow10; 'Rabs; 'sqrt; 'sin; 'cos; 'tan; 'asin; 'acos; 'atan;
     'exp; 'ln; 'Rpower; 'powerRZ; 'IZR; 'PI;
     '@Angle_reduce_deg; '@fmod_py; '@Angle_dms2deg; '@Angle___init__; '@g_JDE2000].

Lemma Angle_new_rad_kw x :
  Angle___init__ Rops blankA (VTuple [VFloat x]) (VDict [kw "radians" (VBool true)])
  = ang (red360 (r2d x)).
Proof. exact (Angle_new_rad x). Qed.

Ltac hook2 tac s :=
  lazymatch s with
  | Angle_reduce_deg _ (VFloat ?x) =>
      first [ rewrite (reduce_deg_small x) by (expose_R; tac) | rewrite (reduce_deg_eq x) ]
  | fmod_py _ ?a ?y => rewrite (fmod_py_nonneg a y) by (expose_R; tac)
  | Angle_dms2deg _ (VInt 0) (VInt 0) (VFloat ?x) => rewrite (dms2deg_sec x)
  | Angle___init__ _ _ (VTuple [VInt 0; VInt 0; VFloat ?x]) (VDict []) => fold blankA; rewrite (Angle_new_sec x)
  | Angle___init__ _ _ (VTuple [VFloat ?x]) (VDict []) => fold blankA; rewrite (Angle_new_deg x)
  | Angle___init__ _ _ (VTuple [VFloat ?x]) (VDict [(VStr "radians", VBool true)]) =>
      fold blankA; rewrite (Angle_new_rad x)
  | Angle___init__ _ _ (VTuple [VFloat ?x]) (VDict [kw "radians" (VBool true)]) =>
      fold blankA; rewrite (Angle_new_rad_kw x)
  | g_JDE2000 _ => match goal with HJ : g_JDE2000 Rops = _ |- _ => rewrite HJ end
  end.
Ltac sqsum :=
  lazymatch goal with
  | |- _ <= ?x * ?x + ?y * ?y =>
      apply Rplus_le_le_0_compat; [exact (Rle_0_sqr x) | exact (Rle_0_sqr y)]
  end.
Ltac dec2 := first [ assumption | sqsum | Rlit_norm_all; zfold; lra ].
Ltac pyrun2 := pyrunH_using ltac:(hook2 dec2) dec2.

Lemma L100_eq : Rlit 1000 (-1) = 100.
Proof. Rlit_norm. lra. Qed.

(* bring the Horner-form expression [e] the code computes to the spec polynomial [p] *)
Ltac poly_to e p :=
  replace e with p by (unfold zeta_as, z_as, theta_as, nzeta_as, nz_as, ntheta_as, cen, tropcen,
                         B1900; Rlit_norm; dec_norm; field).

Theorem equ_closed J j0 j1 a0 d0 ma md : g_JDE2000 Rops = ep J ->
  let T := cen J j0 in let t := cen j0 j1 in
  let o := equ_out (zeta_as T t) (z_as T t) (theta_as T t) (pm_start a0 ma t) (pm_start d0 md t) in
  f_precession_equatorial Rops (ep j0) (ep j1) (ang a0) (ang d0) (ang ma) (ang md)
  = VTuple [ang (fst o); ang (snd o)].
Proof.
  intros HJ T t o. pyrun2.
  rewrite L100_eq.
  replace ((j1 - j0) / Rlit 365250 (-1)) with t by (unfold t, cen; Rlit_norm; field).
  replace ((j0 - J) / Rlit 365250 (-1)) with T by (unfold T, cen; Rlit_norm; field).
  repeat match goal with
  | |- context [dms_sec ?e] =>
      lazymatch e with
      | zeta_as _ _ => fail | z_as _ _ => fail | theta_as _ _ => fail
      | _ => first [ poly_to e (zeta_as T t) | poly_to e (z_as T t) | poly_to e (theta_as T t) ]
      end
  end.
  reflexivity.
Qed.
