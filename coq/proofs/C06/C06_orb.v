(* C06_orb: closed form of orbital_equinox2equinox (general branch, inclination >= 1 degree) *)
From Coq Require Import Reals ZArith List Bool Lra Lia String Psatz.
From PyLib Require Import PyVal PyBuiltins Ideal IdealFacts Whnf PyEval Sphere.
From Spec Require Import AngleSpec Precession.
From Gen Require Import M_base M_Angle M_Epoch M_Coordinates.
From Proofs.C06 Require Import C06_angle C06_tac C06_ecl.
Import ListNotations.
Open Scope R_scope.

Lemma orb_ab_le1 i e f :
  let a := sin i * sin f in let b := - sin e * cos i + cos e * sin i * cos f in
  sqrt (a * a + b * b) <= 1.
Proof.
  intros a b. rewrite <- sqrt_1. apply sqrt_le_1_alt.
  set (c := cos e * cos i + sin e * sin i * cos f).
  assert (He : sin e * sin e + cos e * cos e = 1) by (pose proof (sin2_cos2 e) as X; unfold Rsqr in X; exact X).
  assert (Hi : sin i * sin i + cos i * cos i = 1) by (pose proof (sin2_cos2 i) as X; unfold Rsqr in X; exact X).
  assert (Hf : sin f * sin f + cos f * cos f = 1) by (pose proof (sin2_cos2 f) as X; unfold Rsqr in X; exact X).
  assert (H : a * a + b * b + c * c = 1).
  { replace (a * a + b * b + c * c)
      with ((sin e * sin e + cos e * cos e) * (cos i * cos i)
            + (sin e * sin e + cos e * cos e) * (sin i * sin i) * (cos f * cos f)
            + (sin i * sin i) * (sin f * sin f)) by (unfold a, b, c; ring).
    rewrite He.
    replace (1 * (cos i * cos i) + 1 * (sin i * sin i) * (cos f * cos f) + sin i * sin i * (sin f * sin f))
      with (cos i * cos i + (sin i * sin i) * (sin f * sin f + cos f * cos f)) by ring.
    rewrite Hf. lra. }
  nra.
Qed.

Ltac orbdec :=
  lazymatch goal with
  | |- sqrt (?a * ?a + ?b * ?b) <= _ =>
      lazymatch a with sin ?i * sin ?f =>
        lazymatch b with - sin ?e * cos i + cos ?e' * sin i * cos f => exact (orb_ab_le1 i e f) end end
  | |- _ <= sqrt ?x => apply Rle_trans with 0; [ lra | apply sqrt_pos ]
  end.
Ltac dec5 := first [ assumption | sqsum | orbdec | Rlit_norm_all; zfold; lra ].
Ltac pyrun5 := pyrunH_using ltac:(hook2 dec5) dec5.

(* Meeus 24 (reduction of ecliptical elements to another equinox), inclination not (numerically) zero:
   with f = Omega0 - Pi,  A = sin i0 sin f,  B = -sin eta cos i0 + cos eta sin i0 cos f,
   C = cos i0 cos eta + sin i0 sin eta cos f:
   i = atan2(sqrt(A^2+B^2), C) (0..180: retrograde orbits stay retrograde),  Omega = atan2(A, B) + Pi + p,
   omega = omega0 + atan2(-sin eta sin f, sin i0 cos eta - cos i0 sin eta cos f) *)
Definition orb_out (eta pie p i0 w0 o0 : R) : R * R * R :=
  let ET := d2r (dms_sec eta) in
  let PR := d2r (pie_deg pie) in
  let IR := d2r i0 in
  let F := d2r o0 - PR in
  let a := sin IR * sin F in
  let b := - sin ET * cos IR + cos ET * sin IR * cos F in
  let c := cos IR * cos ET + sin IR * sin ET * cos F in
  (red360 (r2d (atan2 (sqrt (a * a + b * b)) c)),
   red360 (w0 + red360 (r2d (atan2 (- sin ET * sin F) (sin IR * cos ET - cos IR * sin ET * cos F)))),
   red360 (red360 (red360 (r2d (atan2 a b)) + pie_deg pie) + dms_sec p)).

Ltac orb_polys T t :=
  rewrite ?Lpi0_eq;
  repeat match goal with
  | |- context [dms_sec ?e] =>
      lazymatch e with
      | eta_as _ _ => fail | pi_as _ _ => fail | p_as _ _ => fail
      | _ => first [ poly_to e (eta_as T t) | poly_to e (pi_as T t) | poly_to e (p_as T t) ]
      end
  end.

(* the general branch is taken whenever |i0| is at least the Angle tolerance 1e-10 *)
Theorem orb_closed J j0 j1 i0 w0 o0 : g_JDE2000 Rops = ep J -> tol0 <= Rabs i0 ->
  let T := cen J j0 in let t := cen j0 j1 in
  let o := orb_out (eta_as T t) (pi_as T t) (p_as T t) i0 w0 o0 in
  f_orbital_equinox2equinox Rops (ep j0) (ep j1) (ang i0) (ang w0) (ang o0)
  = VTuple [ang (fst (fst o)); ang (snd (fst o)); ang (snd o)].
Proof.
  intros HJ Hi T t o.
  assert (Hi' : tol0 <= Rabs (i0 - Rlit 0 (-1))).
  { replace (i0 - Rlit 0 (-1)) with i0 by (Rlit_norm; lra). exact Hi. }
  pyrun5.
  replace ((j1 - j0) / Rlit 365250 (-1)) with t by (unfold t, cen; Rlit_norm; field).
  replace ((j0 - J) / Rlit 365250 (-1)) with T by (unfold T, cen; Rlit_norm; field).
  orb_polys T t.
  reflexivity.
Qed.

(* the exact-zero branch (|i0| below the Angle tolerance): three cases on the sign of the stored eta
   (E = dms_sec (eta_as T t), degrees): Meeus' case for a forward interval, the mirrored one for a
   backward interval, and the input orientation for a null rotation *)
Definition eta_horner (t T : R) : R :=
  t * (Rlit 470029 (-4) + T * (Rlit (-6603) (-5) + Rlit 598 (-6) * T)
       + t * (Rlit (-3302) (-5) + Rlit 598 (-6) * T + Rlit 6 (-5) * t)).
Lemma eta_horner_eq J j0 j1 :
  eta_horner ((j1 - j0) / Rlit 365250 (-1)) ((j0 - J) / Rlit 365250 (-1)) = eta_as (cen J j0) (cen j0 j1).
Proof. unfold eta_horner, eta_as, cen. Rlit_norm. dec_norm. field. Qed.

Definition orb_domega (eta pie o0 : R) : R :=
  let ET := d2r (dms_sec eta) in
  let F := d2r o0 - d2r (pie_deg pie) in
  red360 (r2d (atan2 (- sin ET * sin F) (sin (d2r 0) * cos ET - cos (d2r 0) * sin ET * cos F))).

Definition orb_out0_pos (eta pie p w0 o0 : R) : R * R * R :=
  (dms_sec eta, red360 (w0 + orb_domega eta pie o0), red360 (red360 (pie_deg pie + dms_sec p) + 180)).
Definition orb_out0_neg (eta pie p w0 o0 : R) : R * R * R :=
  (red360 (- dms_sec eta), red360 (w0 + orb_domega eta pie o0), red360 (pie_deg pie + dms_sec p)).
Definition orb_out0_null (eta pie p w0 o0 : R) : R * R * R :=
  (0, red360 (w0 + orb_domega eta pie o0), o0).

Ltac orb0_setup J j0 j1 :=
  assert (Hi' : Rabs (0 - Rlit 0 (-1)) < tol0)
    by (replace (0 - Rlit 0 (-1)) with 0 by (Rlit_norm; lra); rewrite Rabs_R0; unfold tol0; Rlit_norm; lra);
  pose proof (eta_horner_eq J j0 j1) as EH;
  assert (L0 : Rlit 0 (-1) = 0) by (Rlit_norm; lra).

Ltac orb0_finish J j0 j1 T t :=
  replace ((j1 - j0) / Rlit 365250 (-1)) with t by (unfold t, cen; Rlit_norm; field);
  replace ((j0 - J) / Rlit 365250 (-1)) with T by (unfold T, cen; Rlit_norm; field);
  orb_polys T t;
  try replace (Rlit 1800 (-1)) with 180 by (Rlit_norm; lra);
  reflexivity.

Theorem orb_closed0_pos J j0 j1 w0 o0 : g_JDE2000 Rops = ep J ->
  let T := cen J j0 in let t := cen j0 j1 in
  0 < dms_sec (eta_as T t) ->
  let o := orb_out0_pos (eta_as T t) (pi_as T t) (p_as T t) w0 o0 in
  f_orbital_equinox2equinox Rops (ep j0) (ep j1) (ang 0) (ang w0) (ang o0)
  = VTuple [ang (fst (fst o)); ang (snd (fst o)); ang (snd o)].
Proof.
  intros HJ T t HE o. orb0_setup J j0 j1.
  assert (H1 : Rlit 0 (-1) < dms_sec (eta_horner ((j1 - j0) / Rlit 365250 (-1)) ((j0 - J) / Rlit 365250 (-1))))
    by (rewrite EH, L0; exact HE).
  pyrun5. orb0_finish J j0 j1 T t.
Qed.

Theorem orb_closed0_neg J j0 j1 w0 o0 : g_JDE2000 Rops = ep J ->
  let T := cen J j0 in let t := cen j0 j1 in
  dms_sec (eta_as T t) < 0 ->
  let o := orb_out0_neg (eta_as T t) (pi_as T t) (p_as T t) w0 o0 in
  f_orbital_equinox2equinox Rops (ep j0) (ep j1) (ang 0) (ang w0) (ang o0)
  = VTuple [ang (fst (fst o)); ang (snd (fst o)); ang (snd o)].
Proof.
  intros HJ T t HE o. orb0_setup J j0 j1. unfold T, t in HE.
  assert (H1 : dms_sec (eta_horner ((j1 - j0) / Rlit 365250 (-1)) ((j0 - J) / Rlit 365250 (-1))) <= Rlit 0 (-1))
    by (rewrite EH, L0; lra).
  assert (H2 : dms_sec (eta_horner ((j1 - j0) / Rlit 365250 (-1)) ((j0 - J) / Rlit 365250 (-1))) < Rlit 0 (-1))
    by (rewrite EH, L0; exact HE).
  pyrun5. orb0_finish J j0 j1 T t.
Qed.

Theorem orb_closed0_null J j0 j1 w0 o0 : g_JDE2000 Rops = ep J ->
  let T := cen J j0 in let t := cen j0 j1 in
  dms_sec (eta_as T t) = 0 ->
  let o := orb_out0_null (eta_as T t) (pi_as T t) (p_as T t) w0 o0 in
  f_orbital_equinox2equinox Rops (ep j0) (ep j1) (ang 0) (ang w0) (ang o0)
  = VTuple [ang (fst (fst o)); ang (snd (fst o)); ang (snd o)].
Proof.
  intros HJ T t HE o. orb0_setup J j0 j1. unfold T, t in HE.
  assert (H1 : dms_sec (eta_horner ((j1 - j0) / Rlit 365250 (-1)) ((j0 - J) / Rlit 365250 (-1))) <= Rlit 0 (-1))
    by (rewrite EH, L0; lra).
  assert (H2 : Rlit 0 (-1) <= dms_sec (eta_horner ((j1 - j0) / Rlit 365250 (-1)) ((j0 - J) / Rlit 365250 (-1))))
    by (rewrite EH, L0; lra).
  pyrun5. orb0_finish J j0 j1 T t.
Qed.

(* ------------------------------------------------------------------ *)
(** * the zero-inclination results are the right ORBIT: the frame Rz(node) Rx(i) Rz(arg) built from the
      returned elements is the ecliptical precession rotation applied to the frame of the input *)

Definition orbit_frame (i w node : R) (v : vec) : vec := Rz (d2r node) (Rx (d2r i) (Rz (d2r w) v)).

Lemma Rz_of_cos_sin a b v : cos a = cos b -> sin a = sin b -> Rz a v = Rz b v.
Proof. intros Hc Hs. destruct v as [[x y] z]. unfold Rz. rewrite Hc, Hs. reflexivity. Qed.

Lemma Rz_PI_Rx a v : Rz PI (Rx a (Rz PI v)) = Rx (- a) v.
Proof.
  destruct v as [[x y] z]. unfold Rz, Rx. rewrite cos_PI, sin_PI, cos_neg, sin_neg.
  apply vec_eq; ring.
Qed.

(* the increment of the argument of perihelion for i0 = 0: F + 180 deg when sin E > 0, F when sin E < 0 *)
Lemma domega_pos E F v : 0 < sin E ->
  Rz (atan2 (- sin E * sin F) (sin (d2r 0) * cos E - cos (d2r 0) * sin E * cos F)) v = Rz (F + PI) v.
Proof.
  intro Hs. rewrite d2r_0, sin_0, cos_0.
  replace (0 * cos E - 1 * sin E * cos F) with (sin E * (- cos F)) by ring.
  replace (- sin E * sin F) with (sin E * (- sin F)) by ring.
  rewrite atan2_scale by exact Hs.
  assert (Hr : rho (- cos F) (- sin F) = 1).
  { unfold rho. replace (- cos F * - cos F + - sin F * - sin F) with 1; [apply sqrt_1|].
    pose proof (sin2_eq F). lra. }
  apply Rz_of_cos_sin.
  - rewrite atan2_cos by (pose proof (sin2_eq F); destruct (Req_dec (cos F) 0); [right; nra | left; lra]).
    rewrite Hr, neg_cos. field.
  - rewrite atan2_sin by (pose proof (sin2_eq F); destruct (Req_dec (cos F) 0); [right; nra | left; lra]).
    rewrite Hr, neg_sin. field.
Qed.

Lemma domega_neg E F v : sin E < 0 ->
  Rz (atan2 (- sin E * sin F) (sin (d2r 0) * cos E - cos (d2r 0) * sin E * cos F)) v = Rz F v.
Proof.
  intro Hs. rewrite d2r_0, sin_0, cos_0.
  replace (0 * cos E - 1 * sin E * cos F) with (- sin E * cos F) by ring.
  rewrite atan2_scale by lra.
  assert (Hr : rho (cos F) (sin F) = 1).
  { unfold rho. replace (cos F * cos F + sin F * sin F) with 1; [apply sqrt_1|].
    pose proof (sin2_eq F). lra. }
  apply Rz_of_cos_sin.
  - rewrite atan2_cos by (pose proof (sin2_eq F); destruct (Req_dec (cos F) 0); [right; nra | left; lra]).
    rewrite Hr. field.
  - rewrite atan2_sin by (pose proof (sin2_eq F); destruct (Req_dec (cos F) 0); [right; nra | left; lra]).
    rewrite Hr. field.
Qed.

Lemma sin_d2r_pos x : 0 < x < 180 -> 0 < sin (d2r x).
Proof.
  intros [H1 H2]. apply sin_gt_0.
  - unfold d2r. pose proof PI_RGT_0. apply Rmult_lt_0_compat; [lra | apply Rdiv_lt_0_compat; lra].
  - replace PI with (d2r 180) by apply d2r_180. apply d2r_lt. exact H2.
Qed.

(* the stored argument, as a rotation: Rz (w0 + domega) *)
Lemma arg_rotation eta pie w0 o0 v :
  Rz (d2r (red360 (w0 + orb_domega eta pie o0))) v
  = Rz (d2r w0) (Rz (atan2 (- sin (d2r (dms_sec eta)) * sin (d2r o0 - d2r (pie_deg pie)))
                           (sin (d2r 0) * cos (d2r (dms_sec eta))
                            - cos (d2r 0) * sin (d2r (dms_sec eta)) * cos (d2r o0 - d2r (pie_deg pie)))) v).
Proof.
  unfold orb_domega. cbv zeta.
  set (A := atan2 _ _).
  rewrite (Rz_d2r_cong _ (w0 + r2d A)).
  - rewrite d2r_plus, d2r_r2d, Rz_add. reflexivity.
  - eapply cong360_trans; [apply red360_cong'|]. apply cong360_add; [apply cong360_refl | apply red360_cong'].
Qed.

Theorem orb0_pos_orientation eta pie p w0 o0 v : 0 < dms_sec eta < 180 ->
  let o := orb_out0_pos eta pie p w0 o0 in
  orbit_frame (fst (fst o)) (snd (fst o)) (snd o) v
  = rot_ecl (d2r (dms_sec eta)) (d2r (pie_deg pie)) (d2r (dms_sec p)) (orbit_frame 0 w0 o0 v).
Proof.
  intros HE o. unfold o, orb_out0_pos, orbit_frame. cbn [fst snd].
  set (E := d2r (dms_sec eta)). set (Pi := d2r (pie_deg pie)). set (P := d2r (dms_sec p)).
  rewrite arg_rotation. fold E Pi.
  rewrite (domega_pos E (d2r o0 - Pi)) by (apply sin_d2r_pos; exact HE).
  rewrite (Rz_d2r_cong _ ((pie_deg pie + dms_sec p) + 180))
    by (eapply cong360_trans; [apply red360_cong'|]; apply cong360_add; [apply red360_cong' | apply cong360_refl]).
  rewrite !d2r_plus, d2r_180. fold Pi P.
  unfold rot_ecl. rewrite d2r_0, Rx_0.
  rewrite <- (Rz_add (Pi + P) PI).
  rewrite (Rz_add (d2r w0) (d2r o0 - Pi + PI) v).
  replace (d2r w0 + (d2r o0 - Pi + PI)) with (PI + (d2r w0 + d2r o0 - Pi)) by ring.
  rewrite <- (Rz_add PI (d2r w0 + d2r o0 - Pi) v).
  rewrite Rz_PI_Rx.
  rewrite (Rz_add (d2r o0) (d2r w0) v), (Rz_add (- Pi) (d2r o0 + d2r w0) v).
  replace (Pi + P) with (P + Pi) by ring.
  replace (- Pi + (d2r o0 + d2r w0)) with (d2r w0 + d2r o0 - Pi) by ring.
  reflexivity.
Qed.

Theorem orb0_neg_orientation eta pie p w0 o0 v : -180 < dms_sec eta < 0 ->
  let o := orb_out0_neg eta pie p w0 o0 in
  orbit_frame (fst (fst o)) (snd (fst o)) (snd o) v
  = rot_ecl (d2r (dms_sec eta)) (d2r (pie_deg pie)) (d2r (dms_sec p)) (orbit_frame 0 w0 o0 v).
Proof.
  intros HE o. unfold o, orb_out0_neg, orbit_frame. cbn [fst snd].
  set (E := d2r (dms_sec eta)). set (Pi := d2r (pie_deg pie)). set (P := d2r (dms_sec p)).
  rewrite arg_rotation. fold E Pi.
  assert (Hs : sin E < 0).
  { unfold E. replace (dms_sec eta) with (- (- dms_sec eta)) by ring. rewrite d2r_opp, sin_neg.
    pose proof (sin_d2r_pos (- dms_sec eta) ltac:(lra)). lra. }
  rewrite (domega_neg E (d2r o0 - Pi)) by exact Hs.
  rewrite (Rz_d2r_cong _ (pie_deg pie + dms_sec p)) by apply red360_cong'.
  rewrite (Rx_d2r_cong _ (- dms_sec eta)) by apply red360_cong'.
  rewrite d2r_plus, d2r_opp. fold Pi P E.
  unfold rot_ecl. rewrite d2r_0, Rx_0.
  rewrite (Rz_add (d2r w0) (d2r o0 - Pi) v).
  rewrite (Rz_add (d2r o0) (d2r w0) v), (Rz_add (- Pi) (d2r o0 + d2r w0) v).
  replace (Pi + P) with (P + Pi) by ring.
  replace (- Pi + (d2r o0 + d2r w0)) with (d2r w0 + (d2r o0 - Pi)) by ring.
  reflexivity.
Qed.
