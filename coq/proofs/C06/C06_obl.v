(* C06_obl: closed form of mean_obliquity (Laskar's polynomial) in the ideal instance *)
From Coq Require Import Reals ZArith List Bool Lra Lia String.
From PyLib Require Import PyVal PyBuiltins Ideal IdealFacts Whnf PyEval Sphere.
From Spec Require Import AngleSpec Precession.
From Gen Require Import M_base M_Angle M_Epoch M_Coordinates.
From Proofs.C06 Require Import C06_angle C06_tac.
Import ListNotations.
Open Scope R_scope.

From Ltac2 Require Ltac2.
Ltac2 Set Whnf.is_blocked := fun c =>
  Ltac2.List.exist (Ltac2.Constr.equal c)
    ['@bind; 'Rltb; 'Rleb; 'Reqb; 'Rfloor; 'Rtrunc; 'Rround; 'is_int; 'Rfmod; 'Rround_nd;
     'Rlit; 'atan2; 'Rpow; 'pow10; 'Rabs; 'sqrt; 'sin; 'cos; 'tan; 'asin; 'acos; 'atan;
     'exp; 'ln; 'Rpower; 'powerRZ; 'IZR; 'PI;
     '@Angle_reduce_deg; '@fmod_py].

Lemma Angle_eps0 :
  Angle___init__ Rops blankA (VTuple [VInt 23; VInt 26; VFloat (Rlit 21448 (-3))]) (VDict [])
  = ang eps0_deg.
Proof.
  assert (H : Rabs (Rlit 21448 (-3)) = Rlit 21448 (-3)) by (apply Rabs_right; Rlit_norm; lra).
  pyrunH_using ltac:(hook1 dec1) dec1.
  rewrite H. change (Z.abs 23 mod 360)%Z with 23%Z. change (Z.abs 26) with 26%Z.
  rewrite red360_small.
  - unfold ang, tol0, eps0_deg. do 3 f_equal. Rlit_norm. dec_norm. lra.
  - Rlit_norm. rewrite Rabs_right; lra.
Qed.

Ltac2 Set Whnf.is_blocked := fun c =>
  Ltac2.List.exist (Ltac2.Constr.equal c)
    ['@bind; 'Rltb; 'Rleb; 'Reqb; 'Rfloor; 'Rtrunc; 'Rround; 'is_int; 'Rfmod; 'Rround_nd;
     'Rlit; 'atan2; 'Rpow; 'pow10; 'Rabs; 'sqrt; 'sin; 'cos; 'tan; 'asin; 'acos; 'atan;
     'exp; 'ln; 'Rpower; 'powerRZ; 'IZR; 'PI;
     '@Angle_reduce_deg; '@fmod_py; '@Angle_dms2deg; '@Angle___init__; '@g_JDE2000].

Ltac hook4 tac s :=
  lazymatch s with
  | Angle___init__ _ _ (VTuple [VInt 23; VInt 26; VFloat (Rlit 21448 (-3))]) (VDict []) =>
      fold blankA; rewrite Angle_eps0
  | _ => hook2 tac s
  end.
Ltac pyrun4 := pyrunH_using ltac:(hook4 dec2) dec2.

Theorem obl_closed j :
  f_mean_obliquity Rops (VTuple [ep j]) (VDict []) = ang (obl_out ((j - J2000) / 3652500)).
Proof.
  pyrun4.
  set (u := (j - J2000) / 3652500).
  replace ((j - Rlit 24515450 (-1)) / Rlit 36525000 (-1)) with u
    by (unfold u, J2000; Rlit_norm; field).
  match goal with |- context [dms_sec ?e] =>
    replace e with (obl_as u) by (unfold obl_as; Rlit_norm; dec_norm; field) end.
  reflexivity.
Qed.
