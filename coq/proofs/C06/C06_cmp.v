(* C06_cmp: the FK4 (Newcomb) routine against the FK5 one on the generated code (ideal instance) *)
From Coq Require Import Reals ZArith List Bool Lra Lia String.
From PyLib Require Import PyVal PyBuiltins Ideal IdealFacts PyEval Sphere.
From Spec Require Import AngleSpec Precession PrecessionBack PrecessionCompare.
From Gen Require Import M_base M_Angle M_Epoch M_Coordinates.
From Proofs.C06 Require Import C06_angle C06_main C06_back.
Import ListNotations.
Open Scope R_scope.

(* both epochs between 1 Jan 1800 (JDE 2378496.5) and 1 Jan 2100 (JDE 2488071.5), no proper motion:
   precession_newcomb and precession_equatorial return directions within a chord of 2.3e-5
   (0.00132 degree), hence within 0.0014 degree and a fortiori within the property's 0.005 degree,
   at every declination.  Sum of the three angle differences (|dzeta| <= 1.6'', |dz| <= 1.7'',
   |dtheta| <= 1.4'', written as polynomials with small coefficients and bounded by interval). *)
Theorem newcomb_vs_fk5 j0 j1 a0 d0 :
  2378496.5 <= j0 <= 2488071.5 -> 2378496.5 <= j1 <= 2488071.5 ->
  exists ra5 dec5 ra4 dec4,
    f_precession_equatorial Rops (ep j0) (ep j1) (ang a0) (ang d0) (ang 0) (ang 0)
    = VTuple [ang ra5; ang dec5] /\
    f_precession_newcomb Rops (ep j0) (ep j1) (ang a0) (ang d0) (ang 0) (ang 0)
    = VTuple [ang ra4; ang dec4] /\
    chord (uvec (d2r ra5) (d2r dec5)) (uvec (d2r ra4) (d2r dec4)) <= 23 / 1000000 /\
    cos (d2r (14 / 10000)) <= dot (uvec (d2r ra5) (d2r dec5)) (uvec (d2r ra4) (d2r dec4)) /\
    cos (d2r (5 / 1000)) <= dot (uvec (d2r ra5) (d2r dec5)) (uvec (d2r ra4) (d2r dec4)).
Proof.
  intros H0 H1.
  destruct (equ_rotation_thm j0 j1 a0 d0 0 0) as (ra5 & dec5 & E5 & _ & _ & V5).
  destruct (newcomb_rotation_thm j0 j1 a0 d0 0 0) as (ra4 & dec4 & E4 & _ & _ & V4).
  exists ra5, dec5, ra4, dec4. split; [exact E5|]. split; [exact E4|].
  assert (Hc : chord (uvec (d2r ra5) (d2r dec5)) (uvec (d2r ra4) (d2r dec4)) <= 23 / 1000000).
  { rewrite V5, V4, !star_nopm. unfold fk5_rot, fk4_rot.
    pose proof (newcomb_vs_fk5_chord j0 j1 (uvec (d2r a0) (d2r d0)) H0 H1) as Hb. cbv zeta in Hb.
    unfold vnorm in Hb. rewrite uvec_norm, sqrt_1, Rmult_1_r in Hb. exact Hb. }
  split; [exact Hc|].
  apply chord_23e6_angle; [apply uvec_norm | apply uvec_norm | exact Hc].
Qed.
