(* Property C06 -- Precession is a rigid, invertible rotation, consistent across routes.
   This file holds only the statements; proofs are in C06_main.v (and the files it
   imports).  The model (f_precession_equatorial, ... = the generated Coordinates
   functions, ideal real-number instance Rops) is regenerated from /repo on every run.

   Notation: ep j = Epoch object with JDE j; ang d = Angle object storing d degrees;
   uvec lon lat = unit vector; d2r = degrees to radians; star a d ma md t = direction
   (a + 100 ma t, d + 100 md t) degrees, i.e. the start position moved by the proper
   motion (degrees/year) over t centuries; fk5_rot j0 j1 = Rz(z) . Ry(-theta) . Rz(zeta)
   with the IAU-1976 polynomials zeta_as, z_as, theta_as (arcseconds) in
   T = (j0 - 2451545)/36525 and t = (j1 - j0)/36525;  fk4_rot the same with Newcomb's
   polynomials and tropical centuries from B1900.0;  ecl_rot = Rz(p + Pi) . Rx(-eta) . Rz(-Pi). *)
From Coq Require Import Reals ZArith List Bool String.
From PyLib Require Import PyVal PyBuiltins Ideal Sphere.
#[local] Set Warnings "-ambiguous-paths".
From Coquelicot Require Import Coquelicot.
From Spec Require Import AngleSpec Precession PrecessionBack PrecessionCompare PrecessionRoute.
From Gen Require Import M_base M_Angle M_Epoch M_Coordinates.
From Proofs.C06 Require Import C06_angle C06_jde C06_equ C06_aux C06_orb C06_main C06_back C06_cmp C06_route.
Import ListNotations.
Open Scope R_scope.

(* exact closed form of what precession_equatorial returns, for all real inputs: pins every
   constant and sign of the code (equ_out, pm_start, zeta_as ... are in Spec/Precession.v) *)
Theorem C06_equ_closed_form : forall j0 j1 a0 d0 ma md,
  let T := cen J2000 j0 in let t := cen j0 j1 in
  let o := equ_out (zeta_as T t) (z_as T t) (theta_as T t) (pm_start a0 ma t) (pm_start d0 md t) in
  f_precession_equatorial Rops (ep j0) (ep j1) (ang a0) (ang d0) (ang ma) (ang md)
  = VTuple [ang (fst o); ang (snd o)].
Proof. exact equ_exact. Qed.

(* ... and on the sphere it is the rotation fk5_rot applied to the proper-motion-corrected
   start direction, for EVERY declination (poles included), every pair of epochs *)
Theorem C06_equ_rotation : forall j0 j1 a0 d0 ma md,
  exists ra dec,
    f_precession_equatorial Rops (ep j0) (ep j1) (ang a0) (ang d0) (ang ma) (ang md)
    = VTuple [ang ra; ang dec]
    /\ -360 < ra < 360 /\ -360 < dec < 360
    /\ uvec (d2r ra) (d2r dec) = fk5_rot j0 j1 (star a0 d0 ma md (cen j0 j1)).
Proof. exact equ_rotation_thm. Qed.

(* zero interval = identity on the direction *)
Theorem C06_equ_identity : forall j a0 d0 ma md,
  exists ra dec,
    f_precession_equatorial Rops (ep j) (ep j) (ang a0) (ang d0) (ang ma) (ang md)
    = VTuple [ang ra; ang dec]
    /\ uvec (d2r ra) (d2r dec) = uvec (d2r a0) (d2r d0).
Proof. exact equ_identity. Qed.

(* rigid: the dot product (hence the angle) between two stars is preserved exactly *)
Theorem C06_equ_isometry : forall j0 j1 a1 d1 ma1 md1 a2 d2 ma2 md2,
  exists ra1 dec1 ra2 dec2,
    f_precession_equatorial Rops (ep j0) (ep j1) (ang a1) (ang d1) (ang ma1) (ang md1)
    = VTuple [ang ra1; ang dec1] /\
    f_precession_equatorial Rops (ep j0) (ep j1) (ang a2) (ang d2) (ang ma2) (ang md2)
    = VTuple [ang ra2; ang dec2] /\
    dot (uvec (d2r ra1) (d2r dec1)) (uvec (d2r ra2) (d2r dec2))
    = dot (star a1 d1 ma1 md1 (cen j0 j1)) (star a2 d2 ma2 md2 (cen j0 j1)).
Proof. exact equ_isometry. Qed.

(* the rotation is invertible and unit vectors stay unit vectors; the intermediate (B, A, C) of
   the formulas is a unit vector at every declination *)
Theorem C06_rotation_facts :
  (forall j0 j1, exists g, forall v, g (fk5_rot j0 j1 v) = v) /\
  (forall j0 j1 u v, dot (fk5_rot j0 j1 u) (fk5_rot j0 j1 v) = dot u v) /\
  (forall j0 j1 u v, dot (fk4_rot j0 j1 u) (fk4_rot j0 j1 v) = dot u v) /\
  (forall j0 j1 u v, dot (ecl_rot j0 j1 u) (ecl_rot j0 j1 v) = dot u v) /\
  (forall a0 d0 ze th,
     eqA a0 d0 ze * eqA a0 d0 ze + eqB a0 d0 ze th * eqB a0 d0 ze th
     + eqC a0 d0 ze th * eqC a0 d0 ze th = 1).
Proof.
  exact (conj fk5_rot_invertible (conj fk5_rot_dot (conj fk4_rot_dot (conj ecl_rot_dot equ_unit_vector)))).
Qed.

(* precession_ecliptical: closed form, rotation, identity, isometry *)
Theorem C06_ecl_closed_form : forall j0 j1 l0 b0 ml mb,
  let T := cen J2000 j0 in let t := cen j0 j1 in
  let o := ecl_out (eta_as T t) (pi_as T t) (p_as T t) (pm_start l0 ml t) (pm_start b0 mb t) in
  f_precession_ecliptical Rops (ep j0) (ep j1) (ang l0) (ang b0) (ang ml) (ang mb)
  = VTuple [ang (fst o); ang (snd o)].
Proof. exact ecl_exact. Qed.

Theorem C06_ecl_rotation : forall j0 j1 l0 b0 ml mb,
  exists lon lat,
    f_precession_ecliptical Rops (ep j0) (ep j1) (ang l0) (ang b0) (ang ml) (ang mb)
    = VTuple [ang lon; ang lat]
    /\ -360 < lon < 360 /\ -360 < lat < 360
    /\ uvec (d2r lon) (d2r lat) = ecl_rot j0 j1 (star l0 b0 ml mb (cen j0 j1)).
Proof. exact ecl_rotation_thm. Qed.

Theorem C06_ecl_identity : forall j l0 b0 ml mb,
  exists lon lat,
    f_precession_ecliptical Rops (ep j) (ep j) (ang l0) (ang b0) (ang ml) (ang mb)
    = VTuple [ang lon; ang lat]
    /\ uvec (d2r lon) (d2r lat) = uvec (d2r l0) (d2r b0).
Proof. exact ecl_identity. Qed.

Theorem C06_ecl_isometry : forall j0 j1 l1 b1 ml1 mb1 l2 b2 ml2 mb2,
  exists lo1 la1 lo2 la2,
    f_precession_ecliptical Rops (ep j0) (ep j1) (ang l1) (ang b1) (ang ml1) (ang mb1)
    = VTuple [ang lo1; ang la1] /\
    f_precession_ecliptical Rops (ep j0) (ep j1) (ang l2) (ang b2) (ang ml2) (ang mb2)
    = VTuple [ang lo2; ang la2] /\
    dot (uvec (d2r lo1) (d2r la1)) (uvec (d2r lo2) (d2r la2))
    = dot (star l1 b1 ml1 mb1 (cen j0 j1)) (star l2 b2 ml2 mb2 (cen j0 j1)).
Proof. exact ecl_isometry. Qed.

(* precession_newcomb (FK4): the same rotation type with Newcomb's polynomials; total *)
Theorem C06_newcomb_closed_form : forall j0 j1 a0 d0 ma md,
  let T := tropcen B1900 j0 in let t := tropcen j0 j1 in
  let o := equ_out (nzeta_as T t) (nz_as T t) (ntheta_as T t) (pm_start a0 ma t) (pm_start d0 md t) in
  f_precession_newcomb Rops (ep j0) (ep j1) (ang a0) (ang d0) (ang ma) (ang md)
  = VTuple [ang (fst o); ang (snd o)].
Proof. exact newcomb_closed. Qed.

Theorem C06_newcomb_rotation : forall j0 j1 a0 d0 ma md,
  exists ra dec,
    f_precession_newcomb Rops (ep j0) (ep j1) (ang a0) (ang d0) (ang ma) (ang md)
    = VTuple [ang ra; ang dec]
    /\ -360 < ra < 360 /\ -360 < dec < 360
    /\ uvec (d2r ra) (d2r dec) = fk4_rot j0 j1 (star a0 d0 ma md (tropcen j0 j1)).
Proof. exact newcomb_rotation_thm. Qed.

Theorem C06_newcomb_identity : forall j a0 d0 ma md,
  exists ra dec,
    f_precession_newcomb Rops (ep j) (ep j) (ang a0) (ang d0) (ang ma) (ang md)
    = VTuple [ang ra; ang dec]
    /\ uvec (d2r ra) (d2r dec) = uvec (d2r a0) (d2r d0).
Proof. exact newcomb_identity. Qed.

(* mean_obliquity is 23d 26m 21.448s + Laskar's degree-10 polynomial (arcseconds) in
   u = (JDE - 2451545)/3652500, stored reduced to (-360, 360) *)
Theorem C06_obliquity : forall j,
  exists e, f_mean_obliquity Rops (VTuple [ep j]) (VDict []) = ang e
    /\ -360 < e < 360
    /\ cong360 e (eps0_deg + obl_as ((j - J2000) / 3652500) / 3600).
Proof. exact obliquity_thm. Qed.

(* p_motion_equa2eclip: Meeus' proper-motion conversion, exact closed form (cos lat <> 0) *)
Theorem C06_p_motion_closed_form : forall ma md ra dec lat eps,
  cos (d2r lat) <> 0 ->
  let pa := d2r ma in let pd := d2r md in
  let se := sin (d2r eps) in let ce := cos (d2r eps) in
  let sa := sin (d2r ra) in let ca := cos (d2r ra) in
  let sd := sin (d2r dec) in let cd := cos (d2r dec) in
  let cl := cos (d2r lat) in
  f_p_motion_equa2eclip Rops (ang ma) (ang md) (ang ra) (ang dec) (ang lat) (ang eps)
  = VTuple [VFloat ((pd * (se * ca) + pa * cd * (ce * cd + se * sd * sa)) / (cl * cl));
            VFloat ((pd * (ce * cd + se * sd * sa) - pa * cd * (se * ca)) / cl)].
Proof. exact pm_equa2eclip_closed. Qed.

(* motion_in_space: position + time * velocity in rectangular coordinates, back to spherical *)
Theorem C06_motion_in_space_closed_form : forall ra dec dist vel ma md tm,
  let a := d2r ra in let d := d2r dec in
  let dr := vel / Rlit 9777920 (-1) in
  let x := dist * cos d * cos a in let y := dist * cos d * sin a in let z := dist * sin d in
  let dx := x / dist * dr - z * d2r md * cos a - y * d2r ma in
  let dy := y / dist * dr - z * d2r md * sin a + x * d2r ma in
  let dz := z / dist * dr + dist * d2r md * cos d in
  let xp := x + tm * dx in let yp := y + tm * dy in let zp := z + tm * dz in
  dist <> 0 -> sqrt (xp * xp + yp * yp) <> 0 ->
  f_motion_in_space Rops (ang ra) (ang dec) (VFloat dist) (VFloat vel) (ang ma) (ang md) (VFloat tm)
  = VTuple [ang (red360 (r2d (atan2 yp xp))); ang (red360 (r2d (atan (zp / sqrt (xp * xp + yp * yp)))))].
Proof. exact motion_in_space_closed. Qed.

(* orbital_equinox2equinox, general branch -- every inclination whose magnitude is at least the Angle
   tolerance tol0 = 1e-10 degree, retrograde orbits included: exact closed form (orb_out in C06_orb.v,
   inclination by atan2(sqrt(A^2+B^2), C) in 0..180) *)
Theorem C06_orbital_closed_form : forall j0 j1 i0 w0 o0, tol0 <= Rabs i0 ->
  let T := cen J2000 j0 in let t := cen j0 j1 in
  let o := orb_out (eta_as T t) (pi_as T t) (p_as T t) i0 w0 o0 in
  f_orbital_equinox2equinox Rops (ep j0) (ep j1) (ang i0) (ang w0) (ang o0)
  = VTuple [ang (fst (fst o)); ang (snd (fst o)); ang (snd o)].
Proof. exact (fun j0 j1 i0 w0 o0 => orb_closed J2000 j0 j1 i0 w0 o0 jde2000_eq). Qed.

(* ... and the zero-inclination branch, by the sign of the stored eta (E = dms_sec (eta_as T t)):
   forward interval: i = eta, node = Pi + p + 180 (Meeus); backward: i = -eta, node = Pi + p;
   null rotation: the input orientation (orb_out0_pos / _neg / _null in C06_orb.v) *)
Theorem C06_orbital_zero_branch : forall j0 j1 w0 o0,
  let T := cen J2000 j0 in let t := cen j0 j1 in
  (0 < dms_sec (eta_as T t) ->
     let o := orb_out0_pos (eta_as T t) (pi_as T t) (p_as T t) w0 o0 in
     f_orbital_equinox2equinox Rops (ep j0) (ep j1) (ang 0) (ang w0) (ang o0)
     = VTuple [ang (fst (fst o)); ang (snd (fst o)); ang (snd o)]) /\
  (dms_sec (eta_as T t) < 0 ->
     let o := orb_out0_neg (eta_as T t) (pi_as T t) (p_as T t) w0 o0 in
     f_orbital_equinox2equinox Rops (ep j0) (ep j1) (ang 0) (ang w0) (ang o0)
     = VTuple [ang (fst (fst o)); ang (snd (fst o)); ang (snd o)]) /\
  (dms_sec (eta_as T t) = 0 ->
     let o := orb_out0_null (eta_as T t) (pi_as T t) (p_as T t) w0 o0 in
     f_orbital_equinox2equinox Rops (ep j0) (ep j1) (ang 0) (ang w0) (ang o0)
     = VTuple [ang (fst (fst o)); ang (snd (fst o)); ang (snd o)]).
Proof.
  exact (fun j0 j1 w0 o0 => conj (orb_closed0_pos J2000 j0 j1 w0 o0 jde2000_eq)
                           (conj (orb_closed0_neg J2000 j0 j1 w0 o0 jde2000_eq)
                                 (orb_closed0_null J2000 j0 j1 w0 o0 jde2000_eq))).
Qed.


(* there and back (no proper motion).  Equatorial: EXACTLY the starting direction, for all epochs and
   every declination -- the IAU 1976 polynomials of the reverse trip, zeta(T+t,-t), z(T+t,-t),
   theta(T+t,-t), are the exact negatives -z(T,t), -zeta(T,t), -theta(T,t) (PrecessionBack.v), so the
   property's 1e-9 degree is a pure rounding budget in binary64 *)
Theorem C06_equ_there_and_back : forall j0 j1 a0 d0,
  exists ra1 dec1 ra2 dec2,
    f_precession_equatorial Rops (ep j0) (ep j1) (ang a0) (ang d0) (ang 0) (ang 0)
    = VTuple [ang ra1; ang dec1] /\
    f_precession_equatorial Rops (ep j1) (ep j0) (ang ra1) (ang dec1) (ang 0) (ang 0)
    = VTuple [ang ra2; ang dec2] /\
    uvec (d2r ra2) (d2r dec2) = uvec (d2r a0) (d2r d0).
Proof. exact equ_there_and_back. Qed.

(* Ecliptical, both epochs within 5 centuries of J2000: the returned direction is within a chord of
   6e-9 (= 3.44e-7 degree) of the start, hence within 1e-6 degree (cos(1e-6 deg) <= dot product), at
   every latitude.  Here the reverse-trip polynomials are NOT exact inverses (eta'+eta = -0.00001 t^2,
   Pi'-Pi-p = 0.0001 t + 0.000042 T^2 t + 0.000042 T t^2 + 0.000006 t^3 arcsec); the bound is
   2 |eta'| |Pi'-Pi-p| + |eta'+eta| (commutator of rotations about z and x; chord <= arc). *)
Theorem C06_ecl_there_and_back : forall j0 j1 l0 b0,
  -5 <= cen J2000 j0 <= 5 -> -5 <= cen J2000 j1 <= 5 ->
  exists lon1 lat1 lon2 lat2,
    f_precession_ecliptical Rops (ep j0) (ep j1) (ang l0) (ang b0) (ang 0) (ang 0)
    = VTuple [ang lon1; ang lat1] /\
    f_precession_ecliptical Rops (ep j1) (ep j0) (ang lon1) (ang lat1) (ang 0) (ang 0)
    = VTuple [ang lon2; ang lat2] /\
    chord (uvec (d2r lon2) (d2r lat2)) (uvec (d2r l0) (d2r b0)) <= 6 / 1000000000 /\
    cos (d2r (1 / 1000000)) <= dot (uvec (d2r lon2) (d2r lat2)) (uvec (d2r l0) (d2r b0)).
Proof. exact ecl_there_and_back. Qed.

(* Newcomb (FK4) against FK5, both epochs between 1 Jan 1800 (JDE 2378496.5) and 1 Jan 2100
   (JDE 2488071.5), no proper motion, every declination: the two routines return directions within a
   chord of 2.3e-5 (0.00132 degree), hence within 0.0014 degree and within the property's 0.005 degree.
   (Sum of the three angle differences, |dzeta| <= 1.6'', |dz| <= 1.7'', |dtheta| <= 1.4'': polynomials
   with small coefficients once Newcomb's tropical centuries from B1900 are expressed in T, t.) *)
Theorem C06_newcomb_vs_fk5 : forall j0 j1 a0 d0,
  2378496.5 <= j0 <= 2488071.5 -> 2378496.5 <= j1 <= 2488071.5 ->
  exists ra5 dec5 ra4 dec4,
    f_precession_equatorial Rops (ep j0) (ep j1) (ang a0) (ang d0) (ang 0) (ang 0)
    = VTuple [ang ra5; ang dec5] /\
    f_precession_newcomb Rops (ep j0) (ep j1) (ang a0) (ang d0) (ang 0) (ang 0)
    = VTuple [ang ra4; ang dec4] /\
    chord (uvec (d2r ra5) (d2r dec5)) (uvec (d2r ra4) (d2r dec4)) <= 23 / 1000000 /\
    cos (d2r (14 / 10000)) <= dot (uvec (d2r ra5) (d2r dec5)) (uvec (d2r ra4) (d2r dec4)) /\
    cos (d2r (5 / 1000)) <= dot (uvec (d2r ra5) (d2r dec5)) (uvec (d2r ra4) (d2r dec4)).
Proof. exact newcomb_vs_fk5. Qed.

(* Equatorial route vs ecliptical route through the mean obliquity of each epoch -- FIRST ORDER only.
   R(T,t) = Rz(z) Ry(-theta) Rz(zeta) and E(T,t) = Rx(eps(T+t)) Rz(p+Pi) Rx(-eta) Rz(-Pi) Rx(-eps(T)) are
   both the identity at t = 0 (all five angles vanish); with x1 the rate of x at t = 0 their angular
   velocities there are w_R = (0, -theta1, 2 zeta1) and
   w_E = (eps' - eta1 cos Pi0, -p1 sin eps - eta1 sin Pi0 cos eps, p1 cos eps - eta1 sin Pi0 sin eps);
   the three components agree within 0.025, 0.010, 0.005 arcsec/century for |T| <= 5 centuries on the
   polynomials of the regenerated model (those of C06_equ/ecl_closed_form and C06_obliquity).
   The finite-interval 1e-4 degree statement is not proved (see CLAUSES). *)
Theorem C06_route_first_order :
  (forall T, zeta_as T 0 = 0 /\ z_as T 0 = 0 /\ theta_as T 0 = 0 /\ eta_as T 0 = 0 /\ p_as T 0 = 0) /\
  (forall T, is_derive (fun t => zeta_as T t) 0 (zeta1 T) /\ is_derive (fun t => z_as T t) 0 (zeta1 T) /\
             is_derive (fun t => theta_as T t) 0 (theta1 T) /\ is_derive (fun t => eta_as T t) 0 (eta1 T) /\
             is_derive (fun t => p_as T t) 0 (p1 T) /\ pi_as T 0 / 3600 + pi0_deg = Pi0_deg T /\
             is_derive (fun T => obl_as (T / 100)) T (eps_rate T)) /\
  (forall T, -5 <= T <= 5 ->
     Rabs (eps_rate T - eta1 T * cos (d2r (Pi0_deg T))) <= 25 / 1000 /\
     Rabs (theta1 T - (p1 T * sin (d2r (eps_deg T)) + eta1 T * sin (d2r (Pi0_deg T)) * cos (d2r (eps_deg T))))
       <= 10 / 1000 /\
     Rabs (2 * zeta1 T - (p1 T * cos (d2r (eps_deg T)) - eta1 T * sin (d2r (Pi0_deg T)) * sin (d2r (eps_deg T))))
       <= 5 / 1000).
Proof.
  split; [exact zero_interval_angles|]. split.
  - intro T. exact (conj (zeta_rate T) (conj (z_rate T) (conj (theta_rate T) (conj (eta_rate T)
             (conj (p_rate T) (conj (Pi_at_0 T) (obl_rate T))))))).
  - exact route_first_order.
Qed.

(* ... and for FINITE intervals with one end at J2000 (the other epoch within 5 centuries): with
   R_route T t = Rz(z) Ry(-theta) Rz(zeta) (what precession_equatorial does, C06_equ_rotation) and
   E_route T t = Rx(eps(T+t)) . [Rz(p+Pi) Rx(-eta) Rz(-Pi)] . Rx(-eps(T)) (precession_ecliptical between the
   conversions Rx(-/+ eps) of property C05, eps = what mean_obliquity returns, C06_obliquity), for every
   unit vector the two images are within a chord of 8.5e-7 = 4.9e-5 degree, hence within 1e-4 degree.
   (Composition of the proved rotation forms; the generated conversion calls themselves are C05's.) *)
Theorem C06_route_J2000 : forall x v, -5 <= x <= 5 -> dot v v = 1 ->
  (chord (E_route 0 x v) (R_route 0 x v) <= 85 / 100000000 /\
   cos (d2r (1 / 10000)) <= dot (E_route 0 x v) (R_route 0 x v)) /\
  (chord (E_route x (- x) v) (R_route x (- x) v) <= 85 / 100000000 /\
   cos (d2r (1 / 10000)) <= dot (E_route x (- x) v) (R_route x (- x) v)).
Proof. exact route_J2000. Qed.

(* ... and these zero-inclination results are the right ORBIT: the frame Rz(node) Rx(i) Rz(arg) built from
   the returned elements equals the ecliptical precession rotation (the one precession_ecliptical applies,
   C06_ecl_rotation) applied to the frame of the input elements -- orbit pole and perihelion direction are
   carried exactly; the stored eta strictly between 0 and 180 deg (forward) or -180 and 0 (backward) *)
Theorem C06_orbital_zero_orientation : forall eta pie p w0 o0 v,
  (0 < dms_sec eta < 180 ->
     let o := orb_out0_pos eta pie p w0 o0 in
     orbit_frame (fst (fst o)) (snd (fst o)) (snd o) v
     = rot_ecl (d2r (dms_sec eta)) (d2r (pie_deg pie)) (d2r (dms_sec p)) (orbit_frame 0 w0 o0 v)) /\
  (-180 < dms_sec eta < 0 ->
     let o := orb_out0_neg eta pie p w0 o0 in
     orbit_frame (fst (fst o)) (snd (fst o)) (snd o) v
     = rot_ecl (d2r (dms_sec eta)) (d2r (pie_deg pie)) (d2r (dms_sec p)) (orbit_frame 0 w0 o0 v)).
Proof.
  exact (fun eta pie p w0 o0 v => conj (orb0_pos_orientation eta pie p w0 o0 v) (orb0_neg_orientation eta pie p w0 o0 v)).
Qed.

Redirect "C06_equ_closed_form.assumptions" Print Assumptions C06_equ_closed_form.
Redirect "C06_equ_rotation.assumptions" Print Assumptions C06_equ_rotation.
Redirect "C06_equ_identity.assumptions" Print Assumptions C06_equ_identity.
Redirect "C06_equ_isometry.assumptions" Print Assumptions C06_equ_isometry.
Redirect "C06_rotation_facts.assumptions" Print Assumptions C06_rotation_facts.
Redirect "C06_ecl_closed_form.assumptions" Print Assumptions C06_ecl_closed_form.
Redirect "C06_ecl_rotation.assumptions" Print Assumptions C06_ecl_rotation.
Redirect "C06_ecl_identity.assumptions" Print Assumptions C06_ecl_identity.
Redirect "C06_ecl_isometry.assumptions" Print Assumptions C06_ecl_isometry.
Redirect "C06_newcomb_closed_form.assumptions" Print Assumptions C06_newcomb_closed_form.
Redirect "C06_newcomb_rotation.assumptions" Print Assumptions C06_newcomb_rotation.
Redirect "C06_newcomb_identity.assumptions" Print Assumptions C06_newcomb_identity.
Redirect "C06_obliquity.assumptions" Print Assumptions C06_obliquity.
Redirect "C06_p_motion_closed_form.assumptions" Print Assumptions C06_p_motion_closed_form.
Redirect "C06_motion_in_space_closed_form.assumptions" Print Assumptions C06_motion_in_space_closed_form.
Redirect "C06_orbital_closed_form.assumptions" Print Assumptions C06_orbital_closed_form.
Redirect "C06_orbital_zero_branch.assumptions" Print Assumptions C06_orbital_zero_branch.
Redirect "C06_equ_there_and_back.assumptions" Print Assumptions C06_equ_there_and_back.
Redirect "C06_ecl_there_and_back.assumptions" Print Assumptions C06_ecl_there_and_back.
Redirect "C06_newcomb_vs_fk5.assumptions" Print Assumptions C06_newcomb_vs_fk5.
Redirect "C06_route_first_order.assumptions" Print Assumptions C06_route_first_order.
Redirect "C06_route_J2000.assumptions" Print Assumptions C06_route_J2000.
Redirect "C06_orbital_zero_orientation.assumptions" Print Assumptions C06_orbital_zero_orientation.
