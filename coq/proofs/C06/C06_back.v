(* C06_back: going there and back with the generated routines (ideal instance) *)
From Coq Require Import Reals ZArith List Bool Lra Lia String.
From PyLib Require Import PyVal PyBuiltins Ideal IdealFacts PyEval Sphere.
From Spec Require Import AngleSpec Precession PrecessionBack.
From Gen Require Import M_base M_Angle M_Epoch M_Coordinates.
From Proofs.C06 Require Import C06_angle C06_main.
Import ListNotations.
Open Scope R_scope.

Lemma star_nopm x y t : star x y 0 0 t = uvec (d2r x) (d2r y).
Proof. unfold star. f_equal; f_equal; ring. Qed.

(* precession_equatorial from j0 to j1 and back from j1 to j0 (no proper motion) returns EXACTLY
   the starting direction, for all epochs and every declination: the three polynomials of the
   reverse trip are the exact negatives (in swapped roles) of those of the forward trip *)
Theorem equ_there_and_back j0 j1 a0 d0 :
  exists ra1 dec1 ra2 dec2,
    f_precession_equatorial Rops (ep j0) (ep j1) (ang a0) (ang d0) (ang 0) (ang 0)
    = VTuple [ang ra1; ang dec1] /\
    f_precession_equatorial Rops (ep j1) (ep j0) (ang ra1) (ang dec1) (ang 0) (ang 0)
    = VTuple [ang ra2; ang dec2] /\
    uvec (d2r ra2) (d2r dec2) = uvec (d2r a0) (d2r d0).
Proof.
  destruct (equ_rotation_thm j0 j1 a0 d0 0 0) as (ra1 & dec1 & H1 & _ & _ & V1).
  destruct (equ_rotation_thm j1 j0 ra1 dec1 0 0) as (ra2 & dec2 & H2 & _ & _ & V2).
  exists ra1, dec1, ra2, dec2. split; [exact H1|]. split; [exact H2|].
  rewrite V2, star_nopm, V1, star_nopm. unfold fk5_rot. apply rot_equ_there_and_back.
Qed.
