(* C06_back: going there and back with the generated routines (ideal instance) *)
From Coq Require Import Reals ZArith List Bool Lra Lia String.
From PyLib Require Import PyVal PyBuiltins Ideal IdealFacts PyEval Sphere.
From Spec Require Import AngleSpec Precession PrecessionBack.
From Gen Require Import M_base M_Angle M_Epoch M_Coordinates.
From Proofs.C06 Require Import C06_angle C06_main.
Import ListNotations.
Open Scope R_scope.

Lemma star_nopm x y t : star x y 0 0 t = uvec (d2r x) (d2r y).
Proof. unfold star. f_equal; f_equal; ring. Qed.

(* precession_equatorial from j0 to j1 and back from j1 to j0 (no proper motion) returns EXACTLY
   the starting direction, for all epochs and every declination: the three polynomials of the
   reverse trip are the exact negatives (in swapped roles) of those of the forward trip *)
Theorem equ_there_and_back j0 j1 a0 d0 :
  exists ra1 dec1 ra2 dec2,
    f_precession_equatorial Rops (ep j0) (ep j1) (ang a0) (ang d0) (ang 0) (ang 0)
    = VTuple [ang ra1; ang dec1] /\
    f_precession_equatorial Rops (ep j1) (ep j0) (ang ra1) (ang dec1) (ang 0) (ang 0)
    = VTuple [ang ra2; ang dec2] /\
    uvec (d2r ra2) (d2r dec2) = uvec (d2r a0) (d2r d0).
Proof.
  destruct (equ_rotation_thm j0 j1 a0 d0 0 0) as (ra1 & dec1 & H1 & _ & _ & V1).
  destruct (equ_rotation_thm j1 j0 ra1 dec1 0 0) as (ra2 & dec2 & H2 & _ & _ & V2).
  exists ra1, dec1, ra2, dec2. split; [exact H1|]. split; [exact H2|].
  rewrite V2, star_nopm, V1, star_nopm. unfold fk5_rot. apply rot_equ_there_and_back.
Qed.

(* precession_ecliptical there and back, both epochs within 5 centuries of J2000 (no proper
   motion): the returned direction is within a chord of 6e-9 (3.44e-7 degree) of the start, hence
   within the property's 1e-6 degree, at every latitude.  Unlike the equatorial set, the
   ecliptical polynomials of the reverse trip are not exact inverses: eta'+eta = -0.00001 t^2
   arcsec and Pi'-Pi-p = 0.0001 t + 0.000042 T^2 t + 0.000042 T t^2 + 0.000006 t^3 arcsec. *)
Lemma ecl_rot_angles j0 j1 v :
  ecl_rot j0 j1 v = rot_ecl (ecl_E (cen J2000 j0) (cen j0 j1)) (ecl_Pi (cen J2000 j0) (cen j0 j1))
                            (ecl_P (cen J2000 j0) (cen j0 j1)) v.
Proof. reflexivity. Qed.

Theorem ecl_there_and_back j0 j1 l0 b0 :
  -5 <= cen J2000 j0 <= 5 -> -5 <= cen J2000 j1 <= 5 ->
  exists lon1 lat1 lon2 lat2,
    f_precession_ecliptical Rops (ep j0) (ep j1) (ang l0) (ang b0) (ang 0) (ang 0)
    = VTuple [ang lon1; ang lat1] /\
    f_precession_ecliptical Rops (ep j1) (ep j0) (ang lon1) (ang lat1) (ang 0) (ang 0)
    = VTuple [ang lon2; ang lat2] /\
    chord (uvec (d2r lon2) (d2r lat2)) (uvec (d2r l0) (d2r b0)) <= 6 / 1000000000 /\
    cos (d2r (1 / 1000000)) <= dot (uvec (d2r lon2) (d2r lat2)) (uvec (d2r l0) (d2r b0)).
Proof.
  intros HT HU.
  destruct (ecl_rotation_thm j0 j1 l0 b0 0 0) as (lon1 & lat1 & H1 & _ & _ & V1).
  destruct (ecl_rotation_thm j1 j0 lon1 lat1 0 0) as (lon2 & lat2 & H2 & _ & _ & V2).
  exists lon1, lat1, lon2, lat2. split; [exact H1|]. split; [exact H2|].
  assert (Hc : chord (uvec (d2r lon2) (d2r lat2)) (uvec (d2r l0) (d2r b0)) <= 6 / 1000000000).
  { rewrite V2, star_nopm, V1, star_nopm. rewrite !ecl_rot_angles.
    set (T := cen J2000 j0) in *. set (U := cen J2000 j1) in *.
    assert (E1 : cen j0 j1 = U - T) by (unfold U, T, cen; field).
    assert (E2 : cen j1 j0 = - (U - T)) by (unfold U, T, cen; field).
    rewrite E1, E2.
    pose proof (rot_ecl_there_and_back T U (uvec (d2r l0) (d2r b0)) HT HU) as Hb. cbv zeta in Hb.
    unfold vnorm in Hb. rewrite uvec_norm, sqrt_1, Rmult_1_r in Hb. exact Hb. }
  split; [exact Hc|].
  apply chord_6e9_within_microdegree; [apply uvec_norm | apply uvec_norm | exact Hc].
Qed.
