(* C06_angle: characterisation lemmas (ideal instance) for the Angle / Epoch pieces the
   precession routines are built from, and a symbolic evaluator [pyrunH] that uses them. *)
From Coq Require Import Reals ZArith List Bool Lra Lia String.
From PyLib Require Import PyVal PyBuiltins Ideal IdealFacts Whnf PyEval Sphere.
From Spec Require Import AngleSpec Precession.
From Gen Require Import M_base M_Angle M_Epoch M_Coordinates.
Import ListNotations.
Open Scope R_scope.

Definition tol0 : R := Rlit 1 (-10).
Definition ang (d : R) : val R := VObj cAngle [VFloat d; VFloat tol0].
Definition angt (d tl : R) : val R := VObj cAngle [VFloat d; VFloat tl].
Definition ep (j : R) : val R := VObj cEpoch [VFloat j].

(* ---- Angle.reduce_deg = red360 ---- *)
Lemma reduce_deg_eq x : Angle_reduce_deg Rops (VFloat x) = VFloat (red360 x).
Proof.
  unfold red360. destruct (Rlt_dec (Rabs x) 360) as [Hs|Hb].
  - pyrun. reflexivity.
  - assert (Ha : 0 <= Rabs x) by apply Rabs_pos.
    pose proof (Rfmod_1_bounds _ Ha) as Hf.
    assert (Hv : IZR (Rtrunc (Rabs x) mod 360) + Rfmod (Rabs x) 1
                 = Rabs x - 360 * IZR (fl (Rabs x / 360))).
    { rewrite Rtrunc_nonneg, Rfmod_1 by assumption.
      rewrite (int_frac_mod (Rabs x) 360) by lia. reflexivity. }
    unfold sgn. destruct (Rle_dec 0 x) as [Hp|Hn].
    + destruct (Req_dec (Rfmod (Rabs x) 1) 0) as [E|E].
      * pyrun. Rlit_norm. rewrite <- Hv, E.
        rewrite (proj2 (Rltb_false 1 0)) by lra. f_equal. lra.
      * assert (0 < Rfmod (Rabs x) 1) by lra.
        pyrun. Rlit_norm. rewrite <- Hv. f_equal. lra.
    + destruct (Req_dec (Rfmod (Rabs x) 1) 0) as [E|E].
      * pyrun. Rlit_norm. rewrite <- Hv, E.
        rewrite (proj2 (Rltb_false 1 0)) by lra. f_equal. lra.
      * assert (0 < Rfmod (Rabs x) 1) by lra.
        pyrun. Rlit_norm. rewrite <- Hv. f_equal. lra.
Qed.

Lemma reduce_deg_small x : Rabs x < 360 -> Angle_reduce_deg Rops (VFloat x) = VFloat x.
Proof. intro H. rewrite reduce_deg_eq, red360_small by assumption. reflexivity. Qed.

(* ---- a symbolic evaluator that stops at characterised functions and rewrites with
        their lemmas instead of evaluating their bodies ---- *)
From Ltac2 Require Ltac2.
Ltac2 Set Whnf.is_blocked := fun c =>
  Ltac2.List.exist (Ltac2.Constr.equal c)
    ['@bind; 'Rltb; 'Rleb; 'Reqb; 'Rfloor; 'Rtrunc; 'Rround; 'is_int; 'Rfmod; 'Rround_nd;
     'Rlit; 'atan2; 'Rpow; 'pow10; 'Rabs; 'sqrt; 'sin; 'cos; 'tan; 'asin; 'acos; 'atan;
     'exp; 'ln; 'Rpower; 'powerRZ; 'IZR; 'PI;
     '@Angle_reduce_deg; '@fmod_py].

Ltac zfold :=
  repeat match goal with
  | |- context [IZR ?z] =>
      lazymatch z with
      | Z0 => fail | Zpos _ => fail | Zneg _ => fail
      | _ => let z' := eval cbn in z in progress change (IZR z) with (IZR z')
      end
  end.

Ltac dbgH s := idtac.
Ltac first_noncanon_arg s k :=
  lazymatch s with
  | ?f ?a =>
      first [ first_noncanon_arg f k
            | let t := type of a in
              lazymatch t with PyVal.val _ => idtac end;
              tryif is_canon a then fail else k a ]
  end.

(* [hook s] rewrites the blocked call [s] (arguments canonical) in the goal, or fails *)
Ltac pyrunH_using hook tac :=
  lazymatch goal with
  | |- ?l = _ =>
    tryif is_canon l then expose_R else
    (* call by value: evaluate the arguments of the head call first (the weak-head
       strategy would copy an unevaluated argument to every place it is used) *)
    tryif first_noncanon_arg l ltac:(fun a =>
            let H := fresh "Hev" in
            eassert (H : a = _) by (pyrunH_using hook tac; py_canon_refl);
            rewrite H; clear H)
    then pyrunH_using hook tac
    else pyrunH_step hook tac
  end
with pyrunH_step hook tac :=
  whnf_lhs;
  lazymatch goal with
  | |- ?l = _ =>
    tryif is_canon l then expose_R else
    first [
      lazymatch l with
      | bind ?e ?k =>
          tryif is_canon e then
            lazymatch e with
            | VErr _ => rewrite (bind_err _ k)
            | _ => rewrite (bind_ok e k) by reflexivity; cbv beta
            end
          else
            let H := fresh "Hev" in
            eassert (H : e = _) by (pyrunH_using hook tac; py_canon_refl);
            rewrite H; clear H
      | VTuple ?xs => first_noncanon xs ltac:(fun x =>
            let H := fresh "Hev" in
            eassert (H : x = _) by (pyrunH_using hook tac; py_canon_refl); rewrite H; clear H)
      | VList ?xs => first_noncanon xs ltac:(fun x =>
            let H := fresh "Hev" in
            eassert (H : x = _) by (pyrunH_using hook tac; py_canon_refl); rewrite H; clear H)
      | VObj _ ?xs => first_noncanon xs ltac:(fun x =>
            let H := fresh "Hev" in
            eassert (H : x = _) by (pyrunH_using hook tac; py_canon_refl); rewrite H; clear H)
      | _ =>
          pose_stuck;
          lazymatch goal with
          | py_stuck := ?s |- _ =>
              clear py_stuck;
              lazymatch s with
              | bind ?e ?k =>
                  let H := fresh "Hev" in
                  eassert (H : bind e k = _) by (pyrunH_using hook tac; py_canon_refl);
                  rewrite H; clear H
              | Rltb _ _ => py_decide_at s tac
              | Rleb _ _ => py_decide_at s tac
              | Reqb _ _ => py_decide_at s tac
              | _ =>
                  (* a blocked call: ask the hook; else make its first non-canonical
                     argument of type val canonical and come back *)
                  dbgH s; first [ hook s
                        | first_noncanon_arg s ltac:(fun a =>
                            let H := fresh "Hev" in
                            eassert (H : a = _) by (pyrunH_using hook tac; py_canon_refl);
                            rewrite H; clear H)
                        | idtac "pyrunH: stuck on" s; fail 1 ]
              end
          end
      end;
      pyrunH_using hook tac
    | idtac ]
  end.

Ltac hook0 tac s :=
  lazymatch s with
  | Angle_reduce_deg _ (VFloat ?x) =>
      first [ rewrite (reduce_deg_small x) by (expose_R; tac) | rewrite (reduce_deg_eq x) ]
  | fmod_py _ ?a ?y => rewrite (fmod_py_nonneg a y) by (expose_R; tac)
  end.
Ltac mydec := first [ pylra | zfold; pylra ].

(* ---- Angle(0, 0, s): dms2deg through reduce_dms ---- *)
Lemma L60_eq : Rlit 600 (-1) = 60.
Proof. Rlit_norm. lra. Qed.

Ltac zabs0 :=
  repeat match goal with
  | |- context [(Z.abs 0 + ?z)%Z] => change (Z.abs 0 + z)%Z with z
  end.
Ltac decA := zabs0; first [ assumption | Rlit_norm_all; zfold; lra ].

Lemma L3600_eq : Rlit 36000 (-1) = 3600.
Proof. Rlit_norm. lra. Qed.

Lemma trunc_div60 (M : Z) : (0 <= M)%Z -> Rtrunc (IZR M / 60) = (M / 60)%Z.
Proof.
  intro H. rewrite Rtrunc_nonneg.
  - rewrite (Rfloor_div_Z (IZR M) 60) by lia. rewrite Rfloor_IZR. reflexivity.
  - apply Rmult_le_pos; [apply IZR_le; assumption | lra].
Qed.

Lemma dms2deg_sec s : Angle_dms2deg Rops (VInt 0) (VInt 0) (VFloat s) = VFloat (dms_sec s).
Proof.
  rewrite <- (red360_small (dms_sec s)) by apply dms_sec_bound.
  assert (Ha : 0 <= Rabs s) by apply Rabs_pos.
  assert (Ha60 : 0 <= Rabs s / 60) by (apply Rmult_le_pos; lra).
  assert (HM0 : (0 <= Rfloor (Rabs s / 60))%Z) by (apply Rfloor_nonneg; assumption).
  assert (H60 : 0 < 60) by lra.
  unfold dms_sec, sgn_sec.
  destruct (Rlt_dec s 0) as [Hn|Hp].
  - assert (Ea : Rabs s = - s) by (apply Rabs_left; lra).
    destruct (Rle_dec 60 (Rabs s)) as [Hb|Hs].
    + destruct (Rle_dec 60 (IZR (Rtrunc (Rabs s / Rlit 600 (-1))))) as [HM|HM].
      * pyrunH_using ltac:(hook0 decA) decA. zabs0. rewrite L60_eq, L3600_eq in *.
        rewrite (Rtrunc_nonneg (Rabs s / 60)) by assumption.
        rewrite trunc_div60 by assumption. rewrite Rfmod_nonneg by lra.
        Rlit_norm. do 2 f_equal. lra.
      * pyrunH_using ltac:(hook0 decA) decA. zabs0. rewrite L60_eq, L3600_eq in *.
        rewrite (Rtrunc_nonneg (Rabs s / 60)) in * by assumption.
        assert (HM1 : (Rfloor (Rabs s / 60) < 60)%Z) by (apply lt_IZR; lra).
        rewrite Z.div_small, (Z.mod_small (Rfloor (Rabs s / 60)) 60) by lia. rewrite Rfmod_nonneg by lra.
        change (Z.abs 0) with 0%Z. change (0 mod 360)%Z with 0%Z.
        Rlit_norm. do 2 f_equal. lra.
    + pyrunH_using ltac:(hook0 decA) decA. rewrite L60_eq, L3600_eq in *.
      rewrite (Rfloor_small (Rabs s / 60)) by lra.
      change (Z.abs 0) with 0%Z. change ((0 / 60) mod 360)%Z with 0%Z.
      change (0 mod 360)%Z with 0%Z. change (0 mod 60)%Z with 0%Z.
      Rlit_norm. do 2 f_equal. lra.
  - assert (Ea : Rabs s = s) by (apply Rabs_right; lra).
    destruct (Rle_dec 60 (Rabs s)) as [Hb|Hs].
    + destruct (Rle_dec 60 (IZR (Rtrunc (Rabs s / Rlit 600 (-1))))) as [HM|HM].
      * pyrunH_using ltac:(hook0 decA) decA. zabs0. rewrite L60_eq, L3600_eq in *.
        rewrite (Rtrunc_nonneg (Rabs s / 60)) by assumption.
        rewrite trunc_div60 by assumption. rewrite Rfmod_nonneg by lra.
        Rlit_norm. do 2 f_equal. lra.
      * pyrunH_using ltac:(hook0 decA) decA. zabs0. rewrite L60_eq, L3600_eq in *.
        rewrite (Rtrunc_nonneg (Rabs s / 60)) in * by assumption.
        assert (HM1 : (Rfloor (Rabs s / 60) < 60)%Z) by (apply lt_IZR; lra).
        rewrite Z.div_small, (Z.mod_small (Rfloor (Rabs s / 60)) 60) by lia. rewrite Rfmod_nonneg by lra.
        change (Z.abs 0) with 0%Z. change (0 mod 360)%Z with 0%Z.
        Rlit_norm. do 2 f_equal. lra.
    + pyrunH_using ltac:(hook0 decA) decA. rewrite L60_eq, L3600_eq in *.
      rewrite (Rfloor_small (Rabs s / 60)) by lra.
      change (Z.abs 0) with 0%Z. change ((0 / 60) mod 360)%Z with 0%Z.
      change (0 mod 360)%Z with 0%Z. change (0 mod 60)%Z with 0%Z.
      Rlit_norm. do 2 f_equal. lra.
Qed.

(* ---- Angle constructors ---- *)
Ltac2 Set Whnf.is_blocked := fun c =>
  Ltac2.List.exist (Ltac2.Constr.equal c)
    ['@bind; 'Rltb; 'Rleb; 'Reqb; 'Rfloor; 'Rtrunc; 'Rround; 'is_int; 'Rfmod; 'Rround_nd;
     'Rlit; 'atan2; 'Rpow; 'pow10; 'Rabs; 'sqrt; 'sin; 'cos; 'tan; 'asin; 'acos; 'atan;
     'exp; 'ln; 'Rpower; 'powerRZ; 'IZR; 'PI;
     '@Angle_reduce_deg; '@fmod_py; '@Angle_dms2deg].

Ltac hook1 tac s :=
  lazymatch s with
  | Angle_reduce_deg _ (VFloat ?x) =>
      first [ rewrite (reduce_deg_small x) by (expose_R; tac) | rewrite (reduce_deg_eq x) ]
  | fmod_py _ ?a ?y => rewrite (fmod_py_nonneg a y) by (expose_R; tac)
  | Angle_dms2deg _ (VInt 0) (VInt 0) (VFloat ?x) => rewrite (dms2deg_sec x)
  end.
Ltac dec1 := first [ assumption | Rlit_norm_all; zfold; lra ].
Ltac pyrun1 := pyrunH_using ltac:(hook1 dec1) dec1.

Definition blankA : val R := VObj cAngle [VNone; VNone].

Lemma Angle_new_sec s :
  Angle___init__ Rops blankA (VTuple [VInt 0; VInt 0; VFloat s]) (VDict []) = ang (dms_sec s).
Proof. pyrun1. reflexivity. Qed.

Lemma Angle_new_deg x :
  Angle___init__ Rops blankA (VTuple [VFloat x]) (VDict []) = ang (red360 x).
Proof. pyrun1. reflexivity. Qed.

Lemma Angle_new_rad x :
  Angle___init__ Rops blankA (VTuple [VFloat x]) (VDict [(VStr "radians", VBool true)])
  = ang (red360 (r2d x)).
Proof. pyrun1. reflexivity. Qed.
