(* C06_route_from: equatorial route against the ecliptical route through the mean obliquity of each
   epoch, finite intervals STARTING at J2000 (T = 0, final epoch within 5 centuries) (pure real analysis on the polynomials of
   Spec/Precession.v; the nine entries of E - R are bounded by interval with Taylor models in the
   one free variable) *)
From Coq Require Import Reals ZArith Lra Lia Psatz.
#[local] Set Warnings "-ambiguous-paths".
From Coquelicot Require Import Coquelicot.
From Interval Require Import Tactic.
From PyLib Require Import PyVal Ideal Sphere.
From Spec Require Import AngleSpec Precession PrecessionBack PrecessionRoute.
Open Scope R_scope.

Ltac route_unfold :=
  unfold chord, E_route, R_route, rot_equ, rot_ecl;
  cbv beta iota delta [Rx Ry Rz vsub];
  eapply Rle_trans; [apply vnorm_le_sum|];
  unfold eps_deg, obl_as, eps0_deg, pi0_deg, zeta_as, z_as, theta_as, eta_as, pi_as, p_as, d2r; decn.

Ltac route_col x b1 b2 b3 :=
  route_unfold;
  match goal with |- Rabs ?a + Rabs ?b + Rabs ?c <= _ =>
    assert (Rabs a <= b1) by (interval with (i_bisect x, i_taylor x, i_degree 12, i_prec 80));
    assert (Rabs b <= b2) by (interval with (i_bisect x, i_taylor x, i_degree 12, i_prec 80));
    assert (Rabs c <= b3) by (interval with (i_bisect x, i_taylor x, i_degree 12, i_prec 80))
  end; lra.

Lemma col1 x : -5 <= x <= 5 ->
  chord (E_route 0 x (1, 0, 0)) (R_route 0 x (1, 0, 0)) <= 10 / 100000000.
Proof. intros Hx. route_col x (1 / 100000000) (6 / 100000000) (3 / 100000000). Qed.

Lemma col2 x : -5 <= x <= 5 ->
  chord (E_route 0 x (0, 1, 0)) (R_route 0 x (0, 1, 0)) <= 39 / 100000000.
Proof. intros Hx. route_col x (6 / 100000000) (1 / 100000000) (32 / 100000000). Qed.

Lemma col3 x : -5 <= x <= 5 ->
  chord (E_route 0 x (0, 0, 1)) (R_route 0 x (0, 0, 1)) <= 36 / 100000000.
Proof. intros Hx. route_col x (3 / 100000000) (32 / 100000000) (1 / 100000000). Qed.

(* chord <= 8.5e-7 |v| (4.9e-5 degree on the unit sphere), below the property's 1e-4 degree *)
Theorem route_from_J2000 x v : -5 <= x <= 5 ->
  chord (E_route 0 x v) (R_route 0 x v) <= 85 / 100000000 * vnorm v.
Proof.
  intros Hx.
  pose proof (route_chord_from_columns 0 x v _ _ _ (col1 x Hx) (col2 x Hx) (col3 x Hx)) as H.
  eapply Rle_trans; [exact H|]. apply Rmult_le_compat_r; [apply vnorm_nonneg | lra].
Qed.
