(* C06_tac: the evaluator configured for the Coordinates functions (blocked callees + lemmas) *)
From Coq Require Import Reals ZArith List Bool Lra Lia String.
From PyLib Require Import PyVal PyBuiltins Ideal IdealFacts Whnf PyEval Sphere.
From Spec Require Import AngleSpec Precession.
From Gen Require Import M_base M_Angle M_Epoch M_Coordinates.
From Proofs.C06 Require Import C06_angle.
Import ListNotations.
Open Scope R_scope.

From Ltac2 Require Ltac2.
Ltac2 Set Whnf.is_blocked := fun c =>
  Ltac2.List.exist (Ltac2.Constr.equal c)
    ['@bind; 'Rltb; 'Rleb; 'Reqb; 'Rfloor; 'Rtrunc; 'Rround; 'is_int; 'Rfmod; 'Rround_nd;
     'Rlit; 'atan2; 'Rpow; 'pow10; 'Rabs; 'sqrt; 'sin; 'cos; 'tan; 'asin; 'acos; 'atan;
     'exp; 'ln; 'Rpower; 'powerRZ; 'IZR; 'PI;
     '@Angle_reduce_deg; '@fmod_py; '@Angle_dms2deg; '@Angle___init__; '@g_JDE2000].

Lemma Angle_new_rad_kw x :
  Angle___init__ Rops blankA (VTuple [VFloat x]) (VDict [kw "radians" (VBool true)])
  = ang (red360 (r2d x)).
Proof. exact (Angle_new_rad x). Qed.

Ltac hook2 tac s :=
  lazymatch s with
  | Angle_reduce_deg _ (VFloat ?x) =>
      first [ rewrite (reduce_deg_small x) by (expose_R; tac) | rewrite (reduce_deg_eq x) ]
  | fmod_py _ ?a ?y => rewrite (fmod_py_nonneg a y) by (expose_R; tac)
  | Angle_dms2deg _ (VInt 0) (VInt 0) (VFloat ?x) => rewrite (dms2deg_sec x)
  | Angle___init__ _ _ (VTuple [VInt 0; VInt 0; VFloat ?x]) (VDict []) => fold blankA; rewrite (Angle_new_sec x)
  | Angle___init__ _ _ (VTuple [VFloat ?x]) (VDict []) => fold blankA; rewrite (Angle_new_deg x)
  | Angle___init__ _ _ (VTuple [VFloat ?x]) (VDict [(VStr "radians", VBool true)]) =>
      fold blankA; rewrite (Angle_new_rad x)
  | Angle___init__ _ _ (VTuple [VFloat ?x]) (VDict [kw "radians" (VBool true)]) =>
      fold blankA; rewrite (Angle_new_rad_kw x)
  | g_JDE2000 _ => match goal with HJ : g_JDE2000 Rops = _ |- _ => rewrite HJ end
  end.
Ltac sqsum :=
  lazymatch goal with
  | |- _ <= ?x * ?x + ?y * ?y =>
      apply Rplus_le_le_0_compat; [exact (Rle_0_sqr x) | exact (Rle_0_sqr y)]
  end.
Ltac dec2 := first [ assumption | sqsum | Rlit_norm_all; zfold; lra ].
Ltac pyrun2 := pyrunH_using ltac:(hook2 dec2) dec2.

Lemma L100_eq : Rlit 1000 (-1) = 100.
Proof. Rlit_norm. lra. Qed.

(* bring the Horner-form expression [e] the code computes to the spec polynomial [p] *)
Ltac poly_to e p :=
  replace e with p by (unfold zeta_as, z_as, theta_as, nz_as, nzeta_as, ntheta_as, eta_as, pi_as, p_as,
                         obl_as, cen, tropcen, B1900; Rlit_norm; dec_norm; field).
