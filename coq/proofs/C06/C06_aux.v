(* C06_aux: closed forms of p_motion_equa2eclip and motion_in_space in the ideal instance *)
From Coq Require Import Reals ZArith List Bool Lra Lia String.
From PyLib Require Import PyVal PyBuiltins Ideal IdealFacts Whnf PyEval Sphere.
From Spec Require Import AngleSpec Precession.
From Gen Require Import M_base M_Angle M_Epoch M_Coordinates.
From Proofs.C06 Require Import C06_angle C06_tac.
Import ListNotations.
Open Scope R_scope.

(* Meeus 21 (proper motion in ecliptical coordinates), all angles in degrees, motions returned in radians *)
Theorem pm_equa2eclip_closed ma md ra dec lat eps :
  cos (d2r lat) <> 0 ->
  let pa := d2r ma in let pd := d2r md in
  let se := sin (d2r eps) in let ce := cos (d2r eps) in
  let sa := sin (d2r ra) in let ca := cos (d2r ra) in
  let sd := sin (d2r dec) in let cd := cos (d2r dec) in
  let cl := cos (d2r lat) in
  f_p_motion_equa2eclip Rops (ang ma) (ang md) (ang ra) (ang dec) (ang lat) (ang eps)
  = VTuple [VFloat ((pd * (se * ca) + pa * cd * (ce * cd + se * sd * sa)) / (cl * cl));
            VFloat ((pd * (ce * cd + se * sd * sa) - pa * cd * (se * ca)) / cl)].
Proof.
  intros Hc pa pd se ce sa ca sd cd cl.
  assert (Hc2 : cos (d2r lat) * cos (d2r lat) <> 0) by (apply Rmult_integral_contrapositive; tauto).
  unfold d2r in Hc, Hc2.
  pyrun2. reflexivity.
Qed.

(* Meeus 21 (motion in space): rectangular position + t * velocity, back to spherical.
   distance in parsecs, velocity in km/s, proper motions in degrees/year (as Angles), time in years *)
Theorem motion_in_space_closed ra dec dist vel ma md tm :
  let a := d2r ra in let d := d2r dec in
  let dr := vel / Rlit 9777920 (-1) in
  let x := dist * cos d * cos a in let y := dist * cos d * sin a in let z := dist * sin d in
  let dx := x / dist * dr - z * d2r md * cos a - y * d2r ma in
  let dy := y / dist * dr - z * d2r md * sin a + x * d2r ma in
  let dz := z / dist * dr + dist * d2r md * cos d in
  let xp := x + tm * dx in let yp := y + tm * dy in let zp := z + tm * dz in
  dist <> 0 -> sqrt (xp * xp + yp * yp) <> 0 ->
  f_motion_in_space Rops (ang ra) (ang dec) (VFloat dist) (VFloat vel) (ang ma) (ang md) (VFloat tm)
  = VTuple [ang (red360 (r2d (atan2 yp xp))); ang (red360 (r2d (atan (zp / sqrt (xp * xp + yp * yp)))))].
Proof.
  intros a d dr x y z dx dy dz xp yp zp Hd Hs.
  unfold xp, yp, zp, dx, dy, dz, x, y, z, dr, a, d, d2r in *.
  pyrun2. reflexivity.
Qed.
