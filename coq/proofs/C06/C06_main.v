(* C06_main: precession is a rigid rotation of the sky -- the theorems, ideal instance *)
From Coq Require Import Reals ZArith List Bool Lra Lia String.
From PyLib Require Import PyVal PyBuiltins Ideal IdealFacts PyEval Sphere.
From Spec Require Import AngleSpec Precession.
From Gen Require Import M_base M_Angle M_Epoch M_Coordinates.
From Proofs.C06 Require Import C06_angle C06_jde C06_equ C06_ecl C06_obl.
Import ListNotations.
Open Scope R_scope.

(* ---- spec level: outputs on the sphere, proper motion as the argument of the rotation ---- *)
Lemma equ_out_sphere ze z th a0 d0 ma md t :
  let o := equ_out ze z th (pm_start a0 ma t) (pm_start d0 md t) in
  uvec (d2r (fst o)) (d2r (snd o))
  = rot_equ (d2r (ze / 3600)) (d2r (z / 3600)) (d2r (th / 3600))
      (uvec (d2r (a0 + 100 * ma * t)) (d2r (d0 + 100 * md * t))).
Proof.
  intros o. unfold o. rewrite equ_out_rotation.
  rewrite (uvec_d2r_cong _ _ _ _ (pm_start_cong a0 ma t) (pm_start_cong d0 md t)). reflexivity.
Qed.

Lemma ecl_out_sphere eta pie p l0 b0 ml mb t :
  let o := ecl_out eta pie p (pm_start l0 ml t) (pm_start b0 mb t) in
  uvec (d2r (fst o)) (d2r (snd o))
  = rot_ecl (d2r (eta / 3600)) (d2r (pie / 3600 + pi0_deg)) (d2r (p / 3600))
      (uvec (d2r (l0 + 100 * ml * t)) (d2r (b0 + 100 * mb * t))).
Proof.
  intros o. unfold o. rewrite ecl_out_rotation.
  rewrite (uvec_d2r_cong _ _ _ _ (pm_start_cong l0 ml t) (pm_start_cong b0 mb t)). reflexivity.
Qed.

(* the FK5 rotation between two epochs (Julian ephemeris days) *)
Definition fk5_rot (j0 j1 : R) : vec -> vec :=
  let T := cen J2000 j0 in let t := cen j0 j1 in
  rot_equ (d2r (zeta_as T t / 3600)) (d2r (z_as T t / 3600)) (d2r (theta_as T t / 3600)).
Definition fk4_rot (j0 j1 : R) : vec -> vec :=
  let T := tropcen B1900 j0 in let t := tropcen j0 j1 in
  rot_equ (d2r (nzeta_as T t / 3600)) (d2r (nz_as T t / 3600)) (d2r (ntheta_as T t / 3600)).
Definition ecl_rot (j0 j1 : R) : vec -> vec :=
  let T := cen J2000 j0 in let t := cen j0 j1 in
  rot_ecl (d2r (eta_as T t / 3600)) (d2r (pi_as T t / 3600 + pi0_deg)) (d2r (p_as T t / 3600)).

(* direction of a star at the start epoch after t centuries of proper motion (degrees / year) *)
Definition star (x0 y0 mx my t : R) : vec := uvec (d2r (x0 + 100 * mx * t)) (d2r (y0 + 100 * my * t)).

(* ---- precession_equatorial ---- *)
Theorem equ_exact j0 j1 a0 d0 ma md :
  let T := cen J2000 j0 in let t := cen j0 j1 in
  let o := equ_out (zeta_as T t) (z_as T t) (theta_as T t) (pm_start a0 ma t) (pm_start d0 md t) in
  f_precession_equatorial Rops (ep j0) (ep j1) (ang a0) (ang d0) (ang ma) (ang md)
  = VTuple [ang (fst o); ang (snd o)].
Proof. exact (equ_closed J2000 j0 j1 a0 d0 ma md jde2000_eq). Qed.

Theorem equ_rotation_thm j0 j1 a0 d0 ma md :
  exists ra dec,
    f_precession_equatorial Rops (ep j0) (ep j1) (ang a0) (ang d0) (ang ma) (ang md)
    = VTuple [ang ra; ang dec]
    /\ -360 < ra < 360 /\ -360 < dec < 360
    /\ uvec (d2r ra) (d2r dec) = fk5_rot j0 j1 (star a0 d0 ma md (cen j0 j1)).
Proof.
  pose proof (equ_exact j0 j1 a0 d0 ma md) as H. cbv zeta in H.
  eexists _, _. split; [exact H|].
  pose proof (equ_out_range (zeta_as (cen J2000 j0) (cen j0 j1)) (z_as (cen J2000 j0) (cen j0 j1))
                (theta_as (cen J2000 j0) (cen j0 j1)) (pm_start a0 ma (cen j0 j1))
                (pm_start d0 md (cen j0 j1))) as [R1 R2].
  split; [exact R1|]. split; [exact R2|].
  unfold fk5_rot, star. apply equ_out_sphere.
Qed.

(* zero interval: the identity on the direction *)
Lemma fk5_rot_id j v : fk5_rot j j v = v.
Proof.
  unfold fk5_rot. rewrite cen_0, zeta_as_0, z_as_0, theta_as_0.
  replace (0 / 3600) with 0 by lra. rewrite d2r_0. apply rot_equ_0.
Qed.
Lemma star_0 x0 y0 mx my : star x0 y0 mx my 0 = uvec (d2r x0) (d2r y0).
Proof. unfold star. f_equal; f_equal; ring. Qed.

Theorem equ_identity j a0 d0 ma md :
  exists ra dec,
    f_precession_equatorial Rops (ep j) (ep j) (ang a0) (ang d0) (ang ma) (ang md)
    = VTuple [ang ra; ang dec]
    /\ uvec (d2r ra) (d2r dec) = uvec (d2r a0) (d2r d0).
Proof.
  destruct (equ_rotation_thm j j a0 d0 ma md) as (ra & dec & H & _ & _ & Hv).
  exists ra, dec. split; [exact H|].
  rewrite Hv, cen_0, fk5_rot_id. apply star_0.
Qed.

(* rigid: the angle between two stars precessed over the same interval is unchanged *)
Lemma fk5_rot_dot j0 j1 u v : dot (fk5_rot j0 j1 u) (fk5_rot j0 j1 v) = dot u v.
Proof. apply rot_equ_dot. Qed.

Theorem equ_isometry j0 j1 a1 d1 ma1 md1 a2 d2 ma2 md2 :
  exists ra1 dec1 ra2 dec2,
    f_precession_equatorial Rops (ep j0) (ep j1) (ang a1) (ang d1) (ang ma1) (ang md1)
    = VTuple [ang ra1; ang dec1] /\
    f_precession_equatorial Rops (ep j0) (ep j1) (ang a2) (ang d2) (ang ma2) (ang md2)
    = VTuple [ang ra2; ang dec2] /\
    dot (uvec (d2r ra1) (d2r dec1)) (uvec (d2r ra2) (d2r dec2))
    = dot (star a1 d1 ma1 md1 (cen j0 j1)) (star a2 d2 ma2 md2 (cen j0 j1)).
Proof.
  destruct (equ_rotation_thm j0 j1 a1 d1 ma1 md1) as (ra1 & dec1 & H1 & _ & _ & V1).
  destruct (equ_rotation_thm j0 j1 a2 d2 ma2 md2) as (ra2 & dec2 & H2 & _ & _ & V2).
  exists ra1, dec1, ra2, dec2. split; [exact H1|]. split; [exact H2|].
  rewrite V1, V2. apply fk5_rot_dot.
Qed.

(* the intermediate vector (B, A, C) of the formulas is a unit vector at EVERY declination,
   and the returned pair is its longitude (+ z) and latitude: no polar exception *)
Theorem equ_unit_vector a0 d0 ze th :
  eqA a0 d0 ze * eqA a0 d0 ze + eqB a0 d0 ze th * eqB a0 d0 ze th + eqC a0 d0 ze th * eqC a0 d0 ze th = 1.
Proof. apply eq_unit. Qed.

(* the rotation is invertible *)
Theorem fk5_rot_invertible j0 j1 : exists g, forall v, g (fk5_rot j0 j1 v) = v.
Proof. unfold fk5_rot. eexists. intro v. apply rot_equ_inv. Qed.

(* ---- precession_newcomb: the same rotation type with Newcomb's angles ---- *)
Theorem newcomb_rotation_thm j0 j1 a0 d0 ma md :
  exists ra dec,
    f_precession_newcomb Rops (ep j0) (ep j1) (ang a0) (ang d0) (ang ma) (ang md)
    = VTuple [ang ra; ang dec]
    /\ -360 < ra < 360 /\ -360 < dec < 360
    /\ uvec (d2r ra) (d2r dec) = fk4_rot j0 j1 (star a0 d0 ma md (tropcen j0 j1)).
Proof.
  pose proof (newcomb_closed j0 j1 a0 d0 ma md) as H. cbv zeta in H.
  eexists _, _. split; [exact H|].
  pose proof (equ_out_range (nzeta_as (tropcen B1900 j0) (tropcen j0 j1)) (nz_as (tropcen B1900 j0) (tropcen j0 j1))
                (ntheta_as (tropcen B1900 j0) (tropcen j0 j1)) (pm_start a0 ma (tropcen j0 j1))
                (pm_start d0 md (tropcen j0 j1))) as [R1 R2].
  split; [exact R1|]. split; [exact R2|].
  unfold fk4_rot, star. apply equ_out_sphere.
Qed.

Lemma fk4_rot_id j v : fk4_rot j j v = v.
Proof.
  unfold fk4_rot. rewrite tropcen_0, nzeta_as_0, nz_as_0, ntheta_as_0.
  replace (0 / 3600) with 0 by lra. rewrite d2r_0. apply rot_equ_0.
Qed.

Theorem newcomb_identity j a0 d0 ma md :
  exists ra dec,
    f_precession_newcomb Rops (ep j) (ep j) (ang a0) (ang d0) (ang ma) (ang md)
    = VTuple [ang ra; ang dec]
    /\ uvec (d2r ra) (d2r dec) = uvec (d2r a0) (d2r d0).
Proof.
  destruct (newcomb_rotation_thm j j a0 d0 ma md) as (ra & dec & H & _ & _ & Hv).
  exists ra, dec. split; [exact H|].
  rewrite Hv, tropcen_0, fk4_rot_id. apply star_0.
Qed.

Lemma fk4_rot_dot j0 j1 u v : dot (fk4_rot j0 j1 u) (fk4_rot j0 j1 v) = dot u v.
Proof. apply rot_equ_dot. Qed.

(* ---- precession_ecliptical ---- *)
Theorem ecl_exact j0 j1 l0 b0 ml mb :
  let T := cen J2000 j0 in let t := cen j0 j1 in
  let o := ecl_out (eta_as T t) (pi_as T t) (p_as T t) (pm_start l0 ml t) (pm_start b0 mb t) in
  f_precession_ecliptical Rops (ep j0) (ep j1) (ang l0) (ang b0) (ang ml) (ang mb)
  = VTuple [ang (fst o); ang (snd o)].
Proof. exact (ecl_closed J2000 j0 j1 l0 b0 ml mb jde2000_eq). Qed.

Theorem ecl_rotation_thm j0 j1 l0 b0 ml mb :
  exists lon lat,
    f_precession_ecliptical Rops (ep j0) (ep j1) (ang l0) (ang b0) (ang ml) (ang mb)
    = VTuple [ang lon; ang lat]
    /\ -360 < lon < 360 /\ -360 < lat < 360
    /\ uvec (d2r lon) (d2r lat) = ecl_rot j0 j1 (star l0 b0 ml mb (cen j0 j1)).
Proof.
  pose proof (ecl_exact j0 j1 l0 b0 ml mb) as H. cbv zeta in H.
  eexists _, _. split; [exact H|].
  pose proof (ecl_out_range (eta_as (cen J2000 j0) (cen j0 j1)) (pi_as (cen J2000 j0) (cen j0 j1))
                (p_as (cen J2000 j0) (cen j0 j1)) (pm_start l0 ml (cen j0 j1))
                (pm_start b0 mb (cen j0 j1))) as [R1 R2].
  split; [exact R1|]. split; [exact R2|].
  unfold ecl_rot, star. apply ecl_out_sphere.
Qed.

Lemma ecl_rot_id j v : ecl_rot j j v = v.
Proof.
  unfold ecl_rot. rewrite cen_0, eta_as_0, p_as_0.
  replace (0 / 3600) with 0 by lra. rewrite d2r_0. apply rot_ecl_0.
Qed.

Theorem ecl_identity j l0 b0 ml mb :
  exists lon lat,
    f_precession_ecliptical Rops (ep j) (ep j) (ang l0) (ang b0) (ang ml) (ang mb)
    = VTuple [ang lon; ang lat]
    /\ uvec (d2r lon) (d2r lat) = uvec (d2r l0) (d2r b0).
Proof.
  destruct (ecl_rotation_thm j j l0 b0 ml mb) as (lon & lat & H & _ & _ & Hv).
  exists lon, lat. split; [exact H|].
  rewrite Hv, cen_0, ecl_rot_id. apply star_0.
Qed.

Lemma ecl_rot_dot j0 j1 u v : dot (ecl_rot j0 j1 u) (ecl_rot j0 j1 v) = dot u v.
Proof. apply rot_ecl_dot. Qed.

Theorem ecl_isometry j0 j1 l1 b1 ml1 mb1 l2 b2 ml2 mb2 :
  exists lo1 la1 lo2 la2,
    f_precession_ecliptical Rops (ep j0) (ep j1) (ang l1) (ang b1) (ang ml1) (ang mb1)
    = VTuple [ang lo1; ang la1] /\
    f_precession_ecliptical Rops (ep j0) (ep j1) (ang l2) (ang b2) (ang ml2) (ang mb2)
    = VTuple [ang lo2; ang la2] /\
    dot (uvec (d2r lo1) (d2r la1)) (uvec (d2r lo2) (d2r la2))
    = dot (star l1 b1 ml1 mb1 (cen j0 j1)) (star l2 b2 ml2 mb2 (cen j0 j1)).
Proof.
  destruct (ecl_rotation_thm j0 j1 l1 b1 ml1 mb1) as (lo1 & la1 & H1 & _ & _ & V1).
  destruct (ecl_rotation_thm j0 j1 l2 b2 ml2 mb2) as (lo2 & la2 & H2 & _ & _ & V2).
  exists lo1, la1, lo2, la2. split; [exact H1|]. split; [exact H2|].
  rewrite V1, V2. apply ecl_rot_dot.
Qed.

Theorem newcomb_isometry j0 j1 a1 d1 ma1 md1 a2 d2 ma2 md2 :
  exists ra1 dec1 ra2 dec2,
    f_precession_newcomb Rops (ep j0) (ep j1) (ang a1) (ang d1) (ang ma1) (ang md1)
    = VTuple [ang ra1; ang dec1] /\
    f_precession_newcomb Rops (ep j0) (ep j1) (ang a2) (ang d2) (ang ma2) (ang md2)
    = VTuple [ang ra2; ang dec2] /\
    dot (uvec (d2r ra1) (d2r dec1)) (uvec (d2r ra2) (d2r dec2))
    = dot (star a1 d1 ma1 md1 (tropcen j0 j1)) (star a2 d2 ma2 md2 (tropcen j0 j1)).
Proof.
  destruct (newcomb_rotation_thm j0 j1 a1 d1 ma1 md1) as (ra1 & dec1 & H1 & _ & _ & V1).
  destruct (newcomb_rotation_thm j0 j1 a2 d2 ma2 md2) as (ra2 & dec2 & H2 & _ & _ & V2).
  exists ra1, dec1, ra2, dec2. split; [exact H1|]. split; [exact H2|].
  rewrite V1, V2. apply fk4_rot_dot.
Qed.

(* ---- mean_obliquity: Laskar's polynomial ---- *)
Theorem obliquity_thm j :
  exists e, f_mean_obliquity Rops (VTuple [ep j]) (VDict []) = ang e
    /\ -360 < e < 360
    /\ cong360 e (eps0_deg + obl_as ((j - J2000) / 3652500) / 3600).
Proof.
  exists (obl_out ((j - J2000) / 3652500)). split; [apply obl_closed|].
  split; [apply red360_range | apply obl_out_cong].
Qed.
