(* C06_route: the finite route theorem in angle form (unit vectors) *)
From Coq Require Import Reals ZArith Lra Lia Psatz.
#[local] Set Warnings "-ambiguous-paths".
From Coquelicot Require Import Coquelicot.
From Interval Require Import Tactic.
From PyLib Require Import PyVal Ideal Sphere.
From Spec Require Import AngleSpec Precession PrecessionBack PrecessionRoute.
From Proofs.C06 Require Import C06_route_from C06_route_to.
Open Scope R_scope.

Lemma R_route_dot T t u v : dot (R_route T t u) (R_route T t v) = dot u v.
Proof. apply rot_equ_dot. Qed.
Lemma E_route_dot T t u v : dot (E_route T t u) (E_route T t v) = dot u v.
Proof. unfold E_route. rewrite dot_Rx, rot_ecl_dot, dot_Rx. reflexivity. Qed.

Lemma chord_85e8_angle u v : dot u u = 1 -> dot v v = 1 ->
  chord u v <= 85 / 100000000 -> cos (d2r (1 / 10000)) <= dot u v.
Proof.
  intros Hu Hv Hc. pose proof (chord_sqr_unit u v Hu Hv) as E.
  assert (0 <= chord u v) by apply vnorm_nonneg.
  assert (chord u v * chord u v <= 7225 / 10000000000000000) by nra.
  assert (cos (d2r (1 / 10000)) <= 1 - 36125 / 100000000000000000).
  { unfold d2r. interval with (i_prec 120). }
  lra.
Qed.

(* one end of the interval at J2000, the other within 5 centuries: for every unit vector v the
   direction obtained through the ecliptic (rotate by -eps(start), precess ecliptically, rotate by
   eps(end)) is within 8.5e-7 (chord) = 4.9e-5 degree of the direction obtained equatorially, hence
   within the property's 1e-4 degree *)
Theorem route_J2000 x v : -5 <= x <= 5 -> dot v v = 1 ->
  (chord (E_route 0 x v) (R_route 0 x v) <= 85 / 100000000 /\
   cos (d2r (1 / 10000)) <= dot (E_route 0 x v) (R_route 0 x v)) /\
  (chord (E_route x (- x) v) (R_route x (- x) v) <= 85 / 100000000 /\
   cos (d2r (1 / 10000)) <= dot (E_route x (- x) v) (R_route x (- x) v)).
Proof.
  intros Hx Hv. assert (Hn : vnorm v = 1) by (unfold vnorm; rewrite Hv; apply sqrt_1).
  pose proof (route_from_J2000 x v Hx) as H1. pose proof (route_to_J2000 x v Hx) as H2.
  rewrite Hn, Rmult_1_r in H1, H2.
  split; (split; [assumption|]); apply chord_85e8_angle; try assumption;
    first [ rewrite E_route_dot; exact Hv | rewrite R_route_dot; exact Hv ].
Qed.
