(* C06_ecl: closed form of precession_ecliptical in the ideal instance *)
From Coq Require Import Reals ZArith List Bool Lra Lia String.
From PyLib Require Import PyVal PyBuiltins Ideal IdealFacts Whnf PyEval Sphere.
From Spec Require Import AngleSpec Precession.
From Gen Require Import M_base M_Angle M_Epoch M_Coordinates.
From Proofs.C06 Require Import C06_angle C06_tac.
Import ListNotations.
Open Scope R_scope.

Lemma Lpi0_eq : Rlit 174876384 (-6) = pi0_deg.
Proof. unfold pi0_deg. Rlit_norm. dec_norm. lra. Qed.

Ltac asindec :=
  lazymatch goal with
  | |- _ <= cos ?e * sin ?b + sin ?e * cos ?b * sin (?p - ?l) => exact (proj1 (ecC_range l b e p))
  | |- cos ?e * sin ?b + sin ?e * cos ?b * sin (?p - ?l) <= _ => exact (proj2 (ecC_range l b e p))
  end.
Ltac dec3 := first [ assumption | sqsum | asindec | Rlit_norm_all; zfold; lra ].
Ltac pyrun3 := pyrunH_using ltac:(hook2 dec3) dec3.

Theorem ecl_closed J j0 j1 l0 b0 ml mb : g_JDE2000 Rops = ep J ->
  let T := cen J j0 in let t := cen j0 j1 in
  let o := ecl_out (eta_as T t) (pi_as T t) (p_as T t) (pm_start l0 ml t) (pm_start b0 mb t) in
  f_precession_ecliptical Rops (ep j0) (ep j1) (ang l0) (ang b0) (ang ml) (ang mb)
  = VTuple [ang (fst o); ang (snd o)].
Proof.
  intros HJ T t o. pyrun3.
  rewrite L100_eq, Lpi0_eq.
  replace ((j1 - j0) / Rlit 365250 (-1)) with t by (unfold t, cen; Rlit_norm; field).
  replace ((j0 - J) / Rlit 365250 (-1)) with T by (unfold T, cen; Rlit_norm; field).
  repeat match goal with
  | |- context [dms_sec ?e] =>
      lazymatch e with
      | eta_as _ _ => fail | pi_as _ _ => fail | p_as _ _ => fail
      | _ => first [ poly_to e (eta_as T t) | poly_to e (pi_as T t) | poly_to e (p_as T t) ]
      end
  end.
  reflexivity.
Qed.
